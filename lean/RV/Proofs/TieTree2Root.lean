import RV.Proofs.TieTree2RootPage
/-!
# The root split of `Tree.Set` on flat memory refines the structural root split

`SetRootSplit` (the root-split phase of the generated `Tree.Set`, `TieTree2Defs.lean`) is cut into
*allocation* (`split(1)`, `newNode(root.bits())`, re-fetching the windows), the *middle* (`rs_mid`:
copy the root into the fresh page, empty the root) and the two `root.set` calls (`rs_sets`).
-/
namespace RV.TreeFlat
open RV.Tree RV.NodeFlat Gen.TreeM

/-! ## the phases -/

/-- `copy(left[:keyOffset(maxKeys)], root); left.setNumKeys(root.numKeys()); zeroOut(root[:keyOffset(maxKeys)]);
root.setNumKeys(0)` -/
def rs_mid {α : Type} (maxKeys : BitVec 64) (t_12 : St) (left_14 root_16 : NodeRef) (cont : St → Option α) : Option α :=
  (Gen.TreeM.sub left_14 0#64 (Gen.Tree.keyOffset maxKeys)).bind fun w_19 =>
  (Gen.TreeM.copyRef t_12 w_19 root_16).bind fun t_20 =>
  (Gen.TreeM.rdNode t_20 root_16 (fun p => Gen.Node.numKeys p maxKeys)).bind fun x_21 =>
  (Gen.TreeM.wrNode t_20 left_14 (fun p => Gen.Node.setNumKeys p maxKeys x_21)).bind fun t_22 =>
  (Gen.TreeM.sub root_16 0#64 (Gen.Tree.keyOffset maxKeys)).bind fun w_23 =>
  (Gen.TreeM.wrNode t_22 w_23 (fun p => Gen.Node.zeroOut p)).bind fun t_24 =>
  (Gen.TreeM.wrNode t_24 root_16 (fun p => Gen.Node.setNumKeys p maxKeys 0#64)).bind fun t_25 =>
  cont t_25

/-- `root.set(left.maxKey(), left.pageID()); root.set(right.maxKey(), right.pageID())` -/
def rs_sets (maxKeys : BitVec 64) (t_25 : St) (left_14 root_16 right_18 : NodeRef) : Option (St × NodeRef) :=
  (Gen.TreeM.rdNode t_25 left_14 (fun p => Gen.Node.maxKey p maxKeys)).bind fun x_26 =>
  (Gen.TreeM.rdNode t_25 left_14 (fun p => Gen.Node.pageID p maxKeys)).bind fun x_27 =>
  (Gen.TreeM.wrNodeR t_25 root_16 (fun p => Gen.Node.set p maxKeys x_26 x_27)).bind fun (t_28, _) =>
  (Gen.TreeM.rdNode t_28 right_18 (fun p => Gen.Node.maxKey p maxKeys)).bind fun x_29 =>
  (Gen.TreeM.rdNode t_28 right_18 (fun p => Gen.Node.pageID p maxKeys)).bind fun x_30 =>
  (Gen.TreeM.wrNodeR t_28 root_16 (fun p => Gen.Node.set p maxKeys x_29 x_30)).bind fun (t_31, _) =>
  some (t_31, root_16)

theorem rs_unfold (pageSize maxKeys : BitVec 64) (t_1 : St) (root_3 : NodeRef) :
    SetRootSplit pageSize maxKeys t_1 root_3 =
      (Gen.TreeM.rdNode t_1 root_3 (fun p => Gen.Node.bits p maxKeys)).bind fun x_5 =>
      (split pageSize maxKeys t_1 1#64).bind fun x =>
      (Gen.TreeM.rdNode x.1 x.2 (fun p => Gen.Node.pageID p maxKeys)).bind fun x_10 =>
      (newNode pageSize maxKeys x.1 x_5).bind fun y =>
      (node pageSize maxKeys y.1 1#64).bind fun root_16 =>
      (node pageSize maxKeys y.1 x_10).bind fun right_18 =>
      rs_mid maxKeys y.1 y.2 root_16 fun t_25 =>
      rs_sets maxKeys t_25 y.2 root_16 right_18 := rfl

/-! ## the middle phase -/

/-- what the two pages read as after the middle phase -/
structure rs_MidPages (cfg : Cfg) (leaf : Bool) (R : Words) (lp : Nat) (L2 E : Words) : Prop where
  sizeL : L2.size = pw cfg
  sizeE : E.size = pw cfg
  okL : PageOk cfg.maxKeys L2
  okE : PageOk cfg.maxKeys E
  entsL : ents cfg.maxKeys L2 = ents cfg.maxKeys R
  entsE : ents cfg.maxKeys E = []
  leafL : leafBit cfg.maxKeys L2 = leaf
  kindL : kindBits cfg.maxKeys L2 = kindOf leaf
  pidL : pidW cfg.maxKeys L2 = w lp
  leafE : leafBit cfg.maxKeys E = leafBit cfg.maxKeys R
  kindE : kindBits cfg.maxKeys E = kindBits cfg.maxKeys R
  pidE : pidW cfg.maxKeys E = pidW cfg.maxKeys R

theorem rs_mid_eq {α : Type} {cfg : Cfg} (hc : CfgFlat cfg) (t : St)
    (q lp : Nat) (hqp : q ≠ lp) (hfq : (q + 1) * pw cfg ≤ t.data.size)
    (hfp : (lp + 1) * pw cfg ≤ t.data.size) (leaf : Bool)
    (hF : FreshPage cfg leaf lp (pageOf cfg t.data lp)) (hR : PageOk cfg.maxKeys (pageOf cfg t.data q))
    (cont : St → Option α) :
    ∃ d L2 E, rs_mid (w cfg.maxKeys) t (refOf cfg t lp) (refOf cfg t q) cont = cont { t with data := d } ∧
      d.size = t.data.size ∧ pageOf cfg d lp = L2 ∧ pageOf cfg d q = E ∧
      (∀ r, r ≠ q → r ≠ lp → (r + 1) * pw cfg ≤ t.data.size → pageOf cfg d r = pageOf cfg t.data r) ∧
      rs_MidPages cfg leaf (pageOf cfg t.data q) lp L2 E := by
  have hmk := hc.mkLt
  have hpw := hc.pw_lt
  have hpwd : pw cfg = 2 * (cfg.maxKeys + 1) := rfl
  have eq1 := succ_mul_pw cfg q
  have ep1 := succ_mul_pw cfg lp
  obtain ⟨R, hRdef⟩ : ∃ R, R = pageOf cfg t.data q := ⟨_, rfl⟩
  obtain ⟨F, hFdef⟩ : ∃ F, F = pageOf cfg t.data lp := ⟨_, rfl⟩
  rw [← hRdef] at hR ⊢
  rw [← hFdef] at hF
  have hRs : R.size = pw cfg := by rw [hRdef]; exact pageOf_size _ _ hfq
  have hFs : F.size = pw cfg := by rw [hFdef]; exact pageOf_size _ _ hfp
  -- the two prefixes
  have hsubL : sub (.win (lp * pw cfg) (pw cfg) t.epoch) (w 0) (w (2 * cfg.maxKeys)) =
      some (.win (lp * pw cfg) (2 * cfg.maxKeys) t.epoch) := by
    rw [sub_win _ _ _ 0 (2 * cfg.maxKeys) (by omega) (by omega) (by omega)]; rfl
  have hsubR : sub (.win (q * pw cfg) (pw cfg) t.epoch) (w 0) (w (2 * cfg.maxKeys)) =
      some (.win (q * pw cfg) (2 * cfg.maxKeys) t.epoch) := by
    rw [sub_win _ _ _ 0 (2 * cfg.maxKeys) (by omega) (by omega) (by omega)]; rfl
  unfold rs_mid
  simp only [refOf, keyOffset_w]
  rw [show (0#64 : BitVec 64) = w 0 from rfl]
  simp only [hsubL, hsubR, Option.bind_some]
  -- copy(left[:2*maxKeys], root)
  obtain ⟨s, hsdef⟩ : ∃ s, s = R.extract 0 (2 * cfg.maxKeys) := ⟨_, rfl⟩
  have hss : s.size = 2 * cfg.maxKeys := by rw [hsdef, Array.size_extract]; omega
  have hsg : ∀ j, j < 2 * cfg.maxKeys → s[j]! = R[j]! := by
    intro j hj
    rw [hsdef, extract_get! R 0 (2 * cfg.maxKeys) j (by omega) (by omega), Nat.zero_add]
  have hcopy : copyRef t (.win (lp * pw cfg) (2 * cfg.maxKeys) t.epoch) (.win (q * pw cfg) (pw cfg) t.epoch) =
      some { t with data := blitAt t.data (lp * pw cfg) s } := by
    unfold copyRef
    rw [view_any t (lp * pw cfg) (2 * cfg.maxKeys) _ rfl (by omega), view_win t q _ rfl hfq]
    simp only [Option.bind_some]
    have hk : min (page t.data (lp * pw cfg) (2 * cfg.maxKeys)).size (pageOf cfg t.data q).size = 2 * cfg.maxKeys := by
      rw [page_size _ _ _ (by omega), pageOf_size _ _ hfq]; omega
    rw [hk, ← hRdef, ← hsdef]
  rw [hcopy]
  simp only [Option.bind_some]
  obtain ⟨d6, hd6⟩ : ∃ d6, d6 = blitAt t.data (lp * pw cfg) s := ⟨_, rfl⟩
  rw [← hd6]
  have hd6s : d6.size = t.data.size := by rw [hd6]; exact blitAt_size _ _ _
  have hL1 : pageOf cfg d6 lp = blitAt F 0 s := by
    have := pageOf_blitAt_in (cfg := cfg) t.data s lp 0 hfp (by rw [hss]; omega)
    rw [hd6, hFdef]; simpa using this
  have hR6 : pageOf cfg d6 q = R := by
    have := pageOf_blitAt_out (cfg := cfg) t.data s lp q 0 hqp hfp hfq (by rw [hss]; omega)
    rw [hd6, hRdef]; simpa using this
  -- root.numKeys()
  rw [rdNode_win (cfg := cfg) { t with data := d6 } q t.epoch rfl (by simp only []; omega)]
  simp only []
  rw [hR6, numKeys_w (by omega) (by omega)]
  simp only [Option.bind_some]
  -- left.setNumKeys
  have hL1w : ∀ j, j < 2 * (cfg.maxKeys + 1) →
      (blitAt F 0 s)[j]! = if j < 2 * cfg.maxKeys then R[j]! else F[j]! := by
    intro j hj
    rw [blitAt_get _ _ _ _ (by rw [hss, hFs]; omega), hss]
    by_cases hlt : j < 2 * cfg.maxKeys
    · rw [if_pos (by omega), if_pos hlt, show j - 0 = j by omega]
      exact hsg j hlt
    · rw [if_neg (by omega), if_neg hlt]
  obtain ⟨L2, hL2, hL2s, hL2ok, hL2e, hL2l, hL2k, hL2p⟩ :=
    rs_left_page (cfg := cfg) rfl hmk R F (blitAt F 0 s) leaf lp hR hF (blitAt_size _ _ _) hL1w
  rw [wrNode_win (cfg := cfg) { t with data := d6 } lp t.epoch rfl (by simp only []; omega) _ L2
    (by simp only []; rw [hL1]; exact hL2) (by omega)]
  simp only [Option.bind_some]
  obtain ⟨d7, hd7⟩ : ∃ d7, d7 = setPage cfg d6 lp L2 := ⟨_, rfl⟩
  rw [← hd7]
  have hd7s : d7.size = t.data.size := by rw [hd7, setPage_size]; exact hd6s
  have hR7 : pageOf cfg d7 q = R := by
    rw [hd7, pageOf_setPage_ne _ _ _ _ hqp (by omega) (by omega) (by omega)]; exact hR6
  -- zeroOut(root[:2*maxKeys])
  have hzero : wrNode { t with data := d7 } (.win (q * pw cfg) (2 * cfg.maxKeys) t.epoch) (fun p => Gen.Node.zeroOut p) =
      some { t with data := blitAt d7 (q * pw cfg) (Array.replicate (2 * cfg.maxKeys) 0#64) } := by
    unfold wrNode
    rw [view_any _ (q * pw cfg) (2 * cfg.maxKeys) _ rfl (by simp only []; omega)]
    simp only [Option.bind_some]
    rw [zeroOut_any _ (by rw [page_size _ _ _ (by omega)]; omega)]
    simp only [Option.bind_some, page_size _ _ _ (show q * pw cfg + 2 * cfg.maxKeys ≤ d7.size by omega)]
    unfold putBack
    simp
  rw [hzero]
  simp only [Option.bind_some]
  obtain ⟨d8, hd8⟩ : ∃ d8, d8 = blitAt d7 (q * pw cfg) (Array.replicate (2 * cfg.maxKeys) 0#64) := ⟨_, rfl⟩
  rw [← hd8]
  have hd8s : d8.size = t.data.size := by rw [hd8, blitAt_size]; exact hd7s
  have hzs : (Array.replicate (2 * cfg.maxKeys) (0#64 : BitVec 64)).size = 2 * cfg.maxKeys := by simp
  have hR1 : pageOf cfg d8 q = blitAt R 0 (Array.replicate (2 * cfg.maxKeys) 0#64) := by
    have := pageOf_blitAt_in (cfg := cfg) d7 (Array.replicate (2 * cfg.maxKeys) 0#64) q 0 (by omega)
      (by rw [hzs]; omega)
    rw [hR7] at this
    rw [hd8]; simpa using this
  have hL8 : pageOf cfg d8 lp = L2 := by
    have := pageOf_blitAt_out (cfg := cfg) d7 (Array.replicate (2 * cfg.maxKeys) 0#64) q lp 0 (Ne.symm hqp) (by omega)
      (by omega) (by rw [hzs]; omega)
    have h2 : pageOf cfg d8 lp = pageOf cfg d7 lp := by rw [hd8]; simpa using this
    rw [h2, hd7, pageOf_setPage_self _ _ _ (by omega) (by omega)]
  have hR1w : ∀ j, j < 2 * (cfg.maxKeys + 1) → (blitAt R 0 (Array.replicate (2 * cfg.maxKeys) 0#64))[j]! =
      if j < 2 * cfg.maxKeys then 0#64 else R[j]! := by
    intro j hj
    rw [blitAt_get _ _ _ _ (by rw [hzs, hRs]; omega), hzs]
    by_cases hin : j < 2 * cfg.maxKeys
    · rw [if_pos (by omega), if_pos hin]
      rw [getElem!_pos _ _ (by simp; omega)]; simp
    · rw [if_neg (by omega), if_neg hin]
  obtain ⟨E, hE, hEs, hEok, hEe, hEl, hEk, hEp⟩ :=
    rs_empty_page hmk R (blitAt R 0 (Array.replicate (2 * cfg.maxKeys) 0#64)) hR (blitAt_size _ _ _) hR1w
  rw [wrNode_win (cfg := cfg) { t with data := d8 } q t.epoch rfl (by simp only []; omega) _ E
    (by simp only []; rw [hR1]; exact hE) (by omega)]
  simp only [Option.bind_some]
  refine ⟨setPage cfg d8 q E, L2, E, rfl, by rw [setPage_size]; exact hd8s, ?_,
    pageOf_setPage_self _ _ _ (by omega) (by omega), ?_, ?_⟩
  · rw [pageOf_setPage_ne _ _ _ _ (Ne.symm hqp) (by omega) (by omega) (by omega)]; exact hL8
  · intro r hrq hrp hfr
    rw [pageOf_setPage_ne _ _ _ _ hrq (by omega) (by omega) (by omega)]
    have h8 := pageOf_blitAt_out (cfg := cfg) d7 (Array.replicate (2 * cfg.maxKeys) 0#64) q r 0 hrq (by omega) (by omega)
      (by rw [hzs]; omega)
    have h8' : pageOf cfg d8 r = pageOf cfg d7 r := by rw [hd8]; simpa using h8
    rw [h8', hd7, pageOf_setPage_ne _ _ _ _ hrp (by omega) (by omega) (by omega)]
    have h6 := pageOf_blitAt_out (cfg := cfg) t.data s lp r 0 hrp hfp hfr (by rw [hss]; omega)
    rw [hd6]; simpa using h6
  · exact ⟨by omega, by omega, hL2ok, hEok, hL2e, hEe, hL2l, hL2k, hL2p, hEl, hEk, hEp⟩

/-! ## the two `root.set` calls -/

theorem rs_sets_eq {cfg : Cfg} (hc : CfgFlat cfg) (t : St) (q lp p1 : Nat) (hqp : q ≠ p1)
    (hfq : (q + 1) * pw cfg ≤ t.data.size) (hfl : (lp + 1) * pw cfg ≤ t.data.size)
    (hfp : (p1 + 1) * pw cfg ≤ t.data.size)
    (hE : PageOk cfg.maxKeys (pageOf cfg t.data q)) (hEe : ents cfg.maxKeys (pageOf cfg t.data q) = [])
    (hL : PageOk cfg.maxKeys (pageOf cfg t.data lp)) (hLp : pidW cfg.maxKeys (pageOf cfg t.data lp) = w lp)
    (hLn : 0 < nkeys cfg.maxKeys (pageOf cfg t.data lp))
    (hP : PageOk cfg.maxKeys (pageOf cfg t.data p1)) (hPp : pidW cfg.maxKeys (pageOf cfg t.data p1) = w p1)
    (hPn : 0 < nkeys cfg.maxKeys (pageOf cfg t.data p1))
    (kv1 kv2 : List (Key × Val)) (ad1 ad2 : Nat)
    (h1 : nodeSet cfg.maxKeys ([] : List (Key × Val)) (RV.Tree.maxKey (ents cfg.maxKeys (pageOf cfg t.data lp))) (w lp) =
      some (kv1, ad1))
    (h2 : nodeSet cfg.maxKeys kv1 (RV.Tree.maxKey (ents cfg.maxKeys (pageOf cfg t.data p1))) (w p1) = some (kv2, ad2)) :
    ∃ d, rs_sets (w cfg.maxKeys) t (refOf cfg t lp) (refOf cfg t q) (refOf cfg t p1) =
        some ({ t with data := d }, refOf cfg t q) ∧
      d.size = t.data.size ∧ PageOk cfg.maxKeys (pageOf cfg d q) ∧ ents cfg.maxKeys (pageOf cfg d q) = kv2 ∧
      pidW cfg.maxKeys (pageOf cfg d q) = pidW cfg.maxKeys (pageOf cfg t.data q) ∧
      kindBits cfg.maxKeys (pageOf cfg d q) = kindBits cfg.maxKeys (pageOf cfg t.data q) ∧
      leafBit cfg.maxKeys (pageOf cfg d q) = leafBit cfg.maxKeys (pageOf cfg t.data q) ∧
      (∀ r, r ≠ q → (r + 1) * pw cfg ≤ t.data.size → pageOf cfg d r = pageOf cfg t.data r) := by
  have hmk := hc.mkLt
  have hmk1 := hc.mk1
  have hpw := hc.pw_lt
  have hpwd : pw cfg = 2 * (cfg.maxKeys + 1) := rfl
  obtain ⟨E, hEdef⟩ : ∃ E, E = pageOf cfg t.data q := ⟨_, rfl⟩
  obtain ⟨L, hLdef⟩ : ∃ L, L = pageOf cfg t.data lp := ⟨_, rfl⟩
  obtain ⟨P, hPdef⟩ : ∃ P, P = pageOf cfg t.data p1 := ⟨_, rfl⟩
  rw [← hEdef] at hE hEe ⊢
  rw [← hLdef] at hL hLp hLn h1
  rw [← hPdef] at hP hPp hPn h2
  have hEs : E.size = pw cfg := by rw [hEdef]; exact pageOf_size _ _ hfq
  have hLs := hL.1
  have hPs := hP.1
  unfold rs_sets
  simp only [refOf]
  -- left.maxKey(), left.pageID()
  rw [rdNode_win t lp _ rfl hfl, ← hLdef, maxKey_w hL.1 (by omega) hL.2.1 (rs_maxKey_side hL hmk1)]
  simp only [Option.bind_some]
  rw [rdNode_win t lp _ rfl hfl, ← hLdef, pageID_w hL.1 (by omega), hLp]
  simp only [Option.bind_some]
  -- root.set(left …)
  have h1' : nodeSet cfg.maxKeys (ents cfg.maxKeys E) (RV.Tree.maxKey (ents cfg.maxKeys L)) (w lp) = some (kv1, ad1) := by
    rw [hEe]; exact h1
  obtain ⟨E1, hE1, hsz1, hents1, _, _, hpid1, hkind1, hleaf1, _⟩ := set_some hE hmk _ (w lp) kv1 ad1 h1'
  have hok1 : PageOk cfg.maxKeys E1 := set_pageOk hE hmk _ (w lp) (rs_maxKey_ne hL hmk hLn) kv1 ad1 h1' E1 _ hE1
  have hE1s : E1.size = pw cfg := by omega
  rw [wrNodeR_win (cfg := cfg) t q t.epoch rfl hfq _ E1 (w ad1) (by rw [← hEdef]; exact hE1) hE1s]
  simp only [Option.bind_some]
  obtain ⟨d1, hd1⟩ : ∃ d1, d1 = setPage cfg t.data q E1 := ⟨_, rfl⟩
  rw [← hd1]
  have hd1s : d1.size = t.data.size := by rw [hd1, setPage_size]
  have hP1 : pageOf cfg d1 p1 = P := by
    rw [hd1, pageOf_setPage_ne _ _ _ _ (Ne.symm hqp) hfq hfp hE1s]; exact hPdef.symm
  have hQ1 : pageOf cfg d1 q = E1 := by rw [hd1, pageOf_setPage_self _ _ _ hfq hE1s]
  -- right.maxKey(), right.pageID()
  rw [rdNode_win (cfg := cfg) { t with data := d1 } p1 t.epoch rfl (by simp only []; omega)]
  simp only []
  rw [hP1, maxKey_w hP.1 (by omega) hP.2.1 (rs_maxKey_side hP hmk1)]
  simp only [Option.bind_some]
  rw [rdNode_win (cfg := cfg) { t with data := d1 } p1 t.epoch rfl (by simp only []; omega)]
  simp only []
  rw [hP1, pageID_w hP.1 (by omega), hPp]
  simp only [Option.bind_some]
  -- root.set(right …)
  have h2' : nodeSet cfg.maxKeys (ents cfg.maxKeys E1) (RV.Tree.maxKey (ents cfg.maxKeys P)) (w p1) = some (kv2, ad2) := by
    rw [hents1]; exact h2
  obtain ⟨E2, hE2, hsz2, hents2, _, _, hpid2, hkind2, hleaf2, _⟩ := set_some hok1 hmk _ (w p1) kv2 ad2 h2'
  have hok2 : PageOk cfg.maxKeys E2 := set_pageOk hok1 hmk _ (w p1) (rs_maxKey_ne hP hmk hPn) kv2 ad2 h2' E2 _ hE2
  have hE2s : E2.size = pw cfg := by omega
  rw [wrNodeR_win (cfg := cfg) { t with data := d1 } q t.epoch rfl (by simp only []; omega) _ E2 (w ad2)
    (by simp only []; rw [hQ1]; exact hE2) hE2s]
  simp only [Option.bind_some]
  have hQ2 : pageOf cfg (setPage cfg d1 q E2) q = E2 := pageOf_setPage_self _ _ _ (by omega) hE2s
  refine ⟨setPage cfg d1 q E2, rfl, by rw [setPage_size]; exact hd1s, ?_, ?_, ?_, ?_, ?_, ?_⟩
  · rw [hQ2]; exact hok2
  · rw [hQ2]; exact hents2
  · rw [hQ2, hpid2, hpid1]
  · rw [hQ2, hkind2, hkind1]
  · rw [hQ2, hleaf2, hleaf1]
  · intro r hrq hfr
    rw [pageOf_setPage_ne _ _ _ _ hrq (by omega) (by omega) hE2s, hd1,
      pageOf_setPage_ne _ _ _ _ hrq hfq hfr hE1s]

/-! ## the assembly -/

theorem SetRootSplit_refines {cfg : Cfg} (hc : CfgFlat cfg) (hmk2 : 2 ≤ cfg.maxKeys) (t : St) (a : Alloc)
    (hinv : AllocInv cfg t a) (hb1 : (a.nextPage + 2) * pw cfg < 2 ^ 40)
    (es : List (Key × Node)) (hr : TreeFlat.Repr cfg t.data (.inner 1 es)) (hfull : es.length = cfg.maxKeys)
    (hlive : Live a (.inner 1 es))
    (es1 es2 : List (Key × Node)) (ad1 ad2 : Nat)
    (h1 : nodeSet cfg.maxKeys ([] : List (Key × Node))
        (Node.inner (RV.Tree.newNode cfg (RV.Tree.newNode cfg a).2).1 (splitLeft cfg.maxKeys es)).maxKey
        (Node.inner (RV.Tree.newNode cfg (RV.Tree.newNode cfg a).2).1 (splitLeft cfg.maxKeys es)) = some (es1, ad1))
    (h2 : nodeSet cfg.maxKeys es1
        (Node.inner (RV.Tree.newNode cfg a).1 (splitRight cfg.maxKeys es)).maxKey
        (Node.inner (RV.Tree.newNode cfg a).1 (splitRight cfg.maxKeys es)) = some (es2, ad2)) :
    ∃ t', SetRootSplit (w cfg.pageSize) (w cfg.maxKeys) t (refOf cfg t 1) = some (t', refOf cfg t' 1) ∧
      TreeFlat.Repr cfg t'.data (.inner 1 es2) ∧
      AllocInv cfg t' (RV.Tree.newNode cfg (RV.Tree.newNode cfg a).2).2 ∧
      t.data.size ≤ t'.data.size ∧
      (∀ r, r ≠ 1 → r ≠ (RV.Tree.newNode cfg a).1 → r ≠ (RV.Tree.newNode cfg (RV.Tree.newNode cfg a).2).1 →
        (r + 1) * pw cfg ≤ t.data.size → pageOf cfg t'.data r = pageOf cfg t.data r) := by
  have hmk := hc.mkLt
  have hpw := hc.pw_lt
  have hpwd : pw cfg = 2 * (cfg.maxKeys + 1) := rfl
  have hpos := pw_pos cfg
  obtain ⟨hpg, hre⟩ := repr_inner hr
  obtain ⟨hle, h1ne, h1free, h1lt⟩ := hlive.inner
  have hlen : (entWords es).length = cfg.maxKeys := by rw [entWords_length]; exact hfull
  have e2 : (a.nextPage + 2) * pw cfg = (a.nextPage + 1) * pw cfg + pw cfg := succ_mul_pw cfg (a.nextPage + 1)
  have hb1' : (a.nextPage + 1) * pw cfg < 2 ^ 40 := by omega
  have hsz1 := hpg.ok.1
  -- bits of the root
  rw [rs_unfold, rdNode_refOf t 1 hpg.fit, bits_w hpg.ok.1 (by omega), hpg.kind, kindWord_of_kind]
  simp only [Option.bind_some]
  -- right := t.split(1)
  obtain ⟨t7, h7, o7⟩ := split_refines hc hmk2 t a hinv.scal hinv.chain hinv.nodup hinv.below hinv.npos hb1'
    hinv.small 1 false (entWords es) hpg hlen h1free h1lt
  have hinv7 := AllocInv.ofNewNode hinv o7.scal o7.chain o7.nextMono o7.small
  have hnext := rs_newNode_next cfg a
  obtain ⟨a1, ha1def⟩ : ∃ a1, a1 = (RV.Tree.newNode cfg a).2 := ⟨_, rfl⟩
  obtain ⟨p1, hp1def⟩ : ∃ p1, p1 = (RV.Tree.newNode cfg a).1 := ⟨_, rfl⟩
  rw [← ha1def] at h1 o7 hinv7 hnext ⊢
  rw [← hp1def] at h2 h7 o7 ⊢
  rw [show (1#64 : BitVec 64) = w 1 from rfl, h7]
  simp only [Option.bind_some]
  have hszp := o7.right.ok.1
  rw [rdNode_refOf t7 p1 o7.right.fit, pageID_w hszp (by omega), o7.right.pid]
  simp only [Option.bind_some]
  -- left := t.newNode(bits)
  have hb1'' : (a1.nextPage + 1) * pw cfg < 2 ^ 40 := by
    have : (a1.nextPage + 1) * pw cfg ≤ (a.nextPage + 2) * pw cfg := Nat.mul_le_mul_right _ (by omega)
    omega
  obtain ⟨t12, h12, o12⟩ := newNode_refines hc t7 a1 hinv7.scal hinv7.chain hinv7.nodup hinv7.below hinv7.npos
    hb1'' hinv7.small false
  obtain ⟨lp, hlpdef⟩ : ∃ lp, lp = (RV.Tree.newNode cfg a1).1 := ⟨_, rfl⟩
  rw [← hlpdef] at h1 h12 o12 ⊢
  rw [h12]
  simp only [Option.bind_some]
  -- the three pages are distinct, and distinct from the children's pages
  have hg7 := o7.grow
  have hg12 := o12.grow
  have hmono7 := o7.nextMono
  have hnp := hinv.npos
  have h1p1 : (1 : Nat) ≠ p1 := Ne.symm o7.ne
  have h1lp : (1 : Nat) ≠ lp := by
    rcases o12.which with h | ⟨h, _⟩
    · intro e; exact h1free (o7.freeSub _ (e ▸ h))
    · omega
  have hp1lp : p1 ≠ lp := by
    rcases o12.which with h | ⟨h, _⟩
    · intro e; exact o7.notFree (e ▸ h)
    · rcases o7.which with h' | ⟨h', h''⟩
      · have := hinv.below p1 h'; omega
      · omega
  have hchildren : ∀ r ∈ pidsEnts es, r ≠ 1 ∧ r ≠ p1 ∧ r ≠ lp := by
    intro r hrm
    have hl := hle.live r hrm
    refine ⟨fun e => h1ne (e ▸ hrm), ?_, ?_⟩
    · rcases o7.which with h | ⟨h, _⟩
      · intro e; exact hl.1 (e ▸ h)
      · omega
    · rcases o12.which with h | ⟨h, _⟩
      · intro e; exact hl.1 (o7.freeSub _ (e ▸ h))
      · omega
  -- re-fetch root and right
  have hf1_7 : (1 + 1) * pw cfg ≤ t7.data.size := o7.left.fit
  have hf1_12 : (1 + 1) * pw cfg ≤ t12.data.size := by omega
  have hfp_7 : (p1 + 1) * pw cfg ≤ t7.data.size := o7.right.fit
  have hfp_12 : (p1 + 1) * pw cfg ≤ t12.data.size := by omega
  rw [node_w hc t12 1 (by omega) hf1_12 o12.small]
  simp only [Option.bind_some]
  rw [node_w hc t12 p1 o7.right.pos hfp_12 o12.small]
  simp only [Option.bind_some]
  -- the middle phase
  have hR12 : pageOf cfg t12.data 1 = pageOf cfg t7.data 1 := o12.frame 1 h1lp hf1_7
  have hP12 : pageOf cfg t12.data p1 = pageOf cfg t7.data p1 := o12.frame p1 hp1lp hfp_7
  obtain ⟨d25, L2, E, hmid, hd25s, hL25, hE25, hframe25, mp⟩ :=
    rs_mid_eq hc t12 1 lp h1lp hf1_12 o12.fit false o12.fresh (by rw [hR12]; exact o7.left.ok)
      (fun t_25 => rs_sets (w cfg.maxKeys) t_25 (refOf cfg t12 lp) (refOf cfg t12 1) (refOf cfg t12 p1))
  rw [hmid]
  rw [hR12] at mp
  -- the two root.set
  have hP25 : pageOf cfg d25 p1 = pageOf cfg t7.data p1 := by
    rw [hframe25 p1 (Ne.symm h1p1) hp1lp hfp_12]; exact hP12
  have hentsL : ents cfg.maxKeys L2 = entWords (splitLeft cfg.maxKeys es) := by
    rw [mp.entsL, o7.left.ents, entWords_splitLeft]
  have hentsP : ents cfg.maxKeys (pageOf cfg t7.data p1) = entWords (splitRight cfg.maxKeys es) := by
    rw [o7.right.ents, entWords_splitRight]
  have hLn : 0 < nkeys cfg.maxKeys L2 := by
    rw [← ents_length, mp.entsL, o7.left.ents, splitLeft_eq _ (by omega), List.length_take, hlen]; omega
  have hPn : 0 < nkeys cfg.maxKeys (pageOf cfg t7.data p1) := by
    rw [← ents_length, o7.right.ents, splitRight_eq _ (by omega) hlen, List.length_drop, hlen]; omega
  have h1w : nodeSet cfg.maxKeys ([] : List (Key × Val)) (RV.Tree.maxKey (ents cfg.maxKeys L2)) (w lp) =
      some (entWords es1, ad1) := by
    have := nodeSet_mapV childWord cfg.maxKeys ([] : List (Key × Node)) (RV.Tree.maxKey (splitLeft cfg.maxKeys es))
      (Node.inner lp (splitLeft cfg.maxKeys es))
    rw [show nodeSet cfg.maxKeys ([] : List (Key × Node)) (RV.Tree.maxKey (splitLeft cfg.maxKeys es))
      (Node.inner lp (splitLeft cfg.maxKeys es)) = some (es1, ad1) from h1] at this
    rw [hentsL]
    simp only [entWords_eq_mapV, maxKey_mapV]
    exact this
  have h2w : nodeSet cfg.maxKeys (entWords es1) (RV.Tree.maxKey (ents cfg.maxKeys (pageOf cfg t7.data p1))) (w p1) =
      some (entWords es2, ad2) := by
    have := nodeSet_mapV childWord cfg.maxKeys es1 (RV.Tree.maxKey (splitRight cfg.maxKeys es))
      (Node.inner p1 (splitRight cfg.maxKeys es))
    rw [show nodeSet cfg.maxKeys es1 (RV.Tree.maxKey (splitRight cfg.maxKeys es))
      (Node.inner p1 (splitRight cfg.maxKeys es)) = some (es2, ad2) from h2] at this
    rw [hentsP]
    simp only [entWords_eq_mapV, maxKey_mapV]
    exact this
  obtain ⟨d', hsets, hd's, hok', hents', hpid', hkind', hleaf', hframe'⟩ :=
    rs_sets_eq hc { t12 with data := d25 } 1 lp p1 h1p1 (by simp only []; omega) (by simp only []; have := o12.fit; omega)
      (by simp only []; omega)
      (by simp only []; rw [hE25]; exact mp.okE) (by simp only []; rw [hE25]; exact mp.entsE)
      (by simp only []; rw [hL25]; exact mp.okL) (by simp only []; rw [hL25]; exact mp.pidL)
      (by simp only []; rw [hL25]; exact hLn)
      (by simp only []; rw [hP25]; exact o7.right.ok) (by simp only []; rw [hP25]; exact o7.right.pid)
      (by simp only []; rw [hP25]; exact hPn)
      (entWords es1) (entWords es2) ad1 ad2
      (by simp only []; rw [hL25]; exact h1w) (by simp only []; rw [hP25]; exact h2w)
  have hsets' : rs_sets (w cfg.maxKeys) { t12 with data := d25 } (refOf cfg t12 lp) (refOf cfg t12 1) (refOf cfg t12 p1) =
      some ({ t12 with data := d' }, refOf cfg t12 1) := hsets
  rw [hsets']
  simp only [] at hd's hok' hents' hpid' hkind' hleaf' hframe'
  rw [hE25] at hpid' hkind' hleaf'
  -- frames
  have hframe12 : ∀ r, r ≠ 1 → r ≠ lp → (r + 1) * pw cfg ≤ t12.data.size → pageOf cfg d' r = pageOf cfg t12.data r := by
    intro r hr1 hrl hfr
    rw [hframe' r hr1 (by omega)]
    exact hframe25 r hr1 hrl hfr
  have hframe0 : ∀ r, r ≠ 1 → r ≠ p1 → r ≠ lp → (r + 1) * pw cfg ≤ t.data.size →
      pageOf cfg d' r = pageOf cfg t.data r := by
    intro r hr1 hrp hrl hfr
    rw [hframe12 r hr1 hrl (by omega), o12.frame r hrl (by omega)]
    exact o7.frame r hrp hr1 hfr
  refine ⟨{ t12 with data := d' }, rfl, ?_, ?_, ?_, hframe0⟩
  · -- the new root
    show TreeFlat.Repr cfg d' (.inner 1 es2)
    have hchild : ReprEnts cfg d' es := by
      refine reprEnts_frame (by omega) es (fun r hrm hfr => ?_) hre
      obtain ⟨c1, c2, c3⟩ := hchildren r hrm
      exact hframe0 r c1 c2 c3 hfr
    have hleft : TreeFlat.Repr cfg d' (Node.inner lp (splitLeft cfg.maxKeys es)) := by
      have hpage : pageOf cfg d' lp = L2 := by
        rw [hframe' lp (Ne.symm h1lp) (by have := o12.fit; omega)]; exact hL25
      rw [TreeFlat.Repr]
      refine ⟨⟨o12.pos, by have := o12.fit; omega, ?_, ?_, ?_, ?_, ?_⟩, ?_⟩
      · rw [hpage]; exact mp.okL
      · rw [hpage]; exact mp.leafL
      · rw [hpage]; exact mp.kindL
      · rw [hpage]; exact mp.pidL
      · rw [hpage]; exact hentsL
      · unfold splitLeft; exact reprEnts_take _ _ (reprEnts_take _ _ hchild)
    have hright : TreeFlat.Repr cfg d' (Node.inner p1 (splitRight cfg.maxKeys es)) := by
      have hpage : pageOf cfg d' p1 = pageOf cfg t7.data p1 := by
        rw [hframe12 p1 (Ne.symm h1p1) hp1lp hfp_12]; exact hP12
      rw [TreeFlat.Repr]
      refine ⟨?_, ?_⟩
      · rw [← entWords_splitRight]
        exact pageOf_frame (by omega) hpage o7.right
      · unfold splitRight; exact reprEnts_take _ _ (reprEnts_drop _ _ hchild)
    rw [TreeFlat.Repr]
    refine ⟨⟨by omega, by omega, hok', ?_, ?_, ?_, hents'⟩, ?_⟩
    · rw [hleaf', mp.leafE]; exact o7.left.isLeaf
    · rw [hkind', mp.kindE]; exact o7.left.kind
    · rw [hpid', mp.pidE]; exact o7.left.pid
    · apply rs_reprEnts_of_forall
      intro e he
      rcases rs_nodeSet_mem _ _ _ _ _ _ h2 e he with he1 | he1
      · rcases rs_nodeSet_mem _ _ _ _ _ _ h1 e he1 with he0 | he0
        · simp at he0
        · rw [he0]; exact hleft
      · rw [he1]; exact hright
  · -- the allocator
    refine AllocInv.ofNewNode hinv7 ?_ ?_ o12.nextMono ?_
    · exact ⟨o12.scal.nextPage, o12.scal.freePage, o12.scal.leafKeys, o12.scal.pagesFree,
        by show 8 * d'.size = _; rw [hd's, hd25s]; exact o12.scal.dataLen, o12.scal.curSz, o12.scal.bufOffset,
        o12.scal.fault⟩
    · show FreeChain cfg d' _
      refine freeChain_frame (by omega) _ (fun r hrm hfr => ?_) o12.chain
      have hrl : r ≠ lp := fun e => o12.notFree (e ▸ hrm)
      have hr1 : r ≠ 1 := fun e => h1free (o7.freeSub _ (o12.freeSub _ (e ▸ hrm)))
      exact hframe12 r hr1 hrl hfr
    · show d'.size < 2 ^ 40
      have := o12.small; omega
  · show t.data.size ≤ d'.size
    omega

end RV.TreeFlat
