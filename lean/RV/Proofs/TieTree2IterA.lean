import RV.Proofs.TieTree2Compact
import RV.Proofs.TreeIter
/-!
# `Tree.IterateKV` (generated whole) on flat memory, part A: the callback on one page

The callback `IterateKV` hands to `Tree.iterate` (`it_cb`, cut out of the generated text by `rfl`)
leaves an inner page alone and turns a leaf page with entries `es` into one with `leafIter f es`.
-/
namespace RV.TreeFlat
open RV.Tree RV.NodeFlat Gen.TreeM Gen.Tree

/-- the callback `Tree.IterateKV` passes to `Tree.Iterate` -/
def it_cb (maxKeys : BitVec 64) (f : BitVec 64 → BitVec 64 → BitVec 64) : St → Unit → NodeRef → Option (St × Unit) :=
  fun (t_1 : St) (_ : Unit) (n_2 : NodeRef) =>
      (Gen.TreeM.rdNode t_1 n_2 (fun p => Gen.Node.isLeaf p maxKeys)).bind fun x_3 =>
      if (!x_3) then
        some (t_1, ())
      else
      (Gen.TreeM.forDyn (ρ := (St × Unit)) 0#64
          (fun (s_ : St) =>
            match s_ with
            | t_4 =>
            (Gen.TreeM.rdNode t_4 n_2 (fun p => Gen.Node.numKeys p maxKeys)).bind fun x_5 =>
            some x_5)
          (IterateKV_loop1 f n_2) t_1).bind fun
        | Gen.LoopRes.ret v => some v
        | Gen.LoopRes.done t_14 _ =>
          some (t_14, ())

theorem it_IterateKV_eq (pageSize maxKeys : BitVec 64) (fuel : Nat) (t : St) (f : BitVec 64 → BitVec 64 → BitVec 64) :
    Gen.TreeM.IterateKV pageSize maxKeys fuel t f =
      (Gen.TreeM.Iterate pageSize maxKeys fuel t () (it_cb maxKeys f)).bind fun (t_15, _) => some t_15 := rfl

theorem it_set_mid {α : Type} (l : List α) (e e' : α) (r : List α) :
    (l ++ e :: r).set l.length e' = l ++ e' :: r := by
  induction l with
  | nil => rfl
  | cons x l ih => simp only [List.cons_append, List.length_cons, List.set_cons_succ, ih]

/-- one round of the loop over the entries of a leaf page -/
theorem it_leaf_step {cfg : Cfg} (hc : CfgFlat cfg) (f : Key → Val → Val) (p ep : Nat) (t : St) (hep : ep = t.epoch)
    (l : List (Key × Val)) (e : Key × Val) (r : List (Key × Val))
    (hpg : PageOf cfg t.data p true (l ++ e :: r)) :
    ∃ d', IterateKV_loop1 f (.win (p * pw cfg) (pw cfg) ep) (w l.length) t = some (.next { t with data := d' }) ∧
      d'.size = t.data.size ∧ PageOf cfg d' p true (l ++ rewrite f e :: r) ∧
      (∀ q, q ≠ p → (q + 1) * pw cfg ≤ t.data.size → pageOf cfg d' q = pageOf cfg t.data q) := by
  have hmk := hc.mkLt
  have hs := hpg.ok.1
  have hnk : nkeys cfg.maxKeys (pageOf cfg t.data p) = (l ++ e :: r).length := by
    rw [← ents_length, hpg.ents]
  have hi : l.length < nkeys cfg.maxKeys (pageOf cfg t.data p) := by rw [hnk]; simp
  have hle := hpg.ok.2.1
  have hget : (l ++ e :: r)[l.length]? = some e := by simp
  have h2 := ents_get? (mk := cfg.maxKeys) (p := pageOf cfg t.data p) l.length
  rw [hpg.ents, hget, if_pos hi] at h2
  simp only [Option.some.injEq] at h2
  have hkey : Gen.Node.key (pageOf cfg t.data p) (w l.length) = some e.1 := by
    rw [key_w (by omega) (by omega), h2]
  have hval : Gen.Node.val (pageOf cfg t.data p) (w l.length) = some e.2 := by
    rw [val_w (by omega) (by omega), h2]
  simp only [IterateKV_loop1]
  rw [rdNode_win t p ep hep hpg.fit, hkey]
  simp only [Option.bind_some]
  rw [rdNode_win t p ep hep hpg.fit, hval]
  simp only [Option.bind_some]
  by_cases hv : e.2 = 0#64
  · have hrw : rewrite f e = e := by unfold rewrite iterSkip; simp [hv]
    simp only [hv, BEq.rfl, if_true]
    refine ⟨t.data, rfl, rfl, by rw [hrw]; exact hpg, fun _ _ _ => rfl⟩
  · have hv' : (e.2 == 0#64) = false := by simpa using hv
    simp only [hv', Bool.false_eq_true, if_false]
    by_cases hn : f e.1 e.2 = 0#64
    · have hrw : rewrite f e = e := by unfold rewrite iterSkip iterWrite; simp [hv, hn]
      simp only [hn, bne_self_eq_false, Bool.false_eq_true, if_false, Option.bind_some]
      refine ⟨t.data, rfl, rfl, by rw [hrw]; exact hpg, fun _ _ _ => rfl⟩
    · have hn' : (f e.1 e.2 != 0#64) = true := by simpa using hn
      have hrw : rewrite f e = (e.1, f e.1 e.2) := by unfold rewrite iterSkip iterWrite; simp [hv, hn]
      simp only [hn', if_true]
      obtain ⟨pg, hpgd⟩ : ∃ pg, pg = (pageOf cfg t.data p).set! (2 * l.length + 1) (f e.1 e.2) := ⟨_, rfl⟩
      obtain ⟨hok2, hl2, hk2, hp2, he2⟩ := nc_setval_page hpg.ok l.length hi (f e.1 e.2)
      rw [← hpgd] at hok2 hl2 hk2 hp2 he2
      have hpgs : pg.size = pw cfg := by rw [hpgd, RV.size_set!, pageOf_size _ _ hpg.fit]
      have hset : Gen.Node.setAt (pageOf cfg t.data p) (Gen.Tree.valOffset (w l.length)) (f e.1 e.2) = some pg := by
        rw [valOffset_w, hpgd]; exact setAt_w _ (by omega) (by omega)
      rw [wrNode_win (cfg := cfg) t p ep hep hpg.fit _ pg hset hpgs]
      simp only [Option.bind_some]
      have hself := pageOf_setPage_self (cfg := cfg) t.data p pg hpg.fit hpgs
      refine ⟨setPage cfg t.data p pg, rfl, setPage_size _ _ _ _, ?_, ?_⟩
      · refine ⟨hpg.pos, by rw [setPage_size]; exact hpg.fit, ?_, ?_, ?_, ?_, ?_⟩
        · rw [hself]; exact hok2
        · rw [hself, hl2]; exact hpg.isLeaf
        · rw [hself, hk2]; exact hpg.kind
        · rw [hself, hp2]; exact hpg.pid
        · rw [hself, he2, hpg.ents, hrw, it_set_mid]
          have : keyW (pageOf cfg t.data p) l.length = e.1 := by rw [h2]
          rw [this]
      · intro q hq hfq
        exact pageOf_setPage_ne _ _ _ _ hq hpg.fit hfq hpgs

/-- the re-evaluated bound `n.numKeys()` of the loop in the callback -/
def it_bound (maxKeys : BitVec 64) (n_2 : NodeRef) : St → Option (BitVec 64) :=
  fun (s_ : St) =>
    match s_ with
    | t_4 =>
    (Gen.TreeM.rdNode t_4 n_2 (fun p => Gen.Node.numKeys p maxKeys)).bind fun x_5 =>
    some x_5

theorem it_bound_eq {cfg : Cfg} (hc : CfgFlat cfg) (p ep : Nat) (t : St) (hep : ep = t.epoch)
    (es : List (Key × Val)) (hpg : PageOf cfg t.data p true es) :
    it_bound (w cfg.maxKeys) (.win (p * pw cfg) (pw cfg) ep) t = some (w es.length) := by
  have hmk := hc.mkLt
  have hs := hpg.ok.1
  unfold it_bound
  simp only []
  rw [rdNode_win t p ep hep hpg.fit, numKeys_w hs (by omega), ← ents_length, hpg.ents]
  rfl

theorem it_leaf_loop {cfg : Cfg} (hc : CfgFlat cfg) (f : Key → Val → Val) (p ep : Nat) :
    ∀ (r l : List (Key × Val)) (fuel : Nat) (t : St), ep = t.epoch → r.length < fuel →
      PageOf cfg t.data p true (l ++ r) →
      ∃ d', forDynGo (ρ := St × Unit) (it_bound (w cfg.maxKeys) (.win (p * pw cfg) (pw cfg) ep))
            (IterateKV_loop1 f (.win (p * pw cfg) (pw cfg) ep)) fuel (w l.length) t =
              some (.done { t with data := d' } (w (l ++ r).length)) ∧
        d'.size = t.data.size ∧ PageOf cfg d' p true (l ++ leafIter f r) ∧
        (∀ q, q ≠ p → (q + 1) * pw cfg ≤ t.data.size → pageOf cfg d' q = pageOf cfg t.data q)
  | [], l, fuel, t, hep, hfuel, hpg => by
    have hmk := hc.mkLt
    have hle : (l ++ []).length ≤ cfg.maxKeys := by
      have := hpg.ok.2.1; rw [← ents_length, hpg.ents] at this; exact this
    obtain ⟨fuel', rfl⟩ : ∃ k, fuel = k + 1 := ⟨fuel - 1, by simp at hfuel; omega⟩
    refine ⟨t.data, ?_, rfl, by simpa [leafIter] using hpg, fun _ _ _ => rfl⟩
    rw [forDynGo, it_bound_eq hc p ep t hep _ hpg]
    simp only [Option.bind_some, List.append_nil]
    simp only [List.append_nil] at hle
    rw [w_slt (by omega) (by omega)]
    simp
  | e :: r, l, fuel, t, hep, hfuel, hpg => by
    have hmk := hc.mkLt
    have hle : (l ++ e :: r).length ≤ cfg.maxKeys := by
      have := hpg.ok.2.1; rw [← ents_length, hpg.ents] at this; exact this
    have hlt : l.length < (l ++ e :: r).length := by simp
    obtain ⟨fuel', rfl⟩ : ∃ k, fuel = k + 1 := ⟨fuel - 1, by simp at hfuel; omega⟩
    obtain ⟨d1, hstep, hsz1, hpg1, hfr1⟩ := it_leaf_step hc f p ep t hep l e r hpg
    have hpg1' : PageOf cfg ({ t with data := d1 } : St).data p true ((l ++ [rewrite f e]) ++ r) := by
      rw [List.append_assoc]; exact hpg1
    obtain ⟨d2, hgo, hsz2, hpg2, hfr2⟩ := it_leaf_loop hc f p ep r (l ++ [rewrite f e]) fuel' { t with data := d1 } hep
      (by simp at hfuel; omega) hpg1'
    have hll : (l ++ [rewrite f e]).length = l.length + 1 := by simp
    have hlen2 : ((l ++ [rewrite f e]) ++ r).length = (l ++ e :: r).length := by simp
    rw [hll, hlen2] at hgo
    refine ⟨d2, ?_, by rw [hsz2]; exact hsz1, ?_, ?_⟩
    · rw [forDynGo, it_bound_eq hc p ep t hep _ hpg]
      simp only [Option.bind_some]
      rw [w_slt (by omega) (by omega)]
      simp only [hlt, decide_true, if_true]
      rw [hstep]
      simp only []
      rw [cp_w_succ]
      exact hgo
    · rw [List.append_assoc] at hpg2
      exact hpg2
    · intro q hq hfq
      rw [hfr2 q hq (by simp only []; rw [hsz1]; exact hfq)]
      exact hfr1 q hq hfq

/-- the callback on a leaf page -/
theorem it_cb_leaf {cfg : Cfg} (hc : CfgFlat cfg) (f : Key → Val → Val) (p : Nat) (t : St)
    (es : List (Key × Val)) (hpg : PageOf cfg t.data p true es) :
    ∃ d', it_cb (w cfg.maxKeys) f t () (refOf cfg t p) = some ({ t with data := d' }, ()) ∧
      d'.size = t.data.size ∧ PageOf cfg d' p true (leafIter f es) ∧
      (∀ q, q ≠ p → (q + 1) * pw cfg ≤ t.data.size → pageOf cfg d' q = pageOf cfg t.data q) := by
  have hmk := hc.mkLt
  have hs := hpg.ok.1
  have hle : es.length ≤ cfg.maxKeys := by
    have := hpg.ok.2.1; rw [← ents_length, hpg.ents] at this; exact this
  obtain ⟨d', hgo, hsz, hpg', hfr⟩ := it_leaf_loop hc f p t.epoch es [] (2 ^ 64) t rfl (by omega) hpg
  refine ⟨d', ?_, hsz, hpg', hfr⟩
  unfold it_cb
  simp only []
  rw [rdNode_refOf t p hpg.fit, isLeaf_w hs (by omega), hpg.isLeaf]
  simp only [Option.bind_some, Bool.not_true, Bool.false_eq_true, if_false]
  unfold forDyn
  have h0 : (0#64 : BitVec 64) = w ([] : List (Key × Val)).length := rfl
  rw [h0]
  simp only [refOf]
  have := hgo
  unfold it_bound at this
  rw [this]
  rfl

/-- the callback on an inner page -/
theorem it_cb_inner {cfg : Cfg} (hc : CfgFlat cfg) (f : Key → Val → Val) (p : Nat) (t : St)
    (kv : List (Key × Val)) (hpg : PageOf cfg t.data p false kv) :
    it_cb (w cfg.maxKeys) f t () (refOf cfg t p) = some (t, ()) := by
  have hmk := hc.mkLt
  have hs := hpg.ok.1
  unfold it_cb
  simp only []
  rw [rdNode_refOf t p hpg.fit, isLeaf_w hs (by omega), hpg.isLeaf]
  rfl

end RV.TreeFlat
