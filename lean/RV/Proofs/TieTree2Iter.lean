import RV.Proofs.TieTree2IterA
/-!
# `Tree.IterateKV` (generated whole) refines the structural `iterateKV`

The recursion of `Tree.iterate` with the rewriting callback of `IterateKV` (`it_cb`, part A): the callback
is applied to the node first, then (inner node) the loop over the slots visits the children up to the first
zeroed key; every recursive call rewrites only pages of its own subtree.
-/
namespace RV.TreeFlat
open RV.Tree RV.NodeFlat Gen.TreeM Gen.Tree

/-- what `Tree.iterate` does with the result of its loop -/
def it_fin : Gen.LoopRes (St × Unit) (St × Unit) → Option (St × Unit)
  | Gen.LoopRes.ret v => some v
  | Gen.LoopRes.done (t_14, c_15) _ => some (t_14, c_15)

theorem it_iterate_succ (pageSize maxKeys : BitVec 64) (fuel : Nat) (t : St) (n : NodeRef)
    (fn : St → Unit → NodeRef → Option (St × Unit)) :
    iterate pageSize maxKeys (fuel + 1) t () n fn =
      (fn t () n).bind fun x =>
      (Gen.TreeM.rdNode x.1 n (fun p => Gen.Node.isLeaf p maxKeys)).bind fun x_3 =>
      if x_3 then some (x.1, x.2) else
      (Gen.forRange (ρ := (St × Unit)) 0#64 maxKeys
        (iterate_loop1 pageSize maxKeys (iterate pageSize maxKeys fuel) n fn) (x.1, x.2)).bind it_fin := by
  rw [iterate]
  congr 1
  funext x
  obtain ⟨a, b⟩ := x
  simp only []
  congr 1
  funext x_3
  congr 1
  congr 1
  funext r
  cases r with
  | ret v => rfl
  | done s i => rfl

theorem it_iterNode_pid (f : Key → Val → Val) (n : Node) : (iterNode f n).1.pid = n.pid := by
  cases n with
  | null => rw [iterNode]
  | leaf p es => rw [iterNode]; rfl
  | inner p es => rw [iterNode]; rfl

theorem it_iterNode_inner (f : Key → Val → Val) (p : Nat) (es : List (Key × Node)) :
    (iterNode f (.inner p es)).1 = .inner p (iterEnts f es).1 := by
  rw [iterNode]

theorem it_iterEnts_cons (f : Key → Val → Val) (ki : Key) (c : Node) (rest : List (Key × Node))
    (hstop : iterStop ki = false) :
    (iterEnts f ((ki, c) :: rest)).1 = (ki, (iterNode f c).1) :: (iterEnts f rest).1 := by
  rw [iterEnts]
  simp only [hstop, Bool.false_eq_true, if_false]

theorem it_entWords_iterEnts {mk : Nat} (f : Key → Val → Val) : ∀ (es : List (Key × Node)) (lo : Key),
    okEnts mk es lo → entWords (iterEnts f es).1 = entWords es
  | [], _, _ => by rw [iterEnts]
  | (ki, c) :: rest, lo, h => by
    have hloki := okNode_lo_lt_hi h.1
    have hstop : iterStop ki = false := by unfold iterStop; simp; bv_omega
    rw [it_iterEnts_cons f ki c rest hstop]
    simp only [entWords, childWord, it_iterNode_pid]
    rw [it_entWords_iterEnts f rest ki h.2]

/-- what one call of the generated `Tree.iterate` (as `self`) with the callback of `IterateKV` delivers -/
def it_Post (cfg : Cfg) (f : Key → Val → Val)
    (self : St → Unit → NodeRef → (St → Unit → NodeRef → Option (St × Unit)) → Option (St × Unit))
    (n : Node) (t : St) : Prop :=
  ∃ d', self t () (refOf cfg t n.pid) (it_cb (w cfg.maxKeys) f) = some ({ t with data := d' }, ()) ∧
    d'.size = t.data.size ∧ TreeFlat.Repr cfg d' (iterNode f n).1 ∧
    (∀ r, r ∉ pids n → (r + 1) * pw cfg ≤ t.data.size → pageOf cfg d' r = pageOf cfg t.data r)

theorem it_loop {cfg : Cfg} (hc : CfgFlat cfg) (f : Key → Val → Val)
    (self : St → Unit → NodeRef → (St → Unit → NodeRef → Option (St × Unit)) → Option (St × Unit)) (fuel : Nat)
    (IH : ∀ (c : Node) (b : Nat) (lo hi : Key) (t : St), height c ≤ fuel →
      okNode cfg.maxKeys b c lo hi → TreeFlat.Repr cfg t.data c → (pids c).Nodup → t.data.size < 2 ^ 40 →
      it_Post cfg f self c t)
    (p ep : Nat) :
    ∀ (rest l' : List (Key × Node)) (k : Nat) (lo : Key) (t : St),
      l'.length + k = cfg.maxKeys → ep = t.epoch →
      PageOf cfg t.data p false (entWords (l' ++ rest)) →
      ReprEnts cfg t.data rest → (pidsEnts rest).Nodup → p ∉ pidsEnts rest →
      okEnts cfg.maxKeys rest lo → heightEnts rest ≤ fuel → t.data.size < 2 ^ 40 →
      ∃ d', (Gen.forGo (w cfg.maxKeys) (iterate_loop1 (w cfg.pageSize) (w cfg.maxKeys) self
              (.win (p * pw cfg) (pw cfg) ep) (it_cb (w cfg.maxKeys) f)) k (w l'.length) (t, ())).bind it_fin =
            some ({ t with data := d' }, ()) ∧
        d'.size = t.data.size ∧ ReprEnts cfg d' (iterEnts f rest).1 ∧
        (∀ r, r ∉ pidsEnts rest → (r + 1) * pw cfg ≤ t.data.size → pageOf cfg d' r = pageOf cfg t.data r)
  | [], l', k, lo, t, hlk, hep, hpg, _, _, _, _, _, _ => by
    have hmk := hc.mkLt
    refine ⟨t.data, ?_, rfl, by rw [iterEnts, ReprEnts]; trivial, fun _ _ _ => rfl⟩
    cases k with
    | zero =>
      have hl : l'.length = cfg.maxKeys := by omega
      simp only [Gen.forGo, hl]
      rw [w_slt (by omega) (by omega)]
      simp [it_fin]
    | succ k =>
      have hi : l'.length < cfg.maxKeys := by omega
      simp only [Gen.forGo]
      rw [w_slt (by omega) (by omega)]
      simp only [hi, decide_true, if_true]
      simp only [iterate_loop1]
      rw [rdNode_win t p ep hep hpg.fit, key_keyAt hpg.ok (by omega) hi, hpg.ents]
      have hk0 : keyAt (entWords (l' ++ [])) l'.length = 0#64 := by
        unfold keyAt
        rw [List.getElem?_eq_none (by simp [entWords_length])]
      rw [hk0]
      simp [it_fin]
  | (ki, c) :: rest, l', k, lo, t, hlk, hep, hpg, hre, hnd, hpn, hoke, hh, hsmall => by
    have hmk := hc.mkLt
    have hs := hpg.ok.1
    rw [okEnts] at hoke
    have hloki := okNode_lo_lt_hi hoke.1
    have hstop : iterStop ki = false := by unfold iterStop; simp; bv_omega
    have hki0 : (ki == 0#64) = false := hstop
    have hcn : c ≠ .null := okNode_ne_null hoke.1
    rw [ReprEnts] at hre
    obtain ⟨hrc, hrer⟩ := hre
    obtain ⟨lfc, kvc, hcpg, _, _⟩ := repr_pageOf c hcn hrc
    have hnk : nkeys cfg.maxKeys (pageOf cfg t.data p) = (l' ++ (ki, c) :: rest).length := by
      rw [← ents_length, hpg.ents, entWords_length]
    have hi : l'.length < nkeys cfg.maxKeys (pageOf cfg t.data p) := by rw [hnk]; simp
    have hle := hpg.ok.2.1
    have hiN : l'.length < cfg.maxKeys := by omega
    obtain ⟨k', rfl⟩ : ∃ k', k = k' + 1 := ⟨k - 1, by omega⟩
    have hgetl : (l' ++ (ki, c) :: rest)[l'.length]? = some (ki, c) := by simp
    have h2' := ents_get? (mk := cfg.maxKeys) (p := pageOf cfg t.data p) l'.length
    rw [hpg.ents, entWords_get?, hgetl, if_pos hi] at h2'
    simp only [Option.map_some, Option.some.injEq, Prod.mk.injEq] at h2'
    have hkey : Gen.Node.key (pageOf cfg t.data p) (w l'.length) = some ki := by
      rw [key_w (by omega) (by omega), ← h2'.1]
    have hval : Gen.Node.uint64 (pageOf cfg t.data p) (w (2 * l'.length + 1)) = some (w c.pid) := by
      rw [uint64_w (by omega) (by omega)]
      exact congrArg some h2'.2.symm
    have hplt : c.pid < 2 ^ 40 := by
      have hpos := pw_pos cfg
      have e1 := succ_mul_pw cfg c.pid
      have hfit := hcpg.fit
      rcases Nat.lt_or_ge c.pid (2 ^ 40) with h | h
      · exact h
      · have : 2 ^ 40 * 1 ≤ c.pid * pw cfg := Nat.mul_le_mul h hpos
        omega
    have hult : BitVec.ult 0#64 (w c.pid) = true := by
      have := w_ult (a := 0) (b := c.pid) (by omega) (by omega)
      rw [show (w 0 : BitVec 64) = 0#64 from rfl] at this; rw [this]; simpa using hcpg.pos
    -- distinct pages
    simp only [pidsEnts] at hnd hpn
    obtain ⟨hndc, hndr, hdisj⟩ := List.nodup_append.mp hnd
    have hpc : p ∉ pids c := fun hm => hpn (List.mem_append.mpr (Or.inl hm))
    have hpr : p ∉ pidsEnts rest := fun hm => hpn (List.mem_append.mpr (Or.inr hm))
    have hhc : height c ≤ fuel := by rw [heightEnts] at hh; omega
    have hhr : heightEnts rest ≤ fuel := by rw [heightEnts] at hh; omega
    -- the recursive call
    obtain ⟨d1, hself, hsz1, hr1, hfr1⟩ := IH c _ lo ki t hhc hoke.1 hrc hndc hsmall
    have hpids1 : pids (iterNode f c).1 = pids c :=
      (iterNode_spec cfg.maxKeys f c _ lo ki hoke.1).2.2.2.2.1
    have hpg1 : PageOf cfg ({ t with data := d1 } : St).data p false (entWords ((l' ++ [(ki, c)]) ++ rest)) := by
      rw [List.append_assoc]
      exact pageOf_frame (show t.data.size ≤ d1.size by omega) (hfr1 p hpc hpg.fit) hpg
    have hrer1 : ReprEnts cfg ({ t with data := d1 } : St).data rest :=
      reprEnts_frame (show t.data.size ≤ d1.size by omega) rest (fun q hq hfq =>
        hfr1 q (fun hm => hdisj q hm q hq rfl) hfq) hrer
    have hll : (l' ++ [(ki, c)]).length = l'.length + 1 := by simp
    obtain ⟨d2, hgo, hsz2, hre2, hfr2⟩ :=
      it_loop hc f self fuel IH p ep rest (l' ++ [(ki, c)]) k' ki { t with data := d1 }
        (by rw [hll]; omega) hep hpg1 hrer1 hndr hpr hoke.2 hhr (show d1.size < 2 ^ 40 by omega)
    rw [hll] at hgo
    have hsz2' : d2.size = d1.size := hsz2
    refine ⟨d2, ?_, by rw [hsz2]; exact hsz1, ?_, ?_⟩
    · simp only [Gen.forGo]
      rw [w_slt (by omega) (by omega)]
      simp only [hiN, decide_true, if_true]
      simp only [iterate_loop1]
      rw [rdNode_win t p ep hep hpg.fit, hkey]
      simp only [Option.bind_some, hki0, Bool.false_eq_true, if_false]
      rw [rdNode_win t p ep hep hpg.fit, valOffset_w, hval]
      simp only [Option.bind_some, hult, Gen.guard, if_true]
      rw [node_w hc t c.pid hcpg.pos hcpg.fit hsmall]
      simp only [Option.bind_some]
      rw [hself]
      simp only [Option.bind_some]
      rw [cp_w_succ]
      exact hgo
    · rw [it_iterEnts_cons f ki c rest hstop, ReprEnts]
      refine ⟨repr_frame (by omega) _ (fun q hq hfq => ?_) hr1, hre2⟩
      rw [hpids1] at hq
      exact hfr2 q (fun hm => hdisj q hq q hm rfl) hfq
    · intro r hr hrfit
      have hrc' : r ∉ pids c := fun hm => hr (by simp only [pidsEnts, List.mem_append]; exact Or.inl hm)
      have hrr : r ∉ pidsEnts rest := fun hm => hr (by simp only [pidsEnts, List.mem_append]; exact Or.inr hm)
      rw [hfr2 r hrr (by simp only []; rw [hsz1]; exact hrfit)]
      exact hfr1 r hrc' hrfit

theorem it_leaf {cfg : Cfg} (hc : CfgFlat cfg) (f : Key → Val → Val) (fuel : Nat) (p : Nat) (es : List (Key × Val))
    (t : St) (hr : TreeFlat.Repr cfg t.data (.leaf p es)) :
    it_Post cfg f (iterate (w cfg.pageSize) (w cfg.maxKeys) (fuel + 1)) (.leaf p es) t := by
  have hpg := repr_leaf hr
  have hmk := hc.mkLt
  obtain ⟨d', hcb, hsz, hpg', hfr⟩ := it_cb_leaf hc f p t es hpg
  have hs' := hpg'.ok.1
  unfold it_Post
  simp only [Node.pid]
  rw [it_iterate_succ, hcb]
  simp only [Option.bind_some, refOf]
  rw [rdNode_win (cfg := cfg) { t with data := d' } p t.epoch rfl hpg'.fit, isLeaf_w hs' (by omega), hpg'.isLeaf]
  simp only [Option.bind_some, if_true]
  refine ⟨d', rfl, hsz, by rw [iterNode, TreeFlat.Repr]; exact hpg', ?_⟩
  intro r hr hfit
  exact hfr r (by simpa [pids] using hr) hfit

theorem it_inner {cfg : Cfg} (hc : CfgFlat cfg) (f : Key → Val → Val) (fuel : Nat)
    (IH : ∀ (c : Node) (b : Nat) (lo hi : Key) (t : St), height c ≤ fuel →
      okNode cfg.maxKeys b c lo hi → TreeFlat.Repr cfg t.data c → (pids c).Nodup → t.data.size < 2 ^ 40 →
      it_Post cfg f (iterate (w cfg.pageSize) (w cfg.maxKeys) fuel) c t)
    (p : Nat) (es : List (Key × Node)) (b : Nat) (lo hi : Key) (t : St)
    (hh : height (.inner p es) ≤ fuel + 1) (h : okNode cfg.maxKeys b (.inner p es) lo hi)
    (hr : TreeFlat.Repr cfg t.data (.inner p es)) (hnd : (pids (.inner p es)).Nodup) (hsmall : t.data.size < 2 ^ 40) :
    it_Post cfg f (iterate (w cfg.pageSize) (w cfg.maxKeys) (fuel + 1)) (.inner p es) t := by
  obtain ⟨hpg, hre⟩ := repr_inner hr
  have hmk := hc.mkLt
  have hs := hpg.ok.1
  simp only [pids, List.nodup_cons] at hnd
  have hhe : heightEnts es ≤ fuel := by rw [height] at hh; omega
  obtain ⟨d', hgo, hsz, hre', hfr⟩ :=
    it_loop hc f (iterate (w cfg.pageSize) (w cfg.maxKeys) fuel) fuel IH p t.epoch es [] cfg.maxKeys lo t
      (by simp) rfl hpg hre hnd.2 hnd.1 h.1 hhe hsmall
  unfold it_Post
  simp only [Node.pid]
  rw [it_iterate_succ, it_cb_inner hc f p t _ hpg]
  simp only [Option.bind_some]
  rw [rdNode_refOf t p hpg.fit, isLeaf_w hs (by omega), hpg.isLeaf]
  simp only [Option.bind_some, Bool.false_eq_true, if_false]
  rw [cp_forRange_zero _ (by omega)]
  simp only [refOf]
  refine ⟨d', hgo, hsz, ?_, ?_⟩
  · rw [it_iterNode_inner, TreeFlat.Repr]
    refine ⟨?_, hre'⟩
    rw [it_entWords_iterEnts f es lo h.1]
    exact pageOf_frame (by omega) (hfr p hnd.1 hpg.fit) hpg
  · intro r hr hfit
    simp only [pids, List.mem_cons, not_or] at hr
    exact hfr r hr.2 hfit

theorem it_main {cfg : Cfg} (hc : CfgFlat cfg) (f : Key → Val → Val) :
    ∀ (fuel : Nat) (n : Node) (b : Nat) (lo hi : Key) (t : St), height n ≤ fuel →
      okNode cfg.maxKeys b n lo hi → TreeFlat.Repr cfg t.data n → (pids n).Nodup → t.data.size < 2 ^ 40 →
      it_Post cfg f (iterate (w cfg.pageSize) (w cfg.maxKeys) fuel) n t
  | 0, n, _, _, _, _, hh, h, _, _, _ => by
    cases n with
    | null => exact absurd h id
    | leaf p es => rw [height] at hh; omega
    | inner p es => rw [height] at hh; omega
  | _ + 1, .null, _, _, _, _, _, h, _, _, _ => absurd h id
  | fuel + 1, .leaf p es, _, _, _, t, _, _, hr, _, _ => it_leaf hc f fuel p es t hr
  | fuel + 1, .inner p es, b, lo, hi, t, hh, h, hr, hnd, hsmall =>
    it_inner hc f fuel (it_main hc f fuel) p es b lo hi t hh h hr hnd hsmall

/-- the generated `Tree.iterate` with the callback of `IterateKV` on a represented, well-formed node with
pairwise distinct pages refines `iterNode`; only pages of the node's subtree are written -/
theorem it_iterate_refines {cfg : Cfg} (hc : CfgFlat cfg) (f : Key → Val → Val) (fuel : Nat) (n : Node) (b : Nat)
    (lo hi : Key) (t : St) (hh : height n ≤ fuel) (hok : okNode cfg.maxKeys b n lo hi)
    (hr : TreeFlat.Repr cfg t.data n) (hnd : (pids n).Nodup) (hsmall : t.data.size < 2 ^ 40) :
    ∃ d', iterate (w cfg.pageSize) (w cfg.maxKeys) fuel t () (refOf cfg t n.pid) (it_cb (w cfg.maxKeys) f) =
        some ({ t with data := d' }, ()) ∧
      d'.size = t.data.size ∧ TreeFlat.Repr cfg d' (iterNode f n).1 ∧
      (∀ r, r ∉ pids n → (r + 1) * pw cfg ≤ t.data.size → pageOf cfg d' r = pageOf cfg t.data r) :=
  it_main hc f fuel n b lo hi t hh hok hr hnd hsmall

theorem it_allocInv_data {cfg : Cfg} {t : St} {a : Alloc} (h : AllocInv cfg t a) (d' : Words)
    (hsz : d'.size = t.data.size)
    (hfr : ∀ q ∈ a.free, (q + 1) * pw cfg ≤ t.data.size → pageOf cfg d' q = pageOf cfg t.data q) :
    AllocInv cfg { t with data := d' } a := by
  refine ⟨⟨h.scal.nextPage, h.scal.freePage, h.scal.leafKeys, h.scal.pagesFree, ?_, h.scal.curSz, h.scal.bufOffset,
      h.scal.fault⟩, ?_, h.nodup, h.below, h.npos, ?_⟩
  · show 8 * d'.size = a.dataLen
    rw [hsz]; exact h.scal.dataLen
  · show FreeChain cfg d' a.free
    exact freeChain_frame (by omega) _ hfr h.chain
  · show d'.size < 2 ^ 40
    rw [hsz]; exact h.small

theorem it_iterateKV_eq {cfg : Cfg} (tr : Tree) (hti : TreeInv cfg tr) (f : Key → Val → Val) :
    iterateKV tr f = { root := (iterNode f tr.root).1, a := tr.a } := by
  have e1 := (iterNode_spec cfg.maxKeys f tr.root _ _ _ hti.ok).1
  unfold iterateKV
  generalize iterNode f tr.root = x at e1
  obtain ⟨r, ok⟩ := x
  simp only at e1
  simp only [e1, if_true]

theorem IterateKV_refines {cfg : Cfg} (hc : CfgFlat cfg) (hok : CfgOk cfg) (t : St) (tr : Tree)
    (hti : TreeInv cfg tr) (hroot : tr.root.pid = 1) (hr : TreeFlat.Repr cfg t.data tr.root)
    (hinv : AllocInv cfg t tr.a) (hlive : Live tr.a tr.root) (f : Key → Val → Val)
    (fuel : Nat) (hfuel : height tr.root ≤ fuel) :
    ∃ t', Gen.TreeM.IterateKV (w cfg.pageSize) (w cfg.maxKeys) fuel t f = some t' ∧
      TreeFlat.Repr cfg t'.data (iterateKV tr f).root ∧ AllocInv cfg t' (iterateKV tr f).a ∧
      t'.data.size = t.data.size := by
  have _ := hok
  have hn : tr.root ≠ .null := okNode_ne_null hti.ok
  obtain ⟨lf, kv, hpg, _, _⟩ := repr_pageOf tr.root hn hr
  rw [hroot] at hpg
  obtain ⟨d', hit, hsz, hr', hfr⟩ :=
    it_iterate_refines hc f fuel tr.root _ _ _ t hfuel hti.ok hr hlive.nodup hinv.small
  rw [hroot] at hit
  have h1w : (1#64 : BitVec 64) = w 1 := rfl
  refine ⟨{ t with data := d' }, ?_, ?_, ?_, hsz⟩
  · rw [it_IterateKV_eq]
    unfold Gen.TreeM.Iterate
    rw [h1w, node_w hc t 1 (by omega) hpg.fit hinv.small]
    simp only [Option.bind_some]
    rw [hit]
    rfl
  · rw [it_iterateKV_eq tr hti f]; exact hr'
  · rw [it_iterateKV_eq tr hti f]
    exact it_allocInv_data hinv d' hsz (fun q hq hfit => hfr q (fun hm => (hlive.live q hm).1 hq) hfit)

end RV.TreeFlat
