import RV.Proofs.CacheFairLasso
/-!
# Concrete infinite executions: non-vacuity witnesses and counterexamples for C08 (fairness)

* `tick_exec` — the applier spinning on the ticker branch of its `select` forever
  (`selTick`, grab of the empty expiry index, empty sweep), everybody else standing still.
* `fair_execution_releases_blocked_del` — NON-VACUITY: a `Fair` execution from the initial state in
  which a `Del` blocks in its send on the full one-slot buffer, is released by the applier's receive
  and returns; afterwards all calls have returned and the applier keeps ticking.
* `weak_fairness_insufficient_counterexample` — weak fairness per actor is NOT enough: the
  ticker branch of the model's `select` is always ready, so the applier may take it forever; a
  `Wait` never returns although every actor is treated weakly fairly.
* `clear_livelock_counterexample` — even under `Fair`, `Clear` need not return: a `Fair` execution
  in which one client keeps calling `Set` and the drain loop of a `Clear` never finds `setBuf` empty
  (cache.go: `for { select { case i := <-c.setBuf: … default: break loop } }`).
* `coarse_stop_fairness_counterexample` — if strong fairness is only assumed for the `stop` branch
  as a whole (not per offering client), a `Clear` can wait forever at `c.stop <- struct{}{}` while
  another client's `Clear`s are served: the model's applier may pick ANY offering client, whereas
  the Go runtime serves the blocked senders of an unbuffered channel in FIFO order.
-/
namespace RV.Cache
open Gen.Cache

variable {cfg : Cfg}

/-! ### the ticker loop -/

def tickActs (p : Nat) : Action := if p = 0 then .applier .selTick else .applier .none

/-- phase invariant of the ticker loop, relative to a base state `b` -/
def TickPI (b : State) (p : Nat) (s : State) : Prop :=
  s.cl = b.cl ∧ s.buf = b.buf ∧ s.sendq = b.sendq ∧ s.closedMarkers = b.closedMarkers ∧
  s.em.buckets = AMap.empty ∧
  ((p = 0 ∧ s.app = .idle) ∨ (p = 1 ∧ s.app = .tick) ∨ (p = 2 ∧ ∃ now, s.app = .sweep now []))

theorem tick_step (b : State) (p : Nat) (s : State) (h : TickPI b p s) :
    ∃ s', step cfg s (tickActs p) = some s' ∧ TickPI b ((p + 1) % 3) s' := by
  obtain ⟨h1, h2, h3, h4, h5, h6⟩ := h
  rcases h6 with ⟨rfl, ha⟩ | ⟨rfl, ha⟩ | ⟨rfl, now, ha⟩
  · exact ⟨{ s with app := .tick }, by simp [tickActs, step, applierStep, ha, apIdle],
      h1, h2, h3, h4, h5, Or.inr (Or.inl ⟨rfl, rfl⟩)⟩
  · refine ⟨apTick s, by simp [tickActs, step, applierStep, ha, needNone], h1, h2, h3, h4, ?_,
      Or.inr (Or.inr ⟨rfl, s.clock, ?_⟩)⟩
    · exact (grab_empty s.em s.clock h5).1
    · simp [apTick, (grab_empty s.em s.clock h5).2]
  · exact ⟨{ s with app := .idle }, by simp [tickActs, step, applierStep, ha, apSweep, firstNonEmpty],
      h1, h2, h3, h4, h5, Or.inl ⟨rfl, rfl⟩⟩

theorem tick_exec (b : State) (hr : ReachNC cfg b) (hidle : b.app = .idle) (hem : b.em.buckets = AMap.empty) :
    ∃ e : Exec cfg, e.st 0 = b ∧ ∀ n, TickPI b (n % 3) (e.st n) ∧ e.act n = tickActs (n % 3) :=
  exec_of_cycle 3 tickActs (TickPI b) b hr ⟨rfl, rfl, rfl, rfl, hem, Or.inl ⟨rfl, hidle⟩⟩
    (fun p s _ _ h => tick_step b p s h) (by decide) (fun p => by unfold tickActs; split <;> rfl)

theorem blockedAt_congr {s b : State} {pc : CPc} (h : s.closedMarkers = b.closedMarkers) (hb : BlockedAt b pc) :
    BlockedAt s pc := by
  cases pc <;> first | exact hb | skip
  show _ ∉ s.closedMarkers
  rw [h]; exact hb

/-- the ticker loop is weakly fair if every client is idle or blocked -/
theorem tick_exec_weakFair {e : Exec cfg} {b : State}
    (hpi : ∀ n, TickPI b (n % 3) (e.st n) ∧ e.act n = tickActs (n % 3))
    (hstuck : ∀ t, b.cl t = .idle ∨ (BlockedAt b (b.cl t) ∧ (b.cl t).waitingDone = false)) : WeakFair e := by
  intro a i
  cases a with
  | client t =>
    refine ⟨i, Nat.le_refl _, Or.inl ?_⟩
    obtain ⟨⟨h1, _, _, h4, _⟩, _⟩ := hpi i
    rcases hstuck t with h | ⟨h, h'⟩
    · exact idle_not_enabled (by rw [h1]; exact h)
    · exact blocked_not_enabled (by rw [h1]; exact blockedAt_congr h4 h) (by rw [h1]; exact h')
  | applier =>
    obtain ⟨j, hij, hj⟩ := cycle_hits (m := 3) (p := 0) (by decide) i
    refine ⟨j, hij, Or.inr ?_⟩
    rw [(hpi j).2, hj]; rfl

/-- the ticker loop is select-fair if the buffer is empty and nobody offers `stop` -/
theorem tick_exec_selectFair {e : Exec cfg} {b : State}
    (hpi : ∀ n, TickPI b (n % 3) (e.st n) ∧ e.act n = tickActs (n % 3))
    (hbuf : b.buf = []) (hns : ∀ t, (∀ c, b.cl t ≠ .clrStop c) ∧ b.cl t ≠ .clsStop) : SelectFair e := by
  constructor
  · intro i hr
    obtain ⟨j, _, s', hs⟩ := hr i (Nat.le_refl _)
    obtain ⟨_, h1⟩ := selItem_at_idle (show applierStep cfg (e.st j) .selItem = some s' from hs)
    obtain ⟨x, s1, hrecv, _⟩ := selItem_shape h1
    obtain ⟨rest, hb, _⟩ := recvBuf_cases hrecv
    rw [(hpi j).1.2.1, hbuf] at hb; cases hb
  · intro t i hr
    obtain ⟨j, _, s', hs⟩ := hr i (Nat.le_refl _)
    obtain ⟨_, h1⟩ := selStop_at_idle (show applierStep cfg (e.st j) (.selStop t) = some s' from hs)
    obtain ⟨_, _, (⟨c, h2, _⟩ | ⟨h2, _⟩)⟩ := selStop_shape h1
    · rw [(hpi j).1.1] at h2; exact absurd h2 ((hns t).1 c)
    · rw [(hpi j).1.1] at h2; exact absurd h2 (hns t).2

theorem prepend_start {e' : Exec cfg} {acts : List Action} {s0 : State}
    (h : ∀ k, k ≤ acts.length → run cfg s0 (acts.take k) = some (e'.st k)) : e'.st 0 = s0 := by
  have := h 0 (Nat.zero_le _)
  simp only [List.take_zero, run, Option.some.injEq] at this
  exact this.symm

/-! ### non-vacuity: a fair execution in which a blocked `Del` is released and returns -/

/-- `exBlock` (Set fills the one-slot buffer, `Del` of client 2 blocks), then the applier receives
the `Set` item (which completes the blocked send), admits it, client 2 returns, the applier
processes the `Del` item -/
def exRelease : List Action :=
  exBlock ++
  [ .applier .selItem, .applier .none, .applier (.add [] true), .applier .none,
    .client 2 .none,
    .applier .selItem, .applier .none, .applier .none, .applier .none, .applier .none ]

def appIsIdle (s : State) : Bool := match s.app with | .idle => true | _ => false

theorem appIsIdle_eq {s : State} (h : appIsIdle s = true) : s.app = .idle := by
  unfold appIsIdle at h
  split at h
  · assumption
  · cases h

set_option maxRecDepth 100000 in
theorem exRelease_facts :
    (run exCfg1 (init exCfg1 0) exRelease).map (fun s => (s.cl 1, s.cl 2, s.buf, s.sendq.length,
      s.em.buckets.size, appIsIdle s)) = some (.idle, .idle, [], 0, 0, true) := by decide

set_option maxRecDepth 100000 in
theorem exRelease_mid :
    ((run exCfg1 (init exCfg1 0) (exRelease.take 9)).map (fun s => s.cl 2) = some (.delBlocked 9#64)) ∧
    ((run exCfg1 (init exCfg1 0) (exRelease.take 10)).map (fun s => s.cl 2) = some (.delSent 9#64)) ∧
    ((run exCfg1 (init exCfg1 0) (exRelease.take 14)).map (fun s => s.cl 2) = some .idle) := by decide

/-- **Non-vacuity of the fairness hypotheses.**  A `Fair` infinite execution from the initial state
(one-slot buffer) in which the interesting blocked case occurs: at time 9 client 2 is blocked in
`Del`'s send, the applier's receive at time 9 releases it, at time 14 it has returned. -/
theorem fair_execution_releases_blocked_del :
    ∃ e : Exec exCfg1, 1 ≤ exCfg1.bufCap ∧ Fair e ∧ SendsCease e ∧ e.st 0 = init exCfg1 0 ∧
      (e.st 9).cl 2 = .delBlocked 9#64 ∧ e.act 9 = .applier .selItem ∧ (e.st 10).cl 2 = .delSent 9#64 ∧
      (e.st 14).cl 2 = .idle := by
  have hf := exRelease_facts
  cases hfull : run exCfg1 (init exCfg1 0) exRelease with
  | none => rw [hfull] at hf; simp at hf
  | some b =>
    rw [hfull] at hf
    simp only [Option.map_some, Option.some.injEq, Prod.mk.injEq] at hf
    obtain ⟨hc1, hc2, hbuf, _, hem, happ⟩ := hf
    have hnc : NoCloseRun exRelease := noClose_of_all (by decide)
    have hr : ReachNC exCfg1 b := reachNC_of_run (now := 0) hnc hfull
    have hidle : ∀ t, b.cl t = .idle := by
      intro t
      by_cases e1 : t = 1
      · subst e1; exact hc1
      · by_cases e2 : t = 2
        · subst e2; exact hc2
        · exact unspawned_idle (s0 := init exCfg1 0) rfl
            (not_spawn_of_spawnsOnly (ts := [1, 2]) (by decide) (by simp [e1, e2])) hfull
    have hem' : b.em.buckets = AMap.empty := List.length_eq_zero_iff.mp hem
    obtain ⟨e, he0, hpi⟩ := tick_exec b hr (appIsIdle_eq happ) hem'
    have hfair : Fair e :=
      ⟨tick_exec_weakFair hpi (fun t => Or.inl (hidle t)),
       tick_exec_selectFair hpi hbuf (fun t => by rw [hidle t]; exact ⟨fun c => by simp, by simp⟩)⟩
    obtain ⟨e', htail, hpre, hacts⟩ := exec_prepend e exRelease (init exCfg1 0) (.init 0) hnc (by rw [he0]; exact hfull)
    have hmid := exRelease_mid
    have h9 := hpre 9 (by decide)
    have h10 := hpre 10 (by decide)
    have h14 := hpre 14 (by decide)
    rw [h9, h10, h14] at hmid
    simp only [Option.map_some, Option.some.injEq] at hmid
    have hcease : SendsCease e' := by
      refine ⟨exRelease.length, fun j hj t ch hact => ?_⟩
      have := (htail (j - exRelease.length)).2
      rw [show exRelease.length + (j - exRelease.length) = j by omega, (hpi _).2] at this
      rw [this] at hact
      unfold tickActs at hact
      split at hact <;> cases hact
    refine ⟨e', by decide, fair_of_tail htail hfair, hcease, prepend_start hpre, hmid.1, ?_, hmid.2.1, hmid.2.2⟩
    have := hacts 9 (by decide)
    exact (Option.some.inj this).symm

/-! ### weak fairness per actor is not enough: the ticker branch is always ready -/

/-- client 1 calls `Wait`: marker 0 is buffered, the client waits at `<-wait` -/
def exWaitOnly : List Action := [ .spawn 1 .wait, .client 1 .none, .client 1 .none ]

set_option maxRecDepth 100000 in
theorem exWaitOnly_facts :
    (run exCfg1 (init exCfg1 0) exWaitOnly).map (fun s => (s.cl 1, s.buf, s.closedMarkers,
      s.em.buckets.size, appIsIdle s)) = some (.waitRecv 0, [.marker 0], [], 0, true) := by decide

/-- **Weak fairness per actor does not suffice** (and `SelectFair` is exactly what is missing).
From the initial state client 1 calls `Wait`; then the applier takes the ticker branch of its
`select` forever (always ready in the model).  The execution is weakly fair for every client and
for the applier (which moves all the time), the marker stays in `setBuf`, `Wait` never returns. -/
theorem weak_fairness_insufficient_counterexample :
    ∃ e : Exec exCfg1, 1 ≤ exCfg1.bufCap ∧ e.st 0 = init exCfg1 0 ∧ WeakFair e ∧ ¬ SelectFair e ∧
      ∀ j, 3 ≤ j → (e.st j).cl 1 = .waitRecv 0 := by
  have hf := exWaitOnly_facts
  cases hfull : run exCfg1 (init exCfg1 0) exWaitOnly with
  | none => rw [hfull] at hf; simp at hf
  | some b =>
    rw [hfull] at hf
    simp only [Option.map_some, Option.some.injEq, Prod.mk.injEq] at hf
    obtain ⟨hc1, _, hcm, hem, happ⟩ := hf
    have hnc : NoCloseRun exWaitOnly := noClose_of_all (by decide)
    have hr : ReachNC exCfg1 b := reachNC_of_run (now := 0) hnc hfull
    have hidle : ∀ t, t ≠ 1 → b.cl t = .idle := fun t e1 =>
      unspawned_idle (s0 := init exCfg1 0) rfl
        (not_spawn_of_spawnsOnly (ts := [1]) (by decide) (by simp [e1])) hfull
    have hem' : b.em.buckets = AMap.empty := List.length_eq_zero_iff.mp hem
    obtain ⟨e, he0, hpi⟩ := tick_exec b hr (appIsIdle_eq happ) hem'
    have hweak : WeakFair e := by
      refine tick_exec_weakFair hpi (fun t => ?_)
      by_cases e1 : t = 1
      · subst e1; right; rw [hc1]
        exact ⟨by show 0 ∉ b.closedMarkers; rw [hcm]; simp, rfl⟩
      · exact Or.inl (hidle t e1)
    obtain ⟨e', htail, hpre, _⟩ := exec_prepend e exWaitOnly (init exCfg1 0) (.init 0) hnc (by rw [he0]; exact hfull)
    have hstay : ∀ j, 3 ≤ j → (e'.st j).cl 1 = .waitRecv 0 := by
      intro j hj
      have := (htail (j - 3)).1
      rw [show exWaitOnly.length + (j - 3) = j by simp [exWaitOnly]; omega] at this
      rw [this, (hpi (j - 3)).1.1, hc1]
    have hweak' : WeakFair e' := weakFair_of_tail htail hweak
    refine ⟨e', by decide, prepend_start hpre, hweak', fun hsel => ?_, hstay⟩
    obtain ⟨j, hj, hj'⟩ := call_returns ⟨hweak', hsel⟩ (by decide) 1 _ 3 (Nat.le_refl _)
      (Or.inl (by rw [hstay 3 (Nat.le_refl _)]; rfl))
    rw [hstay j hj] at hj'; cases hj'

/-! ### `Clear` can livelock in its drain loop, even under `Fair` -/

def liveItem : Item := ⟨.new, 5#64, 0#64, 7, 1, Gen.zeroTime⟩

/-- what stays put during the livelock: client 0 is in the drain loop of `Clear`, the applier is
stopped, nobody is queued, key 5 is not resident, all clients but 0 and 1 are idle -/
structure LiveB (s : State) : Prop where
  c0 : s.cl 0 = .clrDrain false
  app : s.app = .dead
  sendq : s.sendq = []
  closed : s.closed = false
  store : s.store.lookup 5#64 = none
  others : ∀ t, t ≠ 0 → t ≠ 1 → s.cl t = .idle

def livePc : Nat → CPc
  | 1 => .setStart 5#64 0#64 7 1 0
  | 2 => .setUpd liveItem
  | 3 => .setSend liveItem
  | 4 => .setRetTrue liveItem
  | _ => .idle

def liveBuf (p : Nat) : List BufElem := if p = 4 ∨ p = 5 then [.item liveItem] else []

def LivePI (p : Nat) (s : State) : Prop := LiveB s ∧ s.cl 1 = livePc p ∧ s.buf = liveBuf p

/-- the loop: client 1 calls `Set(5 ↦ 7)` (5 steps), then client 0 performs one drain iteration -/
def liveActs (p : Nat) : Action :=
  if p = 0 then .spawn 1 (.set 5#64 0#64 7 1 0) else if p = 5 then .client 0 .none else .client 1 .none

theorem liveB_of_frame {s s' : State} (h : LiveB s) (t : Tid) (ht : t ≠ 0)
    (hcl : ∀ t', t' ≠ t → s'.cl t' = s.cl t') (happ : s'.app = s.app) (hq : s'.sendq = s.sendq)
    (hc : s'.closed = s.closed) (hst : s'.store = s.store) (hoth : t ≠ 1 → s'.cl t = .idle) : LiveB s' := by
  refine ⟨by rw [hcl 0 (Ne.symm ht)]; exact h.c0, by rw [happ]; exact h.app, by rw [hq]; exact h.sendq,
    by rw [hc]; exact h.closed, by rw [hst]; exact h.store, fun t' h0 h1 => ?_⟩
  by_cases e : t' = t
  · subst e; exact hoth h1
  · rw [hcl t' e]; exact h.others t' h0 h1

theorem livelock_step (p : Nat) (s : State) (hp : p < 6) (h : LivePI p s) :
    ∃ s', step exCfg1 s (liveActs p) = some s' ∧ LivePI ((p + 1) % 6) s' := by
  obtain ⟨hb, hc1, hbuf⟩ := h
  have h10 : (1 : Tid) ≠ 0 := by decide
  match p, hp with
  | 0, _ =>
    refine ⟨logEv (setCl s 1 (.setStart 5#64 0#64 7 1 0)) (.setCall 1 5#64 0#64 7 1 0), ?_, ?_, ?_, ?_⟩
    · have : s.cl 1 = .idle := hc1
      simp [liveActs, step, spawnStep, this]
    · exact liveB_of_frame hb 1 h10 (fun t' ht' => by simp [setCl_cl_ne _ _ _ ht']) rfl rfl rfl rfl
        (fun h => absurd rfl h)
    · simp [livePc]
    · simpa [liveBuf] using hbuf
  | 1, _ =>
    have hpc : s.cl 1 = .setStart 5#64 0#64 7 1 0 := hc1
    refine ⟨stSetStart s 1 5#64 0#64 7 1 0, by simp [liveActs, step, clientStep, hpc, needNone], ?_, ?_, ?_⟩
    · exact liveB_of_frame hb 1 h10 (fun t' ht' => stSetStart_cl_ne (hne := ht') ..) (stSetStart_app ..)
        (stSetStart_sendq ..) (stSetStart_closed ..) (stSetStart_store ..) (fun h => absurd rfl h)
    · simp [stSetStart, hb.closed, ttlNone, livePc, liveItem]
    · rw [stSetStart_buf]; simpa [liveBuf] using hbuf
  | 2, _ =>
    have hpc : s.cl 1 = .setUpd liveItem := hc1
    have hupd : storeUpdate exCfg1 s.store s.em liveItem = (s.store, s.em, 0, false) := by
      simp [storeUpdate, liveItem, hb.store]
    refine ⟨stSetUpd exCfg1 s 1 liveItem, by simp [liveActs, step, clientStep, hpc, needNone], ?_, ?_, ?_⟩
    · exact liveB_of_frame hb 1 h10 (fun t' ht' => stSetUpd_cl_ne (hne := ht') ..) (stSetUpd_app ..)
        (stSetUpd_sendq ..) (stSetUpd_closed ..) (by simp [stSetUpd, hupd]) (fun h => absurd rfl h)
    · simp [stSetUpd, hupd, livePc]
    · rw [stSetUpd_buf]; simpa [liveBuf] using hbuf
  | 3, _ =>
    have hpc : s.cl 1 = .setSend liveItem := hc1
    have hbuf' : s.buf = [] := by simpa [liveBuf] using hbuf
    have hroom : s.buf.length < exCfg1.bufCap ∧ s.sendq = [] := by
      rw [hbuf', hb.sendq]; exact ⟨by decide, rfl⟩
    refine ⟨stSetSend exCfg1 s 1 liveItem, by simp [liveActs, step, clientStep, hpc, needNone], ?_, ?_, ?_⟩
    · exact liveB_of_frame hb 1 h10 (fun t' ht' => stSetSend_cl_ne (hne := ht') ..) (stSetSend_app ..)
        (by unfold stSetSend; rw [if_pos hroom]; rfl) (stSetSend_closed ..) (stSetSend_store ..)
        (fun h => absurd rfl h)
    · unfold stSetSend; rw [if_pos hroom]; simp [livePc]
    · unfold stSetSend; rw [if_pos hroom]; simp [liveBuf, hbuf']
  | 4, _ =>
    have hpc : s.cl 1 = .setRetTrue liveItem := hc1
    refine ⟨stSetRetTrue s 1 liveItem, by simp [liveActs, step, clientStep, hpc, needNone], ?_, ?_, ?_⟩
    · exact liveB_of_frame hb 1 h10 (fun t' ht' => stSetRetTrue_cl_ne (hne := ht') ..) (stSetRetTrue_app ..)
        (stSetRetTrue_sendq ..) (stSetRetTrue_closed ..) (stSetRetTrue_store ..) (fun h => absurd rfl h)
    · simp [stSetRetTrue, livePc]
    · rw [stSetRetTrue_buf]; simpa [liveBuf] using hbuf
  | 5, _ =>
    have hbuf' : s.buf = [.item liveItem] := by simpa [liveBuf] using hbuf
    have hrecv : recvBuf s = some (.item liveItem, { s with buf := [] }) := by
      simp [recvBuf, hbuf', hb.sendq]
    have hev : clearEvictsItem Flag.new.code = true := by decide
    have hs' : stClrDrain s 0 false = cbEvict { s with buf := [] } 5#64 0#64 7 1 := by
      simp [stClrDrain, hrecv, hev, liveItem]
    refine ⟨stClrDrain s 0 false, by simp [liveActs, step, clientStep, hb.c0, needNone], ?_, ?_, ?_⟩
    · rw [hs']
      exact ⟨hb.c0, hb.app, hb.sendq, hb.closed, hb.store, hb.others⟩
    · rw [hs']; exact hc1
    · rw [hs']; rfl

def exDrainStart : List Action := [ .spawn 0 .clear, .client 0 .none, .applier (.selStop 0), .done 0 ]

def appIsDead (s : State) : Bool := match s.app with | .dead => true | _ => false

theorem appIsDead_eq {s : State} (h : appIsDead s = true) : s.app = .dead := by
  unfold appIsDead at h
  split at h
  · assumption
  · cases h

set_option maxRecDepth 100000 in
theorem exDrainStart_facts :
    (run exCfg1 (init exCfg1 0) exDrainStart).map (fun s => (s.cl 0, s.cl 1, s.buf, s.sendq.length)) =
      some (.clrDrain false, .idle, [], 0) ∧
    (run exCfg1 (init exCfg1 0) exDrainStart).map (fun s => (s.closed, (s.store.lookup 5#64).isSome,
      appIsDead s)) = some (false, false, true) := by
  decide

theorem liveActs_noClose (p : Nat) : (liveActs p).isClose = false := by
  unfold liveActs
  split
  · rfl
  · split <;> rfl

theorem dead_not_running {s : State} (h : s.app = .dead) : s.app.running = false := by rw [h]; rfl

/-- **`Clear` can run forever, even in a `Fair` execution.**  Client 0 is in the drain loop of
`Clear`; client 1 calls `Set` again and again; each drain iteration finds the item of the latest
`Set` in `setBuf`.  Every actor moves infinitely often (client 0 included), the applier is stopped
(so no `select` branch is ever ready): the execution is `Fair`, and `Clear` never returns. -/
theorem clear_livelock_counterexample :
    ∃ e : Exec exCfg1, 1 ≤ exCfg1.bufCap ∧ e.st 0 = init exCfg1 0 ∧ Fair e ∧ ¬ DrainsEnd e ∧ ¬ SendsCease e ∧
      ∀ j, 4 ≤ j → (e.st j).cl 0 = .clrDrain false := by
  have hf := exDrainStart_facts
  cases hfull : run exCfg1 (init exCfg1 0) exDrainStart with
  | none => rw [hfull] at hf; simp at hf
  | some b =>
    rw [hfull] at hf
    simp only [Option.map_some, Option.some.injEq, Prod.mk.injEq] at hf
    obtain ⟨⟨hc0, hc1, hbuf, hq⟩, hcl, hst, happ⟩ := hf
    have hnc : NoCloseRun exDrainStart := noClose_of_all (by decide)
    have hr : ReachNC exCfg1 b := reachNC_of_run (now := 0) hnc hfull
    have hidle : ∀ t, t ≠ 0 → t ≠ 1 → b.cl t = .idle := fun t e0 e1 =>
      unspawned_idle (s0 := init exCfg1 0) rfl
        (not_spawn_of_spawnsOnly (ts := [0]) (by decide) (by simp [e0])) hfull
    have hq' : b.sendq = [] := List.length_eq_zero_iff.mp hq
    have hst' : b.store.lookup 5#64 = none := by
      cases h : b.store.lookup 5#64 with
      | none => rfl
      | some v => rw [h] at hst; cases hst
    have hb : LivePI 0 b := ⟨⟨hc0, appIsDead_eq happ, hq', hcl, hst', hidle⟩, hc1, hbuf⟩
    obtain ⟨e, he0, hpi⟩ := exec_of_cycle 6 liveActs LivePI b hr hb
      (fun p s hp _ h => livelock_step p s hp h) (by decide)
      liveActs_noClose
    have hweak : WeakFair e := by
      intro a i
      cases a with
      | client t =>
        by_cases e0 : t = 0
        · subst e0
          obtain ⟨j, hij, hj⟩ := cycle_hits (m := 6) (p := 5) (by decide) i
          exact ⟨j, hij, Or.inr (by rw [(hpi j).2, hj]; rfl)⟩
        · by_cases e1 : t = 1
          · subst e1
            obtain ⟨j, hij, hj⟩ := cycle_hits (m := 6) (p := 1) (by decide) i
            exact ⟨j, hij, Or.inr (by rw [(hpi j).2, hj]; rfl)⟩
          · exact ⟨i, Nat.le_refl _, Or.inl (idle_not_enabled ((hpi i).1.1.others t e0 e1))⟩
      | applier => exact ⟨i, Nat.le_refl _, Or.inl (stopped_not_enabled (dead_not_running (hpi i).1.1.app))⟩
    have hsel : SelectFair e := by
      constructor
      · intro i hr
        obtain ⟨j, _, s', hs⟩ := hr i (Nat.le_refl _)
        obtain ⟨h1, _⟩ := selItem_at_idle (show applierStep exCfg1 (e.st j) .selItem = some s' from hs)
        rw [(hpi j).1.1.app] at h1; cases h1
      · intro t i hr
        obtain ⟨j, _, s', hs⟩ := hr i (Nat.le_refl _)
        obtain ⟨h1, _⟩ := selStop_at_idle (show applierStep exCfg1 (e.st j) (.selStop t) = some s' from hs)
        rw [(hpi j).1.1.app] at h1; cases h1
    obtain ⟨e', htail, hpre, _⟩ := exec_prepend e exDrainStart (init exCfg1 0) (.init 0) hnc (by rw [he0]; exact hfull)
    have hlen : exDrainStart.length = 4 := rfl
    have hstay : ∀ j, 4 ≤ j → (e'.st j).cl 0 = .clrDrain false := by
      intro j hj
      have := (htail (j - 4)).1
      rw [show exDrainStart.length + (j - 4) = j by rw [hlen]; omega] at this
      rw [this]; exact (hpi (j - 4)).1.1.c0
    refine ⟨e', by decide, prepend_start hpre, fair_of_tail htail ⟨hweak, hsel⟩, fun hd => ?_, fun hs => ?_, hstay⟩
    · obtain ⟨j, hj, hj'⟩ := hd 4 0 false (hstay 4 (Nat.le_refl _))
      exact hj' (hstay j hj)
    · obtain ⟨N, hN⟩ := hs
      obtain ⟨j, hNj, hj⟩ := cycle_hits (m := 6) (p := 3) (by decide) N
      have h1 := hN (4 + j) (by omega) 1 .none (by
        have := (htail j).2; rw [hlen] at this; rw [this, (hpi j).2, hj]; rfl)
      have h2 : (e'.st (4 + j)).cl 1 = .setSend liveItem := by
        have := (htail j).1; rw [hlen] at this; rw [this, (hpi j).1.2.1, hj]; rfl
      rw [h2] at h1; cases h1

/-! ### one fairness class for the whole `stop` branch is not enough -/

/-- what stays put: client 0 offers `stop` (it is inside `Clear`), the channel and the store are
empty, all clients but 0 and 1 are idle -/
structure StarveB (s : State) : Prop where
  c0 : s.cl 0 = .clrStop false
  buf : s.buf = []
  sendq : s.sendq = []
  closed : s.closed = false
  store : s.store = AMap.empty
  others : ∀ t, t ≠ 0 → t ≠ 1 → s.cl t = .idle

def starvePc (p : Nat) : CPc :=
  if p = 0 then .idle else if p = 1 then .clrStart false else if p = 2 then .clrStop false
  else if p = 3 then .clrDone false else if p = 4 then .clrDrain false else if p = 5 then .clrPolicy false
  else if p < 262 then .clrShard false (p - 6) else if p = 262 then .clrEm false
  else if p = 263 then .clrMetrics false else .clrRestart false

def starveApp (p : Nat) (a : APc) : Prop :=
  if p ≤ 2 then a = .idle else if p = 3 then a = .stopAck else a = .dead

/-- the loop: a complete `Clear` of client 1 (265 steps) -/
def starveActs (p : Nat) : Action :=
  if p = 0 then .spawn 1 .clear else if p = 2 then .applier (.selStop 1) else if p = 3 then .done 1
  else if 6 ≤ p ∧ p < 262 then .client 1 (.order []) else .client 1 .none

def StarvePI (p : Nat) (s : State) : Prop := StarveB s ∧ s.cl 1 = starvePc p ∧ starveApp p s.app

theorem starveB_of_frame {s s' : State} (h : StarveB s)
    (hcl : ∀ t', t' ≠ 1 → s'.cl t' = s.cl t') (hb : s'.buf = s.buf) (hq : s'.sendq = s.sendq)
    (hc : s'.closed = s.closed) (hst : s'.store = s.store) : StarveB s' :=
  ⟨by rw [hcl 0 (by decide)]; exact h.c0, by rw [hb]; exact h.buf, by rw [hq]; exact h.sendq,
    by rw [hc]; exact h.closed, by rw [hst]; exact h.store,
    fun t' h0 h1 => by rw [hcl t' h1]; exact h.others t' h0 h1⟩

theorem starvePc_shard {p : Nat} (h1 : 6 ≤ p) (h2 : p < 262) : starvePc p = .clrShard false (p - 6) := by
  unfold starvePc
  rw [if_neg (by omega), if_neg (by omega), if_neg (by omega), if_neg (by omega), if_neg (by omega),
    if_neg (by omega), if_pos h2]

theorem starveActs_shard {p : Nat} (h1 : 6 ≤ p) (h2 : p < 262) : starveActs p = .client 1 (.order []) := by
  unfold starveActs
  rw [if_neg (by omega), if_neg (by omega), if_neg (by omega), if_pos ⟨h1, h2⟩]

theorem starveApp_dead {p : Nat} (h : 4 ≤ p) (a : APc) : starveApp p a ↔ a = .dead := by
  unfold starveApp
  rw [if_neg (by omega), if_neg (by omega)]

theorem shardKeys_empty (k : Nat) : shardKeys (AMap.empty : Store) k = [] := rfl

theorem starve_step (p : Nat) (s : State) (hp : p < 265) (h : StarvePI p s) :
    ∃ s', step exCfg1 s (starveActs p) = some s' ∧ StarvePI ((p + 1) % 265) s' := by
  obtain ⟨hb, hc1, happ⟩ := h
  have h256 : numShards.toNat = 256 := by decide
  by_cases hsh : 6 ≤ p ∧ p < 262
  · -- one shard of the store
    obtain ⟨h1, h2⟩ := hsh
    have hpc : s.cl 1 = .clrShard false (p - 6) := by rw [hc1, starvePc_shard h1 h2]
    have hdead : s.app = .dead := (starveApp_dead (by omega) _).mp happ
    have hord : isShardOrder s.store (p - 6) [] = true := by rw [hb.store]; rfl
    have hstep : stClrShard s 1 false (p - 6) (.order []) =
        some (setCl { s with store := s.store } 1
          (if p - 6 + 1 = numShards.toNat then .clrEm false else .clrShard false (p - 6 + 1))) := by
      unfold stClrShard
      simp only [hord, Bool.not_true, Bool.false_eq_true, if_false, evictAll, eraseAll]
      rw [if_neg (by omega)]
    refine ⟨_, by rw [starveActs_shard h1 h2]; simp only [step, clientStep, hpc]; exact hstep, ?_, ?_, ?_⟩
    · exact starveB_of_frame hb (fun t' ht' => by simp [setCl_cl_ne _ _ _ ht']) rfl rfl rfl rfl
    · rw [show (p + 1) % 265 = p + 1 by omega]
      simp only [setCl_cl_self]
      by_cases hlast : p = 261
      · subst hlast; rfl
      · rw [if_neg (by omega), starvePc_shard (by omega) (by omega)]
        congr 1; omega
    · rw [show (p + 1) % 265 = p + 1 by omega]
      exact (starveApp_dead (by omega) _).mpr hdead
  · have hcases : p = 0 ∨ p = 1 ∨ p = 2 ∨ p = 3 ∨ p = 4 ∨ p = 5 ∨ p = 262 ∨ p = 263 ∨ p = 264 := by omega
    rcases hcases with rfl | rfl | rfl | rfl | rfl | rfl | rfl | rfl | rfl
    · have hpc : s.cl 1 = .idle := hc1
      have hidle : s.app = .idle := happ
      refine ⟨logEv (setCl s 1 (.clrStart false)) (.clearCall 1), by simp [starveActs, step, spawnStep, hpc], ?_, ?_, ?_⟩
      · exact starveB_of_frame hb (fun t' ht' => by simp [setCl_cl_ne _ _ _ ht']) rfl rfl rfl rfl
      · simp [starvePc]
      · exact hidle
    · have hpc : s.cl 1 = .clrStart false := hc1
      have hidle : s.app = .idle := happ
      refine ⟨stClrStart s 1 false, by simp [starveActs, step, clientStep, hpc, needNone], ?_, ?_, ?_⟩
      · exact starveB_of_frame hb (fun t' ht' => stClrStart_cl_ne (hne := ht') ..) (stClrStart_buf ..)
          (stClrStart_sendq ..) (stClrStart_closed ..) (stClrStart_store ..)
      · simp [stClrStart, hb.closed, starvePc]
      · show starveApp 2 _; rw [stClrStart_app]; exact hidle
    · have hpc : s.cl 1 = .clrStop false := hc1
      have hidle : s.app = .idle := happ
      refine ⟨setCl { s with app := .stopAck } 1 (.clrDone false),
        by simp [starveActs, step, applierStep, hidle, apIdle, apSelStop, hpc], ?_, ?_, ?_⟩
      · exact starveB_of_frame hb (fun t' ht' => by simp [setCl_cl_ne _ _ _ ht']) rfl rfl rfl rfl
      · simp [starvePc]
      · rfl
    · have hpc : s.cl 1 = .clrDone false := hc1
      have hack : s.app = .stopAck := happ
      refine ⟨setCl { s with app := .dead } 1 (.clrDrain false),
        by simp [starveActs, step, doneStep, hack, hpc], ?_, ?_, ?_⟩
      · exact starveB_of_frame hb (fun t' ht' => by simp [setCl_cl_ne _ _ _ ht']) rfl rfl rfl rfl
      · simp [starvePc]
      · rfl
    · have hpc : s.cl 1 = .clrDrain false := hc1
      have hdead : s.app = .dead := happ
      have hrecv : recvBuf s = none := by simp [recvBuf, hb.buf]
      refine ⟨setCl s 1 (.clrPolicy false),
        by simp [starveActs, step, clientStep, hpc, needNone, stClrDrain, hrecv], ?_, ?_, ?_⟩
      · exact starveB_of_frame hb (fun t' ht' => by simp [setCl_cl_ne _ _ _ ht']) rfl rfl rfl rfl
      · simp [starvePc]
      · exact hdead
    · have hpc : s.cl 1 = .clrPolicy false := hc1
      have hdead : s.app = .dead := happ
      refine ⟨stClrPolicy s 1 false, by simp [starveActs, step, clientStep, hpc, needNone], ?_, ?_, ?_⟩
      · exact starveB_of_frame hb (fun t' ht' => stClrPolicy_cl_ne (hne := ht') ..) (stClrPolicy_buf ..)
          (stClrPolicy_sendq ..) (stClrPolicy_closed ..) (stClrPolicy_store ..)
      · simp [stClrPolicy, starvePc]
      · show starveApp 6 _; rw [stClrPolicy_app]; exact hdead
    · have hpc : s.cl 1 = .clrEm false := hc1
      have hdead : s.app = .dead := happ
      refine ⟨stClrEm s 1 false, by simp [starveActs, step, clientStep, hpc, needNone], ?_, ?_, ?_⟩
      · exact starveB_of_frame hb (fun t' ht' => stClrEm_cl_ne (hne := ht') ..) (stClrEm_buf ..)
          (stClrEm_sendq ..) (stClrEm_closed ..) (stClrEm_store ..)
      · simp [stClrEm, starvePc]
      · show starveApp 263 _; rw [stClrEm_app]; exact hdead
    · have hpc : s.cl 1 = .clrMetrics false := hc1
      have hdead : s.app = .dead := happ
      refine ⟨stClrMetrics exCfg1 s 1 false, by simp [starveActs, step, clientStep, hpc, needNone], ?_, ?_, ?_⟩
      · exact starveB_of_frame hb (fun t' ht' => stClrMetrics_cl_ne (hne := ht') ..) (stClrMetrics_buf ..)
          (stClrMetrics_sendq ..) (stClrMetrics_closed ..) (stClrMetrics_store ..)
      · simp [stClrMetrics, starvePc]
      · show starveApp 264 _; rw [stClrMetrics_app]; exact hdead
    · have hpc : s.cl 1 = .clrRestart false := hc1
      refine ⟨stClrRestart s 1 false, by simp [starveActs, step, clientStep, hpc, needNone], ?_, ?_, ?_⟩
      · exact starveB_of_frame hb (fun t' ht' => stClrRestart_cl_ne (hne := ht') ..) (stClrRestart_buf ..)
          (stClrRestart_sendq ..) (stClrRestart_closed ..) (stClrRestart_store ..)
      · simp [stClrRestart, starvePc]
      · simp [stClrRestart, starveApp]

theorem starvePc_not_sends (p : Nat) : (starvePc p).sends = false := by
  unfold starvePc
  repeat' split
  all_goals rfl

theorem starveActs_noClose (p : Nat) : (starveActs p).isClose = false := by
  unfold starveActs
  repeat' split
  all_goals rfl

def exStopStart : List Action := [ .spawn 0 .clear, .client 0 .none ]

set_option maxRecDepth 100000 in
theorem exStopStart_facts :
    (run exCfg1 (init exCfg1 0) exStopStart).map (fun s => (s.cl 0, s.cl 1, s.buf, s.sendq.length)) =
      some (.clrStop false, .idle, [], 0) ∧
    (run exCfg1 (init exCfg1 0) exStopStart).map (fun s => (s.closed, s.store.size, appIsIdle s)) =
      some (false, 0, true) := by
  decide

/-- **One fairness class for the whole `stop` branch does not bound an individual `Clear`.**
Client 0 calls `Clear` and offers `stop`; client 1 calls `Clear` again and again, and every time the
applier takes client 1's `stop` (the model lets the applier serve ANY offering client).  The
execution is weakly fair, the `stop` branch is taken infinitely often (`SelectFairCoarse`), nobody
sends (so every drain loop ends at once) — and client 0's `Clear` never returns.  It is not
`SelectFair`: client 0's `stop` is ready infinitely often and never taken.  The Go runtime serves the
senders blocked on the unbuffered `stop` channel in FIFO order, which excludes this schedule. -/
theorem coarse_stop_fairness_counterexample :
    ∃ e : Exec exCfg1, 1 ≤ exCfg1.bufCap ∧ e.st 0 = init exCfg1 0 ∧ WeakFair e ∧ SelectFairCoarse e ∧
      SendsCease e ∧ ¬ SelectFair e ∧ ∀ j, 2 ≤ j → (e.st j).cl 0 = .clrStop false := by
  have hf := exStopStart_facts
  cases hfull : run exCfg1 (init exCfg1 0) exStopStart with
  | none => rw [hfull] at hf; simp at hf
  | some b =>
    rw [hfull] at hf
    simp only [Option.map_some, Option.some.injEq, Prod.mk.injEq] at hf
    obtain ⟨⟨hc0, hc1, hbuf, hq⟩, hcl, hst, happ⟩ := hf
    have hnc : NoCloseRun exStopStart := noClose_of_all (by decide)
    have hr : ReachNC exCfg1 b := reachNC_of_run (now := 0) hnc hfull
    have hidle : ∀ t, t ≠ 0 → t ≠ 1 → b.cl t = .idle := fun t e0 e1 =>
      unspawned_idle (s0 := init exCfg1 0) rfl
        (not_spawn_of_spawnsOnly (ts := [0]) (by decide) (by simp [e0])) hfull
    have hb : StarvePI 0 b :=
      ⟨⟨hc0, hbuf, List.length_eq_zero_iff.mp hq, hcl, List.length_eq_zero_iff.mp hst, hidle⟩, hc1,
        appIsIdle_eq happ⟩
    obtain ⟨e, he0, hpi⟩ := exec_of_cycle 265 starveActs StarvePI b hr hb
      (fun p s hp _ h => starve_step p s hp h) (by decide) starveActs_noClose
    have hweak : WeakFair e := by
      intro a i
      cases a with
      | client t =>
        by_cases e0 : t = 0
        · subst e0
          refine ⟨i, Nat.le_refl _, Or.inl (blocked_not_enabled ?_ ?_)⟩
          · rw [(hpi i).1.1.c0]; trivial
          · rw [(hpi i).1.1.c0]; rfl
        · by_cases e1 : t = 1
          · subst e1
            obtain ⟨j, hij, hj⟩ := cycle_hits (m := 265) (p := 1) (by decide) i
            exact ⟨j, hij, Or.inr (by rw [(hpi j).2, hj]; rfl)⟩
          · exact ⟨i, Nat.le_refl _, Or.inl (idle_not_enabled ((hpi i).1.1.others t e0 e1))⟩
      | applier =>
        obtain ⟨j, hij, hj⟩ := cycle_hits (m := 265) (p := 2) (by decide) i
        exact ⟨j, hij, Or.inr (by rw [(hpi j).2, hj]; rfl)⟩
    have hcoarse : SelectFairCoarse e := by
      constructor
      · intro i hr
        obtain ⟨j, _, s', hs⟩ := hr i (Nat.le_refl _)
        obtain ⟨_, h1⟩ := selItem_at_idle (show applierStep exCfg1 (e.st j) .selItem = some s' from hs)
        obtain ⟨x, s1, hrecv, _⟩ := selItem_shape h1
        obtain ⟨rest, hb', _⟩ := recvBuf_cases hrecv
        rw [(hpi j).1.1.buf] at hb'; cases hb'
      · intro i _
        obtain ⟨j, hij, hj⟩ := cycle_hits (m := 265) (p := 2) (by decide) i
        exact ⟨j, 1, hij, by rw [(hpi j).2, hj]; rfl⟩
    obtain ⟨e', htail, hpre, _⟩ := exec_prepend e exStopStart (init exCfg1 0) (.init 0) hnc (by rw [he0]; exact hfull)
    have hlen : exStopStart.length = 2 := rfl
    have hst' : ∀ j, 2 ≤ j → e'.st j = e.st (j - 2) := by
      intro j hj
      have := (htail (j - 2)).1
      rwa [show exStopStart.length + (j - 2) = j by rw [hlen]; omega] at this
    have hstay : ∀ j, 2 ≤ j → (e'.st j).cl 0 = .clrStop false := by
      intro j hj; rw [hst' j hj]; exact (hpi (j - 2)).1.1.c0
    have hweak' : WeakFair e' := weakFair_of_tail htail hweak
    have hcoarse' : SelectFairCoarse e' := by
      constructor
      · intro i hr
        obtain ⟨j, hij, hj⟩ := hcoarse.item i (readyInfOften_of_tail htail hr)
        exact ⟨2 + j, by omega, by have := (htail j).2; rw [hlen] at this; rw [this]; exact hj⟩
      · intro i _
        obtain ⟨j, hij, hj⟩ := cycle_hits (m := 265) (p := 2) (by decide) i
        refine ⟨2 + j, 1, by omega, ?_⟩
        have := (htail j).2; rw [hlen] at this
        rw [this, (hpi j).2, hj]; rfl
    have hcease : SendsCease e' := by
      refine ⟨2, fun j hj t ch _ => ?_⟩
      rw [hst' j hj]
      by_cases e0 : t = 0
      · subst e0; rw [(hpi (j - 2)).1.1.c0]; rfl
      · by_cases e1 : t = 1
        · subst e1; rw [(hpi (j - 2)).1.2.1]; exact starvePc_not_sends _
        · rw [(hpi (j - 2)).1.1.others t e0 e1]; rfl
    refine ⟨e', by decide, prepend_start hpre, hweak', hcoarse', hcease, fun hsel => ?_, hstay⟩
    obtain ⟨j, hj, hj'⟩ := call_returns ⟨hweak', hsel⟩ (by decide) 0 _ 2 (Nat.le_refl _)
      (Or.inr (drainsEnd_of_sendsCease hweak' hcease))
    rw [hstay j hj] at hj'; cases hj'

end RV.Cache
