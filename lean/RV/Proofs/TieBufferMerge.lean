import RV.Proofs.TieBufferSort
/-!
`sortHelper.merge`: the generated in-place merge loop on two adjacent encoded runs leaves the
slice-level merge `mergeSl` (ties: right run first) in the region and touches nothing else — the
same statement as the model's `merge_enc`.
-/
namespace RV.TieBuffer
open Gen.Buf Gen.BufferM RV.Buffer Gen.Buffer

/-- what the merge loop leaves -/
def mergeFin : LoopRes sortHelper MSt → sortHelper
  | .ret v => v
  | .done st => st.1

theorem setBuf_setBuf (s : sortHelper) (a b : Array (BitVec 8)) : setBuf (setBuf s a) b = setBuf s b := rfl
theorem setBuf_self (s : sortHelper) : setBuf s s.b.buf = s := rfl

theorem slt_ww (a b : Nat) (ha : a < 2 ^ 63) (hb : b < 2 ^ 63) : BitVec.slt (w a) (w b) = decide (a < b) :=
  slt_w a b ha hb

theorem enc_len_lt (x : Bytes) (l : List Bytes) (n : Nat) (h : (encAll (x :: l)).length ≤ n) : 8 + x.length ≤ n := by
  rw [encAll_cons, List.length_append, enc_length] at h; omega

theorem bytesOf_drop (a : Array (BitVec 8)) (lo hi k : Nat) (h : lo + k ≤ hi) :
    (bytesOf a ⟨lo + k, hi⟩).toList = (bytesOf a ⟨lo, hi⟩).toList.drop k := by
  rw [bytesOf_toList, bytesOf_toList]
  show List.take (hi - (lo + k)) (List.drop (lo + k) a.toList) = List.drop k (List.take (hi - lo) (List.drop lo a.toList))
  rw [List.drop_take, List.drop_drop]
  congr 1; omega

theorem bytesOf_take (a : Array (BitVec 8)) (lo hi k : Nat) (h : lo + k ≤ hi) :
    (bytesOf a ⟨lo, lo + k⟩).toList = (bytesOf a ⟨lo, hi⟩).toList.take k := by
  rw [bytesOf_toList, bytesOf_toList]
  show List.take (lo + k - lo) (List.drop lo a.toList) = List.take k (List.take (hi - lo) (List.drop lo a.toList))
  rw [List.take_take, Nat.add_sub_cancel_left, Nat.min_eq_left (by omega)]

/-- the facts about the heads of the two runs that both copy cases need -/
theorem merge_heads (lessM : Bytes → Bytes → Bool) (s : sortHelper) (ll lh : Nat) (pre G post : Bytes)
    (a : Bytes) (l : List Bytes) (c : Bytes) (r : List Bytes) (e : Nat) (he : e < 2 ^ 62)
    (hless : ∀ x y, s.less x y = lessM x.toList y.toList)
    (hbuf : s.b.buf.toList = pre ++ G ++ encAll (c :: r) ++ post)
    (hG : G.length = (encAll (a :: l)).length)
    (hend : pre.length + G.length + (encAll (c :: r)).length = e)
    (hbs : s.b.buf.size < 2 ^ 62) (hts : s.tmp.buf.size < 2 ^ 62)
    (hl1 : ll ≤ lh) (hl2 : lh ≤ s.tmp.buf.size)
    (hleft : (bytesOf s.tmp.buf ⟨ll, lh⟩).toList = encAll (a :: l)) (ls rs : Win) :
    merge_loop1 (w e) (s, ⟨ll, lh⟩, ⟨pre.length + G.length, e⟩, w pre.length, ls, rs) =
      (if lessM a c then
        some (LoopOut.next (setBuf s (blit s.b.buf pre.length (s.tmp.buf.extract ll (ll + (8 + a.length)))),
          ⟨ll + (8 + a.length), lh⟩, ⟨pre.length + G.length, e⟩, w (pre.length + (8 + a.length)),
          ⟨ll, ll + (8 + a.length)⟩, ⟨pre.length + G.length, pre.length + G.length + (8 + c.length)⟩))
      else
        some (LoopOut.next (setBuf s (blit s.b.buf pre.length
            (s.b.buf.extract (pre.length + G.length) (pre.length + G.length + (8 + c.length)))),
          ⟨ll, lh⟩, ⟨pre.length + G.length + (8 + c.length), e⟩, w (pre.length + (8 + c.length)),
          ⟨ll, ll + (8 + a.length)⟩, ⟨pre.length + G.length, pre.length + G.length + (8 + c.length)⟩))) ∧
    (bytesOf s.tmp.buf ⟨ll, ll + (8 + a.length)⟩).toList = enc a ∧
    (bytesOf s.b.buf ⟨pre.length + G.length, pre.length + G.length + (8 + c.length)⟩).toList = enc c ∧
    (encAll (a :: l)).length = lh - ll := by
  have hlen : (encAll (a :: l)).length = lh - ll := by
    rw [← hleft]; exact bytesOf_length s.tmp.buf ⟨ll, lh⟩ ⟨hl1, hl2⟩
  have hla : (encAll (a :: l)).length = 8 + a.length + (encAll l).length := by
    rw [encAll_cons, List.length_append, enc_length]
  have hlc : (encAll (c :: r)).length = 8 + c.length + (encAll r).length := by
    rw [encAll_cons, List.length_append, enc_length]
  have hsz : s.b.buf.size = pre.length + G.length + (encAll (c :: r)).length + post.length := by
    rw [← Array.length_toList, hbuf]; simp only [List.length_append]
  -- the right run as seen through its window
  have hright : (bytesOf s.b.buf ⟨pre.length + G.length, e⟩).toList = encAll (c :: r) := by
    rw [bytesOf_toList, hbuf]
    show List.take (e - (pre.length + G.length)) (List.drop (pre.length + G.length) _) = _
    rw [← List.length_append, List.append_assoc (pre ++ G), List.drop_left]
    have : e - (pre ++ G).length = (encAll (c :: r)).length := by rw [List.length_append]; omega
    rw [this, List.take_left]
  have hwl : WinOk s.tmp.buf ⟨ll, lh⟩ := ⟨hl1, hl2⟩
  have hwr : WinOk s.b.buf ⟨pre.length + G.length, e⟩ := ⟨by show pre.length + G.length ≤ e; omega, by show e ≤ _; omega⟩
  obtain ⟨r1, r1b, r1c⟩ := rawSlice_agree s.tmp.buf ⟨ll, lh⟩ hwl hts (enc a)
    (by rw [hleft, encAll_cons]; exact rawSlice_enc a _ (by omega))
  obtain ⟨r2, r2b, r2c⟩ := rawSlice_agree s.b.buf ⟨pre.length + G.length, e⟩ hwr hbs (enc c)
    (by rw [hright, encAll_cons]; exact rawSlice_enc c _ (by omega))
  rw [enc_length] at r1 r1b r1c r2 r2b r2c
  have r1' : Gen.BufferM.rawSlice s.tmp.buf ⟨ll, lh⟩ = some ⟨ll, ll + (8 + a.length)⟩ := r1
  have r2' : Gen.BufferM.rawSlice s.b.buf ⟨pre.length + G.length, e⟩ =
      some ⟨pre.length + G.length, pre.length + G.length + (8 + c.length)⟩ := r2
  have hbody := body_copy s ll lh (pre.length + G.length) e pre.length (8 + a.length) (8 + c.length) ls rs
    (by omega) (by omega) r1' r2' (by omega) (by omega) (by omega) (by omega) hl2 (by omega) hts hbs (by omega) (by omega)
  have ha : (bytesOf s.tmp.buf ⟨ll + 8, ll + (8 + a.length)⟩).toList = a := by
    rw [bytesOf_drop _ _ _ _ (by omega)]
    have : (bytesOf s.tmp.buf ⟨ll, ll + (8 + a.length)⟩).toList = enc a := r1b
    rw [this, enc_drop8]
  have hc : (bytesOf s.b.buf ⟨pre.length + G.length + 8, pre.length + G.length + (8 + c.length)⟩).toList = c := by
    rw [bytesOf_drop _ _ _ _ (by omega)]
    have : (bytesOf s.b.buf ⟨pre.length + G.length, pre.length + G.length + (8 + c.length)⟩).toList = enc c := r2b
    rw [this, enc_drop8]
  rw [hless, ha, hc] at hbody
  exact ⟨hbody, r1b, r2b, hlen⟩

theorem merge_loop_spec (lessM : Bytes → Bytes → Bool) (e : Nat) (he : e < 2 ^ 62) :
    ∀ (L R : List Bytes) (fuel : Nat) (s : sortHelper) (ll lh : Nat) (ls rs : Win) (pre G post : Bytes),
      (∀ a b, s.less a b = lessM a.toList b.toList) →
      L.length + R.length < fuel →
      s.b.buf.toList = pre ++ G ++ encAll R ++ post →
      G.length = (encAll L).length →
      pre.length + G.length + (encAll R).length = e →
      s.b.buf.size < 2 ^ 62 → s.tmp.buf.size < 2 ^ 62 →
      ll ≤ lh → lh ≤ s.tmp.buf.size → (bytesOf s.tmp.buf ⟨ll, lh⟩).toList = encAll L →
      ∃ r a, whileLoop (fun (st : MSt) => BitVec.slt st.2.2.2.1 (w e)) (merge_loop1 (w e)) fuel
          (s, ⟨ll, lh⟩, ⟨pre.length + G.length, e⟩, w pre.length, ls, rs) = some r ∧
        mergeFin r = setBuf s a ∧ a.toList = pre ++ encAll (mergeSl lessM L R) ++ post := by
  intro L R
  fun_induction mergeSl lessM L R with
  | case1 r =>
    intro fuel s ll lh ls rs pre G post hless hf hbuf hG hend hbs hts hl1 hl2 hleft
    cases fuel with
    | zero => omega
    | succ f =>
      have hG0 : G = [] := List.length_eq_zero_iff.mp (by rw [hG]; rfl)
      subst hG0
      simp only [List.length_nil, Nat.add_zero, List.append_nil] at hend hbuf ⊢
      have hlen := bytesOf_length s.tmp.buf ⟨ll, lh⟩ ⟨hl1, hl2⟩
      rw [hleft] at hlen
      have hlh : lh = ll := by simp only [encAll_nil, List.length_nil] at hlen; omega
      subst hlh
      have hsz : s.b.buf.size = pre.length + (encAll r).length + post.length := by
        rw [← Array.length_toList, hbuf]; simp only [List.length_append]
      unfold whileLoop
      simp only [slt_ww _ _ (show pre.length < 2 ^ 63 by omega) (show e < 2 ^ 63 by omega)]
      by_cases hlt : pre.length < e
      · simp only [hlt, decide_true, if_true]
        rw [body_leftEmpty s lh pre.length e pre.length ls rs (Nat.le_refl _) (by omega) (by omega) hbs]
        refine ⟨_, _, rfl, rfl, ?_⟩
        rw [blit_extract_toList _ _ _ _ _ (by omega) (by omega), hbuf]
        have e1 : e - pre.length = (encAll r).length := by omega
        rw [e1]
        rw [List.append_assoc pre, List.take_left, List.drop_left, List.take_left]
        rw [← List.length_append, ← List.append_assoc, List.drop_left]
      · simp only [hlt, decide_false, Bool.false_eq_true, if_false]
        refine ⟨_, s.b.buf, rfl, (setBuf_self s).symm, ?_⟩
        exact hbuf
  | case2 a l =>
    intro fuel s ll lh ls rs pre G post hless hf hbuf hG hend hbs hts hl1 hl2 hleft
    cases fuel with
    | zero => omega
    | succ f =>
      simp only [encAll_nil, List.length_nil, Nat.add_zero, List.append_nil] at hend hbuf
      have hlen : (encAll (a :: l)).length = lh - ll := by
        rw [← hleft]; exact bytesOf_length s.tmp.buf ⟨ll, lh⟩ ⟨hl1, hl2⟩
      have h8 := enc_len_lt a l _ (Nat.le_refl _)
      have hsz : s.b.buf.size = pre.length + G.length + post.length := by
        rw [← Array.length_toList, hbuf]; simp only [List.length_append]
      have hcontent : (s.tmp.buf.toList.drop ll).take (lh - ll) = encAll (a :: l) := by
        rw [← bytesOf_toList s.tmp.buf ⟨ll, lh⟩]; exact hleft
      unfold whileLoop
      simp only [slt_ww _ _ (show pre.length < 2 ^ 63 by omega) (show e < 2 ^ 63 by omega)]
      have hlt : pre.length < e := by omega
      simp only [hlt, decide_true, if_true, hend]
      rw [body_rightEmpty s ll lh e pre.length ls rs (by omega) (by omega) (by omega) hbs (by omega)]
      refine ⟨_, _, rfl, rfl, ?_⟩
      rw [blit_extract_toList _ _ _ _ _ (by omega) (by omega), hbuf, hcontent]
      have e1 : pre.length + (lh - ll) = (pre ++ G).length := by rw [List.length_append]; omega
      rw [e1, List.append_assoc pre, List.take_left, ← List.append_assoc, List.drop_left]
  | case3 a l c r h ih =>
    intro fuel s ll lh ls rs pre G post hless hf hbuf hG hend hbs hts hl1 hl2 hleft
    cases fuel with
    | zero => omega
    | succ f =>
      obtain ⟨hbody, hA, hC, hlen⟩ := merge_heads lessM s ll lh pre G post a l c r e he hless hbuf hG hend hbs hts hl1 hl2 hleft ls rs
      have hla : (encAll (a :: l)).length = 8 + a.length + (encAll l).length := by
        rw [encAll_cons, List.length_append, enc_length]
      have hlc : (encAll (c :: r)).length = 8 + c.length + (encAll r).length := by
        rw [encAll_cons, List.length_append, enc_length]
      have hsz : s.b.buf.size = pre.length + G.length + (encAll (c :: r)).length + post.length := by
        rw [← Array.length_toList, hbuf]; simp only [List.length_append]
      unfold whileLoop
      simp only [slt_ww _ _ (show pre.length < 2 ^ 63 by omega) (show e < 2 ^ 63 by omega)]
      have hlt : pre.length < e := by omega
      simp only [hlt, decide_true, if_true, hbody, h]
      -- the new contents
      have hnew : (blit s.b.buf pre.length (s.tmp.buf.extract ll (ll + (8 + a.length)))).toList =
          (pre ++ enc a) ++ G.drop (8 + a.length) ++ encAll (c :: r) ++ post := by
        rw [blit_extract_toList _ _ _ _ _ (by omega) (by omega), hbuf]
        have : (s.tmp.buf.toList.drop ll).take (8 + a.length) = enc a := by
          have := hA; rw [bytesOf_toList] at this
          simpa [Nat.add_sub_cancel_left] using this
        rw [this]
        rw [List.append_assoc pre, List.append_assoc pre, List.take_left, List.drop_length_add_append]
        rw [List.append_assoc G, List.drop_append_of_le_length (by omega)]
        simp only [List.append_assoc]
      have := ih f (setBuf s (blit s.b.buf pre.length (s.tmp.buf.extract ll (ll + (8 + a.length)))))
        (ll + (8 + a.length)) lh ⟨ll, ll + (8 + a.length)⟩
        ⟨pre.length + G.length, pre.length + G.length + (8 + c.length)⟩ (pre ++ enc a) (G.drop (8 + a.length)) post
        hless (by simp only [List.length_cons] at hf ⊢; omega) hnew
        (by rw [List.length_drop]; omega)
        (by rw [List.length_append, enc_length, List.length_drop]; omega)
        (by simp only [setBuf, blit_size]; exact hbs) hts (by omega) hl2
        (by
          show (bytesOf s.tmp.buf ⟨ll + (8 + a.length), lh⟩).toList = encAll l
          rw [bytesOf_drop _ _ _ _ (by omega), hleft, encAll_cons, ← enc_length a, List.drop_left])
      obtain ⟨r', a2, h1, h2, h3⟩ := this
      have e1 : (pre ++ enc a).length + (G.drop (8 + a.length)).length = pre.length + G.length := by
        rw [List.length_append, enc_length, List.length_drop]; omega
      have e2 : (pre ++ enc a).length = pre.length + (8 + a.length) := by
        rw [List.length_append, enc_length]
      rw [e1, e2] at h1
      refine ⟨r', a2, h1, ?_, ?_⟩
      · rw [h2, setBuf_setBuf]
      · rw [h3, encAll_cons]; simp only [List.append_assoc]
  | case4 a l c r h ih =>
    intro fuel s ll lh ls rs pre G post hless hf hbuf hG hend hbs hts hl1 hl2 hleft
    cases fuel with
    | zero => omega
    | succ f =>
      obtain ⟨hbody, hA, hC, hlen⟩ := merge_heads lessM s ll lh pre G post a l c r e he hless hbuf hG hend hbs hts hl1 hl2 hleft ls rs
      have hla : (encAll (a :: l)).length = 8 + a.length + (encAll l).length := by
        rw [encAll_cons, List.length_append, enc_length]
      have hlc : (encAll (c :: r)).length = 8 + c.length + (encAll r).length := by
        rw [encAll_cons, List.length_append, enc_length]
      have hsz : s.b.buf.size = pre.length + G.length + (encAll (c :: r)).length + post.length := by
        rw [← Array.length_toList, hbuf]; simp only [List.length_append]
      have hfalse : lessM a c = false := by simpa using h
      unfold whileLoop
      simp only [slt_ww _ _ (show pre.length < 2 ^ 63 by omega) (show e < 2 ^ 63 by omega)]
      have hlt : pre.length < e := by omega
      simp only [hlt, decide_true, if_true, hbody, hfalse, Bool.false_eq_true, if_false]
      -- the new contents (the source is read before the destination is written)
      have hnew : (blit s.b.buf pre.length
            (s.b.buf.extract (pre.length + G.length) (pre.length + G.length + (8 + c.length)))).toList =
          (pre ++ enc c) ++ (G ++ enc c).drop (8 + c.length) ++ encAll r ++ post := by
        rw [blit_extract_toList _ _ _ _ _ (by omega) (by omega)]
        have : (s.b.buf.toList.drop (pre.length + G.length)).take (8 + c.length) = enc c := by
          have := hC; rw [bytesOf_toList] at this
          simpa [Nat.add_sub_cancel_left] using this
        rw [this, hbuf]
        rw [List.append_assoc pre, List.append_assoc pre, List.take_left, List.drop_length_add_append]
        rw [encAll_cons, ← List.append_assoc G, List.append_assoc (G ++ enc c),
          List.drop_append_of_le_length (by rw [List.length_append, enc_length]; omega)]
        simp only [List.append_assoc]
      have hGd : ((G ++ enc c).drop (8 + c.length)).length = G.length := by
        rw [List.length_drop, List.length_append, enc_length]; omega
      have := ih f (setBuf s (blit s.b.buf pre.length
            (s.b.buf.extract (pre.length + G.length) (pre.length + G.length + (8 + c.length)))))
        ll lh ⟨ll, ll + (8 + a.length)⟩
        ⟨pre.length + G.length, pre.length + G.length + (8 + c.length)⟩ (pre ++ enc c) ((G ++ enc c).drop (8 + c.length)) post
        hless (by simp only [List.length_cons] at hf ⊢; omega) hnew
        (by rw [hGd]; exact hG)
        (by rw [List.length_append, enc_length, hGd]; omega)
        (by simp only [setBuf, blit_size]; exact hbs) hts hl1 hl2 hleft
      obtain ⟨r', a2, h1, h2, h3⟩ := this
      have e1 : (pre ++ enc c).length + ((G ++ enc c).drop (8 + c.length)).length = pre.length + G.length + (8 + c.length) := by
        rw [List.length_append, enc_length, hGd]; omega
      have e2 : (pre ++ enc c).length = pre.length + (8 + c.length) := by
        rw [List.length_append, enc_length]
      rw [e1, e2] at h1
      refine ⟨r', a2, h1, ?_, ?_⟩
      · rw [h2, setBuf_setBuf]
      · rw [h3, encAll_cons]; simp only [List.append_assoc]



theorem bytes_window (g : Buffer) (h : GWF g) :
    Gen.BufferM.Bytes g = some ⟨g.padding.toNat, g.offset.toNat⟩ := by
  have hw := h.wf
  have hp := hw.pad; rw [abs_padding, abs_offset] at hp
  have hc := hw.curSmall; rw [abs_curSz] at hc
  have h1 := hw.cap; rw [abs_offset, abs_curSz] at h1
  unfold Gen.BufferM.Bytes
  simp only [slice_full g.buf.size g.padding g.offset hp h.off_le (by omega), Option.bind_some]

/-- a window of a memory object, handed to a function that only reads it, is the same as the
extracted bytes -/
theorem copy_window (dst : Array (BitVec 8)) (dw : Win) (a : Array (BitVec 8)) (win : Win) (hw : WinOk a win) :
    copy dst dw a win = copy dst dw (bytesOf a win) (Win.full (bytesOf a win).size) := by
  obtain ⟨h1, h2⟩ := hw
  have hs : (bytesOf a win).size = win.hi - win.lo := by
    unfold bytesOf; simp; omega
  unfold copy
  simp only [Win.full, hs, Nat.sub_zero, Nat.zero_add]
  congr 2
  apply Array.ext'
  rw [extract_toList, extract_toList, bytesOf_toList]
  simp only [Nat.add_sub_cancel_left, Nat.sub_zero, List.drop_zero, List.take_take]
  congr 1
  omega

theorem write_window (os : OS) (g : Buffer) (a : Array (BitVec 8)) (win : Win) (hw : WinOk a win) :
    Write os g a win = Write os g (bytesOf a win) (Win.full (bytesOf a win).size) := by
  have hs : (bytesOf a win).size = win.hi - win.lo := by
    unfold bytesOf; simp; have := hw.1; have := hw.2; omega
  have hl : Win.len (Win.full (bytesOf a win).size) = Win.len win := by
    unfold Win.len Win.full; simp only [hs, Nat.sub_zero]
  unfold Write
  simp only [hl, copy_window _ _ a win hw]

/-- the sorter's temporary buffer: well-formed, no size limit, capacity below `C` -/
structure TmpInv (C : Nat) (t : Buffer) : Prop where
  wf : GWF t
  nomax : t.maxSz = 0#64
  pad : t.padding.toNat ≤ 8
  cap : t.curSz.toNat ≤ C

theorem cond_eq (e : BitVec 64) :
    (fun (x : MSt) => match x with | (_, _, _, start_12, _, _) => BitVec.slt start_12 e) =
      (fun (st : MSt) => BitVec.slt st.2.2.2.1 e) := by
  funext ⟨_, _, _, _, _, _⟩; rfl

theorem merge_spec (os : OS) (hos : os.Ok) (lessM : Bytes → Bytes → Bool) (C : Nat) (s : sortHelper)
    (pre post : Bytes) (L R : List Bytes)
    (hless : ∀ a b, s.less a b = lessM a.toList b.toList)
    (hbuf : s.b.buf.toList = pre ++ encAll L ++ encAll R ++ post)
    (hbs : s.b.buf.size < 2 ^ 62) (ht : TmpInv C s.tmp)
    (hC1 : 3 * (pre.length + (encAll L).length + (encAll R).length) + 24 ≤ C)
    (hC2 : C + C + (pre.length + (encAll L).length + (encAll R).length) +
      (pre.length + (encAll L).length + (encAll R).length) < 2 ^ 62) :
    ∃ s' a, Gen.BufferM.merge os s ⟨pre.length, pre.length + (encAll L).length⟩
        ⟨pre.length + (encAll L).length, pre.length + (encAll L).length + (encAll R).length⟩
        (w pre.length) (w (pre.length + (encAll L).length + (encAll R).length)) = some s' ∧
      s'.b = { s.b with buf := a } ∧ a.toList = pre ++ encAll (mergeSl lessM L R) ++ post ∧
      s'.offsets = s.offsets ∧ s'.less = s.less ∧ s'.small = s.small ∧ TmpInv C s'.tmp := by
  obtain ⟨e, he⟩ : ∃ e, pre.length + (encAll L).length + (encAll R).length = e := ⟨_, rfl⟩
  rw [he] at hC1 hC2
  have hsz : s.b.buf.size = pre.length + (encAll L).length + (encAll R).length + post.length := by
    rw [← Array.length_toList, hbuf]; simp only [List.length_append]
  unfold Gen.BufferM.merge
  simp only [len_win, Nat.add_sub_cancel_left]
  have z : (0#64) = w 0 := rfl
  have hLz : (w (encAll L).length == w 0) = decide ((encAll L).length = 0) := w_beq _ _ (by omega) (by omega)
  have hRz : (w (encAll R).length == w 0) = decide ((encAll R).length = 0) := w_beq _ _ (by omega) (by omega)
  simp only [z, hLz, hRz]
  by_cases hL : L = []
  · subst hL
    simp only [encAll_nil, List.length_nil, decide_true, Bool.true_or, Bool.or_true, if_true]
    refine ⟨s, s.b.buf, rfl, rfl, ?_, rfl, rfl, rfl, ht⟩
    simpa [mergeSl, encAll_nil] using hbuf
  · by_cases hR : R = []
    · subst hR
      simp only [encAll_nil, List.length_nil, decide_true, Bool.or_true, Bool.true_or, if_true]
      refine ⟨s, s.b.buf, rfl, rfl, ?_, rfl, rfl, rfl, ht⟩
      cases L with
      | nil => exact absurd rfl hL
      | cons a l => simpa [mergeSl, encAll_nil] using hbuf
    · have h1 : (encAll L).length ≠ 0 := fun h => hL (encAll_eq_nil (List.length_eq_zero_iff.mp h))
      have h2 : (encAll R).length ≠ 0 := fun h => hR (encAll_eq_nil (List.length_eq_zero_iff.mp h))
      simp only [h1, h2, decide_false, Bool.or_self, Bool.false_eq_true, if_false]
      -- tmp.Reset(); tmp.Write(left)
      obtain ⟨t2, hr2, ha2, hg2⟩ := reset_agree s.tmp ht.wf
      simp only [hr2, Option.bind_some]
      have hwin : WinOk s.b.buf ⟨pre.length, pre.length + (encAll L).length⟩ :=
        ⟨by show pre.length ≤ pre.length + (encAll L).length; omega,
         by show pre.length + (encAll L).length ≤ s.b.buf.size; omega⟩
      rw [write_window os t2 s.b.buf _ hwin]
      have hp : (bytesOf s.b.buf ⟨pre.length, pre.length + (encAll L).length⟩).toList = encAll L := by
        rw [bytesOf_toList, hbuf]
        show List.take (pre.length + (encAll L).length - pre.length) (List.drop pre.length _) = _
        rw [Nat.add_sub_cancel_left, List.append_assoc, List.append_assoc, List.drop_left, List.take_left]
      generalize hpdef : bytesOf s.b.buf ⟨pre.length, pre.length + (encAll L).length⟩ = p at hp
      have hps : p.size = (encAll L).length := by rw [← Array.length_toList, hp]
      have hcur2 : (abs t2).curSz = s.tmp.curSz.toNat := by rw [ha2]; rfl
      have hmax2 : (abs t2).maxSz = 0 := by rw [ha2]; show s.tmp.maxSz.toNat = 0; rw [ht.nomax]; rfl
      have hoff2 : (abs t2).offset = s.tmp.padding.toNat := by rw [ha2]; rfl
      have hcap := ht.cap; have hpad := ht.pad
      have hroom : (abs t2).curSz + (abs t2).curSz + p.size + p.size < 2 ^ 62 := by rw [hcur2, hps]; omega
      have hag := write_agree os hos t2 hg2 p hroom
      rcases write_spec (abs t2) p.toList hg2.wf (by rw [Array.length_toList]; exact hroom) with ⟨_, hm, _⟩ | ⟨b', hwm, hap⟩
      · rw [hmax2] at hm; omega
      · rw [hwm] at hag
        cases hwg : Write os t2 p (Win.full p.size) with
        | none => rw [hwg] at hag; exact absurd hag id
        | some r =>
          rw [hwg] at hag
          obtain ⟨t5, n5, e5⟩ := r
          obtain ⟨ha5, hg5, _, he5⟩ := hag
          simp only at ha5 hg5 he5
          subst he5
          simp only [Option.bind_some, beq_self_eq_true, Gen.Buf.guard, if_true]
          rw [bytes_window t5 hg5]
          simp only [Option.bind_some, len_win]
          -- the copy of the left run in tmp
          have hoff5 : t5.offset.toNat = t5.padding.toNat + (encAll L).length := by
            have := hap.offset; rw [← ha5, abs_offset, hoff2, Array.length_toList, hps] at this
            have hp5 := hap.padding; rw [← ha5, abs_padding, ha2] at hp5
            have : t5.padding.toNat = s.tmp.padding.toNat := hp5
            omega
          have hleft : (bytesOf t5.buf ⟨t5.padding.toNat, t5.offset.toNat⟩).toList = encAll L := by
            obtain ⟨win, hb1, hb2⟩ := bytes_agree t5 hg5
            rw [bytes_window t5 hg5] at hb1
            simp only [Option.some.injEq] at hb1
            rw [hb1, hb2, ha5]
            have hd := hap.data
            unfold bytes
            rw [hd, hap.padding]
            have : (abs t2).data.length = (abs t2).padding := by
              rw [hg2.wf.len, hoff2, ha2]; rfl
            rw [← this, List.drop_left, hp]
          have hcur5 : t5.curSz.toNat ≤ C := by
            have := hap.tight; rw [← ha5, abs_curSz, hcur2, hoff2, Array.length_toList, hps] at this
            omega
          have hpad5 : t5.padding.toNat = s.tmp.padding.toNat := by
            have hp5 := hap.padding; rw [← ha5, abs_padding, ha2] at hp5; exact hp5
          have hmax5 : t5.maxSz = 0#64 := by
            have := hap.maxSz; rw [← ha5, abs_maxSz, hmax2] at this
            exact BitVec.eq_of_toNat_eq this
          have ht5 : TmpInv C t5 := ⟨hg5, hmax5, by rw [hpad5]; exact hpad, hcur5⟩
          have hts5 : t5.buf.size < 2 ^ 62 := by
            rw [hg5.size]; have := hg5.wf.curSmall; rwa [abs_curSz] at this
          -- the loop
          have hfuel : (w (t5.offset.toNat - t5.padding.toNat)).toNat + (w (encAll R).length).toNat + 1 =
              (encAll L).length + (encAll R).length + 1 := by
            rw [toNat_w _ (by omega), toNat_w _ (by omega)]; omega
          rw [hfuel, he, cond_eq]
          have hlo := merge_loop_spec lessM e (by omega) L R ((encAll L).length + (encAll R).length + 1)
            { s with tmp := t5 } t5.padding.toNat t5.offset.toNat Win.nil Win.nil pre (encAll L) post
            hless (by have := encAll_length_ge L; have := encAll_length_ge R; omega)
            hbuf rfl he hbs hts5 (by omega) (by have := hg5.off_le; exact this) hleft
          obtain ⟨r, a, hr1, hr2', hr3⟩ := hlo
          rw [hr1]
          simp only [Option.bind_some]
          cases r with
          | ret v =>
            simp only [mergeFin] at hr2'
            subst hr2'
            exact ⟨_, a, rfl, rfl, hr3, rfl, rfl, rfl, ht5⟩
          | done st =>
            obtain ⟨s1, x1, x2, x3, x4, x5⟩ := st
            simp only [mergeFin] at hr2'
            subst hr2'
            exact ⟨_, a, rfl, rfl, hr3, rfl, rfl, rfl, ht5⟩


end RV.TieBuffer
