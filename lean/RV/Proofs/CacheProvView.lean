import RV.Proofs.CacheFrames2
import RV.Proofs.CacheCases
/-!
# The value-flow abstraction of the Cache model (used by C01, C02, C04)

`View` keeps the six state components through which values flow (store, write buffer, blocked
senders, applier pc, client pcs, ghost log) and forgets everything else (expiry index, policy,
metrics, clock, closed flag, markers).  `AStep` is an abstract transition relation on views in
which every decision that depends on a forgotten component has become nondeterministic.
`astep_of_step`: every step of the model is an `AStep` of its view.  The invariants for
provenance (C01) and ownership (C02/C04) are proved once, on `AStep`, and hold in every reachable
state of the model by `Reach.induction`.
-/
namespace RV.Cache

structure View where
  store : Store
  buf : List BufElem
  sendq : List (Tid × BufElem)
  app : APc
  cl : Tid → CPc
  log : List Ev

def State.view (s : State) : View := ⟨s.store, s.buf, s.sendq, s.app, s.cl, s.log⟩

def updCl (cl : Tid → CPc) (t : Tid) (pc : CPc) : Tid → CPc := fun t' => if t' = t then pc else cl t'

@[simp] theorem updCl_self (cl : Tid → CPc) (t : Tid) (pc : CPc) : updCl cl t pc t = pc := by simp [updCl]
theorem updCl_ne (cl : Tid → CPc) {t t' : Tid} (pc : CPc) (h : t' ≠ t) : updCl cl t pc t' = cl t' := by
  simp [updCl, h]

/-- the events logged by `evictAll s st ks` (newest first) -/
def evLog (st : Store) : List Hash → List Ev
  | [] => []
  | h :: rest =>
    evLog st rest ++ (match st.lookup h with
      | none => []
      | some e => [.exit e.value, .evict h e.conflict e.value 0])

/-- Moves of client `t` that touch only its own pc and the log: `pc → pc'` logging `l`. -/
inductive CMove (w : View) (t : Tid) : CPc → CPc → List Ev → Prop
  -- the call starts
  | spSet (h c v cost ttl) : CMove w t .idle (.setStart h c v cost ttl) [.setCall t h c v cost ttl]
  | spGet (h c now) : CMove w t .idle (.getStart h c) [.getCall t h c now]
  | spTtl (h c now) : CMove w t .idle (.ttlRead h c) [.ttlCall t h c now]
  | spDel (h c) : CMove w t .idle (.delStart h c) [.delCall t h c]
  | spWait : CMove w t .idle .waitStart [.waitCall t]
  | spClear : CMove w t .idle (.clrStart false) [.clearCall t]
  | spClose : CMove w t .idle (.clrStart true) [.closeCall t]
  | spIter (n now) : CMove w t .idle (.iterStart n) [.iterCall t now]
  | spUpdMax (m) : CMove w t .idle (.updMax m) []
  | spReadMax : CMove w t .idle .readMax []
  | spReadRem : CMove w t .idle .readRem []
  -- SetWithTTL
  | setStartFail (h c v cost ttl) : CMove w t (.setStart h c v cost ttl) .idle [.setRet t v false]
  | setStartOk (h c v cost ttl exp) :
      CMove w t (.setStart h c v cost ttl) (.setUpd ⟨.new, h, c, v, cost, exp⟩) [.setExp t v exp]
  | setUpdNo (i) : CMove w t (.setUpd i) (.setSend i) []
  | setExit (i prev) : CMove w t (.setExit i prev) (.setSend { i with flag := .upd }) [.exit prev]
  | setSendFull (i) : CMove w t (.setSend i) (.setRetDrop i) []
  | setRetTrue (i) : CMove w t (.setRetTrue i) .idle [.setRet t i.value true]
  | setRetDropUpd (i) : i.flag = .upd → CMove w t (.setRetDrop i) .idle [.setRet t i.value true]
  | setRetDropNew (i) : i.flag ≠ .upd →
      CMove w t (.setRetDrop i) .idle [.setRet t i.value false, .drop t i.value]
  -- Del
  | delClosed (h c) : CMove w t (.delStart h c) .idle [.delRet t h]
  | delNo (h c) : CMove w t (.delStart h c) (.delExit h c 0) []
  | delExit (h c prev) : CMove w t (.delExit h c prev) (.delSend h c) [.exit prev]
  | delSent (h) : CMove w t (.delSent h) .idle [.delRet t h]
  -- Wait
  | waitClosed : CMove w t .waitStart .idle [.waitRet t]
  | waitStart : CMove w t .waitStart .waitSend []
  | waitRecv (id) : CMove w t (.waitRecv id) .waitDone []
  | waitDone : CMove w t .waitDone .idle [.waitRet t]
  -- Get
  | getClosed (h c) : CMove w t (.getStart h c) .idle [.getRet t h c none]
  | getStart (h c) : CMove w t (.getStart h c) (.getRead h c) []
  | getRead (h c) : CMove w t (.getRead h c) (.getCheck h c (w.store.lookup h)) []
  | getCheck (h c e now) : CMove w t (.getCheck h c e) (.getMetric h c (getResult c e now)) []
  | getMetric (h c r) : CMove w t (.getMetric h c r) .idle [.getRet t h c r]
  -- GetTTL
  | ttlRead (h c) : CMove w t (.ttlRead h c) (.ttlCheck h c (w.store.lookup h)) []
  | ttlCheckNone (h c e) : CMove w t (.ttlCheck h c e) .idle [.ttlRet t h c 0 false]
  | ttlCheckSome (h c e now v) : getResult c e now = some v → CMove w t (.ttlCheck h c e) (.ttlExp h c) []
  | ttlExpNone (h c) : CMove w t (.ttlExp h c) .idle [.ttlRet t h c 0 true]
  | ttlExp (h c exp) : CMove w t (.ttlExp h c) (.ttlNow h c exp) []
  | ttlNowExpired (h c exp) : CMove w t (.ttlNow h c exp) .idle [.ttlRet t h c 0 false]
  | ttlNow (h c exp) : CMove w t (.ttlNow h c exp) (.ttlUntil h c exp) []
  | ttlUntil (h c exp d) : CMove w t (.ttlUntil h c exp) .idle [.ttlRet t h c d true]
  -- IterValues
  | iterClosed (n) : CMove w t (.iterStart n) .idle [.iterRet t []]
  | iterStart (n) : CMove w t (.iterStart n) (.iterShard 0 n []) []
  | iterEnd (k n seen seen') : CMove w t (.iterShard k n seen) .idle [.iterRet t seen']
  | iterNext (k n seen seen') : CMove w t (.iterShard k n seen) (.iterShard (k + 1) n seen') []
  -- Clear / Close
  | clrClosedClose : CMove w t (.clrStart true) .idle [.closeRet t]
  | clrClosedClear : CMove w t (.clrStart false) .idle [.clearRet t]
  | clrStart (closing) : CMove w t (.clrStart closing) (.clrStop closing) []
  | clrDrainEmpty (closing) : w.buf = [] → CMove w t (.clrDrain closing) (.clrPolicy closing) []
  | clrPolicy (closing) : CMove w t (.clrPolicy closing) (.clrShard closing 0) []
  | clrEm (closing) : CMove w t (.clrEm closing) (.clrMetrics closing) []
  | clrMetrics (closing) : CMove w t (.clrMetrics closing) (.clrRestart closing) []
  -- MaxCost & co
  | updMax (m) : CMove w t (.updMax m) .idle []
  | readMax (m) : CMove w t .readMax .idle [.maxRet t m]
  | readRem (m) : CMove w t .readRem .idle [.remRet t m]

/-- Moves of the applier that touch only its pc and the log. -/
inductive AMove : APc → APc → List Ev → Prop
  | selTick : AMove .idle .tick []
  | marker (id) : AMove (.marker id) .idle []
  | item (i cost) : AMove (.item i) (.costed { i with cost := cost }) []
  | costedNew (i vs ok) : i.flag = .new → AMove (.costed i) (.added i vs ok) []
  | costedUpd (i) : i.flag = .upd → AMove (.costed i) .idle []
  | costedDel (i) : i.flag = .del → AMove (.costed i) (.tombPolicy i) []
  | addedNo (i vs) : AMove (.added i vs false) (afterVictims vs)
      [.exit i.value, .reject i.key i.conflict i.value i.cost]
  | victimEvict (h cost c v rest) : AMove (.victimEvict h cost c v rest) (afterVictims rest)
      [.exit v, .evict h c v cost]
  | tombStore (v) : AMove (.tombStore v) .idle [.exit v]
  | tick (now bs) : AMove .tick (.sweep now bs) []
  | sweepEnd (now bs) : AMove (.sweep now bs) .idle []
  | sweepKey (now bs k c bs') : AMove (.sweep now bs) (.swKey now k c bs') []
  | swKeyNo (now k c bs) : AMove (.swKey now k c bs) (.sweep now bs) []
  | swStoreDel (now k c expr v bs cost) :
      AMove (.swStoreDel now k c expr v bs) (.swPolDel now k c expr cost v bs) []
  | swPolDel (now k c expr cost v bs) : AMove (.swPolDel now k c expr cost v bs) (.sweep now bs)
      [.exit v, .evict k c v cost]

/-- outcome of `lockedMap.Del(h, c)` -/
inductive DelRes (st : Store) (h : Hash) (c : Conf) : Store → Conf → Val → Prop
  | none : DelRes st h c st 0#64 0
  | some (e : Entry) : st.lookup h = some e → (c = 0#64 ∨ c = e.conflict) → DelRes st h c (st.erase h) e.conflict e.value

/-- a blocking send: who sends what, and the pcs after completion / while blocked -/
inductive IsSend : CPc → BufElem → CPc → CPc → Prop
  | del (h c) : IsSend (.delSend h c) (.item ⟨.del, h, c, 0, 0, Gen.zeroTime⟩) (.delSent h) (.delBlocked h)
  | wait (id) : IsSend .waitSend (.marker id) (.waitRecv id) (.waitBlocked id)

/-- a receive from the write buffer (may complete the first blocked sender's send) -/
inductive Recv (w : View) (x : BufElem) : View → Prop
  | plain (rest) : w.buf = x :: rest → w.sendq = [] → Recv w x { w with buf := rest }
  | unblock (rest t0 e q) : w.buf = x :: rest → w.sendq = (t0, e) :: q →
      Recv w x { w with buf := rest ++ [e], sendq := q, cl := updCl w.cl t0 (unblockedPc (w.cl t0)) }

def recvPc : BufElem → APc
  | .marker id => .marker id
  | .item i => .item i

def drainLog (i : Item) : List Ev :=
  if i.flag = .upd then [] else [.exit i.value, .evict i.key i.conflict i.value i.cost]

inductive AStep : View → View → Prop
  | client (w : View) (t pc pc' l) : w.cl t = pc → CMove w t pc pc' l →
      AStep w { w with cl := updCl w.cl t pc', log := l ++ w.log }
  | applier (w : View) (pc' l) : AMove w.app pc' l → AStep w { w with app := pc', log := l ++ w.log }
  | setUpdOk (w : View) (t i e) : w.cl t = .setUpd i → w.store.lookup i.key = some e →
      (i.conflict = 0#64 ∨ i.conflict = e.conflict) →
      AStep w { w with store := w.store.insert i.key ⟨i.conflict, i.value, i.exp⟩,
                       cl := updCl w.cl t (.setExit i e.value) }
  | delOk (w : View) (t h c e) : w.cl t = .delStart h c → w.store.lookup h = some e →
      (c = 0#64 ∨ c = e.conflict) →
      AStep w { w with store := w.store.erase h, cl := updCl w.cl t (.delExit h c e.value) }
  | sendOk (w : View) (t i) : w.cl t = .setSend i →
      AStep w { w with buf := w.buf ++ [.item i], cl := updCl w.cl t (.setRetTrue i) }
  | sendNow (w : View) (t pc e sent blocked) : w.cl t = pc → IsSend pc e sent blocked →
      AStep w { w with buf := w.buf ++ [e], cl := updCl w.cl t sent }
  | sendBlock (w : View) (t pc e sent blocked) : w.cl t = pc → IsSend pc e sent blocked →
      AStep w { w with sendq := w.sendq ++ [(t, e)], cl := updCl w.cl t blocked }
  | drainMarker (w : View) (t closing id w1) : w.cl t = .clrDrain closing → Recv w (.marker id) w1 → AStep w w1
  | drainItem (w : View) (t closing i w1) : w.cl t = .clrDrain closing → Recv w (.item i) w1 →
      AStep w { w1 with log := drainLog i ++ w1.log }
  | selItem (w : View) (x w1) : w.app = .idle → Recv w x w1 → AStep w { w1 with app := recvPc x }
  | clrShard (w : View) (t closing k ks pc') : w.cl t = .clrShard closing k → isShardOrder w.store k ks = true →
      (pc' = .clrEm closing ∨ pc' = .clrShard closing (k + 1)) →
      AStep w { w with store := eraseAll w.store ks, cl := updCl w.cl t pc', log := evLog w.store ks ++ w.log }
  | clrRestart (w : View) (t closing pc' l) : w.cl t = .clrRestart closing →
      ((pc' = .clsStop ∧ l = []) ∨ (pc' = .idle ∧ l = [.clearRet t])) →
      AStep w { w with app := .idle, cl := updCl w.cl t pc', log := l ++ w.log }
  | clsFinish (w : View) (t) : w.cl t = .clsFinish →
      AStep w { w with app := .dead, cl := updCl w.cl t .idle, log := .closeRet t :: w.log }
  | selStop (w : View) (t pc') : w.app = .idle →
      ((∃ closing, w.cl t = .clrStop closing ∧ pc' = .clrDone closing) ∨ (w.cl t = .clsStop ∧ pc' = .clsDone)) →
      AStep w { w with app := .stopAck, cl := updCl w.cl t pc' }
  | done (w : View) (t pc') : w.app = .stopAck →
      ((∃ closing, w.cl t = .clrDone closing ∧ pc' = .clrDrain closing) ∨ (w.cl t = .clsDone ∧ pc' = .clsFinish)) →
      AStep w { w with app := .dead, cl := updCl w.cl t pc' }
  | addedOk (w : View) (i vs st') : w.app = .added i vs true →
      (st' = w.store ∨ st' = w.store.insert i.key ⟨i.conflict, i.value, i.exp⟩) →
      AStep w { w with store := st', app := afterVictims vs }
  | victims (w : View) (h cost rest st' c v) : w.app = .victims ((h, cost) :: rest) → DelRes w.store h 0#64 st' c v →
      AStep w { w with store := st', app := .victimEvict h cost c v rest }
  | tombPolicy (w : View) (i st' c v) : w.app = .tombPolicy i → DelRes w.store i.key i.conflict st' c v →
      AStep w { w with store := st', app := .tombStore v }
  | swKeyDel (w : View) (now k c bs e) : w.app = .swKey now k c bs → w.store.lookup k = some e →
      (c = 0#64 ∨ c = e.conflict) →
      AStep w { w with store := w.store.erase k, app := .swStoreDel now k c e.exp e.value bs }
  | tick (w : View) : AStep w w

/-! ### the store operations -/
section storeops
open Gen.Cache

theorem mismatch_false {a b : Conf} (h : ((a != 0#64) && (a != b)) = false) : a = 0#64 ∨ a = b := by
  by_cases h1 : a = 0#64
  · exact Or.inl h1
  · by_cases h2 : a = b
    · exact Or.inr h2
    · simp [h1, h2] at h

theorem storeUpdate_cases (cfg : Cfg) (st : Store) (em : Em) (i : Item) :
    ((storeUpdate cfg st em i).2.2.2 = false ∧ (storeUpdate cfg st em i).1 = st) ∨
    (∃ e, st.lookup i.key = some e ∧ (i.conflict = 0#64 ∨ i.conflict = e.conflict) ∧
      (storeUpdate cfg st em i).1 = st.insert i.key ⟨i.conflict, i.value, i.exp⟩ ∧
      (storeUpdate cfg st em i).2.2.1 = e.value ∧ (storeUpdate cfg st em i).2.2.2 = true) := by
  unfold storeUpdate
  split
  · exact Or.inl ⟨rfl, rfl⟩
  · rename_i e he
    split
    · exact Or.inl ⟨rfl, rfl⟩
    · rename_i hm
      dsimp only
      split
      · exact Or.inl ⟨rfl, rfl⟩
      · exact Or.inr ⟨e, he, mismatch_false (by simpa [updConflictMismatch] using hm), rfl, rfl, rfl⟩

theorem storeDel_cases (st : Store) (em : Em) (k : Hash) (c : Conf) :
    DelRes st k c (storeDel st em k c).1 (storeDel st em k c).2.2.1 (storeDel st em k c).2.2.2 := by
  unfold storeDel
  split
  · exact .none
  · rename_i e he
    split
    · exact .none
    · rename_i hm
      exact .some e he (mismatch_false (by simpa [delConflictMismatch] using hm))

theorem storeSet_cases (cfg : Cfg) (st : Store) (em : Em) (i : Item) :
    (storeSet cfg st em i).1 = st ∨ (storeSet cfg st em i).1 = st.insert i.key ⟨i.conflict, i.value, i.exp⟩ := by
  unfold storeSet
  split
  · split
    · exact Or.inl rfl
    · dsimp only
      split
      · exact Or.inl rfl
      · exact Or.inr rfl
  · exact Or.inr rfl

theorem storeDelExpired_cases (st : Store) (em : Em) (k : Hash) (c : Conf) (now : Time) :
    (storeDelExpired st em k c now).2.2.2.2 = false ∨
    (∃ e, st.lookup k = some e ∧ (c = 0#64 ∨ c = e.conflict) ∧ (storeDelExpired st em k c now).1 = st.erase k ∧
      (storeDelExpired st em k c now).2.2.1 = e.value ∧ (storeDelExpired st em k c now).2.2.2.1 = e.exp ∧
      (storeDelExpired st em k c now).2.2.2.2 = true) := by
  unfold storeDelExpired
  split
  · exact Or.inl rfl
  · rename_i e he
    split
    · exact Or.inl rfl
    · rename_i hm
      split
      · exact Or.inl rfl
      · exact Or.inr ⟨e, he, mismatch_false (by simpa [sweepConflictMismatch] using hm), rfl, rfl, rfl, rfl⟩
end storeops

end RV.Cache
