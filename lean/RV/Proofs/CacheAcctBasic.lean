import RV.Proofs.CacheHandshake
import RV.Proofs.CacheAcctMap
/-!
# Shape lemmas for the steps the frame generator does not cover

`stGetStart`, `stIterShard`, `stClrShard`, `stClrDrain`, `apIdle`, `apCosted`: each lemma lists the
possible post-states explicitly, so that invariant proofs can `rcases` and `simp`.
Also: transport of a classification of client pcs along a step of one thread.
-/
namespace RV.Cache
open RV Gen.Cache

/-- A classification of pcs is unchanged for every thread when only thread `t` moved and its
class did not change. -/
theorem cls_congr {α : Type} {s s' : State} {t : Tid} (f : CPc → α)
    (hne : ∀ t', t' ≠ t → s'.cl t' = s.cl t') (h : f (s'.cl t) = f (s.cl t)) :
    ∀ t', f (s'.cl t') = f (s.cl t') := by
  intro t'
  by_cases e : t' = t
  · subst e; exact h
  · rw [hne t' e]

/-- The same for a receive: other threads may be unblocked, which the classification ignores. -/
theorem cls_recv {α : Type} {s s1 : State} {x : BufElem} (f : CPc → α) (hf : ∀ pc, f (unblockedPc pc) = f pc)
    (h : recvBuf s = some (x, s1)) : ∀ t', f (s1.cl t') = f (s.cl t') := by
  intro t'
  rcases recvBuf_cl h t' with e | e <;> rw [e]
  exact hf _

/-! ### evictAll -/

theorem evictAll_pol (s : State) (st : Store) (ks : List Hash) : (evictAll s st ks).pol = s.pol := by
  induction ks generalizing s with
  | nil => rfl
  | cons k rest ih => unfold evictAll; split <;> simp [ih]
theorem evictAll_met (s : State) (st : Store) (ks : List Hash) : (evictAll s st ks).met = s.met := by
  induction ks generalizing s with
  | nil => rfl
  | cons k rest ih => unfold evictAll; split <;> simp [ih]
theorem evictAll_store (s : State) (st : Store) (ks : List Hash) : (evictAll s st ks).store = s.store := by
  induction ks generalizing s with
  | nil => rfl
  | cons k rest ih => unfold evictAll; split <;> simp [ih]
theorem evictAll_buf (s : State) (st : Store) (ks : List Hash) : (evictAll s st ks).buf = s.buf := by
  induction ks generalizing s with
  | nil => rfl
  | cons k rest ih => unfold evictAll; split <;> simp [ih]
theorem evictAll_sendq (s : State) (st : Store) (ks : List Hash) : (evictAll s st ks).sendq = s.sendq := by
  induction ks generalizing s with
  | nil => rfl
  | cons k rest ih => unfold evictAll; split <;> simp [ih]
theorem evictAll_ringPending (s : State) (st : Store) (ks : List Hash) :
    (evictAll s st ks).ringPending = s.ringPending := by
  induction ks generalizing s with
  | nil => rfl
  | cons k rest ih => unfold evictAll; split <;> simp [ih]

/-- `evictAll` only logs `evict` and `exit` events. -/
theorem evictAll_log (s : State) (st : Store) (ks : List Hash) :
    ∃ evs : List Ev, (evictAll s st ks).log = evs ++ s.log ∧
      ∀ e ∈ evs, (∃ v, e = .exit v) ∨ (∃ h c v k, e = .evict h c v k) := by
  induction ks generalizing s with
  | nil => exact ⟨[], rfl, fun e he => by cases he⟩
  | cons k rest ih =>
    unfold evictAll
    split
    · exact ih s
    · rename_i e _
      obtain ⟨evs, h1, h2⟩ := ih (cbEvict s k e.conflict e.value 0)
      refine ⟨evs ++ [.exit e.value, .evict k e.conflict e.value 0], by simp [h1], ?_⟩
      intro x hx
      rcases List.mem_append.mp hx with hx | hx
      · exact h2 x hx
      · simp at hx
        rcases hx with rfl | rfl
        · exact Or.inl ⟨_, rfl⟩
        · exact Or.inr ⟨_, _, _, _, rfl⟩

/-! ### shapes -/

theorem stGetStart_cases {cfg : Cfg} {s s' : State} {t : Tid} {h : Hash} {c : Conf} {ch : Choice}
    (hs : stGetStart cfg s t h c ch = some s') :
    (s.closed = true ∧ s' = logEv (setCl s t .idle) (.getRet t h c none)) ∨
    (s.closed = false ∧ s' = setCl { s with ringPending := s.ringPending + 1 } t (.getRead h c)) ∨
    (s.closed = false ∧ ∃ (kept : Bool) (n : Nat), 0 < n ∧ n ≤ s.ringPending + 1 ∧
      s' = setCl (metAdd cfg { s with ringPending := s.ringPending + 1 - n } fun m =>
          if kept then { m with keepGets := m.keepGets + BitVec.ofNat 64 n }
          else { m with dropGets := m.dropGets + BitVec.ofNat 64 n }) t (.getRead h c)) := by
  unfold stGetStart at hs
  dsimp only at hs
  split at hs
  · simp only [Option.some.injEq] at hs; subst hs
    exact Or.inl ⟨by assumption, rfl⟩
  · rename_i hc
    have hc' : s.closed = false := by simpa using hc
    split at hs
    · simp only [Option.some.injEq] at hs; subst hs
      exact Or.inr (Or.inl ⟨hc', rfl⟩)
    · rename_i kept n
      split at hs
      · simp at hs
      · rename_i hn
        simp only [Option.some.injEq] at hs; subst hs
        refine Or.inr (Or.inr ⟨hc', kept, n, by omega, by omega, rfl⟩)
    · simp at hs

theorem stIterShard_cases {s s' : State} {t : Tid} {k n : Nat} {seen : List Val} {ch : Choice}
    (hs : stIterShard s t k n seen ch = some s') :
    ∃ ks, ch = .order ks ∧ k < numShards.toNat ∧ isShardOrder s.store k ks = true ∧
      (((iterVisit s.store s.clock n ks seen).2 = true ∨ k + 1 = numShards.toNat) ∧
          s' = logEv (setCl s t .idle) (.iterRet t (iterVisit s.store s.clock n ks seen).1) ∨
       (¬ ((iterVisit s.store s.clock n ks seen).2 = true ∨ k + 1 = numShards.toNat)) ∧
          s' = setCl s t (.iterShard (k + 1) n (iterVisit s.store s.clock n ks seen).1)) := by
  unfold stIterShard at hs
  dsimp only at hs
  split at hs
  · rename_i ks
    split at hs
    · simp at hs
    · rename_i hk
      split at hs
      · simp at hs
      · rename_i ho
        refine ⟨ks, rfl, by omega, by simpa using ho, ?_⟩
        split at hs
        · rename_i hc
          simp only [Option.some.injEq] at hs; subst hs
          exact Or.inl ⟨hc, rfl⟩
        · rename_i hc
          simp only [Option.some.injEq] at hs; subst hs
          exact Or.inr ⟨hc, rfl⟩
  · simp at hs

theorem stClrShard_cases {s s' : State} {t : Tid} {closing : Bool} {k : Nat} {ch : Choice}
    (hs : stClrShard s t closing k ch = some s') :
    ∃ ks, ch = .order ks ∧ k < numShards.toNat ∧ isShardOrder s.store k ks = true ∧
      s' = setCl { evictAll s s.store ks with store := eraseAll (evictAll s s.store ks).store ks } t
        (if k + 1 = numShards.toNat then .clrEm closing else .clrShard closing (k + 1)) := by
  unfold stClrShard at hs
  split at hs
  · rename_i ks
    split at hs
    · simp at hs
    · split at hs
      · simp at hs
      · rename_i hk ho
        simp only [Option.some.injEq] at hs; subst hs
        exact ⟨ks, rfl, by omega, by simpa using ho, rfl⟩
  · simp at hs

theorem stClrDrain_cases (s : State) (t : Tid) (closing : Bool) :
    (recvBuf s = none ∧ stClrDrain s t closing = setCl s t (.clrPolicy closing)) ∨
    (∃ id s1, recvBuf s = some (.marker id, s1) ∧
        stClrDrain s t closing = { s1 with closedMarkers := id :: s1.closedMarkers }) ∨
    (∃ i s1, recvBuf s = some (.item i, s1) ∧ clearEvictsItem i.flag.code = true ∧
        stClrDrain s t closing = cbEvict s1 i.key i.conflict i.value i.cost) ∨
    (∃ i s1, recvBuf s = some (.item i, s1) ∧ clearEvictsItem i.flag.code = false ∧
        stClrDrain s t closing = s1) := by
  unfold stClrDrain
  split
  · exact Or.inl ⟨by assumption, rfl⟩
  · exact Or.inr (Or.inl ⟨_, _, by assumption, rfl⟩)
  · rename_i i s1 hr
    split
    · rename_i hc; exact Or.inr (Or.inr (Or.inl ⟨i, s1, hr, hc, rfl⟩))
    · rename_i hc; exact Or.inr (Or.inr (Or.inr ⟨i, s1, hr, by simpa using hc, rfl⟩))

theorem recvBuf_none {s : State} (h : recvBuf s = none) : s.buf = [] := by
  unfold recvBuf at h
  split at h
  · assumption
  · split at h <;> simp at h

theorem apIdle_cases {s s' : State} {ch : Choice} (hs : apIdle s ch = some s') :
    (∃ id s1, ch = .selItem ∧ recvBuf s = some (.marker id, s1) ∧ s' = { s1 with app := .marker id }) ∨
    (∃ i s1, ch = .selItem ∧ recvBuf s = some (.item i, s1) ∧ s' = { s1 with app := .item i }) ∨
    (ch = .selTick ∧ s' = { s with app := .tick }) ∨
    (∃ t, ch = .selStop t ∧ apSelStop s t = some s') := by
  unfold apIdle at hs
  split at hs
  · unfold apSelItem at hs
    split at hs
    · simp at hs
    · simp only [Option.some.injEq] at hs; subst hs
      exact Or.inl ⟨_, _, rfl, by assumption, rfl⟩
    · simp only [Option.some.injEq] at hs; subst hs
      exact Or.inr (Or.inl ⟨_, _, rfl, by assumption, rfl⟩)
  · simp only [Option.some.injEq] at hs; subst hs
    exact Or.inr (Or.inr (Or.inl ⟨rfl, rfl⟩))
  · exact Or.inr (Or.inr (Or.inr ⟨_, rfl, hs⟩))
  · simp at hs

theorem apSelStop_cases {s s' : State} {t : Tid} (hs : apSelStop s t = some s') :
    (∃ closing, s.cl t = .clrStop closing ∧ s' = setCl { s with app := .stopAck } t (.clrDone closing)) ∨
    (s.cl t = .clsStop ∧ s' = setCl { s with app := .stopAck } t .clsDone) := by
  unfold apSelStop at hs
  split at hs
  · simp only [Option.some.injEq] at hs; subst hs
    exact Or.inl ⟨_, by assumption, rfl⟩
  · simp only [Option.some.injEq] at hs; subst hs
    exact Or.inr ⟨by assumption, rfl⟩
  · simp at hs

theorem apCosted_cases {cfg : Cfg} {s s' : State} {i : Item} {ch : Choice} (hs : apCosted cfg s i ch = some s') :
    (∃ victims added pm, i.flag = .new ∧ ch = .add victims added ∧
        polAdd cfg.metricsOn s.pol s.met i.key i.cost victims added = some pm ∧
        s' = { s with pol := pm.1, met := pm.2, app := .added i victims added }) ∨
    (i.flag = .upd ∧ ch = .none ∧ s' = apCostedUpd cfg s i) ∨
    (i.flag = .del ∧ ch = .none ∧ s' = apCostedDel cfg s i) := by
  unfold apCosted at hs
  split at hs
  · rename_i hf
    unfold apCostedNew at hs
    split at hs
    · split at hs
      · simp at hs
      · rename_i pm hp
        simp only [Option.some.injEq] at hs; subst hs
        exact Or.inl ⟨_, _, pm, hf, rfl, hp, rfl⟩
    · simp at hs
  · rename_i hf
    obtain ⟨hch, hr⟩ := needNone_some hs
    simp only [Option.some.injEq] at hr; subst hr
    exact Or.inr (Or.inl ⟨hf, hch, rfl⟩)
  · rename_i hf
    obtain ⟨hch, hr⟩ := needNone_some hs
    simp only [Option.some.injEq] at hr; subst hr
    exact Or.inr (Or.inr ⟨hf, hch, rfl⟩)

theorem apVictims_cases {s s' : State} {vs : List (Hash × Int)} (hs : apVictims s vs = some s') :
    ∃ h cost rest, vs = (h, cost) :: rest ∧
      s' = { s with store := (storeDel s.store s.em h 0#64).1, em := (storeDel s.store s.em h 0#64).2.1,
                    app := .victimEvict h cost (storeDel s.store s.em h 0#64).2.2.1
                      (storeDel s.store s.em h 0#64).2.2.2 rest } := by
  unfold apVictims at hs
  split at hs
  · simp at hs
  · simp only [Option.some.injEq] at hs; subst hs
    exact ⟨_, _, _, rfl, rfl⟩

theorem apSweep_cases {s s' : State} {now : Time} {bs : List (AMap Hash Conf)} {ch : Choice}
    (hs : apSweep s now bs ch = some s') :
    (firstNonEmpty bs = [] ∧ s' = { s with app := .idle }) ∨
    (∃ b rest k c, firstNonEmpty bs = b :: rest ∧ b.lookup k = some c ∧
        s' = { s with app := .swKey now k c (b.erase k :: rest) }) := by
  unfold apSweep at hs
  split at hs
  · simp only [Option.some.injEq] at hs; subst hs
    exact Or.inl ⟨by assumption, rfl⟩
  · split at hs
    · simp at hs
    · simp only [Option.some.injEq] at hs; subst hs
      exact Or.inr ⟨_, _, _, _, by assumption, by assumption, rfl⟩
  · simp at hs

theorem doneStep_cases {s s' : State} {t : Tid} (hs : doneStep s t = some s') :
    s.app = .stopAck ∧
    ((∃ closing, s.cl t = .clrDone closing ∧ s' = setCl { s with app := .dead } t (.clrDrain closing)) ∨
     (s.cl t = .clsDone ∧ s' = setCl { s with app := .dead } t .clsFinish)) := by
  unfold doneStep at hs
  split at hs
  · simp only [Option.some.injEq] at hs; subst hs
    exact ⟨by assumption, Or.inl ⟨_, by assumption, rfl⟩⟩
  · simp only [Option.some.injEq] at hs; subst hs
    exact ⟨by assumption, Or.inr ⟨by assumption, rfl⟩⟩
  · simp at hs

theorem spawnStep_idle {s s' : State} {t : Tid} {c : Call} (hs : spawnStep s t c = some s') : s.cl t = .idle := by
  unfold spawnStep at hs
  split at hs
  · assumption
  · simp at hs

end RV.Cache
