import RV.Gen.CacheA
import RV.Proofs.TieCacheDefs
/-!
# TieCacheApp, definitions: the model's instance of the generated interface `Gen.CacheA.Iface`
# (what the sections of `Cache.processItems` call) and the abstraction from the parking points of
# the applier to the model's applier program counters `APc`

`Gen.CacheA` (regenerated from /repo's cache.go on every run, go2lean/cachea.go + cachem.go) has one
function per SECTION of `Cache.processItems` between two yield points; the head of
`for { select … }` is the parking point `loop`, each clause of the select is a section taking the
received value, the victims loop is cut per element.  Here:

* `W := State`, `V := Nat`; an item pointer is `Gen.Methods.Item Nat` (abstracted by
  `TieCache.absItem`); a victim returned by `cachePolicy.Add` is abstracted to the model's pair
  `(key, cost)` by `absVictim`;
* `policy_Add` := the model's `polAdd` for the OUTCOME `(victims, added)` that is a parameter of the
  instance — exactly as `polAdd` takes it as the choice of the step (`Choice.add`);
* `policy_Update / policy_Del` := `polUpdate / polDel`; `store_Set / store_Del` := `storeSet /
  storeDel` (tied to the generated `lockedMap` methods in TieStore);
* `onExit / onReject` := `cbExit / cbReject`; the applier's local closure `onEvict` := `cbEvict`
  (its life-expectancy bookkeeping on the goroutine-local map `startTs` is not modelled);
  `trackAdmission` := identity (same reason);
* `chan_close` := push the marker id on `closedMarkers`; `cost / cost_nonnil` := `Cfg.costFn`
  (its result read back as int64), `ignoreInternalCost` := `Cfg.ignoreInternal`;
* `done_send` always parks: `done` is unbuffered, the rendezvous is the model's `Action.done`.
-/
namespace RV.TieCacheApp
open RV RV.Cache Gen.Cache Gen.CacheA RV.TieCache

/-- a victim of `cachePolicy.Add` (`&Item{Key: k, Cost: c}`) as the model's pair -/
def absVictim (i : GItem) : Hash × Int := (i.Key, i.Cost.toInt)

/-- the model's pieces as the interface of the applier's sections; `(victims, added)` is the outcome
of `cachePolicy.Add` (a choice of the model) -/
def aI (cfg : Cfg) (victims : List GItem := []) (added : Bool := false) : Iface State Key Nat where
  zeroV := 0
  cost := fun v => match cfg.costFn with | some f => w64 (f v) | none => 0#64
  cost_nonnil := cfg.costFn.isSome
  ignoreInternalCost := cfg.ignoreInternal
  policy_Add := fun s k c =>
    match polAdd cfg.metricsOn s.pol s.met k c.toInt (victims.map absVictim) added with
    | some pm => ({ s with pol := pm.1, met := pm.2 }, victims, added)
    | none => (s, victims, added)
  policy_Update := fun s k c =>
    let r := polUpdate cfg.metricsOn s.pol s.met k c.toInt
    { s with pol := r.1, met := r.2.1 }
  policy_Del := fun s k =>
    let r := polDel cfg.metricsOn s.pol s.met k
    { s with pol := r.1, met := r.2 }
  store_Set := fun s i =>
    let r := storeSet cfg s.store s.em (absItem i)
    { s with store := r.1, em := r.2 }
  store_Del := fun s k c =>
    let r := storeDel s.store s.em k c
    ({ s with store := r.1, em := r.2.1 }, r.2.2.1, r.2.2.2)
  Metrics_add := fun s k _ d => metAdd cfg s (fun m => RV.TiePolicy.bump m k d)
  onExit := fun s v => cbExit s v
  onReject := fun s i => cbReject s i.Key i.Conflict i.Value i.Cost.toInt
  local_trackAdmission := fun s _ => s
  local_onEvict := fun s i => cbEvict s i.Key i.Conflict i.Value i.Cost.toInt
  chan_close := fun s o =>
    match o with
    | some id => { s with closedMarkers := id :: s.closedMarkers }
    | none => s
  done_send := fun s _ => (s, false)

/-- parking point of `processItems` ↦ applier program counter of the model.  Several parking points
map to the same pc: the code has more yield points than the model has steps (`vpAppMarker`,
`vpAppUpdated`, `vpAppItemDone`, `vpAppTickDone` and the loop head are all "idle"; `vpAppStored` is
already at the head of the victims loop). -/
def pcApp : processItems_Out Key Nat → APc
  | .ret => .dead
  | .loop => .idle
  | .vpAppItem _ (some id) => .marker id
  | .vpAppItem i none => .item (absItem i)
  | .vpAppMarker => .idle
  | .vpAppCosted i => .costed (absItem i)
  | .vpAppAdded i victims added => .added (absItem i) (victims.map absVictim) added
  | .vpAppStored victims => afterVictims (victims.map absVictim)
  | .vpAppVictimDel rest v => .victims (absVictim v :: rest.map absVictim)
  | .vpAppVictimEvict rest v => .victimEvict v.Key v.Cost.toInt v.Conflict v.Value (rest.map absVictim)
  | .vpAppUpdated => .idle
  | .vpAppTombPolicy i => .tombPolicy (absItem i)
  | .vpAppTombStore v => .tombStore v
  | .vpAppItemDone => .idle
  | .vpAppTick => .tick
  | .call_store_Cleanup => .tick
  | .vpAppTickDone => .idle
  | .vpAppStop => .stopAck
  | .vpAppDoneSent_blocked => .stopAck
  | .vpAppDoneSent => .dead

/-- the model state after a section of the applier: the shared state the section left, the applier
at the pc of the parking point (callback events are part of the shared state) -/
def landApp (r : State × processItems_Out Key Nat) : State := { r.1 with app := pcApp r.2 }

/-- `setBuf` element of the model ↦ what the Go receive binds: the item and its `wait` channel -/
def RepElem : BufElem → GItem → Option Nat → Prop
  | .marker id, _, w => w = some id
  | .item it, i, w => w = none ∧ absItem i = it

/-- the three flag bytes the code ever writes (`itemNew`, `itemDelete`, `itemUpdate`) -/
def ValidFlag (i : GItem) : Prop := i.flag = 0#8 ∨ i.flag = 1#8 ∨ i.flag = 2#8

/-- no int64 overflow in the cost pre-processing (the excluded corner is the open finding F9: the
model's costs are integers): the `Config.Cost` result and the cost plus `itemSize` are int64 values -/
def CostFits (cfg : Cfg) (i : GItem) : Prop :=
  (∀ f, cfg.costFn = some f → -(2:Int)^63 ≤ f i.Value ∧ f i.Value < (2:Int)^63) ∧
  itemCost cfg (absItem i) < (2:Int)^63

/-! ## helper lemmas -/

theorem bmod64' {x : Int} (h1 : -(2:Int)^63 ≤ x) (h2 : x < (2:Int)^63) : x.bmod (2 ^ 64) = x := by
  rw [Int.bmod_eq_emod]
  have : ((2 : Nat) ^ 64 : Nat) = 18446744073709551616 := by decide
  rw [this]
  split <;> omega

theorem toInt_add56 (x : BitVec 64) (h : x.toInt + 56 < (2:Int)^63) : (x + 56#64).toInt = x.toInt + 56 := by
  have h1 := BitVec.le_toInt x
  rw [BitVec.toInt_add]
  have : (56#64 : BitVec 64).toInt = 56 := by decide
  rw [this]
  apply bmod64' <;> simp at h1 ⊢ <;> omega

theorem w64_toInt (f : Int) (h1 : -(2:Int)^63 ≤ f) (h2 : f < (2:Int)^63) : (w64 f).toInt = f := by
  unfold w64
  rw [BitVec.toInt_ofInt]
  exact bmod64' h1 h2

theorem flagOf_code_ne_del : ∀ f : BitVec 8, ((flagOf f).code != 1#8) = (f != 1#8) := by decide

theorem absItem_cost (i : GItem) (c : BitVec 64) :
    absItem { i with Cost := c } = { absItem i with cost := c.toInt } := by
  simp [absItem]

end RV.TieCacheApp
