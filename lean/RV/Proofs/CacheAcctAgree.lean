import RV.Proofs.CacheAcctExpl
import RV.Proofs.CacheAcctLog
/-!
# Drained states: the accounting and the map hold the same keys

`Drained s`: write buffer empty, no blocked sender, applier idle, every client idle.
In a drained state reached by a collision-free run no in-flight excuse holds, hence
`accounted s h = stored s h` for every hash, and the two key lists have the same length.
-/
namespace RV.Cache
open RV

structure Drained (s : State) : Prop where
  buf : s.buf = []
  sendq : s.sendq = []
  app : s.app = .idle
  cl : ∀ t, s.cl t = .idle

theorem drained_no_reasonA {s : State} (hd : Drained s) (h : Hash) : ¬ ReasonA s h := by
  rintro (⟨t, ht⟩ | h1 | h1)
  · rw [hd.cl t] at ht; cases ht
  · rw [hd.app] at h1; cases h1
  · simp [chanTomb, hd.buf, hd.sendq] at h1

theorem drained_no_reasonB {s : State} (hd : Drained s) (h : Hash) : ¬ ReasonB s h := by
  rintro (⟨t, k, ht, _⟩ | h1)
  · rw [hd.cl t] at ht; cases ht
  · rw [hd.app] at h1; cases h1

theorem agree_of_expl {s : State} (he : Expl s) (hd : Drained s) (h : Hash) : accounted s h = stored s h := by
  cases ha : accounted s h <;> cases hs : stored s h
  · rfl
  · exact absurd (he.eb h hs ha) (drained_no_reasonB hd h)
  · exact absurd (he.ea h ha hs) (drained_no_reasonA hd h)
  · rfl

/-- two duplicate-free association maps with the same key set have the same size -/
theorem size_eq_of_same_keys {α β : Type} (m1 : AMap Hash α) (m2 : AMap Hash β) (h1 : AMap.NodupKeys m1)
    (h2 : AMap.NodupKeys m2) (hk : ∀ h, (m1.lookup h).isSome = (m2.lookup h).isSome) : m1.size = m2.size := by
  have hperm : (AMap.keys m1).Perm (AMap.keys m2) := by
    rw [List.perm_ext_iff_of_nodup h1 h2]
    intro a
    constructor
    · intro ha
      have := AMap.lookup_isSome_of_mem_keys ha
      rw [hk] at this
      cases hl : m2.lookup a with
      | none => rw [hl] at this; cases this
      | some v => exact AMap.mem_keys_of_lookup hl
    · intro ha
      have := AMap.lookup_isSome_of_mem_keys ha
      rw [← hk] at this
      cases hl : m1.lookup a with
      | none => rw [hl] at this; cases this
      | some v => exact AMap.mem_keys_of_lookup hl
  have := hperm.length_eq
  have e1 : (AMap.keys m1).length = m1.size := List.length_map _
  have e2 : (AMap.keys m2).length = m2.size := List.length_map _
  omega

/-- In a drained state of a collision-free run the accounting charges exactly the stored keys. -/
theorem agree_reachC {cfg : Cfg} {conf : Hash → Conf} {s : State} (hr : ReachC cfg conf s) (hd : Drained s) :
    (∀ h, accounted s h = stored s h) ∧ s.pol.costs.size = s.store.size := by
  have he := expl_reachC hr
  have hag := agree_of_expl he hd
  exact ⟨hag, size_eq_of_same_keys _ _ (acct_reach hr.reach).wf.nodup (store_nodup_reach hr.reach) hag⟩

end RV.Cache
