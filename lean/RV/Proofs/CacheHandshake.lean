import RV.Proofs.CacheFrames2
import RV.Proofs.CacheCases
/-!
# The stop/done handshake invariant (used by C08, C13, C15, C17)

At most one client is "active" (between having its `stop` taken and restarting the
applier); the applier is `stopAck` exactly while such a client waits for `done`, `dead`
exactly while such a client drains/clears (or the cache is closed), and running otherwise.
-/
namespace RV.Cache
structure Handshake (s : State) : Prop where
  unique : ∀ t1 t2, (s.cl t1).active → (s.cl t2).active → t1 = t2
  wd : ∀ t, (s.cl t).waitingDone → s.app = .stopAck
  busy : ∀ t, (s.cl t).busy → s.app = .dead
  ack : s.app = .stopAck → ∃ t, (s.cl t).waitingDone
  dead : s.app = .dead → s.closed ∨ ∃ t, (s.cl t).busy
  closed : s.closed → s.app = .dead ∧ ∀ t, ¬ (s.cl t).active

/-- Handshake only looks at the classification of `cl`, at whether `app` is `stopAck`/`dead`,
and at `closed`. -/
theorem handshake_congr {s s' : State} (h : Handshake s)
    (hcl : ∀ t, (s'.cl t).waitingDone = (s.cl t).waitingDone ∧ (s'.cl t).busy = (s.cl t).busy)
    (happ : s'.app = .stopAck ↔ s.app = .stopAck) (happ2 : s'.app = .dead ↔ s.app = .dead)
    (hclosed : s'.closed = s.closed) : Handshake s' := by
  have hact : ∀ t, (s'.cl t).active = (s.cl t).active := fun t => by simp [CPc.active, hcl t]
  constructor
  · intro t1 t2 h1 h2; rw [hact] at h1 h2; exact h.unique t1 t2 h1 h2
  · intro t ht; rw [(hcl t).1] at ht; exact happ.mpr (h.wd t ht)
  · intro t ht; rw [(hcl t).2] at ht; exact happ2.mpr (h.busy t ht)
  · intro ha; obtain ⟨t, ht⟩ := h.ack (happ.mp ha); exact ⟨t, by rw [(hcl t).1]; exact ht⟩
  · intro ha; rw [hclosed]
    rcases h.dead (happ2.mp ha) with hc | ⟨t, ht⟩
    · exact Or.inl hc
    · exact Or.inr ⟨t, by rw [(hcl t).2]; exact ht⟩
  · intro hc; rw [hclosed] at hc
    obtain ⟨h1, h2⟩ := h.closed hc
    exact ⟨happ2.mpr h1, fun t => by rw [hact]; exact h2 t⟩

theorem active_false {pc : CPc} (h : pc.active = false) : pc.waitingDone = false ∧ pc.busy = false := by
  simpa [CPc.active] using h

theorem handshake_frame {s s' : State} (h : Handshake s) (t : Tid)
    (hne : ∀ t', t' ≠ t → s'.cl t' = s.cl t') (h0 : (s.cl t).active = false)
    (h1 : (s'.cl t).active = false) (happ : s'.app = s.app) (hclosed : s'.closed = s.closed) :
    Handshake s' := by
  apply handshake_congr h
  · intro t'
    by_cases ht : t' = t
    · subst ht; simp [active_false h0, active_false h1]
    · rw [hne t' ht]; simp
  · rw [happ]
  · rw [happ]
  · exact hclosed

open Lean in
/-- `frame_step stX`: the step function `stX` only moves its own (inactive) thread and leaves
`app`/`closed` alone — closes a goal `Handshake (stX …)` from `h : Handshake s`. -/
macro "hs_frame " f:ident : tactic => do
  let n := f.getId
  let clne := mkIdent (n.appendAfter "_cl_ne")
  let inact := mkIdent (n.appendAfter "_inactive")
  let app := mkIdent (n.appendAfter "_app")
  let closed := mkIdent (n.appendAfter "_closed")
  `(tactic| (refine handshake_frame ‹Handshake _› _ (fun _ hne => $clne (hne := hne) ..) ?_ ($inact ..) ($app ..) ($closed ..); simp_all [CPc.active, CPc.busy, CPc.waitingDone]))


/-! ### the frame lemmas the generator missed -/

theorem stSetUpd_inactive (cfg : Cfg) (s : State) (t : Tid) (i : Item) : ((stSetUpd cfg s t i).cl t).active = false := by
  unfold stSetUpd; dsimp only; split <;> simp [CPc.active, CPc.busy, CPc.waitingDone]
theorem stDelSend_inactive (cfg : Cfg) (s : State) (t : Tid) (h : Hash) (c : Conf) :
    ((stDelSend cfg s t h c).cl t).active = false := by
  unfold stDelSend sendBlocking; split <;> simp [CPc.active, CPc.busy, CPc.waitingDone]
theorem stWaitSend_inactive (cfg : Cfg) (s : State) (t : Tid) : ((stWaitSend cfg s t).cl t).active = false := by
  unfold stWaitSend sendBlocking; split <;> simp [CPc.active, CPc.busy, CPc.waitingDone]
theorem stTtlExp_inactive (s : State) (t : Tid) (h : Hash) (c : Conf) : ((stTtlExp s t h c).cl t).active = false := by
  unfold stTtlExp; dsimp only; split <;> simp [CPc.active, CPc.busy, CPc.waitingDone]

theorem stGetStart_frame {cfg : Cfg} {s s' : State} {t : Tid} {h : Hash} {c : Conf} {ch : Choice}
    (hs : stGetStart cfg s t h c ch = some s') :
    (∀ t', t' ≠ t → s'.cl t' = s.cl t') ∧ (s'.cl t).active = false ∧ s'.app = s.app ∧ s'.closed = s.closed := by
  unfold stGetStart at hs
  dsimp only at hs
  split at hs
  · simp only [Option.some.injEq] at hs; subst hs
    exact ⟨fun t' hne => by simp [setCl_cl_ne _ _ _ hne], by simp [CPc.active, CPc.busy, CPc.waitingDone], rfl, rfl⟩
  · split at hs
    · simp only [Option.some.injEq] at hs; subst hs
      exact ⟨fun t' hne => by simp [setCl_cl_ne _ _ _ hne], by simp [CPc.active, CPc.busy, CPc.waitingDone], rfl, rfl⟩
    · split at hs
      · simp at hs
      · simp only [Option.some.injEq] at hs; subst hs
        exact ⟨fun t' hne => by simp [setCl_cl_ne _ _ _ hne], by simp [CPc.active, CPc.busy, CPc.waitingDone], by simp, by simp⟩
    · simp at hs

theorem stIterShard_frame {s s' : State} {t : Tid} {k n : Nat} {seen : List Val} {ch : Choice}
    (hs : stIterShard s t k n seen ch = some s') :
    (∀ t', t' ≠ t → s'.cl t' = s.cl t') ∧ (s'.cl t).active = false ∧ s'.app = s.app ∧ s'.closed = s.closed := by
  unfold stIterShard at hs
  dsimp only at hs
  split at hs
  · split at hs
    · simp at hs
    · split at hs
      · simp at hs
      · split at hs <;> (simp only [Option.some.injEq] at hs; subst hs) <;>
          exact ⟨fun t' hne => by simp [setCl_cl_ne _ _ _ hne], by simp [CPc.active, CPc.busy, CPc.waitingDone], rfl, rfl⟩
  · simp at hs

/-! ### steps of the Clear/Close protocol -/

theorem handshake_busy_step {s s' : State} (h : Handshake s) (t : Tid)
    (hcl : ∀ t', t' ≠ t → (s'.cl t').waitingDone = (s.cl t').waitingDone ∧ (s'.cl t').busy = (s.cl t').busy)
    (h0 : (s.cl t).busy = true) (h1 : (s'.cl t).busy = true)
    (happ : s'.app = s.app) (hclosed : s'.closed = s.closed) : Handshake s' := by
  have hw0 : (s.cl t).waitingDone = false := by
    cases hpc : s.cl t <;> simp [hpc, CPc.busy, CPc.waitingDone] at h0 ⊢
  have hw1 : (s'.cl t).waitingDone = false := by
    cases hpc : s'.cl t <;> simp [hpc, CPc.busy, CPc.waitingDone] at h1 ⊢
  apply handshake_congr h
  · intro t'
    by_cases ht : t' = t
    · subst ht; simp [h0, h1, hw0, hw1]
    · exact hcl t' ht
  · rw [happ]
  · rw [happ]
  · exact hclosed

theorem evictAll_cl (s : State) (st : Store) (ks : List Hash) : (evictAll s st ks).cl = s.cl := by
  induction ks generalizing s with
  | nil => rfl
  | cons k rest ih => unfold evictAll; split <;> simp [ih]
theorem evictAll_app (s : State) (st : Store) (ks : List Hash) : (evictAll s st ks).app = s.app := by
  induction ks generalizing s with
  | nil => rfl
  | cons k rest ih => unfold evictAll; split <;> simp [ih]
theorem evictAll_closed (s : State) (st : Store) (ks : List Hash) : (evictAll s st ks).closed = s.closed := by
  induction ks generalizing s with
  | nil => rfl
  | cons k rest ih => unfold evictAll; split <;> simp [ih]

theorem handshake_clientStep {cfg : Cfg} {s s' : State} {t : Tid} {ch : Choice}
    (h : Handshake s) (hs : clientStep cfg s t ch = some s') : Handshake s' := by
  apply clientStep_cases hs (motive := Handshake)
  case setStart => intros; hs_frame stSetStart
  case setUpd => intros; hs_frame stSetUpd
  case setExit => intros; hs_frame stSetExit
  case setSend => intros; hs_frame stSetSend
  case setRetTrue => intros; hs_frame stSetRetTrue
  case setRetDrop => intros; hs_frame stSetRetDrop
  case delStart => intros; hs_frame stDelStart
  case delExit => intros; hs_frame stDelExit
  case delSend => intros; hs_frame stDelSend
  case delSent => intros; hs_frame stDelSent
  case waitStart => intros; hs_frame stWaitStart
  case waitSend => intros; hs_frame stWaitSend
  case waitDone => intros; hs_frame stWaitDone
  case getRead => intros; hs_frame stGetRead
  case getCheck => intros; hs_frame stGetCheck
  case getMetric => intros; hs_frame stGetMetric
  case ttlRead => intros; hs_frame stTtlRead
  case ttlCheck => intros; hs_frame stTtlCheck
  case ttlExp => intros; hs_frame stTtlExp
  case ttlNow => intros; hs_frame stTtlNow
  case ttlUntil => intros; hs_frame stTtlUntil
  case iterStart => intros; hs_frame stIterStart
  case clrStart => intros; hs_frame stClrStart
  case updMax => intros; hs_frame stUpdMax
  case readMax => intros; hs_frame stReadMax
  case readRem => intros; hs_frame stReadRem
  case waitRecv =>
    intro id hpc _ hr
    exact handshake_frame h t (fun t' hne => stWaitRecv_cl_ne s t id hr hne) (by simp [hpc, CPc.active, CPc.busy, CPc.waitingDone])
      (stWaitRecv_inactive s t id hr) (stWaitRecv_app s t id hr) (stWaitRecv_closed s t id hr)
  case getStart =>
    intro h' c hpc hr
    obtain ⟨h1, h2, h3, h4⟩ := stGetStart_frame hr
    exact handshake_frame h t h1 (by simp [hpc, CPc.active, CPc.busy, CPc.waitingDone]) h2 h3 h4
  case iterShard =>
    intro k n seen hpc hr
    obtain ⟨h1, h2, h3, h4⟩ := stIterShard_frame hr
    exact handshake_frame h t h1 (by simp [hpc, CPc.active, CPc.busy, CPc.waitingDone]) h2 h3 h4
  case clrDrain =>
    intro closing hpc _
    unfold stClrDrain
    split
    · exact handshake_busy_step h t (fun t' hne => by simp [setCl_cl_ne _ _ _ hne]) (by simp [hpc, CPc.busy]) (by simp [CPc.busy]) rfl rfl
    · rename_i id s1 hr
      apply handshake_congr h
      · intro t'; rcases recvBuf_cl hr t' with e | e <;> simp [e]
      · simp [recvBuf_app hr]
      · simp [recvBuf_app hr]
      · simp [recvBuf_closed hr]
    · rename_i i s1 hr
      split
      · apply handshake_congr h
        · intro t'; rcases recvBuf_cl hr t' with e | e <;> simp [e]
        · simp [recvBuf_app hr]
        · simp [recvBuf_app hr]
        · simp [recvBuf_closed hr]
      · apply handshake_congr h
        · intro t'; rcases recvBuf_cl hr t' with e | e <;> simp [e]
        · simp [recvBuf_app hr]
        · simp [recvBuf_app hr]
        · simp [recvBuf_closed hr]
  case clrPolicy =>
    intro closing hpc _
    exact handshake_busy_step h t (fun t' hne => by simp [stClrPolicy, setCl_cl_ne _ _ _ hne]) (by simp [hpc, CPc.busy])
      (by simp [stClrPolicy, CPc.busy]) rfl rfl
  case clrShard =>
    intro closing k hpc hr
    unfold stClrShard at hr
    split at hr
    · split at hr
      · simp at hr
      · split at hr
        · simp at hr
        · simp only [Option.some.injEq] at hr; subst hr
          refine handshake_busy_step h t (fun t' hne => by simp [setCl_cl_ne _ _ _ hne, evictAll_cl]) (by simp [hpc, CPc.busy]) ?_
            (by simp [evictAll_app]) (by simp [evictAll_closed])
          simp only [setCl_cl_self]; split <;> simp [CPc.busy]
    · simp at hr
  case clrEm =>
    intro closing hpc _
    exact handshake_busy_step h t (fun t' hne => by simp [stClrEm, setCl_cl_ne _ _ _ hne]) (by simp [hpc, CPc.busy])
      (by simp [stClrEm, CPc.busy]) rfl rfl
  case clrMetrics =>
    intro closing hpc _
    refine handshake_busy_step h t (fun t' hne => ?_) (by simp [hpc, CPc.busy]) (by simp [stClrMetrics, CPc.busy]) ?_ ?_
    · unfold stClrMetrics; split <;> simp [setCl_cl_ne _ _ _ hne]
    · unfold stClrMetrics; split <;> rfl
    · unfold stClrMetrics; split <;> rfl
  case clrRestart =>
    intro closing hpc _
    have hb : (s.cl t).busy = true := by simp [hpc, CPc.busy]
    have hact : (s.cl t).active = true := by simp [CPc.active, hb]
    have hdead := h.busy t hb
    have hnc : s.closed = false := by
      cases hc : s.closed
      · rfl
      · exact absurd hact (by simpa using (h.closed hc).2 t)
    have hothers : ∀ t', t' ≠ t → (s.cl t').active = false := by
      intro t' hne
      cases ha : (s.cl t').active
      · rfl
      · exact absurd (h.unique t' t ha hact) hne
    have hcl : ∀ t', ((stClrRestart s t closing).cl t').active = false := by
      intro t'
      by_cases ht : t' = t
      · subst ht; exact stClrRestart_inactive s t' closing
      · rw [stClrRestart_cl_ne s t closing ht]; exact hothers t' ht
    have happ : (stClrRestart s t closing).app = .idle := by
      unfold stClrRestart; dsimp only; split <;> rfl
    have hcls : (stClrRestart s t closing).closed = false := by rw [stClrRestart_closed]; exact hnc
    constructor
    · intro t1 t2 h1; rw [hcl] at h1; simp at h1
    · intro t' hw; have := hcl t'; simp [CPc.active, hw] at this
    · intro t' hw; have := hcl t'; simp [CPc.active, hw] at this
    · intro ha; rw [happ] at ha; cases ha
    · intro ha; rw [happ] at ha; cases ha
    · intro hc; rw [hcls] at hc; cases hc
  case clsFinish =>
    intro hpc _
    have hb : (s.cl t).busy = true := by simp [hpc, CPc.busy]
    have hact : (s.cl t).active = true := by simp [CPc.active, hb]
    have hothers : ∀ t', t' ≠ t → (s.cl t').active = false := by
      intro t' hne
      cases ha : (s.cl t').active
      · rfl
      · exact absurd (h.unique t' t ha hact) hne
    have hcl : ∀ t', ((stClsFinish s t).cl t').active = false := by
      intro t'
      by_cases ht : t' = t
      · subst ht; exact stClsFinish_inactive s t'
      · rw [stClsFinish_cl_ne s t ht]; exact hothers t' ht
    have happ : (stClsFinish s t).app = .dead := rfl
    have hcls : (stClsFinish s t).closed = true := rfl
    constructor
    · intro t1 t2 h1; rw [hcl] at h1; simp at h1
    · intro t' hw; have := hcl t'; simp [CPc.active, hw] at this
    · intro t' hw; have := hcl t'; simp [CPc.active, hw] at this
    · intro ha; rw [happ] at ha; cases ha
    · intro _; exact Or.inl hcls
    · intro _; exact ⟨happ, fun t' => by simp [hcl t']⟩


/-- applier steps that stay among the running pcs and do not touch the clients' classification -/
theorem handshake_app_running {s s' : State} (h : Handshake s)
    (hcl : ∀ t, (s'.cl t).waitingDone = (s.cl t).waitingDone ∧ (s'.cl t).busy = (s.cl t).busy)
    (h0 : s.app ≠ .stopAck ∧ s.app ≠ .dead) (h1 : s'.app ≠ .stopAck ∧ s'.app ≠ .dead)
    (hclosed : s'.closed = s.closed) : Handshake s' :=
  handshake_congr h hcl ⟨fun e => absurd e h1.1, fun e => absurd e h0.1⟩
    ⟨fun e => absurd e h1.2, fun e => absurd e h0.2⟩ hclosed

theorem handshake_applierStep {cfg : Cfg} {s s' : State} {ch : Choice}
    (h : Handshake s) (hs : applierStep cfg s ch = some s') : Handshake s' := by
  apply applierStep_cases hs (motive := Handshake)
  case idle =>
    intro hpc hr
    unfold apIdle at hr
    split at hr
    · -- selItem
      unfold apSelItem at hr
      split at hr
      · simp at hr
      · rename_i id s1 hrecv
        simp only [Option.some.injEq] at hr; subst hr
        apply handshake_app_running h
        · intro t; rcases recvBuf_cl hrecv t with e | e <;> simp [e]
        · simp [hpc]
        · simp
        · simp [recvBuf_closed hrecv]
      · rename_i i s1 hrecv
        simp only [Option.some.injEq] at hr; subst hr
        apply handshake_app_running h
        · intro t; rcases recvBuf_cl hrecv t with e | e <;> simp [e]
        · simp [hpc]
        · simp
        · simp [recvBuf_closed hrecv]
    · -- selTick
      simp only [Option.some.injEq] at hr; subst hr
      exact handshake_app_running h (fun t => ⟨rfl, rfl⟩) (by simp [hpc]) (by simp) rfl
    · -- selStop t
      rename_i t
      have hnoact : ∀ t', (s.cl t').active = false := by
        intro t'
        cases ha : (s.cl t').active
        · rfl
        · simp only [CPc.active, Bool.or_eq_true] at ha
          rcases ha with ha | ha
          · have := h.wd t' ha; rw [hpc] at this; cases this
          · have := h.busy t' ha; rw [hpc] at this; cases this
      have hnc : s.closed = false := by
        cases hc : s.closed
        · rfl
        · have := (h.closed hc).1; rw [hpc] at this; cases this
      unfold apSelStop at hr
      have key : ∀ pc', pc'.waitingDone = true → pc'.busy = false →
          Handshake (setCl { s with app := .stopAck } t pc') := by
        intro pc' hw hb
        constructor
        · intro t1 t2 h1 h2
          have e1 : t1 = t := by
            by_cases e : t1 = t
            · exact e
            · rw [setCl_cl_ne _ _ _ e] at h1; simp [hnoact t1] at h1
          have e2 : t2 = t := by
            by_cases e : t2 = t
            · exact e
            · rw [setCl_cl_ne _ _ _ e] at h2; simp [hnoact t2] at h2
          rw [e1, e2]
        · intro _ _; rfl
        · intro t' hb'
          by_cases e : t' = t
          · subst e; simp [hb] at hb'
          · rw [setCl_cl_ne _ _ _ e] at hb'; have := hnoact t'; simp [CPc.active, hb'] at this
        · intro _; exact ⟨t, by simp [hw]⟩
        · intro ha; cases ha
        · intro hc; simp [hnc] at hc
      split at hr
      · simp only [Option.some.injEq] at hr; subst hr; exact key _ rfl rfl
      · simp only [Option.some.injEq] at hr; subst hr; exact key _ rfl rfl
      · simp at hr
    · simp at hr
  case marker =>
    intro id hpc _
    exact handshake_app_running h (fun t => by simp [apMarker]) (by simp [hpc]) (by simp [apMarker]) rfl
  case item =>
    intro i hpc _
    exact handshake_app_running h (fun t => by simp [apItem]) (by simp [hpc]) (by simp [apItem]) rfl
  case costed =>
    intro i hpc hr
    unfold apCosted at hr
    split at hr
    · unfold apCostedNew at hr
      split at hr
      · split at hr
        · simp at hr
        · simp only [Option.some.injEq] at hr; subst hr
          exact handshake_app_running h (fun t => ⟨rfl, rfl⟩) (by simp [hpc]) (by simp) rfl
      · simp at hr
    · obtain ⟨_, hr⟩ := needNone_some hr
      simp only [Option.some.injEq] at hr; subst hr
      exact handshake_app_running h (fun t => by simp [apCostedUpd]) (by simp [hpc]) (by simp [apCostedUpd]) rfl
    · obtain ⟨_, hr⟩ := needNone_some hr
      simp only [Option.some.injEq] at hr; subst hr
      exact handshake_app_running h (fun t => by simp [apCostedDel]) (by simp [hpc]) (by simp [apCostedDel]) rfl
  case added =>
    intro i victims ok hpc _
    refine handshake_app_running h (fun t => by rw [apAdded_cl]; exact ⟨rfl, rfl⟩) (by simp [hpc]) ?_ (apAdded_closed ..)
    unfold apAdded afterVictims
    split <;> split <;> simp
  case victims =>
    intro vs hpc _ hr
    unfold apVictims at hr
    split at hr
    · simp at hr
    · simp only [Option.some.injEq] at hr; subst hr
      exact handshake_app_running h (fun t => ⟨rfl, rfl⟩) (by simp [hpc]) (by simp) rfl
  case victimEvict =>
    intro h' cost c v rest hpc _
    refine handshake_app_running h (fun t => by rw [apVictimEvict_cl]; exact ⟨rfl, rfl⟩) (by simp [hpc]) ?_ (apVictimEvict_closed ..)
    unfold apVictimEvict afterVictims
    split <;> simp
  case tombPolicy =>
    intro i hpc _
    exact handshake_app_running h (fun t => by simp [apTombPolicy]) (by simp [hpc]) (by simp [apTombPolicy]) rfl
  case tombStore =>
    intro v hpc _
    exact handshake_app_running h (fun t => by simp [apTombStore]) (by simp [hpc]) (by simp [apTombStore]) rfl
  case tick =>
    intro hpc _
    exact handshake_app_running h (fun t => by simp [apTick]) (by simp [hpc]) (by simp [apTick]) rfl
  case sweep =>
    intro now bs hpc hr
    unfold apSweep at hr
    split at hr
    · simp only [Option.some.injEq] at hr; subst hr
      exact handshake_app_running h (fun t => ⟨rfl, rfl⟩) (by simp [hpc]) (by simp) rfl
    · split at hr
      · simp at hr
      · simp only [Option.some.injEq] at hr; subst hr
        exact handshake_app_running h (fun t => ⟨rfl, rfl⟩) (by simp [hpc]) (by simp) rfl
    · simp at hr
  case swKey =>
    intro now k c bs hpc _
    refine handshake_app_running h (fun t => by rw [apSwKey_cl]; exact ⟨rfl, rfl⟩) (by simp [hpc]) ?_ (apSwKey_closed ..)
    unfold apSwKey; dsimp only; split <;> simp
  case swStoreDel =>
    intro now k c expr v bs hpc _
    exact handshake_app_running h (fun t => by simp [apSwStoreDel]) (by simp [hpc]) (by simp [apSwStoreDel]) rfl
  case swPolDel =>
    intro now k c expr cost v bs hpc _
    exact handshake_app_running h (fun t => by simp [apSwPolDel]) (by simp [hpc]) (by simp [apSwPolDel]) rfl

theorem handshake_doneStep {s s' : State} {t : Tid} (h : Handshake s) (hs : doneStep s t = some s') :
    Handshake s' := by
  unfold doneStep at hs
  have key : s.app = .stopAck → (s.cl t).waitingDone = true → ∀ pc', pc'.waitingDone = false → pc'.busy = true →
      Handshake (setCl { s with app := .dead } t pc') := by
    intro happ hw pc' hw' hb'
    have hact : (s.cl t).active = true := by simp [CPc.active, hw]
    have hothers : ∀ t', t' ≠ t → (s.cl t').active = false := by
      intro t' hne
      cases ha : (s.cl t').active
      · rfl
      · exact absurd (h.unique t' t ha hact) hne
    have hnc : s.closed = false := by
      cases hc : s.closed
      · rfl
      · have := (h.closed hc).1; rw [happ] at this; cases this
    constructor
    · intro t1 t2 h1 h2
      have e1 : t1 = t := by
        by_cases e : t1 = t
        · exact e
        · rw [setCl_cl_ne _ _ _ e] at h1; simp [hothers t1 e] at h1
      have e2 : t2 = t := by
        by_cases e : t2 = t
        · exact e
        · rw [setCl_cl_ne _ _ _ e] at h2; simp [hothers t2 e] at h2
      rw [e1, e2]
    · intro t' hw2
      by_cases e : t' = t
      · subst e; simp [hw'] at hw2
      · rw [setCl_cl_ne _ _ _ e] at hw2; have := hothers t' e; simp [CPc.active, hw2] at this
    · intro _ _; rfl
    · intro ha; cases ha
    · intro _; exact Or.inr ⟨t, by simp [hb']⟩
    · intro hc; simp [hnc] at hc
  split at hs
  · rename_i closing happ hpc
    simp only [Option.some.injEq] at hs; subst hs
    exact key happ (by simp [hpc, CPc.waitingDone]) _ rfl rfl
  · rename_i happ hpc
    simp only [Option.some.injEq] at hs; subst hs
    exact key happ (by simp [hpc, CPc.waitingDone]) _ rfl rfl
  · simp at hs

theorem handshake_init (cfg : Cfg) (now : Time) : Handshake (init cfg now) := by
  constructor <;> simp [init, CPc.active, CPc.busy, CPc.waitingDone]

theorem handshake_step {cfg : Cfg} {s s' : State} {a : Action} (h : Handshake s)
    (hs : step cfg s a = some s') : Handshake s' := by
  cases a with
  | spawn t c =>
    have hs' : spawnStep s t c = some s' := hs
    have hidle : s.cl t = .idle := by
      unfold spawnStep at hs'; split at hs'
      · assumption
      · simp at hs'
    exact handshake_frame h t (fun t' hne => spawnStep_cl_ne s t c hs' hne)
      (by simp [hidle, CPc.active, CPc.busy, CPc.waitingDone]) (spawnStep_inactive s t c hs')
      (spawnStep_app s t c hs') (spawnStep_closed s t c hs')
  | client t ch => exact handshake_clientStep h hs
  | applier ch => exact handshake_applierStep h hs
  | done t => exact handshake_doneStep h hs
  | tick d =>
    simp only [step, Option.some.injEq] at hs; subst hs
    exact handshake_congr h (fun t => ⟨rfl, rfl⟩) Iff.rfl Iff.rfl rfl

/-- The handshake invariant holds in every reachable state. -/
theorem handshake_reach {cfg : Cfg} {s : State} (h : Reach cfg s) : Handshake s :=
  Reach.induction (handshake_init cfg) (fun _ _ _ _ hp hs => handshake_step hp hs) h

end RV.Cache
