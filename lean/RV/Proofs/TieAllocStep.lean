import RV.Proofs.TieAllocGrow
import RV.Proofs.TieAllocMisc
/-!
# The machine built from the generated sections of `Allocate` (+ `Reset`, `TrimTo`) IS the model

`GState` = the generated `Allocator` structure + per goroutine the `Allocate_Out` value it is parked
at + the ghost grant list.  `gstep` runs, for one model `Action`, exactly the generated section(s)
of that atomic step (`Allocate_step` dispatches on where the goroutine is parked).  `step_eq`:
`abs ∘ gstep = step ∘ abs` on every state satisfying `GInv` (well-formed chunk table, fuel for the
slots + 64 doublings, program counters as the harness can observe them, request sizes ≥ 0);
`inv_step`: `GInv` is preserved; `run_eq`: whole runs agree.
-/
namespace RV.TieAlloc
open Gen.AM Gen.AllocM Gen.Alloc RV.Alloc

inductive GPc where
  | idle
  | at (o : Allocate_Out)
  | panicked (k : Panic)
  | hung
deriving DecidableEq, Repr

structure GThread where
  pc : GPc := .idle
  op : Op := .alloc 0#64
deriving DecidableEq, Repr

structure GState where
  a : Allocator
  threads : List GThread
  grants : List Grant

def absPc : GPc → Pc
  | .idle => .idle
  | .at (.top sz) => .toAdd sz
  | .at (.vpAllocRetry_1 sz) => .toAdd sz
  | .at (.vpAllocRetry_2 sz) => .toAdd sz
  | .at (.vpAllocAdded sz pos) => .added sz pos
  | .at (.vpAllocBeforeLock sz b) => .needGrow sz b
  | .at (.ret _) => .idle
  | .panicked k => .panicked k
  | .hung => .hung

def absThread (t : GThread) : Thread := { pc := absPc t.pc, op := t.op }

def abs (g : GState) : State :=
  { compIdx := g.a.compIdx, chunks := chunksOf g.a, threads := g.threads.map absThread,
    grants := g.grants, lockHeld := g.a.locked }

def innerOf (a : Allocator) : Op → Option W
  | .alloc sz => some sz
  | .aligned sz =>
    match AllocateAligned_entry a sz with
    | .ok (_, .call_Allocate n _) => some n
    | _ => none
  | .copy d =>
    match Copy_entry false a ⟨0, d.length, d.length⟩ with
    | .ok (_, .call_Allocate n _) => some n
    | _ => none

def setT (g : GState) (t : Nat) (th : GThread) : GState := { g with threads := g.threads.set t th }

def gstep (fuel : Nat) (g : GState) : Action → Option GState
  | .start t op =>
    match g.threads[t]? with
    | some th =>
      if th.pc = .idle then
        match innerOf g.a op with
        | none => none
        | some n =>
          match Allocate_entry false g.a n with
          | .ok (a', .top sz) => some (setT { g with a := a' } t { pc := .at (.top sz), op := op })
          | .ok (_, .ret _) => some g
          | .panic _ _ => some g
          | _ => none
      else none
    | none => none
  | .add t =>
    match g.threads[t]? with
    | some th =>
      match th.pc with
      | .at (.top sz) =>
        match Allocate_step fuel g.a (.top sz) with
        | .ok (a', o) => some (setT { g with a := a' } t { th with pc := .at o })
        | _ => none
      | _ => none
    | none => none
  | .check t =>
    match g.threads[t]? with
    | some th =>
      match th.pc with
      | .at (.vpAllocAdded sz pos) =>
        match Allocate_step fuel g.a (.vpAllocAdded sz pos) with
        | .ok (a', .ret r) =>
          match a'.log with
          | .obs _ b _ :: _ =>
            some { setT { g with a := a' } t {} with grants := ⟨t, th.op, ⟨b.toNat, r.off, r.len⟩⟩ :: g.grants }
          | _ => none
        | .ok (a', o) => some (setT { g with a := a' } t { th with pc := .at o })
        | .panic _ a' => some (setT { g with a := a' } t { th with pc := .panicked .bounds })
        | _ => none
      | _ => none
    | none => none
  | .grow t =>
    match g.threads[t]? with
    | some th =>
      match th.pc with
      | .at (.vpAllocBeforeLock sz b) =>
        match Allocate_step fuel g.a (.vpAllocBeforeLock sz b) with
        | .ok (a', o) =>
          match Allocate_step fuel a' o with
          | .ok (a'', o') => some (setT { g with a := a'' } t { th with pc := .at o' })
          | _ => none
        | .panic _ a' => some (setT { g with a := a' } t { th with pc := .panicked .outOfSlots })
        | .spin a' => some (setT { g with a := a' } t { th with pc := .hung })
        | .blocked _ => none
      | _ => none
    | none => none
  | .reset =>
    if g.threads.all (fun th => th.pc == .idle) then
      match Reset g.a with
      | .ok (a', _) => some { g with a := a', grants := [] }
      | _ => none
    else none
  | .trim max =>
    if g.threads.all (fun th => th.pc == .idle) then
      match TrimTo g.a max with
      | .ok (a', _) =>
        some { g with a := a', grants := g.grants.filter fun gr => chunkLen (chunksOf a') gr.reg.chunk != 0 }
      | _ => none
    else none

/-- the program counters a goroutine of the generated machine can have between two releases -/
def okPc (n : Nat) : GPc → Prop
  | .at (.top sz) => 0 ≤ sz.toInt
  | .at (.vpAllocAdded sz _) => 0 ≤ sz.toInt
  | .at (.vpAllocBeforeLock sz b) => 0 ≤ sz.toInt ∧ b.toNat < n
  | .at _ => False
  | _ => True

structure GInv (fuel : Nat) (g : GState) : Prop where
  wf : WfA g.a
  fuel_ok : g.a.buffers.size + 65 ≤ fuel
  pcs : ∀ th ∈ g.threads, okPc g.a.buffers.size th.pc

theorem abs_threads_get (g : GState) (t : Nat) : (abs g).threads[t]? = (g.threads[t]?).map absThread := by
  simp [abs]

theorem abs_setT (g : GState) (t : Nat) (th : GThread) :
    abs (setT g t th) = setThread (abs g) t (absThread th) := by
  simp [abs, setT, setThread, List.map_set]

theorem innerOf_eq (a : Allocator) (op : Op) : innerOf a op = some op.inner := by
  cases op <;> rfl

theorem absPc_idle_iff {n : Nat} {pc : GPc} (h : okPc n pc) : absPc pc = .idle ↔ pc = .idle := by
  cases pc with
  | idle => simp [absPc]
  | panicked k => simp [absPc]
  | hung => simp [absPc]
  | «at» o => cases o <;> simp_all [absPc, okPc]

theorem allIdle_abs {fuel : Nat} {g : GState} (hi : GInv fuel g) :
    allIdle (abs g) = g.threads.all (fun th => th.pc == .idle) := by
  unfold allIdle abs
  rw [Bool.eq_iff_iff]
  simp only [List.all_map, List.all_eq_true, Function.comp, absThread, beq_iff_eq]
  constructor
  · intro h th hth
    exact (absPc_idle_iff (hi.pcs th hth)).mp (h th hth)
  · intro h th hth
    exact (absPc_idle_iff (hi.pcs th hth)).mpr (h th hth)

theorem entry_eq (a : Allocator) (n : W) :
    Allocate_entry false a n =
      if allocTooBig n then .panic .user a
      else if allocZero n then .ok (a, .ret Bytes.nil)
      else .ok (a, .top n) := by
  unfold Allocate_entry allocTooBig allocZero
  simp

theorem mem_of_get {g : GState} {t : Nat} {th : GThread} (h : g.threads[t]? = some th) : th ∈ g.threads :=
  List.mem_of_getElem? h

theorem step_start_eq {fuel : Nat} {g : GState} (hi : GInv fuel g) (t : Nat) (op : Op) :
    (gstep fuel g (.start t op)).map abs = step (abs g) (.start t op) := by
  simp only [gstep, step]
  rw [abs_threads_get]
  cases hth : g.threads[t]? with
  | none => rfl
  | some th =>
    simp only [Option.map_some]
    have hok := hi.pcs th (mem_of_get hth)
    by_cases hidle : th.pc = .idle
    · have : (absThread th).pc = .idle := by simp [absThread, hidle, absPc]
      simp only [hidle, this, if_true, innerOf_eq, entry_eq]
      by_cases h1 : allocTooBig op.inner = true
      · simp [h1]
      · by_cases h2 : allocZero op.inner = true
        · simp [h1, h2]
        · simp only [h1, h2, if_false, Bool.false_eq_true, Option.map_some]
          rw [abs_setT]
          rfl
    · have : (absThread th).pc ≠ .idle := fun e => hidle ((absPc_idle_iff hok).mp e)
      simp [hidle, this]

theorem step_add_eq {fuel : Nat} {g : GState} (hi : GInv fuel g) (t : Nat) :
    (gstep fuel g (.add t)).map abs = step (abs g) (.add t) := by
  simp only [gstep, step]
  rw [abs_threads_get]
  cases hth : g.threads[t]? with
  | none => rfl
  | some th =>
    simp only [Option.map_some]
    have hok := hi.pcs th (mem_of_get hth)
    cases hpc : th.pc with
    | idle => simp [absThread, hpc, absPc]
    | panicked k => simp [absThread, hpc, absPc]
    | hung => simp [absThread, hpc, absPc]
    | «at» o =>
      rw [hpc] at hok
      cases o with
      | top sz =>
        simp only [absThread, hpc, absPc, Allocate_step, Allocate_top, Option.map_some]
        rw [abs_setT]
        simp [abs, setThread, absThread, absPc, allocAddend, chunksOf]
      | vpAllocAdded sz pos => simp [absThread, hpc, absPc]
      | vpAllocBeforeLock sz b => simp [absThread, hpc, absPc]
      | ret r => exact absurd hok (by simp [okPc])
      | vpAllocRetry_1 sz => exact absurd hok (by simp [okPc])
      | vpAllocRetry_2 sz => exact absurd hok (by simp [okPc])

/-- the three outcomes of the bounds-check section, with the allocator it leaves -/
theorem check_cases (a : Allocator) (hw : WfA a) (sz pos : W) :
    match checkPos (chunksOf a) sz pos with
    | .beyond b => Allocate_vpAllocAdded a sz pos = .ok (a, .vpAllocBeforeLock sz b) ∧ b.toNat < a.buffers.size
    | .slice r => ∃ bytes b p, Allocate_vpAllocAdded a sz pos =
          .ok ({ a with log := .obs 4#64 b p :: a.log }, .ret bytes) ∧ r = ⟨b.toNat, bytes.off, bytes.len⟩
    | .panic => ∃ a', Allocate_vpAllocAdded a sz pos = .panic .bounds a' ∧ a'.buffers = a.buffers ∧
          a'.compIdx = a.compIdx ∧ a'.locked = a.locked := by
  have hs := check_spec a hw sz pos
  have hb : ∀ b, checkPos (chunksOf a) sz pos = .beyond b → b.toNat < a.buffers.size := by
    intro b h
    unfold checkPos at h
    simp only [length_chunksOf] at h
    split at h
    · exact absurd h (by simp)
    · rename_i hlt
      split at h
      · simp only [Checked.beyond.injEq] at h
        subst h; omega
      · split at h <;> exact absurd h (by simp)
  have hfr : (∃ b, Allocate_vpAllocAdded a sz pos = .ok (a, .vpAllocBeforeLock sz b)) ∨
      (∃ r b p, Allocate_vpAllocAdded a sz pos = .ok ({ a with log := .obs 4#64 b p :: a.log }, .ret r)) ∨
      (∃ a', Allocate_vpAllocAdded a sz pos = .panic .bounds a' ∧ a'.buffers = a.buffers ∧
        a'.compIdx = a.compIdx ∧ a'.locked = a.locked) := by
    unfold Allocate_vpAllocAdded
    simp only [Gen.AllocM.parse, lift_ok, bind_ok]
    unfold rd slice
    split
    · simp only [bind_ok]
      split
      · exact Or.inl ⟨_, rfl⟩
      · split
        · exact Or.inr (Or.inl ⟨_, _, _, rfl⟩)
        · exact Or.inr (Or.inr ⟨_, rfl, rfl, rfl, rfl⟩)
    · exact Or.inr (Or.inr ⟨_, rfl, rfl, rfl, rfl⟩)
  rcases hfr with ⟨b, he⟩ | ⟨r, b, p, he⟩ | ⟨a', he, h1, h2, h3⟩
  · rw [he] at hs
    simp only [checkedOf] at hs
    rw [← hs]
    exact ⟨he, hb b hs.symm⟩
  · rw [he] at hs
    simp only [checkedOf] at hs
    rw [← hs]
    exact ⟨r, b, p, he, rfl⟩
  · rw [he] at hs
    simp only [checkedOf] at hs
    rw [← hs]
    exact ⟨a', he, h1, h2, h3⟩

theorem step_check_eq {fuel : Nat} {g : GState} (hi : GInv fuel g) (t : Nat) :
    (gstep fuel g (.check t)).map abs = step (abs g) (.check t) := by
  simp only [gstep, step]
  rw [abs_threads_get]
  cases hth : g.threads[t]? with
  | none => rfl
  | some th =>
    simp only [Option.map_some]
    have hok := hi.pcs th (mem_of_get hth)
    cases hpc : th.pc with
    | idle => simp [absThread, hpc, absPc]
    | panicked k => simp [absThread, hpc, absPc]
    | hung => simp [absThread, hpc, absPc]
    | «at» o =>
      rw [hpc] at hok
      cases o with
      | top sz => simp [absThread, hpc, absPc]
      | vpAllocBeforeLock sz b => simp [absThread, hpc, absPc]
      | ret r => exact absurd hok (by simp [okPc])
      | vpAllocRetry_1 sz => exact absurd hok (by simp [okPc])
      | vpAllocRetry_2 sz => exact absurd hok (by simp [okPc])
      | vpAllocAdded sz pos =>
        simp only [absThread, hpc, absPc, Allocate_step]
        have hc := check_cases g.a hi.wf sz pos
        have hch : (abs g).chunks = chunksOf g.a := rfl
        rw [hch]
        cases hcp : checkPos (chunksOf g.a) sz pos with
        | beyond b =>
          rw [hcp] at hc
          simp only [hc.1, Option.map_some]
          rw [abs_setT]
          rfl
        | slice r =>
          rw [hcp] at hc
          obtain ⟨bytes, b, p, he, hr⟩ := hc
          simp only [he, Option.map_some]
          subst hr
          simp [abs, setT, setThread, absThread, absPc, List.map_set, chunksOf]
        | panic =>
          rw [hcp] at hc
          obtain ⟨a', he, h1, h2, h3⟩ := hc
          simp only [he, Option.map_some]
          simp [abs, setT, setThread, absThread, absPc, List.map_set, chunksOf, h1, h2, h3]

theorem step_grow_eq {fuel : Nat} {g : GState} (hi : GInv fuel g) (t : Nat) :
    (gstep fuel g (.grow t)).map abs = step (abs g) (.grow t) := by
  simp only [gstep, step]
  rw [abs_threads_get]
  have hlk : (abs g).lockHeld = g.a.locked := rfl
  rw [hlk]
  cases hth : g.threads[t]? with
  | none => simp
  | some th =>
    simp only [Option.map_some]
    have hok := hi.pcs th (mem_of_get hth)
    cases hpc : th.pc with
    | idle => simp [absThread, hpc, absPc]
    | panicked k => simp [absThread, hpc, absPc]
    | hung => simp [absThread, hpc, absPc]
    | «at» o =>
      rw [hpc] at hok
      cases o with
      | top sz => simp [absThread, hpc, absPc]
      | vpAllocAdded sz pos => simp [absThread, hpc, absPc]
      | ret r => exact absurd hok (by simp [okPc])
      | vpAllocRetry_1 sz => exact absurd hok (by simp [okPc])
      | vpAllocRetry_2 sz => exact absurd hok (by simp [okPc])
      | vpAllocBeforeLock sz b =>
        simp only [absThread, hpc, absPc, Allocate_step]
        simp only [okPc] at hok
        by_cases hl : g.a.locked = true
        · simp [hl, grow_blocked g.a sz b fuel hl]
        · have hl' : g.a.locked = false := by simpa using hl
          simp only [hl', Bool.false_eq_true, if_false]
          have hbi : bi (abs g) = (Gen.Alloc.parse g.a.compIdx).1 := rfl
          rw [hbi]
          by_cases hm : allocMoved (Gen.Alloc.parse g.a.compIdx).1 b = true
          · simp only [hm, if_true, grow_moved g.a sz b fuel hl' hm, Allocate_vpAllocRetry_1, Option.map_some]
            simp [abs, setT, setThread, absThread, absPc, List.map_set, chunksOf, hl']
          · have hm' : allocMoved (Gen.Alloc.parse g.a.compIdx).1 b = false := by simpa using hm
            simp only [hm', Bool.false_eq_true, if_false]
            have hs := grow_spec g.a hi.wf sz b fuel hl' hok.2 hok.1 hm'
            have hch : (abs g).chunks = chunksOf g.a := rfl
            rw [hch]
            have hfu := hi.fuel_ok
            cases hg : RV.Alloc.addBufferAt (chunksOf g.a) (allocNextIdx b) sz with
            | ok cs' =>
              rw [hg] at hs
              obtain ⟨a', he, h1, h2, h3, _, _, _⟩ := hs (by omega) (by omega)
              simp only [he, Allocate_vpAllocRetry_2, Option.map_some]
              simp [abs, setT, setThread, absThread, absPc, List.map_set, h1, h2, h3, hl']
            | outOfSlots =>
              rw [hg] at hs
              simp only [hs (by omega), Option.map_some]
              simp [abs, setT, setThread, absThread, absPc, List.map_set, chunksOf]
            | hang =>
              rw [hg] at hs
              simp only [hs, Option.map_some]
              simp [abs, setT, setThread, absThread, absPc, List.map_set, chunksOf]

theorem step_reset_eq {fuel : Nat} {g : GState} (hi : GInv fuel g) :
    (gstep fuel g .reset).map abs = step (abs g) .reset := by
  simp only [gstep, step]
  rw [allIdle_abs hi]
  by_cases h : (g.threads.all fun th => th.pc == GPc.idle) = true
  · simp only [h, if_true, Reset, Option.map_some]
    simp [abs, chunksOf]
  · simp [h]

theorem step_trim_eq {fuel : Nat} {g : GState} (hi : GInv fuel g) (max : W) :
    (gstep fuel g (.trim max)).map abs = step (abs g) (.trim max) := by
  simp only [gstep, step]
  rw [allIdle_abs hi]
  by_cases h : (g.threads.all fun th => th.pc == GPc.idle) = true
  · simp only [h, if_true]
    obtain ⟨a', he, hc, h1, h2, _, _, _⟩ := trimTo_spec g.a max (by have := hi.wf.size_lt; omega)
    simp only [he, Option.map_some]
    simp [abs, hc, h1, h2]
  · simp [h]

/-- **The generated sections are the model's step function.** -/
theorem step_eq {fuel : Nat} {g : GState} (hi : GInv fuel g) (act : Action) :
    (gstep fuel g act).map abs = step (abs g) act := by
  cases act with
  | start t op => exact step_start_eq hi t op
  | add t => exact step_add_eq hi t
  | check t => exact step_check_eq hi t
  | grow t => exact step_grow_eq hi t
  | reset => exact step_reset_eq hi
  | trim max => exact step_trim_eq hi max

/-- request sizes are non-negative Go ints (the model's standing assumption) -/
def ActOk : Action → Prop
  | .start _ op => 0 ≤ op.inner.toInt
  | _ => True

instance (a : Action) : Decidable (ActOk a) := by
  cases a <;> (unfold ActOk; infer_instance)

theorem inv_setT {fuel : Nat} {g : GState} (hi : GInv fuel g) (a' : Allocator) (t : Nat) (th' : GThread)
    (hw : WfA a') (hsz : a'.buffers.size = g.a.buffers.size) (hpc : okPc g.a.buffers.size th'.pc) :
    GInv fuel (setT { g with a := a' } t th') := by
  refine ⟨hw, ?_, ?_⟩
  · show a'.buffers.size + 65 ≤ fuel
    rw [hsz]; exact hi.fuel_ok
  · intro th hth
    show okPc a'.buffers.size th.pc
    rw [hsz]
    rcases List.mem_or_eq_of_mem_set hth with h | h
    · exact hi.pcs th h
    · rw [h]; exact hpc

theorem inv_step {fuel : Nat} {g g' : GState} (hi : GInv fuel g) (act : Action) (hact : ActOk act)
    (h : gstep fuel g act = some g') : GInv fuel g' := by
  cases act with
  | start t op =>
    simp only [gstep] at h
    cases hth : g.threads[t]? with
    | none => simp [hth] at h
    | some th =>
      simp only [hth] at h
      by_cases hidle : th.pc = .idle
      · simp only [hidle, if_true, innerOf_eq, entry_eq] at h
        by_cases h1 : allocTooBig op.inner = true
        · simp only [h1, if_true, Option.some.injEq] at h; rw [← h]; exact hi
        · by_cases h2 : allocZero op.inner = true
          · simp only [h1, h2, if_true, if_false, Bool.false_eq_true, Option.some.injEq] at h; rw [← h]; exact hi
          · simp only [h1, h2, if_false, Bool.false_eq_true, Option.some.injEq] at h
            rw [← h]
            exact inv_setT hi g.a t _ hi.wf rfl hact
      · simp [hidle] at h
  | add t =>
    simp only [gstep] at h
    cases hth : g.threads[t]? with
    | none => simp [hth] at h
    | some th =>
      simp only [hth] at h
      have hok := hi.pcs th (mem_of_get hth)
      cases hpc : th.pc with
      | idle => simp [hpc] at h
      | panicked k => simp [hpc] at h
      | hung => simp [hpc] at h
      | «at» o =>
        rw [hpc] at hok
        cases o with
        | top sz =>
          simp only [hpc, Allocate_step, Allocate_top, Option.some.injEq] at h
          rw [← h]
          exact inv_setT hi _ t _ (wfA_congr hi.wf rfl) rfl hok
        | vpAllocAdded sz pos => simp [hpc] at h
        | vpAllocBeforeLock sz b => simp [hpc] at h
        | ret r => simp [hpc] at h
        | vpAllocRetry_1 sz => simp [hpc] at h
        | vpAllocRetry_2 sz => simp [hpc] at h
  | check t =>
    simp only [gstep] at h
    cases hth : g.threads[t]? with
    | none => simp [hth] at h
    | some th =>
      simp only [hth] at h
      have hok := hi.pcs th (mem_of_get hth)
      cases hpc : th.pc with
      | idle => simp [hpc] at h
      | panicked k => simp [hpc] at h
      | hung => simp [hpc] at h
      | «at» o =>
        rw [hpc] at hok
        cases o with
        | top sz => simp [hpc] at h
        | vpAllocBeforeLock sz b => simp [hpc] at h
        | ret r => simp [hpc] at h
        | vpAllocRetry_1 sz => simp [hpc] at h
        | vpAllocRetry_2 sz => simp [hpc] at h
        | vpAllocAdded sz pos =>
          simp only [hpc, Allocate_step] at h
          have hc := check_cases g.a hi.wf sz pos
          cases hcp : checkPos (chunksOf g.a) sz pos with
          | beyond b =>
            rw [hcp] at hc
            simp only [hc.1, Option.some.injEq] at h
            rw [← h]
            exact inv_setT hi _ t _ hi.wf rfl ⟨hok, hc.2⟩
          | slice r =>
            rw [hcp] at hc
            obtain ⟨bytes, b, p, he, hr⟩ := hc
            simp only [he, Option.some.injEq] at h
            rw [← h]
            have := inv_setT hi { g.a with log := .obs 4#64 b p :: g.a.log } t {} (wfA_congr hi.wf rfl) rfl (by simp [okPc])
            exact ⟨this.wf, this.fuel_ok, this.pcs⟩
          | panic =>
            rw [hcp] at hc
            obtain ⟨a', he, h1, h2, h3⟩ := hc
            simp only [he, Option.some.injEq] at h
            rw [← h]
            exact inv_setT hi a' t _ (wfA_congr hi.wf h1) (by rw [h1]) (by simp [okPc])
  | grow t =>
    simp only [gstep] at h
    cases hth : g.threads[t]? with
    | none => simp [hth] at h
    | some th =>
      simp only [hth] at h
      have hok := hi.pcs th (mem_of_get hth)
      cases hpc : th.pc with
      | idle => simp [hpc] at h
      | panicked k => simp [hpc] at h
      | hung => simp [hpc] at h
      | «at» o =>
        rw [hpc] at hok
        cases o with
        | top sz => simp [hpc] at h
        | vpAllocAdded sz pos => simp [hpc] at h
        | ret r => simp [hpc] at h
        | vpAllocRetry_1 sz => simp [hpc] at h
        | vpAllocRetry_2 sz => simp [hpc] at h
        | vpAllocBeforeLock sz b =>
          simp only [hpc, Allocate_step] at h
          simp only [okPc] at hok
          by_cases hl : g.a.locked = true
          · simp [grow_blocked g.a sz b fuel hl] at h
          · have hl' : g.a.locked = false := by simpa using hl
            by_cases hm : allocMoved (Gen.Alloc.parse g.a.compIdx).1 b = true
            · simp only [grow_moved g.a sz b fuel hl' hm, Allocate_vpAllocRetry_1, Option.some.injEq] at h
              rw [← h]
              exact inv_setT hi _ t _ (wfA_congr hi.wf rfl) rfl hok.1
            · have hm' : allocMoved (Gen.Alloc.parse g.a.compIdx).1 b = false := by simpa using hm
              have hs := grow_spec g.a hi.wf sz b fuel hl' hok.2 hok.1 hm'
              have hfu := hi.fuel_ok
              cases hg : RV.Alloc.addBufferAt (chunksOf g.a) (allocNextIdx b) sz with
              | ok cs' =>
                rw [hg] at hs
                obtain ⟨a', he, _, _, _, _, _, hw', hsz'⟩ := hs (by omega) (by omega)
                simp only [he, Allocate_vpAllocRetry_2, Option.some.injEq] at h
                rw [← h]
                exact inv_setT hi a' t _ hw' hsz' hok.1
              | outOfSlots =>
                rw [hg] at hs
                simp only [hs (by omega), Option.some.injEq] at h
                rw [← h]
                exact inv_setT hi _ t _ (wfA_congr hi.wf rfl) rfl (by simp [okPc])
              | hang =>
                rw [hg] at hs
                simp only [hs, Option.some.injEq] at h
                rw [← h]
                exact inv_setT hi _ t _ (wfA_congr hi.wf rfl) rfl (by simp [okPc])
  | reset =>
    simp only [gstep] at h
    by_cases hall : (g.threads.all fun th => th.pc == GPc.idle) = true
    · simp only [hall, if_true, Reset, Option.some.injEq] at h
      rw [← h]
      exact ⟨wfA_congr hi.wf rfl, hi.fuel_ok, hi.pcs⟩
    · simp [hall] at h
  | trim max =>
    simp only [gstep] at h
    by_cases hall : (g.threads.all fun th => th.pc == GPc.idle) = true
    · obtain ⟨a', he, _, _, _, _, hsz, hw'⟩ := trimTo_spec g.a max (by have := hi.wf.size_lt; omega)
      simp only [hall, if_true, he, Option.some.injEq] at h
      rw [← h]
      refine ⟨hw' hi.wf, ?_, ?_⟩
      · show a'.buffers.size + 65 ≤ fuel
        rw [hsz]; exact hi.fuel_ok
      · intro th hth
        show okPc a'.buffers.size th.pc
        rw [hsz]; exact hi.pcs th hth
    · simp [hall] at h

/-- runs of the generated machine -/
def grun (fuel : Nat) (g : GState) : List Action → Option GState
  | [] => some g
  | a :: as => match gstep fuel g a with
    | some g' => grun fuel g' as
    | none => none

/-- **Whole runs**: any schedule (non-negative request sizes) run on the generated sections is the
model's run, state by state. -/
theorem run_eq {fuel : Nat} : ∀ (acts : List Action) (g : GState), GInv fuel g → (∀ a ∈ acts, ActOk a) →
    (grun fuel g acts).map abs = run (abs g) acts := by
  intro acts
  induction acts with
  | nil => intro g _ _; rfl
  | cons a as ih =>
    intro g hi hok
    have hs := step_eq hi a
    simp only [grun, run]
    cases hg : gstep fuel g a with
    | none =>
      rw [hg] at hs
      simp only [Option.map_none] at hs ⊢
      rw [← hs]
    | some g' =>
      rw [hg] at hs
      simp only [Option.map_some] at hs
      rw [← hs]
      exact ih g' (inv_step hi a (hok a (by simp)) hg) (fun x hx => hok x (by simp [hx]))

/-- the machine right after `NewAllocator(sz)` with `n` goroutines outside the allocator -/
theorem init_eq (sz allocRef : W) (fuel n : Nat) (hf : 129 ≤ fuel) (hc : chunk0Len sz < 2 ^ 63) :
    ∃ a, NewAllocator fuel allocRef log2Table sz = .ok a ∧
      GInv fuel ⟨a, List.replicate n {}, []⟩ ∧
      abs ⟨a, List.replicate n {}, []⟩ = RV.Alloc.newAllocator sz n := by
  obtain ⟨a, he, h1, h2, h3, _, _, hw⟩ := newAllocator_spec sz allocRef fuel n (by omega) hc
  have hsz : a.buffers.size = 64 := by
    rw [← length_chunksOf, h1]
    simp [RV.Alloc.newAllocator, RV.Alloc.init, numSlots]
  refine ⟨a, he, ⟨hw, by rw [hsz]; omega, ?_⟩, ?_⟩
  · intro th hth
    have : th = {} := List.eq_of_mem_replicate hth
    rw [this]; simp [okPc]
  · simp only [abs, h1, h2, h3]
    simp [RV.Alloc.newAllocator, RV.Alloc.init, absThread, absPc]

end RV.TieAlloc
