import RV.Proofs.CacheFairExamples
import RV.Proofs.CacheTTLLiveG
/-!
# C14 liveness under fairness (1): what the environment must provide, and step lemmas

The C08 fairness framework (`Exec`, `WeakFair`, `SelectFair`, `wf_rule`, `applier_returns`,
`idle_again`) is combined with the C14 development (`RegInv`: every resident entry with a TTL is
registered ahead of the sweep or held by the running sweep; `Phase`: progress of one sweep with
respect to one entry).

Hypotheses on an execution `e : Exec cfg` that belong to the environment / the scheduler:
* `TickFair e` — STRONG fairness of the ticker branch of the applier's `select`: if
  `.applier .selTick` can be taken infinitely often, it is taken infinitely often.  The real ticker
  fires every `bucketDuration/2`; Go's `select` chooses uniformly among the ready cases.
  Weak fairness does not give this: the applier can be kept busy with items forever
  (`CacheTTLFairBusy.lean`: `tickfair_needed_counterexample`).
* `ClockAdvances e` — the clock exceeds every bound (clock ticks are the environment's).  An
  expired entry is removed by the first sweep whose clock read covers the bucket it is registered
  in: the clock must lie at least one bucket period after the expiration, and — for an entry that
  was applied after its own bucket had been cleaned up and is therefore registered in
  `lastCleaned + 1` — in a later cleanup bucket than the previous grab
  (`clock_needed_counterexample`).  Only two advances are ever needed: `ClockPasses e i exp` (after
  time `i` the clock reaches `exp + 10 s`, and later 10 s more) is the finite form the theorems use.
  This matters: the bucket kernels are int64 arithmetic on Unix seconds and the whole C14
  development assumes sane clock values (`TimeOk`, |t| < 2^62 s); `ClockAdvances` contradicts
  "`TimeOk` clock at all times" (`clockAdvances_not_sane`), whereas `ClockPasses` does not, so
  the liveness theorem is not vacuous and does not follow from its time hypotheses alone.
* `CreatedAt e now0` — the execution starts in a state reached from `init cfg now0`
  (`Exec.start` hides the creation time, `RegInv` needs it).
-/
namespace RV.Cache
open Gen.Cache

variable {cfg : Cfg}

/-- strong fairness of the ticker branch of the applier's `select` -/
def TickFair (e : Exec cfg) : Prop :=
  ∀ i, ReadyInfOften e (.applier .selTick) i → ∃ j, i ≤ j ∧ e.act j = .applier .selTick

/-- the clock eventually exceeds every bound -/
def ClockAdvances (e : Exec cfg) : Prop := ∀ B : Time, ∃ j, B ≤ (e.st j).clock

/-- after time `i` the clock reaches `exp + 10 s` (one bucket period of 5 s plus the rounding of the
two bucket computations), and some time later 10 s more -/
def ClockPasses (e : Exec cfg) (i : Nat) (exp : Time) : Prop :=
  ∃ m, i ≤ m ∧ exp + 10000000000 ≤ (e.st m).clock ∧ ∃ m', (e.st m).clock + 10000000000 ≤ (e.st m').clock

/-- the cache of this execution was created at clock `now0` -/
def CreatedAt (e : Exec cfg) (now0 : Time) : Prop := ∃ pre, run cfg (init cfg now0) pre = some (e.st 0)

/-- step `j` is the sweep's `DelExpired` step for key `k` -/
def SweepDelAt (e : Exec cfg) (k : Hash) (j : Nat) : Prop :=
  ∃ now c bs, (e.st j).app = .swKey now k c bs ∧ ∃ ch, e.act j = .applier ch

/-! ### along an execution -/

theorem Exec.clock_mono (e : Exec cfg) {i j : Nat} (h : i ≤ j) : (e.st i).clock ≤ (e.st j).clock := by
  have key : ∀ d, (e.st i).clock ≤ (e.st (i + d)).clock := by
    intro d
    induction d with
    | zero => exact Int.le_refl _
    | succ d ih => exact Int.le_trans ih (step_clock_le (e.next (i + d)))
  have := key (j - i)
  rwa [show i + (j - i) = j by omega] at this

theorem ClockAdvances.passes {e : Exec cfg} (h : ClockAdvances e) (i : Nat) (exp : Time) : ClockPasses e i exp := by
  obtain ⟨m0, hm0⟩ := h (exp + 10000000000)
  obtain ⟨m', hm'⟩ := h ((e.st (max i m0)).clock + 10000000000)
  exact ⟨max i m0, Nat.le_max_left _ _, Int.le_trans hm0 (e.clock_mono (Nat.le_max_right _ _)), m', hm'⟩

/-- an unboundedly advancing clock leaves the range of sane times -/
theorem clockAdvances_not_sane {e : Exec cfg} (h : ClockAdvances e) : ¬ ∀ j, TimeOk (e.st j).clock := by
  intro hs
  obtain ⟨j, hj⟩ := h ((2:Int)^62 * 1000000000)
  have := (hs j).2
  simp only [Time] at *
  omega

theorem Exec.regInv (e : Exec cfg) {now0 : Time} (hc : CreatedAt e now0) (h0 : TimeOk now0) (i : Nat) :
    RegInv now0 (e.st i) := by
  induction i with
  | zero => obtain ⟨pre, hpre⟩ := hc; exact regInv_run h0 hpre
  | succ n ih => exact regInv_step h0 (e.reach n) ih (e.next n)

/-! ### steps -/

/-- only the applier adds keys to the store -/
theorem other_step_store_none {s s' : State} {a : Action} (hs : step cfg s a = some s')
    (hna : ∀ ch, a ≠ .applier ch) {k : Hash} (h : s.store.lookup k = none) : s'.store.lookup k = none := by
  cases a with
  | spawn t c =>
    have hs' : spawnStep s t c = some s' := hs
    rw [spawnStep_store s t c hs']; exact h
  | client t ch =>
    have hs' : clientStep cfg s t ch = some s' := hs
    cases hl : s'.store.lookup k with
    | none => rfl
    | some e' =>
      obtain ⟨e0, h0⟩ := (clientStep_se (cfg := cfg) hs').store_sub k e' hl
      rw [h] at h0; cases h0
  | applier ch => exact absurd rfl (hna ch)
  | done t =>
    have hs' : doneStep s t = some s' := hs
    rw [doneStep_store s t hs']; exact h
  | tick d => simp only [step, Option.some.injEq] at hs; subst hs; exact h

/-- `lastCleaned` is written by the sweep's bucket grab only (applier side) -/
theorem applierStep_lc {s s' : State} {ch : Choice} (hs : applierStep cfg s ch = some s') :
    s'.em.lastCleaned = s.em.lastCleaned ∨ (s.app = .tick ∧ s'.em.lastCleaned = cleanupOf s.clock) := by
  apply applierStep_cases hs
    (motive := fun s' => s'.em.lastCleaned = s.em.lastCleaned ∨ (s.app = .tick ∧ s'.em.lastCleaned = cleanupOf s.clock))
  case idle =>
    intro _ hr
    left
    have hse : s'.em = s.em := by
      unfold apIdle at hr
      split at hr
      · unfold apSelItem at hr
        split at hr
        · simp at hr
        · rename_i id s1 hrecv; simp only [Option.some.injEq] at hr; subst hr
          exact (recvBuf_em hrecv : s1.em = s.em)
        · rename_i i s1 hrecv; simp only [Option.some.injEq] at hr; subst hr
          exact (recvBuf_em hrecv : s1.em = s.em)
      · simp only [Option.some.injEq] at hr; subst hr; rfl
      · exact apSelStop_em _ _ hr
      · simp at hr
    rw [hse]
  case marker => intro id _ _; exact Or.inl rfl
  case item => intro i _ _; exact Or.inl rfl
  case costed =>
    intro i _ hr
    left
    have hse : s'.em = s.em := by
      unfold apCosted at hr
      split at hr
      · exact apCostedNew_em _ _ _ _ hr
      · obtain ⟨_, hr⟩ := needNone_some hr
        simp only [Option.some.injEq] at hr; subst hr; rfl
      · obtain ⟨_, hr⟩ := needNone_some hr
        simp only [Option.some.injEq] at hr; subst hr; rfl
    rw [hse]
  case added =>
    intro i victims ok _ _
    left
    unfold apAdded
    split
    · simp only [metAdd_em]; exact storeSet_lc ..
    · rfl
  case victims =>
    intro vs _ _ hr
    left
    unfold apVictims at hr
    split at hr
    · simp at hr
    · simp only [Option.some.injEq] at hr; subst hr; exact storeDel_lc ..
  case victimEvict => intro h cost c v rest _ _; exact Or.inl rfl
  case tombPolicy => intro i _ _; exact Or.inl (storeDel_lc ..)
  case tombStore => intro v _ _; exact Or.inl rfl
  case tick => intro hpc _; exact Or.inr ⟨hpc, rfl⟩
  case sweep => intro now bs _ hr; exact Or.inl (by rw [apSweep_em _ _ _ _ hr])
  case swKey =>
    intro now k c bs _ _
    left
    rcases apSwKey_cases s now k c bs with ⟨e0, _, _, _, _, heq⟩ | heq <;> rw [heq]
    exact em_del_lc ..
  case swStoreDel => intro now k c expr v bs _ _; exact Or.inl rfl
  case swPolDel => intro now k c expr cost v bs _ _; exact Or.inl rfl

/-- … and by `Clear`'s reset of the index (client side) -/
theorem clientStep_lc {s s' : State} {t : Tid} {ch : Choice} (hs : clientStep cfg s t ch = some s') :
    s'.em.lastCleaned = s.em.lastCleaned ∨ ∃ c, s.cl t = .clrEm c := by
  cases clientStep_se (cfg := cfg) hs with
  | same _ h2 _ => left; rw [h2]
  | upd i _ _ h2 _ => left; rw [h2]; exact storeUpdate_lc ..
  | del h c _ _ h2 _ => left; rw [h2]; exact storeDel_lc ..
  | clr closing k ks _ _ _ _ h2 _ => left; rw [h2]
  | emClear closing hpc _ _ _ => right; exact ⟨closing, hpc⟩

theorem step_lc {s s' : State} {a : Action} (hs : step cfg s a = some s') :
    s'.em.lastCleaned = s.em.lastCleaned ∨
    (s.app = .tick ∧ (∃ ch, a = .applier ch) ∧ s'.em.lastCleaned = cleanupOf s.clock) ∨
    (∃ t c, s.cl t = .clrEm c) := by
  cases a with
  | spawn t c =>
    have hs' : spawnStep s t c = some s' := hs
    left; rw [spawnStep_em s t c hs']
  | client t ch =>
    rcases clientStep_lc (show clientStep cfg s t ch = some s' from hs) with h | ⟨c, h⟩
    · exact Or.inl h
    · exact Or.inr (Or.inr ⟨t, c, h⟩)
  | applier ch =>
    rcases applierStep_lc (show applierStep cfg s ch = some s' from hs) with h | ⟨h1, h2⟩
    · exact Or.inl h
    · exact Or.inr (Or.inl ⟨h1, ⟨ch, rfl⟩, h2⟩)
  | done t =>
    have hs' : doneStep s t = some s' := hs
    left; rw [doneStep_em s t hs']
  | tick d => simp only [step, Option.some.injEq] at hs; subst hs; exact Or.inl rfl

/-- the ticker branch is taken at `idle` only, and only moves the applier to its tick step -/
theorem selTick_at_idle {s s' : State} (hs : applierStep cfg s .selTick = some s') :
    s.app = .idle ∧ s' = { s with app := .tick } := by
  unfold applierStep at hs
  cases hpc : s.app <;> rw [hpc] at hs <;> simp only [needNone] at hs <;> first | cases hs | skip
  · exact ⟨rfl, rfl⟩
  · rename_i i
    unfold apCosted at hs
    split at hs
    · simp [apCostedNew] at hs
    · simp [needNone] at hs
    · simp [needNone] at hs
  · rename_i now bs
    unfold apSweep at hs
    split at hs <;> first | cases hs | skip
    all_goals simp_all

theorem idle_tick_enabled {s : State} (hidle : s.app = .idle) :
    ∃ s', step cfg s (.applier .selTick) = some s' :=
  ⟨{ s with app := .tick }, by simp [step, applierStep, hidle, apIdle]⟩

/-- the step taken from the applier's tick pc is the bucket grab -/
theorem tick_step_eq {s s' : State} {ch : Choice} (hpc : s.app = .tick) (hs : applierStep cfg s ch = some s') :
    s' = apTick s := by
  simp only [applierStep, hpc] at hs
  obtain ⟨_, hs⟩ := needNone_some hs
  simp only [Option.some.injEq] at hs
  exact hs.symm

theorem swKey_step_eq {s s' : State} {ch : Choice} {now : Time} {k : Hash} {c : Conf} {bs : List (AMap Hash Conf)}
    (hpc : s.app = .swKey now k c bs) (hs : applierStep cfg s ch = some s') : s' = apSwKey s now k c bs := by
  simp only [applierStep, hpc] at hs
  obtain ⟨_, hs⟩ := needNone_some hs
  simp only [Option.some.injEq] at hs
  exact hs.symm

/-- one bucket period plus one second later, the cleanup bucket is larger -/
theorem cleanupOf_advance {t t' : Time} (h : TimeOk t) (h' : TimeOk t') (hle : t + 10000000000 ≤ t') :
    cleanupOf t < cleanupOf t' := by
  unfold cleanupOf
  rw [cleanupBucket_toInt t h, cleanupBucket_toInt t' h', tdiv5, tdiv5]
  simp only [Time] at hle
  split <;> split <;> omega

theorem sweepPc_running {pc : APc} (h : SweepPc pc) : pc.running = true := by
  cases pc <;> first | rfl | exact absurd h (by simp [SweepPc])

theorem Phase.lookup {k : Hash} {e : Entry} {now : Time} {E : Em → Prop} {base : List Ev} {s : State}
    (h : Phase k e now E base s) : s.store.lookup k = some e ∨ s.store.lookup k = none := by
  cases h with
  | pending bs _ _ hst => exact Or.inl hst
  | current bs _ hst => exact Or.inl hst
  | storeDel c bs _ hst => exact Or.inr hst
  | polDel c cost bs _ hst => exact Or.inr hst
  | done _ h => exact Or.inr h.store

end RV.Cache
