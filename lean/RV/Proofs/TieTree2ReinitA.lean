import RV.Proofs.TieTreeIter
import RV.Proofs.TieTree2CompactA
/-!
# The tree on flat memory: `Tree.reinit` (generated whole), part A

`ri_iterate`: the generated `iterate` for a callback that may change the scalar fields of the state
(but neither `data` nor `epoch`) visits the pages of `pids n` in pre-order.
-/
namespace RV.TreeFlat
open RV.Tree RV.NodeFlat Gen.TreeM

/-- `s` has the memory of `t` -/
def ri_Same (t s : St) : Prop := s.data = t.data ∧ s.epoch = t.epoch

theorem ri_rdNode {cfg : Cfg} {α : Type} (t s : St) (hs : ri_Same t s) (p : Nat)
    (h : (p + 1) * pw cfg ≤ t.data.size) (f : Words → Option α) :
    rdNode s (refOf cfg t p) f = f (pageOf cfg t.data p) := by
  have := rdNode_win (cfg := cfg) s p t.epoch hs.2.symm (by rw [hs.1]; exact h) f
  rw [hs.1] at this; exact this

theorem ri_node {cfg : Cfg} (hc : CfgFlat cfg) (t s : St) (hs : ri_Same t s) (p : Nat) (hp : 0 < p)
    (hfit : (p + 1) * pw cfg ≤ t.data.size) (hsmall : t.data.size < 2 ^ 40) :
    node (w cfg.pageSize) (w cfg.maxKeys) s (w p) = some (refOf cfg t p) := by
  have := node_w hc s p hp (by rw [hs.1]; exact hfit) (by rw [hs.1]; exact hsmall)
  rw [this]; unfold refOf; rw [hs.2]

theorem ri_iterate {κ : Type} {cfg : Cfg} (hc : CfgFlat cfg) (t : St) (hsmall : t.data.size < 2 ^ 40)
    (fn : St → κ → NodeRef → Option (St × κ)) (G : St × κ → Nat → St × κ)
    (I : St × κ → Prop) (P : Nat → Prop)
    (hI : ∀ s, I s → ri_Same t s.1)
    (hfn : ∀ s p, I s → P p → fn s.1 s.2 (refOf cfg t p) = some (G s p) ∧ I (G s p)) :
    ∀ (fuel : Nat) (n : Node) (s : St × κ), NoNil n → TreeFlat.Repr cfg t.data n → height n ≤ fuel →
      (∀ p ∈ pids n, P p) → I s →
      iterate (w cfg.pageSize) (w cfg.maxKeys) fuel s.1 s.2 (refOf cfg t n.pid) fn =
        some ((pids n).foldl G s) ∧ I ((pids n).foldl G s)
  | 0, n, _, hnn, _, hh, _, _ => by
    cases n with
    | null => rw [NoNil] at hnn; exact hnn.elim
    | leaf p es => rw [height] at hh; omega
    | inner p es => rw [height] at hh; omega
  | fuel + 1, .null, _, hnn, _, _, _, _ => by rw [NoNil] at hnn; exact hnn.elim
  | fuel + 1, .leaf p es, s, _, hr, _, hP, hIs => by
    have hp := repr_leaf hr
    have hmk := hc.mkLt
    have hs := hp.ok.1
    obtain ⟨hf1, hf2⟩ := hfn s p hIs (hP p (by simp [pids]))
    rw [iterate, Node.pid, hf1]
    simp only [Option.bind_some]
    rw [ri_rdNode t _ (hI _ hf2) p hp.fit, isLeaf_w hs (by omega), hp.isLeaf]
    simp only [Option.bind_some, if_true, pids, List.foldl_cons, List.foldl_nil]
    exact ⟨trivial, hf2⟩
  | fuel + 1, .inner p es, s, hnn, hr, hh, hP, hIs => by
    obtain ⟨hp, hre⟩ := repr_inner hr
    rw [NoNil] at hnn
    have hs := hp.ok.1
    have hmk := hc.mkLt
    have hnk : nkeys cfg.maxKeys (pageOf cfg t.data p) = es.length := by
      rw [← ents_length, hp.ents, entWords_length]
    have hle : es.length ≤ cfg.maxKeys := by rw [← hnk]; exact hp.ok.2.1
    obtain ⟨hf1, hf2⟩ := hfn s p hIs (hP p (by simp [pids]))
    have hPe : ∀ q ∈ pidsEnts es, P q := fun q hq => hP q (by simp [pids, hq])
    rw [iterate, Node.pid, hf1]
    simp only [Option.bind_some]
    rw [ri_rdNode t _ (hI _ hf2) p hp.fit, isLeaf_w hs (by omega), hp.isLeaf]
    simp only [Option.bind_some, Bool.false_eq_true, if_false]
    -- the loop over the slots
    have hloop := forRange_rule (ρ := St × κ) (σ := St × κ) 0 cfg.maxKeys (by omega) (by omega)
      (iterate_loop1 (w cfg.pageSize) (w cfg.maxKeys) (iterate (w cfg.pageSize) (w cfg.maxKeys) fuel) (refOf cfg t p) fn)
      (fun i s' => i ≤ es.length ∧ s' = (pidsEnts (es.take i)).foldl G (G s p) ∧ I s')
      (fun r => r = (pidsEnts es).foldl G (G s p) ∧ I r)
      (G s p) ⟨by omega, by simp [pidsEnts], hf2⟩
      (by
        intro i s' _ hi ⟨hile, hsv, hIs'⟩
        have hsame := hI _ hIs'
        obtain ⟨s1, c1⟩ := s'
        unfold iterate_loop1
        simp only []
        rw [ri_rdNode t s1 hsame p hp.fit, key_keyAt hp.ok (by omega) hi, hp.ents, entWords_eq_mapV, keyAt_mapV]
        simp only [Option.bind_some]
        by_cases hend : i = es.length
        · right
          have hk0 : keyAt es i = 0#64 := by unfold keyAt; rw [hend]; simp
          rw [hk0]
          simp only [BEq.rfl, if_true]
          refine ⟨_, rfl, ?_, hIs'⟩
          rw [hsv, hend, List.take_length]
        · left
          have hlt : i < es.length := by omega
          obtain ⟨e, he⟩ : ∃ e, es[i]? = some e := ⟨es[i], by simp [hlt]⟩
          have hkey : keyAt es i = e.1 := by simp [keyAt, he]
          have hnz : (e.1 == 0#64) = false := by
            have h1 := hp.ok.2.2.1 i (by omega)
            have h2 : keyW (pageOf cfg t.data p) i = e.1 := by
              have h3 := ents_get? (mk := cfg.maxKeys) (p := pageOf cfg t.data p) i
              rw [hp.ents, entWords_get?, he, hnk, if_pos hlt] at h3
              simp only [Option.map_some, Option.some.injEq, Prod.mk.injEq] at h3
              exact h3.1.symm
            rw [h2] at h1
            simpa using h1
          rw [hkey, hnz]
          simp only [Bool.false_eq_true, if_false]
          have hval : Gen.Node.uint64 (pageOf cfg t.data p) (Gen.Tree.valOffset (w i)) = some (childWord e.2) := by
            rw [valOffset_w, uint64_w (by omega) (by omega)]
            have h2 := ents_get? (mk := cfg.maxKeys) (p := pageOf cfg t.data p) i
            rw [hp.ents, entWords_get?, he, hnk, if_pos hlt] at h2
            simp only [Option.map_some, Option.some.injEq, Prod.mk.injEq] at h2
            exact congrArg some h2.2.symm
          rw [ri_rdNode t s1 hsame p hp.fit, hval]
          simp only [Option.bind_some]
          have hrc : TreeFlat.Repr cfg t.data e.2 := reprEnts_get es _ e hre he
          have hnc : NoNil e.2 := noNilEnts_get es _ e hnn he
          have hhc : height e.2 ≤ fuel := by
            have := heightEnts_get es _ e he
            rw [height] at hh; omega
          have hcp : 0 < e.2.pid ∧ (e.2.pid + 1) * pw cfg ≤ t.data.size := by
            cases hc2 : e.2 with
            | null => rw [hc2, NoNil] at hnc; exact hnc.elim
            | leaf q ces => rw [hc2] at hrc; exact ⟨(repr_leaf hrc).pos, (repr_leaf hrc).fit⟩
            | inner q ces => rw [hc2] at hrc; exact ⟨(repr_inner hrc).1.pos, (repr_inner hrc).1.fit⟩
          have hplt : e.2.pid < 2 ^ 40 := by
            have hpos := pw_pos cfg
            have e1 := succ_mul_pw cfg e.2.pid
            rcases Nat.lt_or_ge e.2.pid (2 ^ 40) with h | h
            · exact h
            · have : 2 ^ 40 * 1 ≤ e.2.pid * pw cfg := Nat.mul_le_mul h hpos
              omega
          have hult : BitVec.ult 0#64 (childWord e.2) = true := by
            unfold childWord
            have := w_ult (a := 0) (b := e.2.pid) (by omega) (by omega)
            rw [show (w 0 : BitVec 64) = 0#64 from rfl] at this; rw [this]; simpa using hcp.1
          rw [hult, guard_true]
          simp only [Option.bind_some]
          unfold childWord
          rw [ri_node hc t s1 hsame e.2.pid hcp.1 hcp.2 hsmall]
          simp only [Option.bind_some]
          have hrec := ri_iterate hc t hsmall fn G I P hI hfn fuel e.2 (s1, c1) hnc hrc hhc
            (fun q hq => hPe q (pidsEnts_get_sub es i e he q hq)) hIs'
          simp only [] at hrec
          rw [hrec.1]
          simp only [Option.bind_some]
          refine ⟨_, rfl, by omega, ?_, hrec.2⟩
          rw [pidsEnts_take_succ es i e he, List.foldl_append, ← hsv])
    rw [show (0#64 : BitVec 64) = w 0 from rfl]
    rcases hloop with ⟨s', hdone, hile, hsv, hIs'⟩ | ⟨r, hret, hq, hIr⟩
    · rw [hdone]
      obtain ⟨s1, c1⟩ := s'
      simp only [Option.bind_some]
      have : es.take cfg.maxKeys = es := List.take_of_length_le hle
      rw [this] at hsv
      simp only [pids, List.foldl_cons]
      rw [← hsv]
      exact ⟨rfl, hIs'⟩
    · rw [hret]
      simp only [Option.bind_some, pids, List.foldl_cons]
      rw [← hq]
      exact ⟨rfl, hIr⟩

end RV.TreeFlat
