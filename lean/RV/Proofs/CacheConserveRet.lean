import RV.Proofs.CacheProv
import RV.Proofs.CacheOwnLog
/-!
# A `Set` returns once (used by C04 "at least once")

Under `Fresh` (the values handed to `Set` are pairwise distinct and non-zero) a value identifies its
`Set` call.  `RetInv v`: at most one client is inside the `Set` of `v`; while it is, no `setRet _ v _`
event has been logged; and all `setRet _ v _` events carry the same result.  In particular a value
whose `Set` returned true was not refused (`accepted_not_refused`).
-/
namespace RV.Cache
open Gen.Cache

/-- the value of the `Set` call the client is executing (0: not inside `Set`) -/
def setv : CPc → Val
  | .setStart _ _ v _ _ => v
  | .setUpd i => i.value
  | .setExit i _ => i.value
  | .setSend i => i.value
  | .setRetTrue i => i.value
  | .setRetDrop i => i.value
  | _ => 0

structure RetInv (v : Val) (w : View) : Prop where
  uniq : ∀ t t', setv (w.cl t) = v → setv (w.cl t') = v → t = t'
  pend : ∀ t, setv (w.cl t) = v → ∀ t' b, Ev.setRet t' v b ∉ w.log
  once : ∀ t t' b b', Ev.setRet t v b ∈ w.log → Ev.setRet t' v b' ∈ w.log → b = b'

theorem setv_unblocked (pc : CPc) : setv (unblockedPc pc) = setv pc := by cases pc <;> rfl

/-- Transport along a step in which only client `t` may change the `Set` it executes. -/
theorem retInv_upd {v : Val} {w w' : View} (r : RetInv v w) (t : Tid) (l : List Ev) (hlog : w'.log = l ++ w.log)
    (hne : ∀ t', t' ≠ t → setv (w'.cl t') = setv (w.cl t'))
    (hA : setv (w'.cl t) = v → setv (w.cl t) = v ∧ ∀ t' b, Ev.setRet t' v b ∉ l)
    (hC : ∃ b0, ∀ t' b, Ev.setRet t' v b ∈ l → setv (w.cl t) = v ∧ b = b0) : RetInv v w' := by
  have back : ∀ t1, setv (w'.cl t1) = v → setv (w.cl t1) = v := by
    intro t1 h1
    by_cases e : t1 = t
    · subst e; exact (hA h1).1
    · rw [← hne t1 e]; exact h1
  obtain ⟨b0, hC⟩ := hC
  refine ⟨fun t1 t2 h1 h2 => r.uniq t1 t2 (back t1 h1) (back t2 h2), ?_, ?_⟩
  · intro t1 h1 t' b hm
    rw [hlog] at hm
    rcases List.mem_append.mp hm with hm | hm
    · by_cases e : t1 = t
      · subst e; exact (hA h1).2 t' b hm
      · exact e (r.uniq t1 t (back t1 h1) (hC t' b hm).1)
    · exact r.pend t1 (back t1 h1) t' b hm
  · intro t1 t2 b b' h1 h2
    rw [hlog] at h1 h2
    rcases List.mem_append.mp h1 with h1 | h1 <;> rcases List.mem_append.mp h2 with h2 | h2
    · rw [(hC t1 b h1).2, (hC t2 b' h2).2]
    · exact absurd h2 (r.pend t (hC t1 b h1).1 t2 b')
    · exact absurd h1 (r.pend t (hC t2 b' h2).1 t1 b)
    · exact r.once t1 t2 b b' h1 h2

/-- Transport along a step that changes no client's `Set` and logs no `setRet _ v _`. -/
theorem retInv_same {v : Val} {w w' : View} (r : RetInv v w) (l : List Ev) (hlog : w'.log = l ++ w.log)
    (hcl : ∀ t, setv (w'.cl t) = setv (w.cl t)) (hl : ∀ t' b, Ev.setRet t' v b ∉ l) : RetInv v w' :=
  retInv_upd r 0 l hlog (fun t' _ => hcl t') (fun h => ⟨(hcl 0) ▸ h, hl⟩)
    ⟨true, fun t' b hm => absurd hm (hl t' b)⟩

theorem setv_src {log : List Ev} {pc : CPc} {v : Val} (hv : v ≠ 0) (hok : CPcOk log pc) (h : setv pc = v) :
    v ∈ setVals log := by
  cases pc <;> simp only [setv, CPcOk] at h hok
  case setStart => subst h; exact hok.mem_setVals
  case setUpd => subst h; exact hok.mem_setVals
  case setExit => subst h; exact hok.1.mem_setVals
  case setSend => subst h; exact hok.mem_setVals
  case setRetTrue => subst h; exact hok.mem_setVals
  case setRetDrop => subst h; exact hok.mem_setVals
  all_goals exact absurd h.symm hv

theorem setRet_src {log : List Ev} (hl : LogOk log) {t : Tid} {v : Val} {b : Bool} (hv : v ≠ 0)
    (hm : Ev.setRet t v b ∈ log) : v ∈ setVals log := by
  obtain ⟨newer, older, hlog⟩ := List.append_of_mem hm
  have hok : EvOk older (.setRet t v b) := logOk_split (hlog ▸ hl)
  have hsub : older ⊆ log := by
    rw [hlog]; exact fun x hx => List.mem_append_right _ (List.mem_cons_of_mem _ hx)
  exact (VSrc.mono hsub hok).mem_setVals hv

/-- what a client move does to the `Set` it executes -/
theorem cmove_setv {w : View} {t : Tid} {pc pc' : CPc} {l : List Ev} {v : Val} (hv : v ≠ 0)
    (hm : CMove w t pc pc' l) :
    (pc = .idle ∧ ∃ h c cost ttl, pc' = .setStart h c v cost ttl ∧ l = [.setCall t h c v cost ttl]) ∨
    ((setv pc' = v → setv pc = v ∧ ∀ t' b, Ev.setRet t' v b ∉ l) ∧
      ∃ b0, ∀ t' b, Ev.setRet t' v b ∈ l → setv pc = v ∧ b = b0) := by
  have h0 : (0 : Val) = v → False := fun e => hv e.symm
  cases hm
  case spSet h c v' cost ttl =>
    by_cases hvv : v' = v
    · subst hvv; exact Or.inl ⟨rfl, h, c, cost, ttl, rfl, rfl⟩
    · exact Or.inr ⟨fun h1 => absurd h1 hvv, true, fun t' b hm => by simp at hm⟩
  case setStartFail h c v' cost ttl =>
    refine Or.inr ⟨fun h1 => (h0 h1).elim, false, fun t' b hm => ?_⟩
    simp only [List.mem_cons, Ev.setRet.injEq, List.not_mem_nil, or_false] at hm
    exact ⟨hm.2.1.symm, hm.2.2⟩
  case setRetTrue i =>
    refine Or.inr ⟨fun h1 => (h0 h1).elim, true, fun t' b hm => ?_⟩
    simp only [List.mem_cons, Ev.setRet.injEq, List.not_mem_nil, or_false] at hm
    exact ⟨hm.2.1.symm, hm.2.2⟩
  case setRetDropUpd i hf =>
    refine Or.inr ⟨fun h1 => (h0 h1).elim, true, fun t' b hm => ?_⟩
    simp only [List.mem_cons, Ev.setRet.injEq, List.not_mem_nil, or_false] at hm
    exact ⟨hm.2.1.symm, hm.2.2⟩
  case setRetDropNew i hf =>
    refine Or.inr ⟨fun h1 => (h0 h1).elim, false, fun t' b hm => ?_⟩
    simp only [List.mem_cons, Ev.setRet.injEq, reduceCtorEq, List.not_mem_nil, or_false] at hm
    exact ⟨hm.2.1.symm, hm.2.2⟩
  all_goals first
    | exact Or.inr ⟨fun h1 => (h0 h1).elim, true, fun t' b hm => by simp at hm⟩
    | exact Or.inr ⟨fun h1 => ⟨h1, fun t' b hm => by simp at hm⟩, true, fun t' b hm => by simp at hm⟩

theorem amove_noret {pc pc' : APc} {l : List Ev} (v : Val) (hm : AMove pc pc' l) : ∀ t' b, Ev.setRet t' v b ∉ l := by
  cases hm <;> (intro t' b hm; simp at hm)

theorem evLog_noret (st : Store) (ks : List Hash) (v : Val) : ∀ t' b, Ev.setRet t' v b ∉ evLog st ks := by
  induction ks with
  | nil => intro t' b hm; cases hm
  | cons k rest ih =>
    intro t' b hm
    unfold evLog at hm
    rcases List.mem_append.mp hm with hm | hm
    · exact ih t' b hm
    · split at hm <;> simp at hm

theorem drainLog_noret (i : Item) (v : Val) : ∀ t' b, Ev.setRet t' v b ∉ drainLog i := by
  intro t' b hm
  unfold drainLog at hm
  split at hm <;> simp at hm

theorem noret_nil (v : Val) : ∀ t' b, Ev.setRet t' v b ∉ ([] : List Ev) := fun _ _ hm => by cases hm

theorem recv_setv {w w1 : View} {x : BufElem} (hr : Recv w x w1) :
    w1.log = w.log ∧ ∀ t, setv (w1.cl t) = setv (w.cl t) := by
  cases hr with
  | plain rest hb hq => exact ⟨rfl, fun t => rfl⟩
  | unblock rest t0 e q hb hq =>
    refine ⟨rfl, fun t => ?_⟩
    by_cases ht : t = t0
    · subst ht; simp [setv_unblocked]
    · simp [updCl_ne _ _ ht]

theorem setv_updCl {cl : Tid → CPc} {t : Tid} {pc' : CPc} (h : setv pc' = setv (cl t)) (t1 : Tid) :
    setv (updCl cl t pc' t1) = setv (cl t1) := by
  by_cases e : t1 = t
  · subst e; simpa using h
  · rw [updCl_ne _ _ e]

theorem isSend_setv {pc : CPc} {e : BufElem} {sent blocked : CPc} (h : IsSend pc e sent blocked) :
    setv pc = 0 ∧ setv sent = 0 ∧ setv blocked = 0 := by
  cases h <;> simp [setv]

/-- one abstract step preserves `RetInv v` (for `v ≠ 0`, when the values of the `Set` calls are fresh) -/
theorem retInv_step {w w' : View} {v : Val} (h : AStep w w') (p : Prov w) (hv : v ≠ 0) (hf : Fresh w'.log)
    (r : RetInv v w) : RetInv v w' := by
  cases h with
  | client t pc pc' l hpc hm =>
    rcases cmove_setv hv hm with ⟨rfl, h, c, cost, ttl, rfl, rfl⟩ | ⟨hA, hC⟩
    · -- the `Set` of `v` starts: `v` is new
      have hnv : v ∉ setVals w.log := by
        have := hf.1
        simp only [setVals, List.cons_append, List.nil_append, List.filterMap_cons, setVal] at this
        exact (List.nodup_cons.mp this).1
      have hnone : ∀ t1, setv (w.cl t1) ≠ v := fun t1 h1 => hnv (setv_src hv (p.cl t1) h1)
      have hnolog : ∀ t' b, Ev.setRet t' v b ∉ w.log := fun t' b hm => hnv (setRet_src p.log hv hm)
      have hother : ∀ t1, t1 ≠ t → setv (updCl w.cl t (.setStart h c v cost ttl) t1) ≠ v := by
        intro t1 e h1; rw [updCl_ne _ _ e] at h1; exact hnone t1 h1
      refine ⟨fun t1 t2 h1 h2 => ?_, fun t1 h1 t' b hm => ?_, fun t1 t2 b b' h1 h2 => ?_⟩
      · have e1 : t1 = t := by
          by_cases e : t1 = t
          · exact e
          · exact absurd h1 (hother t1 e)
        have e2 : t2 = t := by
          by_cases e : t2 = t
          · exact e
          · exact absurd h2 (hother t2 e)
        rw [e1, e2]
      · have hm' : Ev.setRet t' v b ∈ Ev.setCall t h c v cost ttl :: w.log := hm
        simp only [List.mem_cons, reduceCtorEq, false_or] at hm'
        exact hnolog t' b hm'
      · have h1' : Ev.setRet t1 v b ∈ Ev.setCall t h c v cost ttl :: w.log := h1
        simp only [List.mem_cons, reduceCtorEq, false_or] at h1'
        exact absurd h1' (hnolog t1 b)
    · refine retInv_upd r t l rfl (fun t' ht' => by simp [updCl_ne _ _ ht']) ?_ ?_
      · intro h1
        have h1' : setv pc' = v := by simpa using h1
        rw [hpc]; exact hA h1'
      · rw [hpc]; exact hC
  | applier pc' l hm => exact retInv_same r l rfl (fun _ => rfl) (amove_noret v hm)
  | setUpdOk t i e hpc he hc =>
    exact retInv_same r [] rfl (setv_updCl (by rw [hpc]; rfl)) (noret_nil v)
  | delOk t h c e hpc he hc =>
    exact retInv_same r [] rfl (setv_updCl (by rw [hpc]; rfl)) (noret_nil v)
  | sendOk t i hpc =>
    exact retInv_same r [] rfl (setv_updCl (by rw [hpc]; rfl)) (noret_nil v)
  | sendNow t pc e sent blocked hpc hsnd =>
    obtain ⟨g1, g2, g3⟩ := isSend_setv hsnd
    exact retInv_same r [] rfl (setv_updCl (by rw [hpc, g1, g2])) (noret_nil v)
  | sendBlock t pc e sent blocked hpc hsnd =>
    obtain ⟨g1, g2, g3⟩ := isSend_setv hsnd
    exact retInv_same r [] rfl (setv_updCl (by rw [hpc, g1, g3])) (noret_nil v)
  | drainMarker t closing id w1 hpc hr =>
    exact retInv_same r [] (by simpa using (recv_setv hr).1) (recv_setv hr).2 (noret_nil v)
  | drainItem t closing i w1 hpc hr =>
    exact retInv_same r (drainLog i) (by show drainLog i ++ w1.log = _; rw [(recv_setv hr).1]) (recv_setv hr).2
      (drainLog_noret i v)
  | selItem x w1 happ hr =>
    exact retInv_same r [] (by simpa using (recv_setv hr).1) (recv_setv hr).2 (noret_nil v)
  | clrShard t closing k ks pc' hpc hord hpc' =>
    exact retInv_same r _ rfl (setv_updCl (by rw [hpc]; rcases hpc' with rfl | rfl <;> rfl)) (evLog_noret _ _ v)
  | clrRestart t closing pc' l hpc hpc' =>
    refine retInv_same r l rfl (setv_updCl (by rw [hpc]; rcases hpc' with ⟨rfl, _⟩ | ⟨rfl, _⟩ <;> rfl)) ?_
    intro t' b hm
    rcases hpc' with ⟨_, rfl⟩ | ⟨_, rfl⟩ <;> simp at hm
  | clsFinish t hpc =>
    exact retInv_same r [.closeRet t] rfl (setv_updCl (by rw [hpc]; rfl)) (fun t' b hm => by simp at hm)
  | selStop t pc' happ hpc' =>
    refine retInv_same r [] rfl (setv_updCl ?_) (noret_nil v)
    rcases hpc' with ⟨closing, g1, rfl⟩ | ⟨g1, rfl⟩ <;> rw [g1] <;> rfl
  | done t pc' happ hpc' =>
    refine retInv_same r [] rfl (setv_updCl ?_) (noret_nil v)
    rcases hpc' with ⟨closing, g1, rfl⟩ | ⟨g1, rfl⟩ <;> rw [g1] <;> rfl
  | addedOk i vs st' happ hst => exact retInv_same r [] rfl (fun _ => rfl) (noret_nil v)
  | victims h cost rest st' c v' happ hd => exact retInv_same r [] rfl (fun _ => rfl) (noret_nil v)
  | tombPolicy i st' c v' happ hd => exact retInv_same r [] rfl (fun _ => rfl) (noret_nil v)
  | swKeyDel now k c bs e happ he hc => exact retInv_same r [] rfl (fun _ => rfl) (noret_nil v)
  | tick => exact r

theorem retInv_init (cfg : Cfg) (now : Time) {v : Val} (hv : v ≠ 0) : RetInv v (init cfg now).view := by
  refine ⟨fun t t' h1 _ => absurd (show (0 : Val) = v from h1).symm hv, fun t h1 => absurd (show (0 : Val) = v from h1).symm hv,
    fun t t' b b' h1 _ => ?_⟩
  cases h1

/-- `RetInv` holds in every reachable state whose log is `Fresh` -/
theorem retInv_reach {cfg : Cfg} {s : State} (h : Reach cfg s) {v : Val} (hv : v ≠ 0) (hf : Fresh s.log) :
    RetInv v s.view := by
  refine Reach.induction (P := fun s => Fresh s.log → RetInv v s.view) (fun now _ => retInv_init cfg now hv)
    (fun s a s' hr hp hs hf' => ?_) h hf
  have ha := astep_of_step hs
  obtain ⟨l, hl, _⟩ := astep_log ha
  have hl' : s'.log = l ++ s.log := hl
  exact retInv_step ha (prov_reach hr) hv hf' (hp (Fresh.of_append (hl' ▸ hf')))

/-- under `Fresh`, a value whose `Set` returned true was not refused -/
theorem accepted_not_refused {cfg : Cfg} {s : State} (h : Reach cfg s) {v : Val} (hv : v ≠ 0) (hf : Fresh s.log)
    {t t' : Tid} (h1 : Ev.setRet t v true ∈ s.log) (h2 : Ev.setRet t' v false ∈ s.log) : False := by
  have := (retInv_reach h hv hf).once t t' true false h1 h2
  cases this

end RV.Cache
