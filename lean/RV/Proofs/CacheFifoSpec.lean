import RV.Proofs.CacheFifoHit
/-!
# C06: the reference map with an explicit FIFO of pending writes (`Spec`)

`Spec` = a map `Hash ⇀ Entry` (resident entries), a set of accounted keys, the FIFO of pending
writes (new-items, update-items, tombstones, markers — costs erased), a clock, the marker counter
and the phase of the single client's current call.  No capacity, no policy, no metrics, no expiry
index, no blocked senders, no applier sub-steps.

* client transitions (`specClient`): the atomic sections of `Set`/`Del`/`Wait`/`Get`/`GetTTL`;
  whether a `Set`'s item is enqueued or dropped is the environment's choice (`enq`);
* internal transitions: `apply` (pop the head of the FIFO and apply it atomically), `expire h`
  (drop an entry whose TTL has elapsed), `tick`.

This file: definitions and the correspondence of the map operations with `storeUpdate`,
`storeSet`, `storeDel`, `storeDelExpired` (for `cfg.shouldUpdate = none`).
-/
namespace RV.Cache
open Gen.Cache

structure Spec where
  map : Hash → Option Entry
  acct : Hash → Bool
  pend : List BufElem
  clock : Time
  nextMarker : Nat
  cl : CPc

def Spec.init (now : Time) : Spec :=
  { map := fun _ => none, acct := fun _ => false, pend := [], clock := now, nextMarker := 0, cl := .idle }

/-- function update -/
def fset {β : Type} (m : Hash → β) (k : Hash) (v : β) : Hash → β := fun h => if h = k then v else m h

@[simp] theorem fset_self {β : Type} (m : Hash → β) (k : Hash) (v : β) : fset m k v k = v := by simp [fset]
theorem fset_ne {β : Type} (m : Hash → β) {k h : Hash} (v : β) (hne : h ≠ k) : fset m k v h = m h := by simp [fset, hne]

/-- `lockedMap.Update` on the reference map: (map, previous value, updated?) -/
def specUpd (m : Hash → Option Entry) (i : Item) : (Hash → Option Entry) × Val × Bool :=
  match m i.key with
  | none => (m, 0, false)
  | some e =>
    if updConflictMismatch i.conflict e.conflict then (m, 0, false)
    else (fset m i.key (some ⟨i.conflict, i.value, i.exp⟩), e.value, true)

/-- `lockedMap.Del` on the reference map: (map, removed value) -/
def specDel (m : Hash → Option Entry) (k : Hash) (c : Conf) : (Hash → Option Entry) × Val :=
  match m k with
  | none => (m, 0)
  | some e => if delConflictMismatch c e.conflict then (m, 0) else (fset m k none, e.value)

/-- `lockedMap.Set` on the reference map -/
def specSet (m : Hash → Option Entry) (i : Item) : Hash → Option Entry :=
  match m i.key with
  | some e => if setConflictMismatch i.conflict e.conflict then m else fset m i.key (some ⟨i.conflict, i.value, i.exp⟩)
  | none => fset m i.key (some ⟨i.conflict, i.value, i.exp⟩)

/-- apply the head of the FIFO atomically -/
def specApply (sp : Spec) : BufElem → Spec
  | .marker _ => { sp with pend := sp.pend.tail }
  | .item i =>
    match i.flag with
    | .new =>
      if sp.acct i.key then { sp with pend := sp.pend.tail }          -- accounted: re-costed only, the value is rejected
      else { sp with map := specSet sp.map i, acct := fset sp.acct i.key true, pend := sp.pend.tail }
    | .upd => { sp with pend := sp.pend.tail }
    | .del => { sp with map := (specDel sp.map i.key i.conflict).1, acct := fset sp.acct i.key false, pend := sp.pend.tail }

/-- `lockedMap.Expiration` on the reference map -/
def specExp (m : Hash → Option Entry) (h : Hash) : Time :=
  match m h with
  | some e => e.exp
  | none => Gen.zeroTime

/-- one atomic section of the client's current call; `enq` = the environment's choice whether a
`Set`'s item gets into the buffer.  Returns the new state and the call/return events emitted
(newest first). -/
def specClient (t0 : Tid) (sp : Spec) (enq : Bool) : Option (Spec × List Ev) :=
  match sp.cl with
  | .setStart h c v cost ttl =>
    if ttlNone ttl then some ({ sp with cl := .setUpd ⟨.new, h, c, v, cost, Gen.zeroTime⟩ }, [])
    else if ttlNegative ttl then some ({ sp with cl := .idle }, [.setRet t0 v false])
    else some ({ sp with cl := .setUpd ⟨.new, h, c, v, cost, ttlExpiration sp.clock ttl⟩ }, [])
  | .setUpd i =>
    some ({ sp with map := (specUpd sp.map i).1,
                    cl := if (specUpd sp.map i).2.2 then .setExit i (specUpd sp.map i).2.1 else .setSend i }, [])
  | .setExit i _ => some ({ sp with cl := .setSend { i with flag := .upd } }, [])
  | .setSend i =>
    if enq then some ({ sp with pend := sp.pend ++ [eraseCost (.item i)], cl := .setRetTrue i }, [])
    else some ({ sp with cl := .setRetDrop i }, [])
  | .setRetTrue i => some ({ sp with cl := .idle }, [.setRet t0 i.value true])
  | .setRetDrop i => some ({ sp with cl := .idle }, [.setRet t0 i.value (dropIsUpdate i.flag.code)])
  | .delStart h c => some ({ sp with map := (specDel sp.map h c).1, cl := .delExit h c (specDel sp.map h c).2 }, [])
  | .delExit h c _ => some ({ sp with cl := .delSend h c }, [])
  | .delSend h c => some ({ sp with pend := sp.pend ++ [tomb h c], cl := .delSent h }, [])
  | .delSent h => some ({ sp with cl := .idle }, [.delRet t0 h])
  | .waitStart => some ({ sp with cl := .waitSend }, [])
  | .waitSend =>
    some ({ sp with pend := sp.pend ++ [.marker sp.nextMarker], nextMarker := sp.nextMarker + 1,
                    cl := .waitRecv sp.nextMarker }, [])
  | .waitRecv id => if BufElem.marker id ∈ sp.pend then none else some ({ sp with cl := .waitDone }, [])
  | .waitDone => some ({ sp with cl := .idle }, [.waitRet t0])
  | .getStart h c => some ({ sp with cl := .getRead h c }, [])
  | .getRead h c => some ({ sp with cl := .getCheck h c (sp.map h) }, [])
  | .getCheck h c e => some ({ sp with cl := .getMetric h c (getResult c e sp.clock) }, [])
  | .getMetric h c r => some ({ sp with cl := .idle }, [.getRet t0 h c r])
  | .ttlRead h c => some ({ sp with cl := .ttlCheck h c (sp.map h) }, [])
  | .ttlCheck h c e =>
    match getResult c e sp.clock with
    | none => some ({ sp with cl := .idle }, [.ttlRet t0 h c 0 false])
    | some _ => some ({ sp with cl := .ttlExp h c }, [])
  | .ttlExp h c =>
    if getTTLNoExpiry (specExp sp.map h) then some ({ sp with cl := .idle }, [.ttlRet t0 h c 0 true])
    else some ({ sp with cl := .ttlNow h c (specExp sp.map h) }, [])
  | .ttlNow h c exp =>
    if getTTLExpired sp.clock exp then some ({ sp with cl := .idle }, [.ttlRet t0 h c 0 false])
    else some ({ sp with cl := .ttlUntil h c exp }, [])
  | .ttlUntil h c exp => some ({ sp with cl := .idle }, [.ttlRet t0 h c (getTTLRemaining sp.clock exp) true])
  | _ => none

/-- the calls of the map interface -/
def Call.isMapCall : Call → Bool
  | .set .. => true | .get .. => true | .getTTL .. => true | .del .. => true | .wait => true | _ => false

/-- the client issues a call: new phase and the call event -/
def specCall (t0 : Tid) (sp : Spec) : Call → Option (Spec × List Ev)
  | .set h c v cost ttl => some ({ sp with cl := .setStart h c v cost ttl }, [.setCall t0 h c v cost ttl])
  | .get h c => some ({ sp with cl := .getStart h c }, [.getCall t0 h c sp.clock])
  | .getTTL h c => some ({ sp with cl := .ttlRead h c }, [.ttlCall t0 h c sp.clock])
  | .del h c => some ({ sp with cl := .delStart h c }, [.delCall t0 h c])
  | .wait => some ({ sp with cl := .waitStart }, [.waitCall t0])
  | _ => none

/-- One transition of the reference; the list is what it adds to the observable history (newest
first). -/
inductive SpecStep (t0 : Tid) : Spec → List Ev → Spec → Prop
  | stutter (sp) : SpecStep t0 sp [] sp
  | call (sp sp' c evs) (hidle : sp.cl = .idle) (h : specCall t0 sp c = some (sp', evs)) : SpecStep t0 sp evs sp'
  | client (sp sp' enq evs) (h : specClient t0 sp enq = some (sp', evs)) : SpecStep t0 sp evs sp'
  /-- the background applier applies the oldest pending write -/
  | apply (sp e rest) (h : sp.pend = e :: rest) : SpecStep t0 sp [] (specApply sp e)
  /-- the sweep drops an entry whose TTL has elapsed -/
  | expire (sp h e) (hm : sp.map h = some e) (hz : e.exp ≠ Gen.zeroTime) (hle : e.exp ≤ sp.clock) :
      SpecStep t0 sp [] { sp with map := fset sp.map h none, acct := fset sp.acct h false }
  | tick (sp) (d : Nat) : SpecStep t0 sp [] { sp with clock := sp.clock + d }

/-- runs of the reference with their observable history (newest first) -/
inductive SpecRun (t0 : Tid) : Spec → List Ev → Spec → Prop
  | nil (sp) : SpecRun t0 sp [] sp
  | snoc (sp sp1 sp2 h1 evs) (hr : SpecRun t0 sp h1 sp1) (hs : SpecStep t0 sp1 evs sp2) : SpecRun t0 sp (evs ++ h1) sp2

/-- the observable events: calls and returns of `Set`/`Get`/`GetTTL`/`Del`/`Wait` -/
def Ev.isObs : Ev → Bool
  | .setCall .. => true | .setRet .. => true | .getCall .. => true | .getRet .. => true
  | .ttlCall .. => true | .ttlRet .. => true | .delCall .. => true | .delRet .. => true
  | .waitCall _ => true | .waitRet _ => true | _ => false

def obsOf (log : List Ev) : List Ev := log.filter Ev.isObs

@[simp] theorem obsOf_append (a b : List Ev) : obsOf (a ++ b) = obsOf a ++ obsOf b := by simp [obsOf]

/-! ### the map operations agree with the store operations -/

section corr
variable {cfg : Cfg} {st : Store} {em : Em} {m : Hash → Option Entry}

theorem specUpd_corr (hsu : cfg.shouldUpdate = none) (hm : ∀ h, m h = st.lookup h) (i : Item) :
    (∀ h, (specUpd m i).1 h = (storeUpdate cfg st em i).1.lookup h) ∧
    (specUpd m i).2.1 = (storeUpdate cfg st em i).2.2.1 ∧ (specUpd m i).2.2 = (storeUpdate cfg st em i).2.2.2 := by
  unfold specUpd storeUpdate
  rw [hm i.key]
  cases hl : st.lookup i.key with
  | none => exact ⟨fun h => hm h, rfl, rfl⟩
  | some e =>
    dsimp only
    by_cases hc : updConflictMismatch i.conflict e.conflict = true
    · simp only [hc, if_true]; exact ⟨fun h => hm h, by first | rfl | trivial, by first | rfl | trivial⟩
    · simp only [hc]
      have hr : updRefused (suRefuses cfg i.value e.value).1 (suRefuses cfg i.value e.value).2 = false :=
        updRefused_none cfg hsu _ _
      simp only [hr]
      refine ⟨fun h => ?_, rfl, rfl⟩
      simp only [Bool.false_eq_true, if_false]
      by_cases hk : h = i.key
      · subst hk; simp
      · rw [fset_ne _ _ hk, AMap.lookup_insert_ne _ _ hk]; exact hm h

theorem specDel_corr (hm : ∀ h, m h = st.lookup h) (k : Hash) (c : Conf) :
    (∀ h, (specDel m k c).1 h = (storeDel st em k c).1.lookup h) ∧ (specDel m k c).2 = (storeDel st em k c).2.2.2 := by
  unfold specDel storeDel
  rw [hm k]
  cases hl : st.lookup k with
  | none => exact ⟨fun h => hm h, rfl⟩
  | some e =>
    dsimp only
    by_cases hc : delConflictMismatch c e.conflict = true
    · simp only [hc, if_true]; exact ⟨fun h => hm h, by first | rfl | trivial⟩
    · simp only [hc]
      refine ⟨fun h => ?_, rfl⟩
      simp only [Bool.false_eq_true, if_false]
      by_cases hk : h = k
      · subst hk; simp
      · rw [fset_ne _ _ hk, AMap.lookup_erase_ne _ hk]; exact hm h

theorem specSet_corr (hsu : cfg.shouldUpdate = none) (hm : ∀ h, m h = st.lookup h) (i : Item) :
    ∀ h, specSet m i h = (storeSet cfg st em i).1.lookup h := by
  intro h
  unfold specSet storeSet
  rw [hm i.key]
  have hins : fset m i.key (some ⟨i.conflict, i.value, i.exp⟩) h =
      (st.insert i.key ⟨i.conflict, i.value, i.exp⟩).lookup h := by
    by_cases hk : h = i.key
    · subst hk; simp
    · rw [fset_ne _ _ hk, AMap.lookup_insert_ne _ _ hk]; exact hm h
  cases hl : st.lookup i.key with
  | none => exact hins
  | some e =>
    dsimp only
    by_cases hc : setConflictMismatch i.conflict e.conflict = true
    · simp only [hc, if_true]; exact hm h
    · simp only [hc]
      have hr : setRefused (suRefuses cfg i.value e.value).1 (suRefuses cfg i.value e.value).2 = false := by
        simp [suRefuses, hsu, setRefused]
      simp only [hr, Bool.false_eq_true, if_false]
      exact hins

end corr

end RV.Cache
