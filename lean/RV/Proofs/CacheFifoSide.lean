import RV.Proofs.CacheFifoStay
/-!
# Non-applier steps leave key `k` alone (when nobody is `Set`ting / `Del`eting `k` or clearing)

`NoDelK`, `NoClr` and their preservation; `side_step`.
-/
namespace RV.Cache
open Gen.Cache

/-- pcs of a client inside a `Del` of `k` whose tombstone is not yet enqueued -/
def CPc.inDelK (k : Hash) : CPc → Prop
  | .delStart h _ => h = k
  | .delExit h _ _ => h = k
  | .delSend h _ => h = k
  | _ => False

def NoDelK (k : Hash) (s : State) : Prop := ∀ t, ¬ (s.cl t).inDelK k

/-- pcs of `Clear` / `Close` -/
def CPc.clr : CPc → Bool
  | .clrStart _ => true | .clrStop _ => true | .clrDone _ => true | .clrDrain _ => true
  | .clrPolicy _ => true | .clrShard .. => true | .clrEm _ => true | .clrMetrics _ => true
  | .clrRestart _ => true | .clsStop => true | .clsDone => true | .clsFinish => true
  | _ => false

/-- no `Clear`/`Close` is in progress -/
def NoClr (s : State) : Prop := ∀ t, (s.cl t).clr = false

def Action.isSpawnDel (k : Hash) : Action → Prop
  | .spawn _ (.del h _) => h = k
  | _ => False

def Action.isSpawnClear : Action → Prop
  | .spawn _ .clear => True
  | .spawn _ .close => True
  | _ => False

theorem clr_elim {pc : CPc} (h : pc.clr = true) (h' : pc.clr = false) : False := by rw [h'] at h; cases h

theorem clr_core {pc : CPc} (h : pc.clr = true) : pc.core = false := by
  cases pc <;> first | rfl | exact (clr_elim h rfl).elim

theorem NoClr.not_wit {s : State} (h : NoClr s) (t : Tid) : (s.cl t).clrWit = false := by
  have := h t
  cases hpc : s.cl t <;> first | rfl | (rw [hpc] at this; exact (clr_elim rfl this).elim)

theorem NoClr.not_active {s : State} (h : NoClr s) (t : Tid) : (s.cl t).active = false := by
  have := h t
  cases hpc : s.cl t <;> first | rfl | (rw [hpc] at this; exact (clr_elim rfl this).elim)

open Lean in
/-- the pc after `stX` is not a `Clear`/`Close` pc -/
macro "clr_no " f:ident : tactic =>
  `(tactic| (intros; rename_i h; exfalso; revert h; first | (simp [$f:term] <;> rfl) | (unfold $f:ident; (repeat' split) <;> simp <;> rfl) | (unfold $f:ident; dsimp only; (repeat' split) <;> simp <;> rfl)))

/-- `Clear`/`Close` pcs are entered only by a spawn -/
theorem clr_clientStep {cfg : Cfg} {s s' : State} {t : Tid} {ch : Choice}
    (hs : clientStep cfg s t ch = some s') : (s'.cl t).clr = true → (s.cl t).clr = true := by
  apply clientStep_cases hs (motive := fun s' => (s'.cl t).clr = true → (s.cl t).clr = true)
  case clrStart => intro _ hpc _ _; rw [hpc]; rfl
  case clrDrain => intro _ hpc _ _; rw [hpc]; rfl
  case clrPolicy => intro _ hpc _ _; rw [hpc]; rfl
  case clrShard => intro _ _ hpc _ _; rw [hpc]; rfl
  case clrEm => intro _ hpc _ _; rw [hpc]; rfl
  case clrMetrics => intro _ hpc _ _; rw [hpc]; rfl
  case clrRestart => intro _ hpc _ _; rw [hpc]; rfl
  case clsFinish => intro hpc _ _; rw [hpc]; rfl
  case setStart => clr_no stSetStart
  case setUpd => clr_no stSetUpd
  case setExit => clr_no stSetExit
  case setSend => clr_no stSetSend
  case setRetTrue => clr_no stSetRetTrue
  case setRetDrop => clr_no stSetRetDrop
  case delStart => clr_no stDelStart
  case delExit => clr_no stDelExit
  case delSend => intros; rename_i h; exfalso; revert h; unfold stDelSend sendBlocking; split <;> simp <;> rfl
  case delSent => clr_no stDelSent
  case waitStart => clr_no stWaitStart
  case waitSend => intros; rename_i h; exfalso; revert h; unfold stWaitSend sendBlocking; split <;> simp <;> rfl
  case waitRecv =>
    intro id _ _ hr h
    unfold stWaitRecv at hr
    split at hr
    · simp only [Option.some.injEq] at hr; subst hr; exfalso; revert h; simp; rfl
    · simp at hr
  case waitDone => clr_no stWaitDone
  case getStart =>
    intro h' c _ hr h
    rcases (stGetStart_q hr).2.2.2.2.2.2.2.2.2 with ⟨e, _⟩ | ⟨e, _⟩ <;> (rw [e] at h; exact (clr_elim h rfl).elim)
  case getRead => clr_no stGetRead
  case getCheck => clr_no stGetCheck
  case getMetric => clr_no stGetMetric
  case ttlRead => clr_no stTtlRead
  case ttlCheck => clr_no stTtlCheck
  case ttlExp => clr_no stTtlExp
  case ttlNow => clr_no stTtlNow
  case ttlUntil => clr_no stTtlUntil
  case iterStart => clr_no stIterStart
  case iterShard =>
    intro j n seen _ hr h
    rcases (stIterShard_q hr).2.2.2.2.2.2.2.2.2 with ⟨e, _⟩ | ⟨_, _, e, _⟩ <;> (rw [e] at h; exact (clr_elim h rfl).elim)
  case updMax => clr_no stUpdMax
  case readMax => clr_no stReadMax
  case readRem => clr_no stReadRem

theorem noClr_step {cfg : Cfg} {s s' : State} {a : Action} (hq : QueueInv cfg s) (hnc : NoClr s)
    (ha : ¬ a.isSpawnClear) (hs : step cfg s a = some s') : NoClr s' := by
  intro t
  cases hc : (s'.cl t).clr
  · rfl
  · exfalso
    by_cases hown : a.owner t
    · cases a with
      | spawn t0 c =>
        simp only [Action.owner] at hown; subst hown
        obtain ⟨_, e⟩ := spawn_next (show spawnStep s t0 c = some s' from hs)
        rw [e] at hc
        cases c <;> first | exact clr_elim hc rfl | exact ha trivial
      | client t0 ch =>
        simp only [Action.owner] at hown; subst hown
        have := clr_clientStep (show clientStep cfg s t0 ch = some s' from hs) hc
        rw [hnc t0] at this; cases this
      | done t0 =>
        simp only [Action.owner] at hown; subst hown
        have hs' : doneStep s t0 = some s' := hs
        unfold doneStep at hs'
        have := hnc t0
        split at hs' <;> first | (rename_i h1 h2; rw [h2] at this; exact clr_elim rfl this) | simp at hs'
      | applier ch =>
        cases ch with
        | selStop t0 =>
          simp only [Action.owner] at hown; subst hown
          have hs' := (applier_selStop hs).2
          unfold apSelStop at hs'
          have := hnc t0
          split at hs' <;> first | (rename_i h2; rw [h2] at this; exact clr_elim rfl this) | simp at hs'
        | _ => simp [Action.owner] at hown
      | tick d => simp [Action.owner] at hown
    · rcases step_cl_f hq hs t hown with e | ⟨hb, e⟩
      · rw [e, hnc t] at hc; cases hc
      · rw [e] at hc
        cases hpc : s.cl t <;> simp [hpc, CPc.blocked, unblockedPc] at hb hc <;> exact clr_elim hc rfl

theorem next_inDelK {cfg : Cfg} {s : State} {pc pc' : CPc} {k : Hash} (h : NextPc cfg s pc pc')
    (hp : pc'.inDelK k) : pc.inDelK k := by
  have hcore : pc'.core = true := by cases pc' <;> first | rfl | exact hp.elim
  cases pc <;> unfold NextPc at h <;> dsimp only at h
  case delStart h' c' =>
    rcases h with ⟨e, _⟩ | ⟨e, _⟩ <;> subst e
    · exact hp.elim
    · exact hp
  case delExit h' c' p => subst h; exact hp
  all_goals first
    | (exact (core_true_ne h hcore).elim)
    | (subst h; exact hp.elim)
    | (rcases h with e | e <;> subst e <;> exact hp.elim)
    | (rcases h with ⟨e, _⟩ | ⟨e, _⟩ <;> subst e <;> exact hp.elim)
    | (rcases h with e | ⟨_, e⟩ <;> subst e <;> exact hp.elim)
    | (obtain ⟨e, _⟩ := h; subst e; exact hp.elim)

theorem noDelK_step {cfg : Cfg} {k : Hash} {s s' : State} {a : Action} (hq : QueueInv cfg s) (hnd : NoDelK k s)
    (ha : ¬ a.isSpawnDel k) (hs : step cfg s a = some s') : NoDelK k s' := by
  intro t hin
  have hcore : (s'.cl t).core = true := by cases hpc : s'.cl t <;> first | rfl | (rw [hpc] at hin; exact hin.elim)
  by_cases hown : a.owner t
  · rcases owner_cases hs hown with ⟨ch, rfl, hn⟩ | hc | ⟨c, rfl, _⟩
    · exact hnd t (next_inDelK hn hin)
    · exact core_true_ne hc hcore
    · obtain ⟨_, e⟩ := spawn_next (show spawnStep s t c = some s' from hs)
      rw [e] at hin
      cases c <;> first | exact hin.elim | exact ha hin
  · rcases step_cl_f hq hs t hown with e | ⟨hb, e⟩
    · rw [e] at hin; exact hnd t hin
    · rw [e] at hin
      cases hpc : s.cl t <;> simp [hpc, CPc.blocked, unblockedPc] at hb hin <;> exact hin.elim

/-! ### `side_step` -/

def isItemK (k : Hash) : BufElem → Prop
  | .item i => i.key = k
  | .marker _ => False

def NoItemK (k : Hash) (l : List BufElem) : Prop := ∀ e ∈ l, ¬ isItemK k e

theorem NoItemK.sub {k : Hash} {l l' : List BufElem} (h : NoItemK k l) (hs : ∀ e ∈ l', e ∈ l) : NoItemK k l' :=
  fun e he => h e (hs e he)
theorem NoItemK.append {k : Hash} {l : List BufElem} {e : BufElem} (h : NoItemK k l) (he : ¬ isItemK k e) :
    NoItemK k (l ++ [e]) := by
  intro e' he'
  rcases List.mem_append.mp he' with h1 | h1
  · exact h e' h1
  · simp at h1; subst h1; exact he
theorem NoItemK.noSet {k : Hash} {l : List BufElem} (h : NoItemK k l) : NoSetItemK k l := by
  intro e he hs
  apply h e he
  cases e with
  | item i => exact hs.1
  | marker id => exact hs

structure SideStep (k : Hash) (s s' : State) : Prop where
  app : s'.app = s.app
  store : s'.store.lookup k = s.store.lookup k
  costs : s'.pol.costs = s.pol.costs
  pend : pending s' = pending s ∨ ∃ e, pending s' = pending s ++ [e] ∧ ¬ isItemK k e

theorem SideStep.frame {k : Hash} {s s' : State} (h1 : s'.app = s.app) (h2 : s'.store = s.store) (h3 : s'.pol = s.pol)
    (h4 : s'.buf = s.buf) (h5 : s'.sendq = s.sendq) : SideStep k s s' :=
  ⟨h1, by rw [h2], by rw [h3], Or.inl (pending_congr (by rw [h1]) h4 h5)⟩

theorem side_clientStep {cfg : Cfg} {s s' : State} {t : Tid} {ch : Choice} (k : Hash)
    (hns : NoSetK k s) (hnd : NoDelK k s) (hnc : NoClr s) (hs : clientStep cfg s t ch = some s') :
    SideStep k s s' := by
  have hclr : ∀ {P : Prop}, (s.cl t).clr = true → P := fun h => (clr_elim h (hnc t)).elim
  apply clientStep_cases hs (motive := SideStep k s)
  case clrStart => intro _ hpc _; exact hclr (by rw [hpc]; rfl)
  case clrDrain => intro _ hpc _; exact hclr (by rw [hpc]; rfl)
  case clrPolicy => intro _ hpc _; exact hclr (by rw [hpc]; rfl)
  case clrShard => intro _ _ hpc _; exact hclr (by rw [hpc]; rfl)
  case clrEm => intro _ hpc _; exact hclr (by rw [hpc]; rfl)
  case clrMetrics => intro _ hpc _; exact hclr (by rw [hpc]; rfl)
  case clrRestart => intro _ hpc _; exact hclr (by rw [hpc]; rfl)
  case clsFinish => intro hpc _; exact hclr (by rw [hpc]; rfl)
  case setUpd =>
    intro i hpc _
    have hik : k ≠ i.key := fun e => hns t (by rw [hpc]; exact e.symm)
    exact ⟨by simp, by rw [stSetUpd_store, storeUpdate_lookup_ne cfg s.store s.em i hik], by simp,
      Or.inl (pending_congr (by simp) (by simp) (by simp))⟩
  case delStart =>
    intro h c hpc _
    have hik : k ≠ h := fun e => hnd t (by rw [hpc]; exact e.symm)
    refine ⟨by simp, ?_, by simp, Or.inl (pending_congr (by simp) (by simp) (by simp))⟩
    rcases stDelStart_store s t h c with e | e
    · rw [e]
    · rw [e, storeDel_lookup_ne_f _ _ _ hik]
  case setSend =>
    intro i hpc _
    have hik : i.key ≠ k := fun e => hns t (by rw [hpc]; exact e)
    refine ⟨by simp, by simp, by simp, ?_⟩
    rcases set_send_pending cfg s t i with ⟨hp, _⟩ | ⟨hp, _⟩
    · exact Or.inr ⟨.item i, hp, hik⟩
    · exact Or.inl hp
  case delSend =>
    intro h c hpc _
    have hik : h ≠ k := fun e => hnd t (by rw [hpc]; exact e)
    exact ⟨by simp, by simp, by simp, Or.inr ⟨tomb h c, tomb_enqueued .., hik⟩⟩
  case waitSend =>
    intro hpc _
    exact ⟨by simp, by simp, by simp, Or.inr ⟨.marker s.nextMarker, marker_enqueued .., fun h => h⟩⟩
  case waitRecv =>
    intro id _ _ hr
    exact .frame (stWaitRecv_app s t id hr) (stWaitRecv_store s t id hr) (stWaitRecv_pol s t id hr)
      (stWaitRecv_buf s t id hr) (stWaitRecv_sendq s t id hr)
  case getStart =>
    intro h c _ hr
    obtain ⟨h1, h2, h3, _, _, h6, h7, _⟩ := stGetStart_q hr
    exact .frame h3 h6 h7 h1 h2
  case iterShard =>
    intro j n seen _ hr
    obtain ⟨h1, h2, h3, _, _, h6, h7, _⟩ := stIterShard_q hr
    exact .frame h3 h6 h7 h1 h2
  case updMax =>
    intros
    exact ⟨by simp, by simp, by simp [stUpdMax], Or.inl (pending_congr (by simp) (by simp) (by simp))⟩
  all_goals (intros; exact .frame (by simp) (by simp) (by simp) (by simp) (by simp))

/-- A step that is not the applier's does nothing to key `k` — when no client is inside a `Set` or
`Del` of `k` and no `Clear`/`Close` is in progress; it may append an element of another key. -/
theorem side_step {cfg : Cfg} {s s' : State} {a : Action} (k : Hash)
    (hns : NoSetK k s) (hnd : NoDelK k s) (hnc : NoClr s) (hs : step cfg s a = some s')
    (hna : ∀ ch, a ≠ .applier ch) : SideStep k s s' := by
  cases a with
  | spawn t c =>
    exact .frame (spawnStep_app s t c hs) (spawnStep_store s t c hs) (spawnStep_pol s t c hs)
      (spawnStep_buf s t c hs) (spawnStep_sendq s t c hs)
  | client t ch => exact side_clientStep k hns hnd hnc hs
  | applier ch => exact absurd rfl (hna ch)
  | done t =>
    exfalso
    have hs' : doneStep s t = some s' := hs
    unfold doneStep at hs'
    have := hnc t
    split at hs' <;> first | (rename_i h1 h2; rw [h2] at this; exact clr_elim rfl this) | simp at hs'
  | tick d => simp only [step, Option.some.injEq] at hs; subst hs; exact .frame rfl rfl rfl rfl rfl

end RV.Cache
