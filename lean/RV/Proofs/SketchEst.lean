import RV.Proofs.SketchRow
/-!
Sketch-level lemmas (C18): the minimum fold of `Estimate` (generated `estLess` / `estInit`) is a
true minimum, hence commutes with monotone per-counter maps; `Increment`, `Reset`, `Clear` on all
rows under the well-formedness `WF` of `newCmSketch`.
-/
namespace RV.Sketch
open Gen.Sketch

/-! ### the minimum fold of `Estimate` -/

theorem minFold_spec (vals : List (BitVec 8)) (acc : BitVec 8) :
    let m := vals.foldl (fun m v => if estLess v m then v else m) acc
    m.toNat ≤ acc.toNat ∧ (∀ v ∈ vals, m.toNat ≤ v.toNat) ∧ (m = acc ∨ m ∈ vals) := by
  induction vals generalizing acc with
  | nil => simp
  | cons v vs ih =>
    simp only [List.foldl_cons]
    have h := ih (if estLess v acc then v else acc)
    simp only at h
    obtain ⟨h1, h2, h3⟩ := h
    have hacc : (if estLess v acc then v else acc).toNat ≤ acc.toNat ∧
        (if estLess v acc then v else acc).toNat ≤ v.toNat := by
      unfold estLess
      by_cases hlt : BitVec.ult v acc
      · simp only [hlt, if_true]
        simp [BitVec.ult] at hlt; omega
      · simp only [hlt]
        simp [BitVec.ult] at hlt; exact ⟨Nat.le_refl _, by simpa using hlt⟩
    refine ⟨by omega, ?_, ?_⟩
    · intro x hx
      rcases List.mem_cons.1 hx with rfl | hx
      · omega
      · exact h2 x hx
    · rcases h3 with h3 | h3
      · by_cases hlt : estLess v acc
        · simp only [hlt, if_true] at h3 ⊢; right; rw [h3]; simp
        · simp only [hlt] at h3 ⊢; left; simpa using h3
      · right; exact List.mem_cons_of_mem _ h3

theorem minOf_le (vals : List (BitVec 8)) : ∀ v ∈ vals, (minOf vals).toNat ≤ v.toNat :=
  (minFold_spec vals estInit).2.1

theorem minOf_mem (vals : List (BitVec 8)) (hne : vals ≠ []) : minOf vals ∈ vals := by
  rcases (minFold_spec vals estInit).2.2 with h | h
  · -- the result is the initial 255: then some element is ≥ 255, i.e. equal to it
    obtain ⟨v, hv⟩ := List.exists_mem_of_ne_nil vals hne
    have hle := minOf_le vals v hv
    have h255 : (minOf vals).toNat = 255 := by
      show (vals.foldl (fun m v => if estLess v m then v else m) estInit).toNat = 255
      rw [h]; rfl
    have : v = minOf vals := by
      apply BitVec.eq_of_toNat_eq
      have := v.isLt
      omega
    rw [← this]; exact hv
  · exact h

/-- pointwise comparison of two read vectors carries over to the minimum -/
theorem minOf_mono (l1 l2 : List (BitVec 8)) (hlen : l1.length = l2.length) (hne : l1 ≠ [])
    (h : ∀ i (h1 : i < l1.length) (h2 : i < l2.length), l1[i].toNat ≤ l2[i].toNat) :
    (minOf l1).toNat ≤ (minOf l2).toNat := by
  have hne2 : l2 ≠ [] := by
    intro e; rw [e] at hlen; exact hne (List.eq_nil_of_length_eq_zero (by simpa using hlen))
  obtain ⟨i, hi, he⟩ := List.getElem_of_mem (minOf_mem l2 hne2)
  have h1 : i < l1.length := by omega
  have := minOf_le l1 l1[i] (List.getElem_mem h1)
  have := h i h1 hi
  rw [← he]; omega

/-- a monotone map commutes with the minimum (used for halving and for `min(·+1, 15)`) -/
theorem minOf_map (f : BitVec 8 → BitVec 8) (hf : ∀ a b : BitVec 8, a.toNat ≤ b.toNat → (f a).toNat ≤ (f b).toNat)
    (l : List (BitVec 8)) (hne : l ≠ []) : minOf (l.map f) = f (minOf l) := by
  apply BitVec.eq_of_toNat_eq
  apply Nat.le_antisymm
  · exact minOf_le _ _ (List.mem_map_of_mem (minOf_mem l hne))
  · have hm := minOf_mem (l.map f) (by simpa using hne)
    obtain ⟨v, hv, he⟩ := List.mem_map.1 hm
    rw [← he]
    exact hf _ _ (minOf_le l v hv)

/-! ### sketch level -/

/-- shape of a sketch built by `newCmSketch`: `cmDepth` rows and seeds, every counter index
`≤ mask` falls inside every row (two counters per byte). -/
structure WF (s : Sketch) : Prop where
  depth : s.rows.length = cmDepth.toNat
  seeds : s.seed.size = cmDepth.toNat
  rows : ∀ r ∈ s.rows, s.mask.toNat < 2 * r.size ∧ r.size ≤ 2 ^ 64

theorem cmDepth_pos : 0 < cmDepth.toNat := by decide

/-- `Increment` and `Estimate` address the same counter of row `i` -/
theorem index_same (h : BitVec 64) (seed : Array (BitVec 64)) (i mask : BitVec 64) :
    incrIndex h seed i mask = estIndex h seed i mask := rfl

theorem estIndex_le (h : BitVec 64) (seed : Array (BitVec 64)) (i mask : BitVec 64) :
    (estIndex h seed i mask).toNat ≤ mask.toNat := by
  unfold estIndex; rw [BitVec.toNat_and]; exact Nat.and_le_right

theorem byteOf_eq (n : BitVec 64) : byteOf n = n.toNat / 2 := by
  unfold byteOf; simp [BitVec.toNat_udiv]

theorem idx_inRange {s : Sketch} (w : WF s) (r : Row) (hr : r ∈ s.rows) (h : BitVec 64) (i : BitVec 64) :
    byteOf (estIndex h s.seed i s.mask) < r.size := by
  have := estIndex_le h s.seed i s.mask
  have := (w.rows r hr).1
  rw [byteOf_eq]; omega

theorem length_reads (s : Sketch) (h : BitVec 64) : (reads s h).length = s.rows.length := by
  simp [reads]

theorem reads_ne_nil {s : Sketch} (w : WF s) (h : BitVec 64) : reads s h ≠ [] := by
  intro e
  have := length_reads s h
  rw [e, w.depth] at this
  have hp := cmDepth_pos
  simp only [List.length_nil] at this
  omega

theorem getElem_reads (s : Sketch) (h : BitVec 64) (i : Nat) (hi : i < (reads s h).length) :
    (reads s h)[i] = rowGet (s.rows[i]'(by rw [length_reads] at hi; exact hi))
      (estIndex h s.seed (BitVec.ofNat 64 i) s.mask) := by
  simp [reads]

/-- the estimate never exceeds 15 -/
theorem estimate_le_15 {s : Sketch} (w : WF s) (h : BitVec 64) : (estimate s h).toNat ≤ 15 := by
  have hm := minOf_mem (reads s h) (reads_ne_nil w h)
  obtain ⟨i, hi, he⟩ := List.getElem_of_mem hm
  unfold estimate
  rw [← he, getElem_reads]
  exact rowGet_le_15 _ _

/-- the saturating step of one counter -/
def satIncr (v : BitVec 8) : BitVec 8 := if BitVec.ult v 15#8 then v + 1 else 15#8

theorem satIncr_toNat (v : BitVec 8) : (satIncr v).toNat = if v.toNat < 15 then v.toNat + 1 else 15 := by
  unfold satIncr
  by_cases h : v.toNat < 15
  · have : BitVec.ult v 15#8 = true := by simpa [BitVec.ult] using h
    simp only [this, if_true, h]
    rw [BitVec.toNat_add]; simp; omega
  · have : BitVec.ult v 15#8 = false := by simpa [BitVec.ult] using h
    simp [this, h]

theorem WF_increment {s : Sketch} (w : WF s) (h : BitVec 64) : WF (increment s h) := by
  constructor
  · simp [increment, w.depth]
  · exact w.seeds
  · intro r hr
    simp only [increment, List.mem_mapIdx] at hr
    obtain ⟨i, hi, rfl⟩ := hr
    rw [size_rowIncrement]
    exact w.rows _ (List.getElem_mem hi)

theorem getElem_reads_increment (s : Sketch) (h' k : BitVec 64) (i : Nat) (hi : i < s.rows.length) :
    (reads (increment s h') k)[i]'(by simp [reads, increment]; exact hi) =
      rowGet (rowIncrement s.rows[i] (incrIndex h' s.seed (BitVec.ofNat 64 i) s.mask))
        (estIndex k s.seed (BitVec.ofNat 64 i) s.mask) := by
  simp [reads, increment]

/-- an `Increment` of any key lowers no key's estimate -/
theorem estimate_increment_ge {s : Sketch} (w : WF s) (h' k : BitVec 64) :
    (estimate s k).toNat ≤ (estimate (increment s h') k).toNat := by
  unfold estimate
  apply minOf_mono _ _ (by simp [reads, increment]) (reads_ne_nil w k)
  intro i h1 h2
  have hi : i < s.rows.length := by rw [length_reads] at h1; exact h1
  rw [getElem_reads, getElem_reads_increment s h' k i hi]
  by_cases he : estIndex k s.seed (BitVec.ofNat 64 i) s.mask = incrIndex h' s.seed (BitVec.ofNat 64 i) s.mask
  · rw [← he, get_increment_self _ _ (idx_inRange w _ (List.getElem_mem hi) k _)]
    have := satIncr_toNat (rowGet s.rows[i] (estIndex k s.seed (BitVec.ofNat 64 i) s.mask))
    unfold satIncr at this
    rw [this]
    have := rowGet_le_15 s.rows[i] (estIndex k s.seed (BitVec.ofNat 64 i) s.mask)
    split <;> omega
  · rw [get_increment_other _ _ _ he]; exact Nat.le_refl _

/-- an `Increment` of key `h` moves its estimate to `min(old+1, 15)` -/
theorem estimate_increment_self {s : Sketch} (w : WF s) (h : BitVec 64) :
    estimate (increment s h) h = satIncr (estimate s h) := by
  unfold estimate
  have : reads (increment s h) h = (reads s h).map satIncr := by
    apply List.ext_getElem (by simp [reads, increment])
    intro i h1 h2
    have hi : i < s.rows.length := by simpa [reads, increment] using h1
    rw [getElem_reads_increment s h h i hi, List.getElem_map, getElem_reads, index_same,
      get_increment_self _ _ (idx_inRange w _ (List.getElem_mem hi) h _)]
    rfl
  rw [this]
  apply minOf_map _ _ _ (reads_ne_nil w h)
  intro a b hab
  rw [satIncr_toNat, satIncr_toNat]
  split <;> split <;> omega

theorem shr1_mono (a b : BitVec 8) (h : a.toNat ≤ b.toNat) : (a >>> 1).toNat ≤ (b >>> 1).toNat := by
  simp only [BitVec.toNat_ushiftRight, Nat.shiftRight_eq_div_pow]; omega

/-- `Reset` halves the estimate: the minimum of the halves is the half of the minimum -/
theorem estimate_reset {s : Sketch} (w : WF s) (h : BitVec 64) :
    estimate (reset s) h = estimate s h >>> 1 := by
  unfold estimate
  have : reads (reset s) h = (reads s h).map (fun (v : BitVec 8) => v >>> 1) := by
    apply List.ext_getElem (by simp [reads, reset])
    intro i h1 h2
    have hi : i < s.rows.length := by simpa [reads, reset] using h1
    have e : (reads (reset s) h)[i] = rowGet (rowReset s.rows[i]) (estIndex h s.seed (BitVec.ofNat 64 i) s.mask) := by
      simp [reads, reset]
    rw [e, List.getElem_map, getElem_reads,
      get_reset _ _ (idx_inRange w _ (List.getElem_mem hi) h _) (w.rows _ (List.getElem_mem hi)).2]
  rw [this]
  exact minOf_map _ shr1_mono _ (reads_ne_nil w h)

/-- `Clear` zeroes the estimate -/
theorem estimate_clear {s : Sketch} (w : WF s) (h : BitVec 64) : estimate (clear s) h = 0#8 := by
  unfold estimate
  have : reads (clear s) h = (reads s h).map (fun _ => 0#8) := by
    apply List.ext_getElem (by simp [reads, clear])
    intro i h1 h2
    have hi : i < s.rows.length := by simpa [reads, clear] using h1
    have e : (reads (clear s) h)[i] = rowGet (rowClear s.rows[i]) (estIndex h s.seed (BitVec.ofNat 64 i) s.mask) := by
      simp [reads, clear]
    rw [e, List.getElem_map,
      get_clear _ _ (idx_inRange w _ (List.getElem_mem hi) h _) (w.rows _ (List.getElem_mem hi)).2]
  rw [this]
  exact minOf_map _ (fun _ _ _ => Nat.le_refl _) _ (reads_ne_nil w h)

theorem WF_reset {s : Sketch} (w : WF s) : WF (reset s) := by
  constructor
  · simp [reset, w.depth]
  · exact w.seeds
  · intro r hr
    simp only [reset, List.mem_map] at hr
    obtain ⟨r0, hr0, rfl⟩ := hr
    rw [size_rowReset _ (w.rows r0 hr0).2]
    exact w.rows r0 hr0

theorem WF_clear {s : Sketch} (w : WF s) : WF (clear s) := by
  constructor
  · simp [clear, w.depth]
  · exact w.seeds
  · intro r hr
    simp only [clear, List.mem_map] at hr
    obtain ⟨r0, hr0, rfl⟩ := hr
    rw [(rowClear_spec r0 (w.rows r0 hr0).2).1]
    exact w.rows r0 hr0

end RV.Sketch
