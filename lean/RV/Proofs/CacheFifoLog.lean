import RV.Proofs.CacheFifoOrder
/-!
# What one step appends to the ghost log, and how it moves other threads' pcs

`step_log`: every step appends a (possibly empty) list of events to the log, and each
call/return event it appends is explained by the action and the pc of the acting thread
(`Allowed`).  `step_cl_f`: a step moves the pc of a thread other than its owner only by
completing that thread's blocked send.  Plus induction over runs from a reachable state.
-/
namespace RV.Cache
open Gen.Cache

/-- which steps may log the call/return events used by C05/C06 -/
def Allowed (s : State) (a : Action) : Ev → Prop
  | .setCall t h c v cost ttl => a = .spawn t (.set h c v cost ttl)
  | .delCall t h c => a = .spawn t (.del h c)
  | .getCall t h c _ => a = .spawn t (.get h c)
  | .ttlCall t h c _ => a = .spawn t (.getTTL h c)
  | .waitCall t => a = .spawn t .wait
  | .clearCall t => a = .spawn t .clear
  | .closeCall t => a = .spawn t .close
  | .delRet t h => ∃ ch, a = .client t ch ∧ (s.cl t = .delSent h ∨ ∃ c, s.cl t = .delStart h c ∧ s.closed = true)
  | .waitRet t => ∃ ch, a = .client t ch ∧ (s.cl t = .waitDone ∨ (s.cl t = .waitStart ∧ s.closed = true))
  | .getRet t h c r => ∃ ch, a = .client t ch ∧
      (s.cl t = .getMetric h c r ∨ (s.cl t = .getStart h c ∧ s.closed = true ∧ r = none))
  | .setRet t v ok => ∃ ch, a = .client t ch ∧
      ((∃ i, s.cl t = .setRetTrue i ∧ v = i.value ∧ ok = true) ∨
       (∃ i, s.cl t = .setRetDrop i ∧ v = i.value ∧ ok = dropIsUpdate i.flag.code) ∨
       (∃ h c cost ttl, s.cl t = .setStart h c v cost ttl ∧ ok = false))
  | _ => True

/-- the log extension of one step -/
def LogExt (s : State) (a : Action) (s' : State) : Prop :=
  ∃ evs, s'.log = evs ++ s.log ∧ ∀ e ∈ evs, Allowed s a e

theorem LogExt.nil {s s' : State} {a : Action} (h : s'.log = s.log) : LogExt s a s' :=
  ⟨[], by simp [h], by simp⟩

theorem evictAll_log_f (s : State) (st : Store) (ks : List Hash) :
    ∃ evs, (evictAll s st ks).log = evs ++ s.log ∧ ∀ e ∈ evs, (∃ v, e = .exit v) ∨ ∃ h c v k, e = .evict h c v k := by
  induction ks generalizing s with
  | nil => exact ⟨[], rfl, by simp⟩
  | cons k rest ih =>
    unfold evictAll
    split
    · exact ih s
    · rename_i e _
      obtain ⟨evs, h1, h2⟩ := ih (cbEvict s k e.conflict e.value 0)
      refine ⟨evs ++ [.exit e.value, .evict k e.conflict e.value 0], by simp [h1], ?_⟩
      intro ev hev
      rcases List.mem_append.mp hev with h3 | h3
      · exact h2 ev h3
      · simp at h3
        rcases h3 with h3 | h3
        · exact Or.inl ⟨_, h3⟩
        · exact Or.inr ⟨_, _, _, _, h3⟩

theorem logExt_clientStep {cfg : Cfg} {s s' : State} {t : Tid} {ch : Choice}
    (hs : clientStep cfg s t ch = some s') : LogExt s (.client t ch) s' := by
  apply clientStep_cases hs (motive := LogExt s (.client t ch))
  case setUpd => intros; exact .nil (by simp)
  case setSend => intros; exact .nil (by simp)
  case delSend => intros; exact .nil (by simp)
  case waitSend => intros; exact .nil (by simp)
  case getRead => intros; exact .nil (by simp)
  case getCheck => intros; exact .nil (by simp)
  case ttlRead => intros; exact .nil (by simp)
  case clrPolicy => intros; exact .nil (by simp)
  case clrEm => intros; exact .nil (by simp)
  case clrMetrics => intros; exact .nil (by simp)
  case updMax => intros; exact .nil (by simp)
  case waitRecv => intro id _ _ hr; exact .nil (stWaitRecv_log s t id hr)
  case setStart =>
    intro h c v cost ttl hpc _
    unfold stSetStart
    split
    · exact ⟨[_], rfl, by simp [Allowed, hpc]⟩
    · split
      · exact ⟨[_], rfl, by simp [Allowed]⟩
      · split
        · exact ⟨[_], rfl, by simp [Allowed, hpc]⟩
        · exact ⟨[_], rfl, by simp [Allowed]⟩
  case setExit => intro i prev hpc _; exact ⟨[.exit prev], rfl, by simp [Allowed]⟩
  case setRetTrue => intro i hpc _; exact ⟨[_], rfl, by simp [Allowed, hpc]⟩
  case setRetDrop =>
    intro i hpc _
    unfold stSetRetDrop
    split
    · rename_i hd; exact ⟨[_], rfl, by simp [Allowed, hpc, hd]⟩
    · rename_i hd
      refine ⟨[.setRet t i.value false, .drop t i.value], by simp [logEv], ?_⟩
      intro e he
      simp at he
      rcases he with rfl | rfl
      · simp only [Allowed]; exact ⟨ch, rfl, Or.inr (Or.inl ⟨i, hpc, rfl, by simpa using hd⟩)⟩
      · simp [Allowed]
  case delStart =>
    intro h c hpc _
    unfold stDelStart
    split
    · rename_i hc; exact ⟨[_], rfl, by simp [Allowed, hpc, hc]⟩
    · exact .nil rfl
  case delExit => intro h c prev hpc _; exact ⟨[.exit prev], rfl, by simp [Allowed]⟩
  case delSent => intro h hpc _; exact ⟨[_], rfl, by simp [Allowed, hpc]⟩
  case waitStart =>
    intro hpc _
    unfold stWaitStart
    split
    · rename_i hc; exact ⟨[_], rfl, by simp [Allowed, hpc, hc]⟩
    · exact .nil rfl
  case waitDone => intro hpc _; exact ⟨[_], rfl, by simp [Allowed, hpc]⟩
  case getStart =>
    intro h c hpc hr
    obtain ⟨_, _, _, _, _, _, _, _, _, h7⟩ := stGetStart_q hr
    rcases h7 with ⟨_, hc, hl⟩ | ⟨_, _, hl⟩
    · exact ⟨[_], hl, by simp [Allowed, hpc, hc]⟩
    · exact .nil hl
  case getMetric =>
    intro h c r hpc _
    refine ⟨[.getRet t h c r], ?_, by simp [Allowed, hpc]⟩
    simp [stGetMetric]
  case ttlCheck =>
    intro h c e hpc _
    unfold stTtlCheck
    split
    · exact ⟨[_], rfl, by simp [Allowed]⟩
    · exact .nil rfl
  case ttlExp =>
    intro h c hpc _
    unfold stTtlExp
    dsimp only
    split
    · exact ⟨[_], rfl, by simp [Allowed]⟩
    · exact .nil rfl
  case ttlNow =>
    intro h c exp hpc _
    unfold stTtlNow
    split
    · exact ⟨[_], rfl, by simp [Allowed]⟩
    · exact .nil rfl
  case ttlUntil => intros; exact ⟨[_], rfl, by simp [Allowed]⟩
  case iterStart =>
    intro n hpc _
    unfold stIterStart
    split
    · exact ⟨[_], rfl, by simp [Allowed]⟩
    · exact .nil rfl
  case iterShard =>
    intro k n seen hpc hr
    obtain ⟨_, _, _, _, _, _, _, _, _, h7⟩ := stIterShard_q hr
    rcases h7 with ⟨_, r, hl⟩ | ⟨_, _, _, hl⟩
    · exact ⟨[_], hl, by simp [Allowed]⟩
    · exact .nil hl
  case clrStart =>
    intro closing hpc _
    unfold stClrStart
    split
    · split <;> exact ⟨[_], rfl, by simp [Allowed]⟩
    · exact .nil rfl
  case clrDrain =>
    intro closing hpc _
    unfold stClrDrain
    split
    · exact .nil rfl
    · rename_i id s1 hr; exact .nil (by simp [recvBuf_log hr])
    · rename_i i s1 hr
      split
      · exact ⟨[.exit i.value, .evict i.key i.conflict i.value i.cost], by simp [recvBuf_log hr], by simp [Allowed]⟩
      · exact .nil (recvBuf_log hr)
  case clrShard =>
    intro closing k hpc hr
    unfold stClrShard at hr
    split at hr
    · split at hr
      · simp at hr
      · split at hr
        · simp at hr
        · simp only [Option.some.injEq] at hr; subst hr
          rename_i ks _ _
          obtain ⟨evs, h1, h2⟩ := evictAll_log_f s s.store ks
          refine ⟨evs, by simpa using h1, ?_⟩
          intro e he
          rcases h2 e he with ⟨v, rfl⟩ | ⟨_, _, _, _, rfl⟩ <;> simp [Allowed]
    · simp at hr
  case clrRestart =>
    intro closing hpc _
    unfold stClrRestart
    dsimp only
    split
    · exact .nil rfl
    · exact ⟨[_], rfl, by simp [Allowed]⟩
  case clsFinish => intros; exact ⟨[_], rfl, by simp [Allowed]⟩
  case readMax => intros; exact ⟨[_], rfl, by simp [Allowed]⟩
  case readRem => intros; exact ⟨[_], rfl, by simp [Allowed]⟩

theorem logExt_applierStep {cfg : Cfg} {s s' : State} {ch : Choice}
    (hs : applierStep cfg s ch = some s') : LogExt s (.applier ch) s' := by
  apply applierStep_cases hs (motive := LogExt s (.applier ch))
  case idle =>
    intro hpc hr
    unfold apIdle at hr
    split at hr
    · unfold apSelItem at hr
      split at hr
      · simp at hr
      · rename_i hrecv; simp only [Option.some.injEq] at hr; subst hr; exact .nil (recvBuf_log hrecv :)
      · rename_i hrecv; simp only [Option.some.injEq] at hr; subst hr; exact .nil (recvBuf_log hrecv :)
    · simp only [Option.some.injEq] at hr; subst hr; exact .nil rfl
    · rename_i t; exact .nil (apSelStop_log s t hr)
    · simp at hr
  case marker => intros; exact .nil (by simp)
  case item => intros; exact .nil (by simp)
  case costed =>
    intro i hpc hr
    unfold apCosted at hr
    split at hr
    · exact .nil (apCostedNew_log cfg s i ch hr)
    · obtain ⟨_, hr⟩ := needNone_some hr
      simp only [Option.some.injEq] at hr; subst hr; exact .nil (by simp)
    · obtain ⟨_, hr⟩ := needNone_some hr
      simp only [Option.some.injEq] at hr; subst hr; exact .nil (by simp)
  case added =>
    intro i victims ok hpc _
    unfold apAdded
    split
    · exact .nil (by simp)
    · exact ⟨[.exit i.value, .reject i.key i.conflict i.value i.cost], by simp, by simp [Allowed]⟩
  case victims => intro vs _ _ hr; exact .nil (apVictims_log s vs hr)
  case victimEvict => intro h cost c v rest _ _; exact ⟨[.exit v, .evict h c v cost], by simp [apVictimEvict], by simp [Allowed]⟩
  case tombPolicy => intros; exact .nil (by simp)
  case tombStore => intro v _ _; exact ⟨[.exit v], by simp [apTombStore], by simp [Allowed]⟩
  case tick => intros; exact .nil (by simp)
  case sweep => intro now bs _ hr; exact .nil (apSweep_log s now bs ch hr)
  case swKey => intros; exact .nil (by simp)
  case swStoreDel => intros; exact .nil (by simp)
  case swPolDel => intro now k c expr cost v bs _ _; exact ⟨[.exit v, .evict k c v cost], by simp [apSwPolDel], by simp [Allowed]⟩

/-- Every step appends events to the log; each call/return event is explained by the action. -/
theorem step_log {cfg : Cfg} {s s' : State} {a : Action} (hs : step cfg s a = some s') : LogExt s a s' := by
  cases a with
  | spawn t c =>
    have hs' : spawnStep s t c = some s' := hs
    unfold spawnStep at hs'
    split at hs'
    · cases c <;> (simp only [Option.some.injEq] at hs'; subst hs') <;>
        first
        | exact ⟨[_], rfl, by simp [Allowed]⟩
        | exact .nil rfl
    · simp at hs'
  | client t ch => exact logExt_clientStep hs
  | applier ch => exact logExt_applierStep hs
  | done t => exact .nil (doneStep_log s t hs)
  | tick d =>
    simp only [step, Option.some.injEq] at hs; subst hs; exact .nil rfl

/-! ### pcs of the other threads -/

/-- the thread an action belongs to -/
def Action.owner : Action → Tid → Prop
  | .spawn t' _, t => t' = t
  | .client t' _, t => t' = t
  | .done t', t => t' = t
  | .applier (.selStop t'), t => t' = t
  | _, _ => False

/-- a step of somebody else changes `t`'s pc only by completing `t`'s blocked send -/
def ClOtherF (s s' : State) (t : Tid) : Prop :=
  s'.cl t = s.cl t ∨ ((s.cl t).blocked = true ∧ s'.cl t = unblockedPc (s.cl t))

theorem recv_clOther {cfg : Cfg} {s s1 : State} {x : BufElem} (hq : QueueInv cfg s) (h : recvBuf s = some (x, s1)) (t : Tid) :
    ClOtherF s s1 t := by
  obtain ⟨_, _, (⟨_, rfl⟩ | ⟨t0, e, q, hsq, rfl⟩)⟩ := recvBuf_cases h
  · exact Or.inl rfl
  · by_cases ht : t = t0
    · subst ht
      have hb := hq.sq_pc t e (by rw [hsq]; simp)
      refine Or.inr ⟨?_, by simp⟩
      rcases hb with ⟨_, _, e1, _⟩ | ⟨_, e1, _⟩ <;> simp [e1, CPc.blocked]
    · exact Or.inl (by simp [setCl_cl_ne _ _ _ ht])

theorem clOther_clientStep {cfg : Cfg} {s s' : State} {t0 : Tid} {ch : Choice} (hq : QueueInv cfg s)
    (hs : clientStep cfg s t0 ch = some s') (t : Tid) (hne : t ≠ t0) : ClOtherF s s' t := by
  apply clientStep_cases hs (motive := fun s' => ClOtherF s s' t)
  case setStart => intros; exact Or.inl (stSetStart_cl_ne (hne := hne) ..)
  case setUpd => intros; exact Or.inl (stSetUpd_cl_ne (hne := hne) ..)
  case setExit => intros; exact Or.inl (stSetExit_cl_ne (hne := hne) ..)
  case setSend => intros; exact Or.inl (stSetSend_cl_ne (hne := hne) ..)
  case setRetTrue => intros; exact Or.inl (stSetRetTrue_cl_ne (hne := hne) ..)
  case setRetDrop => intros; exact Or.inl (stSetRetDrop_cl_ne (hne := hne) ..)
  case delStart => intros; exact Or.inl (stDelStart_cl_ne (hne := hne) ..)
  case delExit => intros; exact Or.inl (stDelExit_cl_ne (hne := hne) ..)
  case delSend => intros; exact Or.inl (stDelSend_cl_ne (hne := hne) ..)
  case delSent => intros; exact Or.inl (stDelSent_cl_ne (hne := hne) ..)
  case waitStart => intros; exact Or.inl (stWaitStart_cl_ne (hne := hne) ..)
  case waitSend => intros; exact Or.inl (stWaitSend_cl_ne (hne := hne) ..)
  case waitRecv => intro id _ _ hr; exact Or.inl (stWaitRecv_cl_ne s t0 id hr hne)
  case waitDone => intros; exact Or.inl (stWaitDone_cl_ne (hne := hne) ..)
  case getStart => intro h c _ hr; exact Or.inl ((stGetStart_q hr).2.2.2.2.2.2.2.2.1 t hne)
  case getRead => intros; exact Or.inl (stGetRead_cl_ne (hne := hne) ..)
  case getCheck => intros; exact Or.inl (stGetCheck_cl_ne (hne := hne) ..)
  case getMetric => intros; exact Or.inl (stGetMetric_cl_ne (hne := hne) ..)
  case ttlRead => intros; exact Or.inl (stTtlRead_cl_ne (hne := hne) ..)
  case ttlCheck => intros; exact Or.inl (stTtlCheck_cl_ne (hne := hne) ..)
  case ttlExp => intros; exact Or.inl (stTtlExp_cl_ne (hne := hne) ..)
  case ttlNow => intros; exact Or.inl (stTtlNow_cl_ne (hne := hne) ..)
  case ttlUntil => intros; exact Or.inl (stTtlUntil_cl_ne (hne := hne) ..)
  case iterStart => intros; exact Or.inl (stIterStart_cl_ne (hne := hne) ..)
  case iterShard => intro k n seen _ hr; exact Or.inl ((stIterShard_q hr).2.2.2.2.2.2.2.2.1 t hne)
  case clrStart => intros; exact Or.inl (stClrStart_cl_ne (hne := hne) ..)
  case clrPolicy => intros; exact Or.inl (stClrPolicy_cl_ne (hne := hne) ..)
  case clrShard =>
    intro closing k _ hr
    obtain ⟨_, _, _, _, _, _, _, _, _, _, _, h6, _⟩ := stClrShard_q hr
    exact Or.inl (h6 t hne)
  case clrEm => intros; exact Or.inl (stClrEm_cl_ne (hne := hne) ..)
  case clrMetrics => intros; exact Or.inl (stClrMetrics_cl_ne (hne := hne) ..)
  case clrRestart => intros; exact Or.inl (stClrRestart_cl_ne (hne := hne) ..)
  case clsFinish => intros; exact Or.inl (stClsFinish_cl_ne (hne := hne) ..)
  case updMax => intros; exact Or.inl (stUpdMax_cl_ne (hne := hne) ..)
  case readMax => intros; exact Or.inl (stReadMax_cl_ne (hne := hne) ..)
  case readRem => intros; exact Or.inl (stReadRem_cl_ne (hne := hne) ..)
  case clrDrain =>
    intro closing _ _
    unfold stClrDrain
    split
    · exact Or.inl (setCl_cl_ne _ _ _ hne)
    · rename_i hr; exact recv_clOther hq hr t
    · rename_i hr
      split
      · exact recv_clOther hq hr t
      · exact recv_clOther hq hr t

theorem clOther_applierStep {cfg : Cfg} {s s' : State} {ch : Choice} (hq : QueueInv cfg s)
    (hs : applierStep cfg s ch = some s') (t : Tid) (hne : ¬ (Action.applier ch).owner t) : ClOtherF s s' t := by
  apply applierStep_cases hs (motive := fun s' => ClOtherF s s' t)
  case idle =>
    intro hpc hr
    unfold apIdle at hr
    split at hr
    · unfold apSelItem at hr
      split at hr
      · simp at hr
      · rename_i hrecv; simp only [Option.some.injEq] at hr; subst hr; exact recv_clOther hq hrecv t
      · rename_i hrecv; simp only [Option.some.injEq] at hr; subst hr; exact recv_clOther hq hrecv t
    · simp only [Option.some.injEq] at hr; subst hr; exact Or.inl rfl
    · rename_i t0
      have : t ≠ t0 := fun e => hne (by simp [Action.owner, e])
      exact Or.inl (apSelStop_cl_ne s t0 hr this)
    · simp at hr
  case marker => intros; exact Or.inl (by simp)
  case item => intros; exact Or.inl (by simp)
  case costed =>
    intro i hpc hr
    unfold apCosted at hr
    split at hr
    · exact Or.inl (by rw [apCostedNew_cl cfg s i ch hr])
    · obtain ⟨_, hr⟩ := needNone_some hr
      simp only [Option.some.injEq] at hr; subst hr; exact Or.inl (by simp)
    · obtain ⟨_, hr⟩ := needNone_some hr
      simp only [Option.some.injEq] at hr; subst hr; exact Or.inl (by simp)
  case added => intros; exact Or.inl (by simp)
  case victims => intro vs _ _ hr; exact Or.inl (by rw [apVictims_cl s vs hr])
  case victimEvict => intros; exact Or.inl (by simp)
  case tombPolicy => intros; exact Or.inl (by simp)
  case tombStore => intros; exact Or.inl (by simp)
  case tick => intros; exact Or.inl (by simp)
  case sweep => intro now bs _ hr; exact Or.inl (by rw [apSweep_cl s now bs ch hr])
  case swKey => intros; exact Or.inl (by simp)
  case swStoreDel => intros; exact Or.inl (by simp)
  case swPolDel => intros; exact Or.inl (by simp)

/-- A step whose owner is not `t` changes `t`'s pc at most by completing `t`'s blocked send. -/
theorem step_cl_f {cfg : Cfg} {s s' : State} {a : Action} (hq : QueueInv cfg s) (hs : step cfg s a = some s')
    (t : Tid) (hne : ¬ a.owner t) : ClOtherF s s' t := by
  cases a with
  | spawn t0 c =>
    have : t ≠ t0 := fun e => hne (by simp [Action.owner, e])
    exact Or.inl (spawnStep_cl_ne s t0 c hs this)
  | client t0 ch =>
    have : t ≠ t0 := fun e => hne (by simp [Action.owner, e])
    exact clOther_clientStep hq hs t this
  | applier ch => exact clOther_applierStep hq hs t hne
  | done t0 =>
    have : t ≠ t0 := fun e => hne (by simp [Action.owner, e])
    exact Or.inl (doneStep_cl_ne s t0 hs this)
  | tick d => simp only [step, Option.some.injEq] at hs; subst hs; exact Or.inl rfl

/-! ### runs -/

theorem Reach.run {cfg : Cfg} {s s' : State} {acts : List Action} (h : Reach cfg s)
    (hr : run cfg s acts = some s') : Reach cfg s' := by
  induction acts generalizing s with
  | nil => simp [Cache.run] at hr; subst hr; exact h
  | cons a as ih =>
    simp only [Cache.run] at hr
    cases hs : step cfg s a with
    | none => simp [hs] at hr
    | some s1 => simp only [hs] at hr; exact ih (h.of_step hs) hr

/-- Induction along a run from a reachable state; the step case may use that the action is one
of the run's. -/
theorem run_induction_f {cfg : Cfg} {P : State → Prop} {s0 s : State} {acts : List Action}
    (h0 : Reach cfg s0) (hp : P s0)
    (hstep : ∀ s a s', Reach cfg s → P s → a ∈ acts → step cfg s a = some s' → P s')
    (hr : run cfg s0 acts = some s) : P s := by
  induction acts generalizing s0 with
  | nil => simp [Cache.run] at hr; subst hr; exact hp
  | cons a as ih =>
    simp only [Cache.run] at hr
    cases hs : step cfg s0 a with
    | none => simp [hs] at hr
    | some s1 =>
      simp only [hs] at hr
      exact ih (h0.of_step hs) (hstep s0 a s1 h0 hp (by simp) hs)
        (fun s a' s' hr' hp' ha hs' => hstep s a' s' hr' hp' (by simp [ha]) hs') hr

/-- the log only grows along a run -/
theorem run_log {cfg : Cfg} {s s' : State} {acts : List Action} (hr : run cfg s acts = some s') :
    ∃ new, s'.log = new ++ s.log := by
  induction acts generalizing s with
  | nil => simp [Cache.run] at hr; subst hr; exact ⟨[], rfl⟩
  | cons a as ih =>
    simp only [Cache.run] at hr
    cases hs : step cfg s a with
    | none => simp [hs] at hr
    | some s1 =>
      simp only [hs] at hr
      obtain ⟨n1, h1⟩ := ih hr
      obtain ⟨evs, h2, _⟩ := step_log hs
      exact ⟨n1 ++ evs, by rw [h1, h2]; simp⟩

end RV.Cache
