import RV.Proofs.BufferPrefix
/-!
`Grow` and the writing operations: invariant, preservation of the written
bytes along each growth path, the max-size refusal.
-/
namespace RV.Buffer
open Gen.Buffer

/-- Well-formed buffer: `data` is exactly the used prefix, the bookkeeping is ordered
and every size is a Go `int` far from overflow. -/
structure WF (b : Buf) : Prop where
  len : b.data.length = b.offset
  pad : b.padding ≤ b.offset
  cap : b.offset ≤ b.curSz
  curSmall : b.curSz < 2 ^ 62
  maxSmall : b.maxSz < 2 ^ 62
  autoSmall : b.autoMmapAfter < 2 ^ 62

/-- Room for an operation that asks for `n` bytes: no `int` overflow in `Grow`'s doubling
(three consecutive `Grow`s happen inside `SliceAllocate`). -/
def Room (b : Buf) (n : Nat) : Prop := 8 * b.curSz + 8 * n + 128 < 2 ^ 62

/-- What a successful `Grow(n)` guarantees. -/
structure GrowOk (b : Buf) (n : Nat) (b' : Buf) : Prop where
  data : b'.data = b.data
  offset : b'.offset = b.offset
  padding : b'.padding = b.padding
  maxSz : b'.maxSz = b.maxSz
  auto : b'.autoMmapAfter = b.autoMmapAfter
  fits : b.offset + n ≤ b'.curSz
  mono : b.curSz ≤ b'.curSz
  bound : b'.curSz ≤ b.curSz + b.curSz + n
  /-- it grows only when the request does not fit strictly -/
  tight : b'.curSz = b.curSz ∨ b.curSz ≤ b.offset + n
  noMax : ¬ (0 < b.maxSz ∧ b.maxSz < b.offset + n)
  wf : WF b'

/-- `growPath` in terms of natural-number comparisons. -/
def growPathNat (b : Buf) (n : Nat) : GrowPath :=
  if 0 < b.maxSz ∧ b.maxSz < b.offset + n then .panicMax
  else if b.offset + n < b.curSz then .noop
  else match b.mode with
    | .calloc =>
      if 0 < b.autoMmapAfter ∧ b.autoMmapAfter < growSizeNat b.curSz n then .callocToMmap else .callocRealloc
    | .mmap => .mmapTruncate

theorem growPath_eq (b : Buf) (n : Nat) (h : WF b) (hr : b.curSz + b.curSz + n + n < 2 ^ 62) :
    growPath b n = growPathNat b n := by
  have h1 := h.cap; have h2 := h.curSmall; have h3 := h.maxSmall; have h4 := h.autoSmall
  have hle := growSizeNat_le b.curSz n
  unfold growPath growPathNat
  rw [k_growExceedsMax _ _ _ (by omega) (by omega), k_growFits _ _ _ (by omega) (by omega),
    k_growSize _ _ (by omega), k_growAutoMmap _ _ (by omega) (by omega)]
  by_cases hc : 0 < b.maxSz ∧ b.maxSz < b.offset + n
  · simp only [hc, and_self, decide_true, if_true]
  · simp only [hc, decide_false, Bool.false_eq_true, if_false]
    by_cases hf : b.offset + n < b.curSz
    · simp only [hf, decide_true, if_true]
    · simp only [hf, decide_false, Bool.false_eq_true, if_false]
      cases b.mode with
      | mmap => rfl
      | calloc =>
        simp only
        by_cases ha : 0 < b.autoMmapAfter ∧ b.autoMmapAfter < growSizeNat b.curSz n
        · simp only [ha, and_self, decide_true, if_true]
        · simp only [ha, decide_false, Bool.false_eq_true, if_false]

theorem grow_spec (b : Buf) (n : Nat) (h : WF b) (hr : b.curSz + b.curSz + n + n < 2 ^ 62) :
    (grow b n = .error .maxSize ∧ 0 < b.maxSz ∧ b.maxSz < b.offset + n) ∨
    (∃ b', grow b n = .ok b' ∧ GrowOk b n b') := by
  have h1 := h.cap; have h2 := h.curSmall; have h3 := h.maxSmall; have h4 := h.autoSmall
  have hgs : growSize b.curSz n = growSizeNat b.curSz n := k_growSize _ _ (by omega)
  have hge := growSizeNat_ge b.curSz n
  have hle := growSizeNat_le b.curSz n
  have htake : b.data.take b.offset = b.data := List.take_of_length_le (by rw [h.len]; omega)
  have hoff : b.offset ≤ growSizeNat b.curSz n := by omega
  unfold grow
  rw [growPath_eq b n h hr]
  unfold growPathNat
  by_cases hc : 0 < b.maxSz ∧ b.maxSz < b.offset + n
  · left; rw [if_pos hc]; exact ⟨rfl, hc⟩
  · right
    rw [if_neg hc]
    by_cases hf : b.offset + n < b.curSz
    · rw [if_pos hf]
      exact ⟨b, rfl, ⟨rfl, rfl, rfl, rfl, rfl, by omega, by omega, by omega, Or.inl rfl, hc, h⟩⟩
    · rw [if_neg hf]
      cases hm : b.mode with
      | calloc =>
        simp only
        by_cases ha : 0 < b.autoMmapAfter ∧ b.autoMmapAfter < growSizeNat b.curSz n
        · rw [if_pos ha]
          simp only [hgs, hoff, if_true, htake]
          refine ⟨_, rfl, ⟨rfl, rfl, rfl, rfl, rfl, ?_, ?_, ?_, Or.inr (by omega), hc, ?_⟩⟩
          · simp only; omega
          · simp only; omega
          · simp only; omega
          · exact ⟨h.len, h.pad, by simp only; omega, by simp only; omega, h3, h4⟩
        · rw [if_neg ha]
          simp only [hgs, hoff, if_true, htake]
          refine ⟨_, rfl, ⟨rfl, rfl, rfl, rfl, rfl, ?_, ?_, ?_, Or.inr (by omega), hc, ?_⟩⟩
          · simp only; omega
          · simp only; omega
          · simp only; omega
          · exact ⟨h.len, h.pad, by simp only; omega, by simp only; omega, h3, h4⟩
      | mmap =>
        simp only [hgs]
        refine ⟨_, rfl, ⟨rfl, rfl, rfl, rfl, rfl, ?_, ?_, ?_, Or.inr (by omega), hc, ?_⟩⟩
        · simp only; omega
        · simp only; omega
        · simp only; omega
        · exact ⟨h.len, h.pad, by simp only; omega, by simp only; omega, h3, h4⟩

/-- What a successful writing call that stores `p` guarantees. -/
structure AppendOk (b : Buf) (p : Bytes) (b' : Buf) : Prop where
  data : b'.data = b.data ++ p
  offset : b'.offset = b.offset + p.length
  padding : b'.padding = b.padding
  maxSz : b'.maxSz = b.maxSz
  auto : b'.autoMmapAfter = b.autoMmapAfter
  mono : b.curSz ≤ b'.curSz
  bound : b'.curSz ≤ 8 * b.curSz + 8 * p.length + 64
  /-- the capacity stays within three times what has been asked for -/
  tight : b'.curSz ≤ max b.curSz (3 * (b.offset + p.length))
  noMax : ¬ (0 < b.maxSz ∧ b.maxSz < b.offset + p.length)
  wf : WF b'

theorem appendOk_of_growOk {b b1 : Buf} {p : Bytes} (g : GrowOk b p.length b1) :
    AppendOk b p { b1 with offset := b1.offset + p.length, data := b1.data ++ p } := by
  have w1 := g.wf
  refine ⟨by simp only [g.data], by simp only [g.offset], g.padding, g.maxSz, g.auto, g.mono,
    by have := g.bound; simp only; omega,
    by have := g.bound; have := g.tight; simp only; omega, g.noMax, ?_⟩
  refine ⟨?_, ?_, ?_, w1.curSmall, w1.maxSmall, w1.autoSmall⟩
  · simp only [List.length_append, w1.len]
  · simp only; have := w1.pad; omega
  · simp only; have := g.fits; have := g.offset; omega

theorem allocate_spec (b : Buf) (p : Bytes) (h : WF b) (hr : b.curSz + b.curSz + p.length + p.length < 2 ^ 62) :
    (allocate b p = .error .maxSize ∧ 0 < b.maxSz ∧ b.maxSz < b.offset + p.length) ∨
    (∃ b', allocate b p = .ok (b', b.offset) ∧ AppendOk b p b' ∧ b'.curSz ≤ b.curSz + b.curSz + p.length) := by
  unfold allocate
  rcases grow_spec b p.length h hr with ⟨he, hm⟩ | ⟨b1, he, g⟩
  · left; rw [he]; exact ⟨rfl, hm⟩
  · right
    rw [he]
    have := g.fits; have := g.offset
    have hfit : b.offset + p.length ≤ b1.curSz := g.fits
    simp only [g.offset, hfit, if_true]
    exact ⟨_, rfl, g.offset ▸ appendOk_of_growOk g, g.bound⟩

theorem write_spec (b : Buf) (p : Bytes) (h : WF b) (hr : b.curSz + b.curSz + p.length + p.length < 2 ^ 62) :
    (write b p = .error .maxSize ∧ 0 < b.maxSz ∧ b.maxSz < b.offset + p.length) ∨
    (∃ b', write b p = .ok (b', p.length) ∧ AppendOk b p b') := by
  unfold write
  rcases grow_spec b p.length h hr with ⟨he, hm⟩ | ⟨b1, he, g⟩
  · left; rw [he]; exact ⟨rfl, hm⟩
  · right
    rw [he]
    have := g.fits; have := g.offset
    simp only [show b1.offset + p.length ≤ b1.curSz by omega, if_true]
    exact ⟨_, rfl, appendOk_of_growOk g⟩

theorem allocateOffset_spec (b : Buf) (p : Bytes) (h : WF b)
    (hr : b.curSz + b.curSz + p.length + p.length < 2 ^ 62) :
    (allocateOffset b p = .error .maxSize ∧ 0 < b.maxSz ∧ b.maxSz < b.offset + p.length) ∨
    (∃ b', allocateOffset b p = .ok (b', b.offset) ∧ AppendOk b p b') := by
  unfold allocateOffset
  rcases grow_spec b p.length h hr with ⟨he, hm⟩ | ⟨b1, he, g⟩
  · left; rw [he]; exact ⟨rfl, hm⟩
  · right
    rw [he]
    have := g.fits; have h0 := g.offset; have := g.wf.curSmall
    simp only [show b1.offset + p.length ≤ b1.curSz by omega, if_true]
    rw [k_allocOffsetResult _ _ (by omega) (by omega)]
    refine ⟨_, ?_, appendOk_of_growOk g⟩
    rw [h0]; simp

/-- `SliceAllocate`: three `Grow`s, the prefix, the payload. -/
theorem sliceAllocate_spec (b : Buf) (p : Bytes) (h : WF b) (hr : Room b (8 + p.length)) :
    (sliceAllocate b p = .error .maxSize ∧ 0 < b.maxSz ∧ b.maxSz < b.offset + (8 + p.length)) ∨
    (∃ b', sliceAllocate b p = .ok (b', b.offset + 8) ∧ AppendOk b (enc p) b') := by
  unfold Room at hr
  have hc := h.curSmall
  unfold sliceAllocate
  rw [k_sliceAllocGrow _ (by omega)]
  rcases grow_spec b (8 + p.length) h (by omega) with ⟨he, hm⟩ | ⟨b1, he, g1⟩
  · left; rw [he]; exact ⟨rfl, hm⟩
  · right
    rw [he]
    simp only
    unfold writeLen
    rw [lenPrefix_eq]
    simp only
    have hb1 := g1.bound
    -- second Grow (inside writeLen's Allocate(8)) cannot be refused
    rcases allocate_spec b1 (be64 (w p.length)) g1.wf (by rw [be64_length]; omega) with ⟨_, hm2⟩ | ⟨b2, he2, a2, hb2⟩
    · exfalso
      rw [be64_length, g1.maxSz, g1.offset] at hm2
      exact g1.noMax ⟨hm2.1, by omega⟩
    · rw [he2]
      simp only
      rw [be64_length] at hb2
      rcases allocate_spec b2 p a2.wf (by omega) with ⟨_, hm3⟩ | ⟨b3, he3, a3, hb3⟩
      · exfalso
        rw [a2.maxSz, a2.offset, g1.maxSz, g1.offset, be64_length] at hm3
        exact g1.noMax ⟨hm3.1, by omega⟩
      · rw [he3]
        refine ⟨b3, ?_, ?_⟩
        · rw [a2.offset, g1.offset, be64_length]
        · have o2 := a2.offset; rw [be64_length, g1.offset] at o2
          refine ⟨?_, ?_, ?_, ?_, ?_, ?_, ?_, ?_, ?_, a3.wf⟩
          · rw [a3.data, a2.data, g1.data]; unfold enc; simp
          · rw [a3.offset, o2, enc_length]; omega
          · rw [a3.padding, a2.padding, g1.padding]
          · rw [a3.maxSz, a2.maxSz, g1.maxSz]
          · rw [a3.auto, a2.auto, g1.auto]
          · have := a3.mono; have := a2.mono; have := g1.mono; omega
          · rw [enc_length]; omega
          · have t1 := g1.tight; have b1' := g1.bound
            have t2 := a2.tight; have t3 := a3.tight
            rw [be64_length, g1.offset] at t2
            rw [o2] at t3
            rw [enc_length]
            omega
          · rw [enc_length]; exact g1.noMax

end RV.Buffer
