import RV.Gen.Sketch
/-!
`next2Power` (sketch.go) rounds up to the least power of two, for **every** `1 ≤ x ≤ 2^62`:
bit-smearing argument over `BitVec.getLsbD` (no sampling, no per-exponent case split).
-/
namespace RV.Sketch
open Gen.Sketch

/-- one smearing step `x |= x >> s` on a word whose top set bit is `k` and whose bits
`k, k-1, …, k-b+1` are already set: afterwards bits `k … k-(b+s)+1` are set (for `s ≤ b`) -/
theorem smear_step (z : BitVec 64) (k s b : Nat) (hk : k < 63) (hsb : s ≤ b)
    (hi : ∀ i, k < i → z.getLsbD i = false)
    (hlo : ∀ i, i ≤ k → k - i < b → z.getLsbD i = true) :
    let z' := z ||| BitVec.sshiftRight z s
    (∀ i, k < i → z'.getLsbD i = false) ∧ (∀ i, i ≤ k → k - i < b + s → z'.getLsbD i = true) := by
  have hmsb : z.msb = false := by
    rw [BitVec.msb_eq_getLsbD_last]; exact hi 63 (by omega)
  intro z'
  have hbit : ∀ i, z'.getLsbD i = (z.getLsbD i || z.getLsbD (s + i)) := by
    intro i
    show (z ||| BitVec.sshiftRight z s).getLsbD i = _
    rw [BitVec.getLsbD_or, BitVec.getLsbD_sshiftRight, hmsb]
    by_cases h1 : 64 ≤ i
    · have : z.getLsbD (s + i) = false := hi _ (by omega)
      simp [h1, this]
    · by_cases h2 : s + i < 64
      · simp [h1, h2]
      · have : z.getLsbD (s + i) = false := hi _ (by omega)
        simp [h1, h2, this]
  constructor
  · intro i hki
    rw [hbit, hi i hki, hi (s + i) (by omega)]; rfl
  · intro i hik hd
    rw [hbit]
    by_cases h1 : k - i < b
    · rw [hlo i hik h1]; rfl
    · rw [hlo (s + i) (by omega) (by omega)]; simp


theorem bits_of_range (y : BitVec 64) (k : Nat) (h1 : 2 ^ k ≤ y.toNat) (h2 : y.toNat < 2 ^ (k + 1)) :
    (∀ i, k < i → y.getLsbD i = false) ∧ (∀ i, i ≤ k → k - i < 1 → y.getLsbD i = true) := by
  constructor
  · intro i hi
    show y.toNat.testBit i = false
    apply Nat.testBit_lt_two_pow
    have : 2 ^ (k + 1) ≤ 2 ^ i := Nat.pow_le_pow_right (by omega) (by omega)
    omega
  · intro i hik hd
    have : i = k := by omega
    subst this
    show y.toNat.testBit i = true
    rw [Nat.testBit_eq_decide_div_mod_eq]
    have : y.toNat / 2 ^ i = 1 := by
      apply Nat.div_eq_of_lt_le
      · omega
      · rw [Nat.pow_succ] at h2; omega
    simp [this]

theorem eq_ones_of_bits (z : BitVec 64) (k : Nat)
    (hi : ∀ i, k < i → z.getLsbD i = false) (hlo : ∀ i, i ≤ k → z.getLsbD i = true) :
    z.toNat = 2 ^ (k + 1) - 1 := by
  apply Nat.eq_of_testBit_eq
  intro i
  rw [Nat.testBit_two_pow_sub_one]
  show z.getLsbD i = _
  by_cases h : i ≤ k
  · rw [hlo i h]; simp; omega
  · rw [hi i (by omega)]; simp; omega

/-- the bit-smearing core of `next2Power`: for `2^k ≤ y < 2^(k+1)`, `k ≤ 61`, the six
`x |= x >> 2^j` steps produce `2^(k+1) - 1` -/
theorem smear_spec (y : BitVec 64) (k : Nat) (hk : k ≤ 61) (h1 : 2 ^ k ≤ y.toNat) (h2 : y.toNat < 2 ^ (k + 1)) :
    let x_2 := y ||| BitVec.sshiftRight y 1
    let x_3 := x_2 ||| BitVec.sshiftRight x_2 2
    let x_4 := x_3 ||| BitVec.sshiftRight x_3 4
    let x_5 := x_4 ||| BitVec.sshiftRight x_4 8
    let x_6 := x_5 ||| BitVec.sshiftRight x_5 16
    let x_7 := x_6 ||| BitVec.sshiftRight x_6 32
    x_7.toNat = 2 ^ (k + 1) - 1 := by
  intro x_2 x_3 x_4 x_5 x_6 x_7
  have s0 := bits_of_range y k h1 h2
  have s1 := smear_step y k 1 1 (by omega) (by omega) s0.1 s0.2
  have s2 := smear_step x_2 k 2 2 (by omega) (by omega) s1.1 s1.2
  have s3 := smear_step x_3 k 4 4 (by omega) (by omega) s2.1 s2.2
  have s4 := smear_step x_4 k 8 8 (by omega) (by omega) s3.1 s3.2
  have s5 := smear_step x_5 k 16 16 (by omega) (by omega) s4.1 s4.2
  have s6 := smear_step x_6 k 32 32 (by omega) (by omega) s5.1 s5.2
  exact eq_ones_of_bits x_7 k s6.1 (fun i hi => s6.2 i hi (by omega))

/-- `next2Power x` for `2 ≤ x ≤ 2^62` with `2^k < x ≤ 2^(k+1)`: the result is `2^(k+1)` -/
theorem next2Power_of_range (x : BitVec 64) (k : Nat) (hk : k ≤ 61) (h1 : 2 ^ k < x.toNat) (h2 : x.toNat ≤ 2 ^ (k + 1)) :
    (next2Power x).toNat = 2 ^ (k + 1) := by
  have hpos : 0 < 2 ^ k := Nat.two_pow_pos k
  have hlt : 2 ^ (k + 1) < 2 ^ 64 := Nat.pow_lt_pow_right (by omega) (by omega)
  have hy : (x - 1#64).toNat = x.toNat - 1 := by
    rw [BitVec.toNat_sub]; simp; omega
  have := smear_spec (x - 1#64) k hk (by omega) (by omega)
  unfold next2Power
  simp only at this ⊢
  rw [BitVec.toNat_add, this]
  simp
  omega

/-- **next2Power is the least power of two `≥ x`** for every `1 ≤ x ≤ 2^62` (as an int64 word):
the result is a power of two, `≥ x`, and `< 2x`. -/
theorem next2Power_spec (x : BitVec 64) (h1 : 1 ≤ x.toNat) (h2 : x.toNat ≤ 2 ^ 62) :
    ∃ e, e ≤ 62 ∧ (next2Power x).toNat = 2 ^ e ∧ x.toNat ≤ 2 ^ e ∧ 2 ^ e < 2 * x.toNat := by
  by_cases hx1 : x.toNat = 1
  · have : x = 1#64 := BitVec.eq_of_toNat_eq (by simpa using hx1)
    subst this
    exact ⟨0, by omega, by decide, by decide, by decide⟩
  · have hm : x.toNat - 1 ≠ 0 := by omega
    have hl1 := Nat.log2_self_le hm
    have hl2 := @Nat.lt_log2_self (x.toNat - 1)
    have hk : (x.toNat - 1).log2 ≤ 61 := by
      have : (x.toNat - 1).log2 < 62 := (Nat.log2_lt hm).2 (by omega)
      omega
    refine ⟨(x.toNat - 1).log2 + 1, by omega, next2Power_of_range x _ hk (by omega) (by omega), by omega, ?_⟩
    rw [Nat.pow_succ]; omega

end RV.Sketch
