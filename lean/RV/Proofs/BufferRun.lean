import RV.Proofs.BufferGrow
/-!
Histories of writing operations: the step function, the ghost log of what was
written, and the invariants along every history.
-/
namespace RV.Buffer
open Gen.Buffer

/-- number of bytes the call asks `Grow` for -/
def opSize : Op → Nat
  | .write p => p.length
  | .writeSlice p => 8 + p.length
  | .sliceAllocate p => 8 + p.length
  | .allocate p => p.length
  | .allocateOffset p => p.length
  | .reset => 0

/-- the bytes the call appends to the buffer -/
def opBytes : Op → Bytes
  | .write p => p
  | .writeSlice p => enc p
  | .sliceAllocate p => enc p
  | .allocate p => p
  | .allocateOffset p => p
  | .reset => []

theorem opBytes_length (op : Op) : (opBytes op).length = opSize op := by
  cases op <;> simp [opBytes, opSize, enc_length]

/-- Every visited state has room for its next call (no `int` overflow). -/
def Fits (b : Buf) : List Op → Prop
  | [] => True
  | op :: rest => Room b (opSize op) ∧ Fits (step b op).1 rest

/-- Ghost log: the bytes written since the last `Reset`; a refused call writes nothing. -/
def written (acc : Bytes) : List (Op × Bool) → Bytes
  | [] => acc
  | (.reset, _) :: rest => written [] rest
  | (op, refused) :: rest => written (if refused then acc else acc ++ opBytes op) rest

theorem wf_reset (b : Buf) (h : WF b) : WF (reset b) := by
  have := h.pad; have := h.cap
  refine ⟨?_, ?_, ?_, h.curSmall, h.maxSmall, h.autoSmall⟩
  · simp only [reset, List.length_take, h.len]; omega
  · simp only [reset]; omega
  · simp only [reset]; omega

theorem bytes_reset (b : Buf) : bytes (reset b) = [] := by
  simp [bytes, reset]

theorem bytes_appendOk {b b' : Buf} {p : Bytes} (h : WF b) (a : AppendOk b p b') : bytes b' = bytes b ++ p := by
  unfold bytes
  rw [a.data, a.padding, List.drop_append_of_le_length (by rw [h.len]; exact h.pad)]

/-- One call: either it is refused by the max-size check and nothing changes, or it appends
exactly its bytes. -/
theorem step_spec (b : Buf) (op : Op) (hne : op ≠ .reset) (h : WF b) (hr : Room b (opSize op)) :
    (step b op = (b, .fault .maxSize) ∧ 0 < b.maxSz ∧ b.maxSz < b.offset + opSize op) ∨
    (∃ b' out, step b op = (b', out) ∧ out.isFault = false ∧ AppendOk b (opBytes op) b') := by
  have hr' := hr
  unfold Room at hr'
  cases op with
  | reset => exact absurd rfl hne
  | write p =>
    simp only [opSize] at hr' ⊢
    rcases write_spec b p h (by omega) with ⟨he, hm⟩ | ⟨b', he, a⟩
    · left; exact ⟨by simp only [step, he], hm⟩
    · right; exact ⟨b', .n p.length, by simp only [step, he], rfl, a⟩
  | allocate p =>
    simp only [opSize] at hr' ⊢
    rcases allocate_spec b p h (by omega) with ⟨he, hm⟩ | ⟨b', he, a, _⟩
    · left; exact ⟨by simp only [step, he], hm⟩
    · right; exact ⟨b', .off b.offset, by simp only [step, he], rfl, a⟩
  | allocateOffset p =>
    simp only [opSize] at hr' ⊢
    rcases allocateOffset_spec b p h (by omega) with ⟨he, hm⟩ | ⟨b', he, a⟩
    · left; exact ⟨by simp only [step, he], hm⟩
    · right; exact ⟨b', .off b.offset, by simp only [step, he], rfl, a⟩
  | sliceAllocate p =>
    simp only [opSize] at hr ⊢
    rcases sliceAllocate_spec b p h hr with ⟨he, hm⟩ | ⟨b', he, a⟩
    · left; exact ⟨by simp only [step, he], hm⟩
    · right; exact ⟨b', .off (b.offset + 8), by simp only [step, he], rfl, a⟩
  | writeSlice p =>
    simp only [opSize] at hr ⊢
    rcases sliceAllocate_spec b p h hr with ⟨he, hm⟩ | ⟨b', he, a⟩
    · left; exact ⟨by simp only [step, writeSlice, he], hm⟩
    · right; exact ⟨b', .unit, by simp only [step, writeSlice, he], rfl, a⟩

theorem step_wf (b : Buf) (op : Op) (h : WF b) (hr : Room b (opSize op)) : WF (step b op).1 := by
  by_cases hne : op = .reset
  · subst hne; exact wf_reset b h
  · rcases step_spec b op hne h hr with ⟨he, _⟩ | ⟨b', out, he, _, a⟩
    · rw [he]; exact h
    · rw [he]; exact a.wf

theorem run_cons (b : Buf) (op : Op) (rest : List Op) :
    run b (op :: rest) = ((run (step b op).1 rest).1, (step b op).2 :: (run (step b op).1 rest).2) := rfl

/-- Along every history `Bytes()` is the ghost log, and the invariant holds. -/
theorem run_spec (ops : List Op) : ∀ (b : Buf), WF b → Fits b ops →
    WF (run b ops).1 ∧
    bytes (run b ops).1 = written (bytes b) (ops.zip ((run b ops).2.map Out.isFault)) := by
  induction ops with
  | nil => intro b h _; exact ⟨h, rfl⟩
  | cons op rest ih =>
    intro b h hf
    obtain ⟨hr, hrest⟩ := hf
    have hw := step_wf b op h hr
    obtain ⟨ih1, ih2⟩ := ih (step b op).1 hw hrest
    rw [run_cons]
    refine ⟨ih1, ?_⟩
    simp only [List.map_cons, List.zip_cons_cons]
    rw [ih2]
    by_cases hne : op = .reset
    · subst hne
      simp only [step, written, bytes_reset]
    · rcases step_spec b op hne h hr with ⟨he, _⟩ | ⟨b', out, he, hout, a⟩
      · rw [he]
        cases op <;> first | exact absurd rfl hne | simp [written, Out.isFault]
      · rw [he]
        simp only [hout]
        rw [bytes_appendOk h a]
        cases op <;> first | exact absurd rfl hne | simp [written]

/-- `offset ≤ max maxSz padding` whenever a limit is set — an invariant of every history. -/
def MaxInv (b : Buf) : Prop := 0 < b.maxSz → b.offset ≤ max b.maxSz b.padding

theorem step_maxInv (b : Buf) (op : Op) (h : WF b) (hr : Room b (opSize op)) (hm : MaxInv b) :
    MaxInv (step b op).1 ∧ (step b op).1.maxSz = b.maxSz ∧ (step b op).1.padding = b.padding := by
  by_cases hne : op = .reset
  · subst hne
    refine ⟨?_, rfl, rfl⟩
    intro _; simp only [step, reset]; omega
  · rcases step_spec b op hne h hr with ⟨he, _⟩ | ⟨b', out, he, _, a⟩
    · rw [he]; exact ⟨hm, rfl, rfl⟩
    · rw [he]
      refine ⟨?_, a.maxSz, a.padding⟩
      intro hpos
      have := a.noMax; have := a.offset
      rw [a.maxSz] at hpos ⊢
      rw [opBytes_length] at *
      simp only [a.padding]
      omega

theorem run_maxInv (ops : List Op) : ∀ (b : Buf), WF b → Fits b ops → MaxInv b → MaxInv (run b ops).1 := by
  induction ops with
  | nil => intro b _ _ hm; exact hm
  | cons op rest ih =>
    intro b h hf hm
    obtain ⟨hr, hrest⟩ := hf
    rw [run_cons]
    exact ih _ (step_wf b op h hr) hrest (step_maxInv b op h hr hm).1

/-! ### `Fits` from a bound on the total size of the history -/

/-- total number of bytes a history asks for -/
def totalSize : List Op → Nat
  | [] => 0
  | op :: rest => opSize op + totalSize rest

theorem step_tight (b : Buf) (op : Op) (h : WF b) (hr : Room b (opSize op)) :
    (step b op).1.curSz ≤ max b.curSz (3 * (b.offset + opSize op)) ∧
      (step b op).1.offset ≤ b.offset + opSize op := by
  by_cases hne : op = .reset
  · subst hne
    have := h.pad
    simp only [step, reset, opSize]; omega
  · rcases step_spec b op hne h hr with ⟨he, _⟩ | ⟨b', out, he, _, a⟩
    · rw [he]; simp only; omega
    · rw [he]
      have t := a.tight; have o := a.offset
      rw [opBytes_length] at t o
      simp only; omega

/-- The capacity never exceeds `max(initial capacity, 3·(initial offset + total size))`, so a
bound on the total size of the history excludes overflow. -/
theorem fits_of_total (K : Nat) : ∀ (ops : List Op) (b : Buf), WF b →
    b.curSz ≤ K → 3 * (b.offset + totalSize ops) ≤ K → 8 * K + 8 * totalSize ops + 128 < 2 ^ 62 →
    Fits b ops := by
  intro ops
  induction ops with
  | nil => intro b _ _ _ _; trivial
  | cons op rest ih =>
    intro b h hc ho hk
    simp only [totalSize] at ho hk
    have hr : Room b (opSize op) := by unfold Room; omega
    refine ⟨hr, ?_⟩
    obtain ⟨t1, t2⟩ := step_tight b op h hr
    exact ih _ (step_wf b op h hr) (by omega) (by omega) (by omega)

end RV.Buffer
