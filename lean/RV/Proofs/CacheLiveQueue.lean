import RV.Proofs.CacheLiveInv
/-!
# The queue invariant `LiveInv` (all reachable states)

* `cap` / `full` — `setBuf` never exceeds its capacity, and a goroutine is blocked in a send
  only while the buffer is full (Go channel semantics as modelled by `recvBuf`/`sendBlocking`);
* `blocked` — a client at `delBlocked`/`waitBlocked` is queued in `sendq`;
* `waiting` — the marker a `Wait` call waits for is already closed, or still in the channel, or
  in the applier's hands;
* `appwf`, `pcwf` — `.victims []` never occurs; shard indices in pcs are in range.
-/
namespace RV.Cache
open Gen.Cache

structure LiveInv (cfg : Cfg) (s : State) : Prop where
  cap : s.buf.length ≤ cfg.bufCap
  full : s.sendq ≠ [] → s.buf.length = cfg.bufCap
  blocked : ∀ t, (s.cl t).sendBlocked = true → ∃ e, (t, e) ∈ s.sendq
  waiting : ∀ t id, (s.cl t).waitsFor = some id →
    id ∈ s.closedMarkers ∨ .marker id ∈ chan s ∨ s.app = .marker id
  appwf : s.app.wf = true
  pcwf : ∀ t, (s.cl t).wf = true

theorem unblockedPc_sendBlocked (pc : CPc) : (unblockedPc pc).sendBlocked = false := by
  cases pc <;> rfl
theorem unblockedPc_waitsFor (pc : CPc) : (unblockedPc pc).waitsFor = pc.waitsFor := by
  cases pc <;> rfl
theorem unblockedPc_wf (pc : CPc) : (unblockedPc pc).wf = pc.wf := by
  cases pc <;> rfl
theorem unblockedPc_of_not_blocked (pc : CPc) (h : pc.sendBlocked = false) : unblockedPc pc = pc := by
  cases pc <;> first | rfl | cases h

theorem chan_recv {s s1 : State} {x : BufElem} (hr : recvBuf s = some (x, s1)) : chan s = x :: chan s1 := by
  obtain ⟨rest, hb, (⟨hq, rfl⟩ | ⟨t, e, q, hq, rfl⟩)⟩ := recvBuf_cases hr
  · simp [chan, hb, hq]
  · simp [chan, hb, hq]

/-- transitions that touch neither `buf` nor `sendq` -/
theorem live_of_frame {cfg : Cfg} {s s' : State} (h : LiveInv cfg s)
    (hbuf : s'.buf = s.buf) (hq : s'.sendq = s.sendq)
    (hcm : ∀ id, id ∈ s.closedMarkers → id ∈ s'.closedMarkers)
    (happ : ∀ id, s.app = .marker id → s'.app = .marker id ∨ id ∈ s'.closedMarkers)
    (hwf : s'.app.wf = true)
    (hcl : ∀ t, s'.cl t = s.cl t ∨
      ((s'.cl t).sendBlocked = false ∧ (s'.cl t).waitsFor = none ∧ (s'.cl t).wf = true)) :
    LiveInv cfg s' := by
  have hchan : chan s' = chan s := by simp [chan, hbuf, hq]
  refine ⟨by rw [hbuf]; exact h.cap, by rw [hbuf, hq]; exact h.full, ?_, ?_, hwf, ?_⟩
  · intro t hb
    rcases hcl t with e | ⟨e, _, _⟩
    · rw [e] at hb; rw [hq]; exact h.blocked t hb
    · rw [e] at hb; cases hb
  · intro t id hw
    rcases hcl t with e | ⟨_, e, _⟩
    · rw [e] at hw
      rcases h.waiting t id hw with h1 | h1 | h1
      · exact Or.inl (hcm id h1)
      · exact Or.inr (Or.inl (by rw [hchan]; exact h1))
      · rcases happ id h1 with h2 | h2
        · exact Or.inr (Or.inr h2)
        · exact Or.inl h2
    · rw [e] at hw; cases hw
  · intro t
    rcases hcl t with e | ⟨_, _, e⟩
    · rw [e]; exact h.pcwf t
    · exact e

/-- a receive from the channel (by the applier or by `Clear`'s drain loop) -/
theorem live_of_recv {cfg : Cfg} {s s1 s' : State} {x : BufElem} (h : LiveInv cfg s)
    (hr : recvBuf s = some (x, s1)) (hbuf : s'.buf = s1.buf) (hq : s'.sendq = s1.sendq) (hcl : s'.cl = s1.cl)
    (hcm : ∀ id, id ∈ s.closedMarkers → id ∈ s'.closedMarkers)
    (hx : ∀ id, x = .marker id → s'.app = .marker id ∨ id ∈ s'.closedMarkers)
    (happ : ∀ id, s.app = .marker id → s'.app = .marker id ∨ id ∈ s'.closedMarkers)
    (hwf : s'.app.wf = true) : LiveInv cfg s' := by
  have hchan : chan s = x :: chan s' := by
    rw [chan_recv hr]; simp [chan, hbuf, hq]
  have hw1 : ∀ t, (s'.cl t).waitsFor = (s.cl t).waitsFor := by
    intro t; rw [hcl]
    rcases recvBuf_cl hr t with e | e <;> rw [e]
    exact unblockedPc_waitsFor _
  have hwf1 : ∀ t, (s'.cl t).wf = (s.cl t).wf := by
    intro t; rw [hcl]
    rcases recvBuf_cl hr t with e | e <;> rw [e]
    exact unblockedPc_wf _
  have hwait : ∀ t id, (s'.cl t).waitsFor = some id →
      id ∈ s'.closedMarkers ∨ .marker id ∈ chan s' ∨ s'.app = .marker id := by
    intro t id hw
    rw [hw1] at hw
    rcases h.waiting t id hw with h1 | h1 | h1
    · exact Or.inl (hcm id h1)
    · rw [hchan] at h1
      rcases List.mem_cons.mp h1 with h2 | h2
      · rcases hx id h2.symm with h3 | h3
        · exact Or.inr (Or.inr h3)
        · exact Or.inl h3
      · exact Or.inr (Or.inl h2)
    · rcases happ id h1 with h2 | h2
      · exact Or.inr (Or.inr h2)
      · exact Or.inl h2
  obtain ⟨rest, hb, (⟨hsq, rfl⟩ | ⟨t0, e0, q, hsq, rfl⟩)⟩ := recvBuf_cases hr
  · refine ⟨?_, ?_, ?_, hwait, hwf, fun t => by rw [hwf1]; exact h.pcwf t⟩
    · rw [hbuf]; have := h.cap; rw [hb] at this; simp at this ⊢; omega
    · rw [hq]; intro hne; exact absurd hsq hne
    · intro t hbk
      rw [hcl] at hbk
      obtain ⟨e, he⟩ := h.blocked t hbk
      rw [hsq] at he; cases he
  · have hfull := h.full (by rw [hsq]; simp)
    refine ⟨?_, ?_, ?_, hwait, hwf, fun t => by rw [hwf1]; exact h.pcwf t⟩
    · rw [hbuf]; have := h.cap; rw [hb] at this; simp at this ⊢; omega
    · rw [hq, hbuf]; intro _; rw [hb] at hfull; simp at hfull ⊢; omega
    · intro t hbk
      rw [hcl] at hbk
      by_cases ht : t = t0
      · subst ht
        simp only [setCl_cl_self] at hbk
        rw [unblockedPc_sendBlocked] at hbk; cases hbk
      · rw [setCl_cl_ne _ _ _ ht] at hbk
        obtain ⟨e, he⟩ := h.blocked t hbk
        rw [hsq] at he
        rcases List.mem_cons.mp he with h1 | h1
        · exact absurd (congrArg Prod.fst h1) ht
        · exact ⟨e, by rw [hq]; exact h1⟩

/-- a send that finds room in the buffer -/
theorem live_push_buf {cfg : Cfg} {s s' : State} {t : Tid} {e : BufElem} (h : LiveInv cfg s)
    (hroom : s.buf.length < cfg.bufCap) (hempty : s.sendq = [])
    (hbuf : s'.buf = s.buf ++ [e]) (hq : s'.sendq = s.sendq) (hcm : s'.closedMarkers = s.closedMarkers)
    (happ : s'.app = s.app) (hne : ∀ t', t' ≠ t → s'.cl t' = s.cl t')
    (hnb : (s'.cl t).sendBlocked = false) (hw : ∀ id, (s'.cl t).waitsFor = some id → e = .marker id)
    (hwf : (s'.cl t).wf = true) : LiveInv cfg s' := by
  have hchan : chan s' = chan s ++ [e] := by simp [chan, hbuf, hq, hempty]
  refine ⟨?_, ?_, ?_, ?_, by rw [happ]; exact h.appwf, ?_⟩
  · rw [hbuf]; simp; omega
  · rw [hq]; intro hne'; exact absurd hempty hne'
  · intro t' hb
    by_cases ht : t' = t
    · subst ht; rw [hnb] at hb; cases hb
    · rw [hne t' ht] at hb; rw [hq]; exact h.blocked t' hb
  · intro t' id hw'
    by_cases ht : t' = t
    · subst ht
      exact Or.inr (Or.inl (by rw [hchan, hw id hw']; simp))
    · rw [hne t' ht] at hw'
      rcases h.waiting t' id hw' with h1 | h1 | h1
      · exact Or.inl (by rw [hcm]; exact h1)
      · exact Or.inr (Or.inl (by rw [hchan]; exact List.mem_append_left _ h1))
      · exact Or.inr (Or.inr (by rw [happ]; exact h1))
  · intro t'
    by_cases ht : t' = t
    · subst ht; exact hwf
    · rw [hne t' ht]; exact h.pcwf t'

/-- a send that blocks -/
theorem live_push_sendq {cfg : Cfg} {s s' : State} {t : Tid} {e : BufElem} (h : LiveInv cfg s)
    (hnoroom : ¬ (s.buf.length < cfg.bufCap ∧ s.sendq = []))
    (hbuf : s'.buf = s.buf) (hq : s'.sendq = s.sendq ++ [(t, e)]) (hcm : s'.closedMarkers = s.closedMarkers)
    (happ : s'.app = s.app) (hne : ∀ t', t' ≠ t → s'.cl t' = s.cl t')
    (hw : ∀ id, (s'.cl t).waitsFor = some id → e = .marker id)
    (hwf : (s'.cl t).wf = true) : LiveInv cfg s' := by
  have hchan : chan s' = chan s ++ [e] := by simp [chan, hbuf, hq]
  have hfull : s.buf.length = cfg.bufCap := by
    by_cases hs : s.sendq = []
    · have := h.cap
      have : ¬ s.buf.length < cfg.bufCap := fun hlt => hnoroom ⟨hlt, hs⟩
      omega
    · exact h.full hs
  refine ⟨by rw [hbuf]; exact h.cap, fun _ => by rw [hbuf]; exact hfull, ?_, ?_, by rw [happ]; exact h.appwf, ?_⟩
  · intro t' hb
    by_cases ht : t' = t
    · subst ht; exact ⟨e, by rw [hq]; simp⟩
    · rw [hne t' ht] at hb
      obtain ⟨e', he'⟩ := h.blocked t' hb
      exact ⟨e', by rw [hq]; exact List.mem_append_left _ he'⟩
  · intro t' id hw'
    by_cases ht : t' = t
    · subst ht
      exact Or.inr (Or.inl (by rw [hchan, hw id hw']; simp))
    · rw [hne t' ht] at hw'
      rcases h.waiting t' id hw' with h1 | h1 | h1
      · exact Or.inl (by rw [hcm]; exact h1)
      · exact Or.inr (Or.inl (by rw [hchan]; exact List.mem_append_left _ h1))
      · exact Or.inr (Or.inr (by rw [happ]; exact h1))
  · intro t'
    by_cases ht : t' = t
    · subst ht; exact hwf
    · rw [hne t' ht]; exact h.pcwf t'

theorem sendBlocking_cases (cfg : Cfg) (s : State) (t : Tid) (e : BufElem) (a b : CPc) :
    (s.buf.length < cfg.bufCap ∧ s.sendq = [] ∧
        sendBlocking cfg s t e a b = setCl { s with buf := s.buf ++ [e] } t a) ∨
    (¬ (s.buf.length < cfg.bufCap ∧ s.sendq = []) ∧
        sendBlocking cfg s t e a b = setCl { s with sendq := s.sendq ++ [(t, e)] } t b) := by
  unfold sendBlocking
  split
  · rename_i h; exact Or.inl ⟨h.1, h.2, rfl⟩
  · rename_i h; exact Or.inr ⟨h, rfl⟩

theorem live_init (cfg : Cfg) (now : Time) : LiveInv cfg (init cfg now) := by
  refine ⟨by simp [init], by simp [init], ?_, ?_, rfl, fun _ => rfl⟩
  · intro t h; simp [init, CPc.sendBlocked] at h
  · intro t id h; simp [init, CPc.waitsFor] at h

theorem startPc_props (c : Call) :
    (startPc c).sendBlocked = false ∧ (startPc c).waitsFor = none ∧ (startPc c).wf = true := by
  cases c <;> exact ⟨rfl, rfl, rfl⟩

theorem live_step {cfg : Cfg} {s s' : State} {a : Action} (hh : Handshake s) (h : LiveInv cfg s)
    (hs : step cfg s a = some s') : LiveInv cfg s' := by
  cases a with
  | spawn t0 c =>
    have hs' : spawnStep s t0 c = some s' := hs
    refine live_of_frame h (spawnStep_buf _ _ _ hs') (spawnStep_sendq _ _ _ hs')
      (fun id hid => by rw [spawnStep_closedMarkers _ _ _ hs']; exact hid)
      (fun id hid => Or.inl (by rw [spawnStep_app _ _ _ hs']; exact hid))
      (by rw [spawnStep_app _ _ _ hs']; exact h.appwf) (fun t => ?_)
    by_cases ht : t = t0
    · subst ht; right; rw [(spawn_shape hs').2]; exact startPc_props c
    · exact Or.inl (spawnStep_cl_ne _ _ _ hs' ht)
  | tick d =>
    simp only [step, Option.some.injEq] at hs; subst hs
    exact live_of_frame h rfl rfl (fun _ hid => hid) (fun _ hid => Or.inl hid) h.appwf (fun _ => Or.inl rfl)
  | done t0 =>
    have hs' : doneStep s t0 = some s' := hs
    obtain ⟨happ0, happ1, hcase⟩ := done_shape hs'
    refine live_of_frame h (doneStep_buf _ _ hs') (doneStep_sendq _ _ hs')
      (fun id hid => by rw [doneStep_closedMarkers _ _ hs']; exact hid)
      (fun id hid => by rw [happ0] at hid; cases hid)
      (by rw [happ1]; rfl) (fun t => ?_)
    by_cases ht : t = t0
    · subst ht; right
      rcases hcase with ⟨c, _, e⟩ | ⟨_, e⟩ <;> rw [e] <;> exact ⟨rfl, rfl, rfl⟩
    · exact Or.inl (doneStep_cl_ne _ _ hs' ht)
  | applier ch =>
    have hs' : applierStep cfg s ch = some s' := hs
    rcases applier_shape hs' with hp | hsp
    · refine live_of_frame h hp.buf hp.sendq (fun id hid => by rw [hp.closedMarkers]; exact hid)
        (fun id hid => ?_) hp.wf1 (fun t => Or.inl (by rw [hp.cl]))
      have := hp.mk0; rw [hid] at this; cases this
    · cases hsp with
      | selItem hidle hr =>
        obtain ⟨x, s1, hrecv, hcl, hbuf, hq, hcm, _, _, hx⟩ := selItem_shape hr
        refine live_of_recv h hrecv hbuf hq hcl (fun id hid => by rw [hcm]; exact hid) (fun id hid => ?_)
          (fun id hid => by rw [hidle] at hid; cases hid) ?_
        · rcases hx with ⟨id', e1, e2⟩ | ⟨i, e1, _⟩
          · rw [e1] at hid; cases hid; exact Or.inl e2
          · rw [e1] at hid; cases hid
        · rcases hx with ⟨id', _, e2⟩ | ⟨i, _, e2⟩ <;> rw [e2] <;> rfl
      | selStop t0 hidle hr =>
        obtain ⟨happ1, hne, hcase⟩ := selStop_shape hr
        refine live_of_frame h (apSelStop_buf _ _ hr) (apSelStop_sendq _ _ hr)
          (fun id hid => by rw [apSelStop_closedMarkers _ _ hr]; exact hid)
          (fun id hid => by rw [hidle] at hid; cases hid) (by rw [happ1]; rfl) (fun t => ?_)
        by_cases ht : t = t0
        · subst ht; right
          rcases hcase with ⟨c, _, e⟩ | ⟨_, e⟩ <;> rw [e] <;> exact ⟨rfl, rfl, rfl⟩
        · exact Or.inl (hne t ht)
      | marker id hpc he =>
        subst he
        refine live_of_frame h rfl rfl (fun id' hid => List.mem_cons_of_mem _ hid) (fun id' hid => ?_) rfl
          (fun _ => Or.inl rfl)
        rw [hpc] at hid; cases hid
        exact Or.inr (by simp [apMarker])
  | client t0 ch =>
    have hs' : clientStep cfg s t0 ch = some s' := hs
    rcases client_shape hs' with hp | hsp
    · refine live_of_frame h hp.buf hp.sendq (fun id hid => by rw [hp.closedMarkers]; exact hid)
        (fun id hid => Or.inl (by rw [hp.app]; exact hid)) (by rw [hp.app]; exact h.appwf) (fun t => ?_)
      by_cases ht : t = t0
      · subst ht; right
        exact ⟨(own_nonspecial hp.succ hp.src).1, (own_nonspecial hp.succ hp.src).2, own_wf hp.succ⟩
      · exact Or.inl (hp.cl_ne t ht)
    · cases hsp with
      | setSend i hpc he =>
        subst he
        unfold stSetSend
        split
        · rename_i hroom
          exact live_push_buf (t := t0) (e := .item i) h hroom.1 hroom.2 rfl rfl rfl rfl
            (fun t' hne => by simp [setCl_cl_ne _ _ _ hne]) (by simp [CPc.sendBlocked])
            (fun id hw => by simp [CPc.waitsFor] at hw) (by simp [CPc.wf])
        · refine live_of_frame h rfl rfl (fun _ hid => hid) (fun _ hid => Or.inl hid) h.appwf (fun t => ?_)
          by_cases ht : t = t0
          · subst ht; right; simp only [setCl_cl_self]; exact ⟨rfl, rfl, rfl⟩
          · exact Or.inl (by simp [setCl_cl_ne _ _ _ ht])
      | delSend hk c hpc he =>
        subst he
        unfold stDelSend
        rcases sendBlocking_cases cfg s t0 (.item ⟨.del, hk, c, 0, 0, Gen.zeroTime⟩) (.delSent hk) (.delBlocked hk) with
          ⟨h1, h2, e⟩ | ⟨h1, e⟩ <;> rw [e]
        · exact live_push_buf (t := t0) h h1 h2 rfl rfl rfl rfl
            (fun t' hne => by simp [setCl_cl_ne _ _ _ hne]) (by simp [CPc.sendBlocked])
            (fun id hw => by simp [CPc.waitsFor] at hw) (by simp [CPc.wf])
        · exact live_push_sendq (t := t0) h h1 rfl rfl rfl rfl
            (fun t' hne => by simp [setCl_cl_ne _ _ _ hne])
            (fun id hw => by simp [CPc.waitsFor] at hw) (by simp [CPc.wf])
      | waitSend hpc he =>
        subst he
        unfold stWaitSend
        have h0 : LiveInv cfg { s with nextMarker := s.nextMarker + 1 } :=
          ⟨h.cap, h.full, h.blocked, h.waiting, h.appwf, h.pcwf⟩
        rcases sendBlocking_cases cfg { s with nextMarker := s.nextMarker + 1 } t0 (.marker s.nextMarker)
          (.waitRecv s.nextMarker) (.waitBlocked s.nextMarker) with ⟨h1, h2, e⟩ | ⟨h1, e⟩ <;> rw [e]
        · exact live_push_buf (t := t0) h0 h1 h2 rfl rfl rfl rfl
            (fun t' hne => by simp [setCl_cl_ne _ _ _ hne]) (by simp [CPc.sendBlocked])
            (fun id hw => by simp [CPc.waitsFor] at hw; rw [hw]) (by simp [CPc.wf])
        · exact live_push_sendq (t := t0) h0 h1 rfl rfl rfl rfl
            (fun t' hne => by simp [setCl_cl_ne _ _ _ hne])
            (fun id hw => by simp [CPc.waitsFor] at hw; rw [hw]) (by simp [CPc.wf])
      | drain c hpc he =>
        subst he
        have hdead : s.app = .dead := hh.busy t0 (by rw [hpc]; rfl)
        rcases drain_shape s t0 c with ⟨_, he⟩ | ⟨x, s1, hrecv, hcl, hbuf, hq, happ, _, _, _, _, _, _, _, hx⟩
        · rw [he]
          refine live_of_frame h rfl rfl (fun _ hid => hid) (fun _ hid => Or.inl hid) h.appwf (fun t => ?_)
          by_cases ht : t = t0
          · subst ht; right; simp only [setCl_cl_self]; exact ⟨rfl, rfl, rfl⟩
          · exact Or.inl (by simp [setCl_cl_ne _ _ _ ht])
        · refine live_of_recv h hrecv hbuf hq hcl (fun id hid => ?_) (fun id hid => ?_)
            (fun id hid => by rw [hdead] at hid; cases hid) (by rw [happ, hdead]; rfl)
          · rcases hx with ⟨id', _, e2, _⟩ | ⟨i, _, e2, _⟩ <;> rw [e2]
            · exact List.mem_cons_of_mem _ hid
            · exact hid
          · rcases hx with ⟨id', e1, e2, _⟩ | ⟨i, e1, _, _⟩
            · rw [e1] at hid; cases hid; exact Or.inr (by rw [e2]; simp)
            · rw [e1] at hid; cases hid
      | restart c hpc he =>
        subst he
        have hdead : s.app = .dead := hh.busy t0 (by rw [hpc]; rfl)
        refine live_of_frame h (stClrRestart_buf ..) (stClrRestart_sendq ..)
          (fun id hid => by rw [stClrRestart_closedMarkers]; exact hid)
          (fun id hid => by rw [hdead] at hid; cases hid) ?_ (fun t => ?_)
        · unfold stClrRestart; dsimp only; split <;> rfl
        · by_cases ht : t = t0
          · subst ht; right
            unfold stClrRestart; dsimp only; split <;> simp <;> exact ⟨rfl, rfl, rfl⟩
          · exact Or.inl (stClrRestart_cl_ne s t0 c ht)
      | finish hpc he =>
        subst he
        have hdead : s.app = .dead := hh.busy t0 (by rw [hpc]; rfl)
        refine live_of_frame h (stClsFinish_buf ..) (stClsFinish_sendq ..)
          (fun id hid => by rw [stClsFinish_closedMarkers]; exact hid)
          (fun id hid => by rw [hdead] at hid; cases hid) rfl (fun t => ?_)
        by_cases ht : t = t0
        · subst ht; right; unfold stClsFinish; simp; exact ⟨rfl, rfl, rfl⟩
        · exact Or.inl (stClsFinish_cl_ne s t0 ht)

/-- the queue invariant holds in every reachable state -/
theorem live_reach {cfg : Cfg} {s : State} (h : Reach cfg s) : LiveInv cfg s :=
  Reach.induction (live_init cfg) (fun _ _ _ hr hp hs => live_step (handshake_reach hr) hp hs) h

end RV.Cache
