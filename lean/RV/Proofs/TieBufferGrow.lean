import RV.Proofs.TieBufferAbs
/-!
`Grow`: the generated function agrees with the model's `grow` on every well-formed buffer, along
each of the paths (max-size panic, early return, calloc re-allocation, calloc → mmap switch, mmap
truncate).
-/
namespace RV.TieBuffer
open Gen.Buf Gen.BufferM RV.Buffer Gen.Buffer


theorem toInt_small (x : BitVec 64) (h : x.toNat < 2 ^ 63) : x.toInt = x.toNat :=
  BitVec.toInt_eq_toNat_of_lt (by omega)

theorem slice_full (sz : Nat) (lo hi : BitVec 64) (h1 : lo.toNat ≤ hi.toNat) (h2 : hi.toNat ≤ sz)
    (h3 : hi.toNat < 2 ^ 63) :
    Gen.Buf.slice sz (Win.full sz) lo hi = some ⟨lo.toNat, hi.toNat⟩ := by
  unfold Gen.Buf.slice Win.full
  rw [toInt_small lo (by omega), toInt_small hi h3]
  simp only [Nat.zero_add]
  rw [if_pos ⟨by omega, by omega, h2⟩]

theorem copy_fresh (N : Nat) (buf : Array (BitVec 8)) (off : Nat) (h : off ≤ N) :
    copy (zeros N) (Win.full (zeros N).size) buf ⟨0, off⟩ =
      (blit (zeros N) 0 (buf.extract 0 off), BitVec.ofNat 64 off) := by
  unfold copy Win.full
  simp only [zeros_size, Nat.sub_zero, Nat.zero_add]
  rw [Nat.min_eq_right h]

theorem blit_fresh_take (N : Nat) (buf : Array (BitVec 8)) (off : Nat) (h : off ≤ N) (hb : off ≤ buf.size) :
    (blit (zeros N) 0 (buf.extract 0 off)).toList.take off = buf.toList.take off := by
  have hs : (buf.extract 0 off).size = off := by simp; omega
  rw [blit_toList _ _ _ (by rw [hs, zeros_size]; omega)]
  simp only [List.take_zero, List.nil_append]
  rw [List.take_append_of_le_length (by simp; omega)]
  rw [extract_toList]
  simp [List.take_take]


/-- `b.curSz` after the capacity arithmetic of `Grow(n)` -/
def grownWord (c n : BitVec 64) : BitVec 64 :=
  c + (if ((if BitVec.slt 1073741824#64 (c + n) then 1073741824#64 else c + n).slt n) then n
        else if BitVec.slt 1073741824#64 (c + n) then 1073741824#64 else c + n)

theorem grownWord_eq (c : BitVec 64) (n : Nat) (h : c.toNat + c.toNat + n + n < 2 ^ 63) :
    grownWord c (w n) = w (growSizeNat c.toNat n) := by
  have k := k_growSize c.toNat n h
  unfold growSize growByInit growByTooBig growByCap growByTooSmall at k
  simp only [w_toNat_self] at k
  unfold grownWord
  apply BitVec.eq_of_toNat_eq
  rw [toNat_w _ (by have := growSizeNat_le c.toNat n; omega)]
  exact k

theorem wf_grown (g : Buffer) (hw : WF (abs g)) (N : Nat) (h1 : g.offset.toNat ≤ N) (h2 : N < 2 ^ 62)
    (md : Mode) (d : Bytes) (hd : d = (abs g).data) :
    WF { padding := (abs g).padding, offset := g.offset.toNat, curSz := N, maxSz := g.maxSz.toNat, mode := md,
         autoMmapAfter := g.autoMmapAfter.toNat, data := d } := by
  subst hd
  exact ⟨hw.len, hw.pad, h1, h2, hw.maxSmall, hw.autoSmall⟩

theorem absMode0 : absMode 0#64 = Mode.calloc := rfl
theorem absMode1 : absMode 1#64 = Mode.mmap := rfl

theorem grow_agree (os : OS) (hos : os.Ok) (g : Buffer) (h : GWF g) (n : Nat)
    (hr : (abs g).curSz + (abs g).curSz + n + n < 2 ^ 62) :
    Agree (fun g' m => abs g' = m ∧ GWF g') (Grow os g (w n)) (grow (abs g) n) := by
  have hw := h.wf
  have h1 := hw.cap; have h2 := hw.curSmall; have h3 := hw.maxSmall; have h4 := hw.autoSmall
  have hp := hw.pad
  rw [abs_offset, abs_curSz] at h1
  rw [abs_curSz] at h2; rw [abs_maxSz] at h3; rw [abs_auto] at h4
  rw [abs_curSz] at hr
  have hle := growSizeNat_le g.curSz.toNat n
  have hge := growSizeNat_ge g.curSz.toNat n
  have kA := k_growExceedsMax g.maxSz.toNat g.offset.toNat n (by omega) (by omega)
  have kB := k_growFits g.offset.toNat n g.curSz.toNat (by omega) (by omega)
  have kC := grownWord_eq g.curSz n (by omega)
  have kD := k_growAutoMmap g.autoMmapAfter.toNat (growSizeNat g.curSz.toNat n) (by omega) (by omega)
  unfold growExceedsMax at kA; unfold growFits at kB; unfold growAutoMmap at kD; unfold grownWord at kC
  simp only [w_toNat_self] at kA kB kD
  unfold Grow grow growPath
  unfold growExceedsMax growFits growAutoMmap growSize growByInit growByTooBig growByCap growByTooSmall
  simp only [abs_offset, abs_curSz, abs_maxSz, abs_auto, abs_mode, w_toNat_self, h.nonnil,
    Bool.not_true, Bool.false_eq_true, if_false, kA, kB, kC, kD]
  have hN : growSizeNat g.curSz.toNat n < 2 ^ 63 := by omega
  have hNn : (w (growSizeNat g.curSz.toNat n)).toNat = growSizeNat g.curSz.toNat n := toNat_w _ (by omega)
  have hNi : (w (growSizeNat g.curSz.toNat n)).toInt = growSizeNat g.curSz.toNat n := toInt_w _ hN
  have hoffN : g.offset.toNat ≤ growSizeNat g.curSz.toNat n := by omega
  have hsl : Gen.Buf.slice g.buf.size (Win.full g.buf.size) (0#64) g.offset = some ⟨0, g.offset.toNat⟩ := by
    have := slice_full g.buf.size 0#64 g.offset (by simp) (by rw [h.size]; exact h1) (by omega)
    simpa using this
  have htake : List.take g.offset.toNat (abs g).data = (abs g).data :=
    List.take_of_length_le (by rw [hw.len, abs_offset]; omega)
  by_cases cA : 0 < g.maxSz.toNat ∧ g.maxSz.toNat < g.offset.toNat + n
  · simp only [cA, and_self, decide_true, if_true]
    exact agree_err _
  · simp only [cA, decide_false, Bool.false_eq_true, if_false]
    by_cases cB : g.offset.toNat + n < g.curSz.toNat
    · simp only [cB, decide_true, if_true]
      exact agree_ok ⟨rfl, h⟩
    · simp only [cB, decide_false, Bool.false_eq_true, if_false]
      rcases h.ty with ht | ⟨ht, hmm⟩
      · -- calloc
        simp only [ht, beq_self_eq_true, if_true]
        have hbuf : (blit (zeros (growSizeNat g.curSz.toNat n)) 0 (g.buf.extract 0 g.offset.toNat)).toList.take g.offset.toNat
            = (abs g).data := by
          rw [abs_data]; exact blit_fresh_take _ _ _ hoffN (h.off_le)
        by_cases cD : 0 < g.autoMmapAfter.toNat ∧ g.autoMmapAfter.toNat < growSizeNat g.curSz.toNat n
        · simp only [cD, and_self, decide_true, if_true, absMode0, hNn, hoffN, htake]
          obtain ⟨ho1, ho2⟩ := hos.openMmap (w (growSizeNat g.curSz.toNat n))
          have hne : ((os.openMmap (w (growSizeNat g.curSz.toNat n))).snd != Err.nil &&
              (os.openMmap (w (growSizeNat g.curSz.toNat n))).snd != Err.newFile) = false := by
            rcases ho2 with e | e <;> rw [e] <;> rfl
          simp only [hos.createTemp, bne_self_eq_false, Bool.false_eq_true, if_false, hne, ho1, hNn, hsl,
            Option.bind_some, copy_fresh _ _ _ hoffN, BitVec.ofNat_toNat, BitVec.setWidth_eq, beq_self_eq_true,
            Gen.Buf.guard, if_true]
          refine agree_ok ⟨?_, ⟨rfl, ?_, Or.inr ⟨rfl, rfl⟩, ?_⟩⟩
          · simp only [abs, absMode1, hNn, hbuf]
          · simp only [blit_size, zeros_size, hNn]
          · simp only [abs, absMode1, hNn, hbuf]
            exact wf_grown g hw _ hoffN (by omega) _ _ rfl
        · simp only [cD, decide_false, Bool.false_eq_true, if_false, absMode0, hNn, hoffN, htake, if_true]
          rw [hos.calloc, hNi, if_pos (by omega)]
          simp only [hNn, hsl, Option.bind_some, copy_fresh _ _ _ hoffN, BitVec.ofNat_toNat, BitVec.setWidth_eq,
            beq_self_eq_true, Gen.Buf.guard, if_true]
          refine agree_ok ⟨?_, ⟨rfl, ?_, Or.inl rfl, ?_⟩⟩
          · simp only [abs, ht, absMode0, hNn, hbuf]
          · simp only [blit_size, zeros_size, hNn]
          · simp only [abs, ht, absMode0, hNn, hbuf]
            exact wf_grown g hw _ hoffN (by omega) _ _ rfl
      · -- mmap
        simp only [ht, Bool.false_eq_true, if_false, beq_self_eq_true, if_true, absMode1, hmm, Gen.Buf.guard,
          Option.bind_some, hos.truncate, bne_self_eq_false, hNn]
        have hbuf : (resize g.buf (growSizeNat g.curSz.toNat n)).toList.take g.offset.toNat = (abs g).data := by
          rw [abs_data]; exact resize_take _ _ _ h.off_le hoffN
        refine agree_ok ⟨?_, ⟨rfl, ?_, Or.inr ⟨rfl, rfl⟩, ?_⟩⟩
        · simp only [abs, absMode1, hNn, hbuf]
        · simp only [resize_size, hNn]
        · simp only [abs, absMode1, hNn, hbuf]
          exact wf_grown g hw _ hoffN (by omega) _ _ rfl
/-- `Grow` by cases: refused (max size) on both sides, or both succeed; with the model's facts. -/
theorem grow_elim (os : OS) (hos : os.Ok) (g : Buffer) (h : GWF g) (n : Nat)
    (hr : (abs g).curSz + (abs g).curSz + n + n < 2 ^ 62) :
    (Grow os g (w n) = none ∧ grow (abs g) n = .error .maxSize ∧ 0 < (abs g).maxSz ∧ (abs g).maxSz < (abs g).offset + n) ∨
    (∃ g', Grow os g (w n) = some g' ∧ grow (abs g) n = .ok (abs g') ∧ GWF g' ∧ GrowOk (abs g) n (abs g')) := by
  have ha := grow_agree os hos g h n hr
  have hc := h.wf.curSmall
  rcases grow_spec (abs g) n h.wf hr with ⟨he, hm⟩ | ⟨b', he, gk⟩
  · left
    rw [he] at ha
    cases hg : Grow os g (w n) with
    | none => exact ⟨rfl, he, hm⟩
    | some g' => rw [hg] at ha; exact absurd ha id
  · right
    rw [he] at ha
    cases hg : Grow os g (w n) with
    | none => rw [hg] at ha; exact absurd ha id
    | some g' =>
      rw [hg] at ha
      obtain ⟨e1, e2⟩ := ha
      subst e1
      exact ⟨g', rfl, he, e2, gk⟩

end RV.TieBuffer
