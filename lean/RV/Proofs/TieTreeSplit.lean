import RV.Proofs.TieTreeSplitPage
/-!
# The tree on flat memory: `Tree.split` (generated whole)

`split(pid)` on a full page: `newNode` hands out page `p`; the words of the upper half of page
`pid` are copied to the front of page `p` (`copy(nn, rightHalf)`), zeroed in page `pid`
(`zeroOut(rightHalf)`), and the two counts are set.  Two pages change, every other page is framed.
-/
namespace RV.TreeFlat
open RV.Tree RV.NodeFlat Gen.TreeM

/-! ## windows that are not whole pages -/

theorem view_any (t : St) (off len ep : Nat) (he : ep = t.epoch) (h : off + len ≤ t.data.size) :
    view t (.win off len ep) = some (page t.data off len) := by
  show (if ep = t.epoch ∧ off + len ≤ t.data.size then some (page t.data off len) else none) = _
  rw [if_pos ⟨he, h⟩]

theorem sub_win (off len ep lo hi : Nat) (h1 : lo ≤ hi) (h2 : hi ≤ len) (h3 : len < 2 ^ 63) :
    sub (.win off len ep) (w lo) (w hi) = some (.win (off + lo) (hi - lo) ep) := by
  unfold sub refLen
  rw [w_toInt (by omega), w_toInt (by omega), w_toNat (by omega), w_toNat (by omega)]
  have : (BitVec.ofNat 64 len).toInt = (len : Int) := w_toInt (by omega)
  rw [this, if_pos (by omega)]

/-- a blit that stays inside page `r` is a blit of that page -/
theorem pageOf_blitAt_in {cfg : Cfg} (d src : Words) (r o : Nat) (hfit : (r + 1) * pw cfg ≤ d.size)
    (hin : o + src.size ≤ pw cfg) :
    pageOf cfg (blitAt d (r * pw cfg + o) src) r = blitAt (pageOf cfg d r) o src := by
  have e := succ_mul_pw cfg r
  apply words_ext
  · rw [pageOf_size _ _ (by rw [blitAt_size]; exact hfit), blitAt_size, pageOf_size _ _ hfit]
  · intro i hi
    rw [pageOf_size _ _ (by rw [blitAt_size]; exact hfit)] at hi
    rw [pageOf_get _ _ _ (by rw [blitAt_size]; exact hfit) hi, blitAt_get _ _ _ _ (by omega),
      blitAt_get _ _ _ _ (by rw [pageOf_size _ _ hfit]; omega), pageOf_get _ _ _ hfit hi]
    by_cases h : o ≤ i ∧ i < o + src.size
    · rw [if_pos (by omega), if_pos h]; congr 1; omega
    · rw [if_neg (by omega), if_neg h]

/-- … and leaves every other page alone -/
theorem pageOf_blitAt_out {cfg : Cfg} (d src : Words) (r r' o : Nat) (hne : r' ≠ r) (hfit : (r + 1) * pw cfg ≤ d.size)
    (hfit' : (r' + 1) * pw cfg ≤ d.size) (hin : o + src.size ≤ pw cfg) :
    pageOf cfg (blitAt d (r * pw cfg + o) src) r' = pageOf cfg d r' := by
  have e := succ_mul_pw cfg r
  have e' := succ_mul_pw cfg r'
  apply words_ext
  · rw [pageOf_size _ _ (by rw [blitAt_size]; exact hfit'), pageOf_size _ _ hfit']
  · intro i hi
    rw [pageOf_size _ _ (by rw [blitAt_size]; exact hfit')] at hi
    rw [pageOf_get _ _ _ (by rw [blitAt_size]; exact hfit') hi, blitAt_get _ _ _ _ (by omega),
      pageOf_get _ _ _ hfit' hi, if_neg]
    rcases Nat.lt_or_gt_of_ne hne with h | h
    · have : (r' + 1) * pw cfg ≤ r * pw cfg := Nat.mul_le_mul_right _ h
      omega
    · have : (r + 1) * pw cfg ≤ r' * pw cfg := Nat.mul_le_mul_right _ h
      omega

theorem zeroOut_any (pg : Words) (h63 : pg.size < 2 ^ 63) :
    Gen.Node.zeroOut pg = some (Array.replicate pg.size 0#64) := by
  obtain ⟨d', h1, h2, h3⟩ := zeroOut_w pg h63
  rw [h1]; congr 1
  apply words_ext
  · rw [h2]; simp
  · intro i hi
    rw [h3 i (by omega), getElem!_pos _ i (by simp; omega)]; simp

/-! ## the part of `split` behind `newNode` -/

def splitTail (pageSize maxKeys pid : BitVec 64) (t_5 : St) (nn_7 : NodeRef) : Option (St × NodeRef) :=
  (node pageSize maxKeys t_5 pid).bind fun w_8 =>
  let n_9 : NodeRef := w_8
  (Gen.TreeM.sub n_9 (Gen.Tree.keyOffset (BitVec.sdiv maxKeys 2#64)) (Gen.Tree.keyOffset maxKeys)).bind fun w_10 =>
  let rightHalf_11 : NodeRef := w_10
  (Gen.TreeM.copyRef t_5 nn_7 rightHalf_11).bind fun t_12 =>
  (Gen.TreeM.wrNode t_12 nn_7 (fun p => Gen.Node.setNumKeys p maxKeys (maxKeys - (BitVec.sdiv maxKeys 2#64)))).bind fun t_13 =>
  (Gen.TreeM.wrNode t_13 rightHalf_11 (fun p => Gen.Node.zeroOut p)).bind fun t_14 =>
  (Gen.TreeM.wrNode t_14 n_9 (fun p => Gen.Node.setNumKeys p maxKeys (BitVec.sdiv maxKeys 2#64))).bind fun t_15 =>
  some (t_15, nn_7)

theorem split_unfold (pageSize maxKeys : BitVec 64) (t : St) (pid : BitVec 64) :
    split pageSize maxKeys t pid =
      (node pageSize maxKeys t pid).bind fun n_2 =>
      (rdNode t n_2 (fun p => Gen.Node.isFull p maxKeys)).bind fun x_3 =>
      if (!x_3) then none else
      (rdNode t n_2 (fun p => Gen.Node.bits p maxKeys)).bind fun x_4 =>
      (newNode pageSize maxKeys t x_4).bind fun x => splitTail pageSize maxKeys pid x.1 x.2 := rfl

/-- what the two pages of a split read as -/
structure SplitPages (cfg : Cfg) (leaf : Bool) (Q : Words) (p : Nat) (Q2 P2 : Words) : Prop where
  sizeQ : Q2.size = pw cfg
  sizeP : P2.size = pw cfg
  okQ : PageOk cfg.maxKeys Q2
  okP : PageOk cfg.maxKeys P2
  entsQ : ents cfg.maxKeys Q2 = (ents cfg.maxKeys Q).take (cfg.maxKeys / 2)
  entsP : ents cfg.maxKeys P2 = (ents cfg.maxKeys Q).drop (cfg.maxKeys / 2)
  leafQ : leafBit cfg.maxKeys Q2 = leafBit cfg.maxKeys Q
  kindQ : kindBits cfg.maxKeys Q2 = kindBits cfg.maxKeys Q
  pidQ : pidW cfg.maxKeys Q2 = pidW cfg.maxKeys Q
  leafP : leafBit cfg.maxKeys P2 = leaf
  kindP : kindBits cfg.maxKeys P2 = kindOf leaf
  pidP : pidW cfg.maxKeys P2 = w p

theorem splitTail_eq {cfg : Cfg} (hc : CfgFlat cfg) (hmk2 : 2 ≤ cfg.maxKeys) (t5 : St) (hsmall : t5.data.size < 2 ^ 40)
    (q p : Nat) (hq : 0 < q) (hqp : q ≠ p) (hfq : (q + 1) * pw cfg ≤ t5.data.size)
    (hfp : (p + 1) * pw cfg ≤ t5.data.size) (leaf : Bool)
    (hF : FreshPage cfg leaf p (pageOf cfg t5.data p)) (hQ : PageOk cfg.maxKeys (pageOf cfg t5.data q))
    (hfull : nkeys cfg.maxKeys (pageOf cfg t5.data q) = cfg.maxKeys) :
    ∃ d9 Q2 P2, splitTail (w cfg.pageSize) (w cfg.maxKeys) (w q) t5 (refOf cfg t5 p) =
        some ({ t5 with data := d9 }, refOf cfg t5 p) ∧
      d9.size = t5.data.size ∧ pageOf cfg d9 q = Q2 ∧ pageOf cfg d9 p = P2 ∧
      (∀ r, r ≠ q → r ≠ p → (r + 1) * pw cfg ≤ t5.data.size → pageOf cfg d9 r = pageOf cfg t5.data r) ∧
      SplitPages cfg leaf (pageOf cfg t5.data q) p Q2 P2 := by
  have hmk := hc.mkLt
  have hpw := hc.pw_lt
  have hpwd : pw cfg = 2 * (cfg.maxKeys + 1) := rfl
  have eq1 := succ_mul_pw cfg q
  have ep1 := succ_mul_pw cfg p
  generalize hh : cfg.maxKeys / 2 = h
  have hh2 : h ≤ cfg.maxKeys := by omega
  have hsd : BitVec.sdiv (w cfg.maxKeys) 2#64 = w h := by
    apply BitVec.eq_of_toNat_eq
    rw [RV.Tree.sdiv2 (by omega), w_toNat (by omega), hh]
  have hsub : w cfg.maxKeys - w h = w (cfg.maxKeys - h) := by
    apply BitVec.eq_of_toNat_eq
    rw [BitVec.toNat_sub, w_toNat (by omega), w_toNat (by omega), w_toNat (by omega)]; omega
  obtain ⟨Q, hQdef⟩ : ∃ Q, Q = pageOf cfg t5.data q := ⟨_, rfl⟩
  obtain ⟨F, hFdef⟩ : ∃ F, F = pageOf cfg t5.data p := ⟨_, rfl⟩
  rw [← hQdef] at hQ hfull
  rw [← hFdef] at hF
  have hQs : Q.size = pw cfg := by rw [hQdef]; exact pageOf_size _ _ hfq
  have hFs : F.size = pw cfg := by rw [hFdef]; exact pageOf_size _ _ hfp
  -- the source window and its content
  obtain ⟨so, hsodef⟩ : ∃ so, so = q * pw cfg + 2 * h := ⟨_, rfl⟩
  obtain ⟨sl, hsldef⟩ : ∃ sl, sl = 2 * cfg.maxKeys - 2 * h := ⟨_, rfl⟩
  have hso : so + sl ≤ t5.data.size := by omega
  obtain ⟨s, hsdef⟩ : ∃ s, s = page t5.data so sl := ⟨_, rfl⟩
  have hss : s.size = sl := by rw [hsdef]; exact page_size _ _ _ hso
  have hsg : ∀ j, j < sl → s[j]! = Q[2 * h + j]! := by
    intro j hj
    rw [hsdef, page_get _ _ _ _ hso hj, hQdef, pageOf_get _ _ _ hfq (by omega)]
    congr 1; omega
  unfold splitTail
  rw [node_w hc t5 q hq hfq hsmall]
  simp only [Option.bind_some, refOf, keyOffset_w, hsd, hsub]
  rw [sub_win _ _ _ (2 * h) (2 * cfg.maxKeys) (by omega) (by omega) (by omega), ← hsodef, ← hsldef]
  simp only [Option.bind_some]
  -- copy(nn, rightHalf)
  have hcopy : copyRef t5 (.win (p * pw cfg) (pw cfg) t5.epoch) (.win so sl t5.epoch) =
      some { t5 with data := blitAt t5.data (p * pw cfg) s } := by
    unfold copyRef
    rw [view_win t5 p _ rfl hfp, view_any t5 so sl _ rfl hso]
    simp only [Option.bind_some]
    have hk : min (pageOf cfg t5.data p).size (page t5.data so sl).size = sl := by
      rw [pageOf_size _ _ hfp, page_size _ _ _ hso]; omega
    rw [hk, hsdef]
    have : (page t5.data so sl).extract 0 sl = page t5.data so sl := by
      apply words_ext
      · simp [page_size _ _ _ hso]
      · intro i hi
        have hi' : i < sl := by simpa [page_size _ _ _ hso] using hi
        rw [extract_get! _ 0 sl i (by omega) (by rw [page_size _ _ _ hso]; omega)]; simp
    rw [this]
  rw [hcopy]
  simp only [Option.bind_some]
  -- page p after the copy
  obtain ⟨d6, hd6⟩ : ∃ d6, d6 = blitAt t5.data (p * pw cfg) s := ⟨_, rfl⟩
  rw [← hd6]
  have hd6s : d6.size = t5.data.size := by rw [hd6]; exact blitAt_size _ _ _
  have hP1 : pageOf cfg d6 p = blitAt F 0 s := by
    have := pageOf_blitAt_in (cfg := cfg) t5.data s p 0 hfp (by rw [hss]; omega)
    rw [hd6, hFdef]; simpa using this
  have hQ6 : pageOf cfg d6 q = Q := by
    have := pageOf_blitAt_out (cfg := cfg) t5.data s p q 0 hqp hfp hfq (by rw [hss]; omega)
    rw [hd6, hQdef]; simpa using this
  have hP1w : ∀ j, j < 2 * (cfg.maxKeys + 1) →
      (blitAt F 0 s)[j]! = if j < 2 * (cfg.maxKeys - cfg.maxKeys / 2) then Q[2 * (cfg.maxKeys / 2) + j]! else F[j]! := by
    intro j hj
    rw [blitAt_get _ _ _ _ (by rw [hss, hFs]; omega), hss, hh]
    by_cases hlt : j < 2 * (cfg.maxKeys - h)
    · rw [if_pos (by omega), if_pos hlt]
      rw [show j - 0 = j by omega]
      exact hsg j (by omega)
    · rw [if_neg (by omega), if_neg hlt]
  obtain ⟨P2, hP2, hP2s, hP2ok, hP2e, hP2l, hP2k, hP2p⟩ :=
    split_right_page (cfg := cfg) rfl hmk2 hmk Q F (blitAt F 0 s) leaf p hQ hfull hF (blitAt_size _ _ _) hP1w
  rw [hh] at hP2
  rw [wrNode_win (cfg := cfg) { t5 with data := d6 } p t5.epoch rfl (by simp only []; omega) _ P2
    (by simp only []; rw [hP1]; exact hP2) (by omega)]
  simp only [Option.bind_some]
  -- zeroOut(rightHalf)
  obtain ⟨d7, hd7⟩ : ∃ d7, d7 = setPage cfg d6 p P2 := ⟨_, rfl⟩
  rw [← hd7]
  have hd7s : d7.size = t5.data.size := by rw [hd7, setPage_size]; exact hd6s
  have hQ7 : pageOf cfg d7 q = Q := by
    rw [hd7, pageOf_setPage_ne _ _ _ _ hqp (by omega) (by omega) (by omega)]; exact hQ6
  have hzero : wrNode { t5 with data := d7 } (.win so sl t5.epoch) (fun p => Gen.Node.zeroOut p) =
      some { t5 with data := blitAt d7 so (Array.replicate sl 0#64) } := by
    unfold wrNode
    rw [view_any _ so sl _ rfl (by simp only []; omega)]
    simp only [Option.bind_some]
    rw [zeroOut_any _ (by rw [page_size _ _ _ (by omega)]; omega)]
    simp only [Option.bind_some, page_size _ _ _ (show so + sl ≤ d7.size by omega)]
    unfold putBack
    simp
  rw [hzero]
  simp only [Option.bind_some]
  obtain ⟨d8, hd8⟩ : ∃ d8, d8 = blitAt d7 so (Array.replicate sl 0#64) := ⟨_, rfl⟩
  rw [← hd8]
  have hd8s : d8.size = t5.data.size := by rw [hd8, blitAt_size]; exact hd7s
  have hzs : (Array.replicate sl (0#64 : BitVec 64)).size = sl := by simp
  have hQ1 : pageOf cfg d8 q = blitAt Q (2 * h) (Array.replicate sl 0#64) := by
    have := pageOf_blitAt_in (cfg := cfg) d7 (Array.replicate sl 0#64) q (2 * h) (by omega)
      (by rw [hzs]; omega)
    rw [hQ7, ← hsodef, ← hd8] at this; exact this
  have hP8 : pageOf cfg d8 p = P2 := by
    have := pageOf_blitAt_out (cfg := cfg) d7 (Array.replicate sl 0#64) q p (2 * h) (Ne.symm hqp) (by omega) (by omega)
      (by rw [hzs]; omega)
    rw [← hsodef, ← hd8] at this
    rw [this, hd7, pageOf_setPage_self _ _ _ (by omega) (by omega)]
  have hQ1w : ∀ j, j < 2 * (cfg.maxKeys + 1) → (blitAt Q (2 * h) (Array.replicate sl 0#64))[j]! =
      if 2 * (cfg.maxKeys / 2) ≤ j ∧ j < 2 * cfg.maxKeys then 0#64 else Q[j]! := by
    intro j hj
    rw [blitAt_get _ _ _ _ (by rw [hzs, hQs]; omega), hzs, hh]
    by_cases hin : 2 * h ≤ j ∧ j < 2 * cfg.maxKeys
    · rw [if_pos (by omega), if_pos hin]
      rw [getElem!_pos _ _ (by simp; omega)]; simp
    · rw [if_neg (by omega), if_neg hin]
  obtain ⟨Q2, hQ2, hQ2s, hQ2ok, hQ2e, hQ2l, hQ2k, hQ2p⟩ :=
    split_left_page hmk2 hmk Q (blitAt Q (2 * h) (Array.replicate sl 0#64)) hQ hfull (blitAt_size _ _ _) hQ1w
  rw [hh] at hQ2
  rw [wrNode_win (cfg := cfg) { t5 with data := d8 } q t5.epoch rfl (by simp only []; omega) _ Q2
    (by simp only []; rw [hQ1]; exact hQ2) (by omega)]
  simp only [Option.bind_some]
  rw [hQdef] at hQ2l hQ2k hQ2p hQ2e hP2e
  refine ⟨setPage cfg d8 q Q2, Q2, P2, rfl, by rw [setPage_size]; exact hd8s,
    pageOf_setPage_self _ _ _ (by omega) (by omega), ?_, ?_, ?_⟩
  · rw [pageOf_setPage_ne _ _ _ _ (Ne.symm hqp) (by omega) (by omega) (by omega)]; exact hP8
  · intro r hrq hrp hfr
    rw [pageOf_setPage_ne _ _ _ _ hrq (by omega) (by omega) (by omega)]
    have h8 := pageOf_blitAt_out (cfg := cfg) d7 (Array.replicate sl 0#64) q r (2 * h) hrq (by omega) (by omega)
      (by rw [hzs]; omega)
    rw [← hsodef, ← hd8] at h8
    rw [h8, hd7, pageOf_setPage_ne _ _ _ _ hrp (by omega) (by omega) (by omega)]
    have h6 := pageOf_blitAt_out (cfg := cfg) t5.data s p r 0 hrp hfp hfr (by rw [hss]; omega)
    rw [hd6]; simpa using h6
  · exact ⟨by omega, by omega, hQ2ok, hP2ok, hQ2e, hP2e, hQ2l, hQ2k, hQ2p, hP2l, hP2k, hP2p⟩

/-! ## `split` refines the structural split -/

theorem kindWord_of_kind (leaf : Bool) : w (kindOf leaf * 2 ^ 56) = kindWord leaf := by
  cases leaf <;> rfl

/-- what a caller of `split(q)` learns -/
structure SplitOut (cfg : Cfg) (leaf : Bool) (kv : List (Key × Val)) (t : St) (a : Alloc) (q : Nat)
    (t' : St) (p : Nat) (a' : Alloc) : Prop where
  scal : AllocScal t' a'
  chain : FreeChain cfg t'.data a'.free
  left : PageOf cfg t'.data q leaf (splitLeft cfg.maxKeys kv)
  right : PageOf cfg t'.data p leaf (splitRight cfg.maxKeys kv)
  ne : p ≠ q
  grow : t.data.size ≤ t'.data.size
  small : t'.data.size < 2 ^ 40
  frame : ∀ r, r ≠ p → r ≠ q → (r + 1) * pw cfg ≤ t.data.size → pageOf cfg t'.data r = pageOf cfg t.data r
  which : p ∈ a.free ∨ (p = a.nextPage ∧ a'.nextPage = a.nextPage + 1)
  nextMono : a.nextPage ≤ a'.nextPage
  freeSub : ∀ r ∈ a'.free, r ∈ a.free
  notFree : p ∉ a'.free

theorem split_refines {cfg : Cfg} (hc : CfgFlat cfg) (hmk2 : 2 ≤ cfg.maxKeys) (t : St) (a : Alloc)
    (hs : AllocScal t a) (hch : FreeChain cfg t.data a.free) (hnd : a.free.Nodup)
    (hfl : ∀ r ∈ a.free, r < a.nextPage) (hnp : 0 < a.nextPage)
    (hb1 : (a.nextPage + 1) * pw cfg < 2 ^ 40) (hb2 : t.data.size < 2 ^ 40)
    (q : Nat) (leaf : Bool) (kv : List (Key × Val)) (hq : PageOf cfg t.data q leaf kv)
    (hfull : kv.length = cfg.maxKeys) (hqfree : q ∉ a.free) (hqlt : q < a.nextPage) :
    ∃ t', split (w cfg.pageSize) (w cfg.maxKeys) t (w q) = some (t', refOf cfg t' (RV.Tree.newNode cfg a).1) ∧
      SplitOut cfg leaf kv t a q t' (RV.Tree.newNode cfg a).1 (RV.Tree.newNode cfg a).2 := by
  have hmk := hc.mkLt
  have hpw := hc.pw_lt
  have hsz := hq.ok.1
  rw [split_unfold, node_w hc t q hq.pos hq.fit hb2]
  simp only [Option.bind_some]
  have hnk : nkeys cfg.maxKeys (pageOf cfg t.data q) = cfg.maxKeys := by rw [← ents_length, hq.ents, hfull]
  rw [rdNode_refOf t q hq.fit, isFull_w hsz (by omega) (by omega), hnk]
  simp only [Option.bind_some, decide_true, Bool.not_true, Bool.false_eq_true, if_false]
  rw [rdNode_refOf t q hq.fit, bits_w hsz (by omega), hq.kind, kindWord_of_kind]
  simp only [Option.bind_some]
  obtain ⟨t5, h5, o5⟩ := newNode_refines hc t a hs hch hnd hfl hnp hb1 hb2 leaf
  rw [h5]
  simp only [Option.bind_some]
  obtain ⟨p, hpdef⟩ : ∃ p, p = (RV.Tree.newNode cfg a).1 := ⟨_, rfl⟩
  rw [← hpdef] at o5 ⊢
  have hqp : q ≠ p := by
    rcases o5.which with h | ⟨h, _⟩
    · intro e; exact hqfree (e ▸ h)
    · omega
  have hQ5 : pageOf cfg t5.data q = pageOf cfg t.data q := o5.frame q hqp hq.fit
  have hfq5 : (q + 1) * pw cfg ≤ t5.data.size := by have := o5.grow; have := hq.fit; omega
  obtain ⟨d9, Q2, P2, htail, hd9s, hQ9, hP9, hframe, sp⟩ :=
    splitTail_eq hc hmk2 t5 o5.small q p hq.pos hqp hfq5 o5.fit leaf o5.fresh (by rw [hQ5]; exact hq.ok)
      (by rw [hQ5]; exact hnk)
  rw [htail]
  refine ⟨_, rfl, ?_⟩
  rw [hQ5] at sp
  have hframe' : ∀ r, r ≠ p → r ≠ q → (r + 1) * pw cfg ≤ t.data.size → pageOf cfg d9 r = pageOf cfg t.data r := by
    intro r hrp hrq hfr
    rw [hframe r hrq hrp (by have := o5.grow; omega)]
    exact o5.frame r hrp hfr
  refine ⟨⟨o5.scal.nextPage, o5.scal.freePage, o5.scal.leafKeys, o5.scal.pagesFree, ?_, o5.scal.curSz,
      o5.scal.bufOffset, o5.scal.fault⟩, ?_, ?_, ?_, Ne.symm hqp, ?_, ?_, hframe', o5.which, o5.nextMono,
      o5.freeSub, o5.notFree⟩
  · simp only []; rw [hd9s]; exact o5.scal.dataLen
  · simp only []
    refine freeChain_frame (by omega) _ (fun r hr hfr => ?_) o5.chain
    have hrp : r ≠ p := fun e => o5.notFree (e ▸ hr)
    have hrq : r ≠ q := fun e => hqfree (o5.freeSub r hr |> (e ▸ ·))
    exact hframe r hrq hrp hfr
  · simp only []
    refine ⟨hq.pos, by omega, ?_, ?_, ?_, ?_, ?_⟩
    · rw [hQ9]; exact sp.okQ
    · rw [hQ9, sp.leafQ]; exact hq.isLeaf
    · rw [hQ9, sp.kindQ]; exact hq.kind
    · rw [hQ9, sp.pidQ]; exact hq.pid
    · rw [hQ9, sp.entsQ, hq.ents, splitLeft_eq _ (by omega)]
  · simp only []
    refine ⟨o5.pos, by have := o5.fit; omega, ?_, ?_, ?_, ?_, ?_⟩
    · rw [hP9]; exact sp.okP
    · rw [hP9]; exact sp.leafP
    · rw [hP9]; exact sp.kindP
    · rw [hP9]; exact sp.pidP
    · rw [hP9, sp.entsP, hq.ents, splitRight_eq _ (by omega) hfull]
  · simp only []; rw [hd9s]; exact o5.grow
  · simp only []; rw [hd9s]; exact o5.small

/-! ## in terms of the structural model -/

theorem reprEnts_take {cfg : Cfg} {d : Words} : ∀ (es : List (Key × Node)) (n : Nat),
    ReprEnts cfg d es → ReprEnts cfg d (es.take n)
  | [], n, _ => by simp [ReprEnts]
  | _ :: _, 0, _ => by simp [ReprEnts]
  | (k, c) :: rest, n + 1, h => by
    rw [ReprEnts] at h
    rw [List.take_succ_cons, ReprEnts]
    exact ⟨h.1, reprEnts_take rest n h.2⟩

theorem reprEnts_drop {cfg : Cfg} {d : Words} : ∀ (es : List (Key × Node)) (n : Nat),
    ReprEnts cfg d es → ReprEnts cfg d (es.drop n)
  | [], n, _ => by simp [ReprEnts]
  | _ :: _, 0, h => by simpa using h
  | (k, c) :: rest, n + 1, h => by
    rw [ReprEnts] at h
    rw [List.drop_succ_cons]
    exact reprEnts_drop rest n h.2

theorem entWords_splitLeft (mk : Nat) (es : List (Key × Node)) :
    splitLeft mk (entWords es) = entWords (splitLeft mk es) := by
  simp only [splitLeft, entWords_eq_mapV, mapV_take]

theorem entWords_splitRight (mk : Nat) (es : List (Key × Node)) :
    splitRight mk (entWords es) = entWords (splitRight mk es) := by
  simp only [splitRight, entWords_eq_mapV, mapV_take, mapV_drop]

/-- `Tree.split` on the page of a full structural node: the generated function returns the window of
the page the structural `splitNode` allocates, and both halves are represented afterwards. -/
theorem splitNode_refines {cfg : Cfg} (hc : CfgFlat cfg) (hmk2 : 2 ≤ cfg.maxKeys) (t : St) (a : Alloc)
    (hs : AllocScal t a) (hch : FreeChain cfg t.data a.free) (hnd : a.free.Nodup)
    (hfl : ∀ r ∈ a.free, r < a.nextPage) (hnp : 0 < a.nextPage)
    (hb1 : (a.nextPage + 1) * pw cfg < 2 ^ 40) (hb2 : t.data.size < 2 ^ 40)
    (c : Node) (hc0 : c ≠ .null) (hr : TreeFlat.Repr cfg t.data c) (hfull : c.len = cfg.maxKeys)
    (hpn : (pids c).Nodup) (hlive : ∀ r ∈ pids c, r ∉ a.free ∧ r < a.nextPage) :
    ∃ t', split (w cfg.pageSize) (w cfg.maxKeys) t (w c.pid) =
        some (t', refOf cfg t' (splitNode cfg c a).2.1.pid) ∧
      TreeFlat.Repr cfg t'.data (splitNode cfg c a).1 ∧ TreeFlat.Repr cfg t'.data (splitNode cfg c a).2.1 ∧
      AllocScal t' (splitNode cfg c a).2.2 ∧ FreeChain cfg t'.data (splitNode cfg c a).2.2.free ∧
      t.data.size ≤ t'.data.size ∧ t'.data.size < 2 ^ 40 ∧
      (∀ r, r ≠ (splitNode cfg c a).2.1.pid → r ≠ c.pid → (r + 1) * pw cfg ≤ t.data.size →
        pageOf cfg t'.data r = pageOf cfg t.data r) := by
  have hmk := hc.mkLt
  cases c with
  | null => exact absurd rfl hc0
  | leaf q es =>
    have hq := repr_leaf hr
    have hl := hlive q (by simp [pids])
    obtain ⟨t', h1, o⟩ := split_refines hc hmk2 t a hs hch hnd hfl hnp hb1 hb2 q true es hq
      (by simpa [Node.len] using hfull) hl.1 hl.2
    refine ⟨t', ?_, ?_, ?_, ?_, ?_, o.grow, o.small, ?_⟩
    · simpa [splitNode, Node.pid] using h1
    · simp only [splitNode]; rw [TreeFlat.Repr]; exact o.left
    · simp only [splitNode]; rw [TreeFlat.Repr]; exact o.right
    · simpa [splitNode] using o.scal
    · simpa [splitNode] using o.chain
    · simpa [splitNode, Node.pid] using o.frame
  | inner q es =>
    obtain ⟨hq, hre⟩ := repr_inner hr
    have hl := hlive q (by simp [pids])
    have hlen : (entWords es).length = cfg.maxKeys := by rw [entWords_length]; simpa [Node.len] using hfull
    obtain ⟨t', h1, o⟩ := split_refines hc hmk2 t a hs hch hnd hfl hnp hb1 hb2 q false (entWords es) hq hlen hl.1 hl.2
    -- the children are untouched
    have hchild : ReprEnts cfg t'.data es := by
      refine reprEnts_frame o.grow es (fun r hrm hfr => ?_) hre
      have hrl := hlive r (by simp [pids, hrm])
      have hrq : r ≠ q := by
        intro e; rw [e] at hrm
        simp only [pids, List.nodup_cons] at hpn; exact hpn.1 hrm
      have hrp : r ≠ (RV.Tree.newNode cfg a).1 := by
        rcases o.which with h | ⟨h, _⟩
        · intro e; exact hrl.1 (e ▸ h)
        · omega
      exact o.frame r hrp hrq hfr
    refine ⟨t', ?_, ?_, ?_, ?_, ?_, o.grow, o.small, ?_⟩
    · simpa [splitNode, Node.pid] using h1
    · simp only [splitNode]; rw [TreeFlat.Repr]
      refine ⟨by rw [← entWords_splitLeft]; exact o.left, ?_⟩
      unfold splitLeft; exact reprEnts_take _ _ (reprEnts_take _ _ hchild)
    · simp only [splitNode]; rw [TreeFlat.Repr]
      refine ⟨by rw [← entWords_splitRight]; exact o.right, ?_⟩
      unfold splitRight; exact reprEnts_take _ _ (reprEnts_drop _ _ hchild)
    · simpa [splitNode] using o.scal
    · simpa [splitNode] using o.chain
    · simpa [splitNode, Node.pid] using o.frame

end RV.TreeFlat
