import RV.Proofs.RingBasic
/-!
The shape invariant of the exact ring model: every stripe of the pool holds fewer than `capaN`
keys, its ghost history is the concatenation of the batches it handed over plus its present
content, and every batch anywhere (handed over, in `itemsCh`, held by the policy goroutine) has
exactly `capaN` keys.
-/
namespace RV.Ring
open Gen.Ring

/-- what holds of every stripe of a ring buffer created with capacity word `c` -/
structure StripeOK (c : BitVec 64) (st : Stripe) : Prop where
  capa : st.capa = c
  len : st.data.length < capaN c
  hist : st.hist = st.out.flatten ++ st.data
  out : ∀ b ∈ st.out, b.length = capaN c

structure Shape (s : Sys) : Prop where
  pool : ∀ st ∈ s.pool, StripeOK (stripeCapa s.capa) st
  handed : ∀ bo ∈ s.handed, bo.1.length = capaN (stripeCapa s.capa) ∧ bo.2 ≠ .empty
  chanLen : s.pol.chan.length ≤ chanCap
  chan : ∀ b ∈ s.pol.chan, b.length = capaN (stripeCapa s.capa)
  held : ∀ b, s.pol.held = some b → b.length = capaN (stripeCapa s.capa)

theorem shape_init (capa : BitVec 64) (m : Bool) (t : RV.TinyLFU.TinyLFU) : Shape (init capa m t) :=
  ⟨by simp [init], by simp [init], by simp [init], by simp [init], by simp [init]⟩

theorem stripeOK_new (capa : BitVec 64) : StripeOK (stripeCapa capa) (Stripe.new capa) :=
  ⟨rfl, by have := capaN_pos (stripeCapa capa); simp only [Stripe.new, List.length_nil]; omega, by simp [Stripe.new],
   by simp [Stripe.new]⟩

theorem shape_withNew {s : Sys} (h : Shape s) : Shape (withNew s) := by
  refine ⟨?_, h.handed, h.chanLen, h.chan, h.held⟩
  intro st hst
  simp only [withNew, List.mem_append, List.mem_singleton] at hst
  rcases hst with hst | rfl
  · exact h.pool st hst
  · exact stripeOK_new s.capa

/-- what a push onto a well-shaped stripe does: it drains iff the key is the `capaN`-th -/
theorem stripe_push_decision {c : BitVec 64} {st : Stripe} (ok : StripeOK c st) (k : Key) :
    stripeFull (st.data ++ [k]).toArray st.capa = decide (st.data.length + 1 = capaN c) := by
  rw [ok.capa]; exact full_iff c st.data k ok.len

theorem shape_pushAt {s s' : Sys} {i : Nat} {k : Key} (h : Shape s) (hp : pushAt s i k = some s') : Shape s' := by
  obtain ⟨st, hst, ⟨hf, rfl⟩ | ⟨hf, rfl⟩⟩ := pushAt_cases hp
  · -- no drain
    have ok := h.pool st (mem_of_getElem? hst)
    rw [stripe_push_decision ok k] at hf
    have hlt : st.data.length + 1 ≠ capaN (stripeCapa s.capa) := by simpa using hf
    show Shape { s with pool := _, pushed := _ }
    refine ⟨?_, h.handed, h.chanLen, h.chan, h.held⟩
    intro x hx
    rcases List.mem_or_eq_of_mem_set hx with hx | rfl
    · exact h.pool x hx
    · refine ⟨ok.capa, ?_, ?_, ok.out⟩
      · have := ok.len; simp only [List.length_append, List.length_singleton]; omega
      · simp only [ok.hist, List.append_assoc]
  · -- drain
    have ok := h.pool st (mem_of_getElem? hst)
    rw [stripe_push_decision ok k] at hf
    have hlen : st.data.length + 1 = capaN (stripeCapa s.capa) := by simpa using hf
    have hblen : (st.data ++ [k]).length = capaN (stripeCapa s.capa) := by simpa using hlen
    have hlt := capaN_lt (stripeCapa s.capa)
    have hne : pushEmpty (st.data ++ [k]).toArray = false :=
      pushEmpty_false _ (by rw [hblen]; exact capaN_pos _) (by rw [hblen]; omega)
    have hcapa : (afterDrain s i st k (s.pol.push (st.data ++ [k]))).capa = s.capa := rfl
    refine ⟨?_, ?_, ?_, ?_, ?_⟩ <;> (try rw [hcapa])
    · intro x hx
      rcases List.mem_or_eq_of_mem_set hx with hx | rfl
      · exact h.pool x hx
      · refine ⟨ok.capa, ?_, ?_, ?_⟩
        · simp only [resetData_nil]; exact capaN_pos _
        · simp only [resetData_nil, ok.hist, List.flatten_append, List.flatten_cons, List.flatten_nil,
            List.append_nil, List.append_assoc]
        · intro b hb
          simp only [List.mem_append, List.mem_singleton] at hb
          rcases hb with hb | rfl
          · exact ok.out b hb
          · exact hblen
    · intro bo hbo
      simp only [afterDrain, List.mem_append, List.mem_singleton] at hbo
      rcases hbo with hbo | rfl
      · exact h.handed bo hbo
      · refine ⟨hblen, ?_⟩
        rcases Pol.push_cases s.pol (st.data ++ [k]) with ⟨_, e⟩ | ⟨_, he, _⟩ | ⟨_, _, _, e⟩ | ⟨_, _, _, e⟩
        · simp [e]
        · rw [hne] at he; cases he
        · simp [e]
        · simp [e]
    · rcases Pol.push_cases s.pol (st.data ++ [k]) with ⟨_, e⟩ | ⟨_, he, _⟩ | ⟨_, _, hl, e⟩ | ⟨_, _, _, e⟩
      · simpa [afterDrain, e] using h.chanLen
      · rw [hne] at he; cases he
      · simp only [afterDrain, e, addKeep_chan, List.length_append, List.length_singleton]; omega
      · simpa [afterDrain, e] using h.chanLen
    · intro b hb
      rcases Pol.push_cases s.pol (st.data ++ [k]) with ⟨_, e⟩ | ⟨_, he, _⟩ | ⟨_, _, hl, e⟩ | ⟨_, _, _, e⟩
      · simp only [afterDrain, e] at hb; exact h.chan b hb
      · rw [hne] at he; cases he
      · simp only [afterDrain, e, addKeep_chan, List.mem_append, List.mem_singleton] at hb
        rcases hb with hb | rfl
        · exact h.chan b hb
        · exact hblen
      · simp only [afterDrain, e, addDrop_chan] at hb; exact h.chan b hb
    · intro b hb
      rcases Pol.push_cases s.pol (st.data ++ [k]) with ⟨_, e⟩ | ⟨_, he, _⟩ | ⟨_, _, hl, e⟩ | ⟨_, _, _, e⟩
      · simp only [afterDrain, e] at hb; exact h.held b hb
      · rw [hne] at he; cases he
      · simp only [afterDrain, e, addKeep_held] at hb; exact h.held b hb
      · simp only [afterDrain, e, addDrop_held] at hb; exact h.held b hb

theorem shape_step {s s' : Sys} {a : Act} (h : Shape s) (hs : step s a = some s') : Shape s' := by
  cases a with
  | push i k => exact shape_pushAt h hs
  | pushNew k => rw [step_pushNew] at hs; exact shape_pushAt (shape_withNew h) hs
  | lose i =>
    simp only [step] at hs
    cases hp : s.pool[i]? with
    | none => simp [hp] at hs
    | some st =>
      simp only [hp, Option.some.injEq] at hs; subst hs
      exact ⟨fun x hx => h.pool x (List.mem_of_mem_eraseIdx hx), h.handed, h.chanLen, h.chan, h.held⟩
  | recv =>
    simp only [step] at hs
    split at hs
    · cases hc : s.pol.chan with
      | nil => simp [hc] at hs
      | cons b rest =>
        simp only [hc, Option.some.injEq] at hs; subst hs
        have hl := h.chanLen; rw [hc] at hl
        refine ⟨h.pool, h.handed, ?_, ?_, ?_⟩
        · simp only [List.length_cons] at hl ⊢; omega
        · intro x hx; exact h.chan x (by rw [hc]; exact List.mem_cons_of_mem _ hx)
        · intro x hx
          simp only [Option.some.injEq] at hx; subst hx
          exact h.chan _ (by rw [hc]; exact List.mem_cons_self)
    · cases hs
  | apply =>
    simp only [step] at hs
    cases hh : s.pol.held with
    | none => simp [hh] at hs
    | some b =>
      simp only [hh, Option.some.injEq] at hs; subst hs
      exact ⟨h.pool, h.handed, h.chanLen, h.chan, by simp⟩
  | stop =>
    simp only [step] at hs
    split at hs
    · simp only [Option.some.injEq] at hs; subst hs
      exact ⟨h.pool, h.handed, h.chanLen, h.chan, h.held⟩
    · cases hs
  | close =>
    simp only [step] at hs
    split at hs
    · simp only [Option.some.injEq] at hs; subst hs
      exact ⟨h.pool, h.handed, h.chanLen, h.chan, h.held⟩
    · cases hs
  | polClear =>
    simp only [step, Option.some.injEq] at hs; subst hs
    exact ⟨h.pool, h.handed, h.chanLen, h.chan, h.held⟩
  | metClear =>
    simp only [step, Option.some.injEq] at hs; subst hs
    exact ⟨h.pool, h.handed, h.chanLen, h.chan, h.held⟩

theorem step_capa {s s' : Sys} {a : Act} (hs : step s a = some s') : s'.capa = s.capa := by
  have push : ∀ {s s' : Sys} {i k}, pushAt s i k = some s' → s'.capa = s.capa := by
    intro s s' i k hp
    obtain ⟨st, _, ⟨_, rfl⟩ | ⟨_, rfl⟩⟩ := pushAt_cases hp <;> rfl
  cases a with
  | push i k => exact push hs
  | pushNew k => rw [step_pushNew] at hs; have := push hs; exact this
  | lose i =>
    simp only [step] at hs
    cases hp : s.pool[i]? with
    | none => simp [hp] at hs
    | some st => simp only [hp, Option.some.injEq] at hs; subst hs; rfl
  | recv =>
    simp only [step] at hs
    split at hs
    · cases hc : s.pol.chan with
      | nil => simp [hc] at hs
      | cons b rest => simp only [hc, Option.some.injEq] at hs; subst hs; rfl
    · cases hs
  | apply =>
    simp only [step] at hs
    cases hh : s.pol.held with
    | none => simp [hh] at hs
    | some b => simp only [hh, Option.some.injEq] at hs; subst hs; rfl
  | stop =>
    simp only [step] at hs
    split at hs
    · simp only [Option.some.injEq] at hs; subst hs; rfl
    · cases hs
  | close =>
    simp only [step] at hs
    split at hs
    · simp only [Option.some.injEq] at hs; subst hs; rfl
    · cases hs
  | polClear => simp only [step, Option.some.injEq] at hs; subst hs; rfl
  | metClear => simp only [step, Option.some.injEq] at hs; subst hs; rfl

end RV.Ring
