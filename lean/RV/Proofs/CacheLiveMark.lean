import RV.Proofs.CacheLiveQueue
/-!
# Marker discipline `MarkInv`: every `Wait` marker is closed at most once

Each marker id occurs at most once in (channel ++ applier ++ closed set), and only ids below
`nextMarker` occur.  Consequences: `closedMarkers` is duplicate-free, a marker that is still
in the channel or in the applier's hands has not been closed (so `close(i.wait)` never
closes a closed channel).
-/
namespace RV.Cache
open Gen.Cache

def markers : List BufElem → List Nat
  | [] => []
  | .marker id :: l => id :: markers l
  | .item _ :: l => markers l

theorem markers_append (l1 l2 : List BufElem) : markers (l1 ++ l2) = markers l1 ++ markers l2 := by
  induction l1 with
  | nil => rfl
  | cons x l ih => cases x <;> simp [markers, ih]

theorem mem_markers {l : List BufElem} {id : Nat} : id ∈ markers l ↔ .marker id ∈ l := by
  induction l with
  | nil => simp [markers]
  | cons x l ih => cases x <;> simp [markers, ih]

def appCount (a : APc) (id : Nat) : Nat := if a.marker? = some id then 1 else 0

/-- number of occurrences of marker `id` in the channel, the applier and the closed set -/
def mcount (s : State) (id : Nat) : Nat :=
  (markers (chan s)).count id + appCount s.app id + s.closedMarkers.count id

structure MarkInv (s : State) : Prop where
  le1 : ∀ id, mcount s id ≤ 1
  lt : ∀ id, 1 ≤ mcount s id → id < s.nextMarker

theorem mark_of_eq {s s' : State} (h : MarkInv s) (hc : ∀ id, mcount s' id = mcount s id)
    (hn : s'.nextMarker = s.nextMarker) : MarkInv s' :=
  ⟨fun id => by rw [hc]; exact h.le1 id, fun id hid => by rw [hn]; rw [hc] at hid; exact h.lt id hid⟩

theorem mcount_frame {s s' : State} (hbuf : s'.buf = s.buf) (hq : s'.sendq = s.sendq)
    (hcm : s'.closedMarkers = s.closedMarkers) (happ : s'.app.marker? = s.app.marker?) (id : Nat) :
    mcount s' id = mcount s id := by
  simp [mcount, chan, hbuf, hq, hcm, appCount, happ]

theorem mcount_chan_item {s s' : State} {i : Item} (hchan : chan s' = chan s ++ [.item i])
    (hcm : s'.closedMarkers = s.closedMarkers) (happ : s'.app = s.app) (id : Nat) :
    mcount s' id = mcount s id := by
  simp [mcount, hchan, hcm, happ, markers_append, markers]

/-- receive of the head of the channel; the head goes to the applier (`toApp`) or, if it is
a marker, may be closed at once (`Clear`'s drain) -/
theorem mcount_recv {s s' : State} {x : BufElem} (hchan : chan s = x :: chan s')
    (h0 : s.app.marker? = none)
    (hcase : (∃ i, x = .item i ∧ s'.app.marker? = none ∧ s'.closedMarkers = s.closedMarkers) ∨
      (∃ id0, x = .marker id0 ∧
        ((s'.app = .marker id0 ∧ s'.closedMarkers = s.closedMarkers) ∨
         (s'.app.marker? = none ∧ s'.closedMarkers = id0 :: s.closedMarkers)))) (id : Nat) :
    mcount s' id = mcount s id := by
  rcases hcase with ⟨i, rfl, h1, h2⟩ | ⟨id0, rfl, (⟨h1, h2⟩ | ⟨h1, h2⟩)⟩
  · simp [mcount, hchan, markers, appCount, h0, h1, h2]
  · have h1' : s'.app.marker? = some id0 := by rw [h1]; rfl
    simp only [mcount, hchan, markers, appCount, h0, h1', h2, List.count_cons]
    by_cases e : id0 = id <;> simp [e]
  · simp only [mcount, hchan, markers, appCount, h0, h1, h2, List.count_cons]
    by_cases e : id0 = id <;> simp [e] <;> omega

theorem chan_sendBlocking (cfg : Cfg) (s : State) (t : Tid) (e : BufElem) (a b : CPc) :
    chan (sendBlocking cfg s t e a b) = chan s ++ [e] := by
  rcases sendBlocking_cases cfg s t e a b with ⟨_, h2, he⟩ | ⟨_, he⟩ <;> rw [he]
  · simp [chan, h2]
  · simp [chan]

theorem sendBlocking_app_lv (cfg : Cfg) (s : State) (t : Tid) (e : BufElem) (a b : CPc) :
    (sendBlocking cfg s t e a b).app = s.app := by
  unfold sendBlocking; split <;> rfl
theorem sendBlocking_closedMarkers (cfg : Cfg) (s : State) (t : Tid) (e : BufElem) (a b : CPc) :
    (sendBlocking cfg s t e a b).closedMarkers = s.closedMarkers := by
  unfold sendBlocking; split <;> rfl
theorem sendBlocking_nextMarker (cfg : Cfg) (s : State) (t : Tid) (e : BufElem) (a b : CPc) :
    (sendBlocking cfg s t e a b).nextMarker = s.nextMarker := by
  unfold sendBlocking; split <;> rfl

theorem mark_init (cfg : Cfg) (now : Time) : MarkInv (init cfg now) := by
  constructor <;> intro id <;> simp [mcount, chan, init, markers, appCount, APc.marker?]

/-- Every step leaves all marker counts unchanged, except `Wait`'s send, which adds the fresh
marker `nextMarker` once. -/
theorem mcount_step {cfg : Cfg} {s s' : State} {a : Action} (hh : Handshake s)
    (hs : step cfg s a = some s') :
    ((∀ id, mcount s' id = mcount s id) ∧ s'.nextMarker = s.nextMarker) ∨
    ((∀ id, mcount s' id = mcount s id + (if s.nextMarker = id then 1 else 0)) ∧
      s'.nextMarker = s.nextMarker + 1) := by
  cases a with
  | spawn t0 c =>
    have hs' : spawnStep s t0 c = some s' := hs
    exact Or.inl ⟨mcount_frame (spawnStep_buf _ _ _ hs') (spawnStep_sendq _ _ _ hs')
      (spawnStep_closedMarkers _ _ _ hs') (by rw [spawnStep_app _ _ _ hs']), (spawnStep_nextMarker _ _ _ hs')⟩
  | tick d =>
    simp only [step, Option.some.injEq] at hs; subst hs
    exact Or.inl ⟨mcount_frame rfl rfl rfl rfl, rfl⟩
  | done t0 =>
    have hs' : doneStep s t0 = some s' := hs
    obtain ⟨happ0, happ1, _⟩ := done_shape hs'
    exact Or.inl ⟨mcount_frame (doneStep_buf _ _ hs') (doneStep_sendq _ _ hs')
      (doneStep_closedMarkers _ _ hs') (by rw [happ0, happ1]; rfl), (doneStep_nextMarker _ _ hs')⟩
  | applier ch =>
    have hs' : applierStep cfg s ch = some s' := hs
    rcases applier_shape hs' with hp | hsp
    · exact Or.inl ⟨mcount_frame hp.buf hp.sendq hp.closedMarkers (by rw [hp.mk0, hp.mk1]), hp.nextMarker⟩
    · cases hsp with
      | selItem hidle hr =>
        obtain ⟨x, s1, hrecv, _, hbuf, hq, hcm, hnm, _, hx⟩ := selItem_shape hr
        have hchan : chan s = x :: chan s' := by rw [chan_recv hrecv]; simp [chan, hbuf, hq]
        refine Or.inl ⟨mcount_recv hchan (by rw [hidle]; rfl) ?_, hnm⟩
        rcases hx with ⟨id', e1, e2⟩ | ⟨i, e1, e2⟩
        · exact Or.inr ⟨id', e1, Or.inl ⟨e2, hcm⟩⟩
        · exact Or.inl ⟨i, e1, by rw [e2]; rfl, hcm⟩
      | selStop t0 hidle hr =>
        obtain ⟨happ1, _, _⟩ := selStop_shape hr
        exact Or.inl ⟨mcount_frame (apSelStop_buf _ _ hr) (apSelStop_sendq _ _ hr)
          (apSelStop_closedMarkers _ _ hr) (by rw [hidle, happ1]; rfl), (apSelStop_nextMarker _ _ hr)⟩
      | marker id0 hpc he =>
        subst he
        refine Or.inl ⟨fun id => ?_, rfl⟩
        simp only [mcount, chan, apMarker, appCount, hpc, APc.marker?, List.count_cons]
        by_cases e : id0 = id <;> simp [e] <;> omega
  | client t0 ch =>
    have hs' : clientStep cfg s t0 ch = some s' := hs
    rcases client_shape hs' with hp | hsp
    · exact Or.inl ⟨mcount_frame hp.buf hp.sendq hp.closedMarkers (by rw [hp.app]), hp.nextMarker⟩
    · cases hsp with
      | setSend i hpc he =>
        subst he
        unfold stSetSend
        split
        · rename_i hroom
          exact Or.inl ⟨mcount_chan_item (i := i) (by simp [chan, hroom.2]) rfl rfl, rfl⟩
        · exact Or.inl ⟨mcount_frame rfl rfl rfl rfl, rfl⟩
      | delSend hk c hpc he =>
        subst he
        unfold stDelSend
        exact Or.inl ⟨mcount_chan_item (chan_sendBlocking ..) (sendBlocking_closedMarkers ..)
          (sendBlocking_app_lv ..), (sendBlocking_nextMarker ..)⟩
      | waitSend hpc he =>
        subst he
        unfold stWaitSend
        have hcount : ∀ id, mcount (sendBlocking cfg { s with nextMarker := s.nextMarker + 1 } t0
            (.marker s.nextMarker) (.waitRecv s.nextMarker) (.waitBlocked s.nextMarker)) id =
            mcount s id + (if s.nextMarker = id then 1 else 0) := by
          intro id
          simp only [mcount, chan_sendBlocking, sendBlocking_app_lv, sendBlocking_closedMarkers, markers_append,
            markers, List.count_append, List.count_cons, List.count_nil]
          have : chan { s with nextMarker := s.nextMarker + 1 } = chan s := rfl
          rw [this]
          by_cases e : s.nextMarker = id <;> simp [e] <;> omega
        exact Or.inr ⟨hcount, sendBlocking_nextMarker ..⟩
      | drain c hpc he =>
        subst he
        have hdead : s.app = .dead := hh.busy t0 (by rw [hpc]; rfl)
        rcases drain_shape s t0 c with ⟨_, he⟩ | ⟨x, s1, hrecv, _, hbuf, hq, happ, hnm, _, _, _, _, _, _, hx⟩
        · rw [he]; exact Or.inl ⟨mcount_frame rfl rfl rfl rfl, rfl⟩
        · have hchan : chan s = x :: chan (stClrDrain s t0 c) := by
            rw [chan_recv hrecv]; simp [chan, hbuf, hq]
          refine Or.inl ⟨mcount_recv hchan (by rw [hdead]; rfl) ?_, hnm⟩
          rcases hx with ⟨id', e1, e2, _⟩ | ⟨i, e1, e2, _⟩
          · exact Or.inr ⟨id', e1, Or.inr ⟨by rw [happ, hdead]; rfl, e2⟩⟩
          · exact Or.inl ⟨i, e1, by rw [happ, hdead]; rfl, e2⟩
      | restart c hpc he =>
        subst he
        have hdead : s.app = .dead := hh.busy t0 (by rw [hpc]; rfl)
        refine Or.inl ⟨mcount_frame (stClrRestart_buf ..) (stClrRestart_sendq ..)
          (stClrRestart_closedMarkers ..) ?_, stClrRestart_nextMarker ..⟩
        rw [hdead]; unfold stClrRestart; dsimp only; split <;> rfl
      | finish hpc he =>
        subst he
        have hdead : s.app = .dead := hh.busy t0 (by rw [hpc]; rfl)
        exact Or.inl ⟨mcount_frame (stClsFinish_buf ..) (stClsFinish_sendq ..)
          (stClsFinish_closedMarkers ..) (by rw [hdead]; rfl), (stClsFinish_nextMarker ..)⟩

theorem mark_step {cfg : Cfg} {s s' : State} {a : Action} (hh : Handshake s) (h : MarkInv s)
    (hs : step cfg s a = some s') : MarkInv s' := by
  rcases mcount_step hh hs with ⟨hc, hn⟩ | ⟨hc, hn⟩
  · exact mark_of_eq h hc hn
  · have hfresh : mcount s s.nextMarker = 0 := by
      cases hm : mcount s s.nextMarker with
      | zero => rfl
      | succ n => have := h.lt s.nextMarker (by omega); omega
    constructor
    · intro id
      rw [hc]
      by_cases e : s.nextMarker = id
      · subst e; simp [hfresh]
      · simp [e]; exact h.le1 id
    · intro id hid
      rw [hc] at hid
      rw [hn]
      by_cases e : s.nextMarker = id
      · subst e; simp
      · simp [e] at hid; have := h.lt id hid; omega

/-- marker counts never decrease: a marker stays in (channel ∪ applier ∪ closed set) forever -/
theorem mcount_mono {cfg : Cfg} {s s' : State} {a : Action} (hh : Handshake s)
    (hs : step cfg s a = some s') (id : Nat) : mcount s id ≤ mcount s' id := by
  rcases mcount_step hh hs with ⟨hc, _⟩ | ⟨hc, _⟩ <;> rw [hc] <;> omega

theorem mark_reach {cfg : Cfg} {s : State} (h : Reach cfg s) : MarkInv s :=
  Reach.induction (mark_init cfg) (fun _ _ _ hr hp hs => mark_step (handshake_reach hr) hp hs) h

/-! ### consequences -/

theorem closedMarkers_nodup {s : State} (h : MarkInv s) : s.closedMarkers.Nodup := by
  rw [List.nodup_iff_count]
  intro id
  have := h.le1 id
  unfold mcount at this
  omega

/-- a marker that is still in the channel has not been closed -/
theorem chan_marker_not_closed {s : State} (h : MarkInv s) {id : Nat} (hm : .marker id ∈ chan s) :
    id ∉ s.closedMarkers := by
  intro hc
  have h1 : 1 ≤ (markers (chan s)).count id := List.count_pos_iff.mpr (mem_markers.mpr hm)
  have h2 : 1 ≤ s.closedMarkers.count id := List.count_pos_iff.mpr hc
  have := h.le1 id
  unfold mcount at this
  omega

/-- the marker the applier is about to close has not been closed -/
theorem app_marker_not_closed {s : State} (h : MarkInv s) {id : Nat} (hm : s.app = .marker id) :
    id ∉ s.closedMarkers := by
  intro hc
  have h2 : 1 ≤ s.closedMarkers.count id := List.count_pos_iff.mpr hc
  have := h.le1 id
  unfold mcount at this
  simp [appCount, hm, APc.marker?] at this
  omega

/-- the markers in the channel are pairwise distinct -/
theorem chan_markers_nodup {s : State} (h : MarkInv s) : (markers (chan s)).Nodup := by
  rw [List.nodup_iff_count]
  intro id
  have := h.le1 id
  unfold mcount at this
  omega

end RV.Cache
