import RV.Proofs.CacheFrames2
/-!
# C15 `fresh_bisim`: the simulation relation between a cleared cache and a newly created one

Marker ids occur only in `BufElem.marker`, `APc.marker`, `CPc.waitBlocked`, `CPc.waitRecv`,
`nextMarker`, `closedMarkers`; actions, choices and log events carry none.  `BSimL d L₁ L₂ s₁ s₂`
relates a state `s₁` whose marker ids are those of `s₂` shifted by the constant `d`; every other
component is equal, the logs are `evs ++ L₁` and `evs ++ L₂` for a common list `evs` of events
(`LogExt`), and `closedMarkers` agree on the ids `≥ d` (the ids `< d` on the shifted side are
stale: nothing in `s₁` can refer to them).

This file: the shift functions, the relation, the option lifting `OptRel`, and the tactics that
discharge the per-step obligations.
-/
namespace RV.Cache
open Gen.Cache

/-! ### the renaming (shift by `d`) -/

def bsE (d : Nat) : BufElem → BufElem
  | .marker id => .marker (id + d)
  | .item i => .item i

def bsQ (d : Nat) (p : Tid × BufElem) : Tid × BufElem := (p.1, bsE d p.2)

def bsA (d : Nat) : APc → APc
  | .marker id => .marker (id + d)
  | a => a

def bsC (d : Nat) : CPc → CPc
  | .waitBlocked id => .waitBlocked (id + d)
  | .waitRecv id => .waitRecv (id + d)
  | pc => pc

theorem bsC_unblockedPc (d : Nat) (pc : CPc) : bsC d (unblockedPc pc) = unblockedPc (bsC d pc) := by
  cases pc <;> rfl

@[simp] theorem bsE_item (d : Nat) (i : Item) : bsE d (.item i) = .item i := rfl
@[simp] theorem bsE_marker (d id : Nat) : bsE d (.marker id) = .marker (id + d) := rfl

@[simp] theorem bsA_afterVictims (d : Nat) (vs : List (Hash × Int)) : bsA d (afterVictims vs) = afterVictims vs := by
  unfold afterVictims; split <;> rfl

/-! ### common log extension -/

/-- `l₁ = evs ++ L₁` and `l₂ = evs ++ L₂` for the same `evs` -/
inductive LogExt (L₁ L₂ : List Ev) : List Ev → List Ev → Prop
  | refl : LogExt L₁ L₂ L₁ L₂
  | cons (e : Ev) {l₁ l₂ : List Ev} : LogExt L₁ L₂ l₁ l₂ → LogExt L₁ L₂ (e :: l₁) (e :: l₂)

theorem LogExt.exists {L₁ L₂ l₁ l₂ : List Ev} (h : LogExt L₁ L₂ l₁ l₂) :
    ∃ evs, l₁ = evs ++ L₁ ∧ l₂ = evs ++ L₂ := by
  induction h with
  | refl => exact ⟨[], rfl, rfl⟩
  | cons e _ ih =>
    obtain ⟨evs, h1, h2⟩ := ih
    exact ⟨e :: evs, by rw [h1]; rfl, by rw [h2]; rfl⟩

theorem LogExt.of_append {L₁ L₂ : List Ev} (evs : List Ev) : LogExt L₁ L₂ (evs ++ L₁) (evs ++ L₂) := by
  induction evs with
  | nil => exact .refl
  | cons e r ih => exact .cons e ih

theorem LogExt.append {L₁ L₂ l₁ l₂ : List Ev} (evs : List Ev) (h : LogExt L₁ L₂ l₁ l₂) :
    LogExt L₁ L₂ (evs ++ l₁) (evs ++ l₂) := by
  induction evs with
  | nil => exact h
  | cons e r ih => exact .cons e ih

/-! ### the relation -/

/-- `s₁` is `s₂` with every marker id shifted by `d`; logs extend `L₁` / `L₂` by the same events. -/
structure BSimL (d : Nat) (L₁ L₂ : List Ev) (s₁ s₂ : State) : Prop where
  store : s₁.store = s₂.store
  em : s₁.em = s₂.em
  pol : s₁.pol = s₂.pol
  met : s₁.met = s₂.met
  buf : s₁.buf = s₂.buf.map (bsE d)
  sendq : s₁.sendq = s₂.sendq.map (bsQ d)
  cm : ∀ id, id + d ∈ s₁.closedMarkers ↔ id ∈ s₂.closedMarkers
  nm : s₁.nextMarker = s₂.nextMarker + d
  app : s₁.app = bsA d s₂.app
  cl : ∀ t, s₁.cl t = bsC d (s₂.cl t)
  clock : s₁.clock = s₂.clock
  closed : s₁.closed = s₂.closed
  ring : s₁.ringPending = s₂.ringPending
  log : LogExt L₁ L₂ s₁.log s₂.log

/-- **The simulation relation** (`Sim` of `RV/Props/C15Bisim.lean`): `s₁` is `s₂` with every marker
id shifted by `d`.  Equal: store, expiry index, policy accounting, metrics, clock, `closed`, pending
`Get`-ring entries.  Shifted: buffer, blocked senders, applier pc, client pcs, `nextMarker`.
`closedMarkers` agree on the ids `≥ d` of the left state (smaller ids are stale).  Logs unrelated. -/
structure BSim (d : Nat) (s₁ s₂ : State) : Prop where
  store : s₁.store = s₂.store
  em : s₁.em = s₂.em
  pol : s₁.pol = s₂.pol
  met : s₁.met = s₂.met
  buf : s₁.buf = s₂.buf.map (bsE d)
  sendq : s₁.sendq = s₂.sendq.map (bsQ d)
  cm : ∀ id, id + d ∈ s₁.closedMarkers ↔ id ∈ s₂.closedMarkers
  nm : s₁.nextMarker = s₂.nextMarker + d
  app : s₁.app = bsA d s₂.app
  cl : ∀ t, s₁.cl t = bsC d (s₂.cl t)
  clock : s₁.clock = s₂.clock
  closed : s₁.closed = s₂.closed
  ring : s₁.ringPending = s₂.ringPending

theorem BSim.toL {d : Nat} {s₁ s₂ : State} (h : BSim d s₁ s₂) : BSimL d s₁.log s₂.log s₁ s₂ :=
  ⟨h.store, h.em, h.pol, h.met, h.buf, h.sendq, h.cm, h.nm, h.app, h.cl, h.clock, h.closed, h.ring, .refl⟩

theorem BSimL.toSim {d : Nat} {L₁ L₂ : List Ev} {s₁ s₂ : State} (h : BSimL d L₁ L₂ s₁ s₂) : BSim d s₁ s₂ :=
  ⟨h.store, h.em, h.pol, h.met, h.buf, h.sendq, h.cm, h.nm, h.app, h.cl, h.clock, h.closed, h.ring⟩

/-- lifting of a relation to the results of partial steps: both enabled and related, or both
disabled -/
def OptRel (R : State → State → Prop) : Option State → Option State → Prop
  | some a, some b => R a b
  | none, none => True
  | _, _ => False

@[simp] theorem optRel_some {R : State → State → Prop} {a b : State} : OptRel R (some a) (some b) ↔ R a b :=
  Iff.rfl
@[simp] theorem optRel_none {R : State → State → Prop} : OptRel R none none := trivial

theorem optRel_needNone {R : State → State → Prop} {r₁ r₂ : Option State} (ch : Choice)
    (h : OptRel R r₁ r₂) : OptRel R (needNone ch r₁) (needNone ch r₂) := by
  cases ch <;> first | exact h | exact trivial

theorem optRel_ite {R : State → State → Prop} {c : Prop} [Decidable c] {a₁ b₁ a₂ b₂ : Option State}
    (h1 : c → OptRel R a₁ a₂) (h2 : ¬c → OptRel R b₁ b₂) :
    OptRel R (if c then a₁ else b₁) (if c then a₂ else b₂) := by
  split
  · exact h1 ‹_›
  · exact h2 ‹_›

/-! ### tactics -/

/-- rewrite every read of a field of the left state into the corresponding read of the right state -/
macro "bsim_prep " h:ident : tactic =>
  `(tactic| simp only [BSimL.store $h, BSimL.em $h, BSimL.pol $h, BSimL.met $h, BSimL.clock $h,
      BSimL.closed $h, BSimL.ring $h, BSimL.nm $h, BSimL.buf $h, BSimL.sendq $h, BSimL.app $h,
      List.length_map, List.map_eq_nil_iff])

/-- the log clause after a step that appends at most four events -/
macro "bsim_log " h:ident : tactic =>
  `(tactic| (have hl := BSimL.log $h
             try simp only [setCl_log, logEv_log, cbExit_log, cbEvict_log, cbReject_log, metAdd_log]
             first
              | exact hl
              | exact LogExt.cons _ hl
              | exact LogExt.cons _ (LogExt.cons _ hl)
              | exact LogExt.cons _ (LogExt.cons _ (LogExt.cons _ hl))
              | exact LogExt.cons _ (LogExt.cons _ (LogExt.cons _ (LogExt.cons _ hl)))))

/-- the `cl` clause after `setCl` with a marker-free pc (or no `setCl` at all) -/
macro "bsim_cl " h:ident : tactic =>
  `(tactic| (intro t'
             have hc := BSimL.cl $h t'
             try simp only [setCl_cl, logEv_cl, cbExit_cl, cbEvict_cl, cbReject_cl, metAdd_cl]
             first | exact hc | (split <;> first | rfl | exact hc)))

/-- the `app` clause: untouched, or set to the same marker-free pc on both sides -/
macro "bsim_app " h:ident : tactic =>
  `(tactic| (have ha := BSimL.app $h
             first | exact ha | rfl | (simp [bsA_afterVictims]; done) | (simp [ha]; done)))

/-- close `BSimL d L₁ L₂ X₁ X₂` field by field, where `X₁`, `X₂` are the two results of the same
straight-line update (after `bsim_prep` and case splits) -/
macro "bsim_leaf " h:ident : tactic =>
  `(tactic| exact
    ⟨by simp [BSimL.store $h], by simp [BSimL.em $h], by simp [BSimL.pol $h], by simp [metAdd_met, BSimL.met $h],
     by simp [BSimL.buf $h], by simp [BSimL.sendq $h], by simpa using BSimL.cm $h, by simp [BSimL.nm $h],
     by bsim_app $h, by bsim_cl $h, by simp [BSimL.clock $h], by simp [BSimL.closed $h],
     by simp [BSimL.ring $h], by bsim_log $h⟩)

end RV.Cache
