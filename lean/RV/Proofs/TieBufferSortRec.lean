import RV.Proofs.TieBufferMerge
/-!
`sortHelper.sort`: the generated recursion over the chunk offsets leaves, in the region of the
chunks `lo..hi`, their `mergeRange` — the statement of the model's `sortRec_spec`, for the generated
code; and the resulting agreement of generated `merge` / `sort` with the model's `merge` / `sortRec`
on encoded runs.
-/
namespace RV.TieBuffer
open Gen.Buf Gen.BufferM RV.Buffer Gen.Buffer

theorem rdI_w (l : List Nat) (i v : Nat) (hi : i < 2 ^ 63) (h : l[i]? = some v) :
    rdI (l.map w).toArray (w i) = some (w v) := by
  unfold rdI
  have hlt : i < l.length := by
    rcases Nat.lt_or_ge i l.length with h' | h'
    · exact h'
    · rw [List.getElem?_eq_none h'] at h; cases h
  rw [toInt_w i hi, toNat_w i (by omega)]
  have hsz : (l.map w).toArray.size = l.length := by simp
  rw [if_pos ⟨by omega, by rw [hsz]; exact hlt⟩]
  congr 1
  have : l[i] = v := by
    rw [List.getElem?_eq_getElem hlt] at h; exact Option.some.inj h
  simp [hlt, this]

theorem mid_w (lo hi : Nat) (h : lo ≤ hi) (hh : hi < 2 ^ 62) :
    w lo + BitVec.sdiv (w hi - w lo) 2#64 = w (lo + (hi - lo) / 2) := by
  have := k_sortMid lo hi h hh
  unfold sortMid at this
  apply BitVec.eq_of_toNat_eq
  rw [this, toNat_w _ (by omega)]

/-- the state of the sorter that the recursion keeps -/
structure SortInv (lessM : Bytes → Bytes → Bool) (C : Nat) (offs : Array (BitVec 64)) (s : sortHelper) : Prop where
  less : ∀ a b, s.less a b = lessM a.toList b.toList
  offsets : s.offsets = offs
  tmp : TmpInv C s.tmp
  bsize : s.b.buf.size < 2 ^ 62

theorem sort_spec (os : OS) (hos : os.Ok) (lessM : Bytes → Bytes → Bool) (C : Nat) (cs : List (List Bytes)) (start : Nat)
    (hcs : cs.length < 2 ^ 61)
    (hC1 : 3 * (start + (encAll cs.flatten).length) + 24 ≤ C)
    (hC2 : C + C + (start + (encAll cs.flatten).length) + (start + (encAll cs.flatten).length) < 2 ^ 62) :
    ∀ (fuel lo hi : Nat) (s : sortHelper) (pre post : Bytes),
      lo ≤ hi → hi ≤ cs.length → hi - lo < fuel →
      pre.length = start + (encAll (cs.take lo).flatten).length →
      s.b.buf.toList = pre ++ encAll ((cs.drop lo).take (hi - lo)).flatten ++ post →
      SortInv lessM C ((boundaries start cs).map w).toArray s →
      ∃ s' a, Gen.BufferM.sort fuel os s (w lo) (w hi) =
          some (s', ⟨start + (encAll (cs.take lo).flatten).length, start + (encAll (cs.take hi).flatten).length⟩) ∧
        s'.b = { s.b with buf := a } ∧ a.toList = pre ++ encAll (mergeRange lessM cs fuel lo hi) ++ post ∧
        s'.small = s.small ∧ SortInv lessM C ((boundaries start cs).map w).toArray s' := by
  intro fuel
  induction fuel with
  | zero => intro lo hi s pre post _ _ hf; omega
  | succ f ih =>
    intro lo hi s pre post hle hhi hf hpre hbuf hinv
    have hpart : ∀ k, k ≤ cs.length → (encAll (cs.take k).flatten).length ≤ (encAll cs.flatten).length := by
      intro k _
      conv => rhs; rw [← List.take_append_drop k cs, List.flatten_append, encAll_append, List.length_append]
      omega
    have hbsz := hinv.bsize
    have hsz : s.b.buf.size = pre.length + (encAll ((cs.drop lo).take (hi - lo)).flatten).length + post.length := by
      rw [← Array.length_toList, hbuf]; simp only [List.length_append]
    have hhi_split := take_flatten_split cs lo hi hle
    have hlen_hi : (encAll (cs.take hi).flatten).length =
        (encAll (cs.take lo).flatten).length + (encAll ((cs.drop lo).take (hi - lo)).flatten).length := by
      rw [hhi_split, encAll_append, List.length_append]
    unfold Gen.BufferM.sort mergeRange
    have hg : Gen.Buf.guard (BitVec.sle (w lo) (w hi)) = some () := by
      rw [sle_w lo hi (by omega) (by omega)]; simp [Gen.Buf.guard, hle]
    simp only [hg, Option.bind_some, mid_w lo hi hle (by omega), hinv.offsets]
    rw [rdI_w _ lo _ (by omega) (boundaries_get cs start lo (by omega)),
      rdI_w _ hi _ (by omega) (boundaries_get cs start hi hhi)]
    simp only [Option.bind_some]
    simp only [w_beq _ _ (show lo < 2 ^ 64 by omega) (show lo + (hi - lo) / 2 < 2 ^ 64 by omega),
      w_beq _ _ (show lo + (hi - lo) / 2 < 2 ^ 64 by omega) (show lo < 2 ^ 64 by omega),
      eq_comm (a := lo + (hi - lo) / 2) (b := lo)]
    have hslice : ∀ (x : Buffer), x.buf.size = s.b.buf.size →
        Gen.Buf.slice x.buf.size (Win.full x.buf.size) (w (start + (encAll (cs.take lo).flatten).length))
          (w (start + (encAll (cs.take hi).flatten).length)) =
        some ⟨start + (encAll (cs.take lo).flatten).length, start + (encAll (cs.take hi).flatten).length⟩ := by
      intro x hx
      have := slice_win x.buf.size (Win.full x.buf.size) (start + (encAll (cs.take lo).flatten).length)
        (start + (encAll (cs.take hi).flatten).length) (by omega)
        (by show 0 + _ ≤ _; rw [hx]; omega) (by have := hpart hi hhi; omega)
      simpa [Win.full] using this
    by_cases hm : lo = lo + (hi - lo) / 2
    · simp only [← hm, decide_true, if_true, hslice s.b rfl, Option.bind_some]
      exact ⟨s, s.b.buf, rfl, rfl, hbuf, rfl, hinv⟩
    · simp only [hm, decide_false, Bool.false_eq_true, if_false]
      have hmid1 : lo ≤ lo + (hi - lo) / 2 := by omega
      have hmid2 : lo + (hi - lo) / 2 ≤ hi := by omega
      generalize hmid : lo + (hi - lo) / 2 = mid at *
      -- first half
      have hsplit := flatten_range_split cs lo mid hi hmid1 hmid2
      have hd0 : pre ++ encAll ((cs.drop lo).take (hi - lo)).flatten ++ post =
          pre ++ encAll ((cs.drop lo).take (mid - lo)).flatten ++
            (encAll ((cs.drop mid).take (hi - mid)).flatten ++ post) := by
        rw [hsplit, encAll_append]; simp
      obtain ⟨s1, a1, hs1, hb1, ha1, hsm1, hinv1⟩ :=
        ih lo mid s pre _ hmid1 (by omega) (by omega) hpre (hbuf.trans hd0) hinv
      simp only [hs1, Option.bind_some]
      -- second half
      have hp1 := mergeRange_perm lessM cs f lo mid hmid1 (by omega)
      have hl1 := encAll_length_perm hp1
      have hpre2 : (pre ++ encAll (mergeRange lessM cs f lo mid)).length =
          start + (encAll (cs.take mid).flatten).length := by
        rw [List.length_append, hpre, hl1, take_flatten_split cs lo mid hmid1, encAll_append, List.length_append]
        omega
      have hbuf1 : s1.b.buf.toList = (pre ++ encAll (mergeRange lessM cs f lo mid)) ++
          encAll ((cs.drop mid).take (hi - mid)).flatten ++ post := by
        rw [hb1]; show a1.toList = _; rw [ha1]; simp
      obtain ⟨s2, a2, hs2, hb2, ha2, hsm2, hinv2⟩ :=
        ih mid hi s1 _ post hmid2 hhi (by omega) hpre2 hbuf1 hinv1
      simp only [hs2, Option.bind_some]
      -- merge
      have hp2 := mergeRange_perm lessM cs f mid hi hmid2 (by omega)
      have hl2 := encAll_length_perm hp2
      have hmoff : start + (encAll (cs.take mid).flatten).length =
          pre.length + (encAll (mergeRange lessM cs f lo mid)).length := by
        rw [← hpre2, List.length_append]
      have hhoff : start + (encAll (cs.take hi).flatten).length =
          pre.length + (encAll (mergeRange lessM cs f lo mid)).length + (encAll (mergeRange lessM cs f mid hi)).length := by
        rw [take_flatten_split cs mid hi hmid2, encAll_append, List.length_append, hl2]
        omega
      have htot := hpart hi hhi
      have hbuf2 : s2.b.buf.toList = pre ++ encAll (mergeRange lessM cs f lo mid) ++
          encAll (mergeRange lessM cs f mid hi) ++ post := by
        rw [hb2]; show a2.toList = _; rw [ha2]
      obtain ⟨s3, a3, hs3, hb3, ha3, ho3, hl3, hsm3, ht3⟩ :=
        merge_spec os hos lessM C s2 pre post _ _ hinv2.less hbuf2 hinv2.bsize hinv2.tmp
          (by rw [← hhoff]; omega) (by rw [← hhoff]; omega)
      rw [← hpre, hmoff, hhoff]
      rw [← hpre] at hslice
      simp only [hhoff] at hslice
      simp only [hs3, Option.bind_some]
      have hsz3 : s3.b.buf.size = s.b.buf.size := by
        rw [hb3]; show a3.size = _
        rw [← Array.length_toList, ha3, hsz, hsplit, encAll_append]
        simp only [List.length_append]
        rw [mergeSl_encLen, hl1, hl2]
      rw [hslice s3.b hsz3]
      simp only [Option.bind_some]
      refine ⟨s3, a3, rfl, ?_, ha3, ?_, ⟨?_, ?_, ht3, ?_⟩⟩
      · rw [hb3, hb2, hb1]
      · rw [hsm3, hsm2, hsm1]
      · intro x y; rw [hl3]; exact hinv2.less x y
      · rw [ho3]; exact hinv2.offsets
      · rw [hsz3]; exact hbsz


/-- the model's view of a buffer whose array is `x ++ post`, the used length reaching into `post` -/
theorem data_split (g : Buffer) (x post : Bytes) (hbuf : g.buf.toList = x ++ post) (hoff : x.length ≤ g.offset.toNat) :
    (abs g).data = x ++ post.take (g.offset.toNat - x.length) := by
  rw [abs_data, hbuf, List.take_append, List.take_of_length_le hoff]

theorem tie_merge_enc (os : OS) (hos : os.Ok) (lessM : Bytes → Bytes → Bool) (C : Nat) (s : sortHelper)
    (pre post : Bytes) (L R : List Bytes)
    (hless : ∀ a b, s.less a b = lessM a.toList b.toList)
    (hbuf : s.b.buf.toList = pre ++ encAll L ++ encAll R ++ post)
    (hoff : pre.length + (encAll L).length + (encAll R).length ≤ s.b.offset.toNat)
    (hbs : s.b.buf.size < 2 ^ 62) (ht : TmpInv C s.tmp)
    (hC1 : 3 * (pre.length + (encAll L).length + (encAll R).length) + 24 ≤ C)
    (hC2 : C + C + (pre.length + (encAll L).length + (encAll R).length) +
      (pre.length + (encAll L).length + (encAll R).length) < 2 ^ 62) :
    ∃ s', Gen.BufferM.merge os s ⟨pre.length, pre.length + (encAll L).length⟩
        ⟨pre.length + (encAll L).length, pre.length + (encAll L).length + (encAll R).length⟩
        (w pre.length) (w (pre.length + (encAll L).length + (encAll R).length)) = some s' ∧
      RV.Buffer.merge lessM (abs s.b).data pre.length (pre.length + (encAll L).length)
        (pre.length + (encAll L).length + (encAll R).length) = .ok (abs s'.b).data ∧
      abs s'.b = { abs s.b with data := (abs s'.b).data } := by
  obtain ⟨s', a, h1, h2, h3, _, _, _, _⟩ := merge_spec os hos lessM C s pre post L R hless hbuf hbs ht hC1 hC2
  refine ⟨s', h1, ?_, ?_⟩
  · have hd := data_split s.b (pre ++ encAll L ++ encAll R) post hbuf (by simp only [List.length_append]; exact hoff)
    have hd' : (abs s'.b).data = pre ++ encAll (mergeSl lessM L R) ++
        post.take (s.b.offset.toNat - (pre ++ encAll L ++ encAll R).length) := by
      have hb' : s'.b.buf.toList = pre ++ encAll (mergeSl lessM L R) ++ post := by rw [h2]; exact h3
      have ho' : s'.b.offset = s.b.offset := by rw [h2]
      have := data_split s'.b (pre ++ encAll (mergeSl lessM L R)) post hb'
        (by simp only [List.length_append, mergeSl_encLen, ho']; omega)
      rw [this, ho']
      simp only [List.length_append, mergeSl_encLen]
      congr 2; omega
    rw [hd, hd']
    exact merge_enc lessM pre _ L R (by omega)
  · rw [h2]; rfl

theorem tie_sort_enc (os : OS) (hos : os.Ok) (lessM : Bytes → Bytes → Bool) (C : Nat) (cs : List (List Bytes)) (start : Nat)
    (hcs : cs.length < 2 ^ 61)
    (hC1 : 3 * (start + (encAll cs.flatten).length) + 24 ≤ C)
    (hC2 : C + C + (start + (encAll cs.flatten).length) + (start + (encAll cs.flatten).length) < 2 ^ 62)
    (fuel lo hi : Nat) (s : sortHelper) (pre post : Bytes)
    (hle : lo ≤ hi) (hhi : hi ≤ cs.length) (hf : hi - lo < fuel)
    (hpre : pre.length = start + (encAll (cs.take lo).flatten).length)
    (hbuf : s.b.buf.toList = pre ++ encAll ((cs.drop lo).take (hi - lo)).flatten ++ post)
    (hoff : pre.length + (encAll ((cs.drop lo).take (hi - lo)).flatten).length ≤ s.b.offset.toNat)
    (hinv : SortInv lessM C ((boundaries start cs).map w).toArray s) :
    ∃ s' win, Gen.BufferM.sort fuel os s (w lo) (w hi) = some (s', win) ∧
      sortRec lessM (boundaries start cs) fuel (abs s.b).data lo hi = .ok (abs s'.b).data ∧
      abs s'.b = { abs s.b with data := (abs s'.b).data } := by
  obtain ⟨s', a, h1, h2, h3, _, _⟩ :=
    sort_spec os hos lessM C cs start hcs hC1 hC2 fuel lo hi s pre post hle hhi hf hpre hbuf hinv
  refine ⟨s', _, h1, ?_, ?_⟩
  · have hd := data_split s.b (pre ++ encAll ((cs.drop lo).take (hi - lo)).flatten) post hbuf
      (by simp only [List.length_append]; exact hoff)
    have hp := mergeRange_perm lessM cs fuel lo hi hle hf
    have hl := encAll_length_perm hp
    have hd' : (abs s'.b).data = pre ++ encAll (mergeRange lessM cs fuel lo hi) ++
        post.take (s.b.offset.toNat - (pre ++ encAll ((cs.drop lo).take (hi - lo)).flatten).length) := by
      have hb' : s'.b.buf.toList = pre ++ encAll (mergeRange lessM cs fuel lo hi) ++ post := by rw [h2]; exact h3
      have ho' : s'.b.offset = s.b.offset := by rw [h2]
      have := data_split s'.b (pre ++ encAll (mergeRange lessM cs fuel lo hi)) post hb'
        (by simp only [List.length_append, hl, ho']; omega)
      rw [this, ho']
      simp only [List.length_append, hl]
    rw [hd, hd']
    exact sortRec_spec lessM cs start (by omega) hcs fuel lo hi pre _ hle hhi hf hpre
  · rw [h2]; rfl


end RV.TieBuffer
