import RV.Proofs.CacheAcctBasic
/-!
# Threads that take no part in a run stay idle

Used by the non-vacuity examples: after a concrete run, every thread that no action of the
run names is still `idle`.
-/
namespace RV.Cache
open RV

/-- the client threads an action names -/
def Action.tids : Action → List Tid
  | .spawn t _ => [t]
  | .client t _ => [t]
  | .applier (.selStop t) => [t]
  | .applier _ => []
  | .done t => [t]
  | .tick _ => []

/-- what a step may do to the pc of a thread it does not name: nothing, or complete its blocked send -/
def ClOther (s s' : State) (t : Tid) : Prop := ∀ t', t' ≠ t → s'.cl t' = s.cl t' ∨ s'.cl t' = unblockedPc (s.cl t')

theorem clOther_recv {s s1 : State} {x : BufElem} (h : recvBuf s = some (x, s1)) (t' : Tid) :
    s1.cl t' = s.cl t' ∨ s1.cl t' = unblockedPc (s.cl t') := recvBuf_cl h t'

open Lean in
macro "clo " f:ident : tactic => do
  let clne := mkIdent (f.getId.appendAfter "_cl_ne")
  `(tactic| exact fun _ hne => Or.inl ($clne (hne := hne) ..))

theorem clientStep_clOther {cfg : Cfg} {s s' : State} {t : Tid} {ch : Choice}
    (hs : clientStep cfg s t ch = some s') : ClOther s s' t := by
  apply clientStep_cases hs (motive := fun s' => ClOther s s' t)
  case setStart => intros; clo stSetStart
  case setUpd => intros; clo stSetUpd
  case setExit => intros; clo stSetExit
  case setSend => intros; clo stSetSend
  case setRetTrue => intros; clo stSetRetTrue
  case setRetDrop => intros; clo stSetRetDrop
  case delStart => intros; clo stDelStart
  case delExit => intros; clo stDelExit
  case delSend => intros; clo stDelSend
  case delSent => intros; clo stDelSent
  case waitStart => intros; clo stWaitStart
  case waitSend => intros; clo stWaitSend
  case waitDone => intros; clo stWaitDone
  case getRead => intros; clo stGetRead
  case getCheck => intros; clo stGetCheck
  case getMetric => intros; clo stGetMetric
  case ttlRead => intros; clo stTtlRead
  case ttlCheck => intros; clo stTtlCheck
  case ttlExp => intros; clo stTtlExp
  case ttlNow => intros; clo stTtlNow
  case ttlUntil => intros; clo stTtlUntil
  case iterStart => intros; clo stIterStart
  case clrStart => intros; clo stClrStart
  case clrPolicy => intros; clo stClrPolicy
  case clrEm => intros; clo stClrEm
  case clrMetrics => intros; clo stClrMetrics
  case clrRestart => intros; clo stClrRestart
  case clsFinish => intros; clo stClsFinish
  case updMax => intros; clo stUpdMax
  case readMax => intros; clo stReadMax
  case readRem => intros; clo stReadRem
  case waitRecv => intro id _ _ hr; exact fun _ hne => Or.inl (stWaitRecv_cl_ne _ _ _ hr hne)
  case getStart => intro h c _ hr; exact fun t' hne => Or.inl ((stGetStart_frame hr).1 t' hne)
  case iterShard => intro k n seen _ hr; exact fun t' hne => Or.inl ((stIterShard_frame hr).1 t' hne)
  case clrShard =>
    intro closing k _ hr
    obtain ⟨ks, _, _, _, rfl⟩ := stClrShard_cases hr
    exact fun t' hne => Or.inl (by simp [setCl_cl_ne _ _ _ hne, evictAll_cl])
  case clrDrain =>
    intro closing _ _
    rcases stClrDrain_cases s t closing with ⟨_, e⟩ | ⟨id, s1, hr, e⟩ | ⟨i, s1, hr, _, e⟩ | ⟨i, s1, hr, _, e⟩ <;> rw [e]
    · exact fun t' hne => Or.inl (setCl_cl_ne _ _ _ hne)
    · exact fun t' _ => clOther_recv hr t'
    · exact fun t' _ => clOther_recv hr t'
    · exact fun t' _ => clOther_recv hr t'

theorem applierStep_clOther {cfg : Cfg} {s s' : State} {ch : Choice}
    (hs : applierStep cfg s ch = some s') :
    ∀ t', t' ∉ (Action.applier ch).tids → s'.cl t' = s.cl t' ∨ s'.cl t' = unblockedPc (s.cl t') := by
  apply applierStep_cases hs (motive := fun s' => ∀ t', t' ∉ (Action.applier ch).tids → s'.cl t' = s.cl t' ∨ s'.cl t' = unblockedPc (s.cl t'))
  case idle =>
    intro _ hr
    rcases apIdle_cases hr with ⟨id, s1, _, hrecv, rfl⟩ | ⟨i, s1, _, hrecv, rfl⟩ | ⟨_, rfl⟩ | ⟨t, rfl, hstop⟩
    · exact fun t' _ => clOther_recv hrecv t'
    · exact fun t' _ => clOther_recv hrecv t'
    · exact fun _ _ => Or.inl rfl
    · intro t' ht'
      have hne : t' ≠ t := by simpa [Action.tids] using ht'
      exact Or.inl (apSelStop_cl_ne _ _ hstop hne)
  case marker => intros; exact Or.inl rfl
  case item => intros; exact Or.inl rfl
  case costed =>
    intro i _ hr
    rcases apCosted_cases hr with ⟨victims, added, pm, _, _, hp, rfl⟩ | ⟨_, _, rfl⟩ | ⟨_, _, rfl⟩ <;>
      exact fun _ _ => Or.inl rfl
  case added => intros; exact Or.inl (by rw [apAdded_cl])
  case victims =>
    intro vs _ _ hr
    obtain ⟨h', cost, rest, _, rfl⟩ := apVictims_cases hr
    exact fun _ _ => Or.inl rfl
  case victimEvict => intros; exact Or.inl rfl
  case tombPolicy => intros; exact Or.inl rfl
  case tombStore => intros; exact Or.inl rfl
  case tick => intros; exact Or.inl rfl
  case sweep =>
    intro now bs _ hr
    rcases apSweep_cases hr with ⟨_, rfl⟩ | ⟨b, rest, k, c, _, _, rfl⟩ <;> exact fun _ _ => Or.inl rfl
  case swKey => intros; exact Or.inl (by rw [apSwKey_cl])
  case swStoreDel => intros; exact Or.inl rfl
  case swPolDel => intros; exact Or.inl rfl

theorem step_clOther {cfg : Cfg} {s s' : State} {a : Action} (hs : step cfg s a = some s') :
    ∀ t', t' ∉ a.tids → s'.cl t' = s.cl t' ∨ s'.cl t' = unblockedPc (s.cl t') := by
  cases a with
  | spawn t c =>
    intro t' ht'
    exact Or.inl (spawnStep_cl_ne _ _ _ hs (by simpa [Action.tids] using ht'))
  | client t ch =>
    intro t' ht'
    exact clientStep_clOther hs t' (by simpa [Action.tids] using ht')
  | applier ch => exact applierStep_clOther hs
  | done t =>
    intro t' ht'
    exact Or.inl (doneStep_cl_ne _ _ hs (by simpa [Action.tids] using ht'))
  | tick d =>
    simp only [step, Option.some.injEq] at hs; subst hs
    exact fun _ _ => Or.inl rfl

/-- A thread that is idle and that no action of the run names is idle at the end. -/
theorem run_cl_idle {cfg : Cfg} {s s' : State} {acts : List Action} {t : Tid}
    (hr : run cfg s acts = some s') (h0 : s.cl t = .idle) (hno : ∀ a ∈ acts, t ∉ a.tids) : s'.cl t = .idle := by
  induction acts generalizing s with
  | nil => simp [run] at hr; subst hr; exact h0
  | cons a as ih =>
    simp only [run] at hr
    cases hs : step cfg s a with
    | none => simp [hs] at hr
    | some s1 =>
      simp only [hs] at hr
      refine ih hr ?_ (fun a' ha' => hno a' (List.mem_cons_of_mem _ ha'))
      rcases step_clOther hs t (hno a List.mem_cons_self) with e | e <;> rw [e, h0] <;> rfl

/-- all threads outside `ts` are idle after a run from the initial state that names only threads in `ts` -/
theorem run_init_idle {cfg : Cfg} {now : Time} {s' : State} {acts : List Action} (ts : List Tid)
    (hr : run cfg (init cfg now) acts = some s') (hts : (acts.all fun a => a.tids.all fun t => ts.contains t) = true)
    {t : Tid} (ht : t ∉ ts) : s'.cl t = .idle := by
  refine run_cl_idle hr rfl (fun a ha hm => ht ?_)
  rw [List.all_eq_true] at hts
  have := hts a ha
  rw [List.all_eq_true] at this
  simpa using this t hm

theorem reach_of_run {cfg : Cfg} {now : Time} {s : State} {acts : List Action}
    (h : run cfg (init cfg now) acts = some s) : Reach cfg s := ⟨now, acts, h⟩

/-- the state a concrete run from `init cfg 0` ends in (for examples) -/
def exState (cfg : Cfg) (acts : List Action) : State := (run cfg (init cfg 0) acts).getD (init cfg 0)

theorem exState_run {cfg : Cfg} {acts : List Action} (h : (run cfg (init cfg 0) acts).isSome = true) :
    run cfg (init cfg 0) acts = some (exState cfg acts) := by
  unfold exState
  cases hr : run cfg (init cfg 0) acts with
  | none => rw [hr] at h; cases h
  | some s => rfl

theorem exState_reach {cfg : Cfg} {acts : List Action} (h : (run cfg (init cfg 0) acts).isSome = true) :
    Reach cfg (exState cfg acts) := reach_of_run (exState_run h)

/-- all threads outside `ts` are idle in `exState` -/
theorem exState_idle {cfg : Cfg} {acts : List Action} (ts : List Tid) (h : (run cfg (init cfg 0) acts).isSome = true)
    (hts : (acts.all fun a => a.tids.all fun t => ts.contains t) = true) {t : Tid} (ht : t ∉ ts) :
    (exState cfg acts).cl t = .idle := run_init_idle ts (exState_run h) hts ht

end RV.Cache
