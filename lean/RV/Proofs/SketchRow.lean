import RV.Model.Sketch
import RV.Proofs.ArrayLemmas
/-!
Row-level lemmas about the generated sketch kernels.  The byte-level facts are
decided by the kernel over *all* 256 byte values and both nibble positions
(the complete quantifier), then lifted to rows of any length.
-/
namespace RV.Sketch
open Gen.Sketch

/-- nibble `hi` of byte `b` (the expression inside `cmRow.get`). -/
def nib (b : BitVec 8) (hi : Bool) : BitVec 8 := (b >>> (if hi then 4 else 0)) &&& 15#8

theorem byte_incr_self : ∀ (b : BitVec 8) (hi : Bool),
    let s := if hi then 4 else 0
    let b' := if BitVec.ult ((b >>> s) &&& 15#8) 15#8 then b + (1#8 <<< s) else b
    nib b' hi = (if BitVec.ult (nib b hi) 15#8 then nib b hi + 1 else 15#8) := by decide

theorem byte_incr_other : ∀ (b : BitVec 8) (hi : Bool),
    let s := if hi then 4 else 0
    let b' := if BitVec.ult ((b >>> s) &&& 15#8) 15#8 then b + (1#8 <<< s) else b
    nib b' (!hi) = nib b (!hi) := by decide

theorem byte_reset : ∀ (b : BitVec 8) (hi : Bool),
    nib ((b >>> 1) &&& 119#8) hi = nib b hi >>> 1 := by decide

theorem nib_le_15 : ∀ (b : BitVec 8) (hi : Bool), (nib b hi).toNat ≤ 15 := by decide

theorem and_one_cases (n : BitVec 64) : n &&& 1#64 = 0#64 ∨ n &&& 1#64 = 1#64 := by
  have : (n &&& 1#64).toNat = n.toNat % 2 := by
    rw [BitVec.toNat_and]; simp [Nat.and_one_is_mod]
  rcases Nat.mod_two_eq_zero_or_one n.toNat with h | h
  · left; apply BitVec.eq_of_toNat_eq; simp [this, h]
  · right; apply BitVec.eq_of_toNat_eq; simp [this, h]

def hiOf (n : BitVec 64) : Bool := n &&& 1#64 == 1#64
def byteOf (n : BitVec 64) : Nat := (n / 2#64).toNat

theorem shift_of (n : BitVec 64) : ((n &&& 1#64) * 4#64).toNat = if hiOf n then 4 else 0 := by
  unfold hiOf
  rcases and_one_cases n with h | h <;> simp [h]

/-- spellings of the same index / shift arithmetic (`n >> 1` for `n / 2`, `x << 2` for `x * 4`):
the bridge lemmas below normalise either spelling of the source before they look at it -/
theorem shl2_eq_mul4 (x : BitVec 64) : x <<< (2 : Nat) = x * 4#64 := by
  apply BitVec.eq_of_toNat_eq
  simp [BitVec.toNat_shiftLeft, BitVec.toNat_mul, Nat.shiftLeft_eq]
theorem shr1_eq_div2 (x : BitVec 64) : x >>> (1 : Nat) = x / 2#64 := by
  apply BitVec.eq_of_toNat_eq
  simp [BitVec.toNat_ushiftRight, BitVec.toNat_udiv, Nat.shiftRight_eq_div_pow]

theorem rowGet_eq (r : Row) (n : BitVec 64) :
    rowGet r n = nib r[byteOf n]! (hiOf n) := by
  unfold rowGet nib byteOf
  try simp only [shl2_eq_mul4, shr1_eq_div2]
  rw [shift_of]

theorem rowIncrement_eq (r : Row) (n : BitVec 64) :
    rowIncrement r n =
      if BitVec.ult (nib r[byteOf n]! (hiOf n)) 15#8
      then r.set! (byteOf n) (r[byteOf n]! + (1#8 <<< (if hiOf n then 4 else 0)))
      else r := by
  unfold rowIncrement nib byteOf
  try simp only [shl2_eq_mul4, shr1_eq_div2]
  simp only [shift_of]

/-- two counter indices address the same nibble iff they are equal -/
theorem idx_eq_of (n m : BitVec 64) (hb : byteOf n = byteOf m) (hh : hiOf n = hiOf m) : n = m := by
  unfold byteOf at hb
  unfold hiOf at hh
  have hn : (n &&& 1#64).toNat = n.toNat % 2 := by rw [BitVec.toNat_and]; simp [Nat.and_one_is_mod]
  have hm : (m &&& 1#64).toNat = m.toNat % 2 := by rw [BitVec.toNat_and]; simp [Nat.and_one_is_mod]
  apply BitVec.eq_of_toNat_eq
  simp [BitVec.toNat_udiv] at hb
  have : n.toNat % 2 = m.toNat % 2 := by
    rcases and_one_cases n with h1 | h1 <;> rcases and_one_cases m with h2 | h2 <;>
      simp [h1, h2] at hh <;> (rw [h1] at hn; rw [h2] at hm; simp at hn hm; omega)
  omega

theorem get_increment_self (r : Row) (n : BitVec 64) (h : byteOf n < r.size) :
    rowGet (rowIncrement r n) n =
      if BitVec.ult (rowGet r n) 15#8 then rowGet r n + 1 else 15#8 := by
  rw [rowGet_eq, rowGet_eq, rowIncrement_eq]
  have key := byte_incr_self r[byteOf n]! (hiOf n)
  simp only [nib] at key ⊢
  by_cases hc : BitVec.ult ((r[byteOf n]! >>> (if hiOf n then 4 else 0)) &&& 15#8) 15#8
  · simp only [hc, if_true] at key ⊢
    rw [get!_set!_self _ _ _ h]; exact key
  · simp only [hc] at key ⊢
    simpa using key

theorem get_increment_other (r : Row) (n m : BitVec 64) (hne : m ≠ n) :
    rowGet (rowIncrement r n) m = rowGet r m := by
  rw [rowGet_eq, rowGet_eq, rowIncrement_eq]
  by_cases hc : BitVec.ult (nib r[byteOf n]! (hiOf n)) 15#8
  · simp only [hc, if_true]
    by_cases hb : byteOf n = byteOf m
    · have hh : hiOf m = !hiOf n := by
        cases h1 : hiOf m <;> cases h2 : hiOf n <;> simp
        · exact hne (idx_eq_of m n hb.symm (by rw [h1, h2]))
        · exact hne (idx_eq_of m n hb.symm (by rw [h1, h2]))
      by_cases hs : byteOf n < r.size
      · rw [← hb, get!_set!_self _ _ _ hs, hh]
        have key := byte_incr_other r[byteOf n]! (hiOf n)
        simp only [nib] at key hc ⊢
        simp only [hc, if_true] at key
        exact key
      · rw [Array.set!_eq_setIfInBounds, Array.setIfInBounds_eq_of_size_le (by omega)]
    · rw [get!_set!_ne _ _ _ _ hb]
  · simp [hc]

theorem size_rowIncrement (r : Row) (n : BitVec 64) : (rowIncrement r n).size = r.size := by
  rw [rowIncrement_eq]; split <;> simp


/-! ### reset / clear: the generated `for i := range r` folds are maps -/

theorem rowReset_eq (r : Row) : rowReset r = rangeMap (fun (b : BitVec 8) => (b >>> 1) &&& 119#8) r r.size := rfl

theorem rowClear_spec (r : Row) (hsz : r.size ≤ 2 ^ 64) :
    (rowClear r).size = r.size ∧ ∀ j, j < r.size → (rowClear r)[j]! = 0#8 := by
  have h := rangeMap_spec (fun _ => 0#8) r r.size (Nat.le_refl _) hsz
  have e : rowClear r = rangeMap (fun _ => 0#8) r r.size := rfl
  rw [e]
  refine ⟨h.1, fun j hj => ?_⟩
  rw [h.2]; simp [hj]

theorem get_reset (r : Row) (n : BitVec 64) (h : byteOf n < r.size) (hsz : r.size ≤ 2 ^ 64) :
    rowGet (rowReset r) n = rowGet r n >>> 1 := by
  rw [rowGet_eq, rowGet_eq, rowReset_eq]
  have hs := rangeMap_spec (fun (b : BitVec 8) => (b >>> 1) &&& 119#8) r r.size (Nat.le_refl _) hsz
  rw [hs.2]; simp only [h, if_true]
  exact byte_reset _ _

theorem get_clear (r : Row) (n : BitVec 64) (h : byteOf n < r.size) (hsz : r.size ≤ 2 ^ 64) :
    rowGet (rowClear r) n = 0#8 := by
  rw [rowGet_eq, (rowClear_spec r hsz).2 _ h]
  cases hiOf n <;> decide

theorem size_rowReset (r : Row) (hsz : r.size ≤ 2 ^ 64) : (rowReset r).size = r.size := by
  rw [rowReset_eq]; exact (rangeMap_spec _ r r.size (Nat.le_refl _) hsz).1

theorem rowGet_le_15 (r : Row) (n : BitVec 64) : (rowGet r n).toNat ≤ 15 := by
  rw [rowGet_eq]; exact nib_le_15 _ _

end RV.Sketch
