import RV.Proofs.TieTree2ReinitF
/-!
# The tree on flat memory: `Tree.reinit` (generated whole) recomputes the allocator scalars

`reinit_refines`: on the memory a cleanly closed tree leaves in the file, the generated `reinit`
(what `NewTreePersistent` runs on an existing file) terminates, leaves the memory alone and sets
`nextPage`, `freePage`, `NumLeafKeys`, `NumPagesFree` to the values of the structural tree.
-/
namespace RV.TreeFlat
open RV.Tree RV.NodeFlat Gen.TreeM

/-- `reinit` after the frontier scan (the generated text, with the callback named `ri_cb`) -/
def ri_tail (pageSize maxKeys : BitVec 64) (fuel : Nat) (t_9 : St) : Option St :=
  let nextPage_10 : BitVec 64 := t_9.nextPage
  let maxPageId_11 : BitVec 64 := (nextPage_10 - 1#64)
  let tailPages_12 : Array Bool := Array.replicate (maxPageId_11).toNat false
  (Iterate pageSize maxKeys fuel t_9 tailPages_12 (ri_cb maxKeys)).bind fun (t_23, tailPages_24) =>
  let pointedPages_25 : Array (BitVec 64) := Array.replicate (0#64).toNat 0#64
  (Gen.forRange (ρ := St) 0#64 (BitVec.ofNat 64 tailPages_24.size) (reinit_loop2 pageSize maxKeys tailPages_24) (t_23, pointedPages_25)).bind fun
    | Gen.LoopRes.ret v => some v
    | Gen.LoopRes.done (t_40, pointedPages_41) _ =>
      (Gen.forRange (ρ := St) 0#64 (BitVec.ofNat 64 pointedPages_41.size) (reinit_loop3 pointedPages_41) tailPages_24).bind fun
        | Gen.LoopRes.ret v => some v
        | Gen.LoopRes.done tailPages_47 _ =>
          (Gen.forRange (ρ := St) 0#64 (BitVec.ofNat 64 tailPages_47.size) (reinit_loop4 tailPages_47) t_40).bind fun
            | Gen.LoopRes.ret v => some v
            | Gen.LoopRes.done t_54 _ =>
              some t_54

theorem ri_reinit_eq (pageSize maxKeys : BitVec 64) (fuel : Nat) (t : St) :
    reinit pageSize maxKeys fuel t =
      (Gen.TreeM.whileM (ρ := St) (2 ^ 64)
        (fun (s_ : St) => some (BitVec.sle ((s_.nextPage + 1#64) * pageSize) (Gen.TreeM.dataLen s_)))
        (reinit_loop1 pageSize maxKeys) { t with nextPage := 1#64 }).bind fun
      | Gen.LoopRes.ret v => some v
      | Gen.LoopRes.done t_9 _ => ri_tail pageSize maxKeys fuel t_9 := rfl

/-- everything after the frontier scan -/
theorem ri_tail_spec {cfg : Cfg} (hc : CfgFlat cfg) (tr : Tree) (t s1 : St)
    (hinv : TreeInv cfg tr) (hpid : PidInv tr) (hroot : tr.root.pid = 1)
    (hr : TreeFlat.Repr cfg t.data tr.root) (hch : FreeChain cfg t.data tr.a.free)
    (hsmall : t.data.size < 2 ^ 40)
    (hs1 : ri_Same t s1) (hnp : s1.nextPage = w tr.a.nextPage)
    (hlk0 : s1.numLeafKeys = 0#64) (hpf0 : s1.numPagesFree = 0#64)
    (hfp0 : tr.a.free = [] → s1.freePage = 0#64)
    (fuel : Nat) (hfuel : height tr.root ≤ fuel) :
    ∃ t', ri_tail (w cfg.pageSize) (w cfg.maxKeys) fuel s1 = some t' ∧
      t'.data = t.data ∧ t'.epoch = t.epoch ∧ t'.nextPage = w tr.a.nextPage ∧
      t'.freePage = w tr.a.freeHead ∧ t'.numLeafKeys = w (countLeafKeys tr.root) ∧
      t'.numPagesFree = w tr.a.free.length := by
  have hpos := pw_pos cfg
  have hN1 := hpid.1
  have hnd := hpid.nodup
  have hdis := (List.nodup_append.mp hnd).2.2
  have hrn : tr.root ≠ .null := okNode_ne_null hinv.ok
  have hnn : NoNil tr.root := ri_noNil _ _ _ _ hinv.ok
  have hrootmem : 1 ∈ pids tr.root := by rw [← hroot]; exact pid_mem_pids hrn
  have hfits := repr_fits tr.root hr
  have hcfit := ri_chain_fit tr.a.free hch
  -- every page below the frontier fits, so the frontier is small
  have hallfit : ∀ q, 1 ≤ q → q < tr.a.nextPage → (q + 1) * pw cfg ≤ t.data.size := by
    intro q h1 h2
    have := (hpid.mem_iff q).mpr ⟨h1, h2⟩
    rw [List.mem_append] at this
    rcases this with h | h
    · exact (hfits q h).2
    · exact (hcfit q h).2
  have hN2 : 2 ≤ tr.a.nextPage := by
    have := (hpid.mem_iff 1).mp (List.mem_append_left _ hrootmem); omega
  have hN40 : tr.a.nextPage < 2 ^ 40 := by
    have h1 := hallfit (tr.a.nextPage - 1) (by omega) (by omega)
    have e : tr.a.nextPage - 1 + 1 = tr.a.nextPage := by omega
    rw [e] at h1
    have : tr.a.nextPage * 1 ≤ tr.a.nextPage * pw cfg := Nat.mul_le_mul (Nat.le_refl _) hpos
    omega
  -- phase 2
  have hmark := ri_mark hc t hsmall (tr.a.nextPage - 1) (by omega) tr.root hroot hnn hr fuel hfuel
    (hfits 1 hrootmem).2
    (fun p hp => by
      have h1 := (hpid.mem_iff p).mp (List.mem_append_left _ hp)
      exact ⟨h1.1, by omega, (hfits p hp).2, ri_pidw tr.root hr p hp⟩)
    s1 (Array.replicate (tr.a.nextPage - 1) false) hs1 (by simp)
  have hspec := ri_fold_spec cfg t.data (pids tr.root) s1 (Array.replicate (tr.a.nextPage - 1) false)
    (fun p hp => by
      have h1 := (hpid.mem_iff p).mp (List.mem_append_left _ hp)
      simp only [Array.size_replicate]; omega)
  generalize hfold : (pids tr.root).foldl (ri_G cfg t.data) (s1, Array.replicate (tr.a.nextPage - 1) false) = r
    at hmark hspec
  obtain ⟨s2, tp2⟩ := r
  obtain ⟨hit, hs2same, htp2sz⟩ := hmark
  obtain ⟨hs2, _, htp2⟩ := hspec
  simp only [] at hs2same htp2sz hs2 htp2
  simp only [Array.size_replicate] at htp2
  have htp2' : ∀ i, i < tr.a.nextPage - 1 → (tp2[i]! = true ↔ (i + 1) ∈ pids tr.root) := by
    intro i hi
    rw [htp2 i hi]
    have : (Array.replicate (tr.a.nextPage - 1) false)[i]! = false := by
      rw [getElem!_pos _ i (by simpa using hi)]; simp
    rw [this]; simp
  have hunm : ∀ i, i < tp2.size → tp2[i]! = false → (i + 1) ∈ tr.a.free := by
    intro i hi hf
    rw [htp2sz] at hi
    have hin := (hpid.mem_iff (i + 1)).mpr ⟨by omega, by omega⟩
    rw [List.mem_append] at hin
    rcases hin with h | h
    · rw [(htp2' i hi).mpr h] at hf; cases hf
    · exact h
  -- phase 3
  obtain ⟨s3, pp, h2, hs3, hppsz, hppmem⟩ := ri_loop2 hc t hsmall tp2 (by omega) s2 hs2same
    (fun i hi hf => (hcfit (i + 1) (hunm i hi hf)).2)
  have hfb : ∀ q ∈ tr.a.free, q < 2 ^ 64 := fun q hq => by
    have := (hpid.mem_iff q).mp (List.mem_append_right _ hq); omega
  have hpp : ∀ x, x ∈ pp ↔ ∃ r, r ∈ tr.a.free.tail ∧ x = w r := by
    intro x
    rw [hppmem x, ← ri_links tr.a.free hch hfb x]
    constructor
    · rintro ⟨h0, k, hk, hf, e⟩; exact ⟨h0, k + 1, hunm k hk hf, e⟩
    · rintro ⟨h0, q, hq, e⟩
      have hq1 := (hpid.mem_iff q).mp (List.mem_append_right _ hq)
      refine ⟨h0, q - 1, by omega, ?_, by rw [show q - 1 + 1 = q by omega]; exact e⟩
      cases hb : tp2[q - 1]! with
      | false => rfl
      | true =>
        have := (htp2' (q - 1) (by omega)).mp hb
        rw [show q - 1 + 1 = q by omega] at this
        exact absurd rfl (hdis q this q hq)
  have htail : ∀ r ∈ tr.a.free.tail, r ∈ tr.a.free := fun r hr => List.mem_of_mem_tail hr
  -- phase 4
  obtain ⟨tp3, h3, hsz3, htp3⟩ := ri_loop3 pp tp2 (by omega) (by omega)
    (fun k hk => by
      have hm : pp[k]! ∈ pp := by rw [getElem!_pos pp k hk]; exact Array.getElem_mem hk
      obtain ⟨r, hr, e⟩ := (hpp _).mp hm
      have h1 := (hpid.mem_iff r).mp (List.mem_append_right _ (htail r hr))
      rw [e, w_toNat (by omega)]; omega)
  have htp3' : ∀ i, i < tr.a.nextPage - 1 →
      (tp3[i]! = true ↔ ((i + 1) ∈ pids tr.root ∨ (i + 1) ∈ tr.a.free.tail)) := by
    intro i hi
    rw [htp3 i (by omega), htp2' i hi]
    constructor
    · rintro (h | ⟨k, hk, e⟩)
      · exact Or.inl h
      · right
        have hm : pp[k]! ∈ pp := by rw [getElem!_pos pp k hk]; exact Array.getElem_mem hk
        obtain ⟨r, hr, e'⟩ := (hpp _).mp hm
        have h1 := (hpid.mem_iff r).mp (List.mem_append_right _ (htail r hr))
        rw [e', w_toNat (by omega)] at e
        rw [← e]; exact hr
    · rintro (h | h)
      · exact Or.inl h
      · right
        have h1 := (hpid.mem_iff (i + 1)).mp (List.mem_append_right _ (htail _ h))
        obtain ⟨k, hk, e⟩ := Array.mem_iff_getElem.mp ((hpp (w (i + 1))).mpr ⟨i + 1, h, rfl⟩)
        refine ⟨k, hk, ?_⟩
        rw [getElem!_pos pp k hk, e, w_toNat (by omega)]
  have hhead := ri_head (pids tr.root) tr.a.free (tr.a.nextPage - 1) tp3
    (fun p => by rw [hpid.mem_iff p]; omega) hnd htp3'
  -- phase 5
  obtain ⟨s4, j, h4, hcase⟩ := ri_loop4 tp3 (by omega) s3
  -- the counts
  have hcnt : ri_cnt tp2 tp2.size = tr.a.free.length := by
    rw [htp2sz]; exact ri_cnt_free tp2 (pids tr.root) tr.a.free (tr.a.nextPage - 1) hpid.2 hnd htp2'
  have hsum := ri_sum hc t.data tr.root hr
  -- run
  have hsub : (w tr.a.nextPage - 1#64).toNat = tr.a.nextPage - 1 := by
    rw [NodeFlat.w_sub_one (by omega), w_toNat (by omega)]
  have hempty : Array.replicate (0#64).toNat (0#64 : BitVec 64) = #[] := rfl
  refine ⟨s4, ?_, ?_⟩
  · unfold ri_tail
    simp only []
    rw [hnp, hsub, hit, Option.bind_some]
    simp only []
    rw [hempty, h2, Option.bind_some]
    simp only []
    rw [h3, Option.bind_some]
    simp only []
    rw [h4, Option.bind_some]
  · have hs3d : s3.data = t.data := by rw [hs3]; exact hs2same.1
    have hs3e : s3.epoch = t.epoch := by rw [hs3]; exact hs2same.2
    have hs3n : s3.nextPage = w tr.a.nextPage := by rw [hs3, hs2]; exact hnp
    have hs3l : s3.numLeafKeys = w (countLeafKeys tr.root) := by
      rw [hs3, hs2]
      show s1.numLeafKeys + _ = _
      rw [hlk0, hsum, BitVec.zero_add]
    have hs3p : s3.numPagesFree = w tr.a.free.length := by
      rw [hs3, hs2]
      show s1.numPagesFree + _ = _
      rw [hpf0, hcnt, BitVec.zero_add]
    have hs3f : s3.freePage = s1.freePage := by rw [hs3, hs2]
    rcases hcase with ⟨hall, e⟩ | ⟨h, hh, hf, _, e⟩
    · have hF := hhead.1 (fun i hi => hall i (by omega))
      rw [e]
      refine ⟨hs3d, hs3e, hs3n, ?_, hs3l, hs3p⟩
      rw [hs3f, hfp0 hF, freeHead_eq, hF]; rfl
    · have hH := hhead.2 h (by omega) hf
      rw [e]
      refine ⟨hs3d, hs3e, hs3n, ?_, hs3l, hs3p⟩
      show w (h + 1) = _
      rw [freeHead_eq, hH]

/-- `Tree.reinit` on the memory of a well-formed tree recomputes the allocator scalars -/
theorem reinit_refines {cfg : Cfg} (hc : CfgFlat cfg) (tr : Tree) (t t0 : St)
    (hinv : TreeInv cfg tr) (hpid : PidInv tr) (hroot : tr.root.pid = 1)
    (hr : TreeFlat.Repr cfg t.data tr.root) (hch : FreeChain cfg t.data tr.a.free)
    (hsmall : t.data.size < 2 ^ 40)
    (hstale : ∀ q ∈ tr.a.free, pidW cfg.maxKeys (pageOf cfg t.data q) ≠ 0#64)
    (hend : t.data.size < (tr.a.nextPage + 1) * pw cfg ∨
      pidW cfg.maxKeys (pageOf cfg t.data tr.a.nextPage) = 0#64)
    (hd0 : t0.data = t.data) (he0 : t0.epoch = t.epoch)
    (hlk0 : t0.numLeafKeys = 0#64) (hpf0 : t0.numPagesFree = 0#64)
    (hfp0 : tr.a.free = [] → t0.freePage = 0#64)
    (fuel : Nat) (hfuel : height tr.root ≤ fuel) :
    ∃ t', reinit (w cfg.pageSize) (w cfg.maxKeys) fuel t0 = some t' ∧
      t'.data = t.data ∧ t'.epoch = t.epoch ∧ t'.nextPage = w tr.a.nextPage ∧
      t'.freePage = w tr.a.freeHead ∧ t'.numLeafKeys = w (countLeafKeys tr.root) ∧
      t'.numPagesFree = w tr.a.free.length := by
  have hfits := repr_fits tr.root hr
  have hcfit := ri_chain_fit tr.a.free hch
  have hlive : ∀ q, 1 ≤ q → q < tr.a.nextPage →
      (q + 1) * pw cfg ≤ t0.data.size ∧ pidW cfg.maxKeys (pageOf cfg t0.data q) ≠ 0#64 := by
    intro q h1 h2
    rw [hd0]
    have hq40 : ∀ (hf : (q + 1) * pw cfg ≤ t.data.size), q < 2 ^ 64 := by
      intro hf
      have hpos := pw_pos cfg
      have : (q + 1) * 1 ≤ (q + 1) * pw cfg := Nat.mul_le_mul (Nat.le_refl _) hpos
      omega
    have := (hpid.mem_iff q).mpr ⟨h1, h2⟩
    rw [List.mem_append] at this
    rcases this with h | h
    · refine ⟨(hfits q h).2, ?_⟩
      rw [ri_pidw tr.root hr q h]
      intro e
      have := w_inj (a := q) (b := 0) (hq40 (hfits q h).2) (by omega) e
      omega
    · exact ⟨(hcfit q h).2, hstale q h⟩
  have hscan := ri_scan hc t0 (by rw [hd0]; exact hsmall) tr.a.nextPage hpid.1
    (fun (s_ : St) => some (BitVec.sle ((s_.nextPage + 1#64) * w cfg.pageSize) (Gen.TreeM.dataLen s_)))
    (fun _ => rfl) hlive (by rw [hd0]; exact hend)
  rw [ri_reinit_eq, hscan, Option.bind_some]
  exact ri_tail_spec hc tr t { t0 with nextPage := w tr.a.nextPage } hinv hpid hroot hr hch hsmall
    ⟨hd0, he0⟩ rfl hlk0 hpf0 hfp0 fuel hfuel

end RV.TreeFlat
