import RV.Proofs.TieTree2Defs
/-!
# The tree on flat memory: the *slot* and *child* phases of `Tree.set`

`setSlot_fill`: the `n.key(idx) == 0` branch stores the key in the zeroed slot behind the last key
and bumps the count.  `setChild_new`: the `child == nil` branch allocates a leaf page and hangs it
into the parent.
-/
namespace RV.TreeFlat
open RV.Tree RV.NodeFlat Gen.TreeM

/-! ## page level: filling the slot behind the last key -/

theorem nc_fill_page {mk : Nat} {P : NodeFlat.Page} (hmk : mk < 2 ^ 15) (hok : PageOk mk P) (k : Key) (hk0 : k ≠ 0#64)
    (hn : nkeys mk P < mk) (hlt : ∀ i, i < nkeys mk P → keyW P i < k) :
    ∃ P2, Gen.Node.setNumKeys (P.set! (2 * nkeys mk P) k) (w mk) (w (nkeys mk P + 1)) = some P2 ∧
      P2.size = P.size ∧ PageOk mk P2 ∧ leafBit mk P2 = leafBit mk P ∧ kindBits mk P2 = kindBits mk P ∧
      pidW mk P2 = pidW mk P ∧ ents mk P2 = ents mk P ++ [(k, 0#64)] := by
  obtain ⟨hs, hnle, hnz, hinc, hzero⟩ := hok
  generalize hndef : nkeys mk P = n at *
  have hs1 : (P.set! (2 * n) k).size = 2 * (mk + 1) := by rw [RV.size_set!]; exact hs
  have hm1 : metaW mk (P.set! (2 * n) k) = metaW mk P := by
    unfold metaW; rw [RV.get!_set!_ne _ _ _ _ (by omega)]
  obtain ⟨P2, h2, hs2, hmeta2, hw2⟩ :=
    setNumKeys_w (p := P.set! (2 * n) k) (mk := mk) hs1 (by omega) (n := n + 1) (by omega)
  rw [hm1] at hmeta2
  have hnk : nkeys mk P2 = n + 1 := nkeys_of_meta hmeta2 (by omega)
  have hword : ∀ j, j ≠ 2 * mk + 1 → j ≠ 2 * n → P2[j]! = P[j]! := by
    intro j h1 h2'
    rw [hw2 j h1, RV.get!_set!_ne _ _ _ _ (Ne.symm h2')]
  have hkn : keyW P2 n = k := by
    unfold keyW; rw [hw2 _ (by omega), RV.get!_set!_self _ _ _ (by omega)]
  have hkey : ∀ i, i ≠ n → keyW P2 i = keyW P i := by
    intro i hi; unfold keyW; exact hword _ (by omega) (by omega)
  have hval : ∀ i, i < mk → valW P2 i = valW P i := by
    intro i hi; unfold valW; exact hword _ (by omega) (by omega)
  refine ⟨P2, h2, by rw [hs2, RV.size_set!], ⟨by omega, by omega, ?_, ?_, ?_⟩,
    leafBit_of_meta hmeta2 (by omega), kindBits_of_meta hmeta2 (by omega), ?_, ?_⟩
  · intro i hi
    rw [hnk] at hi
    by_cases e : i = n
    · subst e; rw [hkn]; exact hk0
    · rw [hkey i e]; exact hnz i (by omega)
  · intro i hi hi1
    rw [hnk] at hi hi1
    by_cases e : i + 1 = n
    · rw [e, hkn, hkey i (by omega)]; exact hlt i (by omega)
    · rw [hkey i (by omega), hkey (i + 1) e]; exact hinc i (by omega) (by omega)
  · intro i hi hni
    rw [hnk] at hni
    rw [hkey i (by omega), hval i hi]
    exact hzero i hi (by omega)
  · unfold pidW; exact hword _ (by omega) (by omega)
  · apply ents_eq_of
    · rw [hnk]; simp [ents_length, hndef]
    · intro i hi
      simp only [List.length_append, List.length_cons, List.length_nil, ents_length, hndef] at hi
      by_cases h1 : i < n
      · rw [List.getElem?_append_left (by rw [ents_length, hndef]; exact h1), ents_get?, hndef, if_pos h1,
          hkey i (by omega), hval i (by omega)]
      · have : i = n := by omega
        subst this
        rw [List.getElem?_append_right (by rw [ents_length, hndef]; omega), ents_length, hndef, hkn, hval i hn,
          (hzero i hn (by omega)).2]
        simp

/-! ## `setSlot`, the `then` branch -/

theorem nc_search_all_lt {β : Type} (es : List (Key × β)) (k : Key) (hs : search es k = es.length) :
    ∀ (i : Nat) (e : Key × β), es[i]? = some e → e.1 < k := by
  obtain ⟨l, r, hes, hl, hlt, _⟩ := search_spec es k
  have hr : r = [] := by
    have := congrArg List.length hes
    rw [List.length_append] at this
    exact List.eq_nil_of_length_eq_zero (by omega)
  subst hr
  rw [List.append_nil] at hes
  subst hes
  intro i e he
  exact hlt e (List.mem_of_getElem? he)

theorem nc_entWords_snoc_null (es : List (Key × Node)) (k : Key) :
    entWords (es ++ [(k, Node.null)]) = entWords es ++ [(k, 0#64)] := by
  rw [entWords_eq_mapV, entWords_eq_mapV, mapV_append]; rfl

theorem setSlot_fill {cfg : Cfg} (hc : CfgFlat cfg) (t : St) (hsmall : t.data.size < 2 ^ 40) (p : Nat)
    (es : List (Key × Node)) (k : Key) (hk0 : k ≠ 0#64)
    (hpg : PageOf cfg t.data p false (entWords es)) (hlen : es.length < cfg.maxKeys)
    (hs : search es k = es.length) :
    ∃ pg, pg.size = pw cfg ∧
      setSlot (w cfg.maxKeys) t (refOf cfg t p) (w es.length) k 0#64 =
        some { t with data := setPage cfg t.data p pg } ∧
      PageOf cfg (setPage cfg t.data p pg) p false (entWords (es ++ [(k, Node.null)])) := by
  have _ := hsmall
  have hmk := hc.mkLt
  have hpw := hc.pw_lt
  have hpwd : pw cfg = 2 * (cfg.maxKeys + 1) := rfl
  have hfit := hpg.fit
  obtain ⟨P, hPdef⟩ : ∃ P, P = pageOf cfg t.data p := ⟨_, rfl⟩
  have hok : PageOk cfg.maxKeys P := hPdef ▸ hpg.ok
  have hPs : P.size = pw cfg := hok.1
  have hents : ents cfg.maxKeys P = entWords es := hPdef ▸ hpg.ents
  have hnk : nkeys cfg.maxKeys P = es.length := by rw [← ents_length, hents, entWords_length]
  have hlt : ∀ i, i < nkeys cfg.maxKeys P → keyW P i < k := by
    intro i hi
    have h2 := ents_get? (mk := cfg.maxKeys) (p := P) i
    rw [if_pos hi, hents, entWords_get?] at h2
    cases he : es[i]? with
    | none => rw [he] at h2; simp at h2
    | some e =>
      rw [he] at h2
      simp only [Option.map_some, Option.some.injEq, Prod.mk.injEq] at h2
      rw [← h2.1]; exact nc_search_all_lt es k hs i e he
  obtain ⟨P2, h2, hs2, hok2, hl2, hk2, hp2, he2⟩ := nc_fill_page hmk hok k hk0 (by omega) hlt
  rw [hnk] at h2
  have hP1s : (P.set! (2 * es.length) k).size = pw cfg := by rw [RV.size_set!]; exact hPs
  have hP2s : P2.size = pw cfg := by omega
  refine ⟨P2, hP2s, ?_, ?_⟩
  · unfold setSlot
    simp only [beq_self_eq_true, if_true, keyOffset_w, refOf]
    rw [wrNode_win (cfg := cfg) t p t.epoch rfl hfit _ (P.set! (2 * es.length) k)
      (by rw [← hPdef]; exact setAt_w k (by omega) (by omega)) hP1s]
    simp only [Option.bind_some]
    have hfit1 : (p + 1) * pw cfg ≤ (setPage cfg t.data p (P.set! (2 * es.length) k)).size := by
      rw [setPage_size]; exact hfit
    rw [rdNode_win (cfg := cfg) { t with data := setPage cfg t.data p (P.set! (2 * es.length) k) } p t.epoch rfl hfit1]
    simp only []
    rw [pageOf_setPage_self _ _ _ hfit hP1s, numKeys_w (mk := cfg.maxKeys) (by omega) (by omega)]
    have hn1 : nkeys cfg.maxKeys (P.set! (2 * es.length) k) = es.length := by
      rw [← hnk]; unfold nkeys metaW; rw [RV.get!_set!_ne _ _ _ _ (by omega)]
    rw [hn1]
    simp only [Option.bind_some, NodeFlat.w_add_one]
    rw [wrNode_win (cfg := cfg) { t with data := setPage cfg t.data p (P.set! (2 * es.length) k) } p t.epoch rfl hfit1 _ P2
      (by simp only []; rw [pageOf_setPage_self _ _ _ hfit hP1s]; exact h2) hP2s]
    simp only [Option.bind_some, setPage_setPage _ _ _ _ hfit hP1s hP2s]
  · have hself := pageOf_setPage_self (cfg := cfg) t.data p P2 hfit hP2s
    refine ⟨hpg.pos, by rw [setPage_size]; exact hfit, ?_, ?_, ?_, ?_, ?_⟩
    · rw [hself]; exact hok2
    · rw [hself, hl2, hPdef]; exact hpg.isLeaf
    · rw [hself, hk2, hPdef]; exact hpg.kind
    · rw [hself, hp2, hPdef]; exact hpg.pid
    · rw [hself, he2, hents, nc_entWords_snoc_null]

/-! ## page level: overwriting the value word of an existing entry -/

theorem nc_setval_page {mk : Nat} {P : NodeFlat.Page} (hok : PageOk mk P) (i : Nat) (hi : i < nkeys mk P) (v : Val) :
    PageOk mk (P.set! (2 * i + 1) v) ∧ leafBit mk (P.set! (2 * i + 1) v) = leafBit mk P ∧
      kindBits mk (P.set! (2 * i + 1) v) = kindBits mk P ∧ pidW mk (P.set! (2 * i + 1) v) = pidW mk P ∧
      ents mk (P.set! (2 * i + 1) v) = (ents mk P).set i (keyW P i, v) := by
  obtain ⟨hs, hnle, hnz, hinc, hzero⟩ := hok
  have hmeta : metaW mk (P.set! (2 * i + 1) v) = metaW mk P := by
    unfold metaW; rw [RV.get!_set!_ne _ _ _ _ (by omega)]
  have hnk : nkeys mk (P.set! (2 * i + 1) v) = nkeys mk P := by unfold nkeys; rw [hmeta]
  have hkey : ∀ j, keyW (P.set! (2 * i + 1) v) j = keyW P j := by
    intro j; unfold keyW; rw [RV.get!_set!_ne _ _ _ _ (by omega)]
  have hval : ∀ j, j ≠ i → valW (P.set! (2 * i + 1) v) j = valW P j := by
    intro j hj; unfold valW; rw [RV.get!_set!_ne _ _ _ _ (by omega)]
  have hvi : valW (P.set! (2 * i + 1) v) i = v := by
    unfold valW; rw [RV.get!_set!_self _ _ _ (by omega)]
  refine ⟨⟨by rw [RV.size_set!]; exact hs, by omega, ?_, ?_, ?_⟩, ?_, ?_, ?_, ?_⟩
  · intro j hj; rw [hnk] at hj; rw [hkey]; exact hnz j hj
  · intro j hj hj1; rw [hnk] at hj hj1; rw [hkey, hkey]; exact hinc j hj hj1
  · intro j hj hnj; rw [hnk] at hnj; rw [hkey, hval j (by omega)]; exact hzero j hj hnj
  · unfold leafBit; rw [hmeta]
  · unfold kindBits; rw [hmeta]
  · unfold pidW; rw [RV.get!_set!_ne _ _ _ _ (by omega)]
  · apply ents_eq_of
    · rw [hnk, List.length_set, ents_length]
    · intro j hj
      rw [List.length_set, ents_length] at hj
      rw [List.getElem?_set, ents_length]
      by_cases e : i = j
      · subst e
        rw [if_pos rfl, if_pos hi, hkey, hvi]
      · rw [if_neg e, ents_get?, if_pos hj, hkey, hval j (Ne.symm e)]

/-! ## `setChild`, the `then` branch -/

theorem nc_entWords_set_leaf (es : List (Key × Node)) (i : Nat) (ki : Key) (q : Nat) :
    entWords (es.set i (ki, Node.leaf q [])) = (entWords es).set i (ki, w q) := by
  rw [entWords_eq_mapV, entWords_eq_mapV, mapV_set]; rfl

theorem setChild_new {cfg : Cfg} (hc : CfgFlat cfg) (t : St) (a : Alloc) (hinv : AllocInv cfg t a)
    (hb1 : (a.nextPage + 1) * pw cfg < 2 ^ 40)
    (p : Nat) (es : List (Key × Node)) (i : Nat) (ki : Key) (hi : es[i]? = some (ki, Node.null))
    (hpg : PageOf cfg t.data p false (entWords es)) (hpfree : p ∉ a.free) (hplt : p < a.nextPage) (ref0 : NodeRef) :
    ∃ t', setChild (w cfg.pageSize) (w cfg.maxKeys) t ref0 NodeRef.nil (w p) (w i) =
        some (t', refOf cfg t' p, refOf cfg t' (RV.Tree.newNode cfg a).1) ∧
      AllocInv cfg t' (RV.Tree.newNode cfg a).2 ∧
      PageOf cfg t'.data p false (entWords (es.set i (ki, Node.leaf (RV.Tree.newNode cfg a).1 []))) ∧
      PageOf cfg t'.data (RV.Tree.newNode cfg a).1 true [] ∧
      t.data.size ≤ t'.data.size ∧
      (∀ r, r ≠ p → r ≠ (RV.Tree.newNode cfg a).1 → (r + 1) * pw cfg ≤ t.data.size →
        pageOf cfg t'.data r = pageOf cfg t.data r) ∧
      ((RV.Tree.newNode cfg a).1 ∈ a.free ∨
        ((RV.Tree.newNode cfg a).1 = a.nextPage ∧ (RV.Tree.newNode cfg a).2.nextPage = a.nextPage + 1)) ∧
      (RV.Tree.newNode cfg a).1 ∉ (RV.Tree.newNode cfg a).2.free ∧
      a.nextPage ≤ (RV.Tree.newNode cfg a).2.nextPage ∧
      (∀ q ∈ (RV.Tree.newNode cfg a).2.free, q ∈ a.free) := by
  have hmk := hc.mkLt
  have hpw := hc.pw_lt
  have hpwd : pw cfg = 2 * (cfg.maxKeys + 1) := rfl
  obtain ⟨t1, h1, o⟩ := newNode_refines hc t a hinv.scal hinv.chain hinv.nodup hinv.below hinv.npos hb1 hinv.small true
  obtain ⟨q, hqdef⟩ : ∃ q, q = (RV.Tree.newNode cfg a).1 := ⟨_, rfl⟩
  rw [← hqdef] at o h1 ⊢
  have hpq : p ≠ q := by
    rcases o.which with h | ⟨h, _⟩
    · intro e; exact hpfree (e ▸ h)
    · omega
  have hfp1 : (p + 1) * pw cfg ≤ t1.data.size := by have := o.grow; have := hpg.fit; omega
  have hfq1 := o.fit
  -- the parent page, unchanged by `newNode`
  obtain ⟨P, hPdef⟩ : ∃ P, P = pageOf cfg t1.data p := ⟨_, rfl⟩
  have hP0 : P = pageOf cfg t.data p := by rw [hPdef]; exact o.frame p hpq hpg.fit
  have hok : PageOk cfg.maxKeys P := hP0 ▸ hpg.ok
  have hPs : P.size = pw cfg := hok.1
  have hents : ents cfg.maxKeys P = entWords es := hP0 ▸ hpg.ents
  have hnk : nkeys cfg.maxKeys P = es.length := by rw [← ents_length, hents, entWords_length]
  have hil : i < es.length := by
    rcases Nat.lt_or_ge i es.length with h | h
    · exact h
    · rw [List.getElem?_eq_none h] at hi; cases hi
  have hle : es.length ≤ cfg.maxKeys := by rw [← hnk]; exact hok.2.1
  have hkeyi : keyW P i = ki := by
    have h2 := ents_get? (mk := cfg.maxKeys) (p := P) i
    rw [if_pos (by omega), hents, entWords_get?, hi] at h2
    simp only [Option.map_some, Option.some.injEq, Prod.mk.injEq] at h2
    exact h2.1.symm
  obtain ⟨hok', hl', hk', hp', he'⟩ := nc_setval_page hok i (by omega) (w q)
  obtain ⟨P', hP'def⟩ : ∃ P', P' = P.set! (2 * i + 1) (w q) := ⟨_, rfl⟩
  rw [← hP'def] at hok' hl' hk' hp' he'
  have hP's : P'.size = pw cfg := hok'.1
  -- the fresh page
  have hQs : (pageOf cfg t1.data q).size = pw cfg := o.fresh.size
  have hkw : (9223372036854775808#64 : BitVec 64) = kindWord true := rfl
  refine ⟨{ t1 with data := setPage cfg t1.data p P' }, ?_, ?_, ?_, ?_, ?_, ?_, o.which, o.notFree, o.nextMono, o.freeSub⟩
  · unfold setChild
    simp only [Gen.TreeM.isNil, if_true]
    rw [hkw, h1]
    simp only [Option.bind_some]
    rw [node_w hc t1 p hpg.pos hfp1 o.small]
    simp only [Option.bind_some]
    rw [rdNode_refOf t1 q hfq1, pageID_w (mk := cfg.maxKeys) (p := pageOf cfg t1.data q) (by omega) (by omega), o.fresh.pid]
    simp only [Option.bind_some, valOffset_w]
    rw [wrNode_refOf t1 p hfp1 _ P'
      (by rw [← hPdef, hP'def]; exact setAt_w (p := P) (j := 2 * i + 1) (w q) (by omega) (by omega)) hP's]
    rfl
  · refine AllocInv.ofNewNode hinv ⟨o.scal.nextPage, o.scal.freePage, o.scal.leafKeys, o.scal.pagesFree, ?_,
      o.scal.curSz, o.scal.bufOffset, o.scal.fault⟩ ?_ o.nextMono ?_
    · simp only [setPage_size]; exact o.scal.dataLen
    · simp only []
      refine freeChain_frame (by rw [setPage_size]; exact Nat.le_refl _) _ (fun r hr hfr => ?_) o.chain
      have hrp : r ≠ p := fun e => hpfree (e ▸ o.freeSub r hr)
      exact pageOf_setPage_ne _ _ _ _ hrp hfp1 hfr hP's
    · simp only [setPage_size]; exact o.small
  · have hself := pageOf_setPage_self (cfg := cfg) t1.data p P' hfp1 hP's
    refine ⟨hpg.pos, by simp only [setPage_size]; exact hfp1, ?_, ?_, ?_, ?_, ?_⟩
    · simp only []; rw [hself]; exact hok'
    · simp only []; rw [hself, hl', hP0]; exact hpg.isLeaf
    · simp only []; rw [hself, hk', hP0]; exact hpg.kind
    · simp only []; rw [hself, hp', hP0]; exact hpg.pid
    · simp only []; rw [hself, he', hents, hkeyi, nc_entWords_set_leaf]
  · have hne := pageOf_setPage_ne (cfg := cfg) t1.data p q P' (Ne.symm hpq) hfp1 hfq1 hP's
    refine ⟨o.pos, by simp only [setPage_size]; exact hfq1, ?_, ?_, ?_, ?_, ?_⟩
    · simp only []; rw [hne]; exact o.fresh.ok
    · simp only []; rw [hne]; exact o.fresh.isLeaf
    · simp only []; rw [hne]; exact o.fresh.kind
    · simp only []; rw [hne]; exact o.fresh.pid
    · simp only []; rw [hne]; exact o.fresh.ents
  · simp only [setPage_size]; exact o.grow
  · intro r hrp hrq hfr
    simp only []
    rw [pageOf_setPage_ne _ _ _ _ hrp hfp1 (by have := o.grow; omega) hP's]
    exact o.frame r hrq hfr

end RV.TreeFlat
