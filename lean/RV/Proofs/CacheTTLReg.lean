import RV.Proofs.CacheTTLLive
/-!
# `registered_inv`: every stored entry with a TTL is registered in the expiry index (C14 i)

`ClearInv`: `Clear` has emptied the store when it resets the index (needs the stop/done handshake:
the applier is not running meanwhile).  `RegInv lo`: every stored entry with `exp ≠ zeroTime` is
registered with its conflict in a bucket `b'` that is still ahead of the sweep (`lastCleaned < b'`;
`b'` is `bucketOf exp`, or `lastCleaned + 1` when the entry arrived after its own bucket had been
cleaned up — the repair of finding F6), or that bucket has been grabbed by the running
sweep, which still has the key to do (`Grabbed`), or (`Lost`) a sweep whose clock read `now` covered
the bucket skipped the key because `now < exp` — which is arithmetically impossible for sane times
(`lost_impossible`).  `lo` is the clock at which the cache was created.
The statement is existential in the bucket, so it tolerates stale index entries (`Em.del`/`Em.update`
look the key up under `bucketOf oldExp` and may leave the key behind in a clamped bucket; the sweep's
`DelExpired` re-checks).
-/
namespace RV.Cache
open Gen.Cache

theorem evictAll_em_t (s : State) (st : Store) (ks : List Hash) : (evictAll s st ks).em = s.em := by
  induction ks generalizing s with
  | nil => rfl
  | cons k rest ih => unfold evictAll; split <;> simp [ih]

/-- pcs of `Clear` between the first shard and the reset of the expiry index -/
def CPc.clrPc : CPc → Bool
  | .clrShard .. => true
  | .clrEm _ => true
  | _ => false

@[simp] theorem unblockedPc_clrPc (pc : CPc) : (unblockedPc pc).clrPc = pc.clrPc := by cases pc <;> rfl

theorem unblockedPc_eq_of_clrPc {pc : CPc} (h : (unblockedPc pc).clrPc = true) : unblockedPc pc = pc := by
  cases pc <;> simp_all [unblockedPc, CPc.clrPc]

/-- what a client step of thread `t` does to the store, the expiry index and the `Clear` pcs -/
inductive ClientSE (cfg : Cfg) (s s' : State) (t : Tid) : Prop
  | same : s'.store = s.store → s'.em = s.em →
      ((s'.cl t).clrPc = false ∨ ∃ closing, s.cl t = .clrPolicy closing ∧ s'.cl t = .clrShard closing 0) →
      ClientSE cfg s s' t
  | upd (i : Item) : s.cl t = .setUpd i → s'.store = (storeUpdate cfg s.store s.em i).1 →
      s'.em = (storeUpdate cfg s.store s.em i).2.1 → (s'.cl t).clrPc = false → ClientSE cfg s s' t
  | del (h : Hash) (c : Conf) : s.cl t = .delStart h c → s'.store = (storeDel s.store s.em h c).1 →
      s'.em = (storeDel s.store s.em h c).2.1 → (s'.cl t).clrPc = false → ClientSE cfg s s' t
  | clr (closing : Bool) (k : Nat) (ks : List Hash) : s.cl t = .clrShard closing k → k < numShards.toNat →
      isShardOrder s.store k ks = true → s'.store = eraseAll s.store ks → s'.em = s.em →
      s'.cl t = (if k + 1 = numShards.toNat then .clrEm closing else .clrShard closing (k + 1)) → ClientSE cfg s s' t
  | emClear (closing : Bool) : s.cl t = .clrEm closing → s'.store = s.store → s'.em = s.em.clear s.clock →
      s'.cl t = .clrMetrics closing → ClientSE cfg s s' t

open Lean in
macro "se_frame " f:ident : tactic =>
  `(tactic| (refine ClientSE.same (by simp) (by simp) (Or.inl ?_)
             unfold $f; (try dsimp only); (repeat' split) <;> simp [CPc.clrPc, logEv]))

theorem clientStep_se {cfg : Cfg} {s s' : State} {t : Tid} {ch : Choice}
    (hs : clientStep cfg s t ch = some s') : ClientSE cfg s s' t := by
  apply clientStep_cases hs (motive := fun s' => ClientSE cfg s s' t)
  case setUpd =>
    intro i hpc _
    refine .upd i hpc ?_ ?_ ?_ <;> (unfold stSetUpd; dsimp only; split <;> simp [CPc.clrPc])
  case delStart =>
    intro h c hpc _
    unfold stDelStart
    split
    · exact .same rfl rfl (Or.inl (by simp [logEv, CPc.clrPc]))
    · exact .del h c hpc rfl rfl (by simp [CPc.clrPc])
  case clrPolicy =>
    intro closing hpc _
    exact .same rfl rfl (Or.inr ⟨closing, hpc, by simp [stClrPolicy]⟩)
  case clrShard =>
    intro closing k hpc hr
    unfold stClrShard at hr
    split at hr
    · rename_i ks
      split at hr
      · simp at hr
      · rename_i hk
        split at hr
        · simp at hr
        · rename_i hord
          simp only [Option.some.injEq] at hr; subst hr
          exact .clr closing k ks hpc (by omega) (by simpa using hord) (by simp [evictAll_store])
            (by simp [evictAll_em_t]) (by simp)
    · simp at hr
  case clrEm =>
    intro closing hpc _
    exact .emClear closing hpc rfl rfl (by simp [stClrEm])
  case getStart =>
    intro h c _ hr
    unfold stGetStart at hr
    dsimp only at hr
    split at hr
    · simp only [Option.some.injEq] at hr; subst hr; exact .same rfl rfl (Or.inl (by simp [logEv, CPc.clrPc]))
    · split at hr
      · simp only [Option.some.injEq] at hr; subst hr; exact .same rfl rfl (Or.inl (by simp [CPc.clrPc]))
      · split at hr
        · simp at hr
        · simp only [Option.some.injEq] at hr; subst hr; exact .same (by simp) (by simp) (Or.inl (by simp [CPc.clrPc]))
      · simp at hr
  case iterShard =>
    intro k n seen _ hr
    unfold stIterShard at hr
    dsimp only at hr
    split at hr
    · split at hr
      · simp at hr
      · split at hr
        · simp at hr
        · split at hr <;> (simp only [Option.some.injEq] at hr; subst hr; exact .same rfl rfl (Or.inl (by simp [logEv, CPc.clrPc])))
    · simp at hr
  case clrDrain =>
    intro closing hpc _
    unfold stClrDrain
    split
    · exact .same rfl rfl (Or.inl (by simp [CPc.clrPc]))
    · rename_i id s1 hr
      refine .same (by simp [recvBuf_store hr]) (by simp [recvBuf_em hr]) (Or.inl ?_)
      rcases recvBuf_cl hr t with e | e <;> simp [e, hpc, CPc.clrPc, unblockedPc]
    · rename_i i s1 hr
      have : (s1.cl t).clrPc = false := by rcases recvBuf_cl hr t with e | e <;> simp [e, hpc, CPc.clrPc, unblockedPc]
      split <;> exact .same (by simp [recvBuf_store hr]) (by simp [recvBuf_em hr]) (Or.inl (by simpa using this))
  case waitRecv =>
    intro id _ _ hr
    refine .same (stWaitRecv_store _ _ _ hr) (stWaitRecv_em _ _ _ hr) (Or.inl ?_)
    unfold stWaitRecv at hr; split at hr
    · simp only [Option.some.injEq] at hr; subst hr; simp [CPc.clrPc]
    · simp at hr
  case setStart => intros; se_frame stSetStart
  case setExit => intros; se_frame stSetExit
  case setSend => intros; se_frame stSetSend
  case setRetTrue => intros; se_frame stSetRetTrue
  case setRetDrop => intros; se_frame stSetRetDrop
  case delExit => intros; se_frame stDelExit
  case delSend => intros; refine ClientSE.same (by simp) (by simp) (Or.inl ?_); unfold stDelSend sendBlocking; split <;> simp [CPc.clrPc]
  case delSent => intros; se_frame stDelSent
  case waitStart => intros; se_frame stWaitStart
  case waitSend => intros; refine ClientSE.same (by simp) (by simp) (Or.inl ?_); unfold stWaitSend sendBlocking; split <;> simp [CPc.clrPc]
  case waitDone => intros; se_frame stWaitDone
  case getRead => intros; se_frame stGetRead
  case getCheck => intros; se_frame stGetCheck
  case getMetric => intros; se_frame stGetMetric
  case ttlRead => intros; se_frame stTtlRead
  case ttlCheck => intros; se_frame stTtlCheck
  case ttlExp => intros; se_frame stTtlExp
  case ttlNow => intros; se_frame stTtlNow
  case ttlUntil => intros; se_frame stTtlUntil
  case iterStart => intros; se_frame stIterStart
  case clrStart => intros; se_frame stClrStart
  case clrMetrics => intros; se_frame stClrMetrics
  case clrRestart => intros; se_frame stClrRestart
  case clsFinish => intros; se_frame stClsFinish
  case updMax => intros; se_frame stUpdMax
  case readMax => intros; se_frame stReadMax
  case readRem => intros; se_frame stReadRem

open Lean in
macro "cl_ne " f:ident : tactic => do
  let clne := mkIdent (f.getId.appendAfter "_cl_ne")
  `(tactic| (rename_i hne; exact Or.inl ($clne (hne := hne) ..)))

/-- a client step of `t` changes another thread's pc at most by completing its blocked send -/
theorem clientStep_cl_other {cfg : Cfg} {s s' : State} {t : Tid} {ch : Choice}
    (hs : clientStep cfg s t ch = some s') :
    ∀ t', t' ≠ t → s'.cl t' = s.cl t' ∨ s'.cl t' = unblockedPc (s.cl t') := by
  apply clientStep_cases hs (motive := fun s' => ∀ t', t' ≠ t → s'.cl t' = s.cl t' ∨ s'.cl t' = unblockedPc (s.cl t'))
  case setStart => intros; cl_ne stSetStart
  case setUpd => intros; cl_ne stSetUpd
  case setExit => intros; cl_ne stSetExit
  case setSend => intros; cl_ne stSetSend
  case setRetTrue => intros; cl_ne stSetRetTrue
  case setRetDrop => intros; cl_ne stSetRetDrop
  case delStart => intros; cl_ne stDelStart
  case delExit => intros; cl_ne stDelExit
  case delSend => intros; cl_ne stDelSend
  case delSent => intros; cl_ne stDelSent
  case waitStart => intros; cl_ne stWaitStart
  case waitSend => intros; cl_ne stWaitSend
  case waitDone => intros; cl_ne stWaitDone
  case getRead => intros; cl_ne stGetRead
  case getCheck => intros; cl_ne stGetCheck
  case getMetric => intros; cl_ne stGetMetric
  case ttlRead => intros; cl_ne stTtlRead
  case ttlCheck => intros; cl_ne stTtlCheck
  case ttlNow => intros; cl_ne stTtlNow
  case ttlUntil => intros; cl_ne stTtlUntil
  case iterStart => intros; cl_ne stIterStart
  case clrStart => intros; cl_ne stClrStart
  case clrPolicy => intros; cl_ne stClrPolicy
  case clrEm => intros; cl_ne stClrEm
  case clrMetrics => intros; cl_ne stClrMetrics
  case clrRestart => intros; cl_ne stClrRestart
  case clsFinish => intros; cl_ne stClsFinish
  case updMax => intros; cl_ne stUpdMax
  case readMax => intros; cl_ne stReadMax
  case readRem => intros; cl_ne stReadRem
  case ttlExp =>
    intro h c _ _ t' hne
    unfold stTtlExp; dsimp only; split <;> exact Or.inl (by simp [logEv, setCl_cl_ne _ _ _ hne])
  case waitRecv => intro id _ _ hr t' hne; exact Or.inl (stWaitRecv_cl_ne _ _ _ hr hne)
  case getStart => intro h c _ hr t' hne; exact Or.inl ((stGetStart_frame hr).1 t' hne)
  case iterShard => intro k n seen _ hr t' hne; exact Or.inl ((stIterShard_frame hr).1 t' hne)
  case clrDrain =>
    intro closing _ _ t' hne
    unfold stClrDrain
    split
    · exact Or.inl (by simp [setCl_cl_ne _ _ _ hne])
    · rename_i hr; exact recvBuf_cl hr t'
    · rename_i hr; split
      · simpa using recvBuf_cl hr t'
      · exact recvBuf_cl hr t'
  case clrShard =>
    intro closing k _ hr t' hne
    unfold stClrShard at hr
    split at hr
    · split at hr
      · simp at hr
      · split at hr
        · simp at hr
        · simp only [Option.some.injEq] at hr; subst hr
          exact Or.inl (by simp [setCl_cl_ne _ _ _ hne, evictAll_cl])
    · simp at hr

/-! ### `Clear` empties the store before it resets the expiry index -/

theorem eraseAll_lookup_none {st : Store} {ks : List Hash} {key : Hash} (h : st.lookup key = none) :
    (eraseAll st ks).lookup key = none := by
  cases hl : (eraseAll st ks).lookup key with
  | none => rfl
  | some e => rw [eraseAll_lookup hl] at h; cases h

theorem eraseAll_lookup_mem {st : Store} {ks : List Hash} {key : Hash} (h : key ∈ ks) :
    (eraseAll st ks).lookup key = none := by
  induction ks generalizing st with
  | nil => simp at h
  | cons x rest ih =>
    unfold eraseAll
    rcases List.mem_cons.mp h with rfl | h
    · exact eraseAll_lookup_none (AMap.lookup_erase_self ..)
    · exact ih h

/-- after `Clear` has emptied shard `k`, no key of that shard is left -/
theorem shard_cleared {st : Store} {k : Nat} {ks : List Hash} {key : Hash} {e : Entry}
    (hord : isShardOrder st k ks = true) (hl : (eraseAll st ks).lookup key = some e) : shardIdx key ≠ k := by
  intro hk
  have h0 := eraseAll_lookup hl
  have hmem : key ∈ shardKeys st k := by
    unfold shardKeys
    exact List.mem_filter.mpr ⟨AMap.mem_keys_of_lookup h0, by simpa using hk⟩
  unfold isShardOrder at hord
  simp only [Bool.and_eq_true, List.all_eq_true] at hord
  have := hord.2 key hmem
  rw [eraseAll_lookup_mem (by simpa using this)] at hl
  cases hl

theorem shardIdx_lt (key : Hash) : shardIdx key < numShards.toNat := by
  unfold shardIdx shardOf
  have : (256#64).toNat = 256 := by decide
  have h2 : numShards.toNat = 256 := by decide
  rw [BitVec.toNat_umod, this, h2]
  omega

structure ClearInv (s : State) : Prop where
  shard : ∀ t closing k, s.cl t = .clrShard closing k → ∀ key e, s.store.lookup key = some e → k ≤ shardIdx key
  em : ∀ t closing, s.cl t = .clrEm closing → ∀ key, s.store.lookup key = none

theorem storeUpdate_lookup_sub {cfg : Cfg} {st : Store} {em : Em} {i : Item} {k : Hash} {e : Entry}
    (h : (storeUpdate cfg st em i).1.lookup k = some e) : ∃ e', st.lookup k = some e' := by
  unfold storeUpdate at h
  split at h
  · exact ⟨e, h⟩
  · rename_i e0 he0
    split at h
    · exact ⟨e, h⟩
    · dsimp only at h
      split at h
      · exact ⟨e, h⟩
      · rw [AMap.lookup_insert] at h
        split at h
        · rename_i hk; subst hk; exact ⟨e0, he0⟩
        · exact ⟨e, h⟩

theorem ClientSE.store_sub {cfg : Cfg} {s s' : State} {t : Tid} (h : ClientSE cfg s s' t) :
    ∀ key e', s'.store.lookup key = some e' → ∃ e, s.store.lookup key = some e := by
  intro key e' hl
  cases h with
  | same h1 => rw [h1] at hl; exact ⟨e', hl⟩
  | upd i _ h1 => rw [h1] at hl; exact storeUpdate_lookup_sub hl
  | del hh c _ h1 => rw [h1] at hl; exact ⟨e', storeDel_lookup hl⟩
  | clr closing k ks _ _ _ h1 => rw [h1] at hl; exact ⟨e', eraseAll_lookup hl⟩
  | emClear closing _ h1 => rw [h1] at hl; exact ⟨e', hl⟩

theorem applierStep_cl_other {cfg : Cfg} {s s' : State} {ch : Choice} (hs : applierStep cfg s ch = some s') :
    ∀ t, s'.cl t = s.cl t ∨ s'.cl t = unblockedPc (s.cl t) ∨ (s'.cl t).waitingDone = true := by
  apply applierStep_cases hs (motive := fun s' => ∀ t, s'.cl t = s.cl t ∨ s'.cl t = unblockedPc (s.cl t) ∨ (s'.cl t).waitingDone = true)
  case idle =>
    intro _ hr t
    unfold apIdle at hr
    split at hr
    · unfold apSelItem at hr
      split at hr
      · simp at hr
      · rename_i hrecv; simp only [Option.some.injEq] at hr; subst hr
        rcases recvBuf_cl hrecv t with e | e
        · exact Or.inl e
        · exact Or.inr (Or.inl e)
      · rename_i hrecv; simp only [Option.some.injEq] at hr; subst hr
        rcases recvBuf_cl hrecv t with e | e
        · exact Or.inl e
        · exact Or.inr (Or.inl e)
    · simp only [Option.some.injEq] at hr; subst hr; exact Or.inl rfl
    · rename_i t0
      unfold apSelStop at hr
      split at hr
      · simp only [Option.some.injEq] at hr; subst hr
        by_cases e : t = t0
        · subst e; exact Or.inr (Or.inr (by simp [CPc.waitingDone]))
        · exact Or.inl (by simp [setCl_cl_ne _ _ _ e])
      · simp only [Option.some.injEq] at hr; subst hr
        by_cases e : t = t0
        · subst e; exact Or.inr (Or.inr (by simp [CPc.waitingDone]))
        · exact Or.inl (by simp [setCl_cl_ne _ _ _ e])
      · simp at hr
    · simp at hr
  case costed =>
    intro i _ hr t
    unfold apCosted at hr
    split at hr
    · exact Or.inl (by rw [apCostedNew_cl _ _ _ _ hr])
    · obtain ⟨_, hr⟩ := needNone_some hr
      simp only [Option.some.injEq] at hr; subst hr; exact Or.inl rfl
    · obtain ⟨_, hr⟩ := needNone_some hr
      simp only [Option.some.injEq] at hr; subst hr; exact Or.inl rfl
  case victims => intro vs _ _ hr t; exact Or.inl (by rw [apVictims_cl _ _ hr])
  case sweep => intro now bs _ hr t; exact Or.inl (by rw [apSweep_cl _ _ _ _ hr])
  all_goals (intros; exact Or.inl (by simp))

theorem applierStep_dead {cfg : Cfg} {s : State} {ch : Choice} (h : s.app = .dead) : applierStep cfg s ch = none := by
  unfold applierStep; rw [h]

theorem clrPc_busy {pc : CPc} (h : pc.clrPc = true) : pc.busy = true := by
  cases pc <;> simp_all [CPc.clrPc, CPc.busy]

/-- pcs of other threads that are `Clear` pcs did not move -/
theorem clr_unmoved {pc pc' : CPc} (hclr : pc'.clrPc = true)
    (h : pc' = pc ∨ pc' = unblockedPc pc ∨ pc'.waitingDone = true) : pc' = pc := by
  rcases h with h | h | h
  · exact h
  · rw [h] at hclr ⊢; exact unblockedPc_eq_of_clrPc hclr
  · cases pc' <;> simp_all [CPc.clrPc, CPc.waitingDone]

theorem clearInv_step {cfg : Cfg} {s s' : State} {a : Action} (hh : Handshake s) (h : ClearInv s)
    (hs : step cfg s a = some s') : ClearInv s' := by
  -- generic: the store did not gain keys and thread `t`'s Clear pc did not move
  have frame : (∀ key e', s'.store.lookup key = some e' → ∃ e, s.store.lookup key = some e) →
      ∀ t, s'.cl t = s.cl t →
        (∀ closing k, s'.cl t = .clrShard closing k → ∀ key e, s'.store.lookup key = some e → k ≤ shardIdx key) ∧
        (∀ closing, s'.cl t = .clrEm closing → ∀ key, s'.store.lookup key = none) := by
    intro hsub t hcl
    constructor
    · intro closing k hpc key e hl
      obtain ⟨e0, hl0⟩ := hsub key e hl
      exact h.shard t closing k (by rw [← hcl]; exact hpc) key e0 hl0
    · intro closing hpc key
      cases hl : s'.store.lookup key with
      | none => rfl
      | some e =>
        obtain ⟨e0, hl0⟩ := hsub key e hl
        rw [h.em t closing (by rw [← hcl]; exact hpc) key] at hl0; cases hl0
  cases a with
  | spawn t0 c =>
    have hs' : spawnStep s t0 c = some s' := hs
    have hsub : ∀ key e', s'.store.lookup key = some e' → ∃ e, s.store.lookup key = some e :=
      fun key e' hl => ⟨e', by rw [← spawnStep_store _ _ _ hs']; exact hl⟩
    have hown : (s'.cl t0).clrPc = false := by
      unfold spawnStep at hs'
      split at hs'
      · cases c <;> (simp only [Option.some.injEq] at hs'; subst hs'; simp [logEv, CPc.clrPc])
      · simp at hs'
    constructor
    · intro t closing k hpc
      by_cases e : t = t0
      · subst e; rw [hpc] at hown; simp [CPc.clrPc] at hown
      · exact (frame hsub t (spawnStep_cl_ne _ _ _ hs' e)).1 closing k hpc
    · intro t closing hpc
      by_cases e : t = t0
      · subst e; rw [hpc] at hown; simp [CPc.clrPc] at hown
      · exact (frame hsub t (spawnStep_cl_ne _ _ _ hs' e)).2 closing hpc
  | client t0 ch =>
    have hse := clientStep_se (cfg := cfg) hs
    have hsub := hse.store_sub
    have hoth : ∀ t, t ≠ t0 → (s'.cl t).clrPc = true → s'.cl t = s.cl t := fun t hne hclr =>
      clr_unmoved hclr (by rcases clientStep_cl_other (cfg := cfg) hs t hne with e | e <;> simp [e])
    constructor
    · intro t closing k hpc key e hl
      by_cases ht : t = t0
      · subst ht
        cases hse with
        | same _ _ h3 =>
          rcases h3 with h3 | ⟨closing', _, h3⟩
          · rw [hpc] at h3; simp [CPc.clrPc] at h3
          · rw [hpc] at h3; cases h3; exact Nat.zero_le _
        | upd _ _ _ _ h3 => rw [hpc] at h3; simp [CPc.clrPc] at h3
        | del _ _ _ _ _ h3 => rw [hpc] at h3; simp [CPc.clrPc] at h3
        | clr closing' k' ks hpc' _ hord h1 _ h3 =>
          rw [hpc] at h3
          split at h3
          · cases h3
          · cases h3
            rw [h1] at hl
            have := h.shard t closing k' hpc' key e (eraseAll_lookup hl)
            have := shard_cleared hord hl
            omega
        | emClear _ _ _ _ h3 => rw [hpc] at h3; cases h3
      · exact (frame hsub t (hoth t ht (by rw [hpc]; rfl))).1 closing k hpc key e hl
    · intro t closing hpc key
      by_cases ht : t = t0
      · subst ht
        cases hse with
        | same _ _ h3 =>
          rcases h3 with h3 | ⟨closing', _, h3⟩
          · rw [hpc] at h3; simp [CPc.clrPc] at h3
          · rw [hpc] at h3; cases h3
        | upd _ _ _ _ h3 => rw [hpc] at h3; simp [CPc.clrPc] at h3
        | del _ _ _ _ _ h3 => rw [hpc] at h3; simp [CPc.clrPc] at h3
        | clr closing' k' ks hpc' hk hord h1 _ h3 =>
          rw [hpc] at h3
          split at h3
          · rename_i hlast
            cases hl : s'.store.lookup key with
            | none => rfl
            | some e =>
              rw [h1] at hl
              have := h.shard t closing' k' hpc' key e (eraseAll_lookup hl)
              have := shard_cleared hord hl
              have := shardIdx_lt key
              omega
          · cases h3
        | emClear _ _ _ _ h3 => rw [hpc] at h3; cases h3
      · exact (frame hsub t (hoth t ht (by rw [hpc]; rfl))).2 closing hpc key
  | applier ch =>
    have hs' : applierStep cfg s ch = some s' := hs
    have no : ∀ t, (s'.cl t).clrPc = true → False := fun t hclr => by
      have e := clr_unmoved hclr (applierStep_cl_other hs' t)
      have hb : (s.cl t).busy = true := by rw [← e]; exact clrPc_busy hclr
      rw [applierStep_dead (hh.busy t hb)] at hs'; cases hs'
    constructor
    · intro t closing k hpc; exact absurd (no t (by rw [hpc]; rfl)) id
    · intro t closing hpc; exact absurd (no t (by rw [hpc]; rfl)) id
  | done t0 =>
    have hs' : doneStep s t0 = some s' := hs
    have hsub : ∀ key e', s'.store.lookup key = some e' → ∃ e, s.store.lookup key = some e :=
      fun key e' hl => ⟨e', by rw [← doneStep_store _ _ hs']; exact hl⟩
    have hown : (s'.cl t0).clrPc = false := by
      unfold doneStep at hs'
      split at hs'
      · simp only [Option.some.injEq] at hs'; subst hs'; simp [CPc.clrPc]
      · simp only [Option.some.injEq] at hs'; subst hs'; simp [CPc.clrPc]
      · simp at hs'
    constructor
    · intro t closing k hpc
      by_cases e : t = t0
      · subst e; rw [hpc] at hown; simp [CPc.clrPc] at hown
      · exact (frame hsub t (doneStep_cl_ne _ _ hs' e)).1 closing k hpc
    · intro t closing hpc
      by_cases e : t = t0
      · subst e; rw [hpc] at hown; simp [CPc.clrPc] at hown
      · exact (frame hsub t (doneStep_cl_ne _ _ hs' e)).2 closing hpc
  | tick d =>
    simp only [step, Option.some.injEq] at hs; subst hs
    exact ⟨h.shard, h.em⟩

theorem clearInv_reach {cfg : Cfg} {s : State} (h : Reach cfg s) : ClearInv s :=
  Reach.induction (fun _ => ⟨by intro t closing k hpc; simp [init] at hpc, by intro t closing hpc; simp [init] at hpc⟩)
    (fun _ _ _ hr hp hs => clearInv_step (handshake_reach hr) hp hs) h

/-! ### registration -/

/-- key `k` is registered with conflict `c` in bucket `b` of the index `bk` -/
def RegAt (bk : AMap Int (AMap Hash Conf)) (b : Int) (k : Hash) (c : Conf) : Prop :=
  ∃ m, bk.lookup b = some m ∧ m.lookup k = some c

/-- the entry is registered with its conflict in a bucket `b'` that the sweep has not reached yet:
the bucket of its expiration, or the next one to be cleaned up (late arrival) -/
def Registered (em : Em) (k : Hash) (e : Entry) : Prop :=
  ∃ b', em.lastCleaned < b' ∧ bucketOf e.exp ≤ b' ∧ BucketOk b' ∧
    (b' = bucketOf e.exp ∨ b' = em.lastCleaned + 1) ∧ RegAt em.buckets b' k e.conflict

theorem regAt_insert_self {bk : AMap Int (AMap Hash Conf)} {b : Int} {k : Hash} {c : Conf} :
    RegAt (bk.insert b (((bk.lookup b).getD AMap.empty).insert k c)) b k c :=
  ⟨_, AMap.lookup_insert_self .., AMap.lookup_insert_self ..⟩

theorem regAt_insert_other {bk : AMap Int (AMap Hash Conf)} {b b' : Int} {k k' : Hash} {c c' : Conf}
    (hne : k' ≠ k) (h : RegAt bk b' k' c') : RegAt (bk.insert b (((bk.lookup b).getD AMap.empty).insert k c)) b' k' c' := by
  obtain ⟨m, h1, h2⟩ := h
  by_cases hb : b' = b
  · subst hb
    refine ⟨_, AMap.lookup_insert_self .., ?_⟩
    rw [AMap.lookup_insert_ne _ _ hne, h1]; exact h2
  · exact ⟨m, by rw [AMap.lookup_insert_ne _ _ hb]; exact h1, h2⟩

theorem regAt_erase_other {bk : AMap Int (AMap Hash Conf)} {b0 b' : Int} {k k' : Hash} {c' : Conf}
    (hne : k' ≠ k) (h : RegAt bk b' k' c') :
    RegAt (match bk.lookup b0 with | some m => bk.insert b0 (m.erase k) | none => bk) b' k' c' := by
  obtain ⟨m, h1, h2⟩ := h
  split
  · rename_i m0 hm0
    by_cases hb : b' = b0
    · subst hb
      rw [h1] at hm0; cases hm0
      exact ⟨_, AMap.lookup_insert_self .., by rw [AMap.lookup_erase_ne _ hne]; exact h2⟩
    · exact ⟨m, by rw [AMap.lookup_insert_ne _ _ hb]; exact h1, h2⟩
  · exact ⟨m, h1, h2⟩

theorem em_update_lc (em : Em) (k : Hash) (c : Conf) (old new : Time) :
    (em.update k c old new).lastCleaned = em.lastCleaned := by
  unfold Em.update; dsimp only; split <;> rfl
theorem em_add_lc (em : Em) (k : Hash) (c : Conf) (exp : Time) : (em.add k c exp).lastCleaned = em.lastCleaned := by
  unfold Em.add; split <;> rfl
theorem em_del_lc (em : Em) (k : Hash) (exp : Time) : (em.del k exp).lastCleaned = em.lastCleaned := by
  unfold Em.del; dsimp only; split <;> rfl

theorem em_update_self {em : Em} {k : Hash} {c : Conf} {old new : Time} (hn : new ≠ Gen.zeroTime) :
    RegAt (em.update k c old new).buckets (updateBucket em new) k c := by
  unfold Em.update
  simp only [emUpdateSkip, beq_iff_eq, hn, if_false]
  exact regAt_insert_self

theorem em_update_other {em : Em} {k k' : Hash} {c c' : Conf} {old new : Time} {b' : Int} (hne : k' ≠ k)
    (h : RegAt em.buckets b' k' c') : RegAt (em.update k c old new).buckets b' k' c' := by
  unfold Em.update
  dsimp only
  split
  · exact regAt_erase_other hne h
  · exact regAt_insert_other hne (regAt_erase_other hne h)

theorem em_add_self {em : Em} {k : Hash} {c : Conf} {exp : Time} (hn : exp ≠ Gen.zeroTime) :
    RegAt (em.add k c exp).buckets (addBucket em exp) k c := by
  unfold Em.add
  simp only [emAddSkip, beq_iff_eq, hn, if_false]
  exact regAt_insert_self

theorem em_add_other {em : Em} {k k' : Hash} {c c' : Conf} {exp : Time} {b' : Int} (hne : k' ≠ k)
    (h : RegAt em.buckets b' k' c') : RegAt (em.add k c exp).buckets b' k' c' := by
  unfold Em.add
  split
  · exact h
  · exact regAt_insert_other hne h

theorem em_del_other {em : Em} {k k' : Hash} {c' : Conf} {exp : Time} {b' : Int} (hne : k' ≠ k)
    (h : RegAt em.buckets b' k' c') : RegAt (em.del k exp).buckets b' k' c' := by
  have := regAt_erase_other (b0 := bucketOf exp) (k := k) hne h
  unfold Em.del
  dsimp only
  split <;> rename_i hm <;> simp only [hm] at this <;> exact this

/-- a registration survives an index operation on another key (same `lastCleaned`) -/
theorem Registered.other {em em' : Em} {k : Hash} {e : Entry} (hlc : em'.lastCleaned = em.lastCleaned)
    (hreg : ∀ b', RegAt em.buckets b' k e.conflict → RegAt em'.buckets b' k e.conflict)
    (h : Registered em k e) : Registered em' k e := by
  obtain ⟨b', h1, h2, h3, h4, h5⟩ := h
  exact ⟨b', by rw [hlc]; exact h1, h2, h3, by rw [hlc]; exact h4, hreg b' h5⟩

theorem Registered.update_self {em : Em} {k : Hash} {c : Conf} {v : Val} {old new : Time} (hlc : LcOk em.lastCleaned)
    (hn : new ≠ Gen.zeroTime) : Registered (em.update k c old new) k ⟨c, v, new⟩ := by
  obtain ⟨h1, h2, h3, h4⟩ := updateBucket_spec (em := em) (exp := new) hlc
  exact ⟨updateBucket em new, by rw [em_update_lc]; exact h1, h2, h3, by rw [em_update_lc]; exact h4, em_update_self hn⟩

theorem Registered.add_self {em : Em} {k : Hash} {c : Conf} {v : Val} {exp : Time} (hlc : LcOk em.lastCleaned)
    (hn : exp ≠ Gen.zeroTime) : Registered (em.add k c exp) k ⟨c, v, exp⟩ := by
  obtain ⟨h1, h2, h3, h4⟩ := addBucket_spec (em := em) (exp := exp) hlc
  exact ⟨addBucket em exp, by rw [em_add_lc]; exact h1, h2, h3, by rw [em_add_lc]; exact h4, em_add_self hn⟩

/-- how the entries with a TTL of `(st', em')` relate to `(st, em)`: freshly registered, or
unchanged with their registration kept -/
def Transfer (st : Store) (em : Em) (st' : Store) (em' : Em) : Prop :=
  ∀ k e, st'.lookup k = some e → e.exp ≠ Gen.zeroTime →
    Registered em' k e ∨ (st.lookup k = some e ∧ (Registered em k e → Registered em' k e))

theorem Transfer.refl (st : Store) (em : Em) : Transfer st em st em :=
  fun _ _ hl _ => Or.inr ⟨hl, id⟩

theorem Transfer.of_sub {st st' : Store} {em : Em} (h : ∀ k e, st'.lookup k = some e → st.lookup k = some e) :
    Transfer st em st' em := fun k e hl _ => Or.inr ⟨h k e hl, id⟩

theorem storeUpdate_lc (cfg : Cfg) (st : Store) (em : Em) (i : Item) :
    (storeUpdate cfg st em i).2.1.lastCleaned = em.lastCleaned := by
  unfold storeUpdate
  split
  · rfl
  · split
    · rfl
    · dsimp only; split
      · rfl
      · exact em_update_lc ..

theorem storeSet_lc (cfg : Cfg) (st : Store) (em : Em) (i : Item) :
    (storeSet cfg st em i).2.lastCleaned = em.lastCleaned := by
  unfold storeSet
  split
  · split
    · rfl
    · dsimp only; split
      · rfl
      · exact em_update_lc ..
  · exact em_add_lc ..

theorem storeDel_lc (st : Store) (em : Em) (k : Hash) (c : Conf) :
    (storeDel st em k c).2.1.lastCleaned = em.lastCleaned := by
  unfold storeDel
  split
  · rfl
  · split
    · rfl
    · dsimp only; split
      · exact em_del_lc ..
      · rfl

theorem storeUpdate_transfer (cfg : Cfg) (st : Store) (em : Em) (i : Item) (hlc : LcOk em.lastCleaned) :
    Transfer st em (storeUpdate cfg st em i).1 (storeUpdate cfg st em i).2.1 := by
  intro k e hl hz
  cases h0 : st.lookup i.key with
  | none => simp only [storeUpdate, h0] at hl ⊢; exact Or.inr ⟨hl, id⟩
  | some e0 =>
    by_cases h1 : updConflictMismatch i.conflict e0.conflict = true
    · simp only [storeUpdate, h0, h1, if_true] at hl ⊢; exact Or.inr ⟨hl, id⟩
    · by_cases h2 : updRefused (suRefuses cfg i.value e0.value).1 (suRefuses cfg i.value e0.value).2 = true
      · simp only [storeUpdate, h0, h1, h2, if_true] at hl ⊢; exact Or.inr ⟨hl, id⟩
      · simp only [storeUpdate, h0, h1, h2, Bool.false_eq_true, ↓reduceIte] at hl ⊢
        rw [AMap.lookup_insert] at hl
        split at hl
        · rename_i hk
          simp only [Option.some.injEq] at hl; subst hl; subst hk
          exact Or.inl (Registered.update_self hlc hz)
        · rename_i hk
          exact Or.inr ⟨hl, Registered.other (em_update_lc ..) fun b' hr => em_update_other hk hr⟩

theorem storeSet_transfer (cfg : Cfg) (st : Store) (em : Em) (i : Item) (hlc : LcOk em.lastCleaned) :
    Transfer st em (storeSet cfg st em i).1 (storeSet cfg st em i).2 := by
  intro k e hl hz
  cases h0 : st.lookup i.key with
  | none =>
    simp only [storeSet, h0] at hl ⊢
    rw [AMap.lookup_insert] at hl
    split at hl
    · rename_i hk
      simp only [Option.some.injEq] at hl; subst hl; subst hk
      exact Or.inl (Registered.add_self hlc hz)
    · rename_i hk
      exact Or.inr ⟨hl, Registered.other (em_add_lc ..) fun b' hr => em_add_other hk hr⟩
  | some e0 =>
    by_cases h1 : setConflictMismatch i.conflict e0.conflict = true
    · simp only [storeSet, h0, h1, if_true] at hl ⊢; exact Or.inr ⟨hl, id⟩
    · by_cases h2 : setRefused (suRefuses cfg i.value e0.value).1 (suRefuses cfg i.value e0.value).2 = true
      · simp only [storeSet, h0, h1, h2, if_true] at hl ⊢; exact Or.inr ⟨hl, id⟩
      · simp only [storeSet, h0, h1, h2, Bool.false_eq_true, ↓reduceIte] at hl ⊢
        rw [AMap.lookup_insert] at hl
        split at hl
        · rename_i hk
          simp only [Option.some.injEq] at hl; subst hl; subst hk
          exact Or.inl (Registered.update_self hlc hz)
        · rename_i hk
          exact Or.inr ⟨hl, Registered.other (em_update_lc ..) fun b' hr => em_update_other hk hr⟩

theorem storeDel_transfer (st : Store) (em : Em) (k0 : Hash) (c : Conf) :
    Transfer st em (storeDel st em k0 c).1 (storeDel st em k0 c).2.1 := by
  intro k e hl hz
  cases h0 : st.lookup k0 with
  | none => simp only [storeDel, h0] at hl ⊢; exact Or.inr ⟨hl, id⟩
  | some e0 =>
    by_cases h1 : delConflictMismatch c e0.conflict = true
    · simp only [storeDel, h0, h1, if_true] at hl ⊢; exact Or.inr ⟨hl, id⟩
    · simp only [storeDel, h0, h1, Bool.false_eq_true, ↓reduceIte] at hl ⊢
      rw [AMap.lookup_erase] at hl
      split at hl
      · cases hl
      · rename_i hk
        refine Or.inr ⟨hl, fun hr => ?_⟩
        split
        · exact Registered.other (em_del_lc ..) (fun b' hr => em_del_other hk hr) hr
        · exact hr

/-! ### the invariant -/

/-- the sweep that read the clock `now` still has key `k` (registered with conflict `c`) to do -/
def Todo (k : Hash) (c : Conf) (now : Time) : APc → Prop
  | .sweep now' bs => now' = now ∧ ∃ m ∈ bs, m.lookup k = some c
  | .swKey now' k' c' bs => now' = now ∧ ((k' = k ∧ c' = c) ∨ ∃ m ∈ bs, m.lookup k = some c)
  | .swStoreDel now' _ _ _ _ bs => now' = now ∧ ∃ m ∈ bs, m.lookup k = some c
  | .swPolDel now' _ _ _ _ _ bs => now' = now ∧ ∃ m ∈ bs, m.lookup k = some c
  | _ => False

/-- the entry's bucket was grabbed by the running sweep, which still has the key to do -/
def Grabbed (lo : Time) (s : State) (k : Hash) (e : Entry) : Prop :=
  ∃ now, lo ≤ now ∧ now ≤ s.clock ∧ bucketOf e.exp ≤ cleanupOf now ∧ Todo k e.conflict now s.app

/-- arithmetically impossible for sane times (`lost_impossible`): a sweep at `now` covered the bucket of
an expiration that lies after `now` -/
def Lost (lo : Time) (s : State) (e : Entry) : Prop :=
  ∃ now, lo ≤ now ∧ now ≤ s.clock ∧ bucketOf e.exp ≤ cleanupOf now ∧ now < e.exp

/-- what is known in a state whose clock is sane: `lastCleaned` is the cleanup bucket of an earlier clock
read, and every stored entry with a TTL is registered ahead of the sweep, or held by the running sweep -/
def RegBody (lo : Time) (s : State) : Prop :=
  (∃ now0, lo ≤ now0 ∧ now0 ≤ s.clock ∧ s.em.lastCleaned = cleanupOf now0) ∧
  ∀ k e, s.store.lookup k = some e → e.exp ≠ Gen.zeroTime →
    Registered s.em k e ∨ Grabbed lo s k e ∨ Lost lo s e

def RegInv (lo : Time) (s : State) : Prop := lo ≤ s.clock ∧ (TimeOk s.clock → RegBody lo s)

theorem timeOk_between {lo t hi : Time} (hlo : TimeOk lo) (hhi : TimeOk hi) (h1 : lo ≤ t) (h2 : t ≤ hi) : TimeOk t := by
  unfold TimeOk at *
  simp only [Time] at *
  omega

theorem RegBody.lcOk {lo : Time} {s : State} (hlo : TimeOk lo) (hclk : TimeOk s.clock) (h : RegBody lo s) :
    LcOk s.em.lastCleaned := by
  obtain ⟨now0, a, b, c⟩ := h.1
  rw [c]; exact cleanupOf_lcOk (timeOk_between hlo hclk a b)

theorem regBody_of {lo : Time} {s s' : State} (h : RegBody lo s) (hclk : s.clock ≤ s'.clock)
    (hlc : s'.em.lastCleaned = s.em.lastCleaned)
    (ht : Transfer s.store s.em s'.store s'.em)
    (happ : ∀ k c now, Todo k c now s.app → Todo k c now s'.app) : RegBody lo s' := by
  refine ⟨?_, fun k e hl hz => ?_⟩
  · obtain ⟨now0, a, b, c⟩ := h.1
    exact ⟨now0, a, Int.le_trans b hclk, by rw [hlc]; exact c⟩
  rcases ht k e hl hz with hr | ⟨hl0, hr⟩
  · exact Or.inl hr
  · rcases h.2 k e hl0 hz with h1 | ⟨now, a, b, c, d⟩ | ⟨now, a, b, c, d⟩
    · exact Or.inl (hr h1)
    · exact Or.inr (Or.inl ⟨now, a, Int.le_trans b hclk, c, happ _ _ _ d⟩)
    · exact Or.inr (Or.inr ⟨now, a, Int.le_trans b hclk, c, d⟩)

theorem clientStep_app' {cfg : Cfg} {s s' : State} {t : Tid} {ch : Choice}
    (hs : clientStep cfg s t ch = some s') : s'.app = s.app ∨ (s.cl t).busy = true := by
  apply clientStep_cases hs (motive := fun s' => s'.app = s.app ∨ (s.cl t).busy = true)
  case getStart => intro h c _ hr; exact Or.inl (stGetStart_frame hr).2.2.1
  case iterShard => intro k n seen _ hr; exact Or.inl (stIterShard_frame hr).2.2.1
  case waitRecv => intro id _ _ hr; exact Or.inl (stWaitRecv_app _ _ _ hr)
  case clrDrain => intro closing hpc _; exact Or.inr (by rw [hpc]; rfl)
  case clrShard => intro closing k hpc _; exact Or.inr (by rw [hpc]; rfl)
  case clrRestart => intro closing hpc _; exact Or.inr (by rw [hpc]; rfl)
  case clsFinish => intro hpc _; exact Or.inr (by rw [hpc]; rfl)
  all_goals (intros; exact Or.inl (by simp))

theorem todo_dead {k : Hash} {c : Conf} {now : Time} : ¬ Todo k c now .dead := by simp [Todo]

theorem apSwKey_deletes {s : State} {now : Time} {k : Hash} {c : Conf} {bs : List (AMap Hash Conf)} {e : Entry}
    (hl : s.store.lookup k = some e) (h1 : sweepConflictMismatch c e.conflict = false)
    (h2 : sweepSkip e.exp now = false) :
    (apSwKey s now k c bs).app = .swStoreDel now k c e.exp e.value bs := by
  unfold apSwKey
  simp [storeDelExpired, hl, h1, h2]

theorem regBody_clientStep {cfg : Cfg} {lo : Time} {s s' : State} {t : Tid} {ch : Choice} (hh : Handshake s)
    (hc : ClearInv s) (hlo : TimeOk lo) (hok : TimeOk s.clock) (hlow : lo ≤ s.clock) (h : RegBody lo s)
    (hs : clientStep cfg s t ch = some s') : RegBody lo s' := by
  have hclk : s.clock ≤ s'.clock := by rw [clientStep_clock hs]; exact Int.le_refl _
  have hlcok := h.lcOk hlo hok
  have happ : ∀ k c now, Todo k c now s.app → Todo k c now s'.app := by
    intro k c now htd
    rcases clientStep_app' (cfg := cfg) hs with e | hb
    · rw [e]; exact htd
    · rw [hh.busy t hb] at htd; exact absurd htd todo_dead
  cases clientStep_se (cfg := cfg) hs with
  | same h1 h2 => exact regBody_of h hclk (by rw [h2]) (by rw [h1, h2]; exact Transfer.refl _ _) happ
  | upd i _ h1 h2 =>
    exact regBody_of h hclk (by rw [h2]; exact storeUpdate_lc ..) (by rw [h1, h2]; exact storeUpdate_transfer _ _ _ _ hlcok) happ
  | del hh' c _ h1 h2 =>
    exact regBody_of h hclk (by rw [h2]; exact storeDel_lc ..) (by rw [h1, h2]; exact storeDel_transfer _ _ _ _) happ
  | clr closing k ks _ _ _ h1 h2 =>
    exact regBody_of h hclk (by rw [h2]) (by rw [h1, h2]; exact Transfer.of_sub fun k e hl => eraseAll_lookup hl) happ
  | emClear closing hpc h1 h2 =>
    refine ⟨⟨s.clock, hlow, hclk, by rw [h2]; rfl⟩, fun k e hl _ => ?_⟩
    rw [h1, hc.em t closing hpc k] at hl; cases hl

theorem regBody_applierStep {cfg : Cfg} {lo : Time} {s s' : State} {ch : Choice}
    (hlo : TimeOk lo) (hok : TimeOk s.clock) (hlow : lo ≤ s.clock)
    (h : RegBody lo s) (hs : applierStep cfg s ch = some s') : RegBody lo s' := by
  have hclk : s.clock ≤ s'.clock := by rw [applierStep_clock hs]; exact Int.le_refl _
  have hlcok := h.lcOk hlo hok
  revert hclk
  apply applierStep_cases hs (motive := fun s' => s.clock ≤ s'.clock → RegBody lo s')
  case idle =>
    intro hpc hr hclk
    have hse : s'.store = s.store ∧ s'.em = s.em := by
      unfold apIdle at hr
      split at hr
      · unfold apSelItem at hr
        split at hr
        · simp at hr
        · rename_i id s1 hrecv; simp only [Option.some.injEq] at hr; subst hr
          exact ⟨(recvBuf_store hrecv : s1.store = s.store), (recvBuf_em hrecv : s1.em = s.em)⟩
        · rename_i i s1 hrecv; simp only [Option.some.injEq] at hr; subst hr
          exact ⟨(recvBuf_store hrecv : s1.store = s.store), (recvBuf_em hrecv : s1.em = s.em)⟩
      · simp only [Option.some.injEq] at hr; subst hr; exact ⟨rfl, rfl⟩
      · exact ⟨apSelStop_store _ _ hr, apSelStop_em _ _ hr⟩
      · simp at hr
    exact regBody_of h hclk (by rw [hse.2]) (by rw [hse.1, hse.2]; exact Transfer.refl _ _)
      (by intro k c now htd; rw [hpc] at htd; simp [Todo] at htd)
  case marker =>
    intro id hpc _ hclk
    exact regBody_of h hclk rfl (Transfer.refl _ _) (by intro k c now htd; rw [hpc] at htd; simp [Todo] at htd)
  case item =>
    intro i hpc _ hclk
    exact regBody_of h hclk rfl (Transfer.refl _ _) (by intro k c now htd; rw [hpc] at htd; simp [Todo] at htd)
  case costed =>
    intro i hpc hr hclk
    have hse : s'.store = s.store ∧ s'.em = s.em := by
      unfold apCosted at hr
      split at hr
      · exact ⟨apCostedNew_store _ _ _ _ hr, apCostedNew_em _ _ _ _ hr⟩
      · obtain ⟨_, hr⟩ := needNone_some hr
        simp only [Option.some.injEq] at hr; subst hr; exact ⟨rfl, rfl⟩
      · obtain ⟨_, hr⟩ := needNone_some hr
        simp only [Option.some.injEq] at hr; subst hr; exact ⟨rfl, rfl⟩
    exact regBody_of h hclk (by rw [hse.2]) (by rw [hse.1, hse.2]; exact Transfer.refl _ _)
      (by intro k c now htd; rw [hpc] at htd; simp [Todo] at htd)
  case added =>
    intro i victims ok hpc _ hclk
    refine regBody_of h hclk ?_ ?_ (by intro k c now htd; rw [hpc] at htd; simp [Todo] at htd)
    · unfold apAdded
      split
      · simp only [metAdd_em]; exact storeSet_lc ..
      · rfl
    · unfold apAdded
      split
      · simp only [metAdd_store, metAdd_em]; exact storeSet_transfer _ _ _ _ hlcok
      · exact Transfer.refl _ _
  case victims =>
    intro vs hpc _ hr hclk
    unfold apVictims at hr
    split at hr
    · simp at hr
    · simp only [Option.some.injEq] at hr; subst hr
      exact regBody_of h hclk (storeDel_lc ..) (storeDel_transfer _ _ _ _)
        (by intro k c now htd; rw [hpc] at htd; simp [Todo] at htd)
  case victimEvict =>
    intro hh cost c v rest hpc _ hclk
    exact regBody_of h hclk (by rw [apVictimEvict_em])
      (by simp only [apVictimEvict_store, apVictimEvict_em]; exact Transfer.refl _ _)
      (by intro k c now htd; rw [hpc] at htd; simp [Todo] at htd)
  case tombPolicy =>
    intro i hpc _ hclk
    exact regBody_of h hclk (storeDel_lc ..) (storeDel_transfer _ _ _ _)
      (by intro k c now htd; rw [hpc] at htd; simp [Todo] at htd)
  case tombStore =>
    intro v hpc _ hclk
    exact regBody_of h hclk rfl (Transfer.refl _ _) (by intro k c now htd; rw [hpc] at htd; simp [Todo] at htd)
  case tick =>
    intro hpc _ hclk
    obtain ⟨now0, n1, n2, n3⟩ := h.1
    have hmono : s.em.lastCleaned ≤ cleanupOf s.clock := by
      rw [n3]; exact cleanupOf_mono (timeOk_between hlo hok n1 n2) hok n2
    refine ⟨⟨s.clock, hlow, Int.le_refl _, rfl⟩, fun k e hl hz => ?_⟩
    have hl0 : s.store.lookup k = some e := hl
    rcases h.2 k e hl0 hz with ⟨b', h1, h2, h3, h4, m, h5, h6⟩ | ⟨now, _, _, _, d⟩ | ⟨now, a, b, c, d⟩
    · cases hin : inRange s.em.lastCleaned (cleanupOf s.clock) b' with
      | true =>
        obtain ⟨hmem, _⟩ := grab_hit h5 hin
        have hle := ((inRange_iff hlcok h3 (cleanupOf_ok s.clock)).mp hin).2
        exact Or.inr (Or.inl ⟨s.clock, hlow, Int.le_refl _, Int.le_trans h2 hle,
          (show Todo k e.conflict s.clock (.sweep s.clock (s.em.grab s.clock).2) from ⟨rfl, m, hmem, h6⟩)⟩)
      | false =>
        have hnot : ¬ (s.em.lastCleaned < b' ∧ b' ≤ cleanupOf s.clock) := by
          rw [← inRange_iff hlcok h3 (cleanupOf_ok s.clock), hin]; simp
        have hgt : cleanupOf s.clock < b' := by omega
        refine Or.inl ⟨b', hgt, h2, h3, ?_, m, ?_, h6⟩
        · rcases h4 with h4 | h4
          · exact Or.inl h4
          · refine Or.inr ?_
            show b' = cleanupOf s.clock + 1
            omega
        · show (s.em.grab s.clock).1.buckets.lookup b' = some m
          rw [grab_miss hin]; exact h5
    · rw [hpc] at d; simp [Todo] at d
    · exact Or.inr (Or.inr ⟨now, a, b, c, d⟩)
  case sweep =>
    intro now bs hpc hr hclk
    refine regBody_of h hclk (by rw [apSweep_em _ _ _ _ hr])
      (by rw [apSweep_store _ _ _ _ hr, apSweep_em _ _ _ _ hr]; exact Transfer.refl _ _) ?_
    intro k c now' htd
    rw [hpc] at htd
    obtain ⟨rfl, m, hm, hk⟩ := htd
    have hmem := firstNonEmpty_mem hm hk
    cases hfe : firstNonEmpty bs with
    | nil => rw [hfe] at hmem; simp at hmem
    | cons b1 rest =>
      rw [hfe] at hmem
      cases ch with
      | key k' =>
        simp only [apSweep, hfe] at hr
        cases hk' : b1.lookup k' with
        | none => simp [hk'] at hr
        | some c' =>
          simp only [hk', Option.some.injEq] at hr; subst hr
          refine ⟨rfl, ?_⟩
          by_cases hcur : m = b1 ∧ k' = k
          · obtain ⟨rfl, rfl⟩ := hcur
            rw [hk] at hk'; cases hk'
            exact Or.inl ⟨rfl, rfl⟩
          · refine Or.inr ?_
            rcases List.mem_cons.mp hmem with rfl | hmem
            · have hne : k ≠ k' := fun e => hcur ⟨rfl, e.symm⟩
              exact ⟨m.erase k', by simp, by rw [AMap.lookup_erase_ne _ hne]; exact hk⟩
            · exact ⟨m, List.mem_cons_of_mem _ hmem, hk⟩
      | _ => simp [apSweep, hfe] at hr
  case swKey =>
    intro now k c bs hpc _ hclk
    obtain ⟨now0, n1, n2, n3⟩ := h.1
    rcases apSwKey_cases s now k c bs with ⟨e0, hl0, _, _, _, heq⟩ | heq
    · -- the entry of `k` was removed
      refine ⟨⟨now0, n1, Int.le_trans n2 hclk, by rw [heq]; show (s.em.del k e0.exp).lastCleaned = _; rw [em_del_lc]; exact n3⟩,
        fun k' e' hl' hz' => ?_⟩
      rw [heq] at hl' ⊢
      have hl'' : AMap.lookup (AMap.erase s.store k) k' = some e' := hl'
      rw [AMap.lookup_erase] at hl''
      split at hl''
      · cases hl''
      · rename_i hne
        rcases h.2 k' e' hl'' hz' with h1 | ⟨now', a, b, c', d⟩ | ⟨now', a, b, c', d⟩
        · exact Or.inl (Registered.other (em_del_lc ..) (fun b' hr => em_del_other hne hr) h1)
        · refine Or.inr (Or.inl ⟨now', a, b, c', ?_⟩)
          rw [hpc] at d
          obtain ⟨hnow, d⟩ := d
          rcases d with ⟨hk, _⟩ | d
          · exact absurd hk.symm hne
          · exact ⟨hnow, d⟩
        · exact Or.inr (Or.inr ⟨now', a, b, c', d⟩)
    · -- nothing was removed
      refine ⟨⟨now0, n1, Int.le_trans n2 hclk, by rw [heq]; exact n3⟩, fun k' e' hl' hz' => ?_⟩
      have happ' : (apSwKey s now k c bs).app = .sweep now bs := by rw [heq]
      rw [heq] at hl' ⊢
      have hl'' : s.store.lookup k' = some e' := hl'
      rcases h.2 k' e' hl'' hz' with h1 | ⟨now', a, b, c', d⟩ | ⟨now', a, b, c', d⟩
      · exact Or.inl h1
      · rw [hpc] at d
        obtain ⟨hnow, d⟩ := d
        subst hnow
        rcases d with ⟨rfl, rfl⟩ | d
        · -- the key the sweep was at: it was skipped although registered with this conflict,
          -- so its expiration is after the sweep's clock read
          refine Or.inr (Or.inr ⟨now, a, b, c', ?_⟩)
          have h1 : sweepConflictMismatch e'.conflict e'.conflict = false := by simp [sweepConflictMismatch]
          cases h2 : sweepSkip e'.exp now with
          | false =>
            have := apSwKey_deletes (bs := bs) hl'' h1 h2
            rw [happ'] at this; cases this
          | true =>
            simp only [sweepSkip, Bool.or_eq_true, beq_iff_eq, decide_eq_true_eq] at h2
            rcases h2 with h2 | h2
            · exact absurd h2 hz'
            · exact h2
        · exact Or.inr (Or.inl ⟨now, a, b, c', (show Todo k' e'.conflict now (.sweep now bs) from ⟨rfl, d⟩)⟩)
      · exact Or.inr (Or.inr ⟨now', a, b, c', d⟩)
  case swStoreDel =>
    intro now k c expr v bs hpc _ hclk
    refine regBody_of h hclk rfl (Transfer.refl _ _) ?_
    intro k' c' now' htd; rw [hpc] at htd; simpa [apSwStoreDel, Todo] using htd
  case swPolDel =>
    intro now k c expr cost v bs hpc _ hclk
    refine regBody_of h hclk rfl (Transfer.refl _ _) ?_
    intro k' c' now' htd; rw [hpc] at htd; simpa [apSwPolDel, Todo] using htd

theorem regInv_step {cfg : Cfg} {lo : Time} {s s' : State} {a : Action} (hlo : TimeOk lo) (hr : Reach cfg s)
    (h : RegInv lo s) (hs : step cfg s a = some s') : RegInv lo s' := by
  have hclk := step_clock_le hs
  refine ⟨Int.le_trans h.1 hclk, fun hok' => ?_⟩
  have hok : TimeOk s.clock := timeOk_between hlo hok' h.1 hclk
  have hb := h.2 hok
  cases a with
  | spawn t c =>
    have hs' : spawnStep s t c = some s' := hs
    exact regBody_of hb hclk (by rw [spawnStep_em _ _ _ hs'])
      (by rw [spawnStep_store _ _ _ hs', spawnStep_em _ _ _ hs']; exact Transfer.refl _ _)
      (by rw [spawnStep_app _ _ _ hs']; exact fun _ _ _ h => h)
  | client t ch => exact regBody_clientStep (handshake_reach hr) (clearInv_reach hr) hlo hok h.1 hb hs
  | applier ch => exact regBody_applierStep hlo hok h.1 hb hs
  | done t =>
    have hs' : doneStep s t = some s' := hs
    refine regBody_of hb hclk (by rw [doneStep_em _ _ hs'])
      (by rw [doneStep_store _ _ hs', doneStep_em _ _ hs']; exact Transfer.refl _ _) ?_
    intro k c now htd
    unfold doneStep at hs'
    split at hs'
    · rename_i happ _; rw [happ] at htd; simp [Todo] at htd
    · rename_i happ _; rw [happ] at htd; simp [Todo] at htd
    · simp at hs'
  | tick d =>
    simp only [step, Option.some.injEq] at hs; subst hs
    exact regBody_of hb hclk rfl (Transfer.refl _ _) (fun _ _ _ h => h)

theorem regInv_init (cfg : Cfg) (now0 : Time) : RegInv now0 (init cfg now0) :=
  ⟨Int.le_refl _, fun _ => ⟨⟨now0, Int.le_refl _, Int.le_refl _, rfl⟩, fun k e hl _ => by simp [init] at hl⟩⟩

/-- induction along a run from a fixed initial state -/
theorem run_induction_t {cfg : Cfg} {P : State → Prop} {s0 : State} (hr0 : Reach cfg s0) (h0 : P s0)
    (hstep : ∀ s a s', Reach cfg s → P s → step cfg s a = some s' → P s') :
    ∀ (acts : List Action) (s : State), run cfg s0 acts = some s → P s := by
  intro acts
  induction acts generalizing s0 with
  | nil => intro s hr; simp [run] at hr; subst hr; exact h0
  | cons a as ih =>
    intro s hr
    simp only [run] at hr
    cases hs : step cfg s0 a with
    | none => simp [hs] at hr
    | some s1 =>
      simp only [hs] at hr
      exact ih (hr0.of_step hs) (hstep s0 a s1 hr0 h0 hs) s hr

theorem regInv_run {cfg : Cfg} {now0 : Time} {acts : List Action} {s : State} (h0 : TimeOk now0)
    (hrun : run cfg (init cfg now0) acts = some s) : RegInv now0 s :=
  run_induction_t (Reach.of_init cfg now0) (regInv_init cfg now0) (fun _ _ _ hr hp hs => regInv_step h0 hr hp hs) acts s hrun

/-- a bucket covered by a sweep at `now` cannot hold an expiration after `now` -/
theorem lost_impossible {lo : Time} {s : State} {e : Entry} (hlo : TimeOk lo) (hclk : TimeOk s.clock)
    (he : TimeOk e.exp) : ¬ Lost lo s e := by
  rintro ⟨now, a, b, c, d⟩
  have hn : TimeOk now := by
    unfold TimeOk at *
    simp only [Time] at *
    omega
  exact absurd (bucket_lt he hn c) (by simp only [Time] at *; omega)

end RV.Cache
