import RV.Proofs.PolicyBridge
import RV.Proofs.PolicyMap
/-!
The single operations of the policy (`del`, `evictAdd`, `updateIfHas`, `cap`, `clear`,
`setMaxCost`) under well-formedness and the no-overflow hypothesis: exact `Int` results and
preservation of `Pol.wf` / `Pol.NoOvf`.
-/
namespace RV.Policy
namespace Pol

theorem wf_empty (m : Int) : (empty m).wf := by
  simp [wf, empty, keys, costSum]

theorem wf_clear (p : Pol) : p.clear.wf := by
  simp [wf, clear, keys, costSum]

theorem wf_setMaxCost {p : Pol} (m : Int) (h : p.wf) : (p.setMaxCost m).wf := h

/-- ranges that follow from `wf` and `NoOvf` -/
theorem ranges {p : Pol} {x : Int} (hwf : p.wf) (hno : p.NoOvf x) :
    I64 p.used ∧ I64 p.maxCost ∧ I64 x ∧ I64 (p.used + x) ∧ I64 (p.maxCost - (p.used + x)) ∧
      I64 (p.maxCost - p.used) := by
  have h1 := costSum_le_absSum p.keyCosts
  have h2 := absSum_nonneg p.keyCosts
  have hu := hwf.2
  unfold NoOvf at hno
  unfold I64
  omega

theorem noOvf_zero {p : Pol} {x : Int} (hno : p.NoOvf x) : p.NoOvf 0 := by
  unfold NoOvf at *; omega

/-! ### del -/

theorem del_none {p : Pol} {k : Hash} (h : lookup p.keyCosts k = none) : p.del k = p := by
  simp [del, h]

theorem del_maxCost (p : Pol) (k : Hash) : (p.del k).maxCost = p.maxCost := by
  unfold del; split <;> rfl

theorem del_keyCosts (p : Pol) (k : Hash) : (p.del k).keyCosts = erase p.keyCosts k := by
  unfold del
  split
  · next h => simp [erase_of_lookup_none h]
  · rfl

theorem del_used {p : Pol} {k : Hash} {c x : Int} (hwf : p.wf) (hno : p.NoOvf x)
    (h : lookup p.keyCosts k = some c) : (p.del k).used = p.used - c := by
  have hr := ranges hwf hno
  have hc : (c.natAbs : Int) ≤ absSum p.keyCosts := natAbs_le_absSum (lookup_some_mem h)
  have hs := costSum_erase hwf.1 h
  have he := costSum_le_absSum (erase p.keyCosts k)
  have he' := absSum_erase_le' p.keyCosts k
  have hu := hwf.2
  simp only [del, h]
  unfold NoOvf at hno
  apply minus64_eq hr.1 <;> (unfold I64; omega)

theorem noOvf_del {p : Pol} {x : Int} (k : Hash) (hno : p.NoOvf x) : (p.del k).NoOvf x := by
  unfold NoOvf at *
  rw [del_keyCosts, del_maxCost]
  have := absSum_erase_le' p.keyCosts k
  omega

theorem wf_del {p : Pol} {x : Int} (k : Hash) (hwf : p.wf) (hno : p.NoOvf x) : (p.del k).wf := by
  cases h : lookup p.keyCosts k with
  | none => rw [del_none h]; exact hwf
  | some c =>
    refine ⟨?_, ?_⟩
    · rw [del_keyCosts]; exact nodup_keys_erase k hwf.1
    · rw [del_used hwf hno h, del_keyCosts, costSum_erase hwf.1 h, hwf.2]

theorem has_del (p : Pol) (k : Hash) : lookup (p.del k).keyCosts k = none := by
  rw [del_keyCosts]; exact lookup_erase_self _ _

theorem lookup_del_ne (p : Pol) {k k' : Hash} (h : k' ≠ k) :
    lookup (p.del k).keyCosts k' = lookup p.keyCosts k' := by
  rw [del_keyCosts]; exact lookup_erase_ne h

/-! ### evictAdd (`sampledLFU.add`) of a key that is not accounted -/

theorem evictAdd_maxCost (p : Pol) (k : Hash) (c : Int) : (p.evictAdd k c).maxCost = p.maxCost := rfl

theorem evictAdd_keyCosts {p : Pol} {k : Hash} (c : Int) (h : lookup p.keyCosts k = none) :
    (p.evictAdd k c).keyCosts = (k, c) :: p.keyCosts := by
  simp only [evictAdd, insert_of_lookup_none c h]

theorem evictAdd_used {p : Pol} {c : Int} (k : Hash) (hwf : p.wf) (hno : p.NoOvf c) :
    (p.evictAdd k c).used = p.used + c := by
  have hr := ranges hwf hno
  exact plus64_eq hr.1 hr.2.2.1 hr.2.2.2.1

theorem wf_evictAdd {p : Pol} {k : Hash} {c : Int} (hwf : p.wf) (hno : p.NoOvf c)
    (h : lookup p.keyCosts k = none) : (p.evictAdd k c).wf := by
  refine ⟨?_, ?_⟩
  · rw [evictAdd_keyCosts c h]
    simp only [keys, List.map_cons, List.nodup_cons]
    exact ⟨lookup_eq_none.1 h, hwf.1⟩
  · rw [evictAdd_used k hwf hno, evictAdd_keyCosts c h, hwf.2]
    simp only [costSum]; omega

/-! ### updateIfHas -/

theorem updateIfHas_none {p : Pol} {k : Hash} (c : Int) (h : lookup p.keyCosts k = none) :
    p.updateIfHas k c = (p, false) := by
  simp [updateIfHas, h]

theorem updateIfHas_snd (p : Pol) (k : Hash) (c : Int) :
    (p.updateIfHas k c).2 = (lookup p.keyCosts k).isSome := by
  unfold updateIfHas; split <;> simp_all

theorem updateIfHas_maxCost (p : Pol) (k : Hash) (c : Int) : (p.updateIfHas k c).1.maxCost = p.maxCost := by
  unfold updateIfHas; split <;> rfl

theorem updateIfHas_keyCosts {p : Pol} {k : Hash} {prev : Int} (c : Int) (h : lookup p.keyCosts k = some prev) :
    (p.updateIfHas k c).1.keyCosts = (k, c) :: erase p.keyCosts k := by
  simp [updateIfHas, h, insert]

theorem updateIfHas_used {p : Pol} {k : Hash} {prev c : Int} (hwf : p.wf) (hno : p.NoOvf c)
    (h : lookup p.keyCosts k = some prev) : (p.updateIfHas k c).1.used = p.used + (c - prev) := by
  have hr := ranges hwf hno
  have hc : (prev.natAbs : Int) ≤ absSum p.keyCosts := natAbs_le_absSum (lookup_some_mem h)
  have hs := costSum_erase hwf.1 h
  have he := costSum_le_absSum (erase p.keyCosts k)
  have he' := absSum_erase_le h
  have hu := hwf.2
  unfold NoOvf at hno
  have hp : I64 prev := by unfold I64; omega
  have hd : I64 (c - prev) := by unfold I64; omega
  simp only [updateIfHas, h]
  rw [usedDelta_eq hr.2.2.1 hp hd]
  apply plus64_eq hr.1 hd
  unfold I64; omega

theorem wf_updateIfHas {p : Pol} {c : Int} (k : Hash) (hwf : p.wf) (hno : p.NoOvf c) :
    (p.updateIfHas k c).1.wf := by
  cases h : lookup p.keyCosts k with
  | none => rw [updateIfHas_none c h]; exact hwf
  | some prev =>
    refine ⟨?_, ?_⟩
    · rw [updateIfHas_keyCosts c h]
      simp only [keys, List.map_cons, List.nodup_cons]
      refine ⟨?_, nodup_keys_erase k hwf.1⟩
      intro hm; exact (mem_keys_erase.1 hm).2 rfl
    · rw [updateIfHas_used hwf hno h, updateIfHas_keyCosts c h]
      simp only [costSum, costSum_erase hwf.1 h, hwf.2]; omega

theorem noOvf_updateIfHas {p : Pol} {c : Int} (k : Hash) (hno : p.NoOvf c) :
    (p.updateIfHas k c).1.NoOvf 0 := by
  cases h : lookup p.keyCosts k with
  | none => rw [updateIfHas_none c h]; exact noOvf_zero hno
  | some prev =>
    unfold NoOvf at *
    rw [updateIfHas_keyCosts c h, updateIfHas_maxCost]
    have := absSum_erase_le' p.keyCosts k
    simp only [absSum]; omega

theorem costOf_updateIfHas {p : Pol} {k : Hash} {prev : Int} (c : Int) (h : lookup p.keyCosts k = some prev) :
    (p.updateIfHas k c).1.costOf k = c := by
  simp [costOf, updateIfHas_keyCosts c h, lookup]

/-! ### cap -/

theorem cap_eq' {p : Pol} {x : Int} (hwf : p.wf) (hno : p.NoOvf x) : p.cap = p.maxCost - p.used := by
  have hr := ranges hwf hno
  exact capOf_eq hr.2.1 hr.1 hr.2.2.2.2.2

end Pol
end RV.Policy
