import RV.Proofs.CacheTTLFairDefs
/-!
# C14 liveness under fairness (2): an expired entry is eventually reclaimed

* `tick_steps_recur` — under `WeakFair`, `DrainsEnd`, `TickFair` the applier performs its bucket grab
  (`apTick`) again and again;
* `phase_until_idle` — the `Phase` of a sweep with respect to an entry is carried along the execution up
  to the applier's return to its `select` (`Reclaimed`), provided only the sweep's own `DelExpired` step
  changes the entry;
* `exists_covering_tick` — if the entry stays resident, some bucket grab covers the bucket it is
  registered in (`ClockPasses`; `lastCleaned` is constant while every grab comes too early);
* `eventually_reclaimed` — the main lemma.
-/
namespace RV.Cache
open Gen.Cache

variable {cfg : Cfg}

/-! ### the ticker fires again and again -/

theorem tick_steps_recur {e : Exec cfg} (hf : WeakFair e) (hd : DrainsEnd e) (htf : TickFair e) (m : Nat) :
    ∃ t, m ≤ t ∧ (e.st t).app = .tick ∧ e.st (t + 1) = apTick (e.st t) ∧ ∃ ch, e.act t = .applier ch := by
  have hready : ReadyInfOften e (.applier .selTick) m := by
    intro k _
    obtain ⟨j, hkj, hj⟩ := idle_again hf hd k
    exact ⟨j, hkj, idle_tick_enabled hj⟩
  obtain ⟨j, hmj, hj⟩ := htf m hready
  have hs := e.next j
  rw [hj] at hs
  obtain ⟨_, hnext⟩ := selTick_at_idle (show applierStep cfg (e.st j) .selTick = some _ from hs)
  have htick : (e.st (j + 1)).app = .tick := by rw [hnext]
  obtain ⟨t, hjt, ht, hown⟩ := wf_rule hf .applier (fun s => s.app = .tick)
    (fun s hr h => by
      obtain ⟨ch, s', hs⟩ := applier_mid_enabled (cfg := cfg) (live_reach hr.reach).appwf
        (by rw [h]; rfl) (by rw [h]; simp)
      exact ⟨.applier ch, s', rfl, hs⟩)
    (fun s x s' hr h hs hno => by
      rw [app_stable (handshake_reach hr.reach) hs (by rw [h]; rfl) hno]; exact h)
    (i := j + 1) htick
  cases hx : e.act t with
  | applier ch =>
    have hs := e.next t
    rw [hx] at hs
    exact ⟨t, by omega, ht, tick_step_eq ht hs, ch, hx⟩
  | client t0 ch => rw [hx] at hown; simp [Actor.owns] at hown
  | done t0 => rw [hx] at hown; simp [Actor.owns] at hown
  | spawn t0 c => rw [hx] at hown; simp [Actor.owns] at hown
  | tick d => rw [hx] at hown; simp [Actor.owns] at hown

/-! ### carrying the phase of a sweep along the execution -/

/-- after time `i`, the entry `en` of key `k` is changed by the sweep's own `DelExpired` step only
(nobody overwrites, deletes, evicts or clears it) -/
def OnlySweepChanges (e : Exec cfg) (k : Hash) (en : Entry) (i : Nat) : Prop :=
  ∀ j, i ≤ j → (e.st j).store.lookup k = some en → (e.st (j + 1)).store.lookup k ≠ some en → SweepDelAt e k j

theorem phase_exec_step {e : Exec cfg} {k : Hash} {en : Entry} {now : Time} {base : List Ev} {m : Nat}
    (hz : en.exp ≠ Gen.zeroTime) (hle : en.exp ≤ now)
    (hph : Phase k en now (fun _ => True) base (e.st m)) (hidle : (e.st m).app ≠ .idle)
    (hH : (e.st m).store.lookup k = some en → (e.st (m + 1)).store.lookup k ≠ some en → SweepDelAt e k m) :
    Phase k en now (fun _ => True) base (e.st (m + 1)) := by
  by_cases hap : ∃ ch, e.act m = .applier ch
  · obtain ⟨ch, hx⟩ := hap
    have hs := e.next m
    rw [hx] at hs
    exact phase_step (fun _ _ _ _ => trivial) hz hle hph hidle hs
  · have hna : ∀ ch, e.act m ≠ .applier ch := fun ch h => hap ⟨ch, h⟩
    have hst : (e.st (m + 1)).store.lookup k = (e.st m).store.lookup k := by
      rcases hph.lookup with h | h
      · by_cases hc : (e.st (m + 1)).store.lookup k = some en
        · rw [hc, h]
        · obtain ⟨_, _, _, _, ch, hx⟩ := hH h hc
          exact absurd hx (hna ch)
      · rw [other_step_store_none (e.next m) hna h, h]
    exact phase_other_step (e.reach m) hph hna (e.next m) hst

theorem phase_until_idle {e : Exec cfg} (hf : WeakFair e) {k : Hash} {en : Entry} {now : Time} {base : List Ev}
    {j : Nat} (hz : en.exp ≠ Gen.zeroTime) (hle : en.exp ≤ now)
    (hph : Phase k en now (fun _ => True) base (e.st j))
    (hH : ∀ m, j ≤ m → (e.st m).store.lookup k = some en → (e.st (m + 1)).store.lookup k ≠ some en →
      SweepDelAt e k m) :
    ∃ j', j ≤ j' ∧ (e.st j').app = .idle ∧ Reclaimed k en (fun _ => True) base (e.st j') := by
  obtain ⟨j1, hj1, hidle1⟩ := applier_returns hf (sweepPc_running hph.sweepPc)
  have key : ∀ d, ∃ m, j ≤ m ∧ m ≤ j + d ∧ Phase k en now (fun _ => True) base (e.st m) ∧
      (m = j + d ∨ (e.st m).app = .idle) := by
    intro d
    induction d with
    | zero => exact ⟨j, Nat.le_refl _, Nat.le_refl _, hph, Or.inl rfl⟩
    | succ d ih =>
      obtain ⟨m, h1, h2, h3, h4⟩ := ih
      by_cases hid : (e.st m).app = .idle
      · exact ⟨m, h1, by omega, h3, Or.inr hid⟩
      · rcases h4 with h4 | h4
        · subst h4
          exact ⟨j + d + 1, by omega, by omega, phase_exec_step hz hle h3 hid (hH _ h1), Or.inl rfl⟩
        · exact absurd h4 hid
  obtain ⟨m, h1, h2, h3, h4⟩ := key (j1 - j)
  have hidle : (e.st m).app = .idle := by
    rcases h4 with h4 | h4
    · rw [h4, show j + (j1 - j) = j1 by omega]; exact hidle1
    · exact h4
  exact ⟨m, h1, hidle, phase_idle h3 hidle⟩

/-! ### some bucket grab covers the entry's bucket -/

theorem lc_le_cleanup {now0 : Time} {s : State} (h0 : TimeOk now0) (hclk : TimeOk s.clock) (hreg : RegInv now0 s) :
    s.em.lastCleaned ≤ cleanupOf s.clock := by
  obtain ⟨n0, n1, n2, n3⟩ := (hreg.2 hclk).1
  rw [n3]
  exact cleanupOf_mono (timeOk_between h0 hclk n1 n2) hclk n2

/-- the entry's registration bucket is covered by the grab at this clock -/
def Covered (s : State) (k : Hash) (en : Entry) : Prop :=
  ∃ b' m, BucketOk b' ∧ bucketOf en.exp ≤ b' ∧ s.em.buckets.lookup b' = some m ∧ m.lookup k = some en.conflict ∧
    LcOk s.em.lastCleaned ∧ s.em.lastCleaned < b' ∧ b' ≤ cleanupOf s.clock

/-- at the applier's tick step, once the clock covers the bucket of the expiration: the grab covers the
bucket the entry is registered in — unless that is `lastCleaned + 1` (late arrival) and the clock is
still in the cleanup bucket of the previous grab -/
theorem tick_covers_or_stuck {now0 : Time} {s : State} {k : Hash} {en : Entry} (h0 : TimeOk now0)
    (hclk : TimeOk s.clock) (hreg : RegInv now0 s) (hpc : s.app = .tick) (hst : s.store.lookup k = some en)
    (hz : en.exp ≠ Gen.zeroTime) (hexp : TimeOk en.exp) (hcov : bucketOf en.exp ≤ cleanupOf s.clock) :
    Covered s k en ∨ s.em.lastCleaned = cleanupOf s.clock := by
  have hbody := hreg.2 hclk
  have hlc := lc_le_cleanup h0 hclk hreg
  rcases hbody.2 k en hst hz with ⟨b', a, b, c, d, m, f, g⟩ | ⟨now, _, _, _, d⟩ | h
  · by_cases hc : b' ≤ cleanupOf s.clock
    · exact Or.inl ⟨b', m, c, b, f, g, hbody.lcOk h0 hclk, a, hc⟩
    · right
      rcases d with d | d
      · omega
      · omega
  · rw [hpc] at d; simp [Todo] at d
  · exact absurd h (lost_impossible h0 hclk hexp)

theorem exists_covering_tick {e : Exec cfg} (hf : WeakFair e) (hd : DrainsEnd e) (htf : TickFair e)
    {now0 : Time} (hc : CreatedAt e now0) (h0 : TimeOk now0)
    {k : Hash} {en : Entry} {i : Nat} (hcp : ClockPasses e i en.exp)
    (hR : ∀ j, i ≤ j → (e.st j).store.lookup k = some en) (hsane : ∀ j, i ≤ j → TimeOk (e.st j).clock)
    (hz : en.exp ≠ Gen.zeroTime) (hexp : TimeOk en.exp) :
    ∃ t, i ≤ t ∧ (e.st t).app = .tick ∧ e.st (t + 1) = apTick (e.st t) ∧ Covered (e.st t) k en := by
  apply Classical.byContradiction
  intro hno
  have hno' : ∀ t, i ≤ t → (e.st t).app = .tick → e.st (t + 1) = apTick (e.st t) → ¬ Covered (e.st t) k en :=
    fun t h1 h2 h3 h4 => hno ⟨t, h1, h2, h3, h4⟩
  obtain ⟨m0, him0, hm0, m1, hm1⟩ := hcp
  have hT : ∀ t, max i m0 ≤ t → i ≤ t ∧ m0 ≤ t := fun t h => ⟨by omega, by omega⟩
  have hmax : max i m0 = m0 := by omega
  have hcovT : ∀ t, max i m0 ≤ t → bucketOf en.exp ≤ cleanupOf (e.st t).clock := by
    intro t ht
    have := e.clock_mono (hT t ht).2
    exact bucket_le_of_old hexp (hsane t (hT t ht).1) (Int.le_trans hm0 this)
  have hstuck : ∀ t, max i m0 ≤ t → (e.st t).app = .tick → e.st (t + 1) = apTick (e.st t) →
      (e.st t).em.lastCleaned = cleanupOf (e.st t).clock := by
    intro t ht h2 h3
    rcases tick_covers_or_stuck h0 (hsane t (hT t ht).1) (e.regInv hc h0 t) h2 (hR t (hT t ht).1) hz hexp
      (hcovT t ht) with h | h
    · exact absurd h (hno' t (hT t ht).1 h2 h3)
    · exact h
  have hconst : ∀ d, (e.st (max i m0 + d)).em.lastCleaned = (e.st (max i m0)).em.lastCleaned := by
    intro d
    induction d with
    | zero => rfl
    | succ d ih =>
      rw [← ih, ← Nat.add_assoc]
      rcases step_lc (e.next (max i m0 + d)) with h | ⟨h1, ⟨ch, hact⟩, h3⟩ | ⟨t, c, h⟩
      · exact h
      · have hs := e.next (max i m0 + d)
        rw [hact] at hs
        rw [h3, hstuck _ (by omega) h1 (tick_step_eq h1 hs)]
      · have := (clearInv_reach (e.reach (max i m0 + d))).em t c h k
        rw [hR _ (by omega)] at this; cases this
  rw [← hmax] at hm1
  obtain ⟨t, ht, htick, hnext, _⟩ := tick_steps_recur hf hd htf (max (max i m0) m1)
  have ht0 : max i m0 ≤ t := by omega
  have h1 : (e.st t).em.lastCleaned = (e.st (max i m0)).em.lastCleaned := by
    have := hconst (t - max i m0)
    rwa [show max i m0 + (t - max i m0) = t by omega] at this
  have h2 := lc_le_cleanup h0 (hsane _ (hT _ (Nat.le_refl _)).1) (e.regInv hc h0 (max i m0))
  have h3 : cleanupOf (e.st (max i m0)).clock < cleanupOf (e.st t).clock :=
    cleanupOf_advance (hsane _ (hT _ (Nat.le_refl _)).1) (hsane t (hT t ht0).1)
      (Int.le_trans hm1 (e.clock_mono (show m1 ≤ t by omega)))
  have h4 := hstuck t ht0 htick hnext
  omega

/-! ### the main lemma -/

theorem first_fail {P : Nat → Prop} {i j : Nat} (hij : i ≤ j) (hi : P i) (hj : ¬ P j) :
    ∃ k, i ≤ k ∧ k < j ∧ P k ∧ ¬ P (k + 1) := by
  have key : ∀ d i, i + d = j → P i → ∃ k, i ≤ k ∧ k < j ∧ P k ∧ ¬ P (k + 1) := by
    intro d
    induction d with
    | zero =>
      intro i hd hi
      have : i = j := by omega
      subst this
      exact absurd hi hj
    | succ d ih =>
      intro i hd hi
      by_cases hc : P (i + 1)
      · obtain ⟨k, h1, h2⟩ := ih (i + 1) (by omega) hc
        exact ⟨k, by omega, h2⟩
      · exact ⟨i, Nat.le_refl _, by omega, hi, hc⟩
  exact key (j - i) i (by omega) hi

/-- **An expired entry is eventually reclaimed.**  `e` weakly fair, drain loops end, the ticker branch is
treated strongly fairly, the clock passes the expiration by 10 s and later advances 10 s more
(`ClockPasses`); the cache was created at a sane time, and the clock is sane as long as the entry is
resident.  If the entry `en` (with a TTL) is resident under `k`
at time `i` and from then on only the sweep's own `DelExpired` step changes it, then some sweep reclaims
it: there are times `i ≤ j0 ≤ j` with `en` still resident at `j0`, the applier back at its `select` at
`j`, and `Reclaimed … (log at j0) (state at j)`: gone from store and policy, exactly one `evict` for `k`
since `j0`, namely `evict k _ en.value _` directly followed by `exit en.value`. -/
theorem eventually_reclaimed {e : Exec cfg} (hf : WeakFair e) (hd : DrainsEnd e) (htf : TickFair e)
    {now0 : Time} (hc : CreatedAt e now0) (h0 : TimeOk now0)
    {k : Hash} {en : Entry} {i : Nat} (hcp : ClockPasses e i en.exp) (hi : (e.st i).store.lookup k = some en)
    (hz : en.exp ≠ Gen.zeroTime) (hexp : TimeOk en.exp)
    (hsane : ∀ j, i ≤ j → (e.st j).store.lookup k = some en → TimeOk (e.st j).clock)
    (hH : OnlySweepChanges e k en i) :
    ∃ j0 j, i ≤ j0 ∧ j0 ≤ j ∧ (e.st j0).store.lookup k = some en ∧ (e.st j).app = .idle ∧
      Reclaimed k en (fun _ => True) (e.st j0).log (e.st j) := by
  by_cases hall : ∀ j, i ≤ j → (e.st j).store.lookup k = some en
  · -- the entry stays: some grab covers its bucket, that sweep removes it
    obtain ⟨t, hit, htick, hnext, b', m, hbok, hle, hreg, hregk, hlc, hnew, hcov⟩ :=
      exists_covering_tick hf hd htf hc h0 hcp hall (fun j hj => hsane j hj (hall j hj)) hz hexp
    have hclk := hsane t hit (hall t hit)
    have hlt := bucket_lt hexp hclk (Int.le_trans hle hcov)
    have hin := (inRange_iff hlc hbok (cleanupOf_ok (e.st t).clock)).mpr ⟨hnew, hcov⟩
    obtain ⟨hmem, _⟩ := grab_hit hreg hin
    have hph : Phase k en (e.st t).clock (fun _ => True) (e.st t).log (e.st (t + 1)) := by
      rw [hnext]
      exact .pending ((e.st t).em.grab (e.st t).clock).2 (by simp [apTick, PendingPc]) ⟨m, hmem, hregk⟩
        (hall t hit) rfl trivial
    obtain ⟨j', hj', hidle, hrec⟩ := phase_until_idle hf hz (Int.le_of_lt hlt) hph
      (fun m hm => hH m (by omega))
    exact ⟨t, j', hit, by omega, hall t hit, hidle, hrec⟩
  · -- the entry goes: by the sweep's `DelExpired` step; follow that sweep
    have hex : ∃ j, i ≤ j ∧ (e.st j).store.lookup k ≠ some en := by
      apply Classical.byContradiction
      intro hn
      exact hall fun j hj => Classical.byContradiction fun h => hn ⟨j, hj, h⟩
    obtain ⟨j, hij, hj⟩ := hex
    obtain ⟨j0, h1, _, h3, h4⟩ := first_fail (P := fun j => (e.st j).store.lookup k = some en) hij hi hj
    obtain ⟨now, c, bs, hpc, ch, hact⟩ := hH j0 h1 h3 h4
    have hs := e.next j0
    rw [hact] at hs
    have hnext := swKey_step_eq hpc hs
    rcases apSwKey_cases (e.st j0) now k c bs with ⟨e', hl', _, hle', _, heq⟩ | heq
    · rw [h3] at hl'
      cases hl'
      have hph : Phase k en now (fun _ => True) (e.st j0).log (e.st (j0 + 1)) := by
        rw [hnext, heq]
        exact .storeDel c bs rfl (AMap.lookup_erase_self ..) rfl trivial
      obtain ⟨j', hj', hidle, hrec⟩ := phase_until_idle hf hz hle' hph (fun m hm => hH m (by omega))
      exact ⟨j0, j', h1, by omega, h3, hidle, hrec⟩
    · exfalso
      apply h4
      rw [hnext, heq]
      exact h3

end RV.Cache
