import RV.Gen.BufferM
import RV.Proofs.BufferGrow
import RV.Proofs.TieBufferPrims
/-!
The abstraction between the generated `Gen.BufferM.Buffer` (Go's struct: 64-bit words, the whole
backing array) and the hand-written model `RV.Buffer.Buf` (naturals, the used prefix as a list),
and what "the generated function agrees with the model function" means.
-/
namespace RV.TieBuffer
open Gen.Buf Gen.BufferM RV.Buffer

/-- `UseMmap` is 1, `UseCalloc` is 0 -/
def absMode (t : BitVec 64) : Mode := if t == 1#64 then .mmap else .calloc

/-- the model state a generated buffer stands for: `data` is `b.buf[:b.offset]` -/
def abs (g : Buffer) : Buf where
  padding := g.padding.toNat
  offset := g.offset.toNat
  curSz := g.curSz.toNat
  maxSz := g.maxSz.toNat
  mode := absMode g.bufType
  autoMmapAfter := g.autoMmapAfter.toNat
  data := g.buf.toList.take g.offset.toNat

/-- Well-formed generated buffer: initialised, `len(b.buf) = b.curSz`, a valid buffer type with
its mapping, and the model's `WF` (sizes far from `int` overflow, `padding ≤ offset ≤ curSz`). -/
structure GWF (g : Buffer) : Prop where
  nonnil : g.buf_nonnil = true
  size : g.buf.size = g.curSz.toNat
  ty : g.bufType = 0#64 ∨ (g.bufType = 1#64 ∧ g.mmapFile_nonnil = true)
  wf : WF (abs g)

/-- generated result vs model result: both succeed with related values, or both panic -/
def Agree {α β : Type} (R : α → β → Prop) : Option α → Except Fault β → Prop
  | some a, .ok b => R a b
  | none, .error _ => True
  | _, _ => False

theorem agree_ok {α β : Type} {R : α → β → Prop} {a : α} {b : β} (h : R a b) :
    Agree R (some a) (.ok b) := h

theorem agree_err {α β : Type} {R : α → β → Prop} (f : Fault) :
    Agree R (none : Option α) (.error f : Except Fault β) := trivial

@[simp] theorem w_toNat_self (x : BitVec 64) : w x.toNat = x := by
  unfold w; exact BitVec.ofNat_toNat 64 x |>.trans (by simp)

theorem abs_offset (g : Buffer) : (abs g).offset = g.offset.toNat := rfl
theorem abs_padding (g : Buffer) : (abs g).padding = g.padding.toNat := rfl
theorem abs_curSz (g : Buffer) : (abs g).curSz = g.curSz.toNat := rfl
theorem abs_maxSz (g : Buffer) : (abs g).maxSz = g.maxSz.toNat := rfl
theorem abs_auto (g : Buffer) : (abs g).autoMmapAfter = g.autoMmapAfter.toNat := rfl
theorem abs_data (g : Buffer) : (abs g).data = g.buf.toList.take g.offset.toNat := rfl
theorem abs_mode (g : Buffer) : (abs g).mode = absMode g.bufType := rfl

theorem GWF.off_le (g : Buffer) (h : GWF g) : g.offset.toNat ≤ g.buf.size := by
  have := h.wf.cap; rw [abs_offset, abs_curSz] at this; rw [h.size]; exact this

end RV.TieBuffer
