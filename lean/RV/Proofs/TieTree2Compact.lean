import RV.Proofs.TieTree2CompactA
/-!
# `Tree.compact` and `Tree.DeleteBelow` (generated whole) refine `compactNode` / `deleteBelow`

Inner case (the loop of `TieTree2CompactA` followed by `n.compact(1)`), the induction on the fuel,
and `DeleteBelow` on top of it.
-/
namespace RV.TreeFlat
open RV.Tree RV.NodeFlat Gen.TreeM Gen.Tree

theorem cp_forRange_zero {ρ σ : Type} (N : Nat) (hN : N < 2 ^ 63) (body : BitVec 64 → σ → Option (Gen.LoopOut ρ σ))
    (s : σ) : Gen.forRange 0#64 (w N) body s = Gen.forGo (w N) body N (w 0) s := by
  unfold Gen.forRange
  have h0 : (0#64 : BitVec 64) = w 0 := rfl
  rw [h0, w_toInt hN, w_toInt (by omega)]
  simp

theorem cp_reprEnts_dropNil {cfg : Cfg} {d : Words} (es : List (Key × Node)) (h : ReprEnts cfg d es) :
    ReprEnts cfg d (dropNil es) := by
  rw [reprEnts_iff_forall] at h ⊢
  intro e he
  unfold dropNil at he
  exact h e (List.mem_filter.mp he).1

theorem cp_compact_inner {cfg : Cfg} (hc : CfgFlat cfg) (hok : CfgOk cfg) (ts : Val) (fuel : Nat)
    (IH : ∀ (c : Node) (b : Nat) (lo hi : Key) (t : St) (a : Alloc), height c ≤ fuel →
      okNode cfg.maxKeys b c lo hi → b ≤ cfg.maxKeys → TreeFlat.Repr cfg t.data c → AllocInv cfg t a → Live a c →
      cp_Post cfg ts (Gen.TreeM.compact (w cfg.pageSize) (w cfg.maxKeys) fuel) c t a)
    (p : Nat) (es : List (Key × Node)) (b : Nat) (lo hi : Key) (t : St) (a : Alloc)
    (h : okNode cfg.maxKeys b (.inner p es) lo hi) (hb : b ≤ cfg.maxKeys)
    (hr : TreeFlat.Repr cfg t.data (.inner p es)) (hinv : AllocInv cfg t a) (hlive : Live a (.inner p es))
    (hh : height (.inner p es) ≤ fuel + 1) :
    cp_Post cfg ts (Gen.TreeM.compact (w cfg.pageSize) (w cfg.maxKeys) (fuel + 1)) (.inner p es) t a := by
  obtain ⟨hpg, hre⟩ := repr_inner hr
  have hmk := hc.mkLt
  have hs := hpg.ok.1
  have hlen : es.length ≤ b := h.2.2
  have hnk : (Node.inner p es).numKeys = es.length := Node.numKeys_eq _ (by simp [Node.len]; omega)
  have hnkp : nkeys cfg.maxKeys (pageOf cfg t.data p) = es.length := by
    rw [← ents_length, hpg.ents, entWords_length]
  obtain ⟨hlents, hpn, hpf, hplt⟩ := hlive.inner
  have hpe : ∀ q ∈ pidsEnts es, PosPid q := fun q hq => by
    have h1 := reprEnts_fits es hre q hq
    have h2 := hinv.small
    have h3 := pw_pos cfg
    refine ⟨h1.1, ?_⟩
    have : q + 1 ≤ (q + 1) * pw cfg := Nat.le_mul_of_pos_right _ h3
    omega
  obtain ⟨r1, r2, r3, r4, _, _, _⟩ :=
    compactEnts_spec hok.lt ts es lo 0 es.length a h.1 hpe hinv.scal.fault (by omega) (by omega)
  have hsrt := okEnts_sorted h.1
  have hne : es ≠ [] := h.2.1.1
  have hic := inner_compact r2 hsrt hne (by omega)
  obtain ⟨_, _, d3, _, _⟩ := r2.dropNil hsrt
  obtain ⟨_, _, _, _, hout⟩ := live_of_cons r3 hlents.nodup hlents.live hinv.nodup hinv.below
  have hhe : heightEnts es ≤ fuel := by rw [height] at hh; omega
  obtain ⟨t1, hgo, hpg1, hre1, hinv1, hsz1, hep1, hfr1⟩ :=
    cp_loop hc hok ts (Gen.TreeM.compact (w cfg.pageSize) (w cfg.maxKeys) fuel) fuel IH p es.length t.epoch (by omega)
      es [] lo t a rfl rfl hpg hre hinv hlents hpn hpf hplt h.1 hhe
  simp only [List.length_nil, List.nil_append] at hgo hpg1 hre1 hinv1
  unfold cp_Post
  rw [cp_compactNode_inner, hnk]
  simp only [Node.pid]
  rw [Gen.TreeM.compact]
  rw [rdNode_refOf t p hpg.fit, isLeaf_w hs (by omega), hpg.isLeaf]
  simp only [Option.bind_some, Bool.false_eq_true, if_false]
  rw [rdNode_refOf t p hpg.fit, numKeys_w hs (by omega), hnkp]
  simp only [Option.bind_some]
  rw [cp_forRange_zero _ (by omega)]
  simp only [refOf]
  rw [hgo]
  simp only [Option.bind_some]
  generalize compactEnts ts es 0 es.length a = res at *
  obtain ⟨es1, a1⟩ := res
  simp only at r1 r2 r3 r4 hic d3 hout hpg1 hre1 hinv1
  have hpf1 : p ∉ a1.free := (hout p hpn hpf hplt).2
  -- the final `n.compact(1)`
  obtain ⟨p', hp', hsz', hents', hnk', hpid', hkind', hleaf', hz'⟩ := compact_w hpg1.ok hc.mk1 (by omega) 1#64
  have hok' : PageOk cfg.maxKeys p' := compact_pageOk hpg1.ok hc.mk1 (by omega) 1#64 p' _ hp'
  have hfit1 : (p + 1) * pw cfg ≤ t1.data.size := hpg1.fit
  have hp's : p'.size = pw cfg := by rw [hsz', pageOf_size _ _ hfit1]
  rw [hpg1.ents, entWords_eq_mapV,
    nodeCompact_mapV childWord (fun _ => Node.null) (fun _ => rfl) es1 1#64, hic] at hp' hents'
  simp only at hp' hents'
  rw [hic]
  simp only []
  rw [wrNodeR_win (cfg := cfg) t1 p t.epoch hep1.symm hfit1 _ p' _ hp' hp's]
  simp only [Option.bind_some]
  have hself := pageOf_setPage_self (cfg := cfg) t1.data p p' hfit1 hp's
  refine ⟨_, rfl, ?_, hinv1.setPage p p' hpf1 hfit1 hp's, by simp only [setPage_size]; exact hsz1, hep1, ?_⟩
  · simp only []
    rw [TreeFlat.Repr]
    refine ⟨⟨hpg.pos, by rw [setPage_size]; exact hfit1, ?_, ?_, ?_, ?_, ?_⟩, ?_⟩
    · rw [hself]; exact hok'
    · rw [hself, hleaf']; exact hpg1.isLeaf
    · rw [hself, hkind']; exact hpg1.kind
    · rw [hself, hpid']; exact hpg1.pid
    · rw [hself, hents', entWords_eq_mapV]
    · refine reprEnts_frame (by rw [setPage_size]; exact Nat.le_refl _) _ (fun q hq hfq => ?_) (cp_reprEnts_dropNil es1 hre1)
      have hqp : q ≠ p := fun e => hpn (e ▸ d3 q hq)
      exact pageOf_setPage_ne _ _ _ _ hqp hfit1 hfq hp's
  · intro r hr hrf hrl hrfit
    simp only [pids, List.mem_cons, not_or] at hr
    simp only []
    rw [pageOf_setPage_ne _ _ _ _ hr.1 hfit1 (by rw [hsz1]; exact hrfit) hp's]
    exact hfr1 r hr.2 hr.1 hrf hrl hrfit

theorem cp_main {cfg : Cfg} (hc : CfgFlat cfg) (hok : CfgOk cfg) (ts : Val) :
    ∀ (fuel : Nat) (n : Node) (b : Nat) (lo hi : Key) (t : St) (a : Alloc), height n ≤ fuel →
    okNode cfg.maxKeys b n lo hi → b ≤ cfg.maxKeys →
    TreeFlat.Repr cfg t.data n → AllocInv cfg t a → Live a n →
    cp_Post cfg ts (Gen.TreeM.compact (w cfg.pageSize) (w cfg.maxKeys) fuel) n t a
  | 0, n, _, _, _, _, _, hh, h, _, _, _, _ => by
    cases n with
    | null => exact absurd h id
    | leaf p es => rw [height] at hh; omega
    | inner p es => rw [height] at hh; omega
  | _ + 1, .null, _, _, _, _, _, _, h, _, _, _, _ => absurd h id
  | fuel + 1, .leaf p es, _, _, _, t, a, _, _, _, hr, hinv, hlive => cp_compact_leaf hc ts fuel p es t a hr hinv hlive
  | fuel + 1, .inner p es, b, lo, hi, t, a, hh, h, hb, hr, hinv, hlive =>
    cp_compact_inner hc hok ts fuel (cp_main hc hok ts fuel) p es b lo hi t a h hb hr hinv hlive hh

/-- the generated `Tree.compact` on a represented, well-formed, live node refines `compactNode` -/
theorem compact_refines {cfg : Cfg} (hc : CfgFlat cfg) (hok : CfgOk cfg) (ts : Val) :
    ∀ (fuel : Nat) (n : Node) (b : Nat) (lo hi : Key) (t : St) (a : Alloc),
    okNode cfg.maxKeys b n lo hi → b ≤ cfg.maxKeys →
    TreeFlat.Repr cfg t.data n → AllocInv cfg t a → Live a n → height n ≤ fuel →
    ∃ t', Gen.TreeM.compact (w cfg.pageSize) (w cfg.maxKeys) fuel t (refOf cfg t n.pid) ts =
        some (t', w (compactNode ts n a).2.2) ∧
      TreeFlat.Repr cfg t'.data (compactNode ts n a).1 ∧ AllocInv cfg t' (compactNode ts n a).2.1 ∧
      t'.data.size = t.data.size ∧ t'.epoch = t.epoch ∧
      (∀ r, r ∉ pids n → r ∉ a.free → r < a.nextPage → (r + 1) * pw cfg ≤ t.data.size →
        pageOf cfg t'.data r = pageOf cfg t.data r) :=
  fun fuel n b lo hi t a h hb hr hinv hlive hh => cp_main hc hok ts fuel n b lo hi t a hh h hb hr hinv hlive

theorem DeleteBelow_refines {cfg : Cfg} (hc : CfgFlat cfg) (hok : CfgOk cfg) (t : St) (tr : Tree)
    (hti : TreeInv cfg tr) (hroot : tr.root.pid = 1) (hr : TreeFlat.Repr cfg t.data tr.root)
    (hinv : AllocInv cfg t tr.a) (hlive : Live tr.a tr.root) (ts : Val) (fuel : Nat) (hfuel : height tr.root ≤ fuel) :
    ∃ t', Gen.TreeM.DeleteBelow (w cfg.pageSize) (w cfg.maxKeys) fuel t ts = some t' ∧
      TreeFlat.Repr cfg t'.data (deleteBelow tr ts).root ∧ AllocInv cfg t' (deleteBelow tr ts).a ∧
      t'.data.size = t.data.size := by
  have hmk := hc.mkLt
  have hge := hok.ge4
  have hn : tr.root ≠ .null := okNode_ne_null hti.ok
  obtain ⟨lf, kv, hpg, _, _⟩ := repr_pageOf tr.root hn hr
  rw [hroot] at hpg
  obtain ⟨a0, ha0⟩ : ∃ a0 : Alloc, a0 = { tr.a with leafKeys := 0 } := ⟨_, rfl⟩
  have hinv0 : AllocInv cfg { t with numLeafKeys := 0#64 } a0 := by
    rw [ha0]
    exact ⟨⟨hinv.scal.nextPage, hinv.scal.freePage, rfl, hinv.scal.pagesFree, hinv.scal.dataLen, hinv.scal.curSz,
      hinv.scal.bufOffset, hinv.scal.fault⟩, hinv.chain, hinv.nodup, hinv.below, hinv.npos, hinv.small⟩
  have hlive0 : Live a0 tr.root := by rw [ha0]; exact ⟨hlive.nodup, hlive.live⟩
  have hfault0 : a0.fault = none := by rw [ha0]; exact hti.nofault
  have hpos : ∀ q ∈ pids tr.root, PosPid q := fun q hq => by
    have h1 := repr_fits tr.root hr q hq
    have h2 := hinv.small
    have h3 := pw_pos cfg
    refine ⟨h1.1, ?_⟩
    have : q + 1 ≤ (q + 1) * pw cfg := Nat.le_mul_of_pos_right _ h3
    omega
  obtain ⟨_, n2, _, n4, _, _, _, _, _, _, _, _, _⟩ :=
    compactNode_spec hok.lt ts tr.root (cfg.maxKeys - 1) 0#64 absoluteMax a0 hti.ok
      (by omega) hpos hfault0
  have hlen := okNode_len n2
  obtain ⟨t1, hcomp, hr1, hinv1, hsz1, hep1, _⟩ :=
    compact_refines hc hok ts fuel tr.root (cfg.maxKeys - 1) 0#64 absoluteMax { t with numLeafKeys := 0#64 }
      a0 hti.ok (by omega) hr hinv0 hlive0 hfuel
  have hposl : 1 ≤ (compactNode ts tr.root a0).1.len := by
    generalize (compactNode ts tr.root a0).1 = r at n2
    cases r with
    | null => exact absurd n2 id
    | leaf p es =>
      have := n2.2.1.1
      cases es with
      | nil => exact absurd rfl this
      | cons _ _ => simp [Node.len]
    | inner p es =>
      have := n2.2.1.1
      cases es with
      | nil => exact absurd rfl this
      | cons _ _ => simp [Node.len]
  have h1w : (1#64 : BitVec 64) = w 1 := rfl
  have hassert : deleteBelowAssert (w (compactNode ts tr.root a0).1.numKeys) = true := by
    unfold deleteBelowAssert
    rw [Node.numKeys_eq _ (by omega), h1w, w_sle (by omega) (by omega)]; simp; omega
  have hmodel : deleteBelow tr ts = Tree.mk (compactNode ts tr.root a0).1
      (compactNode ts tr.root a0).2.1 := by
    rw [ha0] at hassert ⊢
    unfold deleteBelow
    simp only [hassert, if_true]
  have hc1n := okNode_ne_null n2
  obtain ⟨lf1, kv1, hpg1, hkv1, _⟩ := repr_pageOf _ hc1n hr1
  rw [n4, hroot] at hpg1
  have hnk1 : nkeys cfg.maxKeys (pageOf cfg t1.data 1) = (compactNode ts tr.root a0).1.len := by
    rw [← ents_length, hpg1.ents, hkv1]
  rw [hmodel]
  unfold Gen.TreeM.DeleteBelow
  rw [h1w, node_w hc t 1 (by omega) hpg.fit hinv.small]
  simp only [Option.bind_some]
  rw [hroot] at hcomp
  have hrefeq : refOf cfg { t with numLeafKeys := 0#64 } 1 = refOf cfg t 1 := rfl
  rw [hrefeq] at hcomp
  rw [hcomp]
  simp only [Option.bind_some, refOf]
  rw [rdNode_win t1 1 t.epoch hep1.symm hpg1.fit, numKeys_w hpg1.ok.1 (by have := hpg1.ok.1; omega), hnk1]
  simp only [Option.bind_some]
  rw [w_sle (by omega) (by omega)]
  simp only [hposl, decide_true, Gen.guard, if_true, Option.bind_some]
  exact ⟨t1, rfl, hr1, hinv1, hsz1⟩

end RV.TreeFlat
