import RV.Proofs.CacheFifoSpec
/-!
# C06: the simulation relation `SimR` and the client side of the simulation

`SimR t0 s sp`: the reference state `sp` abstracts the model state `s` in which `t0` is the only
client: same map (`store.lookup`), same pending sequence (costs erased), same clock / marker
counter, the client's pc (a blocked sender counts as "sent"), and the accounted set equals the
keys of `pol.costs` except for the key of the element the applier is in the middle of applying.
-/
namespace RV.Cache
open Gen.Cache

/-- pcs of the five map calls (and `idle`) -/
def CPc.callPc : CPc → Bool
  | .idle => true
  | .setStart .. => true | .setUpd _ => true | .setExit .. => true | .setSend _ => true
  | .setRetTrue _ => true | .setRetDrop _ => true
  | .delStart .. => true | .delExit .. => true | .delSend .. => true | .delBlocked _ => true | .delSent _ => true
  | .waitStart => true | .waitSend => true | .waitBlocked _ => true | .waitRecv _ => true | .waitDone => true
  | .getStart .. => true | .getRead .. => true | .getCheck .. => true | .getMetric .. => true
  | .ttlRead .. => true | .ttlCheck .. => true | .ttlExp .. => true | .ttlNow .. => true | .ttlUntil .. => true
  | _ => false

theorem callPc_elim {pc : CPc} {P : Prop} (h : pc.callPc = true) (h' : pc.callPc = false) : P := by
  rw [h'] at h; cases h

/-- applier pcs that occur without `Clear`/`Close` and without victims -/
def APc.ok : APc → Bool
  | .victims _ => false | .victimEvict .. => false | .stopAck => false | .dead => false | _ => true

/-- keys whose accounting is in flux: the applier is between the policy step and the store step -/
def Exempt (s : State) (h : Hash) : Prop :=
  (∃ i vs ok, s.app = .added i vs ok ∧ h = i.key) ∨ (∃ i, s.app = .tombPolicy i ∧ h = i.key) ∨
  (∃ now c e v bs, s.app = .swStoreDel now h c e v bs)

structure SimR (t0 : Tid) (s : State) (sp : Spec) : Prop where
  map : ∀ h, sp.map h = s.store.lookup h
  pend : sp.pend = pendE s
  clock : sp.clock = s.clock
  nm : sp.nextMarker = s.nextMarker
  cl : sp.cl = unblockedPc (s.cl t0)
  callPc : (s.cl t0).callPc = true
  others : ∀ t, t ≠ t0 → s.cl t = .idle
  opn : s.closed = false
  acct : ∀ h, ¬ Exempt s h → sp.acct h = s.pol.costs.contains h
  added : ∀ i vs ok, s.app = .added i vs ok → vs = [] ∧ sp.acct i.key = !ok ∧ s.pol.costs.contains i.key = true
  swd : ∀ now k c e v bs, s.app = .swStoreDel now k c e v bs → sp.acct k = false
  appOk : s.app.ok = true

theorem simR_init (cfg : Cfg) (t0 : Tid) (now : Time) : SimR t0 (init cfg now) (Spec.init now) := by
  constructor <;> simp [init, Spec.init, pendE, pending, queue, appElem, unblockedPc, AMap.contains, Exempt]
  all_goals rfl

theorem unblockedPc_idem (pc : CPc) : unblockedPc (unblockedPc pc) = unblockedPc pc := by
  cases pc <;> rfl

theorem unblockedPc_callPc (pc : CPc) : (unblockedPc pc).callPc = pc.callPc := by
  cases pc <;> rfl

/-- a step of the client that touches neither store, policy, queue nor applier -/
theorem SimR.client_frame {t0 : Tid} {s s' : State} {sp : Spec} (h : SimR t0 s sp)
    (hstore : s'.store = s.store) (hpol : s'.pol = s.pol) (hbuf : s'.buf = s.buf) (hsq : s'.sendq = s.sendq)
    (happ : s'.app = s.app) (hnm : s'.nextMarker = s.nextMarker) (hclock : s'.clock = s.clock)
    (hclosed : s'.closed = s.closed) (hne : ∀ t, t ≠ t0 → s'.cl t = s.cl t)
    (pc' : CPc) (hpc' : s'.cl t0 = pc') (hcp : pc'.callPc = true) :
    SimR t0 s' { sp with cl := unblockedPc pc' } := by
  have hp : pendE s' = pendE s := by unfold pendE; rw [pending_congr (by rw [happ]) hbuf hsq]
  constructor
  · intro k; rw [hstore]; exact h.map k
  · show sp.pend = _; rw [hp]; exact h.pend
  · show sp.clock = _; rw [hclock]; exact h.clock
  · show sp.nextMarker = _; rw [hnm]; exact h.nm
  · show unblockedPc pc' = _; rw [hpc']
  · rw [hpc']; exact hcp
  · intro t ht; rw [hne t ht]; exact h.others t ht
  · rw [hclosed]; exact h.opn
  · intro k hk
    show sp.acct k = _
    rw [hpol]
    exact h.acct k (by unfold Exempt at hk ⊢; rw [happ] at hk; exact hk)
  · intro i vs ok ha; rw [happ] at ha; rw [hpol]; exact h.added i vs ok ha
  · intro now k c e v bs ha; rw [happ] at ha; exact h.swd now k c e v bs ha
  · rw [happ]; exact h.appOk

/-- the observable part of a log extension -/
theorem obs_ext {l l' evs : List Ev} (h : l' = evs ++ l) : obsOf l' = obsOf evs ++ obsOf l := by
  rw [h]; simp

end RV.Cache
