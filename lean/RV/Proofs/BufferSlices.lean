import RV.Proofs.BufferRun
/-!
Reading back: `Slice` on a length-prefixed region, and the walkers.
-/
namespace RV.Buffer
open Gen.Buffer

/-- offsets of consecutive encoded slices starting at `off` -/
def offsetsFrom (off : Nat) : List Bytes → List Nat
  | [] => []
  | s :: ss => off :: offsetsFrom (off + 8 + s.length) ss

theorem offsetsFrom_length (off : Nat) (ss : List Bytes) : (offsetsFrom off ss).length = ss.length := by
  induction ss generalizing off with
  | nil => rfl
  | cons s ss ih => simp [offsetsFrom, ih]

theorem encAll_eq_nil {ss : List Bytes} (h : encAll ss = []) : ss = [] := by
  cases ss with
  | nil => rfl
  | cons s ss =>
    have := congrArg List.length h
    rw [encAll_cons, List.length_append, enc_length] at this
    simp at this

/-- `Slice(off)` where an encoded slice starts at `off`. -/
theorem slice_at (b : Buf) (h : WF b) (pre s rest : Bytes) (hd : b.data = pre ++ enc s ++ rest) :
    slice b pre.length =
      .ok (s, if rest = [] then none else some (pre.length + 8 + s.length)) := by
  have hlen := h.len; have hcap := h.cap; have hcur := h.curSmall
  have hl : b.data.length = pre.length + (8 + s.length) + rest.length := by
    rw [hd, List.length_append, List.length_append, enc_length]
  unfold slice
  rw [k_sliceAtEnd _ _ (by omega) (by omega)]
  have h1 : ¬ b.offset ≤ pre.length := by omega
  simp only [h1, decide_false, Bool.false_eq_true, if_false]
  have hdrop : b.data.drop pre.length = be64 (w s.length) ++ (s ++ rest) := by
    rw [hd, List.append_assoc, List.drop_left]; unfold enc; simp
  have hdl : (be64 (w s.length) ++ (s ++ rest)).length = 8 + s.length + rest.length := by
    simp only [List.length_append, be64_length]; omega
  simp only [hdrop, lenGe_eq, hdl]
  have h2 : 8 ≤ 8 + s.length + rest.length := by omega
  simp only [h2, decide_true, Bool.not_true, Bool.false_eq_true, if_false]
  rw [getU64_slice_be64]
  rw [k_sliceStart, k_sliceNext, toNat_w _ (by omega), toNat_w _ (by omega)]
  have h3 : pre.length ≤ pre.length + 8 := by omega
  have h3' : pre.length + 8 ≤ pre.length + 8 + s.length := by omega
  have h3'' : pre.length + 8 + s.length - pre.length ≤ 8 + s.length + rest.length := by omega
  simp only [h3, h3', h3'', decide_true, and_self, if_true]
  have hres : ((be64 (w s.length) ++ (s ++ rest)).drop (pre.length + 8 - pre.length)).take
      (pre.length + 8 + s.length - (pre.length + 8)) = s := by
    rw [show pre.length + 8 - pre.length = (be64 (w s.length)).length by rw [be64_length]; omega, List.drop_left,
      show pre.length + 8 + s.length - (pre.length + 8) = s.length by omega, List.take_left]
  rw [hres, k_sliceIsLast _ _ (by omega) (by omega)]
  by_cases hr : rest = []
  · subst hr
    have : b.offset ≤ pre.length + 8 + s.length := by simp at hl; omega
    simp [this]
  · have : 0 < rest.length := List.length_pos_iff.mpr hr
    have : ¬ b.offset ≤ pre.length + 8 + s.length := by omega
    simp [this, hr]

/-- `Slice(off)` at or beyond the written length returns `(nil, -1)`. -/
theorem slice_at_end (b : Buf) (h : WF b) (off : Nat) (ho : b.offset ≤ off) (hs : off < 2 ^ 62) :
    slice b off = .ok ([], none) := by
  have hcap := h.cap; have hcur := h.curSmall
  unfold slice
  rw [k_sliceAtEnd _ _ (by omega) (by omega)]
  simp [ho]

/-- The walking loop over a region `pre ++ encAll S ++ post`: it visits exactly the slices
of `S`, provided the loop condition holds inside the region and fails right after it
(when anything follows; at the very end of the buffer `Slice` itself returns -1). -/
theorem walk_spec (cond : BitVec 64 → Bool) (b : Buf) (h : WF b) (post : Bytes)
    (hnone : cond (nextWord none) = false) :
    ∀ (S : List Bytes) (pre : Bytes) (fuel : Nat),
      b.data = pre ++ encAll S ++ post →
      S.length < fuel →
      (S ≠ [] ∨ post ≠ []) →
      (∀ n, n < pre.length + (encAll S).length → cond (nextWord (some n)) = true) →
      (post ≠ [] → cond (nextWord (some (pre.length + (encAll S).length))) = false) →
      walk cond b fuel (some pre.length) = .ok ((offsetsFrom pre.length S).zip S) := by
  intro S
  induction S with
  | nil =>
    intro pre fuel _ hfuel hne _ hstop
    have hp : post ≠ [] := by rcases hne with h | h; exact absurd rfl h; exact h
    cases fuel with
    | zero => omega
    | succ f =>
      have := hstop hp
      simp only [encAll_nil, List.length_nil, Nat.add_zero] at this
      simp [walk, this, offsetsFrom]
  | cons s ss ih =>
    intro pre fuel hd hfuel _ hin hstop
    cases fuel with
    | zero => omega
    | succ f =>
      have hlen : (encAll (s :: ss)).length = 8 + s.length + (encAll ss).length := by
        rw [encAll_cons, List.length_append, enc_length]
      have hc : cond (nextWord (some pre.length)) = true := hin _ (by omega)
      have hd' : b.data = pre ++ enc s ++ (encAll ss ++ post) := by rw [hd, encAll_cons]; simp
      unfold walk
      simp only [hc, Bool.not_true, Bool.false_eq_true, if_false, slice_at b h pre s _ hd']
      by_cases hr : encAll ss ++ post = []
      · have hss : ss = [] := encAll_eq_nil (List.append_eq_nil_iff.mp hr).1
        subst hss
        simp only [hr, if_true]
        cases f with
        | zero => simp at hfuel
        | succ f' => simp [walk, hnone, offsetsFrom]
      · simp only [hr, if_false]
        have hpre : (pre ++ enc s).length = pre.length + 8 + s.length := by
          rw [List.length_append, enc_length]; omega
        have := ih (pre ++ enc s) f (by rw [hd']; simp) (by simp at hfuel; omega)
          (by
            by_cases hss : ss = []
            · right; subst hss; simpa [encAll_nil] using hr
            · left; exact hss)
          (by intro n hn; apply hin; rw [hlen]; rw [hpre] at hn; omega)
          (by intro hp; have := hstop hp; rw [hlen] at this; rw [hpre]
              rwa [show pre.length + 8 + s.length + (encAll ss).length
                = pre.length + (8 + s.length + (encAll ss).length) by omega])
        rw [hpre] at this
        rw [this]
        simp [offsetsFrom]

/-- Walking an empty buffer region at the very end of the buffer: `Slice` is still called
once (it returns `(nil,-1)`), so the loop body runs once with an empty slice. -/
theorem walk_empty_end (cond : BitVec 64 → Bool) (b : Buf) (h : WF b) (fuel : Nat)
    (hnone : cond (nextWord none) = false) (hc : cond (nextWord (some b.offset)) = true) (hf : 2 ≤ fuel) :
    walk cond b fuel (some b.offset) = .ok [(b.offset, [])] := by
  have := h.cap; have := h.curSmall
  match fuel, hf with
  | f + 2, _ =>
    simp [walk, hc, slice_at_end b h b.offset (Nat.le_refl _) (by omega), hnone]

/-- A buffer whose written bytes are the encoding of the slices `S`. -/
structure Holds (b : Buf) (S : List Bytes) : Prop where
  wf : WF b
  enc : bytes b = encAll S

theorem Holds.data {b : Buf} {S : List Bytes} (h : Holds b S) :
    b.data = b.data.take b.padding ++ encAll S ++ [] := by
  have := h.enc; unfold bytes at this
  rw [← this]; simp

theorem Holds.preLen {b : Buf} {S : List Bytes} (h : Holds b S) : (b.data.take b.padding).length = b.padding := by
  rw [List.length_take, h.wf.len]; have := h.wf.pad; omega

theorem Holds.offset {b : Buf} {S : List Bytes} (h : Holds b S) : b.offset = b.padding + (encAll S).length := by
  have := congrArg List.length h.data
  rw [List.length_append, List.length_append, h.preLen, h.wf.len] at this
  simpa using this

theorem sliceIterate_spec (b : Buf) (S : List Bytes) (h : Holds b S) :
    sliceIterate b = .ok (S.filter (fun s => s.length != 0)) := by
  have hw := h.wf
  have hcap := hw.cap; have hcur := hw.curSmall; have hpad := hw.pad
  have hoff := h.offset
  unfold sliceIterate
  rw [k_isEmpty _ _ (by omega) (by omega)]
  by_cases hS : S = []
  · subst hS
    simp only [encAll_nil, List.length_nil, Nat.add_zero] at hoff
    simp [hoff]
  · have hpos : 0 < (encAll S).length := by
      rcases Nat.eq_zero_or_pos (encAll S).length with h0 | h0
      · exact absurd (encAll_eq_nil (List.length_eq_zero_iff.mp h0)) hS
      · exact h0
    have hne : ¬ b.offset = b.padding := by omega
    simp only [hne, decide_false, Bool.false_eq_true, if_false]
    have hge := encAll_length_ge S
    have := walk_spec iterCond b hw [] k_iterCond_none S (b.data.take b.padding) (b.offset + 2) h.data
      (by omega) (Or.inl hS)
      (by intro n hn; rw [h.preLen] at hn; exact k_iterCond_some n (by omega))
      (by intro hp; exact absurd rfl hp)
    rw [h.preLen] at this
    rw [this]
    simp only
    rw [List.map_snd_zip (by rw [offsetsFrom_length]; exact Nat.le_refl _)]

theorem sliceOffsets_spec (b : Buf) (S : List Bytes) (h : Holds b S) :
    sliceOffsets b = .ok (if S = [] then [b.padding] else offsetsFrom b.padding S) := by
  have hw := h.wf
  have hcap := hw.cap; have hcur := hw.curSmall; have hpad := hw.pad
  have hoff := h.offset
  unfold sliceOffsets
  by_cases hS : S = []
  · subst hS
    simp only [encAll_nil, List.length_nil, Nat.add_zero] at hoff
    rw [← hoff, walk_empty_end offsetsCond b hw (b.offset + 2) k_offsetsCond_none
      (k_offsetsCond_some _ (by omega)) (by omega)]
    simp
  · have hge := encAll_length_ge S
    have := walk_spec offsetsCond b hw [] k_offsetsCond_none S (b.data.take b.padding) (b.offset + 2) h.data
      (by omega) (Or.inl hS)
      (by intro n hn; rw [h.preLen] at hn; exact k_offsetsCond_some n (by omega))
      (by intro hp; exact absurd rfl hp)
    rw [h.preLen] at this
    rw [this]
    simp only [hS, if_false]
    rw [List.map_fst_zip (by rw [offsetsFrom_length]; exact Nat.le_refl _)]

/-- `Slice` at the offset of the `i`-th written slice returns it, and the offset of the
next one (`-1` after the last). -/
theorem slice_spec (b : Buf) (S : List Bytes) (h : Holds b S) (i : Nat) (hi : i < S.length) :
    slice b (b.padding + (encAll (S.take i)).length) =
      .ok (S[i], if i + 1 = S.length then none else some (b.padding + (encAll (S.take (i + 1))).length)) := by
  have hsplit : S = S.take i ++ S[i] :: S.drop (i + 1) := by
    rw [List.getElem_cons_drop, List.take_append_drop]
  have hd : b.data = (b.data.take b.padding ++ encAll (S.take i)) ++ enc S[i] ++ encAll (S.drop (i + 1)) := by
    have h0 := h.data
    have e : encAll S = encAll (S.take i) ++ (enc S[i] ++ encAll (S.drop (i + 1))) := by
      conv => lhs; rw [hsplit]
      rw [encAll_append, encAll_cons]
    rw [e] at h0
    exact h0.trans (by simp)
  have := slice_at b h.wf _ _ _ hd
  rw [List.length_append, h.preLen] at this
  rw [this]
  have ht : encAll (S.take (i + 1)) = encAll (S.take i) ++ enc S[i] := by
    rw [List.take_succ_eq_append_getElem hi, encAll_append, encAll_cons, encAll_nil, List.append_nil]
  rw [ht, List.length_append, enc_length]
  by_cases hl : i + 1 = S.length
  · have : S.drop (i + 1) = [] := List.drop_eq_nil_of_le (by omega)
    simp [hl, this, encAll_nil]
  · have hne : S.drop (i + 1) ≠ [] := by
      intro hh; have := List.drop_eq_nil_iff.mp hh; omega
    have : encAll (S.drop (i + 1)) ≠ [] := fun hh => hne (encAll_eq_nil hh)
    simp only [this, hl, if_false]
    congr 3; omega

end RV.Buffer
