import RV.Proofs.TieTreeSplit
import RV.Proofs.TieTreeSet
/-!
# The tree on flat memory, second part: the shape of the generated `Tree.set` / `Tree.Set`

The generated `Gen.TreeM.set` (inner-node case) is cut into its phases — *slot* (`n.key(idx) == 0`:
store the key, bump the count), *child* (nil child: `newNode(bitLeaf)` and hang it in), the
recursive call, *split* (`child.isFull()`: `split` and the two `n.set` calls) — and `Gen.TreeM.Set`
into the call of `set` and the *root split*.  Every cut is `rfl` against the generated text, so a
change of shape of the generated functions breaks these lemmas (and nothing is re-stated by hand).

Also: the allocator-side invariant bundle `AllocInv` and liveness of a structural node `Live`.
-/
namespace RV.TreeFlat
open RV.Tree RV.NodeFlat Gen.TreeM

/-! ## phases of `Tree.set` -/

/-- `if n.key(idx) == 0 { n.setAt(keyOffset(idx), k); n.setNumKeys(n.numKeys() + 1) }` -/
def setSlot (maxKeys : BitVec 64) (t : St) (n_2 : NodeRef) (idx_8 k x_9 : BitVec 64) : Option St :=
  (if (x_9 == 0#64) then
      (Gen.TreeM.wrNode t n_2 (fun p => Gen.Node.setAt p (Gen.Tree.keyOffset idx_8) k)).bind fun t_10 =>
      (Gen.TreeM.rdNode t_10 n_2 (fun p => Gen.Node.numKeys p maxKeys)).bind fun x_11 =>
      (Gen.TreeM.wrNode t_10 n_2 (fun p => Gen.Node.setNumKeys p maxKeys (x_11 + 1#64))).bind fun t_12 =>
      some t_12
    else
      some t)

/-- `if child == nil { child = t.newNode(bitLeaf); n = t.node(pid); n.setAt(valOffset(idx), child.pageID()) }` -/
def setChild (pageSize maxKeys : BitVec 64) (t_13 : St) (n_2 child_16 : NodeRef) (pid idx_8 : BitVec 64) :
    Option (St × NodeRef × NodeRef) :=
  (if (Gen.TreeM.isNil child_16) then
      (newNode pageSize maxKeys t_13 9223372036854775808#64).bind fun (t_17, w_18) =>
      let child_19 : NodeRef := w_18
      (node pageSize maxKeys t_17 pid).bind fun w_20 =>
      let n_21 : NodeRef := w_20
      (Gen.TreeM.rdNode t_17 child_19 (fun p => Gen.Node.pageID p maxKeys)).bind fun x_22 =>
      (Gen.TreeM.wrNode t_17 n_21 (fun p => Gen.Node.setAt p (Gen.Tree.valOffset idx_8) x_22)).bind fun t_23 =>
      some (t_23, n_21, child_19)
    else
      some (t_13, n_2, child_16))

/-- `if child.isFull() { nn := t.split(child.pageID()); n = t.node(pid); child = t.node(n.uint64(valOffset(idx)));
n.set(child.maxKey(), child.pageID()); n.set(nn.maxKey(), nn.pageID()) }` -/
def setSplit (pageSize maxKeys : BitVec 64) (t_28 : St) (n_32 child_30 : NodeRef) (pid idx_8 : BitVec 64) (x_33 : Bool) :
    Option (St × NodeRef × NodeRef) :=
  (if x_33 then
      (Gen.TreeM.rdNode t_28 child_30 (fun p => Gen.Node.pageID p maxKeys)).bind fun x_34 =>
      (split pageSize maxKeys t_28 x_34).bind fun (t_35, w_36) =>
      let nn_37 : NodeRef := w_36
      (node pageSize maxKeys t_35 pid).bind fun w_38 =>
      let n_39 : NodeRef := w_38
      (Gen.TreeM.rdNode t_35 n_39 (fun p => Gen.Node.uint64 p (Gen.Tree.valOffset idx_8))).bind fun x_40 =>
      (node pageSize maxKeys t_35 x_40).bind fun w_41 =>
      let child_42 : NodeRef := w_41
      (Gen.TreeM.rdNode t_35 child_42 (fun p => Gen.Node.maxKey p maxKeys)).bind fun x_43 =>
      (Gen.TreeM.rdNode t_35 child_42 (fun p => Gen.Node.pageID p maxKeys)).bind fun x_44 =>
      (Gen.TreeM.wrNodeR t_35 n_39 (fun p => Gen.Node.set p maxKeys x_43 x_44)).bind fun (t_45, _) =>
      (Gen.TreeM.rdNode t_45 nn_37 (fun p => Gen.Node.maxKey p maxKeys)).bind fun x_46 =>
      (Gen.TreeM.rdNode t_45 nn_37 (fun p => Gen.Node.pageID p maxKeys)).bind fun x_47 =>
      (Gen.TreeM.wrNodeR t_45 n_39 (fun p => Gen.Node.set p maxKeys x_46 x_47)).bind fun (t_48, _) =>
      some (t_48, n_39, child_42)
    else
      some (t_28, n_32, child_30))

/-- the generated `Tree.set`, one round, in terms of its phases -/
theorem set_succ (pageSize maxKeys : BitVec 64) (fuel : Nat) (t : St) (pid k v : BitVec 64) :
    Gen.TreeM.set pageSize maxKeys (fuel + 1) t pid k v =
      (node pageSize maxKeys t pid).bind fun n_2 =>
      (Gen.TreeM.rdNode t n_2 (fun p => Gen.Node.isLeaf p maxKeys)).bind fun x_3 =>
      if x_3 then
        (Gen.TreeM.wrNodeR t n_2 (fun p => Gen.Node.set p maxKeys k v)).bind fun x =>
        some ({ x.1 with numLeafKeys := (x.1.numLeafKeys + x.2) }, n_2)
      else
      (Gen.TreeM.rdNode t n_2 (fun p => Gen.Node.search p maxKeys k)).bind fun idx_8 =>
      if (BitVec.sle maxKeys idx_8) then none else
      (Gen.TreeM.rdNode t n_2 (fun p => Gen.Node.key p idx_8)).bind fun x_9 =>
      (setSlot maxKeys t n_2 idx_8 k x_9).bind fun t_13 =>
      (Gen.TreeM.rdNode t_13 n_2 (fun p => Gen.Node.val p idx_8)).bind fun x_14 =>
      (node pageSize maxKeys t_13 x_14).bind fun child_16 =>
      (setChild pageSize maxKeys t_13 n_2 child_16 pid idx_8).bind fun y =>
      (Gen.TreeM.rdNode y.1 y.2.2 (fun p => Gen.Node.pageID p maxKeys)).bind fun x_27 =>
      (Gen.TreeM.set pageSize maxKeys fuel y.1 x_27 k v).bind fun z =>
      (node pageSize maxKeys z.1 pid).bind fun n_32 =>
      (Gen.TreeM.rdNode z.1 z.2 (fun p => Gen.Node.isFull p maxKeys)).bind fun x_33 =>
      (setSplit pageSize maxKeys z.1 n_32 z.2 pid idx_8 x_33).bind fun u =>
      some (u.1, u.2.1) := rfl

/-! ## phases of `Tree.Set` -/

/-- the root split of `Tree.Set`: `right := t.split(1); left := t.newNode(root.bits()); copy(left[:keyOffset(maxKeys)], root);
left.setNumKeys(root.numKeys()); zeroOut(root[:keyOffset(maxKeys)]); root.setNumKeys(0); root.set(left…); root.set(right…)` -/
def SetRootSplit (pageSize maxKeys : BitVec 64) (t_1 : St) (root_3 : NodeRef) : Option (St × NodeRef) :=
  (Gen.TreeM.rdNode t_1 root_3 (fun p => Gen.Node.bits p maxKeys)).bind fun x_5 =>
  let bits_6 : BitVec 64 := x_5
  (split pageSize maxKeys t_1 1#64).bind fun (t_7, w_8) =>
  let right_9 : NodeRef := w_8
  (Gen.TreeM.rdNode t_7 right_9 (fun p => Gen.Node.pageID p maxKeys)).bind fun x_10 =>
  let rightID_11 : BitVec 64 := x_10
  (newNode pageSize maxKeys t_7 bits_6).bind fun (t_12, w_13) =>
  let left_14 : NodeRef := w_13
  (node pageSize maxKeys t_12 1#64).bind fun w_15 =>
  let root_16 : NodeRef := w_15
  (node pageSize maxKeys t_12 rightID_11).bind fun w_17 =>
  let right_18 : NodeRef := w_17
  (Gen.TreeM.sub left_14 0#64 (Gen.Tree.keyOffset maxKeys)).bind fun w_19 =>
  (Gen.TreeM.copyRef t_12 w_19 root_16).bind fun t_20 =>
  (Gen.TreeM.rdNode t_20 root_16 (fun p => Gen.Node.numKeys p maxKeys)).bind fun x_21 =>
  (Gen.TreeM.wrNode t_20 left_14 (fun p => Gen.Node.setNumKeys p maxKeys x_21)).bind fun t_22 =>
  (Gen.TreeM.sub root_16 0#64 (Gen.Tree.keyOffset maxKeys)).bind fun w_23 =>
  (Gen.TreeM.wrNode t_22 w_23 (fun p => Gen.Node.zeroOut p)).bind fun t_24 =>
  (Gen.TreeM.wrNode t_24 root_16 (fun p => Gen.Node.setNumKeys p maxKeys 0#64)).bind fun t_25 =>
  (Gen.TreeM.rdNode t_25 left_14 (fun p => Gen.Node.maxKey p maxKeys)).bind fun x_26 =>
  (Gen.TreeM.rdNode t_25 left_14 (fun p => Gen.Node.pageID p maxKeys)).bind fun x_27 =>
  (Gen.TreeM.wrNodeR t_25 root_16 (fun p => Gen.Node.set p maxKeys x_26 x_27)).bind fun (t_28, _) =>
  (Gen.TreeM.rdNode t_28 right_18 (fun p => Gen.Node.maxKey p maxKeys)).bind fun x_29 =>
  (Gen.TreeM.rdNode t_28 right_18 (fun p => Gen.Node.pageID p maxKeys)).bind fun x_30 =>
  (Gen.TreeM.wrNodeR t_28 root_16 (fun p => Gen.Node.set p maxKeys x_29 x_30)).bind fun (t_31, _) =>
  some (t_31, root_16)

/-- the generated `Tree.Set` in terms of `set` and the root split -/
theorem Set_unfold (pageSize maxKeys : BitVec 64) (fuel : Nat) (t : St) (k v : BitVec 64) :
    Gen.TreeM.Set pageSize maxKeys fuel t k v =
      if ((k == 18446744073709551615#64) || (k == 0#64)) then none else
      (Gen.TreeM.set pageSize maxKeys fuel t 1#64 k v).bind fun x =>
      (Gen.TreeM.rdNode x.1 x.2 (fun p => Gen.Node.isFull p maxKeys)).bind fun x_4 =>
      (if x_4 then SetRootSplit pageSize maxKeys x.1 x.2 else some (x.1, x.2)).bind fun y =>
      some y.1 := rfl

/-! ## invariants -/

/-- The allocator side of the correspondence between a flat state and the structural allocator:
scalars, the free chain in memory, free pages distinct and below the frontier, sizes in range. -/
structure AllocInv (cfg : Cfg) (t : St) (a : Alloc) : Prop where
  scal : AllocScal t a
  chain : FreeChain cfg t.data a.free
  nodup : a.free.Nodup
  below : ∀ q ∈ a.free, q < a.nextPage
  npos : 0 < a.nextPage
  small : t.data.size < 2 ^ 40

/-- the pages of a structural node are pairwise distinct, not free and below the frontier -/
structure Live (a : Alloc) (n : Node) : Prop where
  nodup : (pids n).Nodup
  live : ∀ r ∈ pids n, r ∉ a.free ∧ r < a.nextPage

/-- the same for the children of an inner node -/
structure LiveEnts (a : Alloc) (es : List (Key × Node)) : Prop where
  nodup : (pidsEnts es).Nodup
  live : ∀ r ∈ pidsEnts es, r ∉ a.free ∧ r < a.nextPage

theorem Live.inner {a : Alloc} {p : Nat} {es : List (Key × Node)} (h : Live a (.inner p es)) :
    LiveEnts a es ∧ p ∉ pidsEnts es ∧ p ∉ a.free ∧ p < a.nextPage := by
  have hn := h.nodup
  simp only [pids, List.nodup_cons] at hn
  have hp := h.live p (by simp [pids])
  exact ⟨⟨hn.2, fun r hr => h.live r (by simp [pids, hr])⟩, hn.1, hp.1, hp.2⟩

theorem LiveEnts.get {a : Alloc} {es : List (Key × Node)} (h : LiveEnts a es) {i : Nat} {e : Key × Node}
    (he : es[i]? = some e) : Live a e.2 :=
  ⟨pidsEnts_get_nodup es i e he h.nodup, fun r hr => h.live r (pidsEnts_get_sub es i e he r hr)⟩

/-- the allocator after `newNode`: free list shrinks at the head or stays -/
theorem newNode_free (cfg : Cfg) (a : Alloc) :
    (RV.Tree.newNode cfg a).2.free = a.free ∨ (RV.Tree.newNode cfg a).2.free = a.free.tail := by
  unfold RV.Tree.newNode
  dsimp only
  split
  · split
    · right; rfl
    · left; rfl
  · dsimp only
    split
    · left; rfl
    · left; rfl

/-- `AllocInv` is re-established by what `newNode_refines` / `split_refines` deliver -/
theorem AllocInv.ofNewNode {cfg : Cfg} {t t' : St} {a : Alloc} (h : AllocInv cfg t a)
    (hs : AllocScal t' (RV.Tree.newNode cfg a).2) (hch : FreeChain cfg t'.data (RV.Tree.newNode cfg a).2.free)
    (hmono : a.nextPage ≤ (RV.Tree.newNode cfg a).2.nextPage) (hsmall : t'.data.size < 2 ^ 40) :
    AllocInv cfg t' (RV.Tree.newNode cfg a).2 := by
  refine ⟨hs, hch, ?_, ?_, by have := h.npos; omega, hsmall⟩
  · rcases newNode_free cfg a with e | e
    · rw [e]; exact h.nodup
    · rw [e]; exact h.nodup.sublist (List.tail_sublist _)
  · intro q hq
    have : q ∈ a.free := by
      rcases newNode_free cfg a with e | e
      · rw [e] at hq; exact hq
      · rw [e] at hq; exact List.mem_of_mem_tail hq
    have := h.below q this
    omega

end RV.TreeFlat
