import RV.Proofs.CacheLiveRank
/-!
# C08 (3), blocking points: the channel is FIFO and every receive moves everybody forward

`ChanDesc` describes what any step does to `buf` / `sendq` / `closedMarkers` / the applier's
marker.  From it:

* a blocked sender `t` (queued in `sendq`) keeps its place until it is released; every
  receive either releases it (it was first) or moves it one place forward
  (`sender_stable`, `recv_sender_progress`);
* a `Wait` marker in the channel keeps its place until it is received; every receive either
  takes it (to the applier, which closes it in its next step, or straight to the closed set in
  `Clear`'s drain) or moves it one place forward (`marker_stable`, `recv_marker_progress`);
* positions are bounded by `|buf| + |sendq|` (`marker_pos_bound`, `sender_pos_bound`).

Together with `applier_step_decreases` (the applier is back at its `select` after finitely many
own steps) and `deadlock_free` (the helping step is enabled) this is the ranking argument for
"a blocked call is released after at most `|buf| + |sendq|` receives".
-/
namespace RV.Cache
open Gen.Cache

/-- the thread ids queued in `sendq`, in order -/
def tids (s : State) : List Tid := s.sendq.map (·.1)

inductive ChanDesc (s s' : State) : Prop
  | same : s'.buf = s.buf → s'.sendq = s.sendq → (∀ id, id ∈ s.closedMarkers → id ∈ s'.closedMarkers) →
      (∀ id, s.app = .marker id → s'.app = .marker id ∨ id ∈ s'.closedMarkers) → ChanDesc s s'
  | pushBuf (e : BufElem) : s.sendq = [] → s'.buf = s.buf ++ [e] → s'.sendq = [] →
      s'.closedMarkers = s.closedMarkers → s'.app = s.app → ChanDesc s s'
  | pushQ (t : Tid) (e : BufElem) : s'.buf = s.buf → s'.sendq = s.sendq ++ [(t, e)] →
      s'.closedMarkers = s.closedMarkers → s'.app = s.app → ChanDesc s s'
  | recv (x : BufElem) (s1 : State) : recvBuf s = some (x, s1) → s'.buf = s1.buf → s'.sendq = s1.sendq →
      s'.cl = s1.cl → (∀ id, id ∈ s.closedMarkers → id ∈ s'.closedMarkers) →
      (∀ id, x = .marker id → s'.app = .marker id ∨ id ∈ s'.closedMarkers) → ChanDesc s s'

theorem chan_desc {cfg : Cfg} {s s' : State} {a : Action} (hh : Handshake s)
    (hs : step cfg s a = some s') : ChanDesc s s' := by
  cases a with
  | spawn t0 c =>
    have hs' : spawnStep s t0 c = some s' := hs
    exact .same (spawnStep_buf _ _ _ hs') (spawnStep_sendq _ _ _ hs')
      (fun id h => by rw [spawnStep_closedMarkers _ _ _ hs']; exact h)
      (fun id h => Or.inl (by rw [spawnStep_app _ _ _ hs']; exact h))
  | tick d =>
    simp only [step, Option.some.injEq] at hs; subst hs
    exact .same rfl rfl (fun _ h => h) (fun _ h => Or.inl h)
  | done t0 =>
    have hs' : doneStep s t0 = some s' := hs
    obtain ⟨h0, _, _⟩ := done_shape hs'
    exact .same (doneStep_buf _ _ hs') (doneStep_sendq _ _ hs')
      (fun id h => by rw [doneStep_closedMarkers _ _ hs']; exact h)
      (fun id h => by rw [h0] at h; cases h)
  | applier ch =>
    have hs' : applierStep cfg s ch = some s' := hs
    rcases applier_shape hs' with hp | hsp
    · exact .same hp.buf hp.sendq (fun id h => by rw [hp.closedMarkers]; exact h)
        (fun id h => by have := hp.mk0; rw [h] at this; cases this)
    · cases hsp with
      | selItem hidle hr =>
        obtain ⟨x, s1, hrecv, hcl, hbuf, hq, hcm, _, _, hx⟩ := selItem_shape hr
        refine .recv x s1 hrecv hbuf hq hcl (fun id h => by rw [hcm]; exact h) (fun id hid => ?_)
        rcases hx with ⟨id', e1, e2⟩ | ⟨i, e1, _⟩
        · rw [e1] at hid; cases hid; exact Or.inl e2
        · rw [e1] at hid; cases hid
      | selStop t0 hidle hr =>
        exact .same (apSelStop_buf _ _ hr) (apSelStop_sendq _ _ hr)
          (fun id h => by rw [apSelStop_closedMarkers _ _ hr]; exact h)
          (fun id h => by rw [hidle] at h; cases h)
      | marker id hpc he =>
        subst he
        refine .same rfl rfl (fun id' h => List.mem_cons_of_mem _ h) (fun id' h => ?_)
        rw [hpc] at h; cases h
        exact Or.inr (by simp [apMarker])
  | client t0 ch =>
    have hs' : clientStep cfg s t0 ch = some s' := hs
    rcases client_shape hs' with hp | hsp
    · exact .same hp.buf hp.sendq (fun id h => by rw [hp.closedMarkers]; exact h)
        (fun id h => Or.inl (by rw [hp.app]; exact h))
    · cases hsp with
      | setSend i hpc he =>
        subst he
        unfold stSetSend
        split
        · rename_i hroom
          exact .pushBuf (.item i) hroom.2 rfl hroom.2 rfl rfl
        · exact .same rfl rfl (fun _ h => h) (fun _ h => Or.inl h)
      | delSend hk c hpc he =>
        subst he
        unfold stDelSend
        rcases sendBlocking_cases cfg s t0 (.item ⟨.del, hk, c, 0, 0, Gen.zeroTime⟩) (.delSent hk) (.delBlocked hk) with
          ⟨_, h2, e⟩ | ⟨_, e⟩ <;> rw [e]
        · exact .pushBuf _ h2 rfl h2 rfl rfl
        · exact .pushQ t0 _ rfl rfl rfl rfl
      | waitSend hpc he =>
        subst he
        unfold stWaitSend
        rcases sendBlocking_cases cfg { s with nextMarker := s.nextMarker + 1 } t0 (.marker s.nextMarker)
          (.waitRecv s.nextMarker) (.waitBlocked s.nextMarker) with ⟨_, h2, e⟩ | ⟨_, e⟩ <;> rw [e]
        · exact .pushBuf _ h2 rfl h2 rfl rfl
        · exact .pushQ t0 _ rfl rfl rfl rfl
      | drain c hpc he =>
        subst he
        rcases drain_shape s t0 c with ⟨_, he⟩ | ⟨x, s1, hrecv, hcl, hbuf, hq, _, _, _, _, _, _, _, _, hx⟩
        · rw [he]; exact .same rfl rfl (fun _ h => h) (fun _ h => Or.inl h)
        · refine .recv x s1 hrecv hbuf hq hcl (fun id hid => ?_) (fun id hid => ?_)
          · rcases hx with ⟨id', _, e2, _⟩ | ⟨i, _, e2, _⟩ <;> rw [e2]
            · exact List.mem_cons_of_mem _ hid
            · exact hid
          · rcases hx with ⟨id', e1, e2, _⟩ | ⟨i, e1, _, _⟩
            · rw [e1] at hid; cases hid; exact Or.inr (by rw [e2]; simp)
            · rw [e1] at hid; cases hid
      | restart c hpc he =>
        subst he
        have hdead : s.app = .dead := hh.busy t0 (by rw [hpc]; rfl)
        exact .same (stClrRestart_buf ..) (stClrRestart_sendq ..)
          (fun id h => by rw [stClrRestart_closedMarkers]; exact h) (fun id h => by rw [hdead] at h; cases h)
      | finish hpc he =>
        subst he
        have hdead : s.app = .dead := hh.busy t0 (by rw [hpc]; rfl)
        exact .same (stClsFinish_buf ..) (stClsFinish_sendq ..)
          (fun id h => by rw [stClsFinish_closedMarkers]; exact h) (fun id h => by rw [hdead] at h; cases h)

/-! ### blocked senders -/

/-- a receive releases the first blocked sender and moves the others one place forward -/
theorem recv_sender_progress {s s1 : State} {x : BufElem} (hr : recvBuf s = some (x, s1)) {t : Tid}
    (ht : t ∈ tids s) :
    ((tids s).idxOf t = 0 ∧ s1.cl t = unblockedPc (s.cl t)) ∨
    (t ∈ tids s1 ∧ (tids s1).idxOf t + 1 = (tids s).idxOf t) := by
  obtain ⟨rest, hb, (⟨hsq, rfl⟩ | ⟨t0, e0, q, hsq, rfl⟩)⟩ := recvBuf_cases hr
  · simp [tids, hsq] at ht
  · by_cases e : t0 = t
    · subst e
      left
      exact ⟨by simp [tids, hsq], by simp⟩
    · right
      have hmem : t ∈ q.map (·.1) := by
        simp only [tids, hsq, List.map_cons, List.mem_cons] at ht
        rcases ht with h | h
        · exact absurd h.symm e
        · exact h
      refine ⟨by simpa [tids] using hmem, ?_⟩
      simp only [tids, hsq, List.map_cons, setCl_sendq]
      rw [List.idxOf_cons]
      have : (t0 == t) = false := by simpa using e
      rw [this]; rfl

/-- no step moves a queued sender backwards: it stays queued at the same place, or the step is a
receive (and `recv_sender_progress` applies) -/
theorem sender_stable {cfg : Cfg} {s s' : State} {a : Action} (hh : Handshake s)
    (hs : step cfg s a = some s') {t : Tid} (ht : t ∈ tids s) :
    (t ∈ tids s' ∧ (tids s').idxOf t = (tids s).idxOf t) ∨
    (∃ x s1, recvBuf s = some (x, s1) ∧ s'.sendq = s1.sendq ∧ s'.cl = s1.cl) := by
  cases chan_desc hh hs with
  | same _ hq _ _ => left; simp [tids, hq]; simpa [tids] using ht
  | pushBuf e hq0 _ _ _ _ => simp [tids, hq0] at ht
  | pushQ t0 e _ hq _ _ =>
    left
    have : tids s' = tids s ++ [t0] := by simp [tids, hq]
    rw [this]
    exact ⟨List.mem_append_left _ ht, by rw [List.idxOf_append]; simp [ht]⟩
  | recv x s1 hrecv _ hq hcl _ _ => exact Or.inr ⟨x, s1, hrecv, hq, hcl⟩

theorem sender_pos_bound {s : State} {t : Tid} (ht : t ∈ tids s) : (tids s).idxOf t < s.sendq.length := by
  have := List.idxOf_lt_length_of_mem ht
  simpa [tids] using this

/-! ### `Wait` markers -/

/-- a receive takes the first element of the channel and moves the others one place forward -/
theorem recv_marker_progress {s s1 : State} {x : BufElem} (hr : recvBuf s = some (x, s1)) {id : Nat}
    (hm : .marker id ∈ chan s) :
    x = .marker id ∨ (.marker id ∈ chan s1 ∧ (chan s1).idxOf (.marker id) + 1 = (chan s).idxOf (.marker id)) := by
  rw [chan_recv hr] at hm ⊢
  by_cases e : x = .marker id
  · exact Or.inl e
  · right
    rcases List.mem_cons.mp hm with h | h
    · exact absurd h.symm e
    · refine ⟨h, ?_⟩
      rw [List.idxOf_cons]
      have : (x == BufElem.marker id) = false := by simpa using e
      simp [this]

/-- no step moves a marker backwards: it keeps its place in the channel, or it has been taken by
the applier, or it is closed -/
theorem marker_stable {cfg : Cfg} {s s' : State} {a : Action} (hh : Handshake s)
    (hs : step cfg s a = some s') {id : Nat} (hm : .marker id ∈ chan s) :
    (.marker id ∈ chan s' ∧ (chan s').idxOf (.marker id) ≤ (chan s).idxOf (.marker id)) ∨
      s'.app = .marker id ∨ id ∈ s'.closedMarkers := by
  cases chan_desc hh hs with
  | same hb hq _ _ =>
    left
    have : chan s' = chan s := by simp [chan, hb, hq]
    rw [this]; exact ⟨hm, Nat.le_refl _⟩
  | pushBuf e hq0 hb hq _ _ =>
    left
    have : chan s' = chan s ++ [e] := by simp [chan, hb, hq, hq0]
    rw [this]
    exact ⟨List.mem_append_left _ hm, by rw [List.idxOf_append]; simp [hm]⟩
  | pushQ t0 e hb hq _ _ =>
    left
    have : chan s' = chan s ++ [e] := by simp [chan, hb, hq]
    rw [this]
    exact ⟨List.mem_append_left _ hm, by rw [List.idxOf_append]; simp [hm]⟩
  | recv x s1 hrecv hb hq _ _ hx =>
    have hc1 : chan s' = chan s1 := by simp [chan, hb, hq]
    rcases recv_marker_progress hrecv hm with e | ⟨h1, h2⟩
    · exact Or.inr (hx id e)
    · left; rw [hc1]; exact ⟨h1, by omega⟩

theorem marker_pos_bound {s : State} {id : Nat} (hm : .marker id ∈ chan s) :
    (chan s).idxOf (.marker id) < s.buf.length + s.sendq.length := by
  have := List.idxOf_lt_length_of_mem hm
  simpa [chan] using this

/-- once the applier holds the marker, its next step closes it -/
theorem applier_closes_marker {cfg : Cfg} {s s' : State} {ch : Choice} {id : Nat} (hm : s.app = .marker id)
    (hs : applierStep cfg s ch = some s') : id ∈ s'.closedMarkers := by
  unfold applierStep at hs
  rw [hm] at hs
  obtain ⟨_, hs⟩ := needNone_some hs
  simp only [Option.some.injEq] at hs; subst hs
  simp [apMarker]

/-- a closed marker releases its waiter -/
theorem closed_marker_releases {cfg : Cfg} {s : State} {t : Tid} {id : Nat} (hpc : s.cl t = .waitRecv id)
    (hc : id ∈ s.closedMarkers) : ∃ s', clientStep cfg s t .none = some s' :=
  Option.isSome_iff_exists.mp (by simp [clientStep, hpc, needNone, stWaitRecv, hc])

end RV.Cache
