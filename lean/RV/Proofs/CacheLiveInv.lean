import RV.Proofs.CacheLiveShape
/-!
# Invariants of the channel / marker / handshake skeleton (C08, C15)

* `step_cl` — how any step changes any client's pc.
* `NCInv` — in runs without `Close` the cache is never closed and nobody is inside `Close`.
* `LiveInv` — the queue invariant: capacity, "a blocked sender implies a full buffer",
  blocked senders are queued, a waiting `Wait` has its marker somewhere, pcs well-formed.
* `MarkInv` — marker ids are unique across buffer, blocked senders, applier and closed set
  (a marker is closed at most once).
-/
namespace RV.Cache
open Gen.Cache

/-! ### how pcs change -/

theorem spawn_shape {s s' : State} {t : Tid} {c : Call} (h : spawnStep s t c = some s') :
    s.cl t = .idle ∧ s'.cl t = startPc c := by
  unfold spawnStep at h
  split at h
  · rename_i hidle
    refine ⟨hidle, ?_⟩
    cases c <;> (simp only [Option.some.injEq] at h; subst h; simp [startPc])
  · simp at h

theorem done_shape {s s' : State} {t : Tid} (h : doneStep s t = some s') :
    s.app = .stopAck ∧ s'.app = .dead ∧
      ((∃ c, s.cl t = .clrDone c ∧ s'.cl t = .clrDrain c) ∨ (s.cl t = .clsDone ∧ s'.cl t = .clsFinish)) := by
  unfold doneStep at h
  split at h
  · rename_i c happ hpc
    simp only [Option.some.injEq] at h; subst h
    exact ⟨happ, rfl, Or.inl ⟨c, hpc, by simp⟩⟩
  · rename_i happ hpc
    simp only [Option.some.injEq] at h; subst h
    exact ⟨happ, rfl, Or.inr ⟨hpc, by simp⟩⟩
  · simp at h

theorem selStop_shape {s s' : State} {t : Tid} (h : apSelStop s t = some s') :
    s'.app = .stopAck ∧ (∀ t', t' ≠ t → s'.cl t' = s.cl t') ∧
      ((∃ c, s.cl t = .clrStop c ∧ s'.cl t = .clrDone c) ∨ (s.cl t = .clsStop ∧ s'.cl t = .clsDone)) := by
  unfold apSelStop at h
  split at h
  · rename_i c hpc
    simp only [Option.some.injEq] at h; subst h
    exact ⟨rfl, fun t' hne => by simp [setCl_cl_ne _ _ _ hne], Or.inl ⟨c, hpc, by simp⟩⟩
  · rename_i hpc
    simp only [Option.some.injEq] at h; subst h
    exact ⟨rfl, fun t' hne => by simp [setCl_cl_ne _ _ _ hne], Or.inr ⟨hpc, by simp⟩⟩
  · simp at h

theorem selItem_shape {s s' : State} (h : apSelItem s = some s') :
    ∃ x s1, recvBuf s = some (x, s1) ∧ s'.cl = s1.cl ∧ s'.buf = s1.buf ∧ s'.sendq = s1.sendq ∧
      s'.closedMarkers = s.closedMarkers ∧ s'.nextMarker = s.nextMarker ∧ s'.closed = s.closed ∧
      ((∃ id, x = .marker id ∧ s'.app = .marker id) ∨ (∃ i, x = .item i ∧ s'.app = .item i)) := by
  unfold apSelItem at h
  split at h
  · simp at h
  · rename_i id s1 hr
    simp only [Option.some.injEq] at h; subst h
    exact ⟨_, s1, hr, rfl, rfl, rfl, (recvBuf_closedMarkers hr : s1.closedMarkers = _),
      (recvBuf_nextMarker hr : s1.nextMarker = _), (recvBuf_closed hr : s1.closed = _), Or.inl ⟨id, rfl, rfl⟩⟩
  · rename_i i s1 hr
    simp only [Option.some.injEq] at h; subst h
    exact ⟨_, s1, hr, rfl, rfl, rfl, (recvBuf_closedMarkers hr : s1.closedMarkers = _),
      (recvBuf_nextMarker hr : s1.nextMarker = _), (recvBuf_closed hr : s1.closed = _), Or.inr ⟨i, rfl, rfl⟩⟩

/-- one iteration of the drain loop, spelled out -/
theorem drain_shape (s : State) (t : Tid) (c : Bool) :
    (recvBuf s = none ∧ stClrDrain s t c = setCl s t (.clrPolicy c)) ∨
    (∃ x s1, recvBuf s = some (x, s1) ∧ (stClrDrain s t c).cl = s1.cl ∧ (stClrDrain s t c).buf = s1.buf ∧
      (stClrDrain s t c).sendq = s1.sendq ∧ (stClrDrain s t c).app = s.app ∧
      (stClrDrain s t c).nextMarker = s.nextMarker ∧ (stClrDrain s t c).closed = s.closed ∧
      (stClrDrain s t c).store = s.store ∧ (stClrDrain s t c).em = s.em ∧ (stClrDrain s t c).pol = s.pol ∧
      (stClrDrain s t c).met = s.met ∧ (stClrDrain s t c).clock = s.clock ∧
      ((∃ id, x = .marker id ∧ (stClrDrain s t c).closedMarkers = id :: s.closedMarkers ∧
          (stClrDrain s t c).log = s.log) ∨
       (∃ i, x = .item i ∧ (stClrDrain s t c).closedMarkers = s.closedMarkers ∧
          (stClrDrain s t c).log =
            if clearEvictsItem i.flag.code then .exit i.value :: .evict i.key i.conflict i.value i.cost :: s.log
            else s.log))) := by
  unfold stClrDrain
  split
  · rename_i hr; exact Or.inl ⟨hr, rfl⟩
  · rename_i id s1 hr
    exact Or.inr ⟨_, s1, hr, rfl, rfl, rfl, (recvBuf_app hr : s1.app = _), (recvBuf_nextMarker hr : s1.nextMarker = _),
      (recvBuf_closed hr : s1.closed = _), (recvBuf_store hr : s1.store = _), (recvBuf_em hr : s1.em = _),
      (recvBuf_pol hr : s1.pol = _), (recvBuf_met hr : s1.met = _), (recvBuf_clock hr : s1.clock = _),
      Or.inl ⟨id, rfl, by simp [recvBuf_closedMarkers hr], (recvBuf_log hr : s1.log = _)⟩⟩
  · rename_i i s1 hr
    refine Or.inr ⟨_, s1, hr, ?_, ?_, ?_, ?_, ?_, ?_, ?_, ?_, ?_, ?_, ?_, Or.inr ⟨i, rfl, ?_, ?_⟩⟩
    all_goals (split <;> simp [recvBuf_app hr, recvBuf_nextMarker hr, recvBuf_closed hr, recvBuf_store hr,
      recvBuf_em hr, recvBuf_pol hr, recvBuf_met hr, recvBuf_clock hr, recvBuf_closedMarkers hr, recvBuf_log hr])

theorem recv_cl_ext {s s1 : State} {x : BufElem} (hr : recvBuf s = some (x, s1)) (t : Tid) :
    s1.cl t = s.cl t ∨ (s.cl t ≠ .idle ∧ Ext (s.cl t) (s1.cl t)) := by
  rcases recvBuf_cl hr t with e | e
  · exact Or.inl e
  · by_cases hi : s.cl t = .idle
    · exact Or.inl (by rw [e, hi]; rfl)
    · rcases unblocked_ext (s.cl t) with e' | e'
      · exact Or.inl (by rw [e, e'])
      · right; rw [e]; exact ⟨hi, e'⟩

/-- Every step changes a client's pc either not at all, or by a `spawn` of that client, or
along its own-step relation `OwnTr`, or along `Ext` (another thread's step) from a non-idle pc. -/
theorem step_cl {cfg : Cfg} {s s' : State} {a : Action} (hs : step cfg s a = some s') (t : Tid) :
    s'.cl t = s.cl t ∨ (∃ c, a = .spawn t c ∧ s.cl t = .idle ∧ s'.cl t = startPc c) ∨
      (∃ ch, a = .client t ch ∧ OwnTr (s.cl t) (s'.cl t)) ∨ (s.cl t ≠ .idle ∧ Ext (s.cl t) (s'.cl t)) := by
  cases a with
  | spawn t0 c =>
    have hs' : spawnStep s t0 c = some s' := hs
    by_cases ht : t = t0
    · subst ht; exact Or.inr (Or.inl ⟨c, rfl, (spawn_shape hs').1, (spawn_shape hs').2⟩)
    · exact Or.inl (spawnStep_cl_ne s t0 c hs' ht)
  | tick d =>
    simp only [step, Option.some.injEq] at hs; subst hs; exact Or.inl rfl
  | done t0 =>
    have hs' : doneStep s t0 = some s' := hs
    by_cases ht : t = t0
    · subst ht
      obtain ⟨_, _, (⟨c, h0, h1⟩ | ⟨h0, h1⟩)⟩ := done_shape hs'
      · right; right; right; rw [h0, h1]; exact ⟨by simp, .doneRecv⟩
      · right; right; right; rw [h0, h1]; exact ⟨by simp, .clsDoneRecv⟩
    · exact Or.inl (doneStep_cl_ne s t0 hs' ht)
  | applier ch =>
    have hs' : applierStep cfg s ch = some s' := hs
    rcases applier_shape hs' with hp | hsp
    · exact Or.inl (by rw [hp.cl])
    · cases hsp with
      | selItem _ hr =>
        obtain ⟨x, s1, hrecv, hcl, _⟩ := selItem_shape hr
        rw [hcl]
        rcases recv_cl_ext hrecv t with e | e
        · exact Or.inl e
        · exact Or.inr (Or.inr (Or.inr e))
      | selStop t0 _ hr =>
        obtain ⟨_, hne, hcase⟩ := selStop_shape hr
        by_cases ht : t = t0
        · subst ht
          rcases hcase with ⟨c, h0, h1⟩ | ⟨h0, h1⟩
          · right; right; right; rw [h0, h1]; exact ⟨by simp, .stopTaken⟩
          · right; right; right; rw [h0, h1]; exact ⟨by simp, .clsStopTaken⟩
        · exact Or.inl (hne t ht)
      | marker id _ he => subst he; exact Or.inl rfl
  | client t0 ch =>
    have hs' : clientStep cfg s t0 ch = some s' := hs
    rcases client_shape hs' with hp | hsp
    · by_cases ht : t = t0
      · subst ht; exact Or.inr (Or.inr (Or.inl ⟨ch, rfl, hp.succ⟩))
      · exact Or.inl (hp.cl_ne t ht)
    · cases hsp with
      | setSend i hpc he =>
        subst he
        by_cases ht : t = t0
        · subst ht; right; right; left; refine ⟨ch, rfl, ?_⟩
          rw [hpc]; unfold stSetSend; split <;> simp <;> constructor
        · exact Or.inl (stSetSend_cl_ne cfg s t0 i ht)
      | delSend h c hpc he =>
        subst he
        by_cases ht : t = t0
        · subst ht; right; right; left; refine ⟨ch, rfl, ?_⟩
          rw [hpc]; unfold stDelSend sendBlocking; split <;> simp <;> constructor
        · exact Or.inl (stDelSend_cl_ne cfg s t0 h c ht)
      | waitSend hpc he =>
        subst he
        by_cases ht : t = t0
        · subst ht; right; right; left; refine ⟨ch, rfl, ?_⟩
          rw [hpc]; unfold stWaitSend sendBlocking; split <;> simp <;> constructor
        · exact Or.inl (stWaitSend_cl_ne cfg s t0 ht)
      | drain c hpc he =>
        subst he
        rcases drain_shape s t0 c with ⟨_, he⟩ | ⟨x, s1, hrecv, hcl, _⟩
        · rw [he]
          by_cases ht : t = t0
          · subst ht; right; right; left; refine ⟨ch, rfl, ?_⟩
            rw [hpc]; simp; constructor
          · exact Or.inl (by simp [setCl_cl_ne _ _ _ ht])
        · rw [hcl]
          rcases recv_cl_ext hrecv t with e | e
          · exact Or.inl e
          · exact Or.inr (Or.inr (Or.inr e))
      | restart c hpc he =>
        subst he
        by_cases ht : t = t0
        · subst ht; right; right; left; refine ⟨ch, rfl, ?_⟩
          rw [hpc]; unfold stClrRestart; dsimp only
          cases c <;> simp <;> constructor
        · exact Or.inl (stClrRestart_cl_ne s t0 c ht)
      | finish hpc he =>
        subst he
        by_cases ht : t = t0
        · subst ht; right; right; left; refine ⟨ch, rfl, ?_⟩
          rw [hpc]; unfold stClsFinish; simp; constructor
        · exact Or.inl (stClsFinish_cl_ne s t0 ht)

/-! ### facts about the transition relations -/

theorem own_closing {pc pc' : CPc} (h : OwnTr pc pc') : pc'.closing = true → pc.closing = true := by
  cases h <;> (intro h; first | exact h | cases h | rfl)

theorem ext_closing {pc pc' : CPc} (h : Ext pc pc') (hne : pc ≠ .idle) : pc'.closing = true → pc.closing = true := by
  cases h <;> (intro h; first | exact h | cases h | rfl | exact absurd rfl hne)

theorem own_wf {pc pc' : CPc} (h : OwnTr pc pc') : pc'.wf = true := by
  cases h <;> first | rfl | (simp [CPc.wf]; done) | (rename_i hk; simp [CPc.wf]; exact hk)

theorem ext_wf {pc pc' : CPc} (h : Ext pc pc') : pc'.wf = true := by
  cases h with
  | @spawn call _ he => subst he; cases call <;> rfl
  | _ => rfl

theorem own_not_idle {pc pc' : CPc} (h : OwnTr pc pc') : pc ≠ .idle := by
  cases h <;> simp

/-- own steps from a non-special pc never end in a blocked or waiting pc -/
theorem own_nonspecial {pc pc' : CPc} (h : OwnTr pc pc') (hs : pc.special = false) :
    pc'.sendBlocked = false ∧ pc'.waitsFor = none := by
  cases h <;> first | exact ⟨rfl, rfl⟩ | cases hs

theorem own_quiet {pc pc' : CPc} (h : OwnTr pc pc') (hq : pc.quiet = true) : pc'.quiet = true := by
  cases h <;> first | rfl | cases hq

theorem startPc_closing (c : Call) : (startPc c).closing = true → c = .close := by
  cases c <;> (intro h; first | rfl | cases h)

/-! ### runs without Close -/

structure NCInv (s : State) : Prop where
  closed : s.closed = false
  closing : ∀ t, (s.cl t).closing = false

theorem step_closed {cfg : Cfg} {s s' : State} {a : Action} (hs : step cfg s a = some s') :
    s'.closed = s.closed ∨ ((∃ t, s.cl t = .clsFinish) ∧ s'.closed = true) := by
  cases a with
  | spawn t0 c => exact Or.inl (spawnStep_closed s t0 c hs)
  | tick d => simp only [step, Option.some.injEq] at hs; subst hs; exact Or.inl rfl
  | done t0 => exact Or.inl (doneStep_closed s t0 hs)
  | applier ch =>
    have hs' : applierStep cfg s ch = some s' := hs
    rcases applier_shape hs' with hp | hsp
    · exact Or.inl hp.closed
    · cases hsp with
      | selItem _ hr => obtain ⟨_, _, _, _, _, _, _, _, hc, _⟩ := selItem_shape hr; exact Or.inl hc
      | selStop t0 _ hr => exact Or.inl (apSelStop_closed s t0 hr)
      | marker id _ he => subst he; exact Or.inl rfl
  | client t0 ch =>
    have hs' : clientStep cfg s t0 ch = some s' := hs
    rcases client_shape hs' with hp | hsp
    · exact Or.inl hp.closed
    · cases hsp with
      | setSend i _ he => subst he; exact Or.inl (stSetSend_closed ..)
      | delSend h c _ he => subst he; exact Or.inl (stDelSend_closed ..)
      | waitSend _ he => subst he; exact Or.inl (stWaitSend_closed ..)
      | drain c _ he =>
        subst he
        rcases drain_shape s t0 c with ⟨_, he⟩ | ⟨_, _, _, _, _, _, _, _, hc, _⟩
        · rw [he]; exact Or.inl rfl
        · exact Or.inl hc
      | restart c _ he => subst he; exact Or.inl (stClrRestart_closed ..)
      | finish hpc he => subst he; exact Or.inr ⟨⟨t0, hpc⟩, rfl⟩

/-- once closed, always closed -/
theorem closed_stable {cfg : Cfg} {s s' : State} {a : Action} (hc : s.closed = true)
    (hs : step cfg s a = some s') : s'.closed = true := by
  rcases step_closed hs with e | ⟨_, e⟩
  · rw [e]; exact hc
  · exact e

theorem ncinv_step {cfg : Cfg} {s s' : State} {a : Action} (h : NCInv s) (ha : a.isClose = false)
    (hs : step cfg s a = some s') : NCInv s' := by
  constructor
  · rcases step_closed hs with e | ⟨⟨t, ht⟩, _⟩
    · rw [e]; exact h.closed
    · have := h.closing t; rw [ht] at this; cases this
  · intro t
    cases hc : (s'.cl t).closing
    · rfl
    · exfalso
      rcases step_cl hs t with e | ⟨c, rfl, _, e⟩ | ⟨_, _, e⟩ | ⟨hne, e⟩
      · rw [e, h.closing t] at hc; cases hc
      · rw [e] at hc
        have := startPc_closing c hc; subst this
        simp [Action.isClose] at ha
      · have := own_closing e hc; rw [h.closing t] at this; cases this
      · have := ext_closing e hne hc; rw [h.closing t] at this; cases this

theorem ncinv_init (cfg : Cfg) (now : Time) : NCInv (init cfg now) :=
  ⟨rfl, fun _ => rfl⟩

theorem ncinv_reach {cfg : Cfg} {s : State} (h : ReachNC cfg s) : NCInv s := by
  induction h with
  | init now => exact ncinv_init cfg now
  | step _ hok hs ih => exact ncinv_step ih hok hs

end RV.Cache
