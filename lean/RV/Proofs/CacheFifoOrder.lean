import RV.Proofs.CacheFifo
/-!
# (a) `queue_inv` and (b) `fifo_order` for every reachable state / every step

One case analysis over all step kinds proves both: `QStep cfg s s'` = the queue invariant
holds after the step and the pending sequence changed by one of the four `PendStep` moves
(unchanged / one element appended at the end / the front element removed / cost
pre-processing of the element the applier holds).
-/
namespace RV.Cache
open Gen.Cache

/-- combined goal of one step -/
def QStep (cfg : Cfg) (s s' : State) : Prop := QueueInv cfg s' ∧ PendStep (pending s) (pending s')

theorem qstep_frame {cfg : Cfg} {s s' : State} (h : QueueInv cfg s) (t : Tid)
    (hbuf : s'.buf = s.buf) (hsq : s'.sendq = s.sendq) (happ : appElem s'.app = appElem s.app)
    (hcm : s'.closedMarkers = s.closedMarkers) (hnm : s'.nextMarker = s.nextMarker)
    (hne : ∀ t', t' ≠ t → s'.cl t' = s.cl t') (h0 : (s.cl t).qrel = false) (h1 : (s'.cl t).qrel = false) :
    QStep cfg s s' := by
  have hp : pending s' = pending s := pending_congr happ hbuf hsq
  refine ⟨h.congr hbuf hsq (by rw [hp]) hcm hnm ?_, by rw [hp]; exact .same _⟩
  intro t'
  by_cases e : t' = t
  · subst e; exact Or.inr ⟨h0, h1⟩
  · exact Or.inl (hne t' e)

/-- applier step that neither touches the queue nor the element it holds -/
theorem qstep_app {cfg : Cfg} {s s' : State} (h : QueueInv cfg s)
    (hbuf : s'.buf = s.buf) (hsq : s'.sendq = s.sendq) (happ : appElem s'.app = appElem s.app)
    (hcm : s'.closedMarkers = s.closedMarkers) (hnm : s'.nextMarker = s.nextMarker)
    (hcl : s'.cl = s.cl) : QStep cfg s s' := by
  have hp : pending s' = pending s := pending_congr happ hbuf hsq
  exact ⟨h.congr hbuf hsq (by rw [hp]) hcm hnm (fun t => Or.inl (by rw [hcl])), by rw [hp]; exact .same _⟩

theorem qstep_pop_item {cfg : Cfg} {s s' : State} (h : QueueInv cfg s) (i : Item)
    (hx : appElem s.app = some (.item i)) (happ' : appElem s'.app = none)
    (hbuf : s'.buf = s.buf) (hsq : s'.sendq = s.sendq)
    (hcm : s'.closedMarkers = s.closedMarkers) (hnm : s'.nextMarker = s.nextMarker)
    (hcl : s'.cl = s.cl) : QStep cfg s s' := by
  have hp : pending s = .item i :: pending s' := by simp [pending, queue, hx, happ', hbuf, hsq]
  refine ⟨h.congr hbuf hsq (by rw [hp]; simp) hcm hnm (fun t => Or.inl (by rw [hcl])), ?_⟩
  rw [hp]; exact .pop _ _

theorem qstep_pop_marker {cfg : Cfg} {s s' : State} (h : QueueInv cfg s) (id : Nat)
    (hx : appElem s.app = some (.marker id)) (happ' : appElem s'.app = none)
    (hbuf : s'.buf = s.buf) (hsq : s'.sendq = s.sendq)
    (hcm : s'.closedMarkers = id :: s.closedMarkers) (hnm : s'.nextMarker = s.nextMarker)
    (hcl : s'.cl = s.cl) : QStep cfg s s' := by
  have hp : pending s = .marker id :: pending s' := by simp [pending, queue, hx, happ', hbuf, hsq]
  have hnd := h.mk_nodup
  rw [hp, markerIds_cons_marker, List.nodup_cons] at hnd
  refine ⟨?_, by rw [hp]; exact .pop _ _⟩
  constructor
  · rw [hbuf]; exact h.cap
  · rw [hbuf, hsq]; exact h.full
  · rw [hsq, hcl]; exact h.sq_pc
  · rw [hsq]; exact h.sq_nodup
  · rw [hsq, hcl]; exact h.blocked_in
  · exact hnd.2
  · intro id' hid; rw [hnm]; exact h.mk_lt id' (by rw [hp]; simp [hid])
  · intro id' hid; rw [hcm]
    have h1 : id' ∉ s.closedMarkers := h.mk_open id' (by rw [hp]; simp [hid])
    have h2 : id' ≠ id := by intro e; subst e; exact hnd.1 hid
    simp [h1, h2]
  · intro id' hid; rw [hcm] at hid; rw [hnm]
    rcases List.mem_cons.mp hid with e | e
    · subst e; exact h.mk_lt id' (by rw [hp]; simp)
    · exact h.closed_lt id' e
  · intro t id' hw; rw [hcl] at hw; rw [hcm]
    rcases h.waiting t id' hw with h1 | h1
    · rw [hp, markerIds_cons_marker] at h1
      rcases List.mem_cons.mp h1 with e | e
      · exact Or.inr (by simp [e])
      · exact Or.inl e
    · exact Or.inr (by simp [h1])

/-- A channel receive while the applier holds nothing: the received element `x` moves from the
head of the queue into the receiver's hands (`a`); a blocked sender's element moves into `buf`. -/
theorem QueueInv.recv {cfg : Cfg} {s s1 : State} {x : BufElem} (h : QueueInv cfg s)
    (hr : recvBuf s = some (x, s1)) (hnone : appElem s.app = none) (a : APc) (ha : appElem a = some x) :
    QueueInv cfg { s1 with app := a } ∧ pending { s1 with app := a } = pending s := by
  obtain ⟨rest, hb, (⟨hq, rfl⟩ | ⟨t0, e, q, hq, rfl⟩)⟩ := recvBuf_cases hr
  · have hp : pending { ({ s with buf := rest } : State) with app := a } = pending s := by
      simp [pending, queue, ha, hnone, hb, hq]
    refine ⟨?_, hp⟩
    refine h.congr' ?_ ?_ rfl (by rw [hp]) rfl rfl (fun t => Or.inl rfl)
    · have := h.cap; rw [hb] at this; simp at this ⊢; omega
    · intro hne; exact absurd hq hne
  · have hp : pending { (setCl { s with buf := rest ++ [e], sendq := q } t0 (unblockedPc (s.cl t0))) with app := a } = pending s := by
      simp [pending, queue, ha, hnone, hb, hq]
    refine ⟨?_, hp⟩
    have hnd := h.sq_nodup
    rw [hq] at hnd; simp only [List.map_cons, List.nodup_cons] at hnd
    have hne_of : ∀ t' e', (t', e') ∈ q → t' ≠ t0 := by
      intro t' e' hm e1; subst e1
      exact hnd.1 (List.mem_map.mpr ⟨(t', e'), hm, rfl⟩)
    have hb0 : BlockedOn (s.cl t0) e := h.sq_pc t0 e (by rw [hq]; simp)
    constructor
    · have := h.cap; rw [hb] at this; simp at this ⊢; omega
    · intro _
      have := h.full (by rw [hq]; simp)
      rw [hb] at this; simp at this ⊢; omega
    · intro t' e' hm
      have hm' : (t', e') ∈ q := hm
      have hne := hne_of t' e' hm'
      show BlockedOn ((setCl _ t0 _).cl t') e'
      rw [setCl_cl_ne _ _ _ hne]
      exact h.sq_pc t' e' (by rw [hq]; simp [hm'])
    · exact hnd.2
    · intro t' hb'
      by_cases e1 : t' = t0
      · subst e1
        have hb'' : (unblockedPc (s.cl t')).blocked = true := by simpa using hb'
        rcases hb0 with ⟨_, _, e2, _⟩ | ⟨_, e2, _⟩ <;> simp [e2, unblockedPc, CPc.blocked] at hb''
      · have hb'' : (s.cl t').blocked = true := by
          have : (setCl ({ s with buf := rest ++ [e], sendq := q } : State) t0 (unblockedPc (s.cl t0))).cl t' = s.cl t' :=
            setCl_cl_ne _ _ _ e1
          rw [← this]; exact hb'
        obtain ⟨e', hm⟩ := h.blocked_in t' hb''
        rw [hq] at hm
        rcases List.mem_cons.mp hm with e2 | e2
        · simp only [Prod.mk.injEq] at e2; exact absurd e2.1 e1
        · exact ⟨e', e2⟩
    · rw [hp]; exact h.mk_nodup
    · rw [hp]; exact h.mk_lt
    · rw [hp]; exact h.mk_open
    · exact h.closed_lt
    · intro t' id hw
      rw [hp]
      by_cases e1 : t' = t0
      · subst e1
        have hw' : unblockedPc (s.cl t') = .waitRecv id ∨ unblockedPc (s.cl t') = .waitBlocked id := by
          simpa using hw
        rcases hb0 with ⟨_, _, e2, _⟩ | ⟨id', e2, _⟩
        · simp [e2, unblockedPc] at hw'
        · simp only [e2, unblockedPc] at hw'
          rcases hw' with e3 | e3
          · cases e3; exact h.waiting t' id (Or.inr e2)
          · cases e3
      · have hw' : s.cl t' = .waitRecv id ∨ s.cl t' = .waitBlocked id := by
          have : (setCl ({ s with buf := rest ++ [e], sendq := q } : State) t0 (unblockedPc (s.cl t0))).cl t' = s.cl t' :=
            setCl_cl_ne _ _ _ e1
          rw [← this]; exact hw
        exact h.waiting t' id hw'

/-! ### frame facts about the steps with an `Option` result that the generator skipped -/

theorem stGetStart_q {cfg : Cfg} {s s' : State} {t : Tid} {h : Hash} {c : Conf} {ch : Choice}
    (hs : stGetStart cfg s t h c ch = some s') :
    s'.buf = s.buf ∧ s'.sendq = s.sendq ∧ s'.app = s.app ∧ s'.closedMarkers = s.closedMarkers ∧
    s'.nextMarker = s.nextMarker ∧ s'.store = s.store ∧ s'.pol = s.pol ∧ s'.closed = s.closed ∧
    (∀ t', t' ≠ t → s'.cl t' = s.cl t') ∧
    ((s'.cl t = .idle ∧ s.closed = true ∧ s'.log = .getRet t h c none :: s.log) ∨
     (s'.cl t = .getRead h c ∧ s.closed = false ∧ s'.log = s.log)) := by
  unfold stGetStart at hs
  dsimp only at hs
  split at hs
  · rename_i hc
    simp only [Option.some.injEq] at hs; subst hs
    exact ⟨rfl, rfl, rfl, rfl, rfl, rfl, rfl, rfl, fun t' hne => by simp [setCl_cl_ne _ _ _ hne],
      Or.inl ⟨by simp, hc, rfl⟩⟩
  · rename_i hc
    have hc' : s.closed = false := by simpa using hc
    split at hs
    · simp only [Option.some.injEq] at hs; subst hs
      exact ⟨rfl, rfl, rfl, rfl, rfl, rfl, rfl, rfl, fun t' hne => by simp [setCl_cl_ne _ _ _ hne],
        Or.inr ⟨by simp, hc', rfl⟩⟩
    · split at hs
      · simp at hs
      · simp only [Option.some.injEq] at hs; subst hs
        exact ⟨by simp, by simp, by simp, by simp, by simp, by simp, by simp, by simp,
          fun t' hne => by simp [setCl_cl_ne _ _ _ hne], Or.inr ⟨by simp, hc', by simp⟩⟩
    · simp at hs

theorem stIterShard_q {s s' : State} {t : Tid} {k n : Nat} {seen : List Val} {ch : Choice}
    (hs : stIterShard s t k n seen ch = some s') :
    s'.buf = s.buf ∧ s'.sendq = s.sendq ∧ s'.app = s.app ∧ s'.closedMarkers = s.closedMarkers ∧
    s'.nextMarker = s.nextMarker ∧ s'.store = s.store ∧ s'.pol = s.pol ∧ s'.closed = s.closed ∧
    (∀ t', t' ≠ t → s'.cl t' = s.cl t') ∧
    ((s'.cl t = .idle ∧ ∃ r, s'.log = .iterRet t r :: s.log) ∨ (∃ k' seen', s'.cl t = .iterShard k' n seen' ∧ s'.log = s.log)) := by
  unfold stIterShard at hs
  dsimp only at hs
  split at hs
  · split at hs
    · simp at hs
    · split at hs
      · simp at hs
      · split at hs <;> (simp only [Option.some.injEq] at hs; subst hs)
        · exact ⟨rfl, rfl, rfl, rfl, rfl, rfl, rfl, rfl, fun t' hne => by simp [setCl_cl_ne _ _ _ hne],
            Or.inl ⟨by simp, _, rfl⟩⟩
        · exact ⟨rfl, rfl, rfl, rfl, rfl, rfl, rfl, rfl, fun t' hne => by simp [setCl_cl_ne _ _ _ hne],
            Or.inr ⟨_, _, setCl_cl_self _ _ _, rfl⟩⟩
  · simp at hs

theorem evictAll_buf_f (s : State) (st : Store) (ks : List Hash) : (evictAll s st ks).buf = s.buf := by
  induction ks generalizing s with
  | nil => rfl
  | cons k rest ih => unfold evictAll; split <;> simp [ih]
theorem evictAll_sendq_f (s : State) (st : Store) (ks : List Hash) : (evictAll s st ks).sendq = s.sendq := by
  induction ks generalizing s with
  | nil => rfl
  | cons k rest ih => unfold evictAll; split <;> simp [ih]
theorem evictAll_closedMarkers_f (s : State) (st : Store) (ks : List Hash) :
    (evictAll s st ks).closedMarkers = s.closedMarkers := by
  induction ks generalizing s with
  | nil => rfl
  | cons k rest ih => unfold evictAll; split <;> simp [ih]
theorem evictAll_nextMarker_f (s : State) (st : Store) (ks : List Hash) :
    (evictAll s st ks).nextMarker = s.nextMarker := by
  induction ks generalizing s with
  | nil => rfl
  | cons k rest ih => unfold evictAll; split <;> simp [ih]
theorem evictAll_store_f (s : State) (st : Store) (ks : List Hash) : (evictAll s st ks).store = s.store := by
  induction ks generalizing s with
  | nil => rfl
  | cons k rest ih => unfold evictAll; split <;> simp [ih]
theorem evictAll_pol_f (s : State) (st : Store) (ks : List Hash) : (evictAll s st ks).pol = s.pol := by
  induction ks generalizing s with
  | nil => rfl
  | cons k rest ih => unfold evictAll; split <;> simp [ih]

/-- what one shard step of `Clear` does -/
theorem stClrShard_q {s s' : State} {t : Tid} {closing : Bool} {k : Nat} {ch : Choice}
    (hs : stClrShard s t closing k ch = some s') :
    ∃ ks, isShardOrder s.store k ks = true ∧ k < numShards.toNat ∧
    s'.buf = s.buf ∧ s'.sendq = s.sendq ∧ s'.app = s.app ∧ s'.closedMarkers = s.closedMarkers ∧
    s'.nextMarker = s.nextMarker ∧ s'.store = eraseAll s.store ks ∧ s'.pol = s.pol ∧ s'.closed = s.closed ∧
    (∀ t', t' ≠ t → s'.cl t' = s.cl t') ∧
    s'.cl t = (if k + 1 = numShards.toNat then .clrEm closing else .clrShard closing (k + 1)) := by
  unfold stClrShard at hs
  split at hs
  · rename_i ks
    split at hs
    · simp at hs
    · rename_i hk
      split at hs
      · simp at hs
      · rename_i ho
        simp only [Option.some.injEq] at hs; subst hs
        refine ⟨ks, by simpa using ho, by omega, ?_, ?_, ?_, ?_, ?_, ?_, ?_, ?_, ?_, ?_⟩
        · simp [evictAll_buf_f]
        · simp [evictAll_sendq_f]
        · simp [evictAll_app]
        · simp [evictAll_closedMarkers_f]
        · simp [evictAll_nextMarker_f]
        · simp [evictAll_store_f]
        · simp [evictAll_pol_f]
        · simp [evictAll_closed]
        · intro t' hne; simp [setCl_cl_ne _ _ _ hne, evictAll_cl]
        · simp
  · simp at hs

/-! ### the step theorem -/

open Lean in
/-- `q_frame stX hpc`: `stX` moves only its own thread, between pcs the queue invariant ignores -/
macro "q_frame " f:ident hpc:ident : tactic => do
  let n := f.getId
  let clne := mkIdent (n.appendAfter "_cl_ne")
  `(tactic| (refine qstep_frame ‹QueueInv _ _› _ (by simp) (by simp) (by simp) (by simp) (by simp) (fun _ hne => $clne (hne := hne) ..) (by simp [$hpc:term, CPc.qrel]) ?_; (first | (simp [$f:term, CPc.qrel]; done) | (unfold $f:ident; (repeat' split) <;> simp [CPc.qrel]; done) | (unfold $f:ident; dsimp only; (repeat' split) <;> simp [CPc.qrel]; done))))

theorem qstep_clientStep {cfg : Cfg} {s s' : State} {t : Tid} {ch : Choice}
    (h : QueueInv cfg s) (hh : Handshake s) (hs : clientStep cfg s t ch = some s') : QStep cfg s s' := by
  apply clientStep_cases hs (motive := QStep cfg s)
  case setStart => intro _ _ _ _ _ hpc _; q_frame stSetStart hpc
  case setUpd => intro _ hpc _; q_frame stSetUpd hpc
  case setExit => intro _ _ hpc _; q_frame stSetExit hpc
  case setRetTrue => intro _ hpc _; q_frame stSetRetTrue hpc
  case setRetDrop => intro _ hpc _; q_frame stSetRetDrop hpc
  case delStart => intro _ _ hpc _; q_frame stDelStart hpc
  case delExit => intro _ _ _ hpc _; q_frame stDelExit hpc
  case delSent => intro _ hpc _; q_frame stDelSent hpc
  case waitStart => intro hpc _; q_frame stWaitStart hpc
  case waitDone => intro hpc _; q_frame stWaitDone hpc
  case getRead => intro _ _ hpc _; q_frame stGetRead hpc
  case getCheck => intro _ _ _ hpc _; q_frame stGetCheck hpc
  case getMetric => intro _ _ _ hpc _; q_frame stGetMetric hpc
  case ttlRead => intro _ _ hpc _; q_frame stTtlRead hpc
  case ttlCheck => intro _ _ _ hpc _; q_frame stTtlCheck hpc
  case ttlExp => intro _ _ hpc _; q_frame stTtlExp hpc
  case ttlNow => intro _ _ _ hpc _; q_frame stTtlNow hpc
  case ttlUntil => intro _ _ _ hpc _; q_frame stTtlUntil hpc
  case iterStart => intro _ hpc _; q_frame stIterStart hpc
  case clrStart => intro _ hpc _; q_frame stClrStart hpc
  case clrPolicy => intro _ hpc _; q_frame stClrPolicy hpc
  case clrEm => intro _ hpc _; q_frame stClrEm hpc
  case clrMetrics => intro _ hpc _; q_frame stClrMetrics hpc
  case updMax => intro _ hpc _; q_frame stUpdMax hpc
  case readMax => intro hpc _; q_frame stReadMax hpc
  case readRem => intro hpc _; q_frame stReadRem hpc
  case setSend =>
    intro i hpc _
    unfold stSetSend
    split
    · rename_i hc
      have hp : pending (setCl { s with buf := s.buf ++ [BufElem.item i] } t (.setRetTrue i)) = pending s ++ [.item i] := by
        simp [pending, queue, hc.2]
      refine ⟨?_, by rw [hp]; exact .push _ _⟩
      refine h.congr' ?_ ?_ rfl (by rw [hp]; simp) rfl rfl ?_
      · simp; omega
      · intro hne; exact absurd hc.2 hne
      · intro t'
        by_cases e : t' = t
        · subst e; exact Or.inr ⟨by simp [hpc, CPc.qrel], by simp [CPc.qrel]⟩
        · exact Or.inl (setCl_cl_ne _ _ _ e)
    · exact qstep_frame h t rfl rfl rfl rfl rfl (fun t' hne => setCl_cl_ne _ _ _ hne)
        (by simp [hpc, CPc.qrel]) (by simp [CPc.qrel])
  case delSend =>
    intro k c hpc _
    unfold stDelSend
    refine ⟨h.sendBlocking t _ _ _ (by simp [hpc, CPc.qrel]) (Or.inl ⟨k, c, rfl, rfl⟩) rfl ?_ ?_, ?_⟩
    · intro id e; cases e
    · intro id e; cases e
    · rw [pending_sendBlocking]; exact .push _ _
  case waitSend =>
    intro hpc _
    unfold stWaitSend
    have hb := h.bump
    refine ⟨hb.sendBlocking t _ _ _ (by simp [hpc, CPc.qrel]) (Or.inr ⟨_, rfl, rfl⟩) rfl ?_ ?_, ?_⟩
    · intro id e
      simp only [BufElem.marker.injEq] at e; subst e
      refine ⟨?_, ?_, by simp⟩
      · intro hm
        have : s.nextMarker < s.nextMarker := h.mk_lt _ hm
        omega
      · intro hm
        have : s.nextMarker < s.nextMarker := h.closed_lt _ hm
        omega
    · intro id e; cases e; rfl
    · rw [pending_sendBlocking]; exact .push _ _
  case waitRecv =>
    intro id hpc _ hr
    unfold stWaitRecv at hr
    split at hr
    · rename_i hc
      simp only [Option.some.injEq] at hr; subst hr
      have hp : pending (setCl s t .waitDone) = pending s := rfl
      refine ⟨?_, by rw [hp]; exact .same _⟩
      constructor
      · exact h.cap
      · exact h.full
      · intro t' e hm
        have hne : t' ≠ t := by
          intro e1; subst e1
          have := h.sq_pc t' e hm
          rcases this with ⟨_, _, e2, _⟩ | ⟨_, e2, _⟩ <;> simp [e2] at hpc
        rw [setCl_cl_ne _ _ _ hne]; exact h.sq_pc t' e hm
      · exact h.sq_nodup
      · intro t' hb
        by_cases e1 : t' = t
        · subst e1; simp [CPc.blocked] at hb
        · rw [setCl_cl_ne _ _ _ e1] at hb; exact h.blocked_in t' hb
      · exact h.mk_nodup
      · exact h.mk_lt
      · exact h.mk_open
      · exact h.closed_lt
      · intro t' id' hw
        by_cases e1 : t' = t
        · subst e1; simp at hw
        · rw [setCl_cl_ne _ _ _ e1] at hw; exact h.waiting t' id' hw
    · simp at hr
  case getStart =>
    intro k c hpc hr
    obtain ⟨h1, h2, h3, h4, h5, _, _, _, h6, h7⟩ := stGetStart_q hr
    refine qstep_frame h t h1 h2 (by rw [h3]) h4 h5 h6 (by simp [hpc, CPc.qrel]) ?_
    rcases h7 with ⟨e, _⟩ | ⟨e, _⟩ <;> simp [e, CPc.qrel]
  case iterShard =>
    intro k n seen hpc hr
    obtain ⟨h1, h2, h3, h4, h5, _, _, _, h6, h7⟩ := stIterShard_q hr
    refine qstep_frame h t h1 h2 (by rw [h3]) h4 h5 h6 (by simp [hpc, CPc.qrel]) ?_
    rcases h7 with ⟨e, _⟩ | ⟨_, _, e, _⟩ <;> simp [e, CPc.qrel]
  case clrShard =>
    intro closing k hpc hr
    obtain ⟨ks, _, _, h1, h2, h3, h4, h5, _, _, _, h6, h7⟩ := stClrShard_q hr
    refine qstep_frame h t h1 h2 (by rw [h3]) h4 h5 h6 (by simp [hpc, CPc.qrel]) ?_
    rw [h7]; split <;> simp [CPc.qrel]
  case clrRestart =>
    intro closing hpc _
    have hdead : s.app = .dead := hh.busy t (by simp [hpc, CPc.busy])
    refine qstep_frame h t (by simp) (by simp) ?_ (by simp) (by simp)
      (fun _ hne => stClrRestart_cl_ne (hne := hne) ..) (by simp [hpc, CPc.qrel]) ?_
    · rw [hdead]; unfold stClrRestart; dsimp only; split <;> simp [appElem]
    · unfold stClrRestart; dsimp only; split <;> simp [CPc.qrel]
  case clsFinish =>
    intro hpc _
    have hdead : s.app = .dead := hh.busy t (by simp [hpc, CPc.busy])
    refine qstep_frame h t (by simp) (by simp) ?_ (by simp) (by simp)
      (fun _ hne => stClsFinish_cl_ne (hne := hne) ..) (by simp [hpc, CPc.qrel]) ?_
    · rw [hdead]; simp [stClsFinish, appElem]
    · simp [stClsFinish, CPc.qrel]
  case clrDrain =>
    intro closing hpc _
    have hdead : s.app = .dead := hh.busy t (by simp [hpc, CPc.busy])
    have hnone : appElem s.app = none := by rw [hdead]; rfl
    unfold stClrDrain
    split
    · exact qstep_frame h t rfl rfl rfl rfl rfl (fun t' hne => setCl_cl_ne _ _ _ hne)
        (by simp [hpc, CPc.qrel]) (by simp [CPc.qrel])
    · rename_i id s1 hr
      obtain ⟨hq, hp⟩ := h.recv hr hnone (.marker id) rfl
      have happ1 : s1.app = .dead := by rw [recvBuf_app hr, hdead]
      have := qstep_pop_marker (s' := { s1 with closedMarkers := id :: s1.closedMarkers }) hq id rfl
        (by simp [happ1, appElem]) rfl rfl rfl rfl rfl
      rw [QStep, hp] at this
      exact this
    · rename_i i s1 hr
      obtain ⟨hq, hp⟩ := h.recv hr hnone (.item i) rfl
      have happ1 : s1.app = .dead := by rw [recvBuf_app hr, hdead]
      split
      · have := qstep_pop_item (s' := cbEvict s1 i.key i.conflict i.value i.cost) hq i rfl
          (by simp [happ1, appElem]) rfl rfl rfl rfl rfl
        rw [QStep, hp] at this
        exact this
      · have := qstep_pop_item (s' := s1) hq i rfl
          (by simp [happ1, appElem]) rfl rfl rfl rfl rfl
        rw [QStep, hp] at this
        exact this

theorem qstep_applierStep {cfg : Cfg} {s s' : State} {ch : Choice}
    (h : QueueInv cfg s) (hs : applierStep cfg s ch = some s') : QStep cfg s s' := by
  apply applierStep_cases hs (motive := QStep cfg s)
  case idle =>
    intro hpc hr
    have hnone : appElem s.app = none := by rw [hpc]; rfl
    unfold apIdle at hr
    split at hr
    · unfold apSelItem at hr
      split at hr
      · simp at hr
      · rename_i id s1 hrecv
        simp only [Option.some.injEq] at hr; subst hr
        obtain ⟨hq, hp⟩ := h.recv hrecv hnone (.marker id) rfl
        exact ⟨hq, by rw [hp]; exact .same _⟩
      · rename_i i s1 hrecv
        simp only [Option.some.injEq] at hr; subst hr
        obtain ⟨hq, hp⟩ := h.recv hrecv hnone (.item i) rfl
        exact ⟨hq, by rw [hp]; exact .same _⟩
    · simp only [Option.some.injEq] at hr; subst hr
      exact qstep_app h rfl rfl (by simp [hpc, appElem]) rfl rfl rfl
    · rename_i t
      unfold apSelStop at hr
      split at hr
      · rename_i closing hpc'
        simp only [Option.some.injEq] at hr; subst hr
        exact qstep_frame h t rfl rfl (by simp [hpc, appElem]) rfl rfl (fun t' hne => setCl_cl_ne _ _ _ hne)
          (by simp [hpc', CPc.qrel]) (by simp [CPc.qrel])
      · rename_i hpc'
        simp only [Option.some.injEq] at hr; subst hr
        exact qstep_frame h t rfl rfl (by simp [hpc, appElem]) rfl rfl (fun t' hne => setCl_cl_ne _ _ _ hne)
          (by simp [hpc', CPc.qrel]) (by simp [CPc.qrel])
      · simp at hr
    · simp at hr
  case marker =>
    intro id hpc _
    exact qstep_pop_marker h id (by rw [hpc]; rfl) (by simp [apMarker, appElem]) rfl rfl rfl rfl rfl
  case item =>
    intro i hpc _
    have hp : pending s = .item i :: queue s := by simp [pending, hpc, appElem]
    have hp' : pending (apItem cfg s i) = .item { i with cost := itemCost cfg i } :: queue s := by
      simp [pending, apItem, appElem, queue]
    refine ⟨h.congr rfl rfl (by rw [hp, hp']; simp) rfl rfl (fun t => Or.inl rfl), ?_⟩
    rw [hp, hp']; exact .recost _ _ _
  case costed =>
    intro i hpc hr
    unfold apCosted at hr
    split at hr
    · unfold apCostedNew at hr
      split at hr
      · split at hr
        · simp at hr
        · simp only [Option.some.injEq] at hr; subst hr
          exact qstep_app h rfl rfl (by simp [hpc, appElem]) rfl rfl rfl
      · simp at hr
    · obtain ⟨_, hr⟩ := needNone_some hr
      simp only [Option.some.injEq] at hr; subst hr
      exact qstep_pop_item h i (by rw [hpc]; rfl) (by simp [apCostedUpd, appElem]) rfl rfl rfl rfl rfl
    · obtain ⟨_, hr⟩ := needNone_some hr
      simp only [Option.some.injEq] at hr; subst hr
      exact qstep_app h rfl rfl (by simp [hpc, apCostedDel, appElem]) rfl rfl rfl
  case added =>
    intro i victims ok hpc _
    refine qstep_pop_item h i (by rw [hpc]; rfl) ?_ (by simp) (by simp) (by simp) (by simp) (apAdded_cl ..)
    unfold apAdded afterVictims
    split <;> split <;> simp [appElem]
  case victims =>
    intro vs hpc _ hr
    unfold apVictims at hr
    split at hr
    · simp at hr
    · simp only [Option.some.injEq] at hr; subst hr
      exact qstep_app h rfl rfl (by simp [hpc, appElem]) rfl rfl rfl
  case victimEvict =>
    intro k cost c v rest hpc _
    refine qstep_app h (by simp) (by simp) ?_ (by simp) (by simp) (apVictimEvict_cl ..)
    rw [hpc]; unfold apVictimEvict afterVictims
    split <;> simp [appElem]
  case tombPolicy =>
    intro i hpc _
    exact qstep_pop_item h i (by rw [hpc]; rfl) (by simp [apTombPolicy, appElem]) rfl rfl rfl rfl rfl
  case tombStore =>
    intro v hpc _
    exact qstep_app h rfl rfl (by simp [hpc, apTombStore, appElem]) rfl rfl rfl
  case tick =>
    intro hpc _
    exact qstep_app h rfl rfl (by simp [hpc, apTick, appElem]) rfl rfl rfl
  case sweep =>
    intro now bs hpc hr
    unfold apSweep at hr
    split at hr
    · simp only [Option.some.injEq] at hr; subst hr
      exact qstep_app h rfl rfl (by simp [hpc, appElem]) rfl rfl rfl
    · split at hr
      · simp at hr
      · simp only [Option.some.injEq] at hr; subst hr
        exact qstep_app h rfl rfl (by simp [hpc, appElem]) rfl rfl rfl
    · simp at hr
  case swKey =>
    intro now k c bs hpc _
    refine qstep_app h (by simp) (by simp) ?_ (by simp) (by simp) (apSwKey_cl ..)
    rw [hpc]; unfold apSwKey; dsimp only; split <;> simp [appElem]
  case swStoreDel =>
    intro now k c expr v bs hpc _
    exact qstep_app h rfl rfl (by simp [hpc, apSwStoreDel, appElem]) rfl rfl rfl
  case swPolDel =>
    intro now k c expr cost v bs hpc _
    exact qstep_app h rfl rfl (by simp [hpc, apSwPolDel, appElem]) rfl rfl rfl

theorem queueInv_init (cfg : Cfg) (now : Time) : QueueInv cfg (init cfg now) := by
  constructor <;> simp [init, pending, queue, appElem, CPc.blocked]

theorem qstep_step {cfg : Cfg} {s s' : State} {a : Action} (h : QueueInv cfg s) (hh : Handshake s)
    (hs : step cfg s a = some s') : QStep cfg s s' := by
  cases a with
  | spawn t c =>
    have hs' : spawnStep s t c = some s' := hs
    have hidle : s.cl t = .idle := by
      unfold spawnStep at hs'; split at hs'
      · assumption
      · simp at hs'
    refine qstep_frame h t (spawnStep_buf s t c hs') (spawnStep_sendq s t c hs')
      (by rw [spawnStep_app s t c hs']) (spawnStep_closedMarkers s t c hs') (spawnStep_nextMarker s t c hs')
      (fun t' hne => spawnStep_cl_ne s t c hs' hne) (by simp [hidle, CPc.qrel]) ?_
    unfold spawnStep at hs'
    rw [hidle] at hs'
    cases c <;> (simp only [Option.some.injEq] at hs'; subst hs'; simp [CPc.qrel])
  | client t ch => exact qstep_clientStep h hh hs
  | applier ch => exact qstep_applierStep h hs
  | done t =>
    have hs' : doneStep s t = some s' := hs
    unfold doneStep at hs'
    split at hs'
    · rename_i closing happ hpc
      simp only [Option.some.injEq] at hs'; subst hs'
      exact qstep_frame h t rfl rfl (by simp [happ, appElem]) rfl rfl (fun t' hne => setCl_cl_ne _ _ _ hne)
        (by simp [hpc, CPc.qrel]) (by simp [CPc.qrel])
    · rename_i happ hpc
      simp only [Option.some.injEq] at hs'; subst hs'
      exact qstep_frame h t rfl rfl (by simp [happ, appElem]) rfl rfl (fun t' hne => setCl_cl_ne _ _ _ hne)
        (by simp [hpc, CPc.qrel]) (by simp [CPc.qrel])
    · simp at hs'
  | tick d =>
    simp only [step, Option.some.injEq] at hs; subst hs
    exact qstep_app h rfl rfl rfl rfl rfl rfl

/-- (a) `queue_inv`: the queue discipline holds in every reachable state. -/
theorem queue_inv {cfg : Cfg} {s : State} (h : Reach cfg s) : QueueInv cfg s :=
  Reach.induction (queueInv_init cfg)
    (fun _ _ _ hr hp hs => (qstep_step hp (handshake_reach hr) hs).1) h

/-- (b) `fifo_order`: one step leaves the pending sequence unchanged, appends one element at its
end, removes its first element, or pre-processes the cost of the element the applier holds.
Nothing is reordered, nothing is inserted in the middle, nothing but the front is removed. -/
theorem fifo_order {cfg : Cfg} {s s' : State} {a : Action} (h : Reach cfg s)
    (hs : step cfg s a = some s') : PendStep (pending s) (pending s') :=
  (qstep_step (queue_inv h) (handshake_reach h) hs).2

/-- A tombstone is never dropped: `Del`'s send step always appends it (to `buf` or, when the
channel is full, as a blocked sender that a later receive moves into `buf`). -/
theorem tomb_enqueued (cfg : Cfg) (s : State) (t : Tid) (h : Hash) (c : Conf) :
    pending (stDelSend cfg s t h c) = pending s ++ [tomb h c] := by
  unfold stDelSend; rw [pending_sendBlocking]; rfl

/-- A marker is never dropped. -/
theorem marker_enqueued (cfg : Cfg) (s : State) (t : Tid) :
    pending (stWaitSend cfg s t) = pending s ++ [.marker s.nextMarker] := by
  unfold stWaitSend; rw [pending_sendBlocking]; rfl

/-- `Set`'s send either appends the item or (buffer full) leaves the queue alone; it never blocks. -/
theorem set_send_pending (cfg : Cfg) (s : State) (t : Tid) (i : Item) :
    (pending (stSetSend cfg s t i) = pending s ++ [.item i] ∧ (stSetSend cfg s t i).cl t = .setRetTrue i) ∨
    (pending (stSetSend cfg s t i) = pending s ∧ (stSetSend cfg s t i).cl t = .setRetDrop i) := by
  unfold stSetSend
  split
  · rename_i hc; exact Or.inl ⟨by simp [pending, queue, hc.2], by simp⟩
  · exact Or.inr ⟨rfl, by simp⟩

/-- with a channel of capacity ≥ 1, an empty `buf` means nothing is queued at all -/
theorem QueueInv.queue_empty {cfg : Cfg} {s : State} (h : QueueInv cfg s) (hcap : 1 ≤ cfg.bufCap)
    (hb : s.buf = []) : s.sendq = [] := by
  by_cases hq : s.sendq = []
  · exact hq
  · have := h.full hq; rw [hb] at this; simp at this; omega

end RV.Cache
