import RV.Proofs.CacheLiveExamples
/-!
# C08 (4): infinite executions, fairness, and the temporal rules used for "every call returns"

* `Exec cfg` — an infinite execution of the cache model without `Close` calls, starting in a state
  reachable without `Close`.
* `Actor` — each client thread `t` (its own steps `.client t _` and its side of the `done`
  rendezvous `.done t`) and the applier goroutine (`.applier _`).  `spawn` and `tick` belong to
  the environment and are unrestricted.
* `WeakFair` — weak fairness for every actor: an actor that is enabled from some point on takes
  a step infinitely often (`∀ i, ∃ j ≥ i, ¬ enabled at j ∨ act j is a step of the actor`).
* `SelectFair` — strong fairness of the branches `setBuf` / `stop` of the applier's `select`
  (the `stop` branch per offering client): a branch that is ready infinitely often is taken
  infinitely often.  Needed because the ticker branch of the model's `select` is always ready
  (`CacheFairExamples.lean`: weak fairness alone lets the applier spin on the ticker forever).
* `wf_rule` (the weak-fairness proof rule), `until_rule`, `first_change`.
-/
namespace RV.Cache
open Gen.Cache

/-- an infinite execution without `Close` -/
structure Exec (cfg : Cfg) where
  st : Nat → State
  act : Nat → Action
  start : ReachNC cfg (st 0)
  next : ∀ i, step cfg (st i) (act i) = some (st (i + 1))
  noClose : ∀ i, (act i).isClose = false

theorem Exec.reachNC {cfg : Cfg} (e : Exec cfg) (i : Nat) : ReachNC cfg (e.st i) := by
  induction i with
  | zero => exact e.start
  | succ n ih => exact .step ih (e.noClose n) (e.next n)

theorem Exec.reach {cfg : Cfg} (e : Exec cfg) (i : Nat) : Reach cfg (e.st i) := (e.reachNC i).reach

inductive Actor
  | client (t : Tid)
  | applier

/-- the actions an actor performs -/
def Actor.owns : Actor → Action → Bool
  | .client t, .client t' _ => decide (t' = t)
  | .client t, .done t' => decide (t' = t)
  | .applier, .applier _ => true
  | _, _ => false

/-- some action of the actor can be taken in `s` -/
def Enabled (cfg : Cfg) (s : State) (a : Actor) : Prop :=
  ∃ x s', a.owns x = true ∧ step cfg s x = some s'

/-- weak fairness for every actor -/
def WeakFair {cfg : Cfg} (e : Exec cfg) : Prop :=
  ∀ (a : Actor) (i : Nat), ∃ j, i ≤ j ∧ (¬ Enabled cfg (e.st j) a ∨ a.owns (e.act j) = true)

/-- the action `x` can be taken infinitely often from `i` on -/
def ReadyInfOften {cfg : Cfg} (e : Exec cfg) (x : Action) (i : Nat) : Prop :=
  ∀ k, i ≤ k → ∃ j, k ≤ j ∧ ∃ s', step cfg (e.st j) x = some s'

/-- strong fairness of the `setBuf` branch and of the `stop` branch (per offering client) of the
applier's `select` -/
structure SelectFair {cfg : Cfg} (e : Exec cfg) : Prop where
  item : ∀ i, ReadyInfOften e (.applier .selItem) i → ∃ j, i ≤ j ∧ e.act j = .applier .selItem
  stop : ∀ t i, ReadyInfOften e (.applier (.selStop t)) i → ∃ j, i ≤ j ∧ e.act j = .applier (.selStop t)

/-- the weaker variant in which the `stop` branch is ONE fairness class: if some client's `stop`
can be taken infinitely often, then some client's `stop` is taken infinitely often.  Not enough for
an individual `Clear` (`coarse_stop_fairness_counterexample`): the model's applier may serve any
offering client, whereas the Go runtime serves the senders blocked on an unbuffered channel FIFO. -/
structure SelectFairCoarse {cfg : Cfg} (e : Exec cfg) : Prop where
  item : ∀ i, ReadyInfOften e (.applier .selItem) i → ∃ j, i ≤ j ∧ e.act j = .applier .selItem
  stop : ∀ i, (∀ k, i ≤ k → ∃ j, k ≤ j ∧ ∃ t s', step cfg (e.st j) (.applier (.selStop t)) = some s') →
    ∃ j t, i ≤ j ∧ e.act j = .applier (.selStop t)

structure Fair {cfg : Cfg} (e : Exec cfg) : Prop where
  weak : WeakFair e
  select : SelectFair e

/-! ### temporal rules -/

/-- **The weak-fairness rule.**  If `P` holds now, implies that the actor is enabled, and is
preserved by every step of anybody else, then the actor takes a step from a `P`-state. -/
theorem wf_rule {cfg : Cfg} {e : Exec cfg} (hf : WeakFair e) (a : Actor) (P : State → Prop)
    (hen : ∀ s, ReachNC cfg s → P s → Enabled cfg s a)
    (hst : ∀ s x s', ReachNC cfg s → P s → step cfg s x = some s' → a.owns x = false → P s')
    {i : Nat} (hi : P (e.st i)) : ∃ j, i ≤ j ∧ P (e.st j) ∧ a.owns (e.act j) = true := by
  obtain ⟨j, hij, hj⟩ := hf a i
  have key : ∀ d i, i + d = j → P (e.st i) → ∃ j', i ≤ j' ∧ P (e.st j') ∧ a.owns (e.act j') = true := by
    intro d
    induction d with
    | zero =>
      intro i hd hi
      have : i = j := by omega
      subst this
      rcases hj with h | h
      · exact absurd (hen _ (e.reachNC i) hi) h
      · exact ⟨i, Nat.le_refl _, hi, h⟩
    | succ d ih =>
      intro i hd hi
      cases ho : a.owns (e.act i) with
      | true => exact ⟨i, Nat.le_refl _, hi, ho⟩
      | false =>
        have := hst _ _ _ (e.reachNC i) hi (e.next i) ho
        obtain ⟨j', h1, h2⟩ := ih (i + 1) (by omega) this
        exact ⟨j', by omega, h2⟩
  exact key (j - i) i (by omega) hi

/-- if `P` holds now and is preserved until `E` happens, and `E` happens, then `E` happens at a
time at which `P` holds -/
theorem until_rule {cfg : Cfg} {e : Exec cfg} (P : State → Prop) (E : Nat → Prop)
    (hpres : ∀ k, P (e.st k) → ¬ E k → P (e.st (k + 1))) {i j : Nat} (hij : i ≤ j)
    (hi : P (e.st i)) (hj : E j) : ∃ k, i ≤ k ∧ k ≤ j ∧ P (e.st k) ∧ E k := by
  have key : ∀ d i, i + d = j → P (e.st i) → ∃ k, i ≤ k ∧ k ≤ j ∧ P (e.st k) ∧ E k := by
    intro d
    induction d with
    | zero =>
      intro i hd hi
      have : i = j := by omega
      subst this
      exact ⟨i, Nat.le_refl _, Nat.le_refl _, hi, hj⟩
    | succ d ih =>
      intro i hd hi
      by_cases hE : E i
      · exact ⟨i, Nat.le_refl _, by omega, hi, hE⟩
      · obtain ⟨k, h1, h2⟩ := ih (i + 1) (by omega) (hpres i hi hE)
        exact ⟨k, by omega, h2⟩
  exact key (j - i) i (by omega) hi

/-- the first time a client's pc differs from `pc` -/
theorem first_change {cfg : Cfg} {e : Exec cfg} {t : Tid} {pc : CPc} {i j : Nat} (hij : i ≤ j)
    (hi : (e.st i).cl t = pc) (hj : (e.st j).cl t ≠ pc) :
    ∃ k, i ≤ k ∧ k < j ∧ (e.st k).cl t = pc ∧ (e.st (k + 1)).cl t ≠ pc := by
  have key : ∀ d i, i + d = j → (e.st i).cl t = pc →
      ∃ k, i ≤ k ∧ k < j ∧ (e.st k).cl t = pc ∧ (e.st (k + 1)).cl t ≠ pc := by
    intro d
    induction d with
    | zero =>
      intro i hd hi
      have : i = j := by omega
      subst this
      exact absurd hi hj
    | succ d ih =>
      intro i hd hi
      by_cases hc : (e.st (i + 1)).cl t = pc
      · obtain ⟨k, h1, h2⟩ := ih (i + 1) (by omega) hc
        exact ⟨k, by omega, h2⟩
      · exact ⟨i, Nat.le_refl _, by omega, hi, hc⟩
  exact key (j - i) i (by omega) hi

/-! ### invariants at every time of an execution -/

theorem Exec.handshake {cfg : Cfg} (e : Exec cfg) (i : Nat) : Handshake (e.st i) := handshake_reach (e.reach i)
theorem Exec.live {cfg : Cfg} (e : Exec cfg) (i : Nat) : LiveInv cfg (e.st i) := live_reach (e.reach i)
theorem Exec.nc {cfg : Cfg} (e : Exec cfg) (i : Nat) : NCInv (e.st i) := ncinv_reach (e.reachNC i)

end RV.Cache
