import RV.Proofs.CacheHandshake
/-!
# Shapes of the steps of the Cache model (infrastructure for C08 / C15)

* `ReachBy cfg ok s` — states reachable by runs whose every action satisfies a side condition
  `ok s a` (runs without `Close`: `NoClose`; runs in which `Close` is not overlapped: `ExclClose`).
* `OwnTr pc pc'` / `Ext pc pc'` — the transition relation of client program counters (by its own steps / by
  another thread's step), and `step_cl` (CacheLiveShape): every step changes every
  pc either not at all or along `OwnTr`/`Ext`.
* `client_shape`, `applier_shape` — every client/applier step is either *plain* (does not touch
  `buf`, `sendq`, `closedMarkers`, `nextMarker`, `closed`, other clients' pcs, and the applier
  only between non-special pcs) or one of the few steps that act on the channel/handshake.
-/
namespace RV.Cache
open Gen.Cache

/-! ### restricted reachability -/

inductive ReachBy (cfg : Cfg) (ok : State → Action → Prop) : State → Prop
  | init (now : Time) : ReachBy cfg ok (init cfg now)
  | step {s s' : State} {a : Action} : ReachBy cfg ok s → ok s a → step cfg s a = some s' → ReachBy cfg ok s'

theorem ReachBy.reach {cfg : Cfg} {ok : State → Action → Prop} {s : State} (h : ReachBy cfg ok s) :
    Reach cfg s := by
  induction h with
  | init now => exact Reach.of_init cfg now
  | step _ _ hs ih => exact ih.of_step hs

theorem ReachBy.mono {cfg : Cfg} {ok ok' : State → Action → Prop} (himp : ∀ s a, ok s a → ok' s a)
    {s : State} (h : ReachBy cfg ok s) : ReachBy cfg ok' s := by
  induction h with
  | init now => exact .init now
  | step _ hok hs ih => exact .step ih (himp _ _ hok) hs

theorem Reach.reachBy {cfg : Cfg} {s : State} (h : Reach cfg s) : ReachBy cfg (fun _ _ => True) s :=
  Reach.induction (P := ReachBy cfg (fun _ _ => True)) (fun now => .init now)
    (fun _ _ _ _ hp hs => .step hp trivial hs) h

/-- runs restricted by a state-independent condition on the actions, list formulation -/
theorem reachBy_of_run {cfg : Cfg} {p : Action → Prop} {s0 s : State} {acts : List Action}
    (h0 : ReachBy cfg (fun _ a => p a) s0) (hp : ∀ a ∈ acts, p a) (hr : run cfg s0 acts = some s) :
    ReachBy cfg (fun _ a => p a) s := by
  induction acts generalizing s0 with
  | nil => simp [run] at hr; subst hr; exact h0
  | cons a as ih =>
    simp only [run] at hr
    cases hs : step cfg s0 a with
    | none => simp [hs] at hr
    | some s1 =>
      simp only [hs] at hr
      exact ih (.step h0 (hp a (by simp)) hs) (fun b hb => hp b (by simp [hb])) hr

/-- runs whose actions satisfy a state-independent condition that implies the side condition -/
theorem reachBy_of_run' {cfg : Cfg} {ok : State → Action → Prop} {p : Action → Prop}
    (himp : ∀ s a, p a → ok s a) {s0 s : State} {acts : List Action}
    (h0 : ReachBy cfg ok s0) (hp : ∀ a ∈ acts, p a) (hr : run cfg s0 acts = some s) : ReachBy cfg ok s := by
  induction acts generalizing s0 with
  | nil => simp [run] at hr; subst hr; exact h0
  | cons a as ih =>
    simp only [run] at hr
    cases hs : step cfg s0 a with
    | none => simp [hs] at hr
    | some s1 =>
      simp only [hs] at hr
      exact ih (.step h0 (himp _ _ (hp a (by simp))) hs) (fun b hb => hp b (by simp [hb])) hr

/-- induction along a run from an arbitrary start state -/
theorem run_induction {cfg : Cfg} {P : State → Prop} {s0 s : State} {acts : List Action}
    (h0 : P s0) (hstep : ∀ s a s', a ∈ acts → P s → step cfg s a = some s' → P s')
    (hr : run cfg s0 acts = some s) : P s := by
  induction acts generalizing s0 with
  | nil => simp [run] at hr; subst hr; exact h0
  | cons a as ih =>
    simp only [run] at hr
    cases hs : step cfg s0 a with
    | none => simp [hs] at hr
    | some s1 =>
      simp only [hs] at hr
      exact ih (hstep s0 a s1 (by simp) h0 hs) (fun s b s' hb => hstep s b s' (by simp [hb])) hr

/-- `Close` is the only excluded call of C08 -/
def Action.isClose : Action → Bool
  | .spawn _ .close => true
  | _ => false

/-- a run without `Close` (C08: Close is excluded from concurrency) -/
def NoCloseRun (acts : List Action) : Prop := ∀ a ∈ acts, a.isClose = false

abbrev NoClose : State → Action → Prop := fun _ a => a.isClose = false

/-- reachable without any `Close` call -/
abbrev ReachNC (cfg : Cfg) (s : State) : Prop := ReachBy cfg NoClose s

theorem reachNC_of_run {cfg : Cfg} {now : Time} {acts : List Action} {s : State}
    (hn : NoCloseRun acts) (hr : run cfg (init cfg now) acts = some s) : ReachNC cfg s :=
  reachBy_of_run (p := fun a => a.isClose = false) (.init now) hn hr

/-! ### classification of pcs -/

/-- the client is inside a `Close` call -/
def CPc.closing : CPc → Bool
  | .clrStart c => c | .clrStop c => c | .clrDone c => c | .clrDrain c => c | .clrPolicy c => c
  | .clrShard c _ => c | .clrEm c => c | .clrMetrics c => c | .clrRestart c => c
  | .clsStop => true | .clsDone => true | .clsFinish => true
  | _ => false

/-- blocked in a send on `setBuf` -/
def CPc.sendBlocked : CPc → Bool
  | .delBlocked _ => true | .waitBlocked _ => true | _ => false

/-- the marker a `Wait` call is waiting for -/
def CPc.waitsFor : CPc → Option Nat
  | .waitBlocked id => some id | .waitRecv id => some id | _ => none

/-- shard indices in pcs are in range -/
def CPc.wf : CPc → Bool
  | .iterShard k _ _ => decide (k < numShards.toNat)
  | .clrShard _ k => decide (k < numShards.toNat)
  | _ => true

/-- pcs whose remaining own steps touch only the client's pc and the log (what the other
clients may be doing while a `Clear`/`Close` is "not overlapped") -/
def CPc.quiet : CPc → Bool
  | .idle => true | .delBlocked _ => true | .delSent _ => true | .waitBlocked _ => true
  | .waitRecv _ => true | .waitDone => true | .clrStop false => true
  | _ => false

/-- pcs whose step acts on the channel or the handshake (`CSpecial`) -/
def CPc.special : CPc → Bool
  | .setSend _ => true | .delSend _ _ => true | .waitSend => true | .clrDrain _ => true
  | .clrRestart _ => true | .clsFinish => true | _ => false

def startPc : Call → CPc
  | .set h cf v cost ttl => .setStart h cf v cost ttl
  | .get h cf => .getStart h cf
  | .getTTL h cf => .ttlRead h cf
  | .del h cf => .delStart h cf
  | .wait => .waitStart
  | .clear => .clrStart false
  | .close => .clrStart true
  | .iter n => .iterStart n
  | .updateMaxCost m => .updMax m
  | .maxCost => .readMax
  | .remainingCost => .readRem

def APc.marker? : APc → Option Nat
  | .marker id => some id
  | _ => none

/-- the applier goroutine is running (not parked by the stop/done handshake) -/
def APc.running : APc → Bool
  | .stopAck => false | .dead => false | _ => true

def APc.wf : APc → Bool
  | .victims vs => !vs.isEmpty
  | _ => true

/-- the channel `setBuf` as one FIFO: buffered elements, then the elements of the blocked senders -/
def chan (s : State) : List BufElem := s.buf ++ s.sendq.map (·.2)

/-! ### the pc transition relation -/

/-- transitions performed by the client's own steps -/
inductive OwnTr : CPc → CPc → Prop
  | setStart_upd {h c v cost ttl i} : OwnTr (.setStart h c v cost ttl) (.setUpd i)
  | setStart_ret {h c v cost ttl} : OwnTr (.setStart h c v cost ttl) .idle
  | setUpd_exit {i p} : OwnTr (.setUpd i) (.setExit i p)
  | setUpd_send {i} : OwnTr (.setUpd i) (.setSend i)
  | setExit {i p i'} : OwnTr (.setExit i p) (.setSend i')
  | setSend_true {i} : OwnTr (.setSend i) (.setRetTrue i)
  | setSend_drop {i} : OwnTr (.setSend i) (.setRetDrop i)
  | setRetTrue {i} : OwnTr (.setRetTrue i) .idle
  | setRetDrop {i} : OwnTr (.setRetDrop i) .idle
  | delStart_ret {h c} : OwnTr (.delStart h c) .idle
  | delStart_exit {h c p} : OwnTr (.delStart h c) (.delExit h c p)
  | delExit {h c p} : OwnTr (.delExit h c p) (.delSend h c)
  | delSend_sent {h c} : OwnTr (.delSend h c) (.delSent h)
  | delSend_blocked {h c} : OwnTr (.delSend h c) (.delBlocked h)
  | delSent {h} : OwnTr (.delSent h) .idle
  | waitStart_ret : OwnTr .waitStart .idle
  | waitStart_send : OwnTr .waitStart .waitSend
  | waitSend_recv {id} : OwnTr .waitSend (.waitRecv id)
  | waitSend_blocked {id} : OwnTr .waitSend (.waitBlocked id)
  | waitRecv {id} : OwnTr (.waitRecv id) .waitDone
  | waitDone : OwnTr .waitDone .idle
  | getStart_ret {h c} : OwnTr (.getStart h c) .idle
  | getStart_read {h c} : OwnTr (.getStart h c) (.getRead h c)
  | getRead {h c e} : OwnTr (.getRead h c) (.getCheck h c e)
  | getCheck {h c e r} : OwnTr (.getCheck h c e) (.getMetric h c r)
  | getMetric {h c r} : OwnTr (.getMetric h c r) .idle
  | ttlRead {h c e} : OwnTr (.ttlRead h c) (.ttlCheck h c e)
  | ttlCheck_ret {h c e} : OwnTr (.ttlCheck h c e) .idle
  | ttlCheck_exp {h c e} : OwnTr (.ttlCheck h c e) (.ttlExp h c)
  | ttlExp_ret {h c} : OwnTr (.ttlExp h c) .idle
  | ttlExp_now {h c exp} : OwnTr (.ttlExp h c) (.ttlNow h c exp)
  | ttlNow_ret {h c exp} : OwnTr (.ttlNow h c exp) .idle
  | ttlNow_until {h c exp} : OwnTr (.ttlNow h c exp) (.ttlUntil h c exp)
  | ttlUntil {h c exp} : OwnTr (.ttlUntil h c exp) .idle
  | iterStart_ret {n} : OwnTr (.iterStart n) .idle
  | iterStart_shard {n} : OwnTr (.iterStart n) (.iterShard 0 n [])
  | iterShard_ret {k n seen} : OwnTr (.iterShard k n seen) .idle
  | iterShard_next {k n seen seen'} : k + 1 < numShards.toNat → OwnTr (.iterShard k n seen) (.iterShard (k + 1) n seen')
  | clrStart_ret {c} : OwnTr (.clrStart c) .idle
  | clrStart_stop {c} : OwnTr (.clrStart c) (.clrStop c)
  | clrDrain_loop {c} : OwnTr (.clrDrain c) (.clrDrain c)
  | clrDrain_done {c} : OwnTr (.clrDrain c) (.clrPolicy c)
  | clrPolicy {c} : OwnTr (.clrPolicy c) (.clrShard c 0)
  | clrShard_next {c k} : k + 1 < numShards.toNat → OwnTr (.clrShard c k) (.clrShard c (k + 1))
  | clrShard_done {c k} : OwnTr (.clrShard c k) (.clrEm c)
  | clrEm {c} : OwnTr (.clrEm c) (.clrMetrics c)
  | clrMetrics {c} : OwnTr (.clrMetrics c) (.clrRestart c)
  | clrRestart_ret : OwnTr (.clrRestart false) .idle
  | clrRestart_close : OwnTr (.clrRestart true) .clsStop
  | clsFinish : OwnTr .clsFinish .idle
  | updMax {m} : OwnTr (.updMax m) .idle
  | readMax : OwnTr .readMax .idle
  | readRem : OwnTr .readRem .idle

/-- transitions of a client's pc performed by another thread's step (or by `spawn`) -/
inductive Ext : CPc → CPc → Prop
  | unblockDel {h} : Ext (.delBlocked h) (.delSent h)
  | unblockWait {id} : Ext (.waitBlocked id) (.waitRecv id)
  | stopTaken {c} : Ext (.clrStop c) (.clrDone c)
  | clsStopTaken : Ext .clsStop .clsDone
  | doneRecv {c} : Ext (.clrDone c) (.clrDrain c)
  | clsDoneRecv : Ext .clsDone .clsFinish
  | spawn {call pc'} : pc' = startPc call → Ext .idle pc'

theorem unblocked_ext (pc : CPc) : unblockedPc pc = pc ∨ Ext pc (unblockedPc pc) := by
  cases pc <;> first | exact Or.inl rfl | exact Or.inr .unblockDel | exact Or.inr .unblockWait

/-! ### plain steps -/

/-- a client step that acts neither on the channel nor on the handshake -/
structure Plain (s : State) (t : Tid) (s' : State) : Prop where
  buf : s'.buf = s.buf
  sendq : s'.sendq = s.sendq
  closedMarkers : s'.closedMarkers = s.closedMarkers
  nextMarker : s'.nextMarker = s.nextMarker
  app : s'.app = s.app
  closed : s'.closed = s.closed
  cl_ne : ∀ t', t' ≠ t → s'.cl t' = s.cl t'
  src : (s.cl t).special = false
  succ : OwnTr (s.cl t) (s'.cl t)

/-- an applier step that acts neither on the channel, nor on markers, nor on the handshake -/
structure APlain (s s' : State) : Prop where
  buf : s'.buf = s.buf
  sendq : s'.sendq = s.sendq
  closedMarkers : s'.closedMarkers = s.closedMarkers
  nextMarker : s'.nextMarker = s.nextMarker
  closed : s'.closed = s.closed
  cl : s'.cl = s.cl
  run0 : s.app.running = true
  run1 : s'.app.running = true
  mk0 : s.app.marker? = none
  mk1 : s'.app.marker? = none
  wf1 : s'.app.wf = true

end RV.Cache
