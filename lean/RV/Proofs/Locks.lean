/-
  C08 (B) lock discipline.

  * `c08_lock_discipline`: the kernel evaluates the discipline checker on the generated lock table
    (`Gen.Locks.accesses`, extracted by go2lean/locks.go from /repo's working tree).  The table IS
    the whole quantifier, so `decide` is the proof.  To keep the evaluation fast the kernel runs the
    checker over numeric field ids, group by group (`disciplinedG`), plus a linear check that the
    ids are a function of the field names (`fidsOk`); `disciplinedN_of_grouped` and
    `disciplined_of_fast` turn the two into the string-level all-pairs statement.
  * `c08_lock_discipline_pairs`: the same, unfolded into a readable ∀-statement.
  * `lockset_sound`: in the abstract RW-mutex semantics two accesses that share a mutex (one of them
    exclusively) are never simultaneously enabled for two different threads.
  * `exclusive_step`, `exclusive_reach`: the well-formedness of lock states is preserved by the four
    lock operations from the all-free state (so `lockset_sound` is not vacuous).
  * `c08_conflicts_protected`: the combination.
-/
import RV.Gen.Locks

namespace RV.Locks

/-! ## the checker, unfolded -/

theorem conflict_iff (a b : Access) :
    conflict a b = true ↔ a.field = b.field ∧ (a.kind = .write ∨ b.kind = .write) := by
  simp [conflict]

theorem conflictN_iff (a b : Access) :
    conflictN a b = true ↔ a.fid = b.fid ∧ (a.kind = .write ∨ b.kind = .write) := by
  simp [conflictN]

theorem sharesMutex_iff (a b : Access) :
    sharesMutex a b = true ↔
      ∃ p ∈ a.locks, ∃ q ∈ b.locks, p.1 = q.1 ∧ (p.2 = .W ∨ q.2 = .W) := by
  simp [sharesMutex, List.any_eq_true]

theorem excluded_iff (a : Access) : excluded a = true ↔ a.tag = .close := by
  simp [excluded]

theorem confined_iff (a b : Access) :
    confined a b = true ↔ a.tag = b.tag ∧ (a.tag = .stripe ∨ a.tag = .applier) := by
  simp [confined]

theorem ok_iff (a b : Access) :
    ok a b = true ↔
      (a.atomic = true ∧ b.atomic = true) ∨ sharesMutex a b = true ∨
      (a.tag = b.tag ∧ (a.tag = .stripe ∨ a.tag = .applier)) ∨ a.tag = .ctor ∨ b.tag = .ctor := by
  simp [ok, confined_iff, or_assoc]

theorem disciplined_iff (l : List Access) :
    disciplined l = true ↔ ∀ a ∈ l, ∀ b ∈ l, pairOk a b = true := by
  simp [disciplined, List.all_eq_true]

theorem disciplinedN_iff (l : List Access) :
    disciplinedN l = true ↔ ∀ a ∈ l, ∀ b ∈ l, pairOkN a b = true := by
  simp [disciplinedN, List.all_eq_true]

/-- the ids are a function of the names: equal names have equal ids -/
theorem fid_eq_of_field_eq {tbl : List (String × Nat)} {l : List Access}
    (h : fidsOk tbl l = true) {a b : Access} (ha : a ∈ l) (hb : b ∈ l)
    (hf : a.field = b.field) : a.fid = b.fid := by
  simp only [fidsOk, List.all_eq_true, beq_iff_eq] at h
  have h1 := h a ha
  have h2 := h b hb
  rw [hf, h2] at h1
  exact (Option.some.inj h1).symm

/-- the fast checker (numeric ids) implies the string-level discipline -/
theorem disciplined_of_fast {tbl : List (String × Nat)} {l : List Access}
    (hid : fidsOk tbl l = true) (h : disciplinedN l = true) : disciplined l = true := by
  rw [disciplined_iff]
  rw [disciplinedN_iff] at h
  intro a ha b hb
  have hab := h a ha b hb
  cases hc : conflict a b with
  | false => simp [pairOk, hc]
  | true =>
    have hc' : conflictN a b = true := by
      rw [conflict_iff] at hc
      rw [conflictN_iff]
      exact ⟨fid_eq_of_field_eq hid ha hb hc.1, hc.2⟩
    simp only [pairOkN, hc'] at hab
    simp only [pairOk, hc]
    exact hab

/-- the grouped checker implies the all-pairs checker -/
theorem disciplinedN_of_grouped {n : Nat} {l : List Access}
    (h : disciplinedG n l = true) : disciplinedN l = true := by
  rw [disciplinedN_iff]
  simp only [disciplinedG, Bool.and_eq_true, List.all_eq_true, decide_eq_true_eq,
    List.mem_range] at h
  obtain ⟨hlt, hg⟩ := h
  intro a ha b hb
  cases hc : conflictN a b with
  | false => simp [pairOkN, hc]
  | true =>
    have hfid : a.fid = b.fid := ((conflictN_iff a b).1 hc).1
    have hgrp := hg a.fid (hlt a ha)
    simp only [groupOk, List.all_eq_true, List.mem_filter, beq_iff_eq] at hgrp
    exact hgrp a ⟨ha, rfl⟩ b ⟨hb, hfid.symm⟩

/-- the discipline as a readable statement about pairs -/
theorem discipline_pairs {l : List Access} (h : disciplined l = true) :
    ∀ a ∈ l, ∀ b ∈ l, a.tag ≠ .close → b.tag ≠ .close →
      a.field = b.field → (a.kind = .write ∨ b.kind = .write) →
      (a.atomic = true ∧ b.atomic = true) ∨ sharesMutex a b = true ∨
      (a.tag = b.tag ∧ (a.tag = .stripe ∨ a.tag = .applier)) ∨ a.tag = .ctor ∨ b.tag = .ctor := by
  intro a ha b hb hea heb hf hw
  have hp := (disciplined_iff l).1 h a ha b hb
  have hc : conflict a b = true := (conflict_iff a b).2 ⟨hf, hw⟩
  have hxa : excluded a = false := by
    cases hx : excluded a with
    | false => rfl
    | true => exact absurd ((excluded_iff a).1 hx) hea
  have hxb : excluded b = false := by
    cases hx : excluded b with
    | false => rfl
    | true => exact absurd ((excluded_iff b).1 hx) heb
  simp only [pairOk, hxa, hxb, hc, Bool.not_true, Bool.false_or] at hp
  exact (ok_iff a b).1 hp

/-! ## the table -/

set_option maxRecDepth 100000 in
/-- the ids in the generated table are a function of the field names (linear check) -/
theorem fids_ok : fidsOk Gen.Locks.fieldIds Gen.Locks.accesses = true := by decide

set_option maxRecDepth 100000 in
/-- the kernel evaluates the checker on every ordered pair of every group of equal field id -/
theorem disciplinedG_accesses :
    disciplinedG Gen.Locks.fieldIds.length Gen.Locks.accesses = true := by decide

theorem disciplinedN_accesses : disciplinedN Gen.Locks.accesses = true :=
  disciplinedN_of_grouped disciplinedG_accesses

/-- **C08 lock discipline**: every two non-`Close` accesses to the same field of a shared type, one
of them a write, are both atomic, or share a mutex (one side exclusively), or are confined to the
same owner, or one of them is constructor code. -/
theorem c08_lock_discipline : disciplined Gen.Locks.accesses = true :=
  disciplined_of_fast fids_ok disciplinedN_accesses

theorem c08_lock_discipline_pairs :
    ∀ a ∈ Gen.Locks.accesses, ∀ b ∈ Gen.Locks.accesses, a.tag ≠ .close → b.tag ≠ .close →
      a.field = b.field → (a.kind = .write ∨ b.kind = .write) →
      (a.atomic = true ∧ b.atomic = true) ∨ sharesMutex a b = true ∨
      (a.tag = b.tag ∧ (a.tag = .stripe ∨ a.tag = .applier)) ∨ a.tag = .ctor ∨ b.tag = .ctor :=
  discipline_pairs c08_lock_discipline

/-- no violating pair (same fact, in the form used for reporting) -/
theorem c08_no_violations : violations Gen.Locks.accesses = [] := by
  have h := (disciplined_iff _).1 c08_lock_discipline
  simp only [violations, List.flatMap_eq_nil_iff, List.map_eq_nil_iff, List.filter_eq_nil_iff]
  intro a ha b hb
  simp [h a ha b hb]

/-- a special case worth reading: a write conflicts with itself (two threads running the same
line), so every plain write of the table outside constructors, `Close` and the stripe region is
made under an exclusively held mutex -/
theorem c08_plain_writes_locked :
    ∀ a ∈ Gen.Locks.accesses, a.kind = .write → a.tag = .none → a.atomic = false →
      ∃ p ∈ a.locks, p.2 = .W := by
  intro a ha hw ht hat
  have h := c08_lock_discipline_pairs a ha a ha (by simp [ht]) (by simp [ht]) rfl (Or.inl hw)
  have h : sharesMutex a a = true := by
    rcases h with h | h | h | h | h
    · rw [hat] at h; cases h.1
    · exact h
    · rw [ht] at h; rcases h.2 with h | h <;> cases h
    · rw [ht] at h; cases h
    · rw [ht] at h; cases h
  obtain ⟨p, hp, q, hq, _, hm⟩ := (sharesMutex_iff a a).1 h
  rcases hm with hm | hm
  · exact ⟨p, hp, hm⟩
  · exact ⟨q, hq, hm⟩

/-- the check is not vacuous: the table is large and contains many such plain writes (each one is
a conflicting pair with itself that only the mutex clause can justify) -/
example : Gen.Locks.accesses.length > 200 ∧
    (Gen.Locks.accesses.filter fun a => a.kind == .write && a.tag == .none && !a.atomic).length > 20 := by
  decide +kernel

/-! ## soundness of the "shares a mutex" clause -/

/-- two accesses that share a mutex, one of them exclusively, are never simultaneously enabled
for two different threads in a well-formed lock state -/
theorem lockset_sound {σ : LState} {t1 t2 : Tid} {a b : Access}
    (hex : Exclusive σ) (hne : t1 ≠ t2) (ha : enabled σ t1 a) (hb : enabled σ t2 b)
    (hs : sharesMutex a b = true) : False := by
  obtain ⟨⟨n, m⟩, hp, ⟨n', m'⟩, hq, hn, hm⟩ := (sharesMutex_iff a b).1 hs
  simp only at hn hm
  subst hn
  have h1 := ha _ hp
  have h2 := hb _ hq
  -- whoever holds W is the writer; the other one is the writer too (contradiction with
  -- t1 ≠ t2) or a reader (contradiction with Exclusive)
  have key : ∀ {s t : Tid} {k : Mode}, s ≠ t → (σ n).writer = some s → holds σ t (n, k) → False := by
    intro s t k hst hw hh
    cases k with
    | W =>
      simp only [holds] at hh
      rw [hw] at hh
      exact hst (Option.some.inj hh)
    | R =>
      simp only [holds] at hh
      rcases hh with hh | hh
      · rw [hw] at hh
        exact hst (Option.some.inj hh)
      · rw [hex n s hw] at hh
        cases hh
  rcases hm with hm | hm
  · subst hm
    exact key hne h1 h2
  · subst hm
    exact key (Ne.symm hne) h2 h1

/-! ## the lock operations preserve well-formedness -/

theorem exclusive_init : Exclusive LState.init := by
  intro n t h
  simp [LState.init] at h

theorem exclusive_set {σ : LState} {n : String} {m : MState}
    (hex : Exclusive σ) (hm : ∀ t, m.writer = some t → m.readers = []) :
    Exclusive (σ.set n m) := by
  intro n' t h
  simp only [LState.set] at h ⊢
  split at h
  · simp only [*, if_true]
    exact hm t h
  · simp only [*, if_false]
    exact hex n' t h

theorem exclusive_step {σ σ' : LState} {t : Tid} {n : String} {op : Op}
    (hex : Exclusive σ) (hs : step σ t n op = some σ') : Exclusive σ' := by
  cases op with
  | lock =>
    simp only [step] at hs
    split at hs
    · cases hs
      exact exclusive_set hex (fun _ _ => rfl)
    · cases hs
  | rlock =>
    simp only [step] at hs
    split at hs
    · rename_i hw
      cases hs
      refine exclusive_set hex (fun t' h' => ?_)
      simp only at h'
      rw [hw] at h'
      cases h'
    · cases hs
  | unlock =>
    simp only [step] at hs
    split at hs
    · cases hs
      refine exclusive_set hex (fun t' h' => ?_)
      simp only at h'
      cases h'
    · cases hs
  | runlock =>
    simp only [step] at hs
    split at hs
    · rename_i hr
      cases hs
      refine exclusive_set hex (fun t' h' => ?_)
      simp only at h' ⊢
      rw [hex n t' h'] at hr
      cases hr
    · cases hs

theorem exclusive_reach {σ : LState} (h : Reach σ) : Exclusive σ := by
  induction h with
  | init => exact exclusive_init
  | step _ hs ih => exact exclusive_step ih hs

/-- `lockset_sound` for every lock state reachable by lock operations -/
theorem lockset_sound_reach {σ : LState} {t1 t2 : Tid} {a b : Access}
    (hr : Reach σ) (hne : t1 ≠ t2) (ha : enabled σ t1 a) (hb : enabled σ t2 b)
    (hs : sharesMutex a b = true) : False :=
  lockset_sound (exclusive_reach hr) hne ha hb hs

/-! ## non-vacuity -/

/-- thread 1 takes the policy lock -/
def exState : LState := LState.init.set "defaultPolicy" { writer := some 1, readers := [] }

/-- `sampledLFU.used -= cost` in `sampledLFU.del` (policy.go), reached under the policy lock -/
def exAccess : Access :=
  { field := "sampledLFU.used", fid := 0, kind := .write, locks := [("defaultPolicy", .W)],
    atomic := false, tag := .none, loc := "example" }

example : step LState.init 1 "defaultPolicy" .lock = some exState := by
  simp [step, LState.init, exState]

example : Reach exState :=
  Reach.step (t := 1) (n := "defaultPolicy") (op := .lock) Reach.init
    (by simp [step, LState.init, exState])

/-- the hypotheses of `lockset_sound` are satisfiable one side at a time: the state is
well-formed, the access is enabled for thread 1, it shares the mutex with itself … -/
example : Exclusive exState ∧ enabled exState 1 exAccess ∧ sharesMutex exAccess exAccess = true := by
  refine ⟨exclusive_set exclusive_init (fun _ _ => rfl), ?_, by decide⟩
  intro l hl
  simp only [exAccess, List.mem_singleton] at hl
  subst hl
  simp [holds, exState, LState.set]

/-- … and it is NOT enabled for any other thread (which is what `lockset_sound` says) -/
example : ∀ t, t ≠ 1 → ¬ enabled exState t exAccess := by
  intro t ht he
  have := he ("defaultPolicy", .W) (by simp [exAccess])
  simp [holds, exState, LState.set] at this
  exact ht this.symm

/-- two readers may hold the same RW mutex at once: R/R does not exclude, as the checker assumes -/
example : ∃ σ, Reach σ ∧ holds σ 1 ("lockedMap", .R) ∧ holds σ 2 ("lockedMap", .R) := by
  refine ⟨(LState.init.set "lockedMap" { writer := none, readers := [1] }).set "lockedMap"
      { writer := none, readers := [2, 1] }, ?_, ?_, ?_⟩
  · refine Reach.step (t := 2) (n := "lockedMap") (op := .rlock)
      (σ := LState.init.set "lockedMap" { writer := none, readers := [1] })
      (Reach.step (t := 1) (n := "lockedMap") (op := .rlock) Reach.init ?_) ?_
    · simp [step, LState.init]
    · simp [step, LState.set]
  · simp [holds, LState.set]
  · simp [holds, LState.set]

/-! ## the combination -/

/-- **C08 (B)**: take two accesses of the table outside `Close` to the same field, one of them a
write.  If in some reachable lock state both are enabled (their threads hold the locks of the
table) for two different threads, then the pair is justified without locks: both are atomic, or
both are confined to the same owner, or one of them is constructor code. -/
theorem c08_conflicts_protected {σ : LState} {t1 t2 : Tid} {a b : Access}
    (ha : a ∈ Gen.Locks.accesses) (hb : b ∈ Gen.Locks.accesses)
    (hca : a.tag ≠ .close) (hcb : b.tag ≠ .close)
    (hf : a.field = b.field) (hw : a.kind = .write ∨ b.kind = .write)
    (hr : Reach σ) (hne : t1 ≠ t2) (h1 : enabled σ t1 a) (h2 : enabled σ t2 b) :
    (a.atomic = true ∧ b.atomic = true) ∨
    (a.tag = b.tag ∧ (a.tag = .stripe ∨ a.tag = .applier)) ∨ a.tag = .ctor ∨ b.tag = .ctor := by
  rcases c08_lock_discipline_pairs a ha b hb hca hcb hf hw with h | h | h
  · exact Or.inl h
  · exact (lockset_sound_reach hr hne h1 h2 h).elim
  · exact Or.inr h

end RV.Locks
