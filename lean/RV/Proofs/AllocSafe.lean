import RV.Proofs.AllocInv
/-!
Allocator (C12): no bounds panic, the chunk table only grows, grants are only
forgotten by Reset/TrimTo.
-/
namespace RV.Alloc
open Gen.Alloc

/-- No goroutine has died of an index / slice-bounds panic. -/
def NoBoundsPanic (s : State) : Prop :=
  ∀ (t : Nat) (th : Thread), s.threads[t]? = some th → th.pc ≠ .panicked .bounds

theorem checkPos_no_panic {cs : List Nat} {sz pos : W} (hb : (parse pos).1.toNat < cs.length)
    (hsz : sz.toNat ≤ (parse pos).2.toNat) (hlt : ∀ c ∈ cs, c < 2 ^ 63) :
    checkPos cs sz pos ≠ .panic := by
  have hp := parse_snd_lt pos
  have hcl := chunkLen_lt hlt (by decide) (parse pos).1.toNat
  simp only [checkPos]
  split
  · omega
  · split
    · simp
    · rename_i hbe
      rw [beyond_iff _ _ (by omega) hcl] at hbe
      simp only [decide_eq_true_eq] at hbe
      have hlo := sliceLo_toNat (parse pos).2 sz hsz
      have h1 : BitVec.slt (allocSliceLo (parse pos).2 sz) 0#64 = false := by
        rw [slt_small _ _ (by omega) (by simp)]; simp
      have h2 : BitVec.slt (parse pos).2 (allocSliceLo (parse pos).2 sz) = false := by
        rw [slt_small _ _ (by omega) (by omega)]; simp; omega
      have h3 : BitVec.slt (BitVec.ofNat 64 (chunkLen cs (parse pos).1.toNat)) (parse pos).2 = false := by
        rw [slt_small _ _ (by simp; omega) (by omega)]
        simp only [BitVec.toNat_ofNat, decide_eq_false_iff_not]
        have : chunkLen cs (parse pos).1.toNat % 2 ^ 64 = chunkLen cs (parse pos).1.toNat := by omega
        omega
      simp [h1, h2, h3]

theorem noBoundsPanic_of {s s' : State} {t : Nat} {x : Thread} (h : NoBoundsPanic s)
    (ht : s'.threads = s.threads.set t x) (hx : x.pc ≠ .panicked .bounds) : NoBoundsPanic s' := by
  intro u uh hu
  rw [ht] at hu
  rcases get_set hu with ⟨_, rfl⟩ | ⟨_, hu'⟩
  · exact hx
  · exact h u uh hu'

theorem noBoundsPanic_step {s s' : State} {a : Action} (hI : Inv s) (hP : NoBoundsPanic s)
    (h : step s a = some s') : NoBoundsPanic s' := by
  cases a with
  | start t op =>
    obtain ⟨th, hth, hpc, h1 | h1 | h1⟩ := step_start h
    · obtain ⟨_, rfl⟩ := h1; exact hP
    · obtain ⟨_, _, rfl⟩ := h1; exact hP
    · obtain ⟨_, _, rfl⟩ := h1
      exact noBoundsPanic_of hP rfl (by simp)
  | add t =>
    obtain ⟨th, sz, hth, hpc, rfl⟩ := step_add h
    exact noBoundsPanic_of hP rfl (by simp)
  | check t =>
    obtain ⟨th, sz, pos, hth, hpc, h1 | h1 | h1⟩ := step_check h
    · obtain ⟨b, _, rfl⟩ := h1
      exact noBoundsPanic_of hP rfl (by simp)
    · obtain ⟨hpanic, _⟩ := h1
      obtain ⟨_, _, a3, a4, _⟩ := hI.added t th sz pos hth hpc
      have := hI.biLt
      exact absurd hpanic (checkPos_no_panic (by omega) a4 hI.chunkLt)
    · obtain ⟨r, _, rfl⟩ := h1
      exact noBoundsPanic_of hP rfl (by simp)
  | grow t =>
    obtain ⟨_, th, sz, b, hth, hpc, h1 | h1 | h1 | h1⟩ := step_grow h
    · obtain ⟨_, rfl⟩ := h1
      exact noBoundsPanic_of hP rfl (by simp)
    · obtain ⟨_, _, rfl⟩ := h1
      exact noBoundsPanic_of hP rfl (by simp)
    · obtain ⟨_, _, rfl⟩ := h1
      exact noBoundsPanic_of hP rfl (by simp)
    · obtain ⟨cs, _, _, rfl⟩ := h1
      exact noBoundsPanic_of hP rfl (by simp)
  | reset => obtain ⟨_, rfl⟩ := step_reset h; exact hP
  | trim mx => obtain ⟨_, rfl⟩ := step_trim h; exact hP

theorem safe_reachNW {c0 n : Nat} (hc : c0 < 2 ^ 63) {s : State} (h : ReachNW (init c0 n) s) :
    Inv s ∧ NoBoundsPanic s := by
  induction h with
  | init =>
    refine ⟨inv_init c0 n hc, ?_⟩
    intro t th ht
    have := List.mem_of_getElem? ht
    simp only [init, List.mem_replicate] at this
    rw [this.2]; simp
  | step a _ hN hs ih => exact ⟨inv_step ih.1 hN hs, noBoundsPanic_step ih.1 ih.2 hs⟩

/-! ## the chunk table only grows -/

/-- `cs'` extends `cs`: same number of slots, every non-empty slot unchanged. -/
def Ext (cs cs' : List Nat) : Prop :=
  cs'.length = cs.length ∧ ∀ i, chunkLen cs i ≠ 0 → chunkLen cs' i = chunkLen cs i

theorem Ext.refl (cs : List Nat) : Ext cs cs := ⟨rfl, fun _ _ => rfl⟩

theorem Ext.trans {a b c : List Nat} (h1 : Ext a b) (h2 : Ext b c) : Ext a c := by
  refine ⟨h2.1.trans h1.1, fun i hi => ?_⟩
  have := h1.2 i hi
  rw [h2.2 i (by rw [this]; exact hi), this]

theorem stable_step {s s' : State} {a : Action} (hI : Inv s) (ha : ∀ mx, a ≠ .trim mx)
    (h : step s a = some s') : Ext s.chunks s'.chunks := by
  cases a with
  | start t op =>
    obtain ⟨th, hth, hpc, h1 | h1 | h1⟩ := step_start h
    · obtain ⟨_, rfl⟩ := h1; exact Ext.refl _
    · obtain ⟨_, _, rfl⟩ := h1; exact Ext.refl _
    · obtain ⟨_, _, rfl⟩ := h1; exact Ext.refl _
  | add t => obtain ⟨th, sz, hth, hpc, rfl⟩ := step_add h; exact Ext.refl _
  | check t =>
    obtain ⟨th, sz, pos, hth, hpc, h1 | h1 | h1⟩ := step_check h
    · obtain ⟨b, _, rfl⟩ := h1; exact Ext.refl _
    · obtain ⟨_, rfl⟩ := h1; exact Ext.refl _
    · obtain ⟨r, _, rfl⟩ := h1; exact Ext.refl _
  | grow t =>
    obtain ⟨_, th, sz, b, hth, hpc, h1 | h1 | h1 | h1⟩ := step_grow h
    · obtain ⟨_, rfl⟩ := h1; exact Ext.refl _
    · obtain ⟨_, _, rfl⟩ := h1; exact Ext.refl _
    · obtain ⟨_, _, rfl⟩ := h1; exact Ext.refl _
    · obtain ⟨cs, hm, hadd, rfl⟩ := h1
      obtain ⟨g1, g2, g3⟩ := hI.needGrow t th sz b hth hpc
      have hb : bi s = b := moved_false hm
      have hbB : b.toNat = B s := by rw [← hb]; rfl
      have hBlt := hI.biLt
      have hlen := hI.lenLt
      have hnext := nextIdx_toNat b (by omega)
      obtain ⟨c1, _, c3, _⟩ := addBufferAt_ok hadd hI.chunkLt hI.lenLt (by omega) g1 (by omega)
      exact ⟨c1, c3⟩
  | reset => obtain ⟨_, rfl⟩ := step_reset h; exact Ext.refl _
  | trim mx => exact absurd rfl (ha mx)

/-- Slices handed out are only forgotten by `Reset` / `TrimTo`. -/
theorem grants_step {s s' : State} {a : Action} (ha : a ≠ .reset) (ha' : ∀ mx, a ≠ .trim mx)
    (h : step s a = some s') : s'.grants = s.grants ∨ ∃ g, s'.grants = g :: s.grants := by
  cases a with
  | start t op =>
    obtain ⟨th, hth, hpc, h1 | h1 | h1⟩ := step_start h
    · obtain ⟨_, rfl⟩ := h1; exact Or.inl rfl
    · obtain ⟨_, _, rfl⟩ := h1; exact Or.inl rfl
    · obtain ⟨_, _, rfl⟩ := h1; exact Or.inl rfl
  | add t => obtain ⟨th, sz, hth, hpc, rfl⟩ := step_add h; exact Or.inl rfl
  | check t =>
    obtain ⟨th, sz, pos, hth, hpc, h1 | h1 | h1⟩ := step_check h
    · obtain ⟨b, _, rfl⟩ := h1; exact Or.inl rfl
    · obtain ⟨_, rfl⟩ := h1; exact Or.inl rfl
    · obtain ⟨r, _, rfl⟩ := h1; exact Or.inr ⟨_, rfl⟩
  | grow t =>
    obtain ⟨_, th, sz, b, hth, hpc, h1 | h1 | h1 | h1⟩ := step_grow h
    · obtain ⟨_, rfl⟩ := h1; exact Or.inl rfl
    · obtain ⟨_, _, rfl⟩ := h1; exact Or.inl rfl
    · obtain ⟨_, _, rfl⟩ := h1; exact Or.inl rfl
    · obtain ⟨cs, _, _, rfl⟩ := h1; exact Or.inl rfl
  | reset => exact absurd rfl ha
  | trim mx => exact absurd rfl (ha' mx)

end RV.Alloc
