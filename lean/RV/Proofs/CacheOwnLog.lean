import RV.Proofs.CacheProvSim
/-!
# The shape of the callback events in the ghost log (C04, structural part)

Every `evict`/`reject` event is logged together with the `exit` of the same value, in one step
(`WP`), hence there are never more `evict`+`reject` events of a value than `exit` events (`Bal`).
Both hold for the log of every reachable state (`delta_reach`); no freshness assumption.
-/
namespace RV.Cache

/-- `OnEvict` / `OnReject` events -/
def Ev.isCb : Ev → Bool
  | .evict .. => true
  | .reject .. => true
  | _ => false

/-- number of `evict`/`reject` events carrying `v` -/
def cbCnt (v : Val) (l : List Ev) : Nat :=
  l.countP fun e => match e with
    | .evict _ _ v' _ => v' == v
    | .reject _ _ v' _ => v' == v
    | _ => false

/-- number of `evict _ _ v _` events -/
def evictCnt (v : Val) (l : List Ev) : Nat :=
  l.countP fun e => match e with
    | .evict _ _ v' _ => v' == v
    | _ => false

/-- number of `reject _ _ v _` events -/
def rejectCnt (v : Val) (l : List Ev) : Nat :=
  l.countP fun e => match e with
    | .reject _ _ v' _ => v' == v
    | _ => false

theorem cbCnt_eq (v : Val) (l : List Ev) : cbCnt v l = evictCnt v l + rejectCnt v l := by
  induction l with
  | nil => rfl
  | cons e rest ih =>
    unfold cbCnt evictCnt rejectCnt at ih ⊢
    rw [List.countP_cons, List.countP_cons, List.countP_cons, ih]
    cases e <;> simp <;> omega

/-- number of `exit v` events -/
def exitCnt (v : Val) (l : List Ev) : Nat := l.count (.exit v)

/-- every `evict`/`reject` event is immediately followed (towards the newer end) by the `exit` of the
same value -/
def WP (l : List Ev) : Prop :=
  (∀ newer older h c v k, l = newer ++ .evict h c v k :: older → ∃ newer', newer = newer' ++ [.exit v]) ∧
  (∀ newer older h c v k, l = newer ++ .reject h c v k :: older → ∃ newer', newer = newer' ++ [.exit v])

def Delta (l : List Ev) : Prop := WP l ∧ ∀ v, cbCnt v l ≤ exitCnt v l

theorem WP_nil : WP [] := by
  constructor <;> (intro newer older h c v k he; simp at he)

theorem WP_append {l1 l2 : List Ev} (h1 : WP l1) (h2 : WP l2) : WP (l1 ++ l2) := by
  constructor
  · intro newer older h c v k he
    rcases List.append_eq_append_iff.mp he with ⟨a', rfl, h'⟩ | ⟨c', h', h''⟩
    · obtain ⟨n', rfl⟩ := h2.1 a' older h c v k h'
      exact ⟨l1 ++ n', by simp⟩
    · cases c' with
      | nil =>
        simp only [List.nil_append] at h''
        obtain ⟨n', hn⟩ := h2.1 [] older h c v k (by simpa using h''.symm)
        simp at hn
      | cons x c'' =>
        simp only [List.cons_append, List.cons.injEq] at h''
        obtain ⟨rfl, _⟩ := h''
        exact h1.1 newer c'' h c v k h'
  · intro newer older h c v k he
    rcases List.append_eq_append_iff.mp he with ⟨a', rfl, h'⟩ | ⟨c', h', h''⟩
    · obtain ⟨n', rfl⟩ := h2.2 a' older h c v k h'
      exact ⟨l1 ++ n', by simp⟩
    · cases c' with
      | nil =>
        simp only [List.nil_append] at h''
        obtain ⟨n', hn⟩ := h2.2 [] older h c v k (by simpa using h''.symm)
        simp at hn
      | cons x c'' =>
        simp only [List.cons_append, List.cons.injEq] at h''
        obtain ⟨rfl, _⟩ := h''
        exact h1.2 newer c'' h c v k h'

theorem WP_noCb {l : List Ev} (h : ∀ e ∈ l, e.isCb = false) : WP l := by
  constructor
  · intro newer older h' c v k he
    have := h (.evict h' c v k) (by rw [he]; simp)
    simp [Ev.isCb] at this
  · intro newer older h' c v k he
    have := h (.reject h' c v k) (by rw [he]; simp)
    simp [Ev.isCb] at this

theorem cbCnt_noCb {l : List Ev} (h : ∀ e ∈ l, e.isCb = false) (v : Val) : cbCnt v l = 0 := by
  unfold cbCnt
  rw [List.countP_eq_zero]
  intro e he
  have := h e he
  cases e <;> simp [Ev.isCb] at this ⊢

theorem Delta_nil : Delta [] := ⟨WP_nil, fun v => by simp [cbCnt, exitCnt]⟩

theorem Delta_append {l1 l2 : List Ev} (h1 : Delta l1) (h2 : Delta l2) : Delta (l1 ++ l2) := by
  refine ⟨WP_append h1.1 h2.1, fun v => ?_⟩
  have a := h1.2 v
  have b := h2.2 v
  simp only [cbCnt, exitCnt, List.countP_append, List.count_append] at a b ⊢
  omega

theorem Delta_noCb {l : List Ev} (h : ∀ e ∈ l, e.isCb = false) : Delta l :=
  ⟨WP_noCb h, fun v => by rw [cbCnt_noCb h]; exact Nat.zero_le _⟩

theorem Delta_evict (h : Hash) (c : Conf) (v : Val) (k : Int) : Delta [.exit v, .evict h c v k] := by
  refine ⟨⟨?_, ?_⟩, fun v' => ?_⟩
  · intro newer older h' c' v' k' he
    match newer, he with
    | [], he => simp at he
    | [x], he => simp at he; obtain ⟨rfl, ⟨_, _, rfl, _⟩, _⟩ := he; exact ⟨[], rfl⟩
    | x :: y :: rest, he => simp at he
  · intro newer older h' c' v' k' he
    match newer, he with
    | [], he => simp at he
    | [x], he => simp at he
    | x :: y :: rest, he => simp at he
  · by_cases hv : v = v' <;> simp [cbCnt, exitCnt, hv]

theorem Delta_reject (h : Hash) (c : Conf) (v : Val) (k : Int) : Delta [.exit v, .reject h c v k] := by
  refine ⟨⟨?_, ?_⟩, fun v' => ?_⟩
  · intro newer older h' c' v' k' he
    match newer, he with
    | [], he => simp at he
    | [x], he => simp at he
    | x :: y :: rest, he => simp at he
  · intro newer older h' c' v' k' he
    match newer, he with
    | [], he => simp at he
    | [x], he => simp at he; obtain ⟨rfl, ⟨_, _, rfl, _⟩, _⟩ := he; exact ⟨[], rfl⟩
    | x :: y :: rest, he => simp at he
  · by_cases hv : v = v' <;> simp [cbCnt, exitCnt, hv]

theorem cmove_noCb {w : View} {t : Tid} {pc pc' : CPc} {l : List Ev} (hm : CMove w t pc pc' l) :
    ∀ e ∈ l, e.isCb = false := by
  cases hm <;> simp [Ev.isCb]

theorem amove_delta {pc pc' : APc} {l : List Ev} (hm : AMove pc pc' l) : Delta l := by
  cases hm
  case addedNo => exact Delta_reject ..
  case victimEvict => exact Delta_evict ..
  case swPolDel => exact Delta_evict ..
  all_goals exact Delta_noCb (by simp [Ev.isCb])

theorem evLog_delta (st : Store) (ks : List Hash) : Delta (evLog st ks) := by
  induction ks with
  | nil => exact Delta_nil
  | cons k rest ih =>
    unfold evLog
    refine Delta_append ih ?_
    split
    · exact Delta_nil
    · exact Delta_evict ..

theorem recv_log {w w1 : View} {x : BufElem} (hr : Recv w x w1) : w1.log = w.log := by cases hr <;> rfl

/-- what a step adds to the log -/
theorem astep_log {w w' : View} (h : AStep w w') : ∃ l, w'.log = l ++ w.log ∧ Delta l := by
  cases h with
  | client t pc pc' l hpc hm => exact ⟨l, rfl, Delta_noCb (cmove_noCb hm)⟩
  | applier pc' l hm => exact ⟨l, rfl, amove_delta hm⟩
  | drainMarker t closing id w1 hpc hr => exact ⟨[], recv_log hr, Delta_nil⟩
  | drainItem t closing i w1 hpc hr =>
    refine ⟨drainLog i, by rw [← recv_log hr], ?_⟩
    unfold drainLog; split
    · exact Delta_nil
    · exact Delta_evict ..
  | selItem x w1 happ hr => exact ⟨[], (recv_log hr : w1.log = w.log), Delta_nil⟩
  | clrShard t closing k ks pc' hpc hord hpc' => exact ⟨_, rfl, evLog_delta _ _⟩
  | clrRestart t closing pc' l hpc hpc' =>
    refine ⟨l, rfl, Delta_noCb ?_⟩
    rcases hpc' with ⟨_, rfl⟩ | ⟨_, rfl⟩ <;> simp [Ev.isCb]
  | clsFinish t hpc => exact ⟨[.closeRet t], rfl, Delta_noCb (by simp [Ev.isCb])⟩
  | tick => exact ⟨[], rfl, Delta_nil⟩
  | _ => exact ⟨[], rfl, Delta_nil⟩

theorem delta_reach {cfg : Cfg} {s : State} (h : Reach cfg s) : Delta s.log := by
  refine Reach.induction (P := fun s => Delta s.log) (fun now => Delta_nil) (fun s a s' _ hp hs => ?_) h
  obtain ⟨l, hl, hd⟩ := astep_log (astep_of_step hs)
  have hl' : s'.log = l ++ s.log := hl
  rw [hl']; exact Delta_append hd hp

/-- the log only grows, at its head -/
theorem log_grows {cfg : Cfg} {s s' : State} {a : Action} (hs : step cfg s a = some s') : ∃ l, s'.log = l ++ s.log := by
  obtain ⟨l, hl, _⟩ := astep_log (astep_of_step hs); exact ⟨l, hl⟩

end RV.Cache
