import RV.Proofs.CacheLiveUnblock
import RV.Proofs.CacheLiveClosed
/-!
# Concrete runs used as non-vacuity witnesses by `RV/Props/C08.lean` and `RV/Props/C15.lean`

The runs are evaluated by kernel `decide` on projections of `run cfg (init cfg 0) acts`
(the quantifier is a single closed term, not a search).
-/
namespace RV.Cache
open Gen.Cache

theorem run_split {cfg : Cfg} {s s2 : State} {as bs : List Action} (h : run cfg s (as ++ bs) = some s2) :
    ∃ s1, run cfg s as = some s1 ∧ run cfg s1 bs = some s2 := by
  rw [run_append] at h
  cases h1 : run cfg s as with
  | none => simp [h1] at h
  | some s1 => exact ⟨s1, rfl, by simpa [h1] using h⟩

/-- a client that is idle and is never spawned stays idle -/
theorem unspawned_idle {cfg : Cfg} {s0 s : State} {acts : List Action} {t' : Tid} (h0 : s0.cl t' = .idle)
    (hns : ∀ a ∈ acts, ∀ c, a ≠ .spawn t' c) (hr : run cfg s0 acts = some s) : s.cl t' = .idle :=
  run_induction (P := fun s => s.cl t' = .idle) h0
    (fun _ a _ hmem hp hs => idle_stays hs hp (hns a hmem)) hr

theorem reachX_of_reachNC {cfg : Cfg} {s : State} (h : ReachNC cfg s) : ReachX cfg s := by
  induction h with
  | init now => exact .init now
  | step hr hok hs ih =>
    refine .step ih ?_ hs
    rename_i s0 _ a
    cases a with
    | spawn t c =>
      refine ⟨(ncinv_reach hr).closing, fun hc => ?_⟩
      subst hc; exact Bool.noConfusion (hok : true = false)
    | _ => trivial

/-- `a` spawns only threads from `ts` -/
def spawnsOnly (ts : List Tid) : Action → Bool
  | .spawn t _ => ts.contains t
  | _ => true

theorem not_spawn_of_spawnsOnly {ts : List Tid} {acts : List Action} (h : acts.all (spawnsOnly ts) = true)
    {t' : Tid} (ht : t' ∉ ts) : ∀ a ∈ acts, ∀ c, a ≠ .spawn t' c := by
  intro a ha c e
  have := List.all_eq_true.mp h a ha
  subst e
  simp [spawnsOnly] at this
  exact ht this

theorem noClose_of_all {acts : List Action} (h : acts.all (fun a => !a.isClose) = true) : NoCloseRun acts := by
  intro a ha
  have := List.all_eq_true.mp h a ha
  simpa using this

def exCfg : Cfg :=
  { bufCap := 2, ignoreInternal := true, costFn := none, shouldUpdate := none, metricsOn := true, maxCost := 100 }

/-- `Set(5 ↦ 7)` applied (resident entry), then `Set(6 ↦ 8)` buffered (new item in `setBuf`) -/
def exSets : List Action :=
  [ .spawn 1 (.set 5#64 0#64 7 1 0), .client 1 .none, .client 1 .none, .client 1 .none, .client 1 .none,
    .applier .selItem, .applier .none, .applier (.add [] true), .applier .none,
    .spawn 1 (.set 6#64 0#64 8 1 0), .client 1 .none, .client 1 .none, .client 1 .none, .client 1 .none ]

/-- client 2 enters `Wait`: marker 0 is buffered behind the item, the client waits at `waitRecv 0` -/
def exWait : List Action := [ .spawn 2 .wait, .client 2 .none, .client 2 .none ]

/-- client 0 calls `Clear` and gets through the stop/done handshake: it stands at `clrDrain` -/
def exClearStart : List Action := [ .spawn 0 .clear, .client 0 .none, .applier (.selStop 0), .done 0 ]

def shardSteps : List Action :=
  (List.range 256).map fun k => .client 0 (.order (if k = 5 then [5#64] else []))

/-- drain (item, marker, empty), policy, 256 shards, expiry index, metrics: up to `clrRestart` -/
def exClearBody : List Action :=
  [ .client 0 .none, .client 0 .none, .client 0 .none, .client 0 .none ] ++ shardSteps ++
  [ .client 0 .none, .client 0 .none ]

def exStart : List Action := exSets ++ exWait ++ exClearStart

set_option maxRecDepth 100000 in
theorem exStart_facts :
    (run exCfg (init exCfg 0) exStart).map (fun s => (s.cl 0, s.cl 1, s.cl 2, (chan s).length,
      (s.store.lookup 5#64).isSome)) = some (.clrDrain false, .idle, .waitRecv 0, 2, true) := by decide

set_option maxRecDepth 100000 in
theorem exClear_end :
    (run exCfg (init exCfg 0) (exStart ++ exClearBody)).map (fun s => s.cl 0) = some (.clrRestart false) := by
  decide

theorem exClearBody_nospawn : ∀ a ∈ exClearBody, a.isSpawn = false := by
  intro a ha
  simp only [exClearBody, shardSteps, List.mem_append, List.mem_map, List.mem_cons, List.mem_nil_iff,
    or_false] at ha
  rcases ha with (h | ⟨k, _, h⟩) | h
  · rcases h with h | h | h | h <;> subst h <;> rfl
  · subst h; rfl
  · rcases h with h | h <;> subst h <;> rfl

theorem exClear : ∃ s0 s1 acts, Reach exCfg s0 ∧ s0.cl 0 = .clrDrain false ∧
    (∀ t', t' ≠ 0 → (s0.cl t').quiet = true) ∧ (∀ a ∈ acts, a.isSpawn = false) ∧
    run exCfg s0 acts = some s1 ∧ s1.cl 0 = .clrRestart false ∧
    chan s0 ≠ [] ∧ s0.store.lookup 5#64 ≠ none ∧ s0.cl 2 = .waitRecv 0 := by
  have hend := exClear_end
  cases hfull : run exCfg (init exCfg 0) (exStart ++ exClearBody) with
  | none => rw [hfull] at hend; simp at hend
  | some s1 =>
    rw [hfull] at hend
    obtain ⟨s0, h0, h1⟩ := run_split hfull
    have hf := exStart_facts
    rw [h0] at hf
    simp only [Option.map_some, Option.some.injEq, Prod.mk.injEq] at hf hend
    obtain ⟨hc0, hc1, hc2, hlen, hst⟩ := hf
    refine ⟨s0, s1, exClearBody, ⟨0, exStart, h0⟩, hc0, fun t' hne => ?_, exClearBody_nospawn, h1, hend, ?_, ?_, hc2⟩
    · by_cases e1 : t' = 1
      · subst e1; rw [hc1]; rfl
      · by_cases e2 : t' = 2
        · subst e2; rw [hc2]; rfl
        · have : s0.cl t' = .idle := by
            refine unspawned_idle (s0 := init exCfg 0) rfl
              (not_spawn_of_spawnsOnly (ts := [0, 1, 2]) (by decide) (by simp [hne, e1, e2])) h0
          rw [this]; rfl
    · intro he; rw [he] at hlen; simp at hlen
    · intro he; rw [he] at hst; simp at hst

/-! ### a complete un-overlapped `Close` -/

def exCloseTail : List Action :=
  [ .client 0 .none, .applier (.selStop 0), .done 0,
    .client 0 .none, .client 0 .none, .client 0 .none ] ++ shardSteps ++
  [ .client 0 .none, .client 0 .none, .client 0 .none, .applier (.selStop 0), .done 0, .client 0 .none ]

set_option maxRecDepth 100000 in
theorem exSets_facts :
    (run exCfg (init exCfg 0) exSets).map (fun s => s.cl 1) = some .idle := by decide

set_option maxRecDepth 100000 in
theorem exClose_end :
    (run exCfg (init exCfg 0) (exSets ++ (.spawn 0 .close :: exCloseTail))).map (fun s => (s.closed, s.cl 1)) =
      some (true, .idle) := by decide

theorem exCloseTail_nospawn : ∀ a ∈ exCloseTail, a.isSpawn = false := by
  intro a ha
  simp only [exCloseTail, shardSteps, List.mem_append, List.mem_map, List.mem_cons, List.mem_nil_iff,
    or_false] at ha
  rcases ha with (h | ⟨k, _, h⟩) | h
  · rcases h with h | h | h | h | h | h <;> subst h <;> rfl
  · subst h; rfl
  · rcases h with h | h | h | h | h | h <;> subst h <;> rfl

theorem exClosed : ∃ s, ReachX exCfg s ∧ 1 ≤ exCfg.bufCap ∧ s.closed = true ∧ s.cl 1 = .idle ∧
    inertRet 1 (.setStart 5#64 0#64 7 1 0) = some (.setRet 1 7 false) := by
  have hend := exClose_end
  cases hfull : run exCfg (init exCfg 0) (exSets ++ (.spawn 0 .close :: exCloseTail)) with
  | none => rw [hfull] at hend; simp at hend
  | some s =>
    rw [hfull] at hend
    simp only [Option.map_some, Option.some.injEq, Prod.mk.injEq] at hend
    obtain ⟨s0, h0, h1⟩ := run_split hfull
    have hnc : ReachNC exCfg s0 := by
      exact reachNC_of_run (now := 0) (noClose_of_all (by decide)) h0
    have hidle : ∀ t', s0.cl t' = .idle := by
      intro t'
      by_cases e1 : t' = 1
      · subst e1
        have := exSets_facts; rw [h0] at this; simpa using this
      · exact unspawned_idle (s0 := init exCfg 0) rfl
          (not_spawn_of_spawnsOnly (ts := [1]) (by decide) (by simp; exact e1)) h0
    -- the spawn of Close, then the rest without spawns
    simp only [run] at h1
    cases hsp : step exCfg s0 (.spawn 0 .close) with
    | none => simp [hsp] at h1
    | some s1 =>
      simp only [hsp] at h1
      have hx1 : ReachX exCfg s1 :=
        ReachBy.step (a := .spawn 0 .close) (reachX_of_reachNC hnc)
          (show (∀ t', (s0.cl t').closing = false) ∧ (Call.close = Call.close → ∀ t', s0.cl t' = .idle) from
            ⟨(ncinv_reach hnc).closing, fun _ => hidle⟩) hsp
      have hx : ReachX exCfg s :=
        reachBy_of_run' (p := fun a => a.isSpawn = false)
          (fun s a hp => by cases a <;> first | trivial | (simp [Action.isSpawn] at hp))
          hx1 exCloseTail_nospawn h1
      exact ⟨s, hx, by decide, hend.1, hend.2, rfl⟩

/-! ### why the non-overlap hypothesis is needed: a `Set` overlapping `Close` -/

/-- `Close` runs its `Clear` part on the empty cache; while it offers the second stop, client 1
issues `Set(5 ↦ 7)`, the restarted applier applies it, then takes the stop: the cache ends
closed with a resident entry (and `GetTTL`/`MaxCost`, which have no closed check, see it). -/
def exOverlap : List Action :=
  [ .spawn 0 .close, .client 0 .none, .applier (.selStop 0), .done 0, .client 0 .none, .client 0 .none ] ++
  ((List.range 256).map fun _ => Action.client 0 (.order [])) ++
  [ .client 0 .none, .client 0 .none, .client 0 .none,
    .spawn 1 (.set 5#64 0#64 7 1 0), .client 1 .none, .client 1 .none, .client 1 .none, .client 1 .none,
    .applier .selItem, .applier .none, .applier (.add [] true), .applier .none,
    .applier (.selStop 0), .done 0, .client 0 .none ]

set_option maxRecDepth 100000 in
theorem exOverlap_facts :
    (run exCfg (init exCfg 0) exOverlap).map (fun s => (s.closed, (s.store.lookup 5#64).isSome)) =
      some (true, true) := by decide

/-- "closed ⇒ store empty" is FALSE without the non-overlap hypothesis (model and code alike:
cache.go `Close` sets `isClosed` only after the second stop/done handshake). -/
theorem overlapped_close_counterexample :
    ∃ s, Reach exCfg s ∧ s.closed = true ∧ s.store.lookup 5#64 ≠ none := by
  have hf := exOverlap_facts
  cases hfull : run exCfg (init exCfg 0) exOverlap with
  | none => rw [hfull] at hf; simp at hf
  | some s =>
    rw [hfull] at hf
    simp only [Option.map_some, Option.some.injEq, Prod.mk.injEq] at hf
    refine ⟨s, ⟨0, exOverlap, hfull⟩, hf.1, fun he => ?_⟩
    rw [he] at hf; simp at hf

/-! ### a blocked `Del` (for C08's deadlock-freedom example) -/

def exCfg1 : Cfg :=
  { bufCap := 1, ignoreInternal := true, costFn := none, shouldUpdate := none, metricsOn := false, maxCost := 100 }

/-- `Set(5 ↦ 7)` fills the one-slot buffer, then `Del(9)` of client 2 blocks in its send -/
def exBlock : List Action :=
  [ .spawn 1 (.set 5#64 0#64 7 1 0), .client 1 .none, .client 1 .none, .client 1 .none, .client 1 .none,
    .spawn 2 (.del 9#64 0#64), .client 2 .none, .client 2 .none, .client 2 .none ]

set_option maxRecDepth 100000 in
theorem exBlock_facts :
    (run exCfg1 (init exCfg1 0) exBlock).map (fun s => (s.cl 2, s.buf.length, s.sendq.length)) =
      some (.delBlocked 9#64, 1, 1) := by decide

theorem exBlocked : ∃ s, ReachNC exCfg1 s ∧ 1 ≤ exCfg1.bufCap ∧ s.cl 2 ≠ .idle ∧ BlockedAt s (s.cl 2) ∧
    (s.cl 2).wf = true ∧ rankC s (s.cl 2) = 2 := by
  have hf := exBlock_facts
  cases hfull : run exCfg1 (init exCfg1 0) exBlock with
  | none => rw [hfull] at hf; simp at hf
  | some s =>
    rw [hfull] at hf
    simp only [Option.map_some, Option.some.injEq, Prod.mk.injEq] at hf
    have hnc : ReachNC exCfg1 s := by
      exact reachNC_of_run (now := 0) (noClose_of_all (by decide)) hfull
    refine ⟨s, hnc, by decide, by rw [hf.1]; simp, by rw [hf.1]; trivial, by rw [hf.1]; rfl, ?_⟩
    rw [hf.1]; rfl

end RV.Cache
