import RV.Proofs.CacheConserve
import RV.Proofs.CacheOwnGet
/-!
# `Held` and the ownership count (C02/C04): a held value occupies a counted place

Every place of `Held` is one of the places the ownership invariant (`Own`, `CacheOwnDefs.lean`) counts,
so under `Fresh` a value that was passed to `OnExit` is not held (`exited_not_held`), and a held
value is held in exactly one way.  Also: an executable check of `CollisionFree` for the examples.
-/
namespace RV.Cache
open RV Gen.Cache

theorem holdI_own {i : Item} {v : Val} (hv : v ≠ 0) (h : holdI i = v) : i.own = v := by
  obtain ⟨hf, hval⟩ := holdI_value hv h
  unfold Item.own; rw [if_neg (by rw [hf]; simp)]; exact hval

theorem holdE_own {x : BufElem} {v : Val} (hv : v ≠ 0) (h : holdE x = v) : x.own = v := by
  cases x with
  | item i => exact holdI_own hv h
  | marker id => exact absurd (show (0 : Val) = v from h).symm hv

theorem holdC_own {pc : CPc} {v : Val} (hv : v ≠ 0) (h : holdC pc = v) : pc.own = v := by
  cases pc <;> simp only [holdC, CPc.own] at h ⊢
  case setStart => exact h
  case setUpd i => exact (holdI_value hv h).2
  case setExit => exact h
  case setSend i => exact holdI_own hv h
  case setRetDrop i => exact holdI_own hv h
  case delExit => exact h
  all_goals exact absurd h.symm hv

theorem holdA_own {pc : APc} {v : Val} (hv : v ≠ 0) (h : holdA pc = v) : pc.own = v := by
  cases pc <;> simp only [holdA, APc.own] at h ⊢
  case item i => exact holdI_own hv h
  case costed i => exact holdI_own hv h
  case added i => exact (holdI_value hv h).2
  case victimEvict => exact h
  case tombStore => exact h
  case swStoreDel => exact h
  case swPolDel => exact h
  all_goals exact absurd h.symm hv

/-- a held value occupies a place the ownership invariant counts, or is local to a client -/
theorem held_places {s : State} {v : Val} (hv : v ≠ 0) (h : Held s v) :
    1 ≤ storeCnt v s.store ∨ 1 ≤ bufCnt v s.buf ∨ 1 ≤ sqCnt v s.sendq ∨ 1 ≤ appCnt v s.app ∨ ∃ t, (s.cl t).own = v := by
  rcases h with ⟨k, e, hl, he⟩ | ⟨x, hx, hxv⟩ | ⟨p, hp, hpv⟩ | ha | ⟨t, ht⟩
  · exact Or.inl (storeCnt_pos_of_lookup hl he)
  · refine Or.inr (Or.inl ?_)
    unfold bufCnt
    exact List.count_pos_iff.mpr (List.mem_map.mpr ⟨x, hx, holdE_own hv hxv⟩)
  · refine Or.inr (Or.inr (Or.inl ?_))
    unfold sqCnt
    exact List.count_pos_iff.mpr (List.mem_map.mpr ⟨p, hp, holdE_own hv hpv⟩)
  · refine Or.inr (Or.inr (Or.inr (Or.inl ?_)))
    have : s.app.own = v := holdA_own hv ha
    unfold appCnt; rw [if_pos this]; exact Nat.le_refl _
  · exact Or.inr (Or.inr (Or.inr (Or.inr ⟨t, holdC_own hv ht⟩)))

/-- under `Fresh`, a value that was passed to `OnExit` is held nowhere -/
theorem exited_not_held {cfg : Cfg} {s : State} (hr : Reach cfg s) (hf : Fresh s.log) {v : Val} (hv : v ≠ 0)
    (hex : Ev.exit v ∈ s.log) : ¬ Held s v := by
  intro hh
  have ho := own_reach hr hv hf
  have h1 := ho.1
  have h2 := deadCnt_split hv s.log
  have h3 := exitCnt_pos hex
  unfold View.cnt at h1
  have e1 : deadCnt v s.view.log = deadCnt v s.log := rfl
  have e2 : bufCnt v s.view.buf = bufCnt v s.buf := rfl
  have e3 : sqCnt v s.view.sendq = sqCnt v s.sendq := rfl
  have e4 : appCnt v s.view.app = appCnt v s.app := rfl
  have e5 : storeCnt v s.view.store = storeCnt v s.store := rfl
  rcases held_places hv hh with h | h | h | h | ⟨t, ht⟩
  · omega
  · omega
  · omega
  · omega
  · have := (ho.2 t ht).1
    unfold View.cnt at this
    omega

/-- under `Fresh`, a value whose `Set` returned false is held nowhere -/
theorem refused_not_held {cfg : Cfg} {s : State} (hr : Reach cfg s) (hf : Fresh s.log) {v : Val} (hv : v ≠ 0)
    {t : Tid} (hret : Ev.setRet t v false ∈ s.log) : ¬ Held s v := by
  intro hh
  have ho := own_reach hr hv hf
  have h1 := ho.1
  have h2 := deadCnt_split hv s.log
  have h3 := retFalseCnt_pos hret
  unfold View.cnt at h1
  have e1 : deadCnt v s.view.log = deadCnt v s.log := rfl
  have e2 : bufCnt v s.view.buf = bufCnt v s.buf := rfl
  have e3 : sqCnt v s.view.sendq = sqCnt v s.sendq := rfl
  have e4 : appCnt v s.view.app = appCnt v s.app := rfl
  have e5 : storeCnt v s.view.store = storeCnt v s.store := rfl
  rcases held_places hv hh with h | h | h | h | ⟨t', ht⟩
  · omega
  · omega
  · omega
  · omega
  · have := (ho.2 t' ht).1
    unfold View.cnt at this
    omega

/-- executable collision-freedom check (for the examples) -/
def cvCollisionFreeB (l : List Ev) : Bool :=
  l.all fun e1 => l.all fun e2 =>
    match callHC e1, callHC e2 with
    | some (h1, c1), some (h2, c2) => h1 != h2 || c1 == c2
    | _, _ => true

theorem cv_collisionFree_of_B {l : List Ev} (h : cvCollisionFreeB l = true) : CollisionFree l := by
  intro e1 he1 e2 he2 x c1 c2 h1 h2
  unfold cvCollisionFreeB at h
  rw [List.all_eq_true] at h
  have := h e1 he1
  rw [List.all_eq_true] at this
  have := this e2 he2
  simp only [h1, h2, bne_self_eq_false, Bool.false_or, beq_iff_eq] at this
  exact this

end RV.Cache
