import RV.Model.TreeFlat
import RV.Proofs.NodeFlatTop
/-!
# The tree on flat memory: the primitives of `RV/GenTreeM.lean`

`blitAt`, `view`, `rdNode`, `wrNode`, `wrNodeR`, `getNode` and the generated `Tree.node` on a state
whose data covers the page in question; framing of a page write (`pageOf` of every other page is
unchanged).
-/
namespace RV.TreeFlat
open RV.Tree RV.NodeFlat Gen.TreeM

/-- geometry of a configuration the flat theorems are about: `pageSize = 16 * (maxKeys + 1)`
(what `maxKeys = pageSize/16 - 1` gives for every page size that is a multiple of 16),
`maxKeys < 2^15` (`simd.Search` returns an int16) -/
structure CfgFlat (cfg : Cfg) : Prop where
  mk1 : 1 ≤ cfg.maxKeys
  mkLt : cfg.maxKeys < 2 ^ 15
  ps : cfg.pageSize = 16 * (cfg.maxKeys + 1)

theorem pw_pos (cfg : Cfg) : 0 < pw cfg := by unfold pw; omega

theorem CfgFlat.pw_lt {cfg : Cfg} (h : CfgFlat cfg) : pw cfg ≤ 2 ^ 16 := by
  have := h.mkLt; unfold pw; omega

theorem CfgFlat.ps_eq {cfg : Cfg} (h : CfgFlat cfg) : cfg.pageSize = 8 * pw cfg := by
  rw [h.ps]; unfold pw; omega

/-! ## blit -/

theorem blitGo_size (src : Words) (pos : Nat) : ∀ (n : Nat) (acc : Words), (blitGo src pos n acc).size = acc.size
  | 0, acc => rfl
  | n + 1, acc => by rw [blitGo, blitGo_size src pos n]; simp

theorem blitGo_get (src : Words) (pos : Nat) : ∀ (n : Nat) (acc : Words) (j : Nat), pos + n ≤ acc.size →
    (blitGo src pos n acc)[j]! = if pos ≤ j ∧ j < pos + n then src[j - pos]! else acc[j]!
  | 0, acc, j, _ => by
    simp only [blitGo, Nat.add_zero]
    rw [if_neg (by omega)]
  | n + 1, acc, j, h => by
    rw [blitGo, blitGo_get src pos n _ j (by simp; omega)]
    by_cases hj : j = pos + n
    · subst hj
      rw [if_neg (by omega), if_pos (by omega), get!_set!_self _ _ _ (by omega)]
      congr 1; omega
    · rw [get!_set!_ne _ _ _ _ (Ne.symm hj)]
      by_cases h1 : pos ≤ j ∧ j < pos + n
      · rw [if_pos h1, if_pos (by omega)]
      · rw [if_neg h1, if_neg (by omega)]

theorem blitAt_size (a : Words) (pos : Nat) (src : Words) : (blitAt a pos src).size = a.size :=
  blitGo_size _ _ _ _

theorem blitAt_get (a : Words) (pos : Nat) (src : Words) (j : Nat) (h : pos + src.size ≤ a.size) :
    (blitAt a pos src)[j]! = if pos ≤ j ∧ j < pos + src.size then src[j - pos]! else a[j]! :=
  blitGo_get _ _ _ _ _ h

/-! ## pages -/

theorem page_size (d : Words) (off len : Nat) (h : off + len ≤ d.size) : (page d off len).size = len := by
  unfold page; simp; omega

theorem page_get (d : Words) (off len i : Nat) (h : off + len ≤ d.size) (hi : i < len) :
    (page d off len)[i]! = d[off + i]! := by
  unfold page
  exact extract_get! d off (off + len) i (by omega) h

theorem pageOf_size {cfg : Cfg} (d : Words) (p : Nat) (h : (p + 1) * pw cfg ≤ d.size) :
    (pageOf cfg d p).size = pw cfg := by
  unfold pageOf; apply page_size
  have : (p + 1) * pw cfg = p * pw cfg + pw cfg := by rw [Nat.add_mul]; omega
  omega

theorem pageOf_get {cfg : Cfg} (d : Words) (p i : Nat) (h : (p + 1) * pw cfg ≤ d.size) (hi : i < pw cfg) :
    (pageOf cfg d p)[i]! = d[p * pw cfg + i]! := by
  unfold pageOf; apply page_get _ _ _ _ _ hi
  have : (p + 1) * pw cfg = p * pw cfg + pw cfg := by rw [Nat.add_mul]; omega
  omega

/-- two arrays of the same size with the same words are equal -/
theorem words_ext (a b : Words) (hs : a.size = b.size) (h : ∀ i, i < a.size → a[i]! = b[i]!) : a = b := by
  apply Array.ext hs
  intro i h1 h2
  have := h i h1
  simpa [getElem!_pos, h1, h2] using this

/-- the node value `Tree.node(p)` denotes -/
def refOf (cfg : Cfg) (t : St) (p : Nat) : NodeRef := .win (p * pw cfg) (pw cfg) t.epoch

/-- a window of page `p` obtained in epoch `ep` is usable in every state of that epoch -/
theorem view_win {cfg : Cfg} (t : St) (p ep : Nat) (he : ep = t.epoch) (h : (p + 1) * pw cfg ≤ t.data.size) :
    view t (.win (p * pw cfg) (pw cfg) ep) = some (pageOf cfg t.data p) := by
  have : (p + 1) * pw cfg = p * pw cfg + pw cfg := by rw [Nat.add_mul]; omega
  show (if ep = t.epoch ∧ p * pw cfg + pw cfg ≤ t.data.size then some (page t.data (p * pw cfg) (pw cfg)) else none) = _
  rw [if_pos ⟨he, by omega⟩]; rfl

theorem view_refOf {cfg : Cfg} (t : St) (p : Nat) (h : (p + 1) * pw cfg ≤ t.data.size) :
    view t (refOf cfg t p) = some (pageOf cfg t.data p) := view_win t p _ rfl h

theorem rdNode_win {cfg : Cfg} {α : Type} (t : St) (p ep : Nat) (he : ep = t.epoch)
    (h : (p + 1) * pw cfg ≤ t.data.size) (f : Words → Option α) :
    rdNode t (.win (p * pw cfg) (pw cfg) ep) f = f (pageOf cfg t.data p) := by
  unfold rdNode; rw [view_win t p ep he h]; rfl

theorem rdNode_refOf {cfg : Cfg} {α : Type} (t : St) (p : Nat) (h : (p + 1) * pw cfg ≤ t.data.size)
    (f : Words → Option α) : rdNode t (refOf cfg t p) f = f (pageOf cfg t.data p) := rdNode_win t p _ rfl h f

/-! ## `Tree.node` -/

theorem node_zero (ps mk : BitVec 64) (t : St) : node ps mk t 0#64 = some NodeRef.nil := by
  unfold node; simp

theorem node_w {cfg : Cfg} (hc : CfgFlat cfg) (t : St) (p : Nat) (hp : 0 < p)
    (hfit : (p + 1) * pw cfg ≤ t.data.size) (hsmall : t.data.size < 2 ^ 40) :
    node (w cfg.pageSize) (w cfg.maxKeys) t (w p) = some (refOf cfg t p) := by
  have hpw := hc.pw_lt
  have hpos := pw_pos cfg
  have e1 : (p + 1) * pw cfg = p * pw cfg + pw cfg := by rw [Nat.add_mul]; omega
  have hpl : p * pw cfg < 2 ^ 40 := by omega
  have hplt : p < 2 ^ 40 := by
    rcases Nat.lt_or_ge p (2 ^ 40) with h | h
    · exact h
    · have : 2 ^ 40 * 1 ≤ p * pw cfg := Nat.mul_le_mul h hpos
      omega
  unfold node
  have hne : (w p == 0#64) = false := by
    have := w_beq (a := p) (b := 0) (by omega) (by omega)
    simp only [w] at this ⊢
    rw [this]; simp; omega
  rw [hne]
  simp only [Bool.false_eq_true, if_false]
  have hmul : w cfg.pageSize * w p = w (8 * (p * pw cfg)) := by
    rw [hc.ps_eq]; simp only [w, ← BitVec.ofNat_mul]; congr 1
    rw [Nat.mul_assoc, Nat.mul_comm (pw cfg) p]
  have hadd : w (8 * (p * pw cfg)) + w cfg.pageSize = w (8 * ((p + 1) * pw cfg)) := by
    rw [hc.ps_eq, w_add]; congr 1; rw [e1]; omega
  rw [hmul, hadd]
  unfold Gen.TreeM.getNode
  have b1 : 8 * (p * pw cfg) < 2 ^ 63 := by omega
  have b2 : 8 * ((p + 1) * pw cfg) < 2 ^ 63 := by omega
  rw [w_toInt b1, w_toInt b2, w_toNat (by omega), w_toNat (by omega)]
  rw [if_pos (by refine ⟨by omega, by omega, by omega⟩)]
  have hne2 : w (8 * (p * pw cfg)) ≠ w (8 * ((p + 1) * pw cfg)) := by
    intro e
    have := w_inj (by omega) (by omega) e
    omega
  rw [if_neg hne2, if_pos (by omega)]
  unfold refOf
  rw [e1]
  show some _ = _
  congr 2 <;> omega

end RV.TreeFlat
