import RV.Proofs.CacheAcctCount
import RV.Proofs.CacheAcctRun
/-!
# Counting `Hits + Misses` and `SetsDropped` across `Clear` (for C17 after Clear)

`CacheAcctCount.lean` relates the counters to the log only for `ClearFree` histories.  Here the
counting is restarted at the model step that resets the metrics (`stClrMetrics`, the model's
`Metrics.Clear`), for runs with any number of `Clear`s / `Close`s and any overlap.

* classifiers of the step an action takes in a state: `isMetClear` (a client at `.clrMetrics _`),
  `isRestartStep` (a client at `.clrRestart _`: the step that logs `clearRet`), `isGetMetric`
  (a client at `.getMetric ..`: adds hit/miss and logs `getRet`), `isNewDrop` (a client at
  `.setRetDrop i` with a new item: adds `dropSets`, logs `drop` and `setRet false`);
* `Fx cfg s a s'`: the effect of one step on the two counters, the log, the "nobody closes"
  condition and the window `[Metrics.Clear, clearRet)`; `step_fx` proves it for every step
  (the only case analysis over all step kinds in this development);
* `segCounts`: the step-indexed counters (reset at `isMetClear`);
* `winRun`: the window flag and the "window is quiet" flag along a run; `Win`: the invariant
  relating the counters to the part of the log after the last `clearRet`.
-/
namespace RV.Cache
open RV Gen.Cache

/-! ### events, pcs, step classifiers -/

def Ev.isClearRet : Ev → Bool | .clearRet _ => true | _ => false
def Ev.isCloseCall : Ev → Bool | .closeCall _ => true | _ => false
/-- events the segment reading of the log looks at -/
def Ev.seg (e : Ev) : Bool := e.isGetRet || e.isDrop || e.isClearRet

/-- `Close` was never called -/
def NoClose (l : List Ev) : Prop := ∀ e ∈ l, e.isCloseCall = false

/-- the events newer than the last `clearRet` (the log is newest first); the whole log if no
`Clear` has returned yet -/
def sinceClearRet (log : List Ev) : List Ev := log.takeWhile (fun e => !e.isClearRet)

/-- the client is between `Metrics.Clear` and the restart of the applier (for `Clear`: its return) -/
def CPc.isRestart : CPc → Bool | .clrRestart _ => true | _ => false

/-- the client runs `Close` -/
def CPc.isClosing : CPc → Bool
  | .clrStart c => c | .clrStop c => c | .clrDone c => c | .clrDrain c => c | .clrPolicy c => c
  | .clrShard c _ => c | .clrEm c => c | .clrMetrics c => c | .clrRestart c => c
  | .clsStop => true | .clsDone => true | .clsFinish => true | _ => false

def CPc.cls3 (pc : CPc) : Bool × Bool := (pc.isRestart, pc.isClosing)

@[simp] theorem unblockedPc_cls3 (pc : CPc) : (unblockedPc pc).cls3 = pc.cls3 := by cases pc <;> rfl

/-- the step of `a` in `s` is `Metrics.Clear` (of a `Clear` or of a `Close`) -/
def isMetClear (s : State) : Action → Bool
  | .client t _ => match s.cl t with | .clrMetrics _ => true | _ => false
  | _ => false

/-- the step of `a` in `s` is the last step of `Clear` (restart the applier, log `clearRet`) -/
def isRestartStep (s : State) : Action → Bool
  | .client t _ => (s.cl t).isRestart
  | _ => false

/-- the step of `a` in `s` is the metric step of a `Get` (hit or miss; logs `getRet`) -/
def isGetMetric (s : State) : Action → Bool
  | .client t _ => match s.cl t with | .getMetric .. => true | _ => false
  | _ => false

/-- the step of `a` in `s` refuses a new item because the write buffer is full -/
def isNewDrop (s : State) : Action → Bool
  | .client t _ => match s.cl t with | .setRetDrop i => !dropIsUpdate i.flag.code | _ => false
  | _ => false

theorem kind_cases (s : State) (a : Action) :
    (isMetClear s a = false ∧ isRestartStep s a = false ∧ isGetMetric s a = false ∧ isNewDrop s a = false) ∨
    (isMetClear s a = true ∧ isRestartStep s a = false ∧ isGetMetric s a = false ∧ isNewDrop s a = false) ∨
    (isMetClear s a = false ∧ isRestartStep s a = true ∧ isGetMetric s a = false ∧ isNewDrop s a = false) ∨
    (isMetClear s a = false ∧ isRestartStep s a = false ∧ isGetMetric s a = true ∧ isNewDrop s a = false) ∨
    (isMetClear s a = false ∧ isRestartStep s a = false ∧ isGetMetric s a = false ∧ isNewDrop s a = true) := by
  cases a with
  | client t ch =>
    simp only [isMetClear, isRestartStep, isGetMetric, isNewDrop]
    cases s.cl t <;> simp [CPc.isRestart]
  | _ => exact Or.inl ⟨rfl, rfl, rfl, rfl⟩

/-- `(Hits + Misses, SetsDropped)` -/
def hmd (s : State) : BitVec 64 × BitVec 64 := (s.met.hit + s.met.miss, s.met.dropSets)

def Met.hmd3 (m : Met) : BitVec 64 × BitVec 64 × BitVec 64 := (m.hit, m.miss, m.dropSets)

theorem hmd3_of_cnt {m m' : Met} (h : m'.cnt = m.cnt) : m'.hmd3 = m.hmd3 := by
  simp only [Met.cnt, Prod.mk.injEq] at h
  simp only [Met.hmd3, Prod.mk.injEq]
  exact ⟨h.1, h.2.1, h.2.2.1⟩

theorem hmd_of_hmd3 {s s' : State} (h : s'.met.hmd3 = s.met.hmd3) : hmd s' = hmd s := by
  simp only [Met.hmd3, Prod.mk.injEq] at h
  simp only [hmd, h.1, h.2.1, h.2.2]

/-- the cache is open and nobody runs `Close` -/
def Open (s : State) : Prop := s.closed = false ∧ ∀ t, (s.cl t).isClosing = false

/-! ### the log -/

/-- the step appended only events the segment reading does not look at -/
def SegQuiet (s s' : State) : Prop := ∃ evs, s'.log = evs ++ s.log ∧ ∀ e ∈ evs, e.seg = false

theorem seg_isGetRet {e : Ev} (h : e.seg = false) : e.isGetRet = false := by
  simp only [Ev.seg, Bool.or_eq_false_iff] at h; exact h.1.1
theorem seg_isDrop {e : Ev} (h : e.seg = false) : e.isDrop = false := by
  simp only [Ev.seg, Bool.or_eq_false_iff] at h; exact h.1.2
theorem seg_isClearRet {e : Ev} (h : e.seg = false) : e.isClearRet = false := by
  simp only [Ev.seg, Bool.or_eq_false_iff] at h; exact h.2

theorem sinceClearRet_clearRet (t : Tid) (l : List Ev) : sinceClearRet (.clearRet t :: l) = [] := by
  simp [sinceClearRet, Ev.isClearRet]

theorem sinceClearRet_cons {e : Ev} (h : e.isClearRet = false) (l : List Ev) :
    sinceClearRet (e :: l) = e :: sinceClearRet l := by
  simp [sinceClearRet, h]

theorem sinceClearRet_append {evs : List Ev} (h : ∀ e ∈ evs, e.isClearRet = false) (l : List Ev) :
    sinceClearRet (evs ++ l) = evs ++ sinceClearRet l := by
  induction evs with
  | nil => rfl
  | cons e rest ih =>
    rw [List.cons_append, sinceClearRet_cons (h e List.mem_cons_self),
      ih (fun x hx => h x (List.mem_cons_of_mem _ hx))]
    rfl

theorem countP_zero_of {evs : List Ev} {f : Ev → Bool} (h : ∀ e ∈ evs, f e = false) : evs.countP f = 0 := by
  rw [List.countP_eq_zero]
  intro e he hf
  rw [h e he] at hf; cases hf

/-- close a goal `SegQuiet s s'` when `s'.log` is syntactically `s.log` with 0–2 quiet events in front -/
macro "seg_quiet" : tactic => `(tactic| first
  | exact ⟨[], rfl, fun _ h => by cases h⟩
  | exact ⟨[_], rfl, by simp [Ev.seg, Ev.isGetRet, Ev.isDrop, Ev.isClearRet]⟩
  | exact ⟨[_, _], rfl, by simp [Ev.seg, Ev.isGetRet, Ev.isDrop, Ev.isClearRet]⟩)

theorem segQuiet_of_eq {s s' : State} (h : s'.log = s.log) : SegQuiet s s' :=
  ⟨[], by simp [h], fun _ h => by cases h⟩

theorem evictAll_segQuiet (s : State) (st : Store) (ks : List Hash) : SegQuiet s (evictAll s st ks) := by
  obtain ⟨evs, h1, h2⟩ := evictAll_log s st ks
  refine ⟨evs, h1, fun e he => ?_⟩
  rcases h2 e he with ⟨v, rfl⟩ | ⟨h, c, v, k, rfl⟩ <;> rfl

theorem noClose_of_append {evs l : List Ev} (h : NoClose (evs ++ l)) : NoClose l :=
  fun e he => h e (List.mem_append_right _ he)

/-! ### the effect of one step -/

/-- What one step does to `(Hits + Misses, SetsDropped)`, to the log, to the "open" condition and to
the set of clients inside the window. -/
structure Fx (cfg : Cfg) (s : State) (a : Action) (s' : State) : Prop where
  met : cfg.metricsOn = true → hmd s' = if isMetClear s a then (0#64, 0#64) else
      ((hmd s).1 + (if isGetMetric s a then 1#64 else 0#64), (hmd s).2 + (if isNewDrop s a then 1#64 else 0#64))
  ext : ∃ evs, s'.log = evs ++ s.log
  log : Open s →
      if isGetMetric s a then ∃ t h c r, s'.log = .getRet t h c r :: s.log
      else if isNewDrop s a then ∃ t v, s'.log = .setRet t v false :: .drop t v :: s.log
      else if isRestartStep s a then ∃ t, s'.log = .clearRet t :: s.log
      else SegQuiet s s'
  op : Open s → NoClose s'.log → Open s'
  rst : if isMetClear s a then ∃ t, (s'.cl t).isRestart = true
      else if isRestartStep s a then
        ∃ t, (s.cl t).isRestart = true ∧ (s'.cl t).isRestart = false ∧ ∀ t', t' ≠ t → s'.cl t' = s.cl t'
      else ∀ t, (s'.cl t).isRestart = (s.cl t).isRestart

/-- a step of none of the four kinds -/
theorem fx_other {cfg : Cfg} {s s' : State} {a : Action}
    (hk : isMetClear s a = false ∧ isRestartStep s a = false ∧ isGetMetric s a = false ∧ isNewDrop s a = false)
    (hm : s'.met.hmd3 = s.met.hmd3) (hext : ∃ evs, s'.log = evs ++ s.log) (hq : Open s → SegQuiet s s')
    (hrst : ∀ t, (s'.cl t).isRestart = (s.cl t).isRestart) (hop : Open s → NoClose s'.log → Open s') :
    Fx cfg s a s' := by
  obtain ⟨k1, k2, k3, k4⟩ := hk
  refine ⟨fun _ => ?_, hext, fun ho => ?_, hop, ?_⟩
  · rw [k1, k3, k4, hmd_of_hmd3 hm]; simp
  · rw [k3, k4, k2]; exact hq ho
  · rw [k1, k2]; exact hrst

/-- … that leaves `closed` and the class of every pc alone and logs only quiet events -/
theorem fx_frame {cfg : Cfg} {s s' : State} {a : Action}
    (hk : isMetClear s a = false ∧ isRestartStep s a = false ∧ isGetMetric s a = false ∧ isNewDrop s a = false)
    (hm : s'.met.hmd3 = s.met.hmd3) (hq : SegQuiet s s') (hclosed : s'.closed = s.closed)
    (hcl : ∀ t, (s'.cl t).cls3 = (s.cl t).cls3) : Fx cfg s a s' := by
  refine fx_other hk hm ?_ (fun _ => hq) (fun t => congrArg Prod.fst (hcl t)) ?_
  · obtain ⟨evs, h, _⟩ := hq; exact ⟨evs, h⟩
  · intro ho _
    exact ⟨by rw [hclosed]; exact ho.1, fun t => by rw [show (s'.cl t).isClosing = (s.cl t).isClosing from congrArg Prod.snd (hcl t)]; exact ho.2 t⟩

/-- … taken while the cache is closed or somebody runs `Close` -/
theorem fx_notopen {cfg : Cfg} {s s' : State} {a : Action}
    (hk : isMetClear s a = false ∧ isRestartStep s a = false ∧ isGetMetric s a = false ∧ isNewDrop s a = false)
    (hm : s'.met.hmd3 = s.met.hmd3) (hext : ∃ evs, s'.log = evs ++ s.log)
    (hrst : ∀ t, (s'.cl t).isRestart = (s.cl t).isRestart) (hno : ¬ Open s) : Fx cfg s a s' :=
  fx_other hk hm hext (fun ho => absurd ho hno) hrst (fun ho => absurd ho hno)

theorem open_of_cls {s s' : State} (hclosed : s'.closed = s.closed)
    (hcl : ∀ t, (s'.cl t).isClosing = (s.cl t).isClosing) (ho : Open s) : Open s' :=
  ⟨by rw [hclosed]; exact ho.1, fun t => by rw [hcl t]; exact ho.2 t⟩

theorem not_open_of_pc {s : State} {t : Tid} (h : (s.cl t).isClosing = true) : ¬ Open s := fun ho => by
  have := ho.2 t; rw [h] at this; cases this

theorem not_open_of_closed {s : State} (h : s.closed = true) : ¬ Open s := fun ho => by
  have := ho.1; rw [h] at this; cases this

open Lean in
/-- `fx_cl stX`: a client step of none of the four kinds that preserves the class of its pc -/
macro "fx_cl " f:ident : tactic => do
  let n := f.getId
  let clne := mkIdent (n.appendAfter "_cl_ne")
  let met := mkIdent (n.appendAfter "_met")
  let closed := mkIdent (n.appendAfter "_closed")
  `(tactic| (refine fx_frame (by simp [isMetClear, isRestartStep, isGetMetric, isNewDrop, CPc.isRestart, *]) (by rw [$met:ident]) ?_ (by rw [$closed:ident]) (cls_congr _ (fun _ hne => $clne (hne := hne) ..) ?_); all_goals (unfold $f; try unfold sendBlocking); all_goals (try dsimp only); all_goals (repeat' split); all_goals first | seg_quiet | simp [*, CPc.cls3, CPc.isRestart, CPc.isClosing]))

theorem fx_clientStep {cfg : Cfg} {s s' : State} {t : Tid} {ch : Choice}
    (hs : clientStep cfg s t ch = some s') : Fx cfg s (.client t ch) s' := by
  apply clientStep_cases hs (motive := Fx cfg s (.client t ch))
  case setStart => intros; fx_cl stSetStart
  case setUpd => intros; fx_cl stSetUpd
  case setExit => intros; fx_cl stSetExit
  case setSend => intros; fx_cl stSetSend
  case setRetTrue => intros; fx_cl stSetRetTrue
  case delStart => intros; fx_cl stDelStart
  case delExit => intros; fx_cl stDelExit
  case delSend => intros; fx_cl stDelSend
  case delSent => intros; fx_cl stDelSent
  case waitStart => intros; fx_cl stWaitStart
  case waitSend => intros; fx_cl stWaitSend
  case waitDone => intros; fx_cl stWaitDone
  case getRead => intros; fx_cl stGetRead
  case getCheck => intros; fx_cl stGetCheck
  case ttlRead => intros; fx_cl stTtlRead
  case ttlCheck => intros; fx_cl stTtlCheck
  case ttlExp => intros; fx_cl stTtlExp
  case ttlNow => intros; fx_cl stTtlNow
  case ttlUntil => intros; fx_cl stTtlUntil
  case iterStart => intros; fx_cl stIterStart
  case updMax => intros; fx_cl stUpdMax
  case readMax => intros; fx_cl stReadMax
  case readRem => intros; fx_cl stReadRem
  case clrPolicy => intros; fx_cl stClrPolicy
  case clrEm => intros; fx_cl stClrEm
  case waitRecv =>
    intro id hpc _ hr
    refine fx_frame (by simp [isMetClear, isRestartStep, isGetMetric, isNewDrop, CPc.isRestart, hpc])
      (by rw [stWaitRecv_met _ _ _ hr]) (segQuiet_of_eq (stWaitRecv_log _ _ _ hr)) (stWaitRecv_closed _ _ _ hr)
      (cls_congr _ (fun _ hne => stWaitRecv_cl_ne _ _ _ hr hne) ?_)
    unfold stWaitRecv at hr; split at hr
    · simp only [Option.some.injEq] at hr; subst hr; simp [hpc, CPc.cls3, CPc.isRestart, CPc.isClosing]
    · simp at hr
  case iterShard =>
    intro k n seen hpc hr
    have hk : isMetClear s (.client t ch) = false ∧ isRestartStep s (.client t ch) = false ∧
        isGetMetric s (.client t ch) = false ∧ isNewDrop s (.client t ch) = false := by
      simp [isMetClear, isRestartStep, isGetMetric, isNewDrop, CPc.isRestart, hpc]
    have hne := (stIterShard_frame hr).1
    obtain ⟨ks, _, _, _, hcase⟩ := stIterShard_cases hr
    rcases hcase with ⟨_, rfl⟩ | ⟨_, rfl⟩
    · exact fx_frame hk rfl (by seg_quiet) rfl (cls_congr _ hne (by simp [hpc, CPc.cls3, CPc.isRestart, CPc.isClosing]))
    · exact fx_frame hk rfl (by seg_quiet) rfl (cls_congr _ hne (by simp [hpc, CPc.cls3, CPc.isRestart, CPc.isClosing]))
  case getStart =>
    intro h' c hpc hr
    have hk : isMetClear s (.client t ch) = false ∧ isRestartStep s (.client t ch) = false ∧
        isGetMetric s (.client t ch) = false ∧ isNewDrop s (.client t ch) = false := by
      simp [isMetClear, isRestartStep, isGetMetric, isNewDrop, CPc.isRestart, hpc]
    have hne := (stGetStart_frame hr).1
    rcases stGetStart_cases hr with ⟨hclosed, rfl⟩ | ⟨_, rfl⟩ | ⟨_, kept, n, _, _, rfl⟩
    · exact fx_notopen hk rfl ⟨[_], rfl⟩ (cls_congr _ hne (by simp [hpc, CPc.isRestart])) (not_open_of_closed hclosed)
    · exact fx_frame hk rfl (by seg_quiet) rfl (cls_congr _ hne (by simp [hpc, CPc.cls3, CPc.isRestart, CPc.isClosing]))
    · refine fx_frame hk ?_ (segQuiet_of_eq (by simp)) (by simp)
        (cls_congr (t := t) _ (fun _ hne => by simp [setCl_cl_ne _ _ _ hne]) (by simp [hpc, CPc.cls3, CPc.isRestart, CPc.isClosing]))
      simp only [setCl_met, metAdd_met]
      cases cfg.metricsOn <;> cases kept <;> rfl
  case setRetDrop =>
    intro i hpc _
    unfold stSetRetDrop
    split
    · rename_i hu
      exact fx_frame (by simp [isMetClear, isRestartStep, isGetMetric, isNewDrop, CPc.isRestart, hpc, hu]) rfl
        (by seg_quiet) rfl
        (cls_congr (t := t) _ (fun _ hne => setCl_cl_ne _ _ _ hne) (by simp [hpc, CPc.cls3, CPc.isRestart, CPc.isClosing]))
    · rename_i hu
      have k1 : isMetClear s (.client t ch) = false := by simp [isMetClear, hpc]
      have k2 : isRestartStep s (.client t ch) = false := by simp [isRestartStep, hpc, CPc.isRestart]
      have k3 : isGetMetric s (.client t ch) = false := by simp [isGetMetric, hpc]
      have k4 : isNewDrop s (.client t ch) = true := by simpa [isNewDrop, hpc] using hu
      have hcl : ∀ t', ((setCl (metAdd cfg s fun m => { m with dropSets := m.dropSets + 1 }) t .idle).cl t').cls3 =
          (s.cl t').cls3 :=
        cls_congr (t := t) _ (fun _ hne => by simp [setCl_cl_ne _ _ _ hne]) (by simp [hpc, CPc.cls3, CPc.isRestart, CPc.isClosing])
      refine ⟨fun hon => ?_, ⟨[.setRet t i.value false, .drop t i.value], by simp⟩, fun _ => ?_, fun ho _ => ?_, ?_⟩
      · simp only [k1, k3, k4, Bool.false_eq_true, ↓reduceIte]
        simp [hmd, metAdd_met, hon]
      · simp only [k3, k4, Bool.false_eq_true, ↓reduceIte]
        exact ⟨t, i.value, by simp⟩
      · exact open_of_cls (by simp) (fun t' => congrArg Prod.snd (hcl t')) ho
      · simp only [k1, k2, Bool.false_eq_true, ↓reduceIte]
        exact fun t' => congrArg Prod.fst (hcl t')
  case getMetric =>
    intro h' c r hpc _
    have k1 : isMetClear s (.client t ch) = false := by simp [isMetClear, hpc]
    have k2 : isRestartStep s (.client t ch) = false := by simp [isRestartStep, hpc, CPc.isRestart]
    have k3 : isGetMetric s (.client t ch) = true := by simp [isGetMetric, hpc]
    have k4 : isNewDrop s (.client t ch) = false := by simp [isNewDrop, hpc]
    have hcl : ∀ t', ((stGetMetric cfg s t h' c r).cl t').cls3 = (s.cl t').cls3 :=
      cls_congr _ (fun _ hne => stGetMetric_cl_ne (hne := hne) ..) (by simp [stGetMetric, hpc, CPc.cls3, CPc.isRestart, CPc.isClosing])
    refine ⟨fun hon => ?_, ⟨[.getRet t h' c r], by simp [stGetMetric]⟩, fun _ => ?_, fun ho _ => ?_, ?_⟩
    · simp only [k1, k3, k4, Bool.false_eq_true, ↓reduceIte]
      simp only [hmd, stGetMetric, logEv_met, setCl_met, metAdd_met, hon, ↓reduceIte, BitVec.add_zero, Prod.mk.injEq]
      constructor
      · split
        · show s.met.hit + 1 + s.met.miss = _; grind
        · show s.met.hit + (s.met.miss + 1) = _; grind
      · split <;> rfl
    · simp only [k3, ↓reduceIte]
      exact ⟨t, h', c, r, by simp [stGetMetric]⟩
    · exact open_of_cls (by simp) (fun t' => congrArg Prod.snd (hcl t')) ho
    · simp only [k1, k2, Bool.false_eq_true, ↓reduceIte]
      exact fun t' => congrArg Prod.fst (hcl t')
  case clrStart =>
    intro closing hpc _
    have hk : isMetClear s (.client t ch) = false ∧ isRestartStep s (.client t ch) = false ∧
        isGetMetric s (.client t ch) = false ∧ isNewDrop s (.client t ch) = false := by
      simp [isMetClear, isRestartStep, isGetMetric, isNewDrop, CPc.isRestart, hpc]
    cases hc : s.closed
    · have e : stClrStart s t closing = setCl s t (.clrStop closing) := by simp [stClrStart, hc]
      rw [e]
      exact fx_frame hk rfl (by seg_quiet) rfl
        (cls_congr (t := t) _ (fun _ hne => setCl_cl_ne _ _ _ hne) (by simp [hpc, CPc.cls3, CPc.isRestart, CPc.isClosing]))
    · refine fx_notopen hk (by rw [stClrStart_met]) ?_
        (cls_congr _ (fun _ hne => stClrStart_cl_ne (hne := hne) ..) ?_) (not_open_of_closed hc)
      · unfold stClrStart; rw [if_pos hc]; exact ⟨[_], rfl⟩
      · simp [stClrStart, hc, hpc, CPc.isRestart]
  case clrDrain =>
    intro closing hpc _
    have hk : isMetClear s (.client t ch) = false ∧ isRestartStep s (.client t ch) = false ∧
        isGetMetric s (.client t ch) = false ∧ isNewDrop s (.client t ch) = false := by
      simp [isMetClear, isRestartStep, isGetMetric, isNewDrop, CPc.isRestart, hpc]
    rcases stClrDrain_cases s t closing with ⟨_, e⟩ | ⟨id, s1, hr, e⟩ | ⟨i, s1, hr, _, e⟩ | ⟨i, s1, hr, _, e⟩ <;> rw [e]
    · exact fx_frame hk rfl (by seg_quiet) rfl
        (cls_congr (t := t) _ (fun _ hne => setCl_cl_ne _ _ _ hne) (by simp [hpc, CPc.cls3, CPc.isRestart, CPc.isClosing]))
    · exact fx_frame hk (by simp [recvBuf_met hr]) (segQuiet_of_eq (by simp [recvBuf_log hr])) (by simp [recvBuf_closed hr])
        (cls_recv (s1 := s1) _ unblockedPc_cls3 hr)
    · refine fx_frame hk (by simp [recvBuf_met hr])
        ⟨[_, _], by simp [recvBuf_log hr]; exact ⟨rfl, rfl⟩, by simp [Ev.seg, Ev.isGetRet, Ev.isDrop, Ev.isClearRet]⟩
        (by simp [recvBuf_closed hr]) (by simpa using cls_recv (s1 := s1) _ unblockedPc_cls3 hr)
    · exact fx_frame hk (by rw [recvBuf_met hr]) (segQuiet_of_eq (recvBuf_log hr)) (recvBuf_closed hr)
        (cls_recv (s1 := s1) _ unblockedPc_cls3 hr)
  case clrShard =>
    intro closing k hpc hr
    have hk : isMetClear s (.client t ch) = false ∧ isRestartStep s (.client t ch) = false ∧
        isGetMetric s (.client t ch) = false ∧ isNewDrop s (.client t ch) = false := by
      simp [isMetClear, isRestartStep, isGetMetric, isNewDrop, CPc.isRestart, hpc]
    obtain ⟨ks, _, _, _, rfl⟩ := stClrShard_cases hr
    refine fx_frame hk (by simp [evictAll_met]) ?_ (by simp [evictAll_closed])
      (cls_congr (t := t) _ (fun _ hne => by simp [setCl_cl_ne _ _ _ hne, evictAll_cl]) ?_)
    · obtain ⟨evs, h1, h2⟩ := evictAll_segQuiet s s.store ks
      exact ⟨evs, by simpa using h1, h2⟩
    · simp only [setCl_cl_self, hpc]; split <;> rfl
  case clrMetrics =>
    intro closing hpc _
    have k1 : isMetClear s (.client t ch) = true := by simp [isMetClear, hpc]
    have k2 : isRestartStep s (.client t ch) = false := by simp [isRestartStep, hpc, CPc.isRestart]
    have k3 : isGetMetric s (.client t ch) = false := by simp [isGetMetric, hpc]
    have k4 : isNewDrop s (.client t ch) = false := by simp [isNewDrop, hpc]
    refine ⟨fun hon => ?_, ⟨[], by simp⟩, fun _ => ?_, fun ho _ => ?_, ?_⟩
    · simp only [k1, ↓reduceIte]
      simp only [hmd, stClrMetrics, hon, ↓reduceIte, setCl_met]
      rfl
    · simp only [k2, k3, k4, Bool.false_eq_true, ↓reduceIte]
      exact segQuiet_of_eq (stClrMetrics_log ..)
    · exact open_of_cls (stClrMetrics_closed ..)
        (cls_congr _ (fun _ hne => stClrMetrics_cl_ne (hne := hne) ..) (by unfold stClrMetrics; split <;> simp [hpc, CPc.isClosing])) ho
    · simp only [k1, ↓reduceIte]
      exact ⟨t, by unfold stClrMetrics; split <;> simp [CPc.isRestart]⟩
  case clrRestart =>
    intro closing hpc _
    have k1 : isMetClear s (.client t ch) = false := by simp [isMetClear, hpc]
    have k2 : isRestartStep s (.client t ch) = true := by simp [isRestartStep, hpc, CPc.isRestart]
    have k3 : isGetMetric s (.client t ch) = false := by simp [isGetMetric, hpc]
    have k4 : isNewDrop s (.client t ch) = false := by simp [isNewDrop, hpc]
    have hcf : Open s → closing = false := fun ho => by have := ho.2 t; rw [hpc] at this; exact this
    refine ⟨fun _ => ?_, ?_, fun ho => ?_, fun ho _ => ?_, ?_⟩
    · simp only [k1, k3, k4, Bool.false_eq_true, ↓reduceIte]
      simp [hmd]
    · unfold stClrRestart; dsimp only; split
      · exact ⟨[], rfl⟩
      · exact ⟨[_], rfl⟩
    · simp only [k2, k3, k4, Bool.false_eq_true, ↓reduceIte]
      have := hcf ho; subst this
      exact ⟨t, by simp [stClrRestart]⟩
    · have := hcf ho; subst this
      exact open_of_cls (stClrRestart_closed ..)
        (cls_congr _ (fun _ hne => stClrRestart_cl_ne (hne := hne) ..) (by simp [stClrRestart, hpc, CPc.isClosing])) ho
    · simp only [k1, k2, Bool.false_eq_true, ↓reduceIte]
      exact ⟨t, by simp [hpc, CPc.isRestart], by unfold stClrRestart; dsimp only; split <;> simp [CPc.isRestart],
        fun t' hne => stClrRestart_cl_ne (hne := hne) ..⟩
  case clsFinish =>
    intro hpc _
    exact fx_notopen (by simp [isMetClear, isRestartStep, isGetMetric, isNewDrop, CPc.isRestart, hpc])
      (by rw [stClsFinish_met]) ⟨[.closeRet t], by simp [stClsFinish]⟩
      (cls_congr _ (fun _ hne => stClsFinish_cl_ne (hne := hne) ..) (by simp [stClsFinish, hpc, CPc.isRestart]))
      (not_open_of_pc (t := t) (by simp [hpc, CPc.isClosing]))

theorem fx_applierStep {cfg : Cfg} {s s' : State} {ch : Choice}
    (hs : applierStep cfg s ch = some s') : Fx cfg s (.applier ch) s' := by
  have hk : isMetClear s (.applier ch) = false ∧ isRestartStep s (.applier ch) = false ∧
      isGetMetric s (.applier ch) = false ∧ isNewDrop s (.applier ch) = false := ⟨rfl, rfl, rfl, rfl⟩
  apply applierStep_cases hs (motive := Fx cfg s (.applier ch))
  case idle =>
    intro hpc hr
    rcases apIdle_cases hr with ⟨id, s1, _, hrecv, rfl⟩ | ⟨i, s1, _, hrecv, rfl⟩ | ⟨_, rfl⟩ | ⟨t, _, hstop⟩
    · exact fx_frame hk (by simp [recvBuf_met hrecv]) (segQuiet_of_eq (recvBuf_log (s1 := s1) hrecv))
        (recvBuf_closed (s1 := s1) hrecv) (cls_recv (s1 := s1) _ unblockedPc_cls3 hrecv)
    · exact fx_frame hk (by simp [recvBuf_met hrecv]) (segQuiet_of_eq (recvBuf_log (s1 := s1) hrecv))
        (recvBuf_closed (s1 := s1) hrecv) (cls_recv (s1 := s1) _ unblockedPc_cls3 hrecv)
    · exact fx_frame hk rfl (by seg_quiet) rfl (fun _ => rfl)
    · rcases apSelStop_cases hstop with ⟨closing, hpc', rfl⟩ | ⟨hpc', rfl⟩
      · exact fx_frame hk rfl (by seg_quiet) rfl
          (cls_congr (t := t) _ (fun _ hne => setCl_cl_ne _ _ _ hne) (by simp [hpc', CPc.cls3, CPc.isRestart, CPc.isClosing]))
      · exact fx_frame hk rfl (by seg_quiet) rfl
          (cls_congr (t := t) _ (fun _ hne => setCl_cl_ne _ _ _ hne) (by simp [hpc', CPc.cls3, CPc.isRestart, CPc.isClosing]))
  case marker => intro id hpc _; exact fx_frame hk rfl (by seg_quiet) rfl (fun _ => rfl)
  case item => intro i hpc _; exact fx_frame hk rfl (by seg_quiet) rfl (fun _ => rfl)
  case costed =>
    intro i hpc hr
    rcases apCosted_cases hr with ⟨victims, added, pm, _, _, hp, rfl⟩ | ⟨_, _, rfl⟩ | ⟨_, _, rfl⟩
    · exact fx_frame hk (hmd3_of_cnt (polAdd_cnt hp)) (by seg_quiet) rfl (fun _ => rfl)
    · exact fx_frame hk (hmd3_of_cnt (polUpdate_cnt ..)) (by seg_quiet) rfl (fun _ => rfl)
    · exact fx_frame hk (hmd3_of_cnt (polDel_cnt ..)) (by seg_quiet) rfl (fun _ => rfl)
  case added =>
    intro i victims ok hpc _
    refine fx_frame hk ?_ ?_ (apAdded_closed ..) (fun _ => by rw [apAdded_cl])
    · unfold apAdded; split
      · simp only [metAdd_met]; split <;> rfl
      · rfl
    · unfold apAdded; split
      · exact segQuiet_of_eq (by simp)
      · seg_quiet
  case victims =>
    intro vs hpc _ hr
    obtain ⟨h', cost, rest, _, rfl⟩ := apVictims_cases hr
    exact fx_frame hk rfl (by seg_quiet) rfl (fun _ => rfl)
  case victimEvict =>
    intro h' cost c v rest hpc _
    exact fx_frame hk rfl (by unfold apVictimEvict; seg_quiet) rfl (fun _ => rfl)
  case tombPolicy => intro i hpc _; exact fx_frame hk rfl (by seg_quiet) rfl (fun _ => rfl)
  case tombStore => intro v hpc _; exact fx_frame hk rfl (by unfold apTombStore; seg_quiet) rfl (fun _ => rfl)
  case tick => intro hpc _; exact fx_frame hk rfl (by seg_quiet) rfl (fun _ => rfl)
  case sweep =>
    intro now bs hpc hr
    rcases apSweep_cases hr with ⟨_, rfl⟩ | ⟨b, rest, k, c, _, _, rfl⟩
    · exact fx_frame hk rfl (by seg_quiet) rfl (fun _ => rfl)
    · exact fx_frame hk rfl (by seg_quiet) rfl (fun _ => rfl)
  case swKey =>
    intro now k c bs hpc _
    exact fx_frame hk (by rw [apSwKey_met]) (segQuiet_of_eq (apSwKey_log ..)) (apSwKey_closed ..)
      (fun _ => by rw [apSwKey_cl])
  case swStoreDel =>
    intro now k c expr v bs hpc _
    exact fx_frame hk (hmd3_of_cnt (polDel_cnt ..)) (by seg_quiet) rfl (fun _ => rfl)
  case swPolDel =>
    intro now k c expr cost v bs hpc _
    exact fx_frame hk rfl (by unfold apSwPolDel; seg_quiet) rfl (fun _ => rfl)

theorem fx_spawnStep {s s' : State} {t : Tid} {c : Call} (cfg : Cfg)
    (hs : spawnStep s t c = some s') : Fx cfg s (.spawn t c) s' := by
  have hk : isMetClear s (.spawn t c) = false ∧ isRestartStep s (.spawn t c) = false ∧
      isGetMetric s (.spawn t c) = false ∧ isNewDrop s (.spawn t c) = false := ⟨rfl, rfl, rfl, rfl⟩
  have hidle := spawnStep_idle hs
  have hne : ∀ t', t' ≠ t → s'.cl t' = s.cl t' := fun _ hne => spawnStep_cl_ne _ _ _ hs hne
  have hmet := spawnStep_met _ _ _ hs
  have hclosed := spawnStep_closed _ _ _ hs
  unfold spawnStep at hs; rw [hidle] at hs; dsimp only at hs
  have quiet : ∀ pc e, pc.cls3 = (false, false) → e.seg = false → s' = logEv (setCl s t pc) e → Fx cfg s (.spawn t c) s' := by
    intro pc e hpc he hs'
    exact fx_frame hk (by rw [hmet]) ⟨[e], by rw [hs']; rfl, by simpa using he⟩ hclosed
      (cls_congr _ hne (by rw [hs', hidle]; simp only [logEv_cl, setCl_cl_self]; exact hpc))
  have quiet0 : ∀ pc, pc.cls3 = (false, false) → s' = setCl s t pc → Fx cfg s (.spawn t c) s' := by
    intro pc hpc hs'
    exact fx_frame hk (by rw [hmet]) (segQuiet_of_eq (by rw [hs']; rfl)) hclosed
      (cls_congr _ hne (by rw [hs', hidle]; simp only [setCl_cl_self]; exact hpc))
  split at hs <;> simp only [Option.some.injEq] at hs
  · exact quiet _ _ rfl rfl hs.symm
  · exact quiet _ _ rfl rfl hs.symm
  · exact quiet _ _ rfl rfl hs.symm
  · exact quiet _ _ rfl rfl hs.symm
  · exact quiet _ _ rfl rfl hs.symm
  · exact quiet _ _ rfl rfl hs.symm
  · -- Close: the log now contains `closeCall`
    subst hs
    refine fx_other hk rfl ⟨[.closeCall t], rfl⟩ (fun _ => by seg_quiet)
      (cls_congr (t := t) _ (fun _ hne => by simp [setCl_cl_ne _ _ _ hne]) (by simp [hidle, CPc.isRestart])) ?_
    intro _ hnc
    have := hnc (.closeCall t) (by simp)
    cases this
  · exact quiet _ _ rfl rfl hs.symm
  · exact quiet0 _ rfl hs.symm
  · exact quiet0 _ rfl hs.symm
  · exact quiet0 _ rfl hs.symm

/-- **The effect of every step** on the counters, the log and the window. -/
theorem step_fx {cfg : Cfg} {s s' : State} {a : Action} (hs : step cfg s a = some s') : Fx cfg s a s' := by
  cases a with
  | spawn t c => exact fx_spawnStep cfg hs
  | client t ch => exact fx_clientStep hs
  | applier ch => exact fx_applierStep hs
  | done t =>
    have hs' : doneStep s t = some s' := hs
    obtain ⟨_, hcase⟩ := doneStep_cases hs'
    rcases hcase with ⟨closing, hpc, rfl⟩ | ⟨hpc, rfl⟩
    · exact fx_frame ⟨rfl, rfl, rfl, rfl⟩ rfl (by seg_quiet) rfl
        (cls_congr (t := t) _ (fun _ hne => setCl_cl_ne _ _ _ hne) (by simp [hpc, CPc.cls3, CPc.isRestart, CPc.isClosing]))
    · exact fx_frame ⟨rfl, rfl, rfl, rfl⟩ rfl (by seg_quiet) rfl
        (cls_congr (t := t) _ (fun _ hne => setCl_cl_ne _ _ _ hne) (by simp [hpc, CPc.cls3, CPc.isRestart, CPc.isClosing]))
  | tick d =>
    simp only [step, Option.some.injEq] at hs; subst hs
    exact fx_frame ⟨rfl, rfl, rfl, rfl⟩ rfl (by seg_quiet) rfl (fun _ => rfl)

/-- one step: `(Hits + Misses, SetsDropped)` is reset by `Metrics.Clear`, incremented by a `Get`'s metric
step resp. a refused new item, and unchanged by every other step -/
theorem step_hmd {cfg : Cfg} {s s' : State} {a : Action} (hs : step cfg s a = some s') (hon : cfg.metricsOn = true) :
    (s'.met.hit + s'.met.miss, s'.met.dropSets) =
      if isMetClear s a then (0#64, 0#64) else
        (s.met.hit + s.met.miss + (if isGetMetric s a then 1#64 else 0#64),
         s.met.dropSets + (if isNewDrop s a then 1#64 else 0#64)) :=
  (step_fx hs).met hon

end RV.Cache
