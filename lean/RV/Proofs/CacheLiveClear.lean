import RV.Proofs.CacheLiveDeadlock
/-!
# C15 (5)–(8): what `Clear` (and the `Clear` inside `Close`) establishes

Non-overlap hypothesis (`ClrInv.quiet` + "no spawn"): from the `clrDrain` phase of client `t`
on, every other client is *quiet* — idle, blocked in a send, blocked offering stop, or in the
log-only tail of `Del`/`Wait` — and no new call is spawned.  Under it the phases of `Clear`
establish, one after the other (`ClrFacts`): buffer and blocked senders drained, policy
accounting empty, store empty, expiry index empty with `lastCleaned = cleanupBucket now`,
metrics zero (when on); the restart then yields a state that equals a freshly created cache
up to `closedMarkers / nextMarker / clock / log / ringPending` (`fresh_equiv`).
-/
namespace RV.Cache
open Gen.Cache

def Action.isSpawn : Action → Bool
  | .spawn _ _ => true
  | _ => false

/-! ### small facts about shards and `eraseAll` / `evictAll` -/

theorem shardIdx_lt_live (h : Hash) : shardIdx h < numShards.toNat := by
  unfold shardIdx shardOf
  rw [BitVec.toNat_umod]
  exact Nat.mod_lt _ (by decide)

theorem recvBuf_none_iff (s : State) : recvBuf s = none ↔ s.buf = [] := by
  unfold recvBuf
  cases hb : s.buf with
  | nil => simp
  | cons x r => cases hq : s.sendq <;> simp

theorem mem_keys_eraseAll {st : Store} {ks : List Hash} {h : Hash} (hm : h ∈ AMap.keys (eraseAll st ks)) :
    h ∈ AMap.keys st ∧ h ∉ ks := by
  induction ks generalizing st with
  | nil => exact ⟨hm, by simp⟩
  | cons k rest ih =>
    have := ih (st := st.erase k) hm
    have h2 := AMap.mem_keys_erase this.1
    exact ⟨h2.1, by simp [h2.2, this.2]⟩

theorem eraseAll_lookup_not_mem {st : Store} {ks : List Hash} {h : Hash} (hn : h ∉ ks) :
    (eraseAll st ks).lookup h = st.lookup h := by
  induction ks generalizing st with
  | nil => rfl
  | cons k rest ih =>
    simp only [List.mem_cons, not_or] at hn
    unfold eraseAll
    rw [ih hn.2, AMap.lookup_erase_ne st hn.1]

theorem shardOrder_covers {st : Store} {k : Nat} {ks : List Hash} (ho : isShardOrder st k ks = true)
    {h : Hash} (hk : h ∈ AMap.keys st) (hs : shardIdx h = k) : h ∈ ks := by
  simp only [isShardOrder, Bool.and_eq_true, List.all_eq_true] at ho
  have := ho.2 h (by simp [shardKeys, hk, hs])
  simpa using this

theorem keys_eq_nil {m : Store} (h : AMap.keys m = []) : m = AMap.empty := by
  unfold AMap.keys at h
  exact List.map_eq_nil_iff.mp h

theorem unblockedPc_quiet (pc : CPc) (h : pc.quiet = true) : (unblockedPc pc).quiet = true := by
  cases pc <;> first | exact h | rfl

/-! ### the phase facts -/

def ClrFactsF (cfg : Cfg) (buf : List BufElem) (sendq : List (Tid × BufElem)) (pol : Pol) (store : Store)
    (em : Em) (met : Met) : CPc → Prop
  | .clrDrain _ => True
  | .clrPolicy _ => buf = [] ∧ sendq = []
  | .clrShard _ k => buf = [] ∧ sendq = [] ∧ pol.costs = AMap.empty ∧ pol.used = 0 ∧
      ∀ h ∈ AMap.keys store, k ≤ shardIdx h
  | .clrEm _ => buf = [] ∧ sendq = [] ∧ pol.costs = AMap.empty ∧ pol.used = 0 ∧ store = AMap.empty
  | .clrMetrics _ => buf = [] ∧ sendq = [] ∧ pol.costs = AMap.empty ∧ pol.used = 0 ∧ store = AMap.empty ∧
      em.buckets = AMap.empty ∧ ∃ now, em.lastCleaned = cleanupOf now
  | .clrRestart _ => buf = [] ∧ sendq = [] ∧ pol.costs = AMap.empty ∧ pol.used = 0 ∧ store = AMap.empty ∧
      (em.buckets = AMap.empty ∧ ∃ now, em.lastCleaned = cleanupOf now) ∧ (cfg.metricsOn = true → met = {})
  | _ => False

/-- what the current phase of the clearing client guarantees about the shared state -/
def ClrFacts (cfg : Cfg) (s : State) (pc : CPc) : Prop :=
  ClrFactsF cfg s.buf s.sendq s.pol s.store s.em s.met pc

theorem clrFacts_congr {cfg : Cfg} {s s' : State} (hb : s'.buf = s.buf) (hq : s'.sendq = s.sendq)
    (hp : s'.pol = s.pol) (hst : s'.store = s.store) (hem : s'.em = s.em) (hm : s'.met = s.met) (pc : CPc)
    (h : ClrFacts cfg s pc) : ClrFacts cfg s' pc := by
  unfold ClrFacts at h ⊢; rw [hb, hq, hp, hst, hem, hm]; exact h

theorem clrFacts_busy {cfg : Cfg} {s : State} {pc : CPc} (h : ClrFacts cfg s pc) : pc.busy = true := by
  cases pc <;> first | rfl | exact False.elim h

structure ClrInv (cfg : Cfg) (t : Tid) (c : Bool) (m0 : Int) (s : State) : Prop where
  quiet : ∀ t', t' ≠ t → (s.cl t').quiet = true
  maxc : s.pol.maxCost = m0
  cflag : (s.cl t).closing = c
  facts : ClrFacts cfg s (s.cl t)

/-- a step of a quiet client touches only its own pc (which stays quiet) and the log -/
theorem quiet_step {cfg : Cfg} {s s' : State} {t0 : Tid} {ch : Choice} (hq : (s.cl t0).quiet = true)
    (hs : clientStep cfg s t0 ch = some s') :
    s'.store = s.store ∧ s'.em = s.em ∧ s'.pol = s.pol ∧ s'.met = s.met ∧ s'.buf = s.buf ∧
      s'.sendq = s.sendq ∧ s'.app = s.app ∧ s'.closed = s.closed ∧ s'.closedMarkers = s.closedMarkers ∧
      (∀ t', t' ≠ t0 → s'.cl t' = s.cl t') ∧ (s'.cl t0).quiet = true ∧ ∃ l, s'.log = l ++ s.log := by
  cases hpc : s.cl t0 <;> rw [hpc] at hq <;> first | cases hq | skip
  all_goals (unfold clientStep at hs; rw [hpc] at hs)
  case idle => simp at hs
  case delBlocked => simp at hs
  case waitBlocked => simp at hs
  case clrStop c =>
    simp at hs
  case delSent h =>
    obtain ⟨_, hs⟩ := needNone_some hs
    simp only [Option.some.injEq] at hs; subst hs
    exact ⟨rfl, rfl, rfl, rfl, rfl, rfl, rfl, rfl, rfl, fun t' hne => stDelSent_cl_ne s t0 h hne,
      by simp [stDelSent]; rfl, ⟨[.delRet t0 h], rfl⟩⟩
  case waitDone =>
    obtain ⟨_, hs⟩ := needNone_some hs
    simp only [Option.some.injEq] at hs; subst hs
    exact ⟨rfl, rfl, rfl, rfl, rfl, rfl, rfl, rfl, rfl, fun t' hne => stWaitDone_cl_ne s t0 hne,
      by simp [stWaitDone]; rfl, ⟨[.waitRet t0], rfl⟩⟩
  case waitRecv id =>
    obtain ⟨_, hs⟩ := needNone_some hs
    unfold stWaitRecv at hs
    split at hs
    · simp only [Option.some.injEq] at hs; subst hs
      exact ⟨rfl, rfl, rfl, rfl, rfl, rfl, rfl, rfl, rfl, fun t' hne => by simp [setCl_cl_ne _ _ _ hne],
        by simp; rfl, ⟨[], rfl⟩⟩
    · simp at hs

/-- one step of the system while `t` clears un-overlapped -/
theorem clr_step {cfg : Cfg} {s s' : State} {a : Action} {t : Tid} {c : Bool} {m0 : Int}
    (hr : Reach cfg s) (hcap : 1 ≤ cfg.bufCap) (hi : ClrInv cfg t c m0 s) (ha : a.isSpawn = false)
    (hs : step cfg s a = some s') :
    ClrInv cfg t c m0 s' ∨ (s.cl t = .clrRestart c ∧ s' = stClrRestart s t c) := by
  have hh := handshake_reach hr
  have hl := live_reach (cfg := cfg) hr
  have hbusy := clrFacts_busy hi.facts
  have hdead : s.app = .dead := hh.busy t hbusy
  cases a with
  | spawn t0 c0 => simp [Action.isSpawn] at ha
  | tick d =>
    simp only [step, Option.some.injEq] at hs; subst hs
    exact Or.inl ⟨hi.quiet, hi.maxc, hi.cflag, clrFacts_congr rfl rfl rfl rfl rfl rfl _ hi.facts⟩
  | done t0 =>
    have hs' : doneStep s t0 = some s' := hs
    have := (done_shape hs').1
    rw [hdead] at this; cases this
  | applier ch =>
    have hs' : applierStep cfg s ch = some s' := hs
    unfold applierStep at hs'; rw [hdead] at hs'; simp at hs'
  | client t0 ch =>
    have hs' : clientStep cfg s t0 ch = some s' := hs
    by_cases ht : t0 = t
    · subst ht
      have hf := hi.facts
      have hcf := hi.cflag
      cases hpc : s.cl t0 <;> rw [hpc] at hf hcf <;> first | exact False.elim hf | skip
      all_goals (unfold clientStep at hs'; rw [hpc] at hs'; dsimp only at hs')
      case clrDrain c' =>
        have hcc : c' = c := hcf
        subst hcc
        obtain ⟨_, hs'⟩ := needNone_some hs'
        simp only [Option.some.injEq] at hs'; subst hs'
        left
        rcases drain_shape s t0 c' with ⟨hnone, he⟩ | ⟨x, s1, hrecv, hcl, hbuf, hq, _, _, _, hst, hem, hpol, hmet, _, _⟩
        · rw [he]
          have hbe : s.buf = [] := (recvBuf_none_iff s).mp hnone
          have hqe : s.sendq = [] := by
            cases hsq : s.sendq with
            | nil => rfl
            | cons p q =>
              have := hl.full (by rw [hsq]; simp)
              rw [hbe] at this; simp at this; omega
          refine ⟨fun t' hne => by rw [setCl_cl_ne _ _ _ hne]; exact hi.quiet t' hne, hi.maxc, by simp; rfl, ?_⟩
          simp only [setCl_cl_self]
          exact ⟨hbe, hqe⟩
        · have hself : (stClrDrain s t0 c').cl t0 = .clrDrain c' := by
            rw [hcl]
            rcases recvBuf_cl hrecv t0 with e | e <;> rw [e, hpc] <;> rfl
          refine ⟨fun t' hne => ?_, by rw [hpol]; exact hi.maxc, by rw [hself]; rfl, by rw [hself]; trivial⟩
          rw [hcl]
          rcases recvBuf_cl hrecv t' with e | e <;> rw [e]
          · exact hi.quiet t' hne
          · exact unblockedPc_quiet _ (hi.quiet t' hne)
      case clrPolicy c' =>
        have hcc : c' = c := hcf
        subst hcc
        obtain ⟨_, hs'⟩ := needNone_some hs'
        simp only [Option.some.injEq] at hs'; subst hs'
        left
        have hf' : s.buf = [] ∧ s.sendq = [] := hf
        refine ⟨fun t' hne => by rw [stClrPolicy_cl_ne s t0 c' hne]; exact hi.quiet t' hne, hi.maxc,
          by simp [stClrPolicy]; rfl, ?_⟩
        simp only [stClrPolicy, setCl_cl_self]
        exact ⟨hf'.1, hf'.2, rfl, rfl, fun h _ => Nat.zero_le _⟩
      case clrShard c' k =>
        have hcc : c' = c := hcf
        subst hcc
        have hf' : s.buf = [] ∧ s.sendq = [] ∧ s.pol.costs = AMap.empty ∧ s.pol.used = 0 ∧
            ∀ h ∈ AMap.keys s.store, k ≤ shardIdx h := hf
        unfold stClrShard at hs'
        split at hs'
        · rename_i ks
          split at hs'
          · simp at hs'
          · split at hs'
            · simp at hs'
            · rename_i hord
              simp only [Option.some.injEq] at hs'; subst hs'
              left
              have hord' : isShardOrder s.store k ks = true := by simpa using hord
              have hkeys : ∀ h ∈ AMap.keys (eraseAll (evictAll s s.store ks).store ks), k + 1 ≤ shardIdx h := by
                intro h hm
                rw [evictAll_store_lv] at hm
                obtain ⟨h1, h2⟩ := mem_keys_eraseAll hm
                have h3 := hf'.2.2.2.2 h h1
                have h4 : shardIdx h ≠ k := fun e => h2 (shardOrder_covers hord' h1 e)
                omega
              refine ⟨fun t' hne => by simp [setCl_cl_ne _ _ _ hne, evictAll_cl]; exact hi.quiet t' hne,
                by simp [evictAll_pol_lv]; exact hi.maxc, by simp only [setCl_cl_self]; split <;> rfl, ?_⟩
              simp only [setCl_cl_self]
              split
              · rename_i hlast
                refine ⟨by simp [evictAll_buf_lv, hf'.1], by simp [evictAll_sendq_lv, hf'.2.1],
                  by simp [evictAll_pol_lv, hf'.2.2.1], by simp [evictAll_pol_lv, hf'.2.2.2.1], ?_⟩
                apply keys_eq_nil
                cases hk : AMap.keys (eraseAll (evictAll s s.store ks).store ks) with
                | nil => simpa using hk
                | cons h rest =>
                  have := hkeys h (by rw [hk]; simp)
                  have := shardIdx_lt_live h
                  omega
              · exact ⟨by simp [evictAll_buf_lv, hf'.1], by simp [evictAll_sendq_lv, hf'.2.1],
                  by simp [evictAll_pol_lv, hf'.2.2.1], by simp [evictAll_pol_lv, hf'.2.2.2.1], hkeys⟩
        · simp at hs'
      case clrEm c' =>
        have hcc : c' = c := hcf
        subst hcc
        obtain ⟨_, hs'⟩ := needNone_some hs'
        simp only [Option.some.injEq] at hs'; subst hs'
        left
        have hf' : s.buf = [] ∧ s.sendq = [] ∧ s.pol.costs = AMap.empty ∧ s.pol.used = 0 ∧
            s.store = AMap.empty := hf
        refine ⟨fun t' hne => by rw [stClrEm_cl_ne s t0 c' hne]; exact hi.quiet t' hne, hi.maxc,
          by simp [stClrEm]; rfl, ?_⟩
        simp only [stClrEm, setCl_cl_self]
        exact ⟨hf'.1, hf'.2.1, hf'.2.2.1, hf'.2.2.2.1, hf'.2.2.2.2, rfl, ⟨s.clock, rfl⟩⟩
      case clrMetrics c' =>
        have hcc : c' = c := hcf
        subst hcc
        obtain ⟨_, hs'⟩ := needNone_some hs'
        simp only [Option.some.injEq] at hs'; subst hs'
        left
        have hf' : s.buf = [] ∧ s.sendq = [] ∧ s.pol.costs = AMap.empty ∧ s.pol.used = 0 ∧
            s.store = AMap.empty ∧ s.em.buckets = AMap.empty ∧ ∃ now, s.em.lastCleaned = cleanupOf now := hf
        refine ⟨fun t' hne => by rw [stClrMetrics_cl_ne cfg s t0 c' hne]; exact hi.quiet t' hne,
          by rw [stClrMetrics_pol]; exact hi.maxc, by simp [stClrMetrics]; rfl, ?_⟩
        unfold ClrFacts
        rw [stClrMetrics_buf, stClrMetrics_sendq, stClrMetrics_pol, stClrMetrics_store, stClrMetrics_em]
        have hpc' : (stClrMetrics cfg s t0 c').cl t0 = .clrRestart c' := by simp [stClrMetrics]
        rw [hpc']
        refine ⟨hf'.1, hf'.2.1, hf'.2.2.1, hf'.2.2.2.1, hf'.2.2.2.2.1, hf'.2.2.2.2.2, fun hon => ?_⟩
        simp [stClrMetrics, hon]
      case clrRestart c' =>
        have hcc : c' = c := hcf
        subst hcc
        obtain ⟨_, hs'⟩ := needNone_some hs'
        simp only [Option.some.injEq] at hs'; subst hs'
        exact Or.inr ⟨rfl, rfl⟩
    · left
      obtain ⟨h1, h2, h3, h4, h5, h6, _, _, _, hne, hq', _⟩ := quiet_step (hi.quiet t0 ht) hs'
      have hself : s'.cl t = s.cl t := hne t (fun e => ht e.symm)
      refine ⟨fun t' hne' => ?_, by rw [h3]; exact hi.maxc, by rw [hself]; exact hi.cflag,
        by rw [hself]; exact clrFacts_congr h5 h6 h3 h1 h2 h4 _ hi.facts⟩
      by_cases e : t' = t0
      · subst e; exact hq'
      · rw [hne t' e]; exact hi.quiet t' hne'

/-! ### the state at the return of `Clear` -/

/-- the shared state of a freshly created cache (capacity = the current `MaxCost`) -/
structure FreshSt (cfg : Cfg) (s : State) : Prop where
  store : s.store = AMap.empty
  costs : s.pol.costs = AMap.empty
  used : s.pol.used = 0
  buckets : s.em.buckets = AMap.empty
  cleaned : ∃ now, s.em.lastCleaned = cleanupOf now
  met : cfg.metricsOn = true → s.met = {}
  buf : s.buf = []
  sendq : s.sendq = []
  app : s.app = .idle
  closed : s.closed = false

/-- pcs of the clearing client once its `Clear` part is over -/
def CPc.left : CPc → Bool
  | .idle => true | .clsStop => true | .clsDone => true | .clsFinish => true | _ => false

theorem own_left {pc pc' : CPc} (h : OwnTr pc pc') (hl : pc.left = true) : pc'.left = true := by
  cases h <;> first | rfl | cases hl

theorem ext_left {pc pc' : CPc} (h : Ext pc pc') (hne : pc ≠ .idle) (hl : pc.left = true) : pc'.left = true := by
  cases h <;> first | rfl | exact absurd rfl hne | cases hl

theorem left_stable {cfg : Cfg} {s s' : State} {a : Action} {t : Tid} (hl : (s.cl t).left = true)
    (ha : a.isSpawn = false) (hs : step cfg s a = some s') : (s'.cl t).left = true := by
  rcases step_cl hs t with e | ⟨c, rfl, _, _⟩ | ⟨_, _, e⟩ | e
  · rw [e]; exact hl
  · simp [Action.isSpawn] at ha
  · exact own_left e hl
  · exact ext_left e.2 e.1 hl

/-- **C15 (5), state part.**  A `Clear` (or the `Clear` inside `Close`: `c = true`) of client `t`
that is not overlapped from its drain phase on: when `t` stands before the restart of the
applier, the restart step is enabled and leads to a `FreshSt` state with unchanged `MaxCost`. -/
theorem clear_fresh {cfg : Cfg} {s0 s1 : State} {t : Tid} {c : Bool} {acts : List Action}
    (hr : Reach cfg s0) (hcap : 1 ≤ cfg.bufCap) (hpc0 : s0.cl t = .clrDrain c)
    (hq : ∀ t', t' ≠ t → (s0.cl t').quiet = true) (hns : ∀ a ∈ acts, a.isSpawn = false)
    (hrun : run cfg s0 acts = some s1) (hpc1 : s1.cl t = .clrRestart c) :
    step cfg s1 (.client t .none) = some (stClrRestart s1 t c) ∧ FreshSt cfg (stClrRestart s1 t c) ∧
      (stClrRestart s1 t c).pol.maxCost = s0.pol.maxCost ∧
      (∀ t', t' ≠ t → ((stClrRestart s1 t c).cl t').quiet = true) := by
  have hinv0 : ClrInv cfg t c s0.pol.maxCost s0 :=
    ⟨hq, rfl, by rw [hpc0]; rfl, by rw [hpc0]; trivial⟩
  have key : Reach cfg s1 ∧ (ClrInv cfg t c s0.pol.maxCost s1 ∨ (s1.cl t).left = true) := by
    refine run_induction (P := fun s => Reach cfg s ∧ (ClrInv cfg t c s0.pol.maxCost s ∨ (s.cl t).left = true))
      ⟨hr, Or.inl hinv0⟩ (fun s a s' hmem hp hs => ?_) hrun
    refine ⟨hp.1.of_step hs, ?_⟩
    rcases hp.2 with hi | hleft
    · rcases clr_step hp.1 hcap hi (hns a hmem) hs with h1 | ⟨_, h2⟩
      · exact Or.inl h1
      · right; subst h2; unfold stClrRestart; dsimp only; cases c <;> simp <;> rfl
    · exact Or.inr (left_stable hleft (hns a hmem) hs)
  obtain ⟨hr1, hi | hleft⟩ := key
  · have hf := hi.facts
    rw [hpc1] at hf
    have hf' : s1.buf = [] ∧ s1.sendq = [] ∧ s1.pol.costs = AMap.empty ∧ s1.pol.used = 0 ∧
        s1.store = AMap.empty ∧ (s1.em.buckets = AMap.empty ∧ ∃ now, s1.em.lastCleaned = cleanupOf now) ∧
        (cfg.metricsOn = true → s1.met = {}) := hf
    have hh := handshake_reach hr1
    have hnc : s1.closed = false := by
      cases hc : s1.closed
      · rfl
      · have := (hh.closed hc).2 t; rw [hpc1] at this; simp [CPc.active, CPc.busy] at this
    refine ⟨by simp [step, clientStep, hpc1, needNone], ?_, by rw [stClrRestart_pol]; exact hi.maxc,
      fun t' hne => by rw [stClrRestart_cl_ne s1 t c hne]; exact hi.quiet t' hne⟩
    exact ⟨by rw [stClrRestart_store]; exact hf'.2.2.2.2.1, by rw [stClrRestart_pol]; exact hf'.2.2.1,
      by rw [stClrRestart_pol]; exact hf'.2.2.2.1, by rw [stClrRestart_em]; exact hf'.2.2.2.2.2.1.1,
      by rw [stClrRestart_em]; exact hf'.2.2.2.2.2.1.2, by rw [stClrRestart_met]; exact hf'.2.2.2.2.2.2,
      by rw [stClrRestart_buf]; exact hf'.1, by rw [stClrRestart_sendq]; exact hf'.2.1,
      by unfold stClrRestart; dsimp only; split <;> rfl, by rw [stClrRestart_closed]; exact hnc⟩
  · rw [hpc1] at hleft; cases hleft

/-- the state a `NewCache` with the current `MaxCost` would produce, carrying over the fields
that a cache keeps across `Clear` (closed marker ids, marker counter, clock, ghost log, pending
`Get`-ring entries) and the sweep position -/
def freshOf (cfg : Cfg) (s : State) : State :=
  { init { cfg with maxCost := s.pol.maxCost } s.clock with
    em := { buckets := AMap.empty, lastCleaned := s.em.lastCleaned }
    closedMarkers := s.closedMarkers, nextMarker := s.nextMarker, log := s.log,
    ringPending := s.ringPending, met := s.met }

/-- **C15 (5), `fresh_equiv`.**  A `FreshSt` state in which every client is idle *is* the initial
state of a cache created with the current `MaxCost` at a time `now` with the same sweep
position, up to `closedMarkers / nextMarker / clock / log / ringPending` (and `met`, which is
all-zero when metrics are on and never written when they are off). -/
theorem fresh_equiv {cfg : Cfg} {s : State} (hf : FreshSt cfg s) (hidle : ∀ t, s.cl t = .idle) :
    s = freshOf cfg s ∧ ∃ now, (freshOf cfg s).em = (init { cfg with maxCost := s.pol.maxCost } now).em := by
  obtain ⟨now, hnow⟩ := hf.cleaned
  refine ⟨?_, now, by simp [freshOf, init, hnow]⟩
  have hcl : s.cl = fun _ => CPc.idle := funext hidle
  have hpol : s.pol = { costs := AMap.empty, used := 0, maxCost := s.pol.maxCost } := by
    cases hp : s.pol with
    | mk co us mx =>
      have h1 := hf.costs; have h2 := hf.used
      rw [hp] at h1 h2; simp at h1 h2; simp [h1, h2]
  have hem : s.em = { buckets := AMap.empty, lastCleaned := s.em.lastCleaned } := by
    cases he : s.em with
    | mk b l => have h1 := hf.buckets; rw [he] at h1; simp at h1; simp [h1]
  cases s with
  | mk store em pol met buf sendq closedMarkers nextMarker app cl clock closed ringPending log =>
    simp only [freshOf, init, State.mk.injEq]
    exact ⟨hf.store, hem, hpol, trivial, hf.buf, hf.sendq, trivial, trivial, hf.app, hcl, trivial, hf.closed,
      trivial, trivial⟩

/-- **C15 (8), Clear.**  Two `FreshSt` states with the same `MaxCost` agree on every shared field
except the sweep position: a second un-overlapped `Clear` right after the first is a no-op
on store, policy accounting, expiry buckets, metrics (when on), buffer, senders, applier. -/
theorem fresh_agree {cfg : Cfg} {s s' : State} (h : FreshSt cfg s) (h' : FreshSt cfg s')
    (hm : s'.pol.maxCost = s.pol.maxCost) :
    s'.store = s.store ∧ s'.pol = s.pol ∧ s'.em.buckets = s.em.buckets ∧
      (cfg.metricsOn = true → s'.met = s.met) ∧ s'.buf = s.buf ∧ s'.sendq = s.sendq ∧ s'.app = s.app ∧
      s'.closed = s.closed := by
  refine ⟨by rw [h.store, h'.store], ?_, by rw [h.buckets, h'.buckets], fun hon => by rw [h.met hon, h'.met hon],
    by rw [h.buf, h'.buf], by rw [h.sendq, h'.sendq], by rw [h.app, h'.app], by rw [h.closed, h'.closed]⟩
  cases hp : s.pol with
  | mk co us mx =>
    cases hp' : s'.pol with
    | mk co' us' mx' =>
      have := h.costs; have := h.used; have := h'.costs; have := h'.used
      simp_all

end RV.Cache
