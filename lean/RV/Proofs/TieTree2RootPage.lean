import RV.Proofs.TieTree2Defs
/-!
# The root split of `Tree.Set` on flat memory: page-local part and small list lemmas

`Tree.Set` on a full root: `right := t.split(1)`, `left := t.newNode(root.bits())`, the key/value words
of the root are copied into `left` (`copy(left[:keyOffset(maxKeys)], root)`), `left` gets the root's
count, the root's key/value words are zeroed and its count set to 0.  Here: what the two pages read as
afterwards, plus the list-level facts about `nodeSet` the assembly needs.
-/
namespace RV.TreeFlat
open RV.Tree RV.NodeFlat Gen.TreeM

/-! ## the two pages -/

/-- the fresh page after `copy(left[:2*maxKeys], root)` and `left.setNumKeys(root.numKeys())`:
it reads as the root did, but keeps its own page id and kind -/
theorem rs_left_page {cfg : Cfg} {mk : Nat} (hmkc : mk = cfg.maxKeys) (hmk : mk < 2 ^ 15)
    (R F L1 : Words) (leaf : Bool) (lp : Nat)
    (hok : PageOk mk R) (hF : FreshPage cfg leaf lp F) (hs1 : L1.size = F.size)
    (hw : ∀ j, j < 2 * (mk + 1) → L1[j]! = if j < 2 * mk then R[j]! else F[j]!) :
    ∃ L2, Gen.Node.setNumKeys L1 (w mk) (w (nkeys mk R)) = some L2 ∧ L2.size = F.size ∧ PageOk mk L2 ∧
      ents mk L2 = ents mk R ∧ leafBit mk L2 = leaf ∧ kindBits mk L2 = kindOf leaf ∧ pidW mk L2 = w lp := by
  subst hmkc
  obtain ⟨hs, hn, hnz, hinc, hzero⟩ := hok
  have hFs : F.size = 2 * (cfg.maxKeys + 1) := hF.ok.1
  have hs1' : L1.size = 2 * (cfg.maxKeys + 1) := by omega
  obtain ⟨L2, h2, hs2, hmeta, hwords⟩ :=
    setNumKeys_w (p := L1) (mk := cfg.maxKeys) hs1' (by omega) (n := nkeys cfg.maxKeys R) (by omega)
  have hmetaL1 : metaW cfg.maxKeys L1 = metaW cfg.maxKeys F := by
    unfold metaW; rw [hw _ (by omega), if_neg (by omega)]
  rw [hmetaL1] at hmeta
  have hnk : nkeys cfg.maxKeys L2 = nkeys cfg.maxKeys R := nkeys_of_meta hmeta (by omega)
  have hL2 : ∀ j, j < 2 * cfg.maxKeys → L2[j]! = R[j]! := by
    intro j hj
    rw [hwords j (by omega), hw j (by omega), if_pos hj]
  refine ⟨L2, h2, by omega, ⟨by omega, by omega, ?_, ?_, ?_⟩, ?_, ?_, ?_, ?_⟩
  · intro i hi
    rw [hnk] at hi
    unfold keyW; rw [hL2 _ (by omega)]
    exact hnz i hi
  · intro i hi hi1
    rw [hnk] at hi hi1
    unfold keyW; rw [hL2 _ (by omega), hL2 _ (by omega)]
    exact hinc i hi hi1
  · intro i hi hle
    rw [hnk] at hle
    unfold keyW valW
    rw [hL2 _ (by omega), hL2 _ (by omega)]
    exact hzero i hi hle
  · unfold ents
    rw [hnk]
    apply entsUpTo_congr
    intro j hj
    exact hL2 j (by omega)
  · rw [leafBit_of_meta hmeta (by omega), hF.isLeaf]
  · rw [kindBits_of_meta hmeta (by omega), hF.kind]
  · unfold pidW; rw [hwords _ (by omega), hw _ (by omega), if_neg (by omega)]
    exact hF.pid

/-- the root page after `zeroOut(root[:2*maxKeys])` and `root.setNumKeys(0)`: an empty node of the
same kind with the same page id -/
theorem rs_empty_page {mk : Nat} (hmk : mk < 2 ^ 15) (R R1 : Words) (hok : PageOk mk R) (hs1 : R1.size = R.size)
    (hw : ∀ j, j < 2 * (mk + 1) → R1[j]! = if j < 2 * mk then 0#64 else R[j]!) :
    ∃ E, Gen.Node.setNumKeys R1 (w mk) (w 0) = some E ∧ E.size = R.size ∧ PageOk mk E ∧
      ents mk E = [] ∧ leafBit mk E = leafBit mk R ∧ kindBits mk E = kindBits mk R ∧ pidW mk E = pidW mk R := by
  obtain ⟨hs, hn, hnz, hinc, hzero⟩ := hok
  have hs1' : R1.size = 2 * (mk + 1) := by omega
  obtain ⟨E, h2, hs2, hmeta, hwords⟩ := setNumKeys_w (p := R1) (mk := mk) hs1' (by omega) (n := 0) (by omega)
  have hmetaR1 : metaW mk R1 = metaW mk R := by
    unfold metaW; rw [hw _ (by omega), if_neg (by omega)]
  rw [hmetaR1] at hmeta
  have hnk : nkeys mk E = 0 := nkeys_of_meta hmeta (by omega)
  have hE : ∀ j, j < 2 * mk → E[j]! = 0#64 := by
    intro j hj
    rw [hwords j (by omega), hw j (by omega), if_pos hj]
  refine ⟨E, h2, by omega, ⟨by omega, by omega, ?_, ?_, ?_⟩, ?_, ?_, ?_, ?_⟩
  · intro i hi; omega
  · intro i hi; omega
  · intro i hi _
    unfold keyW valW
    exact ⟨hE _ (by omega), hE _ (by omega)⟩
  · unfold ents; rw [hnk]; rfl
  · rw [leafBit_of_meta hmeta (by omega)]
  · rw [kindBits_of_meta hmeta (by omega)]
  · unfold pidW; rw [hwords _ (by omega), hw _ (by omega), if_neg (by omega)]

/-- the largest key of a non-empty well-formed page is not 0 -/
theorem rs_maxKey_ne {mk : Nat} {p : Words} (hok : PageOk mk p) (hmk : mk < 2 ^ 15) (hpos : 0 < nkeys mk p) :
    RV.Tree.maxKey (ents mk p) ≠ 0#64 := by
  obtain ⟨hs, hn, hnz, _, _⟩ := hok
  unfold RV.Tree.maxKey Gen.Tree.maxKeyDec
  rw [ents_length, show (0#64 : BitVec 64) = w 0 from rfl, w_slt (by omega) (by omega)]
  simp only [hpos, decide_true, if_true]
  rw [ents, keyAt_entsUpTo, if_pos (by omega)]
  exact hnz _ (by omega)

/-- an empty page reads 0 in slot 0 (what `maxKey_w` wants to know) -/
theorem rs_maxKey_side {mk : Nat} {p : Words} (hok : PageOk mk p) (h1 : 1 ≤ mk) :
    nkeys mk p = 0 → 1 ≤ mk ∧ keyW p 0 = 0#64 := by
  intro h0
  exact ⟨h1, (hok.2.2.2.2 0 (by omega) (by omega)).1⟩

/-! ## list-level facts -/

/-- every entry after `nodeSet` is an old entry or the one just written -/
theorem rs_nodeSet_mem {β : Type} (mk : Nat) (es : List (Key × β)) (k : Key) (v : β)
    (es' : List (Key × β)) (ad : Nat) (h : nodeSet mk es k v = some (es', ad)) :
    ∀ e ∈ es', e ∈ es ∨ e = (k, v) := by
  unfold nodeSet at h
  simp only [] at h
  split at h
  · cases h
  split at h
  · cases h
  split at h
  · cases h
  split at h
  · cases h
  split at h
  · split at h
    · injection h with h; injection h with h1 _
      subst h1
      intro e he
      rw [List.mem_append, List.mem_cons] at he
      rcases he with he | he | he
      · exact Or.inl (List.mem_of_mem_take he)
      · exact Or.inr he
      · exact Or.inl (List.mem_of_mem_drop he)
    · injection h with h; injection h with h1 _
      subst h1
      intro e he
      rcases List.mem_or_eq_of_mem_set he with he | he
      · exact Or.inl he
      · exact Or.inr he
    · cases h
  · split at h
    · injection h with h; injection h with h1 _
      subst h1
      intro e he
      rw [List.mem_append, List.mem_singleton] at he
      exact he
    · cases h

theorem rs_reprEnts_of_forall {cfg : Cfg} {d : Words} : ∀ (es : List (Key × Node)),
    (∀ e ∈ es, TreeFlat.Repr cfg d e.2) → ReprEnts cfg d es
  | [], _ => by rw [ReprEnts]; trivial
  | (k, c) :: rest, h => by
    rw [ReprEnts]
    exact ⟨h (k, c) (by simp), rs_reprEnts_of_forall rest (fun e he => h e (by simp [he]))⟩

theorem rs_reprEnts_forall {cfg : Cfg} {d : Words} : ∀ (es : List (Key × Node)),
    ReprEnts cfg d es → ∀ e ∈ es, TreeFlat.Repr cfg d e.2
  | [], _, e, he => by simp at he
  | (k, c) :: rest, h, e, he => by
    rw [ReprEnts] at h
    rw [List.mem_cons] at he
    rcases he with he | he
    · subst he; exact h.1
    · exact rs_reprEnts_forall rest h.2 e he

/-- the allocator frontier moves by at most one page per `newNode` -/
theorem rs_newNode_next (cfg : Cfg) (a : Alloc) : (RV.Tree.newNode cfg a).2.nextPage ≤ a.nextPage + 1 := by
  unfold RV.Tree.newNode
  dsimp only
  split
  · split
    · exact Nat.le_succ _
    · exact Nat.le_succ _
  · dsimp only
    split
    · exact Nat.le_refl _
    · exact Nat.le_refl _

end RV.TreeFlat
