import RV.Proofs.CacheFifoC05
/-!
# Helpers for concrete example runs (non-vacuity examples, counterexamples)
-/
namespace RV.Cache
open Gen.Cache

def Action.tid? : Action → Option Tid
  | .spawn t _ => some t
  | .client t _ => some t
  | .done t => some t
  | .applier (.selStop t) => some t
  | _ => none

theorem Action.owner_iff (a : Action) (t : Tid) : a.owner t ↔ a.tid? = some t := by
  cases a with
  | applier ch => cases ch <;> simp [Action.owner, Action.tid?]
  | _ => simp [Action.owner, Action.tid?]

/-- a thread no action of the run belongs to stays idle -/
theorem run_idle {cfg : Cfg} {s s' : State} {acts : List Action} {t : Tid} (h0 : Reach cfg s)
    (hidle : s.cl t = .idle) (hno : ∀ a ∈ acts, a.tid? ≠ some t) (hr : run cfg s acts = some s') :
    s'.cl t = .idle := by
  refine run_induction_f (P := fun s => s.cl t = .idle) h0 hidle ?_ hr
  intro s1 a s2 hr1 hp ha hs
  have hown : ¬ a.owner t := fun h => hno a ha ((a.owner_iff t).mp h)
  rcases step_cl_f (queue_inv hr1) hs t hown with e | ⟨hb, _⟩
  · rw [e]; exact hp
  · rw [hp] at hb; cases hb

/-- the threads a list of actions mentions -/
def tidsOf (acts : List Action) : List Tid := acts.filterMap Action.tid?

theorem not_mem_tidsOf {acts : List Action} {t : Tid} (h : t ∉ tidsOf acts) : ∀ a ∈ acts, a.tid? ≠ some t := by
  intro a ha e
  exact h (List.mem_filterMap.mpr ⟨a, ha, e⟩)

theorem reach_of_run_f {cfg : Cfg} {now : Time} {acts : List Action} {s : State}
    (h : run cfg (init cfg now) acts = some s) : Reach cfg s := ⟨now, acts, h⟩

theorem run_append_some {cfg : Cfg} {s s1 s2 : State} {as bs : List Action}
    (h1 : run cfg s as = some s1) (h2 : run cfg s (as ++ bs) = some s2) : run cfg s1 bs = some s2 := by
  rw [run_append, h1] at h2; simpa using h2

end RV.Cache
