import RV.Proofs.TieTree2ReinitA
/-!
# The tree on flat memory: `Tree.reinit` (generated whole), part B: the four loops

`ri_scan` (frontier scan, `whileM`), `ri_loop2` (count the unmarked pages and collect their links),
`ri_loop3` (mark the pointed pages), `ri_loop4` (first unmarked page = head of the free list).
-/
namespace RV.TreeFlat
open RV.Tree RV.NodeFlat Gen.TreeM

theorem ri_rd_w {α : Type} [Inhabited α] {a : Array α} {i : Nat} (h : i < a.size) (h64 : a.size ≤ 2 ^ 64) :
    Gen.rd a (w i) = some a[i]! := by
  unfold Gen.rd; rw [w_toNat (by omega)]; simp [h]

theorem ri_wr_w {α : Type} [Inhabited α] {a : Array α} {i : Nat} (v : α) (h : i < a.size) (h64 : a.size ≤ 2 ^ 64) :
    Gen.wr a (w i) v = some (a.set! i v) := by
  unfold Gen.wr; rw [w_toNat (by omega)]; simp [h]

/-- invariant rule for a `for i := lo; i < hi; i++` loop whose body continues or breaks -/
theorem ri_forRange_brk {ρ σ : Type} (lo hi : Nat) (hlo : lo ≤ hi) (hhi : hi < 2 ^ 63)
    (body : BitVec 64 → σ → Option (Gen.LoopOut ρ σ)) (Inv : Nat → σ → Prop) (Q : σ → Prop) (s0 : σ)
    (h0 : Inv lo s0)
    (hstep : ∀ i s, lo ≤ i → i < hi → Inv i s →
      (∃ s', body (w i) s = some (.next s') ∧ Inv (i + 1) s') ∨ (∃ s', body (w i) s = some (.brk s') ∧ Q s')) :
    ∃ s' j, Gen.forRange (w lo) (w hi) body s0 = some (.done s' j) ∧ (Inv hi s' ∨ Q s') := by
  unfold Gen.forRange
  rw [w_toInt hhi, w_toInt (show lo < 2 ^ 63 by omega)]
  have hfuel : ((hi : Int) - (lo : Int)).toNat = hi - lo := by omega
  rw [hfuel]
  suffices H : ∀ fuel i s, lo ≤ i → i ≤ hi → fuel = hi - i → Inv i s →
      ∃ s' j, Gen.forGo (w hi) body fuel (w i) s = some (.done s' j) ∧ (Inv hi s' ∨ Q s') from
    H (hi - lo) lo s0 (Nat.le_refl _) hlo rfl h0
  intro fuel
  induction fuel with
  | zero =>
    intro i s _ hi2 hf hinv
    have : i = hi := by omega
    subst this
    refine ⟨s, w i, ?_, Or.inl hinv⟩
    simp [Gen.forGo, w_slt hhi hhi]
  | succ fuel ih =>
    intro i s hli hi2 hf hinv
    have hlt : i < hi := by omega
    unfold Gen.forGo
    rw [w_slt (by omega) hhi]
    simp only [hlt, decide_true, if_true]
    rcases hstep i s hli hlt hinv with ⟨s', hb, hinv'⟩ | ⟨s', hb, hq⟩
    · rw [hb]
      simp only [NodeFlat.w_add_one]
      exact ih (i + 1) s' (by omega) (by omega) (by omega) hinv'
    · rw [hb]
      exact ⟨s', w i, rfl, Or.inr hq⟩

/-! ## phase 5: the first unmarked page -/

theorem ri_loop4 (tp : Array Bool) (hsz : tp.size < 2 ^ 63) (s : St) :
    ∃ s' j, Gen.forRange (ρ := St) 0#64 (BitVec.ofNat 64 tp.size) (reinit_loop4 tp) s = some (.done s' j) ∧
      (((∀ i, i < tp.size → tp[i]! = true) ∧ s' = s) ∨
       (∃ h, h < tp.size ∧ tp[h]! = false ∧ (∀ i, i < h → tp[i]! = true) ∧ s' = { s with freePage := w (h + 1) })) := by
  have hloop := ri_forRange_brk (ρ := St) (σ := St) 0 tp.size (by omega) hsz (reinit_loop4 tp)
    (fun i s' => (∀ k, k < i → tp[k]! = true) ∧ s' = s)
    (fun s' => ∃ h, h < tp.size ∧ tp[h]! = false ∧ (∀ i, i < h → tp[i]! = true) ∧ s' = { s with freePage := w (h + 1) })
    s ⟨by intro k hk; omega, rfl⟩
    (by
      intro i s' _ hi ⟨hall, hs'⟩
      subst hs'
      unfold reinit_loop4
      simp only []
      rw [ri_rd_w hi (by omega)]
      simp only [Option.bind_some]
      cases htp : tp[i]! with
      | true =>
        left
        simp only [Bool.not_true, Bool.false_eq_true, if_false]
        refine ⟨_, rfl, ?_, rfl⟩
        intro k hk
        rcases Nat.lt_or_ge k i with h | h
        · exact hall k h
        · have : k = i := by omega
          rw [this]; exact htp
      | false =>
        right
        simp only [Bool.not_false, if_true]
        refine ⟨_, rfl, i, hi, htp, hall, ?_⟩
        rw [NodeFlat.w_add_one])
  exact hloop

/-! ## phase 4: mark the pointed pages -/

theorem ri_loop3 (pp : Array (BitVec 64)) (tp : Array Bool) (hpp : pp.size < 2 ^ 63) (htp : tp.size < 2 ^ 63)
    (hin : ∀ k, k < pp.size → 1 ≤ pp[k]!.toNat ∧ pp[k]!.toNat ≤ tp.size) :
    ∃ tp', Gen.forRange (ρ := St) 0#64 (BitVec.ofNat 64 pp.size) (reinit_loop3 pp) tp = some (.done tp' (w pp.size)) ∧
      tp'.size = tp.size ∧
      ∀ i, i < tp.size → (tp'[i]! = true ↔ (tp[i]! = true ∨ ∃ k, k < pp.size ∧ pp[k]!.toNat = i + 1)) := by
  have hloop := forRange_next (ρ := St) (σ := Array Bool) 0 pp.size (by omega) hpp (reinit_loop3 pp)
    (fun j tp' => tp'.size = tp.size ∧
      ∀ i, i < tp.size → (tp'[i]! = true ↔ (tp[i]! = true ∨ ∃ k, k < j ∧ pp[k]!.toNat = i + 1)))
    tp ⟨rfl, by
      intro i _
      constructor
      · intro h; exact Or.inl h
      · rintro (h | ⟨k, hk, _⟩)
        · exact h
        · omega⟩
    (by
      intro j tp' _ hj ⟨hsz, hinv⟩
      unfold reinit_loop3
      simp only []
      rw [ri_rd_w hj (by omega)]
      simp only [Option.bind_some]
      obtain ⟨h1, h2⟩ := hin j hj
      have hx : pp[j]! = w pp[j]!.toNat := by unfold w; simp
      have hsub : pp[j]! - 1#64 = w (pp[j]!.toNat - 1) := by
        rw [← NodeFlat.w_sub_one h1, ← hx]
      rw [hsub, ri_wr_w true (by omega) (by omega)]
      simp only [Option.bind_some]
      refine ⟨_, rfl, by rw [size_set!]; exact hsz, ?_⟩
      intro i hi
      by_cases hij : pp[j]!.toNat - 1 = i
      · rw [hij, get!_set!_self _ _ _ (by omega)]
        constructor
        · intro _; exact Or.inr ⟨j, by omega, by omega⟩
        · intro _; rfl
      · rw [get!_set!_ne _ _ _ _ hij, hinv i hi]
        constructor
        · rintro (h | ⟨k, hk, hk2⟩)
          · exact Or.inl h
          · exact Or.inr ⟨k, by omega, hk2⟩
        · rintro (h | ⟨k, hk, hk2⟩)
          · exact Or.inl h
          · right
            refine ⟨k, ?_, hk2⟩
            rcases Nat.lt_or_ge k j with h | h
            · exact h
            · have : k = j := by omega
              subst this; omega)
  exact hloop

/-! ## phase 3: the unmarked pages -/

/-- the number of unmarked entries among the first `n` -/
def ri_cnt (tp : Array Bool) : Nat → Nat
  | 0 => 0
  | n + 1 => ri_cnt tp n + (if tp[n]! then 0 else 1)

theorem ri_loop2 {cfg : Cfg} (hc : CfgFlat cfg) (t : St) (hsmall : t.data.size < 2 ^ 40)
    (tp : Array Bool) (htp : tp.size < 2 ^ 63) (s0 : St) (hs0 : ri_Same t s0)
    (hfit : ∀ i, i < tp.size → tp[i]! = false → (i + 1 + 1) * pw cfg ≤ t.data.size) :
    ∃ s' pp, Gen.forRange (ρ := St) 0#64 (BitVec.ofNat 64 tp.size)
          (reinit_loop2 (w cfg.pageSize) (w cfg.maxKeys) tp) (s0, (#[] : Array (BitVec 64))) =
        some (.done (s', pp) (w tp.size)) ∧
      s' = { s0 with numPagesFree := s0.numPagesFree + w (ri_cnt tp tp.size) } ∧
      pp.size ≤ tp.size ∧
      ∀ x, x ∈ pp ↔ (x ≠ 0#64 ∧ ∃ k, k < tp.size ∧ tp[k]! = false ∧ (pageOf cfg t.data (k + 1))[0]! = x) := by
  have hmk := hc.mkLt
  have hloop := forRange_next (ρ := St) (σ := St × Array (BitVec 64)) 0 tp.size (by omega) htp
    (reinit_loop2 (w cfg.pageSize) (w cfg.maxKeys) tp)
    (fun i sp => sp.1 = { s0 with numPagesFree := s0.numPagesFree + w (ri_cnt tp i) } ∧
      sp.2.size ≤ i ∧
      ∀ x, x ∈ sp.2 ↔ (x ≠ 0#64 ∧ ∃ k, k < i ∧ tp[k]! = false ∧ (pageOf cfg t.data (k + 1))[0]! = x))
    (s0, #[]) ⟨by
        show s0 = _
        simp only [ri_cnt]
        rw [show w 0 = 0#64 from rfl, BitVec.add_zero], by simp, by
        intro x
        constructor
        · intro h; simp at h
        · rintro ⟨_, k, hk, _⟩; omega⟩
    (by
      intro i sp _ hi ⟨hs, hsz, hmem⟩
      obtain ⟨s, pp⟩ := sp
      simp only [] at hs hsz hmem
      have hsame : ri_Same t s := by rw [hs]; exact hs0
      unfold reinit_loop2
      simp only []
      rw [ri_rd_w hi (by omega)]
      simp only [Option.bind_some]
      cases htpi : tp[i]! with
      | true =>
        simp only [Bool.not_true, Bool.false_eq_true, if_false, Option.bind_some]
        refine ⟨_, rfl, ?_, by simp only []; omega, ?_⟩
        · simp only [ri_cnt, htpi, if_true, Nat.add_zero]; exact hs
        · intro x
          simp only []
          rw [hmem x]
          constructor
          · rintro ⟨h0, k, hk, h1, h2⟩; exact ⟨h0, k, by omega, h1, h2⟩
          · rintro ⟨h0, k, hk, h1, h2⟩
            refine ⟨h0, k, ?_, h1, h2⟩
            rcases Nat.lt_or_ge k i with h | h
            · exact h
            · have : k = i := by omega
              subst this; rw [htpi] at h1; cases h1
      | false =>
        have hf := hfit i hi htpi
        have hps : (pageOf cfg t.data (i + 1)).size = pw cfg := pageOf_size _ _ hf
        have hpw : pw cfg = 2 * (cfg.maxKeys + 1) := rfl
        simp only [Bool.not_false, if_true]
        rw [NodeFlat.w_add_one, ri_node hc t s hsame (i + 1) (by omega) hf hsmall]
        simp only [Option.bind_some]
        rw [ri_rdNode t s hsame (i + 1) hf, show (0#64 : BitVec 64) = w 0 from rfl,
          uint64_w (by omega) (by omega)]
        simp only [Option.bind_some]
        have hcnt : ri_cnt tp (i + 1) = ri_cnt tp i + 1 := by
          simp only [ri_cnt, htpi, Bool.false_eq_true, if_false]
        have hs1 : { s with numPagesFree := s.numPagesFree + 1#64 } =
            { s0 with numPagesFree := s0.numPagesFree + w (ri_cnt tp (i + 1)) } := by
          rw [hs, hcnt, ← NodeFlat.w_add_one, BitVec.add_assoc]
        by_cases hz : (pageOf cfg t.data (i + 1))[0]! = w 0
        · rw [hz]
          simp only [bne_self_eq_false, Bool.false_eq_true, if_false, Option.bind_some]
          refine ⟨_, rfl, hs1, by simp only []; omega, ?_⟩
          intro x
          simp only []
          rw [hmem x]
          constructor
          · rintro ⟨h0, k, hk, h1, h2⟩; exact ⟨h0, k, by omega, h1, h2⟩
          · rintro ⟨h0, k, hk, h1, h2⟩
            refine ⟨h0, k, ?_, h1, h2⟩
            rcases Nat.lt_or_ge k i with h | h
            · exact h
            · have : k = i := by omega
              subst this; rw [hz] at h2; exact absurd h2.symm h0
        · have hne : ((pageOf cfg t.data (i + 1))[0]! != w 0) = true := by simpa using hz
          rw [hne]
          simp only [if_true, Option.bind_some]
          refine ⟨_, rfl, hs1, by simp only [Array.size_push]; omega, ?_⟩
          intro x
          simp only []
          rw [Array.mem_push, hmem x]
          constructor
          · rintro (⟨h0, k, hk, h1, h2⟩ | h)
            · exact ⟨h0, k, by omega, h1, h2⟩
            · exact ⟨by rw [h]; exact hz, i, by omega, htpi, h.symm⟩
          · rintro ⟨h0, k, hk, h1, h2⟩
            rcases Nat.lt_or_ge k i with h | h
            · exact Or.inl ⟨h0, k, h, h1, h2⟩
            · have : k = i := by omega
              subst this; exact Or.inr h2.symm)
  obtain ⟨⟨s', pp⟩, hdone, h1, h2, h3⟩ := hloop
  exact ⟨s', pp, hdone, h1, h2, h3⟩

end RV.TreeFlat
