import RV.Proofs.CacheFairProgress
/-!
# Every call returns under fairness

* `pc_changes` — the pc of a client inside a call eventually changes (own step at a non-blocking
  pc; release of a blocked sender; closing of the awaited marker; `stop` taken; `done` received);
* `call_returns` — by induction on `rankN 0` (every change of a pc decreases it): the client is
  eventually idle.  For the pcs of `Clear` the hypothesis `DrainsEnd` is needed (the drain loop
  `for { select { case <-setBuf: … default: break } }` does not terminate under a sustained
  stream of concurrent sends, in the code as in the model);
* `drainsEnd_of_sendsCease` — drain loops end if from some time on nobody sends on `setBuf`.
-/
namespace RV.Cache
open Gen.Cache

variable {cfg : Cfg}

/-- the pcs of `Clear` (and `Close`) -/
def CPc.inClear : CPc → Bool
  | .clrStart _ => true | .clrStop _ => true | .clrDone _ => true | .clrDrain _ => true
  | .clrPolicy _ => true | .clrShard .. => true | .clrEm _ => true | .clrMetrics _ => true
  | .clrRestart _ => true | .clsStop => true | .clsDone => true | .clsFinish => true
  | _ => false

theorem own_inClear {pc pc' : CPc} (h : OwnTr pc pc') (hc : pc.inClear = false) : pc'.inClear = false := by
  cases h <;> first | rfl | (cases hc; done)

theorem ext_inClear {pc pc' : CPc} (h : Ext pc pc') (hne : pc ≠ .idle) (hc : pc.inClear = false) :
    pc'.inClear = false := by
  cases h <;> first | exact absurd rfl hne | rfl | (cases hc; done)

theorem inClear_step {s s' : State} {x : Action} {t : Tid} (hs : step cfg s x = some s')
    (hmid : s.cl t ≠ .idle) (hc : (s.cl t).inClear = false) : (s'.cl t).inClear = false := by
  rcases step_cl hs t with e | ⟨c, _, e, _⟩ | ⟨ch, _, e⟩ | ⟨hne, e⟩
  · rw [e]; exact hc
  · exact absurd e hmid
  · exact own_inClear e hc
  · exact ext_inClear e hne hc

/-- an own step changes the pc (except for an iteration of the drain loop) -/
theorem own_step_changes {s s' : State} {t : Tid} {ch : Choice} (hs : clientStep cfg s t ch = some s')
    (hwf : (s.cl t).wf = true) (hnd : ∀ c, s.cl t ≠ .clrDrain c) : s'.cl t ≠ s.cl t := by
  rcases client_shape hs with hp | hsp
  · have := own_rank (n := 0) hp.succ hwf hnd
    intro e; rw [e] at this; omega
  · cases hsp with
    | setSend i hpc he => subst he; rw [hpc]; unfold stSetSend; split <;> simp
    | delSend h c hpc he => subst he; rw [hpc]; unfold stDelSend sendBlocking; split <;> simp
    | waitSend hpc he => subst he; rw [hpc]; unfold stWaitSend sendBlocking; split <;> simp
    | drain c hpc he => exact absurd hpc (hnd c)
    | restart c hpc he => subst he; rw [hpc]; unfold stClrRestart; dsimp only; split <;> simp
    | finish hpc he => subst he; rw [hpc]; unfold stClsFinish; simp

/-- **the pc of a client inside a call eventually changes** -/
theorem pc_changes {e : Exec cfg} (hf : Fair e) (hcap : 1 ≤ cfg.bufCap) {t : Tid} {pc : CPc} {i : Nat}
    (hpc : (e.st i).cl t = pc) (hmid : pc ≠ .idle) (hcl : pc.inClear = false ∨ DrainsEnd e) :
    ∃ j, i ≤ j ∧ (e.st j).cl t ≠ pc := by
  -- the non-blocking case, from any time
  have hfree : ∀ k, (e.st k).cl t = pc → ¬ BlockedAt (e.st k) pc → ∃ j, k ≤ j ∧ (e.st j).cl t ≠ pc := by
    intro k hk hnb
    by_cases hd : ∃ c, pc = .clrDrain c
    · obtain ⟨c, hd⟩ := hd
      rcases hcl with h | h
      · rw [hd] at h; cases h
      · subst hd; exact h k t c hk
    · obtain ⟨j, ch, hkj, hj, _, hact⟩ := client_progress hf.weak hk hmid hnb
      have hs := e.next j
      rw [hact] at hs
      have := own_step_changes (show clientStep cfg (e.st j) t ch = some _ from hs) ((e.live j).pcwf t)
        (fun c hc => hd ⟨c, by rw [← hj, hc]⟩)
      rw [hj] at this
      exact ⟨j + 1, by omega, this⟩
  by_cases hb : BlockedAt (e.st i) pc
  · cases hpc' : pc <;> rw [hpc'] at hb <;> first | exact False.elim hb | skip
    case delBlocked h =>
      obtain ⟨j, h1, h2⟩ := sender_released hf hcap (t := t) (i := i) (by rw [hpc, hpc']; rfl)
      exact ⟨j, h1, by rw [hpc, hpc'] at h2; exact h2⟩
    case waitBlocked id =>
      obtain ⟨j, h1, h2⟩ := sender_released hf hcap (t := t) (i := i) (by rw [hpc, hpc']; rfl)
      exact ⟨j, h1, by rw [hpc, hpc'] at h2; exact h2⟩
    case waitRecv id =>
      obtain ⟨j, hij, hj⟩ := marker_closes hf hcap ((e.live i).waiting t id (by rw [hpc, hpc']; rfl))
      by_cases hc : (e.st j).cl t = pc
      · obtain ⟨j', h1, h2⟩ := hfree j hc (by rw [hpc']; exact fun h => h hj)
        exact ⟨j', by omega, by rw [← hpc']; exact h2⟩
      · exact ⟨j, hij, by rw [← hpc']; exact hc⟩
    case clrStop c =>
      rcases hcl with h | h
      · rw [hpc'] at h; cases h
      · exact stop_taken hf h (by rw [hpc, hpc'])
    case clrDone c =>
      obtain ⟨j, h1, h2, _⟩ := done_progress hf.weak (u := t) (c := c) (i := i) (by rw [hpc, hpc'])
      exact ⟨j, h1, by rw [h2]; simp⟩
    case clsStop => have := (e.nc i).closing t; rw [hpc, hpc'] at this; cases this
    case clsDone => have := (e.nc i).closing t; rw [hpc, hpc'] at this; cases this
  · exact hfree i hpc hb

/-- **every call returns** (general form: outside `Clear`, or if drain loops end) -/
theorem call_returns {e : Exec cfg} (hf : Fair e) (hcap : 1 ≤ cfg.bufCap) (t : Tid) :
    ∀ r i, rankN 0 ((e.st i).cl t) ≤ r → (((e.st i).cl t).inClear = false ∨ DrainsEnd e) →
      ∃ j, i ≤ j ∧ (e.st j).cl t = .idle := by
  intro r
  induction r using Nat.strongRecOn with
  | _ r ih =>
    intro i hr hcl
    by_cases hidle : (e.st i).cl t = .idle
    · exact ⟨i, Nat.le_refl _, hidle⟩
    · obtain ⟨j, hij, hj⟩ := pc_changes hf hcap rfl hidle hcl
      obtain ⟨m, him, _, hm0, hm1⟩ := first_change hij rfl hj
      have hrank := change_rank (t := t) (e.next m) ((e.live m).pcwf t) (by rw [hm0]; exact hidle)
        (by rw [hm0]; exact hm1)
      rw [hm0] at hrank
      have hcl' : ((e.st (m + 1)).cl t).inClear = false ∨ DrainsEnd e := by
        rcases hcl with h | h
        · exact Or.inl (inClear_step (e.next m) (by rw [hm0]; exact hidle) (by rw [hm0]; exact h))
        · exact Or.inr h
      obtain ⟨j', h1, h2⟩ := ih (rankN 0 ((e.st (m + 1)).cl t)) (by omega) (m + 1) (Nat.le_refl _) hcl'
      exact ⟨j', by omega, h2⟩

/-! ### when do drain loops end? -/

/-- from some time on, nobody performs the send step of `Set`, `Del` or `Wait` -/
def SendsCease (e : Exec cfg) : Prop :=
  ∃ N, ∀ j, N ≤ j → ∀ t ch, e.act j = .client t ch → ((e.st j).cl t).sends = false

theorem chanLen_mono {e : Exec cfg} {N : Nat}
    (hN : ∀ j, N ≤ j → ∀ t ch, e.act j = .client t ch → ((e.st j).cl t).sends = false) {k : Nat} (hk : N ≤ k)
    (d : Nat) : chanLen (e.st (k + d)) ≤ chanLen (e.st k) := by
  induction d with
  | zero => exact Nat.le_refl _
  | succ d ih =>
    rcases chanLen_step (e.next (k + d)) with h | ⟨t, ch, h1, h2⟩
    · exact Nat.le_trans h ih
    · rw [hN (k + d) (by omega) t ch h1] at h2; cases h2

/-- if the sends cease, every drain loop ends -/
theorem drainsEnd_of_sendsCease {e : Exec cfg} (hf : WeakFair e) (hs : SendsCease e) : DrainsEnd e := by
  obtain ⟨N, hN⟩ := hs
  intro k u c hpc
  have key : ∀ m k', N ≤ k' → (e.st k').cl u = .clrDrain c → chanLen (e.st k') ≤ m →
      ∃ j, k' ≤ j ∧ (e.st j).cl u ≠ .clrDrain c := by
    intro m
    induction m with
    | zero =>
      intro k' hk' hpc' hlen
      obtain ⟨j, ch, hkj, hj, _, hact⟩ := client_progress hf hpc' (by simp) (fun h => h)
      have hs := e.next j
      rw [hact] at hs
      have he := drain_step_eq hj hs
      have hmono := chanLen_mono hN hk' (j - k')
      rw [show k' + (j - k') = j by omega] at hmono
      rcases drain_shape (e.st j) u c with ⟨_, h2⟩ | ⟨x, s1, hrecv, _⟩
      · exact ⟨j + 1, by omega, by rw [he, h2]; simp⟩
      · have := recvBuf_len hrecv
        unfold chanLen at hmono hlen; omega
    | succ m ih =>
      intro k' hk' hpc' hlen
      obtain ⟨j, ch, hkj, hj, _, hact⟩ := client_progress hf hpc' (by simp) (fun h => h)
      have hs := e.next j
      rw [hact] at hs
      have he := drain_step_eq hj hs
      have hmono := chanLen_mono hN hk' (j - k')
      rw [show k' + (j - k') = j by omega] at hmono
      rcases drain_shape (e.st j) u c with ⟨_, h2⟩ | ⟨x, s1, hrecv, _, hbuf, hq, _⟩
      · exact ⟨j + 1, by omega, by rw [he, h2]; simp⟩
      · by_cases hc : (e.st (j + 1)).cl u = .clrDrain c
        · have h1 := recvBuf_len hrecv
          have hlen' : chanLen (e.st (j + 1)) ≤ m := by
            unfold chanLen at hmono hlen ⊢
            rw [he, hbuf, hq]; omega
          obtain ⟨j', h3, h4⟩ := ih (j + 1) (by omega) hc hlen'
          exact ⟨j', by omega, h4⟩
        · exact ⟨j + 1, by omega, hc⟩
  by_cases hc : (e.st (max k N)).cl u = .clrDrain c
  · obtain ⟨j, h1, h2⟩ := key _ (max k N) (Nat.le_max_right _ _) hc (Nat.le_refl _)
    exact ⟨j, Nat.le_trans (Nat.le_max_left _ _) h1, h2⟩
  · exact ⟨max k N, Nat.le_max_left _ _, hc⟩

end RV.Cache
