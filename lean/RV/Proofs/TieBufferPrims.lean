import RV.GenBuf
import RV.Proofs.ArrayLemmas
/-!
List-level reading of the primitives of `RV/GenBuf.lean` (the hand-written meaning of the Go
constructs used by the generated `RV/Gen/BufferM.lean`): `blit`, `copy`, `slice`, `bytesOf`,
`zeros`, `resize`, the 8-byte prefix accessors.
-/
namespace RV.TieBuffer
open Gen.Buf

/-! ## blit -/

def blitN (a : Array Byte) (pos : Nat) (src : Array Byte) (n : Nat) : Array Byte :=
  (List.range n).foldl (fun acc i => acc.set! (pos + i) src[i]!) a

theorem blitN_spec (a : Array Byte) (pos : Nat) (src : Array Byte) (n : Nat) :
    (blitN a pos src n).size = a.size ∧
    ∀ j, (blitN a pos src n)[j]! = if pos ≤ j ∧ j < pos + n ∧ j < a.size then src[j - pos]! else a[j]! := by
  induction n with
  | zero =>
    refine ⟨by simp [blitN], fun j => ?_⟩
    have : ¬ (pos ≤ j ∧ j < pos + 0 ∧ j < a.size) := by omega
    simp only [blitN, List.range_zero, List.foldl_nil]
    rw [if_neg this]
  | succ k ih =>
    obtain ⟨ihs, ihe⟩ := ih
    unfold blitN at *
    rw [List.range_succ, List.foldl_append]
    simp only [List.foldl_cons, List.foldl_nil]
    constructor
    · rw [RV.size_set!]; exact ihs
    · intro j
      by_cases hj : pos + k = j
      · subst hj
        by_cases hin : pos + k < a.size
        · rw [RV.get!_set!_self _ _ _ (by omega)]
          simp [hin]
        · have : ∀ (b : Array Byte) v, b.size = a.size → (b.set! (pos + k) v)[pos + k]! = b[pos + k]! := by
            intro b v hb
            simp [Array.set!, Array.setIfInBounds, hb, hin]
          rw [this _ _ ihs, ihe]
          simp [hin]
      · rw [RV.get!_set!_ne _ _ _ _ hj, ihe]
        by_cases h1 : pos ≤ j ∧ j < pos + k ∧ j < a.size
        · have : pos ≤ j ∧ j < pos + (k + 1) ∧ j < a.size := by omega
          simp [h1, this]
        · have : ¬ (pos ≤ j ∧ j < pos + (k + 1) ∧ j < a.size) := by omega
          simp [h1, this]

@[simp] theorem blit_size (a : Array Byte) (pos : Nat) (src : Array Byte) : (blit a pos src).size = a.size :=
  (blitN_spec a pos src src.size).1

theorem blit_get (a : Array Byte) (pos : Nat) (src : Array Byte) (j : Nat) :
    (blit a pos src)[j]! = if pos ≤ j ∧ j < pos + src.size ∧ j < a.size then src[j - pos]! else a[j]! :=
  (blitN_spec a pos src src.size).2 j

/-- `blit` is `overwrite` on lists -/
theorem blit_toList (a : Array Byte) (pos : Nat) (src : Array Byte) (h : pos + src.size ≤ a.size) :
    (blit a pos src).toList = a.toList.take pos ++ src.toList ++ a.toList.drop (pos + src.size) := by
  apply List.ext_getElem
  · simp [blit_size]; omega
  · intro i h1 h2
    have hs := blit_size a pos src
    have hi : i < a.size := by simpa [hs] using h1
    have e1 : (blit a pos src).toList[i] = (blit a pos src)[i]! := by
      simp [getElem!_pos, hs, hi]
    rw [e1, blit_get]
    by_cases c1 : i < pos
    · have : ¬ (pos ≤ i ∧ i < pos + src.size ∧ i < a.size) := by omega
      rw [if_neg this, List.getElem_append_left (by simp; omega), List.getElem_append_left (by simp; omega)]
      simp [getElem!_pos, hi]
    · by_cases c2 : i < pos + src.size
      · have : pos ≤ i ∧ i < pos + src.size ∧ i < a.size := by omega
        rw [if_pos this, List.getElem_append_left (by simp; omega), List.getElem_append_right (by simp; omega)]
        have : i - pos < src.size := by omega
        simp [getElem!_pos, this]
        congr 1; omega
      · have : ¬ (pos ≤ i ∧ i < pos + src.size ∧ i < a.size) := by omega
        rw [if_neg this, List.getElem_append_right (by simp; omega)]
        simp [getElem!_pos, hi]
        congr 1; omega

/-! ## extract / zeros / resize -/

theorem extract_toList (a : Array Byte) (i j : Nat) :
    (a.extract i j).toList = (a.toList.drop i).take (j - i) := by
  simp [List.extract]

theorem bytesOf_toList (a : Array Byte) (w : Win) :
    (bytesOf a w).toList = (a.toList.drop w.lo).take (w.hi - w.lo) := extract_toList a w.lo w.hi

@[simp] theorem zeros_size (n : Nat) : (zeros n).size = n := by simp [zeros]

theorem zeros_toList (n : Nat) : (zeros n).toList = List.replicate n 0#8 := by simp [zeros]

theorem resize_size (a : Array Byte) (n : Nat) : (resize a n).size = n := by
  unfold resize; split
  · simp; omega
  · simp; omega

theorem resize_take (a : Array Byte) (n k : Nat) (hk : k ≤ a.size) (hn : k ≤ n) :
    (resize a n).toList.take k = a.toList.take k := by
  unfold resize; split
  · rw [extract_toList]; simp [List.take_take]; omega
  · rw [Array.toList_append, List.take_append_of_le_length (by simpa using hk)]

end RV.TieBuffer
