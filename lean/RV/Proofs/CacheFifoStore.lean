import RV.Proofs.CacheFifoWait
/-!
# How the store / policy primitives act on one key

Small lemmas about `storeUpdate`, `storeSet`, `storeDel`, `storeDelExpired`, `eraseAll`,
`polDel`, `polUpdate`, `polAdd` phrased through `lookup` (used by C05 and C06).
-/
namespace RV.Cache
open Gen.Cache

/-! ### store -/

theorem storeUpdate_lookup_ne (cfg : Cfg) (st : Store) (em : Em) (i : Item) {k : Hash} (h : k ≠ i.key) :
    (storeUpdate cfg st em i).1.lookup k = st.lookup k := by
  unfold storeUpdate
  split
  · rfl
  · split
    · rfl
    · dsimp only
      split
      · rfl
      · exact AMap.lookup_insert_ne _ _ h

theorem storeUpdate_some (cfg : Cfg) (st : Store) (em : Em) (i : Item) {k : Hash} {e : Entry}
    (h : (storeUpdate cfg st em i).1.lookup k = some e) :
    st.lookup k = some e ∨ (k = i.key ∧ e = ⟨i.conflict, i.value, i.exp⟩ ∧ (st.lookup k).isSome) := by
  by_cases hk : k = i.key
  · subst hk
    unfold storeUpdate at h
    split at h
    · exact Or.inl h
    · rename_i e0 he0
      split at h
      · exact Or.inl h
      · dsimp only at h
        split at h
        · exact Or.inl h
        · simp at h; exact Or.inr ⟨rfl, h.symm, by simp [he0]⟩
  · rw [storeUpdate_lookup_ne cfg st em i hk] at h; exact Or.inl h

theorem storeUpdate_none (cfg : Cfg) (st : Store) (em : Em) (i : Item) {k : Hash}
    (h : st.lookup k = none) : (storeUpdate cfg st em i).1.lookup k = none := by
  cases h' : (storeUpdate cfg st em i).1.lookup k with
  | none => rfl
  | some e =>
    rcases storeUpdate_some cfg st em i h' with h1 | ⟨_, _, h1⟩
    · rw [h] at h1; cases h1
    · rw [h] at h1; cases h1

theorem storeSet_lookup_ne (cfg : Cfg) (st : Store) (em : Em) (i : Item) {k : Hash} (h : k ≠ i.key) :
    (storeSet cfg st em i).1.lookup k = st.lookup k := by
  unfold storeSet
  split
  · split
    · rfl
    · dsimp only
      split
      · rfl
      · exact AMap.lookup_insert_ne _ _ h
  · exact AMap.lookup_insert_ne _ _ h

theorem storeSet_some (cfg : Cfg) (st : Store) (em : Em) (i : Item) {k : Hash} {e : Entry}
    (h : (storeSet cfg st em i).1.lookup k = some e) :
    st.lookup k = some e ∨ (k = i.key ∧ e = ⟨i.conflict, i.value, i.exp⟩) := by
  by_cases hk : k = i.key
  · subst hk
    unfold storeSet at h
    split at h
    · split at h
      · exact Or.inl h
      · dsimp only at h
        split at h
        · exact Or.inl h
        · simp at h; exact Or.inr ⟨rfl, h.symm⟩
    · simp at h; exact Or.inr ⟨rfl, h.symm⟩
  · rw [storeSet_lookup_ne cfg st em i hk] at h; exact Or.inl h

/-- `lockedMap.Set` on an absent key inserts the entry -/
theorem storeSet_absent (cfg : Cfg) (st : Store) (em : Em) (i : Item) (h : st.lookup i.key = none) :
    (storeSet cfg st em i).1.lookup i.key = some ⟨i.conflict, i.value, i.exp⟩ := by
  unfold storeSet
  simp [h]

theorem storeDel_lookup_f (st : Store) (em : Em) (h : Hash) (c : Conf) (k : Hash) :
    (storeDel st em h c).1.lookup k = st.lookup k ∨
      (k = h ∧ (storeDel st em h c).1.lookup k = none ∧ (st.lookup k).isSome) := by
  unfold storeDel
  split
  · exact Or.inl rfl
  · rename_i e he
    split
    · exact Or.inl rfl
    · dsimp only
      by_cases hk : k = h
      · subst hk; exact Or.inr ⟨rfl, by simp, by simp [he]⟩
      · exact Or.inl (AMap.lookup_erase_ne _ hk)

theorem storeDel_sub_f {st : Store} {em : Em} {h : Hash} {c : Conf} {k : Hash} {e : Entry}
    (hl : (storeDel st em h c).1.lookup k = some e) : st.lookup k = some e := by
  rcases storeDel_lookup_f st em h c k with h1 | ⟨_, h1, _⟩
  · rw [← h1]; exact hl
  · rw [h1] at hl; cases hl

theorem storeDel_none {st : Store} {em : Em} {h : Hash} {c : Conf} {k : Hash}
    (hl : st.lookup k = none) : (storeDel st em h c).1.lookup k = none := by
  rcases storeDel_lookup_f st em h c k with h1 | ⟨_, h1, _⟩
  · rw [h1]; exact hl
  · exact h1

theorem storeDel_lookup_ne_f (st : Store) (em : Em) {h : Hash} (c : Conf) {k : Hash} (hk : k ≠ h) :
    (storeDel st em h c).1.lookup k = st.lookup k := by
  rcases storeDel_lookup_f st em h c k with h1 | ⟨h1, _, _⟩
  · exact h1
  · exact absurd h1 hk

/-- a delete whose conflict matches (or is 0) removes the key -/
theorem storeDel_match (st : Store) (em : Em) (h : Hash) (c : Conf)
    (hm : ∀ e, st.lookup h = some e → delConflictMismatch c e.conflict = false) :
    (storeDel st em h c).1.lookup h = none := by
  unfold storeDel
  split
  · assumption
  · rename_i e he
    rw [hm e he]
    simp

/-- the value `storeDel` reports is the stored one -/
theorem storeDel_value (st : Store) (em : Em) (h : Hash) (c : Conf) (e : Entry)
    (he : st.lookup h = some e) (hm : delConflictMismatch c e.conflict = false) :
    (storeDel st em h c).2.2.2 = e.value := by
  unfold storeDel
  simp [he, hm]

theorem storeDelExpired_lookup (st : Store) (em : Em) (h : Hash) (c : Conf) (now : Time) (k : Hash) :
    (storeDelExpired st em h c now).1.lookup k = st.lookup k ∨
      (k = h ∧ (storeDelExpired st em h c now).1.lookup k = none ∧
        ∃ e, st.lookup k = some e ∧ sweepSkip e.exp now = false) := by
  unfold storeDelExpired
  split
  · exact Or.inl rfl
  · rename_i e he
    split
    · exact Or.inl rfl
    · split
      · exact Or.inl rfl
      · rename_i hsk
        by_cases hk : k = h
        · subst hk; exact Or.inr ⟨rfl, by simp, e, he, by simpa using hsk⟩
        · exact Or.inl (AMap.lookup_erase_ne _ hk)

theorem storeDelExpired_sub {st : Store} {em : Em} {h : Hash} {c : Conf} {now : Time} {k : Hash} {e : Entry}
    (hl : (storeDelExpired st em h c now).1.lookup k = some e) : st.lookup k = some e := by
  rcases storeDelExpired_lookup st em h c now k with h1 | ⟨_, h1, _⟩
  · rw [← h1]; exact hl
  · rw [h1] at hl; cases hl

theorem storeDelExpired_none {st : Store} {em : Em} {h : Hash} {c : Conf} {now : Time} {k : Hash}
    (hl : st.lookup k = none) : (storeDelExpired st em h c now).1.lookup k = none := by
  rcases storeDelExpired_lookup st em h c now k with h1 | ⟨_, h1, _⟩
  · rw [h1]; exact hl
  · exact h1

theorem eraseAll_lookup_f (st : Store) (ks : List Hash) (k : Hash) :
    (eraseAll st ks).lookup k = if k ∈ ks then none else st.lookup k := by
  induction ks generalizing st with
  | nil => simp [eraseAll]
  | cons h rest ih =>
    simp only [eraseAll, ih, List.mem_cons]
    by_cases h1 : k ∈ rest
    · simp [h1]
    · by_cases h2 : k = h
      · subst h2; simp [h1]
      · simp [h1, h2, AMap.lookup_erase_ne _ h2]

theorem eraseAll_sub {st : Store} {ks : List Hash} {k : Hash} {e : Entry}
    (h : (eraseAll st ks).lookup k = some e) : st.lookup k = some e := by
  rw [eraseAll_lookup_f] at h
  split at h
  · cases h
  · exact h

theorem eraseAll_none {st : Store} {ks : List Hash} {k : Hash}
    (h : st.lookup k = none) : (eraseAll st ks).lookup k = none := by
  rw [eraseAll_lookup_f]; split <;> simp [h]

/-- a complete enumeration of `k`'s shard erases `k` -/
theorem eraseAll_shard {st : Store} {ks : List Hash} {k : Hash}
    (ho : isShardOrder st (shardIdx k) ks = true) : (eraseAll st ks).lookup k = none := by
  rw [eraseAll_lookup_f]
  split
  · rfl
  · rename_i hk
    cases hl : st.lookup k with
    | none => rfl
    | some e =>
      exfalso
      have hmem : k ∈ shardKeys st (shardIdx k) := by
        simp only [shardKeys, List.mem_filter, decide_eq_true_eq, and_true]
        exact AMap.mem_keys_of_lookup hl
      simp only [isShardOrder, Bool.and_eq_true, List.all_eq_true] at ho
      have := ho.2 k hmem
      simp at this
      exact hk this

/-! ### policy -/

theorem polDel_costs (on : Bool) (p : Pol) (m : Met) (h k : Hash) :
    (polDel on p m h).1.costs.lookup k = if k = h then none else p.costs.lookup k := by
  unfold polDel
  split
  · rename_i hn
    by_cases hk : k = h
    · subst hk; simp [hn]
    · simp [hk]
  · simp [AMap.lookup_erase]

theorem polDel_none_f {on : Bool} {p : Pol} {m : Met} {h k : Hash} (hl : p.costs.lookup k = none) :
    (polDel on p m h).1.costs.lookup k = none := by
  rw [polDel_costs]; split <;> simp [hl]

theorem polUpdate_costs_none {on : Bool} {p : Pol} {m : Met} {h k : Hash} {c : Int}
    (hl : p.costs.lookup k = none) : (polUpdate on p m h c).1.costs.lookup k = none := by
  unfold polUpdate
  split
  · exact hl
  · rename_i prev hp
    by_cases hk : k = h
    · subst hk; rw [hl] at hp; cases hp
    · simp [AMap.lookup_insert_ne _ _ hk, hl]

theorem polDelAll_none {on : Bool} {k : Hash} (vs : List (Hash × Int)) (p : Pol) (m : Met)
    (hl : p.costs.lookup k = none) : (polDelAll on p m vs).1.costs.lookup k = none := by
  induction vs generalizing p m with
  | nil => exact hl
  | cons v rest ih =>
    obtain ⟨h, c⟩ := v
    simp only [polDelAll]
    exact ih _ _ (polDel_none_f hl)

theorem polAddKey_costs_ne (on : Bool) (p : Pol) (m : Met) (h : Hash) (c : Int) {k : Hash} (hk : k ≠ h) :
    (polAddKey on p m h c).1.costs.lookup k = p.costs.lookup k := by
  simp [polAddKey, AMap.lookup_insert_ne _ _ hk]

/-- `policy.Add` of another key never starts accounting `k` -/
theorem polAdd_none {on : Bool} {p : Pol} {m : Met} {h k : Hash} {c : Int} {vs : List (Hash × Int)} {added : Bool}
    {pm : Pol × Met} (ha : polAdd on p m h c vs added = some pm) (hk : k ≠ h)
    (hl : p.costs.lookup k = none) : pm.1.costs.lookup k = none := by
  unfold polAdd at ha
  split at ha
  · split at ha
    · simp at ha; subst ha; exact hl
    · simp at ha
  · split at ha
    · rename_i p1 m1 heq
      split at ha
      · simp at ha; subst ha
        have : p1 = (polUpdate on p m h c).1 := by rw [heq]
        rw [this]; exact polUpdate_costs_none hl
      · simp at ha
    · split at ha
      · split at ha
        · simp at ha; subst ha
          rw [polAddKey_costs_ne _ _ _ _ _ hk]; exact hl
        · simp at ha
      · split at ha
        · simp at ha
        · dsimp only at ha
          split at ha
          · split at ha
            · simp at ha; subst ha
              rw [polAddKey_costs_ne _ _ _ _ _ hk]; exact polDelAll_none _ _ _ hl
            · simp at ha
          · simp at ha; subst ha
            exact polDelAll_none _ _ _ hl

end RV.Cache
