import RV.Proofs.TieTreeSetPath
import RV.Proofs.TieTreeAlloc
import RV.Proofs.NodeFlatSet
/-!
# The tree on flat memory: `Tree.set` (generated whole) on the no-split path

Under `SetPath` the generated recursion walks down the routing entries (reading only), the leaf's
`node.set` rewrites ONE page, and on the way back every `child.isFull()` is false.  Frame: every page
that does not belong to the subtree is unchanged (in fact every page but that leaf's).
-/
namespace RV.TreeFlat
open RV.Tree RV.NodeFlat Gen.TreeM

theorem reprEnts_set {cfg : Cfg} {d d' : Words} (hsz : d.size ≤ d'.size) :
    ∀ (es : List (Key × Node)) (i : Nat) (e : Key × Node) (c' : Node),
    es[i]? = some e → ReprEnts cfg d es → TreeFlat.Repr cfg d' c' → (pidsEnts es).Nodup →
    (∀ q, q ∉ pids e.2 → (q + 1) * pw cfg ≤ d.size → pageOf cfg d' q = pageOf cfg d q) →
    ReprEnts cfg d' (es.set i (e.1, c'))
  | [], _, _, _, h, _, _, _, _ => by simp at h
  | (ki, c) :: rest, 0, e, c', h, hr, hc', hnd, hf => by
    simp only [List.getElem?_cons_zero, Option.some.injEq] at h
    subst h
    rw [ReprEnts] at hr
    simp only [List.set_cons_zero]
    rw [ReprEnts]
    refine ⟨hc', reprEnts_frame hsz rest (fun q hq hfq => hf q ?_ hfq) hr.2⟩
    simp only [pidsEnts, List.nodup_append] at hnd
    intro hqc; exact hnd.2.2 q hqc q hq rfl
  | (ki, c) :: rest, i + 1, e, c', h, hr, hc', hnd, hf => by
    simp only [List.getElem?_cons_succ] at h
    rw [ReprEnts] at hr
    simp only [List.set_cons_succ]
    rw [ReprEnts]
    simp only [pidsEnts, List.nodup_append] at hnd
    have hmem : ∀ q, q ∈ pids e.2 → q ∈ pidsEnts rest := by
      intro q hq
      have : pidsEnts rest = pidsEnts (rest.take i) ++ pids e.2 ++ pidsEnts (rest.drop (i + 1)) := by
        have hi : i < rest.length := by
          rcases Nat.lt_or_ge i rest.length with h' | h'
          · exact h'
          · rw [List.getElem?_eq_none h'] at h; cases h
        have he : rest[i] = e := by rw [List.getElem?_eq_getElem hi] at h; exact Option.some.inj h
        conv => lhs; rw [← List.take_append_drop (i + 1) rest]
        rw [pidsEnts_append, List.take_succ_eq_append_getElem hi, pidsEnts_append, he]
        simp [pidsEnts]
      rw [this]; simp [hq]
    refine ⟨repr_frame hsz c (fun q hq hfq => hf q ?_ hfq) hr.1, reprEnts_set hsz rest i e c' h hr.2 hc' hnd.2.1 hf⟩
    intro hqe; exact hnd.2.2 q hq q (hmem q hqe) rfl

theorem pidsEnts_get_sub : ∀ (es : List (Key × Node)) (i : Nat) (e : Key × Node),
    es[i]? = some e → ∀ q ∈ pids e.2, q ∈ pidsEnts es
  | [], _, _, h, _, _ => by simp at h
  | (_, c) :: _, 0, e, h, q, hq => by
    simp only [List.getElem?_cons_zero, Option.some.injEq] at h
    subst h; simp [pidsEnts, hq]
  | (_, _) :: rest, i + 1, e, h, q, hq => by
    simp only [List.getElem?_cons_succ] at h
    simp [pidsEnts, pidsEnts_get_sub rest i e h q hq]

theorem pidsEnts_get_nodup : ∀ (es : List (Key × Node)) (i : Nat) (e : Key × Node),
    es[i]? = some e → (pidsEnts es).Nodup → (pids e.2).Nodup
  | [], _, _, h, _ => by simp at h
  | (_, c) :: _, 0, e, h, hn => by
    simp only [List.getElem?_cons_zero, Option.some.injEq] at h
    subst h; simp only [pidsEnts, List.nodup_append] at hn; exact hn.1
  | (_, _) :: rest, i + 1, e, h, hn => by
    simp only [List.getElem?_cons_succ] at h
    simp only [pidsEnts, List.nodup_append] at hn
    exact pidsEnts_get_nodup rest i e h hn.2.1

mutual
theorem setPathNode_pids (mk : Nat) (k : Key) (v : Val) : ∀ n : Node, pids (setPathNode mk k v n).1 = pids n
  | .null => rfl
  | .leaf p es => by
    rw [setPathNode]; cases nodeSet mk es k v with
    | none => rfl
    | some r => rfl
  | .inner p es => by rw [setPathNode]; simp only [pids]; rw [setPathEnts_pids mk k v es]
theorem setPathEnts_pids (mk : Nat) (k : Key) (v : Val) : ∀ es : List (Key × Node),
    pidsEnts (setPathEnts mk k v es).1 = pidsEnts es
  | [] => rfl
  | (ki, c) :: rest => by
    rw [setPathEnts]
    by_cases h : Gen.Tree.searchHit ki k = true
    · simp [h, pidsEnts, setPathNode_pids mk k v c]
    · simp [h, pidsEnts, setPathEnts_pids mk k v rest]
end

/-- what `Tree.set` does to the flat state on the no-split path -/
theorem set_path_refines {cfg : Cfg} (hc : CfgFlat cfg) (t : St) (hsmall : t.data.size < 2 ^ 40)
    (k : Key) (v : Val) (hk0 : k ≠ 0#64) :
    ∀ (fuel : Nat) (n : Node), SetPath cfg k v n → TreeFlat.Repr cfg t.data n → (pids n).Nodup → height n ≤ fuel →
    ∃ d', Gen.TreeM.set (w cfg.pageSize) (w cfg.maxKeys) fuel t (w n.pid) k v =
        some ({ t with data := d', numLeafKeys := t.numLeafKeys + w (setPathNode cfg.maxKeys k v n).2 },
              refOf cfg t n.pid) ∧
      d'.size = t.data.size ∧ TreeFlat.Repr cfg d' (setPathNode cfg.maxKeys k v n).1 ∧
      (∀ q, q ∉ pids n → (q + 1) * pw cfg ≤ t.data.size → pageOf cfg d' q = pageOf cfg t.data q)
  | 0, n, hp, _, _, hh => by
    cases n with
    | null => rw [SetPath] at hp; exact hp.elim
    | leaf p es => rw [height] at hh; omega
    | inner p es => rw [height] at hh; omega
  | fuel + 1, .null, hp, _, _, _ => by rw [SetPath] at hp; exact hp.elim
  | fuel + 1, .leaf p es, hp, hr, _, _ => by
    have hpg := repr_leaf hr
    have hmk := hc.mkLt
    have hs := hpg.ok.1
    rw [SetPath] at hp
    obtain ⟨es', added, hset, hlen⟩ := hp
    rw [Gen.TreeM.set]
    simp only [Node.pid]
    rw [node_w hc t p hpg.pos hpg.fit hsmall]
    simp only [Option.bind_some]
    rw [rdNode_refOf t p hpg.fit, isLeaf_w hs (by omega), hpg.isLeaf]
    simp only [Option.bind_some, if_true]
    have hset' : nodeSet cfg.maxKeys (ents cfg.maxKeys (pageOf cfg t.data p)) k v = some (es', added) := by
      rw [hpg.ents]; exact hset
    obtain ⟨p', hp', hsz', hents', hnk', hnle', hpid', hkind', hleaf', hz'⟩ :=
      set_some hpg.ok hmk k v es' added hset'
    have hok' : PageOk cfg.maxKeys p' := set_pageOk hpg.ok hmk k v hk0 es' added hset' p' _ hp'
    have hp's : p'.size = pw cfg := by rw [hsz', pageOf_size _ _ hpg.fit]
    simp only [refOf]
    rw [wrNodeR_win (cfg := cfg) t p t.epoch rfl hpg.fit _ p' (w added) hp' hp's]
    simp only [Option.bind_some]
    refine ⟨setPage cfg t.data p p', ?_, setPage_size _ _ _ _, ?_, ?_⟩
    · simp only [setPathNode, hset, refOf]
    · simp only [setPathNode, hset]
      rw [TreeFlat.Repr]
      refine ⟨hpg.pos, by rw [setPage_size]; exact hpg.fit, ?_, ?_, ?_, ?_, ?_⟩
      · rw [pageOf_setPage_self _ _ _ hpg.fit hp's]; exact hok'
      · rw [pageOf_setPage_self _ _ _ hpg.fit hp's, hleaf']; exact hpg.isLeaf
      · rw [pageOf_setPage_self _ _ _ hpg.fit hp's, hkind']; exact hpg.kind
      · rw [pageOf_setPage_self _ _ _ hpg.fit hp's, hpid']; exact hpg.pid
      · rw [pageOf_setPage_self _ _ _ hpg.fit hp's]; exact hents'
    · intro q hq hfq
      exact pageOf_setPage_ne _ _ _ _ (by simpa [pids] using hq) hpg.fit hfq hp's
  | fuel + 1, .inner p es, hp, hr, hnd, hh => by
    obtain ⟨hpg, hre⟩ := repr_inner hr
    have hmk := hc.mkLt
    have hs := hpg.ok.1
    rw [SetPath] at hp
    obtain ⟨hlenlt, hpe⟩ := hp
    obtain ⟨e, he, hek, hec, hes1, hes2⟩ := setPathEnts_index cfg k v es hpe
    have hslt := setPathEnts_search cfg k v es hpe
    have hnk : nkeys cfg.maxKeys (pageOf cfg t.data p) = es.length := by
      rw [← ents_length, hpg.ents, entWords_length]
    have hsearch : search (ents cfg.maxKeys (pageOf cfg t.data p)) k = search es k := by
      rw [hpg.ents, entWords_eq_mapV, search_mapV]
    simp only [pids, List.nodup_cons] at hnd
    -- the child
    have hrc : TreeFlat.Repr cfg t.data e.2 := reprEnts_get es _ e hre he
    have hhc : height e.2 ≤ fuel := by
      have := heightEnts_get es _ e he
      rw [height] at hh; omega
    have hcp : 0 < e.2.pid ∧ (e.2.pid + 1) * pw cfg ≤ t.data.size ∧
        pidW cfg.maxKeys (pageOf cfg t.data e.2.pid) = w e.2.pid ∧
        (pageOf cfg t.data e.2.pid).size = 2 * (cfg.maxKeys + 1) := by
      cases hc2 : e.2 with
      | null => rw [hc2, SetPath] at hec; exact hec.elim
      | leaf q ces => rw [hc2] at hrc; have := repr_leaf hrc; exact ⟨this.pos, this.fit, this.pid, this.ok.1⟩
      | inner q ces => rw [hc2] at hrc; have := (repr_inner hrc).1; exact ⟨this.pos, this.fit, this.pid, this.ok.1⟩
    have hcnd : (pids e.2).Nodup := pidsEnts_get_nodup es _ e he hnd.2
    obtain ⟨d', hrec, hd's, hrepr', hframe'⟩ := set_path_refines hc t hsmall k v hk0 fuel e.2 hec hrc hcnd hhc
    -- walk the generated text
    rw [Gen.TreeM.set]
    simp only [Node.pid]
    rw [node_w hc t p hpg.pos hpg.fit hsmall]
    simp only [Option.bind_some]
    rw [rdNode_refOf t p hpg.fit, isLeaf_w hs (by omega), hpg.isLeaf]
    simp only [Option.bind_some, Bool.false_eq_true, if_false]
    rw [rdNode_refOf t p hpg.fit, search_w hs hmk hpg.ok.2.1 k, hsearch]
    simp only [Option.bind_some]
    rw [w_sle (by omega) (by omega), if_neg (by simp; omega)]
    have hkey : Gen.Node.key (pageOf cfg t.data p) (w (search es k)) = some e.1 := by
      rw [key_keyAt hpg.ok (by omega) (by omega), hpg.ents, entWords_eq_mapV, keyAt_mapV]
      simp [keyAt, he]
    rw [rdNode_refOf t p hpg.fit, hkey]
    simp only [Option.bind_some]
    rw [if_neg (by simpa using hek)]
    simp only [Option.bind_some]
    have hval : Gen.Node.val (pageOf cfg t.data p) (w (search es k)) = some (childWord e.2) := by
      rw [val_w (by omega) (by omega)]
      have h2 := ents_get? (mk := cfg.maxKeys) (p := pageOf cfg t.data p) (search es k)
      rw [hpg.ents, entWords_get?, he, hnk, if_pos hslt] at h2
      simp only [Option.map_some, Option.some.injEq, Prod.mk.injEq] at h2
      exact congrArg some h2.2.symm
    rw [rdNode_refOf t p hpg.fit, hval]
    simp only [Option.bind_some]
    unfold childWord
    rw [node_w hc t e.2.pid hcp.1 hcp.2.1 hsmall]
    simp only [Option.bind_some, refOf, Gen.TreeM.isNil, Bool.false_eq_true, if_false]
    rw [rdNode_win t e.2.pid _ rfl hcp.2.1, pageID_w hcp.2.2.2 (by omega), hcp.2.2.1]
    simp only [Option.bind_some]
    rw [hrec]
    simp only [Option.bind_some]
    -- back in the parent: re-read, the child is not full
    have hfitp := hpg.fit
    have hsmall' : d'.size < 2 ^ 40 := by omega
    have hnode' := node_w hc { t with data := d', numLeafKeys := t.numLeafKeys + w (setPathNode cfg.maxKeys k v e.2).2 }
      p hpg.pos (by simp only []; omega) (by simp only []; exact hsmall')
    rw [hnode']
    simp only [Option.bind_some, refOf]
    -- the child's page afterwards
    obtain ⟨hmodel, hnotfull⟩ := setNode_path cfg (by omega) k v e.2
      { nextPage := 0, free := [], leafKeys := 0, pagesFree := 0, dataLen := 0, curSz := 0 } hec
    have hc'pid := setPathNode_pid cfg.maxKeys k v e.2
    have hfull' : Gen.Node.isFull (pageOf cfg d' e.2.pid) (w cfg.maxKeys) = some false := by
      cases hc2 : (setPathNode cfg.maxKeys k v e.2).1 with
      | null =>
        -- impossible: the result of a set on a non-nil node is non-nil
        cases hc3 : e.2 with
        | null => rw [hc3, SetPath] at hec; exact hec.elim
        | leaf q ces =>
          rw [hc3, setPathNode] at hc2
          cases hns : nodeSet cfg.maxKeys ces k v with
          | none => rw [hns] at hc2; cases hc2
          | some r => rw [hns] at hc2; cases hc2
        | inner q ces => rw [hc3, setPathNode] at hc2; cases hc2
      | leaf q ces =>
        rw [hc2] at hrepr' hnotfull hc'pid
        have hq := repr_leaf hrepr'
        have hqe : q = e.2.pid := hc'pid
        rw [← hqe, isFull_w hq.ok.1 (by have := hq.ok.1; omega) (by omega), ← ents_length, hq.ents]
        simp only [Node.len] at hnotfull
        congr 1; simp; omega
      | inner q ces =>
        rw [hc2] at hrepr' hnotfull hc'pid
        have hq := (repr_inner hrepr').1
        have hqe : q = e.2.pid := hc'pid
        rw [← hqe, isFull_w hq.ok.1 (by have := hq.ok.1; omega) (by omega), ← ents_length, hq.ents,
          entWords_length]
        simp only [Node.len] at hnotfull
        congr 1; simp; omega
    rw [rdNode_win _ e.2.pid _ rfl (by simp only []; omega), hfull']
    simp only [Option.bind_some, Bool.false_eq_true, if_false]
    -- the result
    have hpnot : p ∉ pids e.2 := fun h => hnd.1 (pidsEnts_get_sub es _ e he p h)
    refine ⟨d', ?_, hd's, ?_, ?_⟩
    · simp only [setPathNode, hes2, Node.pid]
    · simp only [setPathNode]
      rw [TreeFlat.Repr, setPathEnts_words]
      have hpage : pageOf cfg d' p = pageOf cfg t.data p := hframe' p hpnot hpg.fit
      refine ⟨pageOf_frame (by omega) hpage hpg, ?_⟩
      rw [hes1]
      exact reprEnts_set (by omega) es _ e _ he hre hrepr' hnd.2 hframe'
    · intro q hq hfq
      simp only [pids, List.mem_cons, not_or] at hq
      exact hframe' q (fun h => hq.2 (pidsEnts_get_sub es _ e he q h)) hfq

/-! ## `Tree.Set` on the no-split path -/

theorem repr_not_full {cfg : Cfg} (hc : CfgFlat cfg) {d : Words} (n : Node) (hn : n ≠ .null)
    (hr : TreeFlat.Repr cfg d n) (hlen : n.len < cfg.maxKeys) :
    Gen.Node.isFull (pageOf cfg d n.pid) (w cfg.maxKeys) = some false := by
  have hmk := hc.mkLt
  cases n with
  | null => exact absurd rfl hn
  | leaf q ces =>
    have hq := repr_leaf hr
    have hs := hq.ok.1
    simp only [Node.pid]
    rw [isFull_w hs (by omega) (by omega), ← ents_length, hq.ents]
    simp only [Node.len] at hlen
    congr 1; simp; omega
  | inner q ces =>
    have hq := (repr_inner hr).1
    have hs := hq.ok.1
    simp only [Node.pid]
    rw [isFull_w hs (by omega) (by omega), ← ents_length, hq.ents, entWords_length]
    simp only [Node.len] at hlen
    congr 1; simp; omega

theorem ofInt_add_nat (x : Int) (n : Nat) : BitVec.ofInt 64 x + w n = BitVec.ofInt 64 (x + (n : Nat)) := by
  rw [BitVec.ofInt_add]; congr 1

mutual
theorem setPathNode_ne_null (mk : Nat) (k : Key) (v : Val) : ∀ n : Node, n ≠ .null → (setPathNode mk k v n).1 ≠ .null
  | .null, h => absurd rfl h
  | .leaf p es, _ => by
    rw [setPathNode]; cases nodeSet mk es k v with
    | none => simp
    | some r => simp
  | .inner p es, _ => by rw [setPathNode]; simp
end

/-- `Tree.Set(k, v)` when the path from the root neither splits nor creates a child: the generated
`Set` and the structural `set` agree, the new tree is represented, the allocator corresponds. -/
theorem Set_path_refines {cfg : Cfg} (hc : CfgFlat cfg) (t : St) (hsmall : t.data.size < 2 ^ 40) (tr : Tree)
    (hs : AllocScal t tr.a) (k : Key) (v : Val) (hk : Gen.Tree.setKeyPanic k = false)
    (hroot : tr.root.pid = 1) (hp : SetPath cfg k v tr.root) (hr : TreeFlat.Repr cfg t.data tr.root)
    (hnd : (pids tr.root).Nodup) (fuel : Nat) (hfuel : height tr.root ≤ fuel) :
    ∃ t', Gen.TreeM.Set (w cfg.pageSize) (w cfg.maxKeys) fuel t k v = some t' ∧
      TreeFlat.Repr cfg t'.data (RV.Tree.set cfg tr k v).root ∧ AllocScal t' (RV.Tree.set cfg tr k v).a ∧
      t'.data.size = t.data.size ∧ (RV.Tree.set cfg tr k v).a.fault = none ∧
      (∀ q, q ∉ pids tr.root → (q + 1) * pw cfg ≤ t.data.size → pageOf cfg t'.data q = pageOf cfg t.data q) := by
  have hmk := hc.mkLt
  have hk0 : k ≠ 0#64 := by
    intro e; subst e; simp [Gen.Tree.setKeyPanic] at hk
  have hn0 : tr.root ≠ .null := by intro e; rw [e, SetPath] at hp; exact hp
  obtain ⟨d', h1, h2, h3, h4⟩ := set_path_refines hc t hsmall k v hk0 fuel tr.root hp hr hnd hfuel
  obtain ⟨hm, hlen⟩ := setNode_path cfg (by omega) k v tr.root tr.a hp
  have hpid := setPathNode_pid cfg.maxKeys k v tr.root
  have hnn := setPathNode_ne_null cfg.maxKeys k v tr.root hn0
  have hfit1 : (1 + 1) * pw cfg ≤ d'.size := by
    have := (repr_fits _ h3 1 (by
      rw [setPathNode_pids]
      cases hr' : tr.root with
      | null => exact absurd hr' hn0
      | leaf p es => rw [hr'] at hroot; simp only [Node.pid] at hroot; simp [pids, hroot]
      | inner p es => rw [hr'] at hroot; simp only [Node.pid] at hroot; simp [pids, hroot])).2
    exact this
  -- the structural side
  have hmodel : RV.Tree.set cfg tr k v =
      { root := (setPathNode cfg.maxKeys k v tr.root).1,
        a := { tr.a with leafKeys := tr.a.leafKeys + ((setPathNode cfg.maxKeys k v tr.root).2 : Nat) } } := by
    unfold RV.Tree.set
    rw [hk]
    simp only [Bool.false_eq_true, if_false, hm]
    have : Node.isFull cfg (setPathNode cfg.maxKeys k v tr.root).1 = false := by
      rw [Node.isFull_eq cfg _ (by omega) (by omega)]; simp; omega
    rw [this]; simp
  rw [hmodel]
  unfold Gen.TreeM.Set
  have hk' : ((k == 18446744073709551615#64) || (k == 0#64)) = false := hk
  rw [hk']
  simp only [Bool.false_eq_true, if_false]
  rw [show (1#64 : BitVec 64) = w 1 from rfl, ← hroot, h1]
  simp only [Option.bind_some, refOf]
  have hfull := repr_not_full hc _ hnn h3 hlen
  rw [hpid, hroot] at hfull
  rw [hroot, rdNode_win _ 1 _ rfl (by simp only []; exact hfit1), hfull]
  simp only [Option.bind_some, Bool.false_eq_true, if_false]
  refine ⟨_, rfl, h3, ?_, h2, hs.fault, h4⟩
  exact ⟨hs.nextPage, hs.freePage, by simp only []; rw [hs.leafKeys, ofInt_add_nat], hs.pagesFree,
    by simp only []; rw [h2]; exact hs.dataLen, hs.curSz, hs.bufOffset, hs.fault⟩

end RV.TreeFlat
