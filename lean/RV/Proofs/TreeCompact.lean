import RV.Proofs.TreeOps
/-!
# `node.compact` and `Tree.DeleteBelow`
-/
namespace RV.Tree
open Gen.Tree

section
variable {β : Type}

/-- a non-empty list is its front part followed by its last entry -/
theorem exists_init_last {es : List (Key × β)} (hne : es ≠ []) :
    ∃ init x, es = init ++ [(lastKeyD 0#64 es, x)] := by
  induction es with
  | nil => exact absurd rfl hne
  | cons e rest ih =>
    cases rest with
    | nil => exact ⟨[], e.2, by simp⟩
    | cons y r' =>
      obtain ⟨init, x, h⟩ := ih (by simp)
      refine ⟨e :: init, x, ?_⟩
      simp only [lastKeyD_cons, List.cons_append] at h ⊢
      rw [← h]

/-- `node.compact(lo)` on a sorted, non-empty node `init ++ [(hi, x)]`: the entries of `init`
with a value below `lo` are removed, the max key is always kept, and if its value is below `lo`
it becomes a placeholder (value word 0).  The return value is 0 exactly if only that
placeholder is left. -/
theorem nodeCompact_spec (valOf : β → Val) (clear : β → β) (hclear : ∀ y, valOf (clear y) = 0#64)
    (init : List (Key × β)) (hi : Key) (x : β) (lo : Val)
    (hlt : ∀ e ∈ init, e.1 < hi) (hlen : (init ++ [(hi, x)]).length < 2 ^ 63) :
    nodeCompact valOf clear (init ++ [(hi, x)]) lo =
      (init.filter (fun e => !(BitVec.ult (valOf e.2) lo)) ++ [(hi, if BitVec.ult (valOf x) lo then clear x else x)],
       if (init.filter (fun e => !(BitVec.ult (valOf e.2) lo))) = [] ∧ BitVec.ult (valOf x) lo = true then 0
       else (init.filter (fun e => !(BitVec.ult (valOf e.2) lo))).length + 1) := by
  have hmk : maxKey (init ++ [(hi, x)]) = hi := by
    rw [maxKey_eq _ hlen, lastKeyD_append]; rfl
  have hfilter : (init ++ [(hi, x)]).filter (fun e => !(compactSkip (valOf e.2) lo e.1 hi)) =
      init.filter (fun e => !(BitVec.ult (valOf e.2) lo)) ++ [(hi, x)] := by
    rw [List.filter_append]
    congr 1
    · apply List.filter_congr
      intro e he
      have := hlt e he
      unfold compactSkip
      have : BitVec.ult e.1 hi = true := BitVec.ult_iff_lt.mpr this
      simp [this]
    · simp [compactSkip, BitVec.ult]
  have hfl : (init.filter (fun e => !(BitVec.ult (valOf e.2) lo))).length ≤ init.length :=
    List.length_filter_le _ _
  unfold nodeCompact
  simp only [hmk, hfilter]
  generalize init.filter (fun e => !(BitVec.ult (valOf e.2) lo)) = kept at hfl ⊢
  have hkl : (kept ++ [(hi, x)]).length = kept.length + 1 := by simp
  have hlen' : kept.length + 1 < 2 ^ 63 := by simp at hlen; omega
  have hget : (kept ++ [(hi, x)])[(kept ++ [(hi, x)]).length - 1]? = some (hi, x) := by
    rw [hkl]; simp
  have hkey : keyAt (kept ++ [(hi, x)]) ((kept ++ [(hi, x)]).length - 1) = hi := by
    unfold keyAt; rw [hget]
  have hpos : BitVec.slt 0#64 (w (kept ++ [(hi, x)]).length) = true := by
    have h0 : (0#64 : BitVec 64) = w 0 := rfl
    rw [h0, w_slt (by omega) (by omega)]; simp
  have hph : compactPlaceholder (w (kept ++ [(hi, x)]).length) hi hi (valOf x) lo = BitVec.ult (valOf x) lo := by
    unfold compactPlaceholder; rw [hpos]; simp
  simp only [hget, hkey, hph]
  have hset : (kept ++ [(hi, x)]).set ((kept ++ [(hi, x)]).length - 1) (hi, clear x) = kept ++ [(hi, clear x)] := by
    rw [hkl]; simp
  rw [hset]
  by_cases hu : BitVec.ult (valOf x) lo = true
  · simp only [hu, if_true]
    have hlo : BitVec.ult 0#64 lo = true := by
      rw [BitVec.ult_iff_lt] at hu ⊢; bv_omega
    cases kept with
    | nil =>
      simp [compactDroppable, keyAt, hclear, hlo]
    | cons y ys =>
      have : (w ((y :: ys) ++ [(hi, clear x)]).length == 1#64) = false := by
        have h1 : (1#64 : BitVec 64) = w 1 := rfl
        rw [h1, w_beq (by simp at hlen' ⊢; omega) (by omega)]; simp
      simp [compactDroppable]
      intro h
      have h1 : (1#64 : BitVec 64) = w 1 := rfl
      rw [h1] at h
      have := congrArg BitVec.toNat h
      rw [w_toNat (by simp at hlen' ⊢; omega), w_toNat (by omega)] at this
      omega
  · simp only [hu, Bool.false_eq_true, if_false, and_false]
    cases kept with
    | nil =>
      simp [compactDroppable, keyAt, hu]
    | cons y ys =>
      simp [compactDroppable]
      intro h
      have h1 : (1#64 : BitVec 64) = w 1 := rfl
      rw [h1] at h
      have := congrArg BitVec.toNat h
      rw [w_toNat (by simp at hlen' ⊢; omega), w_toNat (by omega)] at this
      omega

end

/-! ## what a compaction may do to the flattened list -/

/-- `Compacted ts L L'`: `L'` arises from `L` by keeping every entry whose value is not below
`ts`, and dropping or turning into a placeholder (value 0) every entry whose value is below. -/
inductive Compacted (ts : Val) : List (Key × Val) → List (Key × Val) → Prop
  | nil : Compacted ts [] []
  | keep {k : Key} {v : Val} {L L' : List (Key × Val)} :
      ¬ v < ts → Compacted ts L L' → Compacted ts ((k, v) :: L) ((k, v) :: L')
  | drop {k : Key} {v : Val} {L L' : List (Key × Val)} :
      v < ts → Compacted ts L L' → Compacted ts ((k, v) :: L) L'
  | zero {k : Key} {v : Val} {L L' : List (Key × Val)} :
      v < ts → Compacted ts L L' → Compacted ts ((k, v) :: L) ((k, 0#64) :: L')

theorem Compacted.append {ts : Val} {L1 L1' L2 L2' : List (Key × Val)} (h1 : Compacted ts L1 L1')
    (h2 : Compacted ts L2 L2') : Compacted ts (L1 ++ L2) (L1' ++ L2') := by
  induction h1 with
  | nil => exact h2
  | keep hv _ ih => exact Compacted.keep hv ih
  | drop hv _ ih => exact Compacted.drop hv ih
  | zero hv _ ih => exact Compacted.zero hv ih

theorem Compacted.keys_subset {ts : Val} {L L' : List (Key × Val)} (h : Compacted ts L L') :
    ∀ e ∈ L', ∃ e0 ∈ L, e0.1 = e.1 := by
  induction h with
  | nil => intro e he; cases he
  | @keep k v L L' hv _ ih =>
    intro e he
    rcases List.mem_cons.mp he with rfl | he
    · exact ⟨(k, v), by simp, rfl⟩
    · obtain ⟨e0, h0, h1⟩ := ih e he; exact ⟨e0, List.mem_cons_of_mem _ h0, h1⟩
  | drop hv _ ih =>
    intro e he
    obtain ⟨e0, h0, h1⟩ := ih e he; exact ⟨e0, List.mem_cons_of_mem _ h0, h1⟩
  | @zero k v L L' hv _ ih =>
    intro e he
    rcases List.mem_cons.mp he with rfl | he
    · exact ⟨(k, v), by simp, rfl⟩
    · obtain ⟨e0, h0, h1⟩ := ih e he; exact ⟨e0, List.mem_cons_of_mem _ h0, h1⟩

theorem Compacted.sorted {ts : Val} {L L' : List (Key × Val)} (h : Compacted ts L L') :
    ∀ {lo : Key}, SortedFrom lo L → SortedFrom lo L' := by
  induction h with
  | nil => intro lo _; trivial
  | keep hv _ ih => intro lo hs; exact ⟨hs.1, ih hs.2⟩
  | drop hv _ ih => intro lo hs; exact ih (hs.2.mono (by have := hs.1; bv_omega))
  | zero hv _ ih => intro lo hs; exact ⟨hs.1, ih hs.2⟩

/-- The map after a compaction: exactly the values below `ts` read 0 afterwards. -/
theorem Compacted.lookup {ts : Val} {L L' : List (Key × Val)} (h : Compacted ts L L') :
    ∀ {lo : Key}, SortedFrom lo L → ∀ k, lookupD L' k = if lookupD L k < ts then 0#64 else lookupD L k := by
  induction h with
  | nil => intro lo _ k; simp only [lookupD]; exact (ite_self _).symm
  | @keep k0 v L L' hv hc ih =>
    intro lo hs k
    simp only [lookupD]
    by_cases hk : k0 = k
    · simp [hk, hv]
    · simp only [hk, if_false]; exact ih hs.2 k
  | @drop k0 v L L' hv hc ih =>
    intro lo hs k
    simp only [lookupD]
    by_cases hk : k0 = k
    · subst hk
      simp only [if_true, hv]
      apply lookupD_of_not_mem
      intro e he
      obtain ⟨e0, h0, h1⟩ := hc.keys_subset e he
      have := hs.2.all_gt e0 h0
      rw [← h1]; bv_omega
    · simp only [hk, if_false]; exact ih hs.2 k
  | @zero k0 v L L' hv hc ih =>
    intro lo hs k
    simp only [lookupD]
    by_cases hk : k0 = k
    · simp [hk, hv]
    · simp only [hk, if_false]; exact ih hs.2 k

/-- a compaction that leaves only placeholders could as well have dropped everything -/
theorem Compacted.to_nil {ts : Val} {L L' : List (Key × Val)} (h : Compacted ts L L')
    (hz : ∀ e ∈ L', e.2 = 0#64) (hts : 0#64 < ts) : Compacted ts L [] := by
  induction h with
  | nil => exact Compacted.nil
  | @keep k v L L' hv _ ih =>
    have : v = 0#64 := hz (k, v) (by simp)
    subst this
    exact absurd hts hv
  | drop hv _ ih => exact Compacted.drop hv (ih hz)
  | zero hv _ ih => exact Compacted.drop hv (ih (fun e he => hz e (List.mem_cons_of_mem _ he)))

theorem Compacted.refl_of_ge {ts : Val} (L : List (Key × Val)) (h : ∀ e ∈ L, ¬ e.2 < ts) : Compacted ts L L := by
  induction L with
  | nil => exact Compacted.nil
  | cons e rest ih =>
    exact Compacted.keep (h e (by simp)) (ih (fun x hx => h x (List.mem_cons_of_mem _ hx)))

/-- the leaf case of `node.compact` -/
theorem compacted_leaf (ts : Val) (init : List (Key × Val)) (hi : Key) (x : Val) :
    Compacted ts (init ++ [(hi, x)])
      (init.filter (fun e => !(BitVec.ult e.2 ts)) ++ [(hi, if BitVec.ult x ts then 0#64 else x)]) := by
  apply Compacted.append
  · induction init with
    | nil => exact Compacted.nil
    | cons e rest ih =>
      obtain ⟨k, v⟩ := e
      by_cases hv : BitVec.ult v ts = true
      · simp only [List.filter, hv, Bool.not_true]
        exact Compacted.drop (BitVec.ult_iff_lt.mp hv) ih
      · have hv' : BitVec.ult v ts = false := by simpa using hv
        simp only [List.filter, hv', Bool.not_false]
        exact Compacted.keep (fun h => hv (BitVec.ult_iff_lt.mpr h)) ih
  · by_cases hv : BitVec.ult x ts = true
    · simp only [hv, if_true]
      exact Compacted.zero (BitVec.ult_iff_lt.mp hv) Compacted.nil
    · simp only [hv, if_false]
      exact Compacted.keep (fun h => hv (BitVec.ult_iff_lt.mpr h)) Compacted.nil

/-! ## page ids -/

/-- a page id the code can store in a value word and tell from the nil page -/
def PosPid (p : Nat) : Prop := 0 < p ∧ p < 2 ^ 64

theorem childWord_pos {c : Node} (h : PosPid c.pid) : BitVec.ult (childWord c) 1#64 = false := by
  unfold childWord
  have h1 : (1#64 : BitVec 64) = w 1 := rfl
  rw [h1, BitVec.ult_eq_decide, w_toNat h.2, w_toNat (by omega)]
  simp; exact Nat.pos_iff_ne_zero.mp h.1

theorem childWord_null : BitVec.ult (childWord Node.null) 1#64 = true := by decide

theorem pid_mem_pids {c : Node} (h : c ≠ .null) : c.pid ∈ pids c := by
  cases c with
  | null => exact absurd rfl h
  | leaf p es => simp [pids, Node.pid]
  | inner p es => simp [pids, Node.pid]

/-! ## weakening the lower bound -/

mutual
theorem okNode_lo_mono (mk : Nat) : ∀ (n : Node) (b : Nat) (lo lo' hi : Key), okNode mk b n lo hi → lo' ≤ lo →
    okNode mk b n lo' hi
  | .null, _, _, _, _, h, _ => absurd h id
  | .leaf _ es, _, _, _, _, h, hl => ⟨h.1.mono hl, h.2.1, h.2.2⟩
  | .inner _ es, _, lo, lo', _, h, hl => ⟨okEnts_lo_mono mk es lo lo' h.1 hl, h.2.1, h.2.2⟩
theorem okEnts_lo_mono (mk : Nat) : ∀ (es : List (Key × Node)) (lo lo' : Key), okEnts mk es lo → lo' ≤ lo →
    okEnts mk es lo'
  | [], _, _, _, _ => trivial
  | (ki, c) :: rest, lo, lo', h, hl => ⟨okNode_lo_mono mk c (mk - 1) lo lo' ki h.1 hl, h.2⟩
end

/-! ## the loop of `Tree.compact` over the children, as a relation -/

/-- `EntsRel mk ts lo es es1`: `es1` has the keys of `es`; every child is either the compacted
child (still well-formed, same page) or nil — the latter only for a child that is not the last
one and all of whose entries could be dropped. -/
inductive EntsRel (mk : Nat) (ts : Val) : Key → List (Key × Node) → List (Key × Node) → Prop
  | nil {lo : Key} : EntsRel mk ts lo [] []
  | keep {lo ki : Key} {c c' : Node} {rest rest' : List (Key × Node)} :
      okNode mk (mk - 1) c' lo ki → Compacted ts (toList c) (toList c') → PosPid c'.pid →
      (∀ p ∈ pids c', p ∈ pids c) → EntsRel mk ts ki rest rest' →
      EntsRel mk ts lo ((ki, c) :: rest) ((ki, c') :: rest')
  | drop {lo ki : Key} {c : Node} {rest rest' : List (Key × Node)} :
      rest ≠ [] → Compacted ts (toList c) [] → EntsRel mk ts ki rest rest' →
      EntsRel mk ts lo ((ki, c) :: rest) ((ki, Node.null) :: rest')

/-- what `n.compact(1)` does to the entries of an inner node: nil children go -/
def dropNil (es : List (Key × Node)) : List (Key × Node) :=
  es.filter (fun e => !(BitVec.ult (childWord e.2) 1#64))

theorem EntsRel.length {mk : Nat} {ts : Val} {lo : Key} {es es1 : List (Key × Node)}
    (h : EntsRel mk ts lo es es1) : es1.length = es.length := by
  induction h with
  | nil => rfl
  | keep _ _ _ _ _ ih => simp [ih]
  | drop _ _ _ ih => simp [ih]

theorem EntsRel.lastKeyD {mk : Nat} {ts : Val} {lo : Key} {es es1 : List (Key × Node)}
    (h : EntsRel mk ts lo es es1) : ∀ z, lastKeyD z es1 = lastKeyD z es := by
  induction h with
  | nil => intro z; rfl
  | keep _ _ _ _ _ ih => intro z; simp only [lastKeyD_cons]; exact ih _
  | drop _ _ _ ih => intro z; simp only [lastKeyD_cons]; exact ih _

theorem EntsRel.sorted {mk : Nat} {ts : Val} {lo : Key} {es es1 : List (Key × Node)}
    (h : EntsRel mk ts lo es es1) : ∀ {z : Key}, SortedFrom z es → SortedFrom z es1 := by
  induction h with
  | nil => intro z _; trivial
  | keep _ _ _ _ _ ih => intro z hs; exact ⟨hs.1, ih hs.2⟩
  | drop _ _ _ ih => intro z hs; exact ⟨hs.1, ih hs.2⟩

/-- the last child is never nil -/
theorem EntsRel.last_pos {mk : Nat} {ts : Val} {lo : Key} {es es1 : List (Key × Node)}
    (h : EntsRel mk ts lo es es1) : ∀ init e, es1 = init ++ [e] → BitVec.ult (childWord e.2) 1#64 = false := by
  induction h with
  | nil => intro init e he; simp at he
  | @keep lo ki c c' rest rest' hok _ hpos _ hr ih =>
    intro init e he
    cases init with
    | nil =>
      simp at he
      rw [← he.1]; exact childWord_pos hpos
    | cons y ys =>
      simp at he
      exact ih ys e he.2
  | @drop lo ki c rest rest' hne _ hr ih =>
    intro init e he
    cases init with
    | nil =>
      simp at he
      have := hr.length
      rw [he.2] at this
      cases rest with
      | nil => exact absurd rfl hne
      | cons _ _ => simp at this
    | cons y ys =>
      simp at he
      exact ih ys e he.2

theorem EntsRel.dropNil {mk : Nat} {ts : Val} {lo : Key} {es es1 : List (Key × Node)}
    (h : EntsRel mk ts lo es es1) (hs : SortedFrom lo es) :
    okEnts mk (dropNil es1) lo ∧ Compacted ts (toListEnts es) (toListEnts (dropNil es1)) ∧
      (∀ p ∈ pidsEnts (dropNil es1), p ∈ pidsEnts es) ∧ (dropNil es1).length ≤ es.length ∧
      (es ≠ [] → dropNil es1 ≠ [] ∧ RV.Tree.lastKeyD lo (dropNil es1) = RV.Tree.lastKeyD lo es) := by
  induction h with
  | nil => exact ⟨trivial, Compacted.nil, by intro p hp; exact hp, by simp [RV.Tree.dropNil], fun h => absurd rfl h⟩
  | @keep lo ki c c' rest rest' hok hcomp hpos hpid hr ih =>
    obtain ⟨i1, i2, i3, i4, i5⟩ := ih hs.2
    have hd : RV.Tree.dropNil ((ki, c') :: rest') = (ki, c') :: RV.Tree.dropNil rest' := by
      simp [RV.Tree.dropNil, List.filter, childWord_pos hpos]
    rw [hd]
    refine ⟨⟨hok, i1⟩, ?_, ?_, by simp at i4 ⊢; omega, fun _ => ⟨by simp, ?_⟩⟩
    · simp only [toListEnts]; exact hcomp.append i2
    · intro p hp
      simp only [pidsEnts, List.mem_append] at hp ⊢
      rcases hp with hp | hp
      · exact Or.inl (hpid p hp)
      · exact Or.inr (i3 p hp)
    · simp only [lastKeyD_cons]
      cases rest with
      | nil => cases hr; rfl
      | cons y ys => exact (i5 (by simp)).2
  | @drop lo ki c rest rest' hne hcomp hr ih =>
    obtain ⟨i1, i2, i3, i4, i5⟩ := ih hs.2
    have hd : RV.Tree.dropNil ((ki, Node.null) :: rest') = RV.Tree.dropNil rest' := by
      simp [RV.Tree.dropNil, List.filter, childWord_null]
    rw [hd]
    obtain ⟨j1, j2⟩ := i5 hne
    refine ⟨okEnts_lo_mono mk _ ki lo i1 (by have := hs.1; simp at this; bv_omega), ?_, ?_, by simp at i4 ⊢; omega,
      fun _ => ⟨j1, ?_⟩⟩
    · simp only [toListEnts]
      have := hcomp.append i2
      simpa using this
    · intro p hp
      simp only [pidsEnts, List.mem_append]
      exact Or.inr (i3 p hp)
    · simp only [lastKeyD_cons]
      rw [lastKeyD_of_ne_nil j1 lo ki, j2]

theorem EntsRel.pids_dropNil {mk : Nat} {ts : Val} {lo : Key} {es es1 : List (Key × Node)}
    (h : EntsRel mk ts lo es es1) : pidsEnts (RV.Tree.dropNil es1) = pidsEnts es1 := by
  induction h with
  | nil => rfl
  | @keep lo ki c c' rest rest' hok hcomp hpos hpid hr ih =>
    have hd : RV.Tree.dropNil ((ki, c') :: rest') = (ki, c') :: RV.Tree.dropNil rest' := by
      simp [RV.Tree.dropNil, List.filter, childWord_pos hpos]
    rw [hd]; simp only [pidsEnts, ih]
  | @drop lo ki c rest rest' hne hcomp hr ih =>
    have hd : RV.Tree.dropNil ((ki, Node.null) :: rest') = RV.Tree.dropNil rest' := by
      simp [RV.Tree.dropNil, List.filter, childWord_null]
    rw [hd]; simp only [pidsEnts, pids, ih, List.nil_append]

theorem EntsRel.count_dropNil {mk : Nat} {ts : Val} {lo : Key} {es es1 : List (Key × Node)}
    (h : EntsRel mk ts lo es es1) : countLeafKeysEnts (RV.Tree.dropNil es1) = countLeafKeysEnts es1 := by
  induction h with
  | nil => rfl
  | @keep lo ki c c' rest rest' hok hcomp hpos hpid hr ih =>
    have hd : RV.Tree.dropNil ((ki, c') :: rest') = (ki, c') :: RV.Tree.dropNil rest' := by
      simp [RV.Tree.dropNil, List.filter, childWord_pos hpos]
    rw [hd]; simp only [countLeafKeysEnts, ih]
  | @drop lo ki c rest rest' hne hcomp hr ih =>
    have hd : RV.Tree.dropNil ((ki, Node.null) :: rest') = RV.Tree.dropNil rest' := by
      simp [RV.Tree.dropNil, List.filter, childWord_null]
    rw [hd]; simp only [countLeafKeysEnts, countLeafKeys, ih, Nat.zero_add]

theorem Alloc.leafKeys_mk (a : Nat) (b : List Nat) (c d : Int) (e f : Nat) (g : Option String) :
    (Alloc.mk a b c d e f g).leafKeys = c := rfl

/-! ## `Tree.compact` by mutual induction -/

theorem w_sub_one {n : Nat} (h1 : 1 ≤ n) (h2 : n < 2 ^ 64) : w n - 1#64 = w (n - 1) := by
  apply BitVec.eq_of_toNat_eq
  rw [BitVec.toNat_sub, w_toNat h2, w_toNat (by omega)]
  simp; omega

/-- the drop condition of `Tree.compact`: nothing left below the child, and it is not the last child -/
theorem compactDropChild_eq {rem i N : Nat} (hrem : rem < 2 ^ 63) (hN : N < 2 ^ 63) (hi : i < N) :
    compactDropChild (w rem) (w i) (w N) = decide (rem = 0 ∧ i + 1 < N) := by
  unfold compactDropChild
  have h0 : (0#64 : BitVec 64) = w 0 := rfl
  rw [h0, w_beq (by omega) (by omega), w_sub_one (by omega) (by omega), w_slt (by omega) (by omega)]
  by_cases h1 : rem = 0 <;> by_cases h2 : i + 1 < N <;> simp [h1, h2] <;> omega

theorem inner_compact {mk : Nat} {ts : Val} {lo : Key} {es es1 : List (Key × Node)}
    (h : EntsRel mk ts lo es es1) (hs : SortedFrom lo es) (hne : es ≠ []) (hlen : es.length < 2 ^ 63) :
    nodeCompact childWord (fun _ => Node.null) es1 1#64 = (dropNil es1, (dropNil es1).length) := by
  have hne1 : es1 ≠ [] := by
    intro e; have := h.length; rw [e] at this; simp at this
    exact hne (List.eq_nil_of_length_eq_zero this.symm)
  obtain ⟨init, x, he⟩ := exists_init_last hne1
  have hs1 := h.sorted hs
  rw [he] at hs1
  have hlt := (sortedFrom_prefix_lt hs1).1
  have hpos := h.last_pos init _ he
  have hl1 : (init ++ [(lastKeyD 0#64 es1, x)]).length < 2 ^ 63 := by
    rw [← he, h.length]; exact hlen
  have := nodeCompact_spec childWord (fun _ => Node.null) (fun _ => by decide) init (lastKeyD 0#64 es1) x 1#64 hlt hl1
  rw [← he] at this
  rw [this]
  simp only at hpos
  simp only [hpos, Bool.false_eq_true, if_false, and_false]
  have hd : dropNil es1 = init.filter (fun e => !(BitVec.ult (childWord e.2) 1#64)) ++ [(lastKeyD 0#64 es1, x)] := by
    conv => lhs; rw [he]
    unfold dropNil
    rw [List.filter_append]
    simp [List.filter, hpos]
  rw [hd]; simp

mutual
theorem compactNode_spec {mk : Nat} (hmk : mk < 2 ^ 31) (ts : Val) : ∀ (n : Node) (b : Nat) (lo hi : Key) (a : Alloc),
    okNode mk b n lo hi → b ≤ mk → (∀ p ∈ pids n, PosPid p) → a.fault = none →
    (compactNode ts n a).2.1.fault = none ∧ okNode mk b (compactNode ts n a).1 lo hi ∧
    Compacted ts (toList n) (toList (compactNode ts n a).1) ∧ (compactNode ts n a).1.pid = n.pid ∧
    (compactNode ts n a).1.isLeafC = n.isLeafC ∧ (∀ p ∈ pids (compactNode ts n a).1, p ∈ pids n) ∧
    (compactNode ts n a).2.2 ≤ (compactNode ts n a).1.len ∧
    ((compactNode ts n a).2.2 = 0 → toList (compactNode ts n a).1 = [(hi, 0#64)] ∧ 0#64 < ts ∧
      pids (compactNode ts n a).1 = [(compactNode ts n a).1.pid] ∧
      countLeafKeys (compactNode ts n a).1 = (compactNode ts n a).1.numKeys) ∧
    Cons a (compactNode ts n a).2.1 (pids n) (pids (compactNode ts n a).1) ∧
    (compactNode ts n a).2.1.nextPage = a.nextPage ∧
    (compactNode ts n a).2.1.leafKeys = a.leafKeys + (countLeafKeys (compactNode ts n a).1 : Int) ∧
    (compactNode ts n a).2.1.dataLen = a.dataLen ∧ (compactNode ts n a).2.1.curSz = a.curSz
  | .null, _, _, _, _, h, _, _, _ => absurd h id
  | .leaf p es, b, lo, hi, a, h, hb, hp, ha => by
    obtain ⟨init, x, he⟩ := exists_init_last h.2.1.1
    rw [h.2.1.2] at he
    have hs := h.1
    have hlen : es.length ≤ b := h.2.2
    subst he
    have hlt := (sortedFrom_prefix_lt hs).1
    have hspec := nodeCompact_spec (id : Val → Val) (fun _ => 0#64) (fun _ => rfl) init hi x ts hlt
      (by omega)
    have hcomp := compacted_leaf ts init hi x
    have hfl : (init.filter (fun e => !(BitVec.ult e.2 ts))).length ≤ init.length := List.length_filter_le _ _
    rw [compactNode]
    simp only [id] at hspec
    rw [hspec]
    simp only
    refine ⟨ha, ⟨hcomp.sorted hs, ⟨by simp, by rw [lastKeyD_append]; rfl⟩, by simp at hlen ⊢; omega⟩, hcomp, rfl, rfl,
      fun p hp => hp, ?_, ?_, by simp only [pids]; exact ⟨Nat.le_refl _, fun x => by simp, rfl⟩, by first | rfl | trivial,
      by simp only [countLeafKeys], by first | rfl | trivial, by first | rfl | trivial⟩
    · simp only [Node.len]
      split <;> simp
    · intro h0
      split at h0
      · rename_i hc
        obtain ⟨c1, c2⟩ := hc
        rw [toList, c1]
        refine ⟨by simp [c2], ?_, rfl, by rw [countLeafKeys]⟩
        have := BitVec.ult_iff_lt.mp c2
        bv_omega
      · omega
  | .inner p es, b, lo, hi, a, h, hb, hp, ha => by
    have hlen : es.length ≤ b := h.2.2
    have hnk : (Node.inner p es).numKeys = es.length := Node.numKeys_eq _ (by simp [Node.len]; omega)
    have hpe : ∀ q ∈ pidsEnts es, PosPid q := fun q hq => hp q (by simp [pids, hq])
    obtain ⟨r1, r2, r3, r4, r5, r6, r7⟩ := compactEnts_spec hmk ts es lo 0 es.length a h.1 hpe ha (by omega) (by omega)
    have hpd := r2.pids_dropNil
    have hcd := r2.count_dropNil
    have hs := okEnts_sorted h.1
    have hne : es ≠ [] := h.2.1.1
    have hic := inner_compact r2 hs hne (by omega)
    obtain ⟨d1, d2, d3, d4, d5⟩ := r2.dropNil hs
    obtain ⟨d6, d7⟩ := d5 hne
    rw [compactNode]
    simp only [hnk]
    generalize compactEnts ts es 0 es.length a = res at *
    obtain ⟨es1, a1⟩ := res
    simp only at r1 r2 r3 r4 r5 r6 r7 hpd hcd hic d1 d2 d3 d4 d6 d7 ⊢
    rw [hic]
    simp only
    refine ⟨r1, ⟨d1, ⟨d6, ?_⟩, by omega⟩, d2, rfl, rfl, ?_, Nat.le_refl _, ?_, ?_, r4, ?_, r6, r7⟩
    · rw [lastKeyD_of_ne_nil d6 0#64 lo, d7, lastKeyD_of_ne_nil hne lo 0#64]; exact h.2.1.2
    · intro q hq
      simp only [pids, List.mem_cons] at hq ⊢
      rcases hq with hq | hq
      · exact Or.inl hq
      · exact Or.inr (d3 q hq)
    · intro h0
      exfalso
      exact d6 (List.eq_nil_of_length_eq_zero h0)
    · refine ⟨r3.1, fun x => ?_, r3.3⟩
      have := r3.2 x
      simp only [pids, hpd, List.count_cons] at this ⊢
      omega
    · rw [countLeafKeys, hcd]; exact r5
theorem compactEnts_spec {mk : Nat} (hmk : mk < 2 ^ 31) (ts : Val) : ∀ (es : List (Key × Node)) (lo : Key) (i N : Nat)
    (a : Alloc), okEnts mk es lo → (∀ p ∈ pidsEnts es, PosPid p) → a.fault = none → i + es.length = N → N ≤ mk →
    (compactEnts ts es i N a).2.fault = none ∧ EntsRel mk ts lo es (compactEnts ts es i N a).1 ∧
    Cons a (compactEnts ts es i N a).2 (pidsEnts es) (pidsEnts (compactEnts ts es i N a).1) ∧
    (compactEnts ts es i N a).2.nextPage = a.nextPage ∧
    (compactEnts ts es i N a).2.leafKeys = a.leafKeys + (countLeafKeysEnts (compactEnts ts es i N a).1 : Int) ∧
    (compactEnts ts es i N a).2.dataLen = a.dataLen ∧ (compactEnts ts es i N a).2.curSz = a.curSz
  | [], _, _, _, a, _, _, ha, _, _ => by
    rw [compactEnts]; exact ⟨ha, EntsRel.nil, Cons.same rfl rfl rfl _, rfl, by simp [countLeafKeysEnts], rfl, rfl⟩
  | (ki, c) :: rest, lo, i, N, a, h, hp, ha, hiN, hN => by
    have hloki := okNode_lo_lt_hi h.1
    have hassert : compactKeyAssert ki = true := by
      unfold compactKeyAssert; rw [BitVec.ult_iff_lt]; bv_omega
    have hpc : ∀ q ∈ pids c, PosPid q := fun q hq => hp q (by simp [pidsEnts, hq])
    have hpr : ∀ q ∈ pidsEnts rest, PosPid q := fun q hq => hp q (by simp [pidsEnts, hq])
    obtain ⟨n1, n2, n3, n4, n5, n6, n7, n8, n9, n10, n11, n12, n13⟩ := compactNode_spec hmk ts c (mk - 1) lo ki a h.1 (by omega) hpc ha
    have hcne : c ≠ .null := okNode_ne_null h.1
    have hlen' := okNode_len n2
    have hrem : (compactNode ts c a).2.2 < 2 ^ 63 := by omega
    have hdrop := compactDropChild_eq (rem := (compactNode ts c a).2.2) (i := i) (N := N) hrem (by omega)
      (by simp at hiN; omega)
    rw [compactEnts]
    simp only [hassert, Bool.not_true, Bool.false_eq_true, if_false]
    generalize hcn : compactNode ts c a = res at *
    obtain ⟨c', a1, rem⟩ := res
    simp only at n1 n2 n3 n4 n5 n6 n7 n8 n9 n10 n11 n12 n13 hlen' hrem hdrop ⊢
    simp only [hdrop]
    by_cases hd : rem = 0 ∧ i + 1 < N
    · simp only [hd, and_self, decide_true, if_true]
      have hrne : rest ≠ [] := by
        intro e; subst e; simp at hiN; omega
      obtain ⟨t1, t2, t3, t4⟩ := n8 hd.1
      have hnil : Compacted ts (toList c) [] := by
        apply n3.to_nil _ t2
        rw [t1]; intro e he; simp at he; rw [he]
      generalize ha2 : Alloc.mk a1.nextPage (c'.pid :: a1.free) (a1.leafKeys - (c'.numKeys : Int))
          (a1.pagesFree + 1) a1.dataLen a1.curSz a1.fault = a2
      have hfa2 : a2.fault = none := by rw [← ha2]; exact n1
      have hfree : Cons a a2 (pids c) [] := by
        rw [← ha2]
        refine ⟨n9.1, fun x => ?_, ?_⟩
        · have := n9.2 x
          rw [t3] at this
          simp only [List.count_cons, List.count_nil] at this ⊢
          omega
        · have := n9.3
          simp only [List.length_cons] at this ⊢
          omega
      have hlk2 : a2.leafKeys = a.leafKeys := by rw [← ha2]; simp only; rw [n11, t4]; omega
      have hnp2 : a2.nextPage = a.nextPage := by rw [← ha2]; exact n10
      have hdl2 : a2.dataLen = a.dataLen := by rw [← ha2]; exact n12
      have hcs2 : a2.curSz = a.curSz := by rw [← ha2]; exact n13
      obtain ⟨u1, u2, u3, u4, u5, u6, u7⟩ := compactEnts_spec hmk ts rest ki (i + 1) N a2 h.2 hpr hfa2
        (by simp at hiN ⊢; omega) hN
      generalize compactEnts ts rest (i + 1) N a2 = res2 at *
      obtain ⟨rest', a3⟩ := res2
      simp only at u1 u2 u3 u4 u5 u6 u7 ⊢
      refine ⟨u1, EntsRel.drop hrne hnil u2, ?_, by rw [u4, hnp2], ?_, by rw [u6, hdl2], by rw [u7, hcs2]⟩
      · have := hfree.seq u3
        simpa [pidsEnts, pids] using this
      · simp only [countLeafKeysEnts, countLeafKeys]
        rw [u5, hlk2]; omega
    · simp only [hd, decide_false, Bool.false_eq_true, if_false]
      obtain ⟨u1, u2, u3, u4, u5, u6, u7⟩ := compactEnts_spec hmk ts rest ki (i + 1) N a1 h.2 hpr n1
        (by simp at hiN ⊢; omega) hN
      generalize compactEnts ts rest (i + 1) N a1 = res2 at *
      obtain ⟨rest', a3⟩ := res2
      simp only at u1 u2 u3 u4 u5 u6 u7 ⊢
      refine ⟨u1, EntsRel.keep n2 n3 ?_ n6 u2, ?_, by rw [u4, n10], ?_, by rw [u6, n12], by rw [u7, n13]⟩
      · rw [n4]; exact hpc _ (pid_mem_pids hcne)
      · have := n9.seq u3
        simpa [pidsEnts] using this
      · simp only [countLeafKeysEnts]
        rw [u5, n11]; omega
end

/-! ## `Tree.DeleteBelow` -/

theorem deleteBelow_spec {cfg : Cfg} (hc : CfgOk cfg) (t : Tree) (hinv : TreeInv cfg t)
    (hp : ∀ p ∈ pids t.root, PosPid p) (ts : Val) :
    TreeInv cfg (deleteBelow t ts) ∧
      (∀ k, abs (deleteBelow t ts) k = if abs t k < ts then 0#64 else abs t k) ∧
      (∀ p ∈ pids (deleteBelow t ts).root, p ∈ pids t.root) ∧
      Cons t.a (deleteBelow t ts).a (pids t.root) (pids (deleteBelow t ts).root) ∧
      (deleteBelow t ts).a.nextPage = t.a.nextPage ∧
      (deleteBelow t ts).a.leafKeys = countLeafKeys (deleteBelow t ts).root ∧
      (deleteBelow t ts).root.pid = t.root.pid ∧
      (deleteBelow t ts).a.dataLen = t.a.dataLen ∧ (deleteBelow t ts).a.curSz = t.a.curSz := by
  have hmk := hc.lt
  have hge := hc.ge4
  obtain ⟨n1, n2, n3, n4, n5, n6, n7, n8, n9, n10, n11, n12, n13⟩ :=
    compactNode_spec hmk ts t.root (cfg.maxKeys - 1) 0#64 absoluteMax { t.a with leafKeys := 0 } hinv.ok (by omega) hp
      hinv.nofault
  have hlen := okNode_len n2
  have hpos : 1 ≤ (compactNode ts t.root { t.a with leafKeys := 0 }).1.len := by
    generalize (compactNode ts t.root { t.a with leafKeys := 0 }).1 = r at n2
    cases r with
    | null => exact absurd n2 id
    | leaf p es =>
      have := n2.2.1.1
      cases es with
      | nil => exact absurd rfl this
      | cons _ _ => simp [Node.len]
    | inner p es =>
      have := n2.2.1.1
      cases es with
      | nil => exact absurd rfl this
      | cons _ _ => simp [Node.len]
  have hassert : deleteBelowAssert (w (compactNode ts t.root { t.a with leafKeys := 0 }).1.numKeys) = true := by
    unfold deleteBelowAssert
    rw [Node.numKeys_eq _ (by omega)]
    have h1 : (1#64 : BitVec 64) = w 1 := rfl
    rw [h1, w_sle (by omega) (by omega)]; simp; omega
  have hs := (okNode_toList cfg.maxKeys t.root _ _ _ hinv.ok).1
  unfold deleteBelow
  simp only [hassert, if_true]
  refine ⟨⟨by rw [n5]; exact hinv.root_inner, n2, n1⟩, ?_, n6, ⟨n9.1, n9.2, n9.3⟩, n10, by rw [n11]; simp, n4, n12, n13⟩
  intro k
  exact n3.lookup hs k

end RV.Tree
