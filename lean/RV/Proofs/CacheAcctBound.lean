import RV.Proofs.CacheAcctInv
/-!
# C03 (cache level): along benign runs the accounted cost never exceeds MaxCost

A step is *benign* when it does not raise the accounted cost of a resident key (an update, or
a `policy.Add` of a key that is already accounted, with a larger cost), does not lower
`MaxCost`, and (for a spawned `Set`) supplies a non-negative cost.  With a non-negative
`Config.Cost` function and `MaxCost ≥ 0`, every state of a run made of benign steps has
`0 ≤ every accounted cost` and `used ≤ maxCost`.
-/
namespace RV.Cache
open RV Gen.Cache

/-- static side conditions: `MaxCost ≥ 0` and `Config.Cost` never returns a negative cost -/
structure CfgOk (cfg : Cfg) : Prop where
  max0 : 0 ≤ cfg.maxCost
  costFn : ∀ f, cfg.costFn = some f → ∀ v, 0 ≤ f v

/-- processing item `i` (already cost-pre-processed) would raise the accounted cost of its key -/
def Raises (s : State) (i : Item) : Prop :=
  ∃ prev, s.pol.costs.lookup i.key = some prev ∧ prev < i.cost ∧
    (i.flag = .upd ∨ (i.flag = .new ∧ i.cost ≤ s.pol.maxCost))

/-- the step `a` taken in state `s` is benign -/
def Benign (s : State) : Action → Prop
  | .spawn _ (.set _ _ _ cost _) => 0 ≤ cost
  | .client t _ => ∀ m, s.cl t = .updMax m → s.pol.maxCost ≤ m
  | .applier _ => ∀ i, s.app = .costed i → ¬ Raises s i
  | _ => True

/-- states reached by runs all of whose steps are benign -/
inductive ReachB (cfg : Cfg) : State → Prop
  | init (now : Time) : ReachB cfg (init cfg now)
  | step {s s' : State} {a : Action} : ReachB cfg s → Benign s a → step cfg s a = some s' → ReachB cfg s'

theorem ReachB.reach {cfg : Cfg} {s : State} (h : ReachB cfg s) : Reach cfg s := by
  induction h with
  | init now => exact Reach.of_init cfg now
  | step _ _ hs ih => exact ih.of_step hs

/-- the same as a predicate on action lists: every step of the run from `s` is benign -/
def runB (cfg : Cfg) (s : State) : List Action → Prop
  | [] => True
  | a :: as => Benign s a ∧ ∀ s', step cfg s a = some s' → runB cfg s' as

theorem reachB_of_runB {cfg : Cfg} {s0 s : State} {acts : List Action} (h0 : ReachB cfg s0)
    (hb : runB cfg s0 acts) (hr : run cfg s0 acts = some s) : ReachB cfg s := by
  induction acts generalizing s0 with
  | nil => simp [run] at hr; subst hr; exact h0
  | cons a as ih =>
    simp only [run] at hr
    cases hs : step cfg s0 a with
    | none => simp [hs] at hr
    | some s1 =>
      simp only [hs] at hr
      exact ih (h0.step hb.1 hs) (hb.2 s1 hs) hr

/-- executable versions (used by the examples) -/
def raisesB (s : State) (i : Item) : Bool :=
  match s.pol.costs.lookup i.key with
  | none => false
  | some prev => decide (prev < i.cost) && (i.flag == .upd || (i.flag == .new && decide (i.cost ≤ s.pol.maxCost)))

def benignB (s : State) : Action → Bool
  | .spawn _ (.set _ _ _ cost _) => decide (0 ≤ cost)
  | .client t _ => match s.cl t with
    | .updMax m => decide (s.pol.maxCost ≤ m)
    | _ => true
  | .applier _ => match s.app with
    | .costed i => !raisesB s i
    | _ => true
  | _ => true

def runBB (cfg : Cfg) (s : State) : List Action → Bool
  | [] => true
  | a :: as => benignB s a && match step cfg s a with
    | none => true
    | some s' => runBB cfg s' as

theorem raises_of_raisesB {s : State} {i : Item} (h : Raises s i) : raisesB s i = true := by
  obtain ⟨prev, hl, hlt, hf⟩ := h
  unfold raisesB; rw [hl]
  rcases hf with hf | ⟨hf, hle⟩
  · simp [hlt, hf]
  · simp [hlt, hf, hle]

theorem benign_of_benignB {s : State} {a : Action} (h : benignB s a = true) : Benign s a := by
  cases a with
  | spawn t c =>
    cases c <;> first | trivial | (simpa [benignB, Benign] using h)
  | client t ch =>
    intro m hm
    simp only [benignB, hm] at h
    simpa using h
  | applier ch =>
    intro i hi hr
    simp only [benignB, hi, raises_of_raisesB hr] at h
    cases h
  | done t => trivial
  | tick d => trivial

theorem runB_of_runBB {cfg : Cfg} {s : State} {acts : List Action} (h : runBB cfg s acts = true) : runB cfg s acts := by
  induction acts generalizing s with
  | nil => trivial
  | cons a as ih =>
    simp only [runBB, Bool.and_eq_true] at h
    refine ⟨benign_of_benignB h.1, fun s' hs => ih ?_⟩
    have := h.2; rw [hs] at this; exact this

/-- a prefix of a benign run is a benign run -/
theorem runB_prefix {cfg : Cfg} {s0 : State} {pre post : List Action} (hb : runB cfg s0 (pre ++ post)) :
    runB cfg s0 pre := by
  induction pre generalizing s0 with
  | nil => trivial
  | cons a as ih => exact ⟨hb.1, fun s' hs => ih (hb.2 s' hs)⟩

/-! ### the invariant -/

def BufElem.costOk : BufElem → Prop
  | .item i => 0 ≤ i.cost
  | .marker _ => True

def CPc.costOk : CPc → Prop
  | .setStart _ _ _ cost _ => 0 ≤ cost
  | .setUpd i => 0 ≤ i.cost
  | .setExit i _ => 0 ≤ i.cost
  | .setSend i => 0 ≤ i.cost
  | _ => True

def APc.costOk : APc → Prop
  | .item i => 0 ≤ i.cost
  | .costed i => 0 ≤ i.cost
  | _ => True

structure Bound (s : State) : Prop where
  cl : ∀ t, (s.cl t).costOk
  buf : ∀ e ∈ s.buf, e.costOk
  sendq : ∀ p ∈ s.sendq, p.2.costOk
  app : s.app.costOk
  nonneg : AMap.Nonneg s.pol.costs
  max0 : 0 ≤ s.pol.maxCost
  le : s.pol.used ≤ s.pol.maxCost

theorem unblockedPc_costOk (pc : CPc) : (unblockedPc pc).costOk ↔ pc.costOk := by
  cases pc <;> simp [unblockedPc, CPc.costOk]

theorem bound_cl_frame {s s' : State} (h : Bound s) (t : Tid) (hne : ∀ t', t' ≠ t → s'.cl t' = s.cl t')
    (ht : (s'.cl t).costOk) (hbuf : s'.buf = s.buf) (hsq : s'.sendq = s.sendq) (happ : s'.app = s.app)
    (hpol : s'.pol = s.pol) : Bound s' := by
  refine ⟨?_, by rw [hbuf]; exact h.buf, by rw [hsq]; exact h.sendq, by rw [happ]; exact h.app,
    by rw [hpol]; exact h.nonneg, by rw [hpol]; exact h.max0, by rw [hpol]; exact h.le⟩
  intro t'
  by_cases e : t' = t
  · subst e; exact ht
  · rw [hne t' e]; exact h.cl t'

/-- a receive keeps the item-cost clauses and hands out an element with a non-negative cost -/
theorem recvBuf_bound {s s1 : State} {x : BufElem} (h : Bound s) (hr : recvBuf s = some (x, s1)) :
    x.costOk ∧ (∀ t, (s1.cl t).costOk) ∧ (∀ e ∈ s1.buf, e.costOk) ∧ (∀ p ∈ s1.sendq, p.2.costOk) := by
  obtain ⟨rest, hb, hcase⟩ := recvBuf_cases hr
  have hx : x.costOk := h.buf x (by rw [hb]; exact List.mem_cons_self)
  have hrest : ∀ e ∈ rest, e.costOk := fun e he => h.buf e (by rw [hb]; exact List.mem_cons_of_mem _ he)
  rcases hcase with ⟨_, rfl⟩ | ⟨t0, e0, q, hq, rfl⟩
  · exact ⟨hx, h.cl, hrest, h.sendq⟩
  · refine ⟨hx, ?_, ?_, ?_⟩
    · intro t
      by_cases e : t = t0
      · subst e; simp only [setCl_cl_self]; exact (unblockedPc_costOk _).mpr (h.cl t)
      · rw [setCl_cl_ne _ _ _ e]; exact h.cl t
    · intro e he
      simp only [setCl_buf, List.mem_append, List.mem_singleton] at he
      rcases he with he | rfl
      · exact hrest e he
      · exact h.sendq (t0, e) (by rw [hq]; exact List.mem_cons_self)
    · intro p hp
      simp only [setCl_sendq] at hp
      exact h.sendq p (by rw [hq]; exact List.mem_cons_of_mem _ hp)

/-- a blocking send of an element with a non-negative cost -/
theorem sendBlocking_bound {cfg : Cfg} {s : State} (h : Bound s) (t : Tid) (e : BufElem) (sent blocked : CPc)
    (he : e.costOk) (h1 : sent.costOk) (h2 : blocked.costOk) : Bound (sendBlocking cfg s t e sent blocked) := by
  unfold sendBlocking
  split
  · refine ⟨?_, ?_, h.sendq, h.app, h.nonneg, h.max0, h.le⟩
    · intro t'
      by_cases e' : t' = t
      · subst e'; simpa using h1
      · rw [setCl_cl_ne _ _ _ e']; exact h.cl t'
    · intro x hx
      simp only [setCl_buf, List.mem_append, List.mem_singleton] at hx
      rcases hx with hx | rfl
      · exact h.buf x hx
      · exact he
  · refine ⟨?_, h.buf, ?_, h.app, h.nonneg, h.max0, h.le⟩
    · intro t'
      by_cases e' : t' = t
      · subst e'; simpa using h2
      · rw [setCl_cl_ne _ _ _ e']; exact h.cl t'
    · intro x hx
      simp only [setCl_sendq, List.mem_append, List.mem_singleton] at hx
      rcases hx with hx | rfl
      · exact h.sendq x hx
      · exact he

open Lean in
/-- `bound_cl stX`: client step `stX` of thread `t` moves no item into the buffer and leaves the policy alone -/
macro "bound_cl " f:ident tt:ident : tactic => do
  let n := f.getId
  let clne := mkIdent (n.appendAfter "_cl_ne")
  let pol := mkIdent (n.appendAfter "_pol")
  let buf := mkIdent (n.appendAfter "_buf")
  let sq := mkIdent (n.appendAfter "_sendq")
  let app := mkIdent (n.appendAfter "_app")
  `(tactic| (refine bound_cl_frame ‹Bound _› _ (fun _ hne => $clne (hne := hne) ..) ?_ (by rw [$buf:ident]) (by rw [$sq:ident]) (by rw [$app:ident]) (by rw [$pol:ident]); have hcl0 := Bound.cl ‹Bound _› $tt; (unfold $f; try dsimp only); (repeat' split) <;> simp_all [CPc.costOk]))

theorem bound_clientStep {cfg : Cfg} {s s' : State} {t : Tid} {ch : Choice}
    (h : Bound s) (hben : Benign s (.client t ch)) (hs : clientStep cfg s t ch = some s') : Bound s' := by
  apply clientStep_cases hs (motive := Bound)
  case setStart => intros; bound_cl stSetStart t
  case setUpd => intros; bound_cl stSetUpd t
  case setExit => intros; bound_cl stSetExit t
  case setRetTrue => intros; bound_cl stSetRetTrue t
  case setRetDrop => intros; bound_cl stSetRetDrop t
  case delStart => intros; bound_cl stDelStart t
  case delExit => intros; bound_cl stDelExit t
  case delSent => intros; bound_cl stDelSent t
  case waitStart => intros; bound_cl stWaitStart t
  case waitDone => intros; bound_cl stWaitDone t
  case getRead => intros; bound_cl stGetRead t
  case getCheck => intros; bound_cl stGetCheck t
  case getMetric => intros; bound_cl stGetMetric t
  case ttlRead => intros; bound_cl stTtlRead t
  case ttlCheck => intros; bound_cl stTtlCheck t
  case ttlExp => intros; bound_cl stTtlExp t
  case ttlNow => intros; bound_cl stTtlNow t
  case ttlUntil => intros; bound_cl stTtlUntil t
  case iterStart => intros; bound_cl stIterStart t
  case clrStart => intros; bound_cl stClrStart t
  case clrEm => intros; bound_cl stClrEm t
  case clrMetrics => intros; bound_cl stClrMetrics t
  case readMax => intros; bound_cl stReadMax t
  case readRem => intros; bound_cl stReadRem t
  case setSend =>
    intro i hpc _
    have hi : 0 ≤ i.cost := by have := h.cl t; rw [hpc] at this; exact this
    unfold stSetSend
    split
    · refine ⟨?_, ?_, h.sendq, h.app, h.nonneg, h.max0, h.le⟩
      · intro t'
        by_cases e' : t' = t
        · subst e'; simp [CPc.costOk]
        · rw [setCl_cl_ne _ _ _ e']; exact h.cl t'
      · intro x hx
        simp only [setCl_buf, List.mem_append, List.mem_singleton] at hx
        rcases hx with hx | rfl
        · exact h.buf x hx
        · exact hi
    · exact bound_cl_frame h t (fun _ hne => setCl_cl_ne _ _ _ hne) (by simp [CPc.costOk]) rfl rfl rfl rfl
  case delSend =>
    intro h' c hpc _
    exact sendBlocking_bound h t _ _ _ (by simp [BufElem.costOk]) (by simp [CPc.costOk]) (by simp [CPc.costOk])
  case waitSend =>
    intro hpc _
    have hb : Bound { s with nextMarker := s.nextMarker + 1 } := ⟨h.cl, h.buf, h.sendq, h.app, h.nonneg, h.max0, h.le⟩
    exact sendBlocking_bound hb t _ _ _ (by simp [BufElem.costOk]) (by simp [CPc.costOk]) (by simp [CPc.costOk])
  case waitRecv =>
    intro id hpc _ hr
    refine bound_cl_frame h t (fun _ hne => stWaitRecv_cl_ne _ _ _ hr hne) ?_ (stWaitRecv_buf _ _ _ hr)
      (stWaitRecv_sendq _ _ _ hr) (stWaitRecv_app _ _ _ hr) (stWaitRecv_pol _ _ _ hr)
    unfold stWaitRecv at hr; split at hr
    · simp only [Option.some.injEq] at hr; subst hr; simp [CPc.costOk]
    · simp at hr
  case getStart =>
    intro h' c hpc hr
    have hne := (stGetStart_frame hr).1
    rcases stGetStart_cases hr with ⟨_, rfl⟩ | ⟨_, rfl⟩ | ⟨_, kept, n, _, _, rfl⟩
    · exact bound_cl_frame h t hne (by simp [CPc.costOk]) rfl rfl rfl rfl
    · exact bound_cl_frame h t hne (by simp [CPc.costOk]) rfl rfl rfl rfl
    · exact bound_cl_frame h t hne (by simp [CPc.costOk]) (by simp) (by simp) (by simp) (by simp)
  case iterShard =>
    intro k n seen hpc hr
    have hne := (stIterShard_frame hr).1
    obtain ⟨ks, _, _, _, hcase⟩ := stIterShard_cases hr
    rcases hcase with ⟨_, rfl⟩ | ⟨_, rfl⟩
    · exact bound_cl_frame h t hne (by simp [CPc.costOk]) rfl rfl rfl rfl
    · exact bound_cl_frame h t hne (by simp [CPc.costOk]) rfl rfl rfl rfl
  case clrDrain =>
    intro closing hpc _
    rcases stClrDrain_cases s t closing with ⟨_, e⟩ | ⟨id, s1, hr, e⟩ | ⟨i, s1, hr, _, e⟩ | ⟨i, s1, hr, _, e⟩ <;> rw [e]
    · exact bound_cl_frame h t (fun _ hne => setCl_cl_ne _ _ _ hne) (by simp [CPc.costOk]) rfl rfl rfl rfl
    · obtain ⟨_, h1, h2, h3⟩ := recvBuf_bound h hr
      exact ⟨h1, h2, h3, by simp [recvBuf_app hr]; exact h.app, by simp [recvBuf_pol hr]; exact h.nonneg,
        by simp [recvBuf_pol hr]; exact h.max0, by simp [recvBuf_pol hr]; exact h.le⟩
    · obtain ⟨_, h1, h2, h3⟩ := recvBuf_bound h hr
      exact ⟨h1, h2, h3, by simp [recvBuf_app hr]; exact h.app, by simp [recvBuf_pol hr]; exact h.nonneg,
        by simp [recvBuf_pol hr]; exact h.max0, by simp [recvBuf_pol hr]; exact h.le⟩
    · obtain ⟨_, h1, h2, h3⟩ := recvBuf_bound h hr
      exact ⟨h1, h2, h3, by rw [recvBuf_app hr]; exact h.app, by rw [recvBuf_pol hr]; exact h.nonneg,
        by rw [recvBuf_pol hr]; exact h.max0, by rw [recvBuf_pol hr]; exact h.le⟩
  case clrShard =>
    intro closing k hpc hr
    obtain ⟨ks, _, _, _, rfl⟩ := stClrShard_cases hr
    refine bound_cl_frame h t (fun _ hne => by simp [setCl_cl_ne _ _ _ hne, evictAll_cl]) ?_
      (by simp [evictAll_buf]) (by simp [evictAll_sendq]) (by simp [evictAll_app]) (by simp [evictAll_pol])
    simp only [setCl_cl_self]; split <;> simp [CPc.costOk]
  case clrPolicy =>
    intro closing hpc _
    refine ⟨?_, h.buf, h.sendq, h.app, AMap.nonneg_empty, h.max0, h.max0⟩
    intro t'
    by_cases e' : t' = t
    · subst e'; simp [stClrPolicy, CPc.costOk]
    · rw [stClrPolicy_cl_ne _ _ _ e']; exact h.cl t'
  case clrRestart =>
    intro closing hpc _
    refine ⟨?_, by rw [stClrRestart_buf]; exact h.buf, by rw [stClrRestart_sendq]; exact h.sendq, ?_,
      by rw [stClrRestart_pol]; exact h.nonneg, by rw [stClrRestart_pol]; exact h.max0,
      by rw [stClrRestart_pol]; exact h.le⟩
    · intro t'
      by_cases e' : t' = t
      · subst e'; unfold stClrRestart; dsimp only; split <;> simp [CPc.costOk]
      · rw [stClrRestart_cl_ne _ _ _ e']; exact h.cl t'
    · unfold stClrRestart; dsimp only; split <;> simp [APc.costOk]
  case clsFinish =>
    intro hpc _
    refine ⟨?_, h.buf, h.sendq, by simp [stClsFinish, APc.costOk], h.nonneg, h.max0, h.le⟩
    intro t'
    by_cases e' : t' = t
    · subst e'; simp [stClsFinish, CPc.costOk]
    · rw [stClsFinish_cl_ne _ _ e']; exact h.cl t'
  case updMax =>
    intro m hpc _
    have hm : s.pol.maxCost ≤ m := hben m hpc
    refine ⟨?_, h.buf, h.sendq, h.app, h.nonneg, ?_, ?_⟩
    · intro t'
      by_cases e' : t' = t
      · subst e'; simp [stUpdMax, CPc.costOk]
      · rw [stUpdMax_cl_ne _ _ _ e']; exact h.cl t'
    · show 0 ≤ m; have := h.max0; omega
    · show s.pol.used ≤ m; have := h.le; omega

/-! ### the policy operations under non-negative costs -/

theorem polDel_bound (on : Bool) (p : Pol) (m : Met) (k : Hash) (hn : AMap.Nonneg p.costs) :
    AMap.Nonneg (polDel on p m k).1.costs ∧ (polDel on p m k).1.used ≤ p.used := by
  unfold polDel
  split
  · exact ⟨hn, Int.le_refl _⟩
  · rename_i c hl
    have := AMap.nonneg_lookup hn hl
    exact ⟨AMap.nonneg_erase hn k, by show p.used - c ≤ p.used; omega⟩

theorem polDelAll_bound (on : Bool) (p : Pol) (m : Met) (vs : List (Hash × Int)) (hn : AMap.Nonneg p.costs) :
    AMap.Nonneg (polDelAll on p m vs).1.costs ∧ (polDelAll on p m vs).1.used ≤ p.used := by
  induction vs generalizing p m with
  | nil => exact ⟨hn, Int.le_refl _⟩
  | cons v rest ih =>
    obtain ⟨k, c⟩ := v
    simp only [polDelAll]
    have h1 := polDel_bound on p m k hn
    have h2 := ih (polDel on p m k).1 (polDel on p m k).2 h1.1
    exact ⟨h2.1, Int.le_trans h2.2 h1.2⟩

theorem polUpdate_bound (on : Bool) (p : Pol) (m : Met) (k : Hash) (cost : Int) (hn : AMap.Nonneg p.costs)
    (hc : 0 ≤ cost) (hle : ∀ prev, p.costs.lookup k = some prev → cost ≤ prev) :
    AMap.Nonneg (polUpdate on p m k cost).1.costs ∧ (polUpdate on p m k cost).1.used ≤ p.used := by
  unfold polUpdate
  split
  · exact ⟨hn, Int.le_refl _⟩
  · rename_i prev hl
    have := hle prev hl
    exact ⟨AMap.nonneg_insert hn k hc, by show p.used + (cost - prev) ≤ p.used; omega⟩

theorem polAdd_bound {on : Bool} {p : Pol} {m : Met} {k : Hash} {cost : Int} {victims : List (Hash × Int)}
    {added : Bool} {pm : Pol × Met} (hn : AMap.Nonneg p.costs) (hc : 0 ≤ cost) (hle : p.used ≤ p.maxCost)
    (hnr : ∀ prev, p.costs.lookup k = some prev → prev < cost → ¬ cost ≤ p.maxCost)
    (h : polAdd on p m k cost victims added = some pm) :
    AMap.Nonneg pm.1.costs ∧ pm.1.used ≤ pm.1.maxCost := by
  rcases polAdd_cases h with ⟨_, _, _, rfl⟩ | ⟨hsmall, _, _, _, rfl⟩ | ⟨_, _, hroom, _, _, rfl⟩ |
    ⟨_, _, _, _, _, hroom, _, rfl⟩ | ⟨_, _, _, _, _, rfl⟩
  · exact ⟨hn, hle⟩
  · have := polUpdate_bound on p m k cost hn hc (fun prev hl => by
      have := hnr prev hl
      omega)
    rw [polUpdate_maxCost]
    exact ⟨this.1, Int.le_trans this.2 hle⟩
  · refine ⟨AMap.nonneg_insert hn k hc, ?_⟩
    show p.used + cost ≤ p.maxCost
    omega
  · have := polDelAll_bound on p m victims hn
    refine ⟨AMap.nonneg_insert this.1 k hc, ?_⟩
    show (polDelAll on p m victims).1.used + cost ≤ (polDelAll on p m victims).1.maxCost
    omega
  · have := polDelAll_bound on p m victims hn
    refine ⟨this.1, ?_⟩
    show (polDelAll on p m victims).1.used ≤ (polDelAll on p m victims).1.maxCost
    rw [polDelAll_maxCost]; omega

theorem itemCost_nonneg {cfg : Cfg} (hcfg : CfgOk cfg) (i : Item) (hi : 0 ≤ i.cost) : 0 ≤ itemCost cfg i := by
  have h56 : itemSize.toInt = 56 := by decide
  unfold itemCost
  cases hf : cfg.costFn with
  | none => dsimp only; split <;> omega
  | some f =>
    dsimp only
    have := hcfg.costFn f hf i.value
    split <;> split <;> omega

theorem bound_applierStep {cfg : Cfg} (hcfg : CfgOk cfg) {s s' : State} {ch : Choice}
    (h : Bound s) (hben : Benign s (.applier ch)) (hs : applierStep cfg s ch = some s') : Bound s' := by
  apply applierStep_cases hs (motive := Bound)
  case idle =>
    intro hpc hr
    rcases apIdle_cases hr with ⟨id, s1, _, hrecv, rfl⟩ | ⟨i, s1, _, hrecv, rfl⟩ | ⟨_, rfl⟩ | ⟨t, _, hstop⟩
    · obtain ⟨_, h1, h2, h3⟩ := recvBuf_bound h hrecv
      exact ⟨h1, h2, h3, by simp [APc.costOk], by simp [recvBuf_pol hrecv]; exact h.nonneg,
        by simp [recvBuf_pol hrecv]; exact h.max0, by simp [recvBuf_pol hrecv]; exact h.le⟩
    · obtain ⟨hx, h1, h2, h3⟩ := recvBuf_bound h hrecv
      exact ⟨h1, h2, h3, hx, by simp [recvBuf_pol hrecv]; exact h.nonneg,
        by simp [recvBuf_pol hrecv]; exact h.max0, by simp [recvBuf_pol hrecv]; exact h.le⟩
    · exact ⟨h.cl, h.buf, h.sendq, by simp [APc.costOk], h.nonneg, h.max0, h.le⟩
    · rcases apSelStop_cases hstop with ⟨closing, hpc', rfl⟩ | ⟨hpc', rfl⟩
      · refine ⟨?_, h.buf, h.sendq, by simp [APc.costOk], h.nonneg, h.max0, h.le⟩
        intro t'
        by_cases e' : t' = t
        · subst e'; simp [CPc.costOk]
        · rw [setCl_cl_ne _ _ _ e']; exact h.cl t'
      · refine ⟨?_, h.buf, h.sendq, by simp [APc.costOk], h.nonneg, h.max0, h.le⟩
        intro t'
        by_cases e' : t' = t
        · subst e'; simp [CPc.costOk]
        · rw [setCl_cl_ne _ _ _ e']; exact h.cl t'
  case marker =>
    intro id hpc _
    exact ⟨h.cl, h.buf, h.sendq, by simp [apMarker, APc.costOk], h.nonneg, h.max0, h.le⟩
  case item =>
    intro i hpc _
    have hi : 0 ≤ i.cost := by have := h.app; rw [hpc] at this; exact this
    exact ⟨h.cl, h.buf, h.sendq, itemCost_nonneg hcfg i hi, h.nonneg, h.max0, h.le⟩
  case costed =>
    intro i hpc hr
    have hi : 0 ≤ i.cost := by have := h.app; rw [hpc] at this; exact this
    have hnr : ¬ Raises s i := hben i hpc
    rcases apCosted_cases hr with ⟨victims, added, pm, hf, _, hp, rfl⟩ | ⟨hf, _, rfl⟩ | ⟨_, _, rfl⟩
    · have := polAdd_bound h.nonneg hi h.le (fun prev hl hlt hsmall => hnr ⟨prev, hl, hlt, Or.inr ⟨hf, hsmall⟩⟩) hp
      exact ⟨h.cl, h.buf, h.sendq, by simp [APc.costOk], this.1, by rw [polAdd_maxCost hp]; exact h.max0, this.2⟩
    · have := polUpdate_bound cfg.metricsOn s.pol s.met i.key i.cost h.nonneg hi (fun prev hl => by
        have : ¬ prev < i.cost := fun hlt => hnr ⟨prev, hl, hlt, Or.inl hf⟩
        omega)
      refine ⟨h.cl, h.buf, h.sendq, by simp [apCostedUpd, APc.costOk], this.1, ?_, ?_⟩
      · show 0 ≤ (polUpdate cfg.metricsOn s.pol s.met i.key i.cost).1.maxCost
        rw [polUpdate_maxCost]; exact h.max0
      · show (polUpdate cfg.metricsOn s.pol s.met i.key i.cost).1.used ≤ (polUpdate cfg.metricsOn s.pol s.met i.key i.cost).1.maxCost
        rw [polUpdate_maxCost]; exact Int.le_trans this.2 h.le
    · have := polDel_bound cfg.metricsOn s.pol s.met i.key h.nonneg
      refine ⟨h.cl, h.buf, h.sendq, by simp [apCostedDel, APc.costOk], this.1, ?_, ?_⟩
      · show 0 ≤ (polDel cfg.metricsOn s.pol s.met i.key).1.maxCost
        rw [polDel_maxCost]; exact h.max0
      · show (polDel cfg.metricsOn s.pol s.met i.key).1.used ≤ (polDel cfg.metricsOn s.pol s.met i.key).1.maxCost
        rw [polDel_maxCost]; exact Int.le_trans this.2 h.le
  case added =>
    intro i victims ok hpc _
    refine ⟨by rw [apAdded_cl]; exact h.cl, by rw [apAdded_buf]; exact h.buf, by rw [apAdded_sendq]; exact h.sendq, ?_,
      by rw [apAdded_pol]; exact h.nonneg, by rw [apAdded_pol]; exact h.max0, by rw [apAdded_pol]; exact h.le⟩
    unfold apAdded afterVictims
    split <;> split <;> simp [APc.costOk]
  case victims =>
    intro vs hpc _ hr
    obtain ⟨h', cost, rest, _, rfl⟩ := apVictims_cases hr
    exact ⟨h.cl, h.buf, h.sendq, by simp [APc.costOk], h.nonneg, h.max0, h.le⟩
  case victimEvict =>
    intro h' cost c v rest hpc _
    refine ⟨h.cl, h.buf, h.sendq, ?_, h.nonneg, h.max0, h.le⟩
    unfold apVictimEvict afterVictims
    split <;> simp [APc.costOk]
  case tombPolicy =>
    intro i hpc _
    exact ⟨h.cl, h.buf, h.sendq, by simp [apTombPolicy, APc.costOk], h.nonneg, h.max0, h.le⟩
  case tombStore =>
    intro v hpc _
    exact ⟨h.cl, h.buf, h.sendq, by simp [apTombStore, APc.costOk], h.nonneg, h.max0, h.le⟩
  case tick =>
    intro hpc _
    exact ⟨h.cl, h.buf, h.sendq, by simp [apTick, APc.costOk], h.nonneg, h.max0, h.le⟩
  case sweep =>
    intro now bs hpc hr
    rcases apSweep_cases hr with ⟨_, rfl⟩ | ⟨b, rest, k, c, _, _, rfl⟩
    · exact ⟨h.cl, h.buf, h.sendq, by simp [APc.costOk], h.nonneg, h.max0, h.le⟩
    · exact ⟨h.cl, h.buf, h.sendq, by simp [APc.costOk], h.nonneg, h.max0, h.le⟩
  case swKey =>
    intro now k c bs hpc _
    refine ⟨by rw [apSwKey_cl]; exact h.cl, by rw [apSwKey_buf]; exact h.buf, by rw [apSwKey_sendq]; exact h.sendq, ?_,
      by rw [apSwKey_pol]; exact h.nonneg, by rw [apSwKey_pol]; exact h.max0, by rw [apSwKey_pol]; exact h.le⟩
    unfold apSwKey; dsimp only; split <;> simp [APc.costOk]
  case swStoreDel =>
    intro now k c expr v bs hpc _
    have := polDel_bound cfg.metricsOn s.pol s.met k h.nonneg
    refine ⟨h.cl, h.buf, h.sendq, by simp [apSwStoreDel, APc.costOk], this.1, ?_, ?_⟩
    · show 0 ≤ (polDel cfg.metricsOn s.pol s.met k).1.maxCost
      rw [polDel_maxCost]; exact h.max0
    · show (polDel cfg.metricsOn s.pol s.met k).1.used ≤ (polDel cfg.metricsOn s.pol s.met k).1.maxCost
      rw [polDel_maxCost]; exact Int.le_trans this.2 h.le
  case swPolDel =>
    intro now k c expr cost v bs hpc _
    exact ⟨h.cl, h.buf, h.sendq, by simp [apSwPolDel, APc.costOk], h.nonneg, h.max0, h.le⟩

theorem bound_init {cfg : Cfg} (hcfg : CfgOk cfg) (now : Time) : Bound (init cfg now) :=
  ⟨fun _ => (by simp [init, CPc.costOk]), fun _ he => (by cases he), fun _ hp => (by cases hp), (by simp [init, APc.costOk]),
    AMap.nonneg_empty, hcfg.max0, hcfg.max0⟩

theorem bound_step {cfg : Cfg} (hcfg : CfgOk cfg) {s s' : State} {a : Action} (h : Bound s) (hben : Benign s a)
    (hs : step cfg s a = some s') : Bound s' := by
  cases a with
  | spawn t c =>
    have hs' : spawnStep s t c = some s' := hs
    have hidle := spawnStep_idle hs'
    refine bound_cl_frame h t (fun _ hne => spawnStep_cl_ne _ _ _ hs' hne) ?_ (spawnStep_buf _ _ _ hs')
      (spawnStep_sendq _ _ _ hs') (spawnStep_app _ _ _ hs') (spawnStep_pol _ _ _ hs')
    unfold spawnStep at hs'; rw [hidle] at hs'; dsimp only at hs'
    split at hs' <;> (simp only [Option.some.injEq] at hs'; subst hs'; simp [CPc.costOk])
    exact hben
  | client t ch => exact bound_clientStep h hben hs
  | applier ch => exact bound_applierStep hcfg h hben hs
  | done t =>
    have hs' : doneStep s t = some s' := hs
    obtain ⟨happ, hcase⟩ := doneStep_cases hs'
    rcases hcase with ⟨closing, hpc, rfl⟩ | ⟨hpc, rfl⟩
    · refine ⟨?_, h.buf, h.sendq, by simp [APc.costOk], h.nonneg, h.max0, h.le⟩
      intro t'
      by_cases e' : t' = t
      · subst e'; simp [CPc.costOk]
      · rw [setCl_cl_ne _ _ _ e']; exact h.cl t'
    · refine ⟨?_, h.buf, h.sendq, by simp [APc.costOk], h.nonneg, h.max0, h.le⟩
      intro t'
      by_cases e' : t' = t
      · subst e'; simp [CPc.costOk]
      · rw [setCl_cl_ne _ _ _ e']; exact h.cl t'
  | tick d =>
    simp only [step, Option.some.injEq] at hs; subst hs
    exact ⟨h.cl, h.buf, h.sendq, h.app, h.nonneg, h.max0, h.le⟩

/-- Every state of a benign run satisfies `Bound`. -/
theorem bound_reachB {cfg : Cfg} (hcfg : CfgOk cfg) {s : State} (h : ReachB cfg s) : Bound s := by
  induction h with
  | init now => exact bound_init hcfg now
  | step _ hb hs ih => exact bound_step hcfg ih hb hs

end RV.Cache
