import RV.Model.Cache
/-!
Proof infrastructure for the Cache model: field projections of the helper functions
(`@[simp]`), the induction principle over reachable states, and case analysis of `step`.
-/
namespace RV.Cache

/-! ### field projections -/

section proj
variable (s : State) (t : Tid) (pc : CPc) (e : Ev)

@[simp] theorem setCl_store : (setCl s t pc).store = s.store := rfl
@[simp] theorem setCl_em : (setCl s t pc).em = s.em := rfl
@[simp] theorem setCl_pol : (setCl s t pc).pol = s.pol := rfl
@[simp] theorem setCl_met : (setCl s t pc).met = s.met := rfl
@[simp] theorem setCl_buf : (setCl s t pc).buf = s.buf := rfl
@[simp] theorem setCl_sendq : (setCl s t pc).sendq = s.sendq := rfl
@[simp] theorem setCl_closedMarkers : (setCl s t pc).closedMarkers = s.closedMarkers := rfl
@[simp] theorem setCl_nextMarker : (setCl s t pc).nextMarker = s.nextMarker := rfl
@[simp] theorem setCl_app : (setCl s t pc).app = s.app := rfl
@[simp] theorem setCl_clock : (setCl s t pc).clock = s.clock := rfl
@[simp] theorem setCl_closed : (setCl s t pc).closed = s.closed := rfl
@[simp] theorem setCl_ringPending : (setCl s t pc).ringPending = s.ringPending := rfl
@[simp] theorem setCl_log : (setCl s t pc).log = s.log := rfl
@[simp] theorem setCl_cl_self : (setCl s t pc).cl t = pc := by simp [setCl]
theorem setCl_cl_ne {t' : Tid} (h : t' ≠ t) : (setCl s t pc).cl t' = s.cl t' := by simp [setCl, h]
theorem setCl_cl (t' : Tid) : (setCl s t pc).cl t' = if t' = t then pc else s.cl t' := rfl

@[simp] theorem logEv_store : (logEv s e).store = s.store := rfl
@[simp] theorem logEv_em : (logEv s e).em = s.em := rfl
@[simp] theorem logEv_pol : (logEv s e).pol = s.pol := rfl
@[simp] theorem logEv_met : (logEv s e).met = s.met := rfl
@[simp] theorem logEv_buf : (logEv s e).buf = s.buf := rfl
@[simp] theorem logEv_sendq : (logEv s e).sendq = s.sendq := rfl
@[simp] theorem logEv_closedMarkers : (logEv s e).closedMarkers = s.closedMarkers := rfl
@[simp] theorem logEv_nextMarker : (logEv s e).nextMarker = s.nextMarker := rfl
@[simp] theorem logEv_app : (logEv s e).app = s.app := rfl
@[simp] theorem logEv_cl : (logEv s e).cl = s.cl := rfl
@[simp] theorem logEv_clock : (logEv s e).clock = s.clock := rfl
@[simp] theorem logEv_closed : (logEv s e).closed = s.closed := rfl
@[simp] theorem logEv_ringPending : (logEv s e).ringPending = s.ringPending := rfl
@[simp] theorem logEv_log : (logEv s e).log = e :: s.log := rfl

end proj

section cb
variable (s : State) (h : Hash) (c : Conf) (v : Val) (k : Int)

@[simp] theorem cbExit_log : (cbExit s v).log = .exit v :: s.log := rfl
@[simp] theorem cbEvict_log : (cbEvict s h c v k).log = .exit v :: .evict h c v k :: s.log := rfl
@[simp] theorem cbReject_log : (cbReject s h c v k).log = .exit v :: .reject h c v k :: s.log := rfl

@[simp] theorem cbExit_store : (cbExit s v).store = s.store := rfl
@[simp] theorem cbExit_em : (cbExit s v).em = s.em := rfl
@[simp] theorem cbExit_pol : (cbExit s v).pol = s.pol := rfl
@[simp] theorem cbExit_met : (cbExit s v).met = s.met := rfl
@[simp] theorem cbExit_buf : (cbExit s v).buf = s.buf := rfl
@[simp] theorem cbExit_sendq : (cbExit s v).sendq = s.sendq := rfl
@[simp] theorem cbExit_closedMarkers : (cbExit s v).closedMarkers = s.closedMarkers := rfl
@[simp] theorem cbExit_nextMarker : (cbExit s v).nextMarker = s.nextMarker := rfl
@[simp] theorem cbExit_app : (cbExit s v).app = s.app := rfl
@[simp] theorem cbExit_cl : (cbExit s v).cl = s.cl := rfl
@[simp] theorem cbExit_clock : (cbExit s v).clock = s.clock := rfl
@[simp] theorem cbExit_closed : (cbExit s v).closed = s.closed := rfl
@[simp] theorem cbExit_ringPending : (cbExit s v).ringPending = s.ringPending := rfl

@[simp] theorem cbEvict_store : (cbEvict s h c v k).store = s.store := rfl
@[simp] theorem cbEvict_em : (cbEvict s h c v k).em = s.em := rfl
@[simp] theorem cbEvict_pol : (cbEvict s h c v k).pol = s.pol := rfl
@[simp] theorem cbEvict_met : (cbEvict s h c v k).met = s.met := rfl
@[simp] theorem cbEvict_buf : (cbEvict s h c v k).buf = s.buf := rfl
@[simp] theorem cbEvict_sendq : (cbEvict s h c v k).sendq = s.sendq := rfl
@[simp] theorem cbEvict_closedMarkers : (cbEvict s h c v k).closedMarkers = s.closedMarkers := rfl
@[simp] theorem cbEvict_nextMarker : (cbEvict s h c v k).nextMarker = s.nextMarker := rfl
@[simp] theorem cbEvict_app : (cbEvict s h c v k).app = s.app := rfl
@[simp] theorem cbEvict_cl : (cbEvict s h c v k).cl = s.cl := rfl
@[simp] theorem cbEvict_clock : (cbEvict s h c v k).clock = s.clock := rfl
@[simp] theorem cbEvict_closed : (cbEvict s h c v k).closed = s.closed := rfl
@[simp] theorem cbEvict_ringPending : (cbEvict s h c v k).ringPending = s.ringPending := rfl

@[simp] theorem cbReject_store : (cbReject s h c v k).store = s.store := rfl
@[simp] theorem cbReject_em : (cbReject s h c v k).em = s.em := rfl
@[simp] theorem cbReject_pol : (cbReject s h c v k).pol = s.pol := rfl
@[simp] theorem cbReject_met : (cbReject s h c v k).met = s.met := rfl
@[simp] theorem cbReject_buf : (cbReject s h c v k).buf = s.buf := rfl
@[simp] theorem cbReject_sendq : (cbReject s h c v k).sendq = s.sendq := rfl
@[simp] theorem cbReject_closedMarkers : (cbReject s h c v k).closedMarkers = s.closedMarkers := rfl
@[simp] theorem cbReject_nextMarker : (cbReject s h c v k).nextMarker = s.nextMarker := rfl
@[simp] theorem cbReject_app : (cbReject s h c v k).app = s.app := rfl
@[simp] theorem cbReject_cl : (cbReject s h c v k).cl = s.cl := rfl
@[simp] theorem cbReject_clock : (cbReject s h c v k).clock = s.clock := rfl
@[simp] theorem cbReject_closed : (cbReject s h c v k).closed = s.closed := rfl
@[simp] theorem cbReject_ringPending : (cbReject s h c v k).ringPending = s.ringPending := rfl
end cb

section met
variable (cfg : Cfg) (s : State) (f : Met → Met)
@[simp] theorem metAdd_store : (metAdd cfg s f).store = s.store := by unfold metAdd; split <;> rfl
@[simp] theorem metAdd_em : (metAdd cfg s f).em = s.em := by unfold metAdd; split <;> rfl
@[simp] theorem metAdd_pol : (metAdd cfg s f).pol = s.pol := by unfold metAdd; split <;> rfl
@[simp] theorem metAdd_buf : (metAdd cfg s f).buf = s.buf := by unfold metAdd; split <;> rfl
@[simp] theorem metAdd_sendq : (metAdd cfg s f).sendq = s.sendq := by unfold metAdd; split <;> rfl
@[simp] theorem metAdd_closedMarkers : (metAdd cfg s f).closedMarkers = s.closedMarkers := by unfold metAdd; split <;> rfl
@[simp] theorem metAdd_nextMarker : (metAdd cfg s f).nextMarker = s.nextMarker := by unfold metAdd; split <;> rfl
@[simp] theorem metAdd_app : (metAdd cfg s f).app = s.app := by unfold metAdd; split <;> rfl
@[simp] theorem metAdd_cl : (metAdd cfg s f).cl = s.cl := by unfold metAdd; split <;> rfl
@[simp] theorem metAdd_clock : (metAdd cfg s f).clock = s.clock := by unfold metAdd; split <;> rfl
@[simp] theorem metAdd_closed : (metAdd cfg s f).closed = s.closed := by unfold metAdd; split <;> rfl
@[simp] theorem metAdd_ringPending : (metAdd cfg s f).ringPending = s.ringPending := by unfold metAdd; split <;> rfl
@[simp] theorem metAdd_log : (metAdd cfg s f).log = s.log := by unfold metAdd; split <;> rfl
theorem metAdd_met : (metAdd cfg s f).met = if cfg.metricsOn then f s.met else s.met := by
  unfold metAdd; split <;> simp_all
end met

/-! ### classification of client pcs used by the stop/done handshake -/

/-- client is between `stop` taken and `done` received -/
def CPc.waitingDone : CPc → Bool
  | .clrDone _ => true | .clsDone => true | _ => false
/-- client runs the part of Clear/Close during which the applier is stopped -/
def CPc.busy : CPc → Bool
  | .clrDrain _ => true | .clrPolicy _ => true | .clrShard .. => true | .clrEm _ => true
  | .clrMetrics _ => true | .clrRestart _ => true | .clsFinish => true | _ => false
def CPc.active (pc : CPc) : Bool := pc.waitingDone || pc.busy

@[simp] theorem unblockedPc_waitingDone (pc : CPc) : (unblockedPc pc).waitingDone = pc.waitingDone := by
  cases pc <;> rfl
@[simp] theorem unblockedPc_busy (pc : CPc) : (unblockedPc pc).busy = pc.busy := by
  cases pc <;> rfl
@[simp] theorem unblockedPc_active (pc : CPc) : (unblockedPc pc).active = pc.active := by
  cases pc <;> rfl

/-! ### reachability -/

theorem run_append (cfg : Cfg) (s : State) (as bs : List Action) :
    run cfg s (as ++ bs) = (run cfg s as).bind fun s' => run cfg s' bs := by
  induction as generalizing s with
  | nil => simp [run]
  | cons a as ih =>
    simp only [List.cons_append, run]
    cases h : step cfg s a with
    | none => simp
    | some s' => simp [ih]

theorem Reach.of_init (cfg : Cfg) (now : Time) : Reach cfg (init cfg now) := ⟨now, [], rfl⟩

theorem Reach.of_step {cfg : Cfg} {s s' : State} {a : Action} (h : Reach cfg s) (hs : step cfg s a = some s') :
    Reach cfg s' := by
  obtain ⟨now, acts, hr⟩ := h
  refine ⟨now, acts ++ [a], ?_⟩
  rw [run_append, hr]
  simp [run, hs]

/-- Induction over reachable states: an invariant holds in every reachable state if it holds
initially and is preserved by every step *from a reachable state*. -/
theorem Reach.induction {cfg : Cfg} {P : State → Prop}
    (h0 : ∀ now, P (init cfg now))
    (hstep : ∀ s a s', Reach cfg s → P s → step cfg s a = some s' → P s')
    {s : State} (h : Reach cfg s) : P s := by
  obtain ⟨now, acts, hr⟩ := h
  have key : ∀ (acts : List Action) (s0 : State), Reach cfg s0 → P s0 → ∀ s, run cfg s0 acts = some s → P s := by
    intro acts
    induction acts with
    | nil => intro s0 _ hp s hr; simp [run] at hr; subst hr; exact hp
    | cons a as ih =>
      intro s0 hr0 hp s hr
      simp only [run] at hr
      cases hs : step cfg s0 a with
      | none => simp [hs] at hr
      | some s1 =>
        simp only [hs] at hr
        exact ih s1 (hr0.of_step hs) (hstep s0 a s1 hr0 hp hs) s hr
  exact key acts _ (Reach.of_init cfg now) (h0 now) s hr

/-- the log only grows -/
theorem needNone_some {ch : Choice} {r : Option State} {s' : State} (h : needNone ch r = some s') :
    ch = .none ∧ r = some s' := by
  cases ch <;> simp [needNone] at h ⊢
  exact h

end RV.Cache
