import RV.Proofs.TieTree2Split
/-!
# The tree on flat memory: `Tree.set` (generated whole) refines the structural `setNode` — all paths

For a represented well-formed node (`okNode`: the ordering invariant of C10, under which every inner
entry has a child) whose pages are live, the generated recursion — including the split of a child
that became full and the two `n.set` calls of its parent — returns the window of the node's page and
leaves the structural result `setNode cfg n k v a` represented, the allocator correspondence
re-established, and every page outside (not of the node, not free, below the frontier) untouched.
-/
namespace RV.TreeFlat
open RV.Tree RV.NodeFlat Gen.TreeM

theorem setSlot_nonzero (mk : BitVec 64) (t : St) (n : NodeRef) (idx k x : BitVec 64) (hx : x ≠ 0#64) :
    setSlot mk t n idx k x = some t := by
  unfold setSlot
  have : (x == 0#64) = false := by simpa using hx
  simp [this]

theorem setChild_nonnil (ps mk : BitVec 64) (t : St) (n : NodeRef) (o len ep : Nat) (pid idx : BitVec 64) :
    setChild ps mk t n (.win o len ep) pid idx = some (t, n, .win o len ep) := by
  unfold setChild
  simp [Gen.TreeM.isNil]

theorem entWords_replace (l : List (Key × Node)) (ki : Key) (c c' : Node) (r : List (Key × Node))
    (h : c'.pid = c.pid) : entWords (l ++ (ki, c') :: r) = entWords (l ++ (ki, c) :: r) := by
  simp only [entWords_eq_mapV, mapV, List.map_append, List.map_cons, childWord, h]

/-- the statistics update of `Tree.set` on a leaf -/
theorem AllocInv.addLeafKeys {cfg : Cfg} {t : St} {a : Alloc} (h : AllocInv cfg t a) (n : Nat) :
    AllocInv cfg { t with numLeafKeys := t.numLeafKeys + w n } { a with leafKeys := a.leafKeys + (n : Nat) } := by
  refine ⟨⟨h.scal.nextPage, h.scal.freePage, ?_, h.scal.pagesFree, h.scal.dataLen, h.scal.curSz, h.scal.bufOffset,
      h.scal.fault⟩, h.chain, h.nodup, h.below, h.npos, h.small⟩
  simp only []; rw [h.scal.leafKeys, ofInt_add_nat]

/-- the pages of the siblings of the routed child are outside the child -/
theorem sibling_out {a : Alloc} {l : List (Key × Node)} {ki : Key} {c : Node} {r : List (Key × Node)}
    (h : LiveEnts a (l ++ (ki, c) :: r)) :
    ∀ q, q ∈ pidsEnts l ∨ q ∈ pidsEnts r → q ∉ pids c ∧ q ∉ a.free ∧ q < a.nextPage := by
  intro q hq
  have hn := h.nodup
  rw [pidsEnts_append] at hn
  simp only [pidsEnts] at hn
  have hmem : q ∈ pidsEnts (l ++ (ki, c) :: r) := by
    rw [pidsEnts_append]; simp only [pidsEnts, List.mem_append]
    rcases hq with h | h
    · exact Or.inl h
    · exact Or.inr (Or.inr h)
  refine ⟨?_, (h.live q hmem).1, (h.live q hmem).2⟩
  rw [List.nodup_append] at hn
  rcases hq with hq | hq
  · intro hc; exact hn.2.2 q hq q (List.mem_append_left _ hc) rfl
  · intro hc
    have := hn.2.1
    rw [List.nodup_append] at this
    exact this.2.2 q hc q hq rfl

theorem pids_child_sub (p : Nat) (l : List (Key × Node)) (ki : Key) (c : Node) (r : List (Key × Node)) :
    ∀ q ∈ pids c, q ∈ pids (.inner p (l ++ (ki, c) :: r)) := by
  intro q hq
  simp only [pids, pidsEnts_append, pidsEnts, List.mem_cons, List.mem_append]
  exact Or.inr (Or.inr (Or.inl hq))

theorem set_refines {cfg : Cfg} (hc : CfgFlat cfg) (hok : CfgOk cfg) (k : Key) (v : Val) :
    ∀ (fuel : Nat) (n : Node) (lo hi : Key) (t : St) (a : Alloc),
    okNode cfg.maxKeys (cfg.maxKeys - 1) n lo hi → lo < k → k ≤ hi →
    TreeFlat.Repr cfg t.data n → AllocInv cfg t a → Live a n →
    ((setNode cfg n k v a).2.nextPage + 1) * pw cfg < 2 ^ 40 → height n ≤ fuel →
    ∃ t', Gen.TreeM.set (w cfg.pageSize) (w cfg.maxKeys) fuel t (w n.pid) k v = some (t', refOf cfg t' n.pid) ∧
      TreeFlat.Repr cfg t'.data (setNode cfg n k v a).1 ∧ AllocInv cfg t' (setNode cfg n k v a).2 ∧
      t.data.size ≤ t'.data.size ∧
      (∀ r, r ∉ pids n → r ∉ a.free → r < a.nextPage → (r + 1) * pw cfg ≤ t.data.size →
        pageOf cfg t'.data r = pageOf cfg t.data r)
  | 0, n, _, _, _, _, h, _, _, _, _, _, _, hh => by
    cases n with
    | null => exact absurd h id
    | leaf p es => rw [height] at hh; omega
    | inner p es => rw [height] at hh; omega
  | fuel + 1, .null, _, _, _, _, h, _, _, _, _, _, _, _ => absurd h id
  | fuel + 1, .leaf p es, lo, hi, t, a, h, hk1, hk2, hr, hinv, hlive, _, _ => by
    have hpg := repr_leaf hr
    have hmk := hc.mkLt
    have hs := hpg.ok.1
    have hk0 : k ≠ 0#64 := by intro e; rw [e] at hk1; bv_omega
    have hlen : es.length < cfg.maxKeys := by have := h.2.2; have := hok.ge4; omega
    have hset : nodeSet cfg.maxKeys es k v = some (ins es k v, if hasKey es k then 0 else 1) :=
      nodeSet_eq_ins cfg.maxKeys es k v lo h.1 hk1 (by omega) (Or.inl hlen)
    generalize hadd : (if hasKey es k then 0 else 1 : Nat) = added at hset
    have hmodel : setNode cfg (.leaf p es) k v a =
        (.leaf p (ins es k v), { a with leafKeys := a.leafKeys + (added : Nat) }) := by
      rw [setNode, leafSet, hset]
    rw [hmodel]
    have hpf := (hlive.live p (by simp [pids])).1
    rw [set_succ]
    simp only [Node.pid]
    rw [node_w hc t p hpg.pos hpg.fit hinv.small]
    simp only [Option.bind_some]
    rw [rdNode_refOf t p hpg.fit, isLeaf_w hs (by omega), hpg.isLeaf]
    simp only [Option.bind_some, if_true]
    have hset' : nodeSet cfg.maxKeys (ents cfg.maxKeys (pageOf cfg t.data p)) k v = some (ins es k v, added) := by
      rw [hpg.ents]; exact hset
    obtain ⟨p', hp', hsz', hents', hnk', hnle', hpid', hkind', hleaf', hz'⟩ :=
      set_some hpg.ok hmk k v _ added hset'
    have hok' : PageOk cfg.maxKeys p' := set_pageOk hpg.ok hmk k v hk0 _ added hset' p' _ hp'
    have hp's : p'.size = pw cfg := by rw [hsz', pageOf_size _ _ hpg.fit]
    simp only [refOf]
    rw [wrNodeR_win (cfg := cfg) t p t.epoch rfl hpg.fit _ p' (w added) hp' hp's]
    simp only [Option.bind_some]
    refine ⟨_, rfl, ?_, ?_, ?_, ?_⟩
    · simp only []
      rw [TreeFlat.Repr]
      refine ⟨hpg.pos, by rw [setPage_size]; exact hpg.fit, ?_, ?_, ?_, ?_, ?_⟩
      · rw [pageOf_setPage_self _ _ _ hpg.fit hp's]; exact hok'
      · rw [pageOf_setPage_self _ _ _ hpg.fit hp's, hleaf']; exact hpg.isLeaf
      · rw [pageOf_setPage_self _ _ _ hpg.fit hp's, hkind']; exact hpg.kind
      · rw [pageOf_setPage_self _ _ _ hpg.fit hp's, hpid']; exact hpg.pid
      · rw [pageOf_setPage_self _ _ _ hpg.fit hp's]; exact hents'
    · exact (hinv.setPage p p' hpf hpg.fit hp's).addLeafKeys added
    · simp only [setPage_size]; exact Nat.le_refl _
    · intro q hq _ _ hfq
      simp only []
      exact pageOf_setPage_ne _ _ _ _ (by simpa [pids] using hq) hpg.fit hfq hp's
  | fuel + 1, .inner p es, lo, hi, t, a, h, hk1, hk2, hr, hinv, hlive, hb, hh => by
    obtain ⟨hpg, hre⟩ := repr_inner hr
    have hmk := hc.mkLt
    have hge := hok.ge4
    have hs := hpg.ok.1
    have hk0 : k ≠ 0#64 := by intro e; rw [e] at hk1; bv_omega
    -- the routing entry
    obtain ⟨l, r0, he, hl, hlt, h2⟩ := search_spec es k
    have hr0 : r0 ≠ [] := by
      intro e
      rw [e, List.append_nil] at he
      subst he
      have h0k : (0#64 : Key) < k := by bv_omega
      have := lastKeyD_lt_of_all_lt hlt h0k
      rw [h.2.1.2] at this
      bv_omega
    obtain ⟨⟨ki, c⟩, r, hr0e⟩ : ∃ e r, r0 = e :: r := by
      cases r0 with
      | nil => exact absurd rfl hr0
      | cons e r => exact ⟨e, r, rfl⟩
    have hle : k ≤ ki := h2 (ki, c) r hr0e
    subst hr0e
    subst he
    obtain ⟨hcok, hlk, hki0, hnf, hfl⟩ := inner_step hok p l ki c r lo hi k v a h hk1 hinv.scal.fault hlt hle
    have hn := setNode_spec hok c (lastKeyD lo l) ki k v a hcok hlk hle hinv.scal.fault
    obtain ⟨hn1, hn2, _, hnpid, _, hncons, _, _⟩ := hn
    have hcn : c ≠ .null := okNode_ne_null hcok
    have hc1n : (setNode cfg c k v a).1 ≠ .null := okNode_ne_null hn2
    -- liveness
    obtain ⟨hlents, hpn, hpf, hplt⟩ := hlive.inner
    have hget : (l ++ (ki, c) :: r)[l.length]? = some (ki, c) := by simp
    have hlc : Live a c := hlents.get hget
    obtain ⟨hY1, hY2, hf1n, hf1b, hout⟩ := live_of_cons hncons hlc.nodup hlc.live hinv.nodup hinv.below
    have hlc1 : Live (setNode cfg c k v a).2 (setNode cfg c k v a).1 := ⟨hY1, hY2⟩
    have hsib := sibling_out hlents
    have hpc : p ∉ pids c := fun hm => hpn (by
      rw [pidsEnts_append]; simp only [pidsEnts, List.mem_append]; exact Or.inr (Or.inl hm))
    have hnp1 : a.nextPage ≤ (setNode cfg c k v a).2.nextPage := hncons.np
    -- the bound for the recursive call
    have hfinal : (setNode cfg c k v a).2.nextPage ≤ (setNode cfg (.inner p (l ++ (ki, c) :: r)) k v a).2.nextPage := by
      by_cases hfull : (setNode cfg c k v a).1.len = cfg.maxKeys
      · rw [(hfl hfull).1, (splitNode_alloc cfg _ _ hc1n).1]
        exact (newNode_cons cfg _).np
      · rw [hnf hfull]; exact Nat.le_refl _
    have hbc : ((setNode cfg c k v a).2.nextPage + 1) * pw cfg < 2 ^ 40 := by
      have : ((setNode cfg c k v a).2.nextPage + 1) * pw cfg ≤
          ((setNode cfg (.inner p (l ++ (ki, c) :: r)) k v a).2.nextPage + 1) * pw cfg :=
        Nat.mul_le_mul_right _ (by omega)
      omega
    -- the child
    have hre' := (reprEnts_append l ((ki, c) :: r)).mp hre
    obtain ⟨hrel, hrecr⟩ := hre'
    rw [ReprEnts] at hrecr
    obtain ⟨hrc, hrer⟩ := hrecr
    have hhc : height c ≤ fuel := by
      have := heightEnts_get _ _ (ki, c) hget
      simp only [] at this
      rw [height] at hh; omega
    obtain ⟨lfc, kvc, hcpg, _, _⟩ := repr_pageOf c hcn hrc
    have hcs := hcpg.ok.1
    obtain ⟨t2, hrec, hr2, hinv2, hsz2, hfr2⟩ :=
      set_refines hc hok k v fuel c (lastKeyD lo l) ki t a hcok hlk hle hrc hinv hlc hbc hhc
    -- the parent page
    have hnk : nkeys cfg.maxKeys (pageOf cfg t.data p) = (l ++ (ki, c) :: r).length := by
      rw [← ents_length, hpg.ents, entWords_length]
    have hlenle : (l ++ (ki, c) :: r).length ≤ cfg.maxKeys - 1 := h.2.2
    have hllt : l.length < (l ++ (ki, c) :: r).length := by simp
    have hsearch : search (ents cfg.maxKeys (pageOf cfg t.data p)) k = l.length := by
      rw [hpg.ents, entWords_eq_mapV, search_mapV]; exact hl.symm
    have hP2 : pageOf cfg t2.data p = pageOf cfg t.data p := hfr2 p hpc hpf hplt hpg.fit
    have hpg2 : PageOf cfg t2.data p false (entWords (l ++ (ki, c) :: r)) := pageOf_frame hsz2 hP2 hpg
    -- walk the generated text
    rw [set_succ]
    simp only [Node.pid]
    rw [node_w hc t p hpg.pos hpg.fit hinv.small]
    simp only [Option.bind_some]
    rw [rdNode_refOf t p hpg.fit, isLeaf_w hs (by omega), hpg.isLeaf]
    simp only [Option.bind_some, Bool.false_eq_true, if_false]
    rw [rdNode_refOf t p hpg.fit, search_w hs hmk hpg.ok.2.1 k, hsearch]
    simp only [Option.bind_some]
    rw [w_sle (by omega) (by omega), if_neg (by simp; omega)]
    have hkey : Gen.Node.key (pageOf cfg t.data p) (w l.length) = some ki := by
      rw [key_keyAt hpg.ok (by omega) (by omega), hpg.ents, entWords_eq_mapV, keyAt_mapV]
      simp [keyAt]
    rw [rdNode_refOf t p hpg.fit, hkey]
    simp only [Option.bind_some]
    rw [setSlot_nonzero _ _ _ _ _ _ hki0]
    simp only [Option.bind_some]
    have hval : Gen.Node.val (pageOf cfg t.data p) (w l.length) = some (w c.pid) := by
      rw [val_w (by omega) (by omega)]
      have h2' := ents_get? (mk := cfg.maxKeys) (p := pageOf cfg t.data p) l.length
      rw [hpg.ents, entWords_get?, hget, hnk, if_pos hllt] at h2'
      simp only [Option.map_some, Option.some.injEq, Prod.mk.injEq] at h2'
      exact congrArg some h2'.2.symm
    rw [rdNode_refOf t p hpg.fit, hval]
    simp only [Option.bind_some]
    rw [node_w hc t c.pid hcpg.pos hcpg.fit hinv.small]
    simp only [Option.bind_some, refOf]
    rw [setChild_nonnil]
    simp only [Option.bind_some]
    rw [rdNode_win t c.pid _ rfl hcpg.fit, pageID_w hcs (by omega), hcpg.pid]
    simp only [Option.bind_some]
    rw [hrec]
    simp only [Option.bind_some]
    rw [node_w hc t2 p hpg2.pos hpg2.fit hinv2.small]
    simp only [Option.bind_some, refOf]
    -- is the child full?
    obtain ⟨lf1, kv1, hc1pg, hc1len, _⟩ := repr_pageOf _ hc1n hr2
    rw [hnpid] at hc1pg
    have hc1s := hc1pg.ok.1
    have hisfull : Gen.Node.isFull (pageOf cfg t2.data c.pid) (w cfg.maxKeys) =
        some (decide ((setNode cfg c k v a).1.len = cfg.maxKeys)) := by
      rw [isFull_w hc1s (by omega) (by omega), ← ents_length, hc1pg.ents, hc1len]
    rw [rdNode_win t2 c.pid _ rfl hc1pg.fit, hisfull]
    simp only [Option.bind_some]
    have hsibfit : ∀ q, q ∈ pidsEnts l ∨ q ∈ pidsEnts r → (q + 1) * pw cfg ≤ t.data.size := by
      intro q hq
      rcases hq with hq | hq
      · exact (reprEnts_fits l hrel q hq).2
      · exact (reprEnts_fits r hrer q hq).2
    by_cases hfull : (setNode cfg c k v a).1.len = cfg.maxKeys
    · -- split
      obtain ⟨hm, q1, q2, hlm0, hrm⟩ := hfl hfull
      rw [hm]
      rw [hm] at hb
      have hLp := (splitNode_alloc cfg _ (setNode cfg c k v a).2 hc1n).2.2.1
      have hA := (splitNode_alloc cfg _ (setNode cfg c k v a).2 hc1n).1
      have hpo := hout p hpc hpf hplt
      have hb1 : ((setNode cfg c k v a).2.nextPage + 1) * pw cfg < 2 ^ 40 := hbc
      have hpgL : PageOf cfg t2.data p false
          (entWords (l ++ (ki, (splitNode cfg (setNode cfg c k v a).1 (setNode cfg c k v a).2).1) :: r)) := by
        rw [entWords_replace l ki c _ r (by rw [hLp, hnpid])]; exact hpg2
      have hiL : (l ++ (ki, (splitNode cfg (setNode cfg c k v a).1 (setNode cfg c k v a).2).1) :: r)[l.length]? =
          some (ki, (splitNode cfg (setNode cfg c k v a).1 (setNode cfg c k v a).2).1) := by simp
      obtain ⟨t3, cref, hsplit, hpg3, hrL, hrR, hinv3, hsz3, hfr3⟩ :=
        setSplit_refines hc (by omega) t2 (setNode cfg c k v a).2 hinv2 hb1 p (setNode cfg c k v a).1 hc1n hr2 hfull
          hlc1 hpo.1 hpo.2 (by omega) _ _ _ l.length ki 1 0 hiL hpgL hlm0 (by rw [hrm]; exact hki0) q1 q2
          (NodeRef.win (p * pw cfg) (pw cfg) t2.epoch)
      simp only [hfull, decide_true]
      rw [← hnpid]
      simp only [refOf] at hsplit
      rw [hsplit]
      simp only [Option.bind_some]
      -- pages outside the child and the parent are untouched by both phases
      have hframe : ∀ q, q ∉ pids c → q ≠ p → q ∉ a.free → q < a.nextPage → (q + 1) * pw cfg ≤ t.data.size →
          pageOf cfg t3.data q = pageOf cfg t.data q := by
        intro q hqc hqp hqf hql hqfit
        have hqo := hout q hqc hqf hql
        rw [hfr3 q hqp (by rw [hnpid]; exact fun e => hqc (e ▸ pid_mem_pids hcn)) ?_ (by omega)]
        · exact hfr2 q hqc hqf hql hqfit
        · rcases newNode_which cfg (setNode cfg c k v a).2 with hw | hw
          · exact fun e => hqo.2 (e ▸ hw)
          · rw [hw]; omega
      refine ⟨t3, rfl, ?_, hinv3, by omega, ?_⟩
      · rw [TreeFlat.Repr]
        refine ⟨hpg3, ?_⟩
        rw [reprEnts_append, ReprEnts, ReprEnts]
        refine ⟨reprEnts_frame (by omega) l (fun q hq hfq => ?_) hrel, hrL, hrR,
          reprEnts_frame (by omega) r (fun q hq hfq => ?_) hrer⟩
        · have := hsib q (Or.inl hq)
          exact hframe q this.1 (fun e => hpn (e ▸ by rw [pidsEnts_append]; simp [hq])) this.2.1 this.2.2 hfq
        · have := hsib q (Or.inr hq)
          exact hframe q this.1 (fun e => hpn (e ▸ by rw [pidsEnts_append]; simp [pidsEnts, hq])) this.2.1 this.2.2 hfq
      · intro q hq hqf hql hqfit
        have hqc : q ∉ pids c := fun hm => hq (pids_child_sub p l ki c r q hm)
        exact hframe q hqc (fun e => hq (e ▸ by simp [pids])) hqf hql hqfit
    · -- no split
      rw [hnf hfull]
      simp only [hfull, decide_false]
      rw [setSplit_false]
      simp only [Option.bind_some]
      refine ⟨t2, rfl, ?_, hinv2, hsz2, ?_⟩
      · rw [TreeFlat.Repr]
        refine ⟨by rw [entWords_replace l ki c _ r hnpid]; exact hpg2, ?_⟩
        rw [reprEnts_append, ReprEnts]
        refine ⟨reprEnts_frame hsz2 l (fun q hq hfq => ?_) hrel, hr2,
          reprEnts_frame hsz2 r (fun q hq hfq => ?_) hrer⟩
        · have := hsib q (Or.inl hq)
          exact hfr2 q this.1 this.2.1 this.2.2 hfq
        · have := hsib q (Or.inr hq)
          exact hfr2 q this.1 this.2.1 this.2.2 hfq
      · intro q hq hqf hql hqfit
        have hqc : q ∉ pids c := fun hm => hq (pids_child_sub p l ki c r q hm)
        exact hfr2 q hqc hqf hql hqfit

end RV.TreeFlat
