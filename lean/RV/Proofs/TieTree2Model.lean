import RV.Proofs.TieTree2Defs
import RV.Proofs.TreePids
/-!
# `Tree.set` on a well-formed inner node: the structural side, in explicit form

Under the ordering invariant (`okNode`) the structural `setNode` on an inner node
`l ++ (ki, c) :: r` (`l` the entries with keys `< k`, `ki ≥ k`) is: recurse into `c`; if the child
is full afterwards, split it and replace `(ki, c)` by `(lm, left), (ki, right)`.  The two `nodeSet`
calls of the parent are computed explicitly (`parent_sets`), so the flat side can follow them.
Also: page accounting (`Cons`) gives liveness of the result.
-/
namespace RV.TreeFlat
open RV.Tree RV.NodeFlat Gen.TreeM Gen.Tree

theorem search_decomp {β : Type} (l : List (Key × β)) (ki : Key) (c : β) (r : List (Key × β)) (k : Key)
    (hlt : ∀ e ∈ l, e.1 < k) (hle : k ≤ ki) : search (l ++ (ki, c) :: r) k = l.length := by
  induction l with
  | nil =>
    have : searchHit ki k = true := by simpa [searchHit, BitVec.ule_iff_le] using hle
    simp [search, this]
  | cons x rest ih =>
    have hx : searchHit x.1 k = false := by
      cases hh : searchHit x.1 k with
      | false => rfl
      | true =>
        have hk : k ≤ x.1 := by simpa [searchHit, BitVec.ule_iff_le] using hh
        have := hlt x (by simp)
        bv_omega
    obtain ⟨xk, xv⟩ := x
    simp only [List.cons_append, search, List.length_cons]
    simp only [] at hx
    rw [hx]
    simp [ih (fun e he => hlt e (by simp [he]))]

/-- `setEnts` on a list split at the routing entry -/
theorem setEnts_decomp (cfg : Cfg) (k : Key) (v : Val) : ∀ (l : List (Key × Node)) (ki : Key) (c : Node)
    (r : List (Key × Node)) (a : Alloc), (∀ e ∈ l, e.1 < k) → k ≤ ki → ki ≠ 0#64 → c ≠ .null →
    setEnts cfg (l ++ (ki, c) :: r) k v a =
      (l ++ (ki, (afterChild cfg ki (setNode cfg c k v a).1 (setNode cfg c k v a).2).1) :: r,
       (afterChild cfg ki (setNode cfg c k v a).1 (setNode cfg c k v a).2).2.1,
       (afterChild cfg ki (setNode cfg c k v a).1 (setNode cfg c k v a).2).2.2)
  | [], ki, c, r, a, _, hle, hk0, hc => by
    have hhit : searchHit ki k = true := by simpa [searchHit, BitVec.ule_iff_le] using hle
    have hslot : setSlotEmpty ki = false := by unfold setSlotEmpty; simpa using hk0
    cases c with
    | null => exact absurd rfl hc
    | leaf q es' => rw [List.nil_append, setEnts.eq_def]; simp only [hhit, hslot, if_true, Bool.false_eq_true, if_false]; rfl
    | inner q es' => rw [List.nil_append, setEnts.eq_def]; simp only [hhit, hslot, if_true, Bool.false_eq_true, if_false]; rfl
  | (xk, xc) :: rest, ki, c, r, a, hlt, hle, hk0, hc => by
    have hx : searchHit xk k = false := by
      cases hh : searchHit xk k with
      | false => rfl
      | true =>
        have hk : k ≤ xk := by simpa [searchHit, BitVec.ule_iff_le] using hh
        have := hlt (xk, xc) (by simp)
        simp only [] at this
        bv_omega
    have ih := setEnts_decomp cfg k v rest ki c r a (fun e he => hlt e (by simp [he])) hle hk0 hc
    rw [List.cons_append, setEnts.eq_def]
    simp only [hx, Bool.false_eq_true, if_false, ih]
    rfl

/-- the facts about one inner step of `setNode` that the flat side needs -/
theorem inner_step {cfg : Cfg} (hc : CfgOk cfg) (p : Nat) (l : List (Key × Node)) (ki : Key) (c : Node)
    (r : List (Key × Node)) (lo hi k : Key) (v : Val) (a : Alloc)
    (h : okNode cfg.maxKeys (cfg.maxKeys - 1) (.inner p (l ++ (ki, c) :: r)) lo hi) (hk1 : lo < k) (ha : a.fault = none)
    (hlt : ∀ e ∈ l, e.1 < k) (hle : k ≤ ki) :
    okNode cfg.maxKeys (cfg.maxKeys - 1) c (lastKeyD lo l) ki ∧ lastKeyD lo l < k ∧ ki ≠ 0#64 ∧
    ((setNode cfg c k v a).1.len ≠ cfg.maxKeys →
      setNode cfg (.inner p (l ++ (ki, c) :: r)) k v a =
        (.inner p (l ++ (ki, (setNode cfg c k v a).1) :: r), (setNode cfg c k v a).2)) ∧
    ((setNode cfg c k v a).1.len = cfg.maxKeys →
      setNode cfg (.inner p (l ++ (ki, c) :: r)) k v a =
        (.inner p (l ++ ((splitNode cfg (setNode cfg c k v a).1 (setNode cfg c k v a).2).1.maxKey,
                          (splitNode cfg (setNode cfg c k v a).1 (setNode cfg c k v a).2).1) ::
                        (ki, (splitNode cfg (setNode cfg c k v a).1 (setNode cfg c k v a).2).2.1) :: r),
         (splitNode cfg (setNode cfg c k v a).1 (setNode cfg c k v a).2).2.2) ∧
      nodeSet cfg.maxKeys (l ++ (ki, (splitNode cfg (setNode cfg c k v a).1 (setNode cfg c k v a).2).1) :: r)
          (splitNode cfg (setNode cfg c k v a).1 (setNode cfg c k v a).2).1.maxKey
          (splitNode cfg (setNode cfg c k v a).1 (setNode cfg c k v a).2).1 =
        some (l ++ ((splitNode cfg (setNode cfg c k v a).1 (setNode cfg c k v a).2).1.maxKey,
                     (splitNode cfg (setNode cfg c k v a).1 (setNode cfg c k v a).2).1) ::
                   (ki, (splitNode cfg (setNode cfg c k v a).1 (setNode cfg c k v a).2).1) :: r, 1) ∧
      nodeSet cfg.maxKeys (l ++ ((splitNode cfg (setNode cfg c k v a).1 (setNode cfg c k v a).2).1.maxKey,
                     (splitNode cfg (setNode cfg c k v a).1 (setNode cfg c k v a).2).1) ::
                   (ki, (splitNode cfg (setNode cfg c k v a).1 (setNode cfg c k v a).2).1) :: r)
          (splitNode cfg (setNode cfg c k v a).1 (setNode cfg c k v a).2).2.1.maxKey
          (splitNode cfg (setNode cfg c k v a).1 (setNode cfg c k v a).2).2.1 =
        some (l ++ ((splitNode cfg (setNode cfg c k v a).1 (setNode cfg c k v a).2).1.maxKey,
                     (splitNode cfg (setNode cfg c k v a).1 (setNode cfg c k v a).2).1) ::
                   (ki, (splitNode cfg (setNode cfg c k v a).1 (setNode cfg c k v a).2).2.1) :: r, 0) ∧
      (splitNode cfg (setNode cfg c k v a).1 (setNode cfg c k v a).2).1.maxKey ≠ 0#64 ∧
      (splitNode cfg (setNode cfg c k v a).1 (setNode cfg c k v a).2).2.1.maxKey = ki) := by
  have hmk := hc.lt
  have hge := hc.ge4
  have hs := okEnts_sorted h.1
  have hoe := okEnts_append.mp h.1
  have hcok : okNode cfg.maxKeys (cfg.maxKeys - 1) c (lastKeyD lo l) ki := hoe.2.1
  have hlk : lastKeyD lo l < k := lastKeyD_lt_of_all_lt hlt hk1
  have hloki := okNode_lo_lt_hi hcok
  have hk0 : ki ≠ 0#64 := by intro e; rw [e] at hloki; bv_omega
  have hcn : c ≠ .null := okNode_ne_null hcok
  have hlen : (l ++ (ki, c) :: r).length ≤ cfg.maxKeys - 1 := h.2.2
  have hn := setNode_spec hc c (lastKeyD lo l) ki k v a hcok hlk hle ha
  have hidx : setIdxPanic (w (search (l ++ (ki, c) :: r) k)) (w cfg.maxKeys) = false := by
    rw [search_decomp l ki c r k hlt hle]
    unfold setIdxPanic
    have : l.length < (l ++ (ki, c) :: r).length := by simp
    rw [w_sle (by omega) (by omega)]; simp; omega
  have heq := setEnts_decomp cfg k v l ki c r a hlt hle hk0 hcn
  have hfullEq : Node.isFull cfg (setNode cfg c k v a).1 = decide ((setNode cfg c k v a).1.len = cfg.maxKeys) := by
    have := okNode_len hn.2.1
    exact Node.isFull_eq cfg _ (by omega) (by omega)
  refine ⟨hcok, hlk, hk0, ?_, ?_⟩
  · intro hnf
    rw [setNode]
    simp only [hidx, Bool.false_eq_true, if_false, heq]
    unfold afterChild
    simp only [hfullEq, hnf, decide_false, Bool.false_eq_true, if_false]
  · intro hfull
    have hac := afterChild_spec hc ki (lastKeyD lo l) (setNode cfg c k v a).1 (setNode cfg c k v a).2 hn.2.1 hn.1
    have hafter : afterChild cfg ki (setNode cfg c k v a).1 (setNode cfg c k v a).2 =
        ((splitNode cfg (setNode cfg c k v a).1 (setNode cfg c k v a).2).1,
         (splitNode cfg (setNode cfg c k v a).1 (setNode cfg c k v a).2).2.2,
         some { ki := ki, left := (splitNode cfg (setNode cfg c k v a).1 (setNode cfg c k v a).2).1,
                right := (splitNode cfg (setNode cfg c k v a).1 (setNode cfg c k v a).2).2.1 }) := by
      unfold afterChild
      simp only [hfullEq, hfull, decide_true, if_true]
    rw [hafter] at hac heq
    obtain ⟨_, hpost, _⟩ := hac
    obtain ⟨_, _, lm, p3, p4, p5, p6, _⟩ := hpost
    simp only [] at p3 p4 p5 p6
    generalize hL : (splitNode cfg (setNode cfg c k v a).1 (setNode cfg c k v a).2).1 = L at *
    generalize hR : (splitNode cfg (setNode cfg c k v a).1 (setNode cfg c k v a).2).2.1 = R at *
    generalize hA : (splitNode cfg (setNode cfg c k v a).1 (setNode cfg c k v a).2).2.2 = a2 at *
    have hs1 : SortedFrom lo (l ++ (ki, L) :: r) := sortedFrom_replace L hs
    have h1 := okNode_lo_lt_hi p3
    have h2 := okNode_lo_lt_hi p4
    have hlen1 : (l ++ (ki, L) :: r).length < cfg.maxKeys := by simp at hlen ⊢; omega
    obtain ⟨q1, q2⟩ := parent_sets (by omega) l ki lm L R r hs1 h1 h2 hlen1
    have hcond : (ki == ki && lm != ki && (0 : Nat) == 0) = true := by simp; bv_omega
    have hlm0 : lm ≠ 0#64 := by intro e; rw [e] at h1; bv_omega
    rw [p5, p6]
    refine ⟨?_, q1, q2, hlm0, rfl⟩
    rw [setNode]
    simp only [hidx, Bool.false_eq_true, if_false, heq, p5, p6, q1, q2, hcond, if_true]

/-! ## liveness from page accounting -/

/-- page accounting (`Cons`, proved for `setNode` by the C10 development) turns liveness of the old
node into liveness of the new one, keeps the free list duplicate-free and below the frontier, and
keeps every page *outside* (not of the node, not free, below the frontier) outside. -/
theorem live_of_cons {a a' : Alloc} {X Y : List Nat} (hc : Cons a a' X Y) (hX : X.Nodup)
    (hXl : ∀ r ∈ X, r ∉ a.free ∧ r < a.nextPage) (hfn : a.free.Nodup) (hfb : ∀ q ∈ a.free, q < a.nextPage) :
    Y.Nodup ∧ (∀ r ∈ Y, r ∉ a'.free ∧ r < a'.nextPage) ∧ a'.free.Nodup ∧ (∀ q ∈ a'.free, q < a'.nextPage) ∧
    (∀ r, r ∉ X → r ∉ a.free → r < a.nextPage → r ∉ Y ∧ r ∉ a'.free) := by
  have hnp := hc.np
  have hle1 : ∀ x, List.count x Y + List.count x a'.free ≤ 1 := by
    intro x
    rw [hc.cnt x]
    have c1 := List.nodup_iff_count.mp hX x
    have c2 := List.nodup_iff_count.mp hfn x
    have c3 := List.nodup_iff_count.mp (List.nodup_range' (s := a.nextPage) (n := a'.nextPage - a.nextPage)) x
    by_cases hx : x ∈ X
    · have := hXl x hx
      have z2 : List.count x a.free = 0 := List.count_eq_zero.mpr this.1
      have z3 : List.count x (List.range' a.nextPage (a'.nextPage - a.nextPage)) = 0 := by
        apply List.count_eq_zero.mpr; rw [List.mem_range'_1]; omega
      omega
    · have z1 : List.count x X = 0 := List.count_eq_zero.mpr hx
      by_cases hf : x ∈ a.free
      · have := hfb x hf
        have z3 : List.count x (List.range' a.nextPage (a'.nextPage - a.nextPage)) = 0 := by
          apply List.count_eq_zero.mpr; rw [List.mem_range'_1]; omega
        omega
      · have z2 : List.count x a.free = 0 := List.count_eq_zero.mpr hf
        omega
  have hlt : ∀ x, 0 < List.count x Y + List.count x a'.free → x < a'.nextPage := by
    intro x hx
    rw [hc.cnt x] at hx
    by_cases h1 : x ∈ X
    · have := (hXl x h1).2; omega
    · by_cases h2 : x ∈ a.free
      · have := hfb x h2; omega
      · have z1 : List.count x X = 0 := List.count_eq_zero.mpr h1
        have z2 : List.count x a.free = 0 := List.count_eq_zero.mpr h2
        have : 0 < List.count x (List.range' a.nextPage (a'.nextPage - a.nextPage)) := by omega
        have := List.count_pos_iff.mp this
        rw [List.mem_range'_1] at this; omega
  refine ⟨?_, ?_, ?_, ?_, ?_⟩
  · exact List.nodup_iff_count.mpr fun x => by have := hle1 x; omega
  · intro r hr
    have hp : 0 < List.count r Y := List.count_pos_iff.mpr hr
    refine ⟨fun hf => ?_, hlt r (by omega)⟩
    have : 0 < List.count r a'.free := List.count_pos_iff.mpr hf
    have := hle1 r; omega
  · exact List.nodup_iff_count.mpr fun x => by have := hle1 x; omega
  · intro q hq
    have : 0 < List.count q a'.free := List.count_pos_iff.mpr hq
    exact hlt q (by omega)
  · intro r h1 h2 h3
    have z1 : List.count r X = 0 := List.count_eq_zero.mpr h1
    have z2 : List.count r a.free = 0 := List.count_eq_zero.mpr h2
    have z3 : List.count r (List.range' a.nextPage (a'.nextPage - a.nextPage)) = 0 := by
      apply List.count_eq_zero.mpr; rw [List.mem_range'_1]; omega
    have := hc.cnt r
    constructor
    · intro hy; have : 0 < List.count r Y := List.count_pos_iff.mpr hy; omega
    · intro hy; have : 0 < List.count r a'.free := List.count_pos_iff.mpr hy; omega

end RV.TreeFlat
