import RV.Proofs.CacheAcctStore
/-!
# Collision-free histories: every conflict in flight is the conflict of its hash

`ReachC cfg conf s`: `s` is reachable by a run all of whose `Set`/`Del` calls pass
`conf h` as the conflict of hash `h` (this is collision-freedom: two live keys never share the
primary hash with different conflicts).  Then every stored entry, every buffered item and
every item held by a client or the applier carries `conf` of its hash (`ConfInv`).
Also: the store's key list is duplicate-free in every reachable state (`store_nodup_reach`).
-/
namespace RV.Cache
open RV Gen.Cache

/-- the call supplies the conflict `conf h` for hash `h` -/
def CallOk (conf : Hash → Conf) : Action → Prop
  | .spawn _ (.set h c _ _ _) => c = conf h
  | .spawn _ (.del h c) => c = conf h
  | _ => True

inductive ReachC (cfg : Cfg) (conf : Hash → Conf) : State → Prop
  | init (now : Time) : ReachC cfg conf (init cfg now)
  | step {s s' : State} {a : Action} : ReachC cfg conf s → CallOk conf a → step cfg s a = some s' → ReachC cfg conf s'

theorem ReachC.reach {cfg : Cfg} {conf : Hash → Conf} {s : State} (h : ReachC cfg conf s) : Reach cfg s := by
  induction h with
  | init now => exact Reach.of_init cfg now
  | step _ _ hs ih => exact ih.of_step hs

def Item.confOk (conf : Hash → Conf) (i : Item) : Prop := i.conflict = conf i.key

def BufElem.confOk (conf : Hash → Conf) : BufElem → Prop
  | .item i => i.confOk conf
  | .marker _ => True

def CPc.confOk (conf : Hash → Conf) : CPc → Prop
  | .setStart h c _ _ _ => c = conf h
  | .setUpd i => i.confOk conf
  | .setExit i _ => i.confOk conf
  | .setSend i => i.confOk conf
  | .delStart h c => c = conf h
  | .delExit h c _ => c = conf h
  | .delSend h c => c = conf h
  | _ => True

def APc.confOk (conf : Hash → Conf) : APc → Prop
  | .item i => i.confOk conf
  | .costed i => i.confOk conf
  | .added i _ _ => i.confOk conf
  | .tombPolicy i => i.confOk conf
  | _ => True

structure ConfInv (conf : Hash → Conf) (s : State) : Prop where
  store : ∀ h e, s.store.lookup h = some e → e.conflict = conf h
  cl : ∀ t, (s.cl t).confOk conf
  buf : ∀ e ∈ s.buf, e.confOk conf
  sendq : ∀ p ∈ s.sendq, p.2.confOk conf
  app : s.app.confOk conf

theorem unblockedPc_confOk (conf : Hash → Conf) (pc : CPc) : (unblockedPc pc).confOk conf ↔ pc.confOk conf := by
  cases pc <;> simp [unblockedPc, CPc.confOk]

theorem conf_cl_frame {conf : Hash → Conf} {s s' : State} (h : ConfInv conf s) (t : Tid)
    (hne : ∀ t', t' ≠ t → s'.cl t' = s.cl t') (ht : (s'.cl t).confOk conf) (hst : s'.store = s.store)
    (hbuf : s'.buf = s.buf) (hsq : s'.sendq = s.sendq) (happ : s'.app = s.app) : ConfInv conf s' := by
  refine ⟨by rw [hst]; exact h.store, ?_, by rw [hbuf]; exact h.buf, by rw [hsq]; exact h.sendq, by rw [happ]; exact h.app⟩
  intro t'
  by_cases e : t' = t
  · subst e; exact ht
  · rw [hne t' e]; exact h.cl t'

theorem recvBuf_conf {conf : Hash → Conf} {s s1 : State} {x : BufElem} (h : ConfInv conf s) (hr : recvBuf s = some (x, s1)) :
    x.confOk conf ∧ (∀ t, (s1.cl t).confOk conf) ∧ (∀ e ∈ s1.buf, e.confOk conf) ∧ (∀ p ∈ s1.sendq, p.2.confOk conf) := by
  obtain ⟨rest, hb, hcase⟩ := recvBuf_cases hr
  have hx : x.confOk conf := h.buf x (by rw [hb]; exact List.mem_cons_self)
  have hrest : ∀ e ∈ rest, e.confOk conf := fun e he => h.buf e (by rw [hb]; exact List.mem_cons_of_mem _ he)
  rcases hcase with ⟨_, rfl⟩ | ⟨t0, e0, q, hq, rfl⟩
  · exact ⟨hx, h.cl, hrest, h.sendq⟩
  · refine ⟨hx, ?_, ?_, ?_⟩
    · intro t
      by_cases e : t = t0
      · subst e; simp only [setCl_cl_self]; exact (unblockedPc_confOk conf _).mpr (h.cl t)
      · rw [setCl_cl_ne _ _ _ e]; exact h.cl t
    · intro e he
      simp only [setCl_buf, List.mem_append, List.mem_singleton] at he
      rcases he with he | rfl
      · exact hrest e he
      · exact h.sendq (t0, e) (by rw [hq]; exact List.mem_cons_self)
    · intro p hp
      simp only [setCl_sendq] at hp
      exact h.sendq p (by rw [hq]; exact List.mem_cons_of_mem _ hp)

theorem sendBlocking_conf {conf : Hash → Conf} {cfg : Cfg} {s : State} (h : ConfInv conf s) (t : Tid) (e : BufElem)
    (sent blocked : CPc) (he : e.confOk conf) (h1 : sent.confOk conf) (h2 : blocked.confOk conf) :
    ConfInv conf (sendBlocking cfg s t e sent blocked) := by
  unfold sendBlocking
  split
  · refine ⟨h.store, ?_, ?_, h.sendq, h.app⟩
    · intro t'
      by_cases e' : t' = t
      · subst e'; simpa using h1
      · rw [setCl_cl_ne _ _ _ e']; exact h.cl t'
    · intro x hx
      simp only [setCl_buf, List.mem_append, List.mem_singleton] at hx
      rcases hx with hx | rfl
      · exact h.buf x hx
      · exact he
  · refine ⟨h.store, ?_, h.buf, ?_, h.app⟩
    · intro t'
      by_cases e' : t' = t
      · subst e'; simpa using h2
      · rw [setCl_cl_ne _ _ _ e']; exact h.cl t'
    · intro x hx
      simp only [setCl_sendq, List.mem_append, List.mem_singleton] at hx
      rcases hx with hx | rfl
      · exact h.sendq x hx
      · exact he

open Lean in
macro "conf_cl " f:ident tt:ident : tactic => do
  let n := f.getId
  let clne := mkIdent (n.appendAfter "_cl_ne")
  let st := mkIdent (n.appendAfter "_store")
  let buf := mkIdent (n.appendAfter "_buf")
  let sq := mkIdent (n.appendAfter "_sendq")
  let app := mkIdent (n.appendAfter "_app")
  `(tactic| (refine conf_cl_frame ‹ConfInv _ _› _ (fun _ hne => $clne (hne := hne) ..) ?_ (by rw [$st:ident]) (by rw [$buf:ident]) (by rw [$sq:ident]) (by rw [$app:ident]); have hcl0 := ConfInv.cl ‹ConfInv _ _› $tt; (unfold $f; try dsimp only); (repeat' split) <;> simp_all [CPc.confOk, Item.confOk]))

theorem conf_clientStep {conf : Hash → Conf} {cfg : Cfg} {s s' : State} {t : Tid} {ch : Choice}
    (h : ConfInv conf s) (hs : clientStep cfg s t ch = some s') : ConfInv conf s' := by
  apply clientStep_cases hs (motive := ConfInv conf)
  case setStart => intros; conf_cl stSetStart t
  case setExit => intros; conf_cl stSetExit t
  case setRetTrue => intros; conf_cl stSetRetTrue t
  case setRetDrop => intros; conf_cl stSetRetDrop t
  case delExit => intros; conf_cl stDelExit t
  case delSent => intros; conf_cl stDelSent t
  case waitStart => intros; conf_cl stWaitStart t
  case waitDone => intros; conf_cl stWaitDone t
  case getRead => intros; conf_cl stGetRead t
  case getCheck => intros; conf_cl stGetCheck t
  case getMetric => intros; conf_cl stGetMetric t
  case ttlRead => intros; conf_cl stTtlRead t
  case ttlCheck => intros; conf_cl stTtlCheck t
  case ttlExp => intros; conf_cl stTtlExp t
  case ttlNow => intros; conf_cl stTtlNow t
  case ttlUntil => intros; conf_cl stTtlUntil t
  case iterStart => intros; conf_cl stIterStart t
  case clrStart => intros; conf_cl stClrStart t
  case clrPolicy => intros; conf_cl stClrPolicy t
  case clrEm => intros; conf_cl stClrEm t
  case clrMetrics => intros; conf_cl stClrMetrics t
  case updMax => intros; conf_cl stUpdMax t
  case readMax => intros; conf_cl stReadMax t
  case readRem => intros; conf_cl stReadRem t
  case setUpd =>
    intro i hpc _
    have hi : i.confOk conf := by have := h.cl t; rw [hpc] at this; exact this
    refine ⟨?_, ?_, by rw [stSetUpd_buf]; exact h.buf, by rw [stSetUpd_sendq]; exact h.sendq, by rw [stSetUpd_app]; exact h.app⟩
    · intro h' e hl
      have hl' : (storeUpdate cfg s.store s.em i).1.lookup h' = some e := by
        unfold stSetUpd at hl; dsimp only at hl; split at hl <;> exact hl
      rcases storeUpdate_lookup cfg s.store s.em i hl' with h1 | ⟨rfl, h2⟩
      · exact h.store h' e h1
      · rw [h2]; exact hi
    · intro t'
      by_cases e' : t' = t
      · subst e'; unfold stSetUpd; dsimp only; split <;> simpa [CPc.confOk] using hi
      · rw [stSetUpd_cl_ne _ _ _ _ e']; exact h.cl t'
  case setSend =>
    intro i hpc _
    have hi : i.confOk conf := by have := h.cl t; rw [hpc] at this; exact this
    unfold stSetSend
    split
    · refine ⟨h.store, ?_, ?_, h.sendq, h.app⟩
      · intro t'
        by_cases e' : t' = t
        · subst e'; simp [CPc.confOk]
        · rw [setCl_cl_ne _ _ _ e']; exact h.cl t'
      · intro x hx
        simp only [setCl_buf, List.mem_append, List.mem_singleton] at hx
        rcases hx with hx | rfl
        · exact h.buf x hx
        · exact hi
    · exact conf_cl_frame h t (fun _ hne => setCl_cl_ne _ _ _ hne) (by simp [CPc.confOk]) rfl rfl rfl rfl
  case delStart =>
    intro h' c hpc _
    have hc : c = conf h' := by have := h.cl t; rw [hpc] at this; exact this
    unfold stDelStart
    split
    · exact conf_cl_frame h t (fun _ hne => setCl_cl_ne _ _ _ hne) (by simp [CPc.confOk]) rfl rfl rfl rfl
    · refine ⟨?_, ?_, h.buf, h.sendq, h.app⟩
      · intro h'' e hl
        exact h.store h'' e (storeDel_sub _ _ _ _ hl)
      · intro t'
        by_cases e' : t' = t
        · subst e'; simpa [CPc.confOk] using hc
        · rw [setCl_cl_ne _ _ _ e']; exact h.cl t'
  case delSend =>
    intro h' c hpc _
    have hc : c = conf h' := by have := h.cl t; rw [hpc] at this; exact this
    exact sendBlocking_conf h t _ _ _ (by simpa [BufElem.confOk, Item.confOk] using hc) (by simp [CPc.confOk]) (by simp [CPc.confOk])
  case waitSend =>
    intro hpc _
    have hb : ConfInv conf { s with nextMarker := s.nextMarker + 1 } := ⟨h.store, h.cl, h.buf, h.sendq, h.app⟩
    exact sendBlocking_conf hb t _ _ _ (by simp [BufElem.confOk]) (by simp [CPc.confOk]) (by simp [CPc.confOk])
  case waitRecv =>
    intro id hpc _ hr
    refine conf_cl_frame h t (fun _ hne => stWaitRecv_cl_ne _ _ _ hr hne) ?_ (stWaitRecv_store _ _ _ hr)
      (stWaitRecv_buf _ _ _ hr) (stWaitRecv_sendq _ _ _ hr) (stWaitRecv_app _ _ _ hr)
    unfold stWaitRecv at hr; split at hr
    · simp only [Option.some.injEq] at hr; subst hr; simp [CPc.confOk]
    · simp at hr
  case getStart =>
    intro h' c hpc hr
    have hne := (stGetStart_frame hr).1
    rcases stGetStart_cases hr with ⟨_, rfl⟩ | ⟨_, rfl⟩ | ⟨_, kept, n, _, _, rfl⟩
    · exact conf_cl_frame h t hne (by simp [CPc.confOk]) rfl rfl rfl rfl
    · exact conf_cl_frame h t hne (by simp [CPc.confOk]) rfl rfl rfl rfl
    · exact conf_cl_frame h t hne (by simp [CPc.confOk]) (by simp) (by simp) (by simp) (by simp)
  case iterShard =>
    intro k n seen hpc hr
    have hne := (stIterShard_frame hr).1
    obtain ⟨ks, _, _, _, hcase⟩ := stIterShard_cases hr
    rcases hcase with ⟨_, rfl⟩ | ⟨_, rfl⟩
    · exact conf_cl_frame h t hne (by simp [CPc.confOk]) rfl rfl rfl rfl
    · exact conf_cl_frame h t hne (by simp [CPc.confOk]) rfl rfl rfl rfl
  case clrDrain =>
    intro closing hpc _
    rcases stClrDrain_cases s t closing with ⟨_, e⟩ | ⟨id, s1, hr, e⟩ | ⟨i, s1, hr, _, e⟩ | ⟨i, s1, hr, _, e⟩ <;> rw [e]
    · exact conf_cl_frame h t (fun _ hne => setCl_cl_ne _ _ _ hne) (by simp [CPc.confOk]) rfl rfl rfl rfl
    · obtain ⟨_, h1, h2, h3⟩ := recvBuf_conf h hr
      exact ⟨by simp [recvBuf_store hr]; exact h.store, h1, h2, h3, by simp [recvBuf_app hr]; exact h.app⟩
    · obtain ⟨_, h1, h2, h3⟩ := recvBuf_conf h hr
      exact ⟨by simp [recvBuf_store hr]; exact h.store, h1, h2, h3, by simp [recvBuf_app hr]; exact h.app⟩
    · obtain ⟨_, h1, h2, h3⟩ := recvBuf_conf h hr
      exact ⟨by rw [recvBuf_store hr]; exact h.store, h1, h2, h3, by rw [recvBuf_app hr]; exact h.app⟩
  case clrShard =>
    intro closing k hpc hr
    obtain ⟨ks, _, _, _, rfl⟩ := stClrShard_cases hr
    refine ⟨?_, ?_, by simp only [setCl_buf, evictAll_buf]; exact h.buf, by simp only [setCl_sendq, evictAll_sendq]; exact h.sendq, by simp only [setCl_app, evictAll_app]; exact h.app⟩
    · intro h' e hl
      simp only [setCl_store, evictAll_store] at hl
      rw [eraseAll_lookup] at hl
      split at hl
      · cases hl
      · exact h.store h' e hl
    · intro t'
      by_cases e' : t' = t
      · subst e'; simp only [setCl_cl_self]; split <;> simp [CPc.confOk]
      · rw [setCl_cl_ne _ _ _ e']; simp only [evictAll_cl]; exact h.cl t'
  case clrRestart =>
    intro closing hpc _
    refine ⟨by rw [stClrRestart_store]; exact h.store, ?_, by rw [stClrRestart_buf]; exact h.buf,
      by rw [stClrRestart_sendq]; exact h.sendq, ?_⟩
    · intro t'
      by_cases e' : t' = t
      · subst e'; unfold stClrRestart; dsimp only; split <;> simp [CPc.confOk]
      · rw [stClrRestart_cl_ne _ _ _ e']; exact h.cl t'
    · unfold stClrRestart; dsimp only; split <;> simp [APc.confOk]
  case clsFinish =>
    intro hpc _
    refine ⟨h.store, ?_, h.buf, h.sendq, by simp [stClsFinish, APc.confOk]⟩
    intro t'
    by_cases e' : t' = t
    · subst e'; simp [stClsFinish, CPc.confOk]
    · rw [stClsFinish_cl_ne _ _ e']; exact h.cl t'

theorem conf_applierStep {conf : Hash → Conf} {cfg : Cfg} {s s' : State} {ch : Choice}
    (h : ConfInv conf s) (hs : applierStep cfg s ch = some s') : ConfInv conf s' := by
  apply applierStep_cases hs (motive := ConfInv conf)
  case idle =>
    intro hpc hr
    rcases apIdle_cases hr with ⟨id, s1, _, hrecv, rfl⟩ | ⟨i, s1, _, hrecv, rfl⟩ | ⟨_, rfl⟩ | ⟨t, _, hstop⟩
    · obtain ⟨_, h1, h2, h3⟩ := recvBuf_conf h hrecv
      exact ⟨by simp [recvBuf_store hrecv]; exact h.store, h1, h2, h3, by simp [APc.confOk]⟩
    · obtain ⟨hx, h1, h2, h3⟩ := recvBuf_conf h hrecv
      exact ⟨by simp [recvBuf_store hrecv]; exact h.store, h1, h2, h3, hx⟩
    · exact ⟨h.store, h.cl, h.buf, h.sendq, by simp [APc.confOk]⟩
    · rcases apSelStop_cases hstop with ⟨closing, hpc', rfl⟩ | ⟨hpc', rfl⟩
      · refine ⟨h.store, ?_, h.buf, h.sendq, by simp [APc.confOk]⟩
        intro t'
        by_cases e' : t' = t
        · subst e'; simp [CPc.confOk]
        · rw [setCl_cl_ne _ _ _ e']; exact h.cl t'
      · refine ⟨h.store, ?_, h.buf, h.sendq, by simp [APc.confOk]⟩
        intro t'
        by_cases e' : t' = t
        · subst e'; simp [CPc.confOk]
        · rw [setCl_cl_ne _ _ _ e']; exact h.cl t'
  case marker => intro id hpc _; exact ⟨h.store, h.cl, h.buf, h.sendq, by simp [apMarker, APc.confOk]⟩
  case item =>
    intro i hpc _
    have hi : i.confOk conf := by have := h.app; rw [hpc] at this; exact this
    exact ⟨h.store, h.cl, h.buf, h.sendq, hi⟩
  case costed =>
    intro i hpc hr
    have hi : i.confOk conf := by have := h.app; rw [hpc] at this; exact this
    rcases apCosted_cases hr with ⟨victims, added, pm, hf, _, hp, rfl⟩ | ⟨hf, _, rfl⟩ | ⟨_, _, rfl⟩
    · exact ⟨h.store, h.cl, h.buf, h.sendq, hi⟩
    · exact ⟨h.store, h.cl, h.buf, h.sendq, by simp [apCostedUpd, APc.confOk]⟩
    · exact ⟨h.store, h.cl, h.buf, h.sendq, hi⟩
  case added =>
    intro i victims ok hpc _
    have hi : i.confOk conf := by have := h.app; rw [hpc] at this; exact this
    refine ⟨?_, by rw [apAdded_cl]; exact h.cl, by rw [apAdded_buf]; exact h.buf, by rw [apAdded_sendq]; exact h.sendq, ?_⟩
    · intro h' e hl
      unfold apAdded at hl
      split at hl
      · simp only [metAdd_store] at hl
        rcases storeSet_lookup cfg s.store s.em i hl with h1 | ⟨rfl, h2⟩
        · exact h.store h' e h1
        · rw [h2]; exact hi
      · exact h.store h' e hl
    · unfold apAdded afterVictims
      split <;> split <;> simp [APc.confOk]
  case victims =>
    intro vs hpc _ hr
    obtain ⟨h', cost, rest, _, rfl⟩ := apVictims_cases hr
    exact ⟨fun h'' e hl => h.store h'' e (storeDel_sub _ _ _ _ hl), h.cl, h.buf, h.sendq, by simp [APc.confOk]⟩
  case victimEvict =>
    intro h' cost c v rest hpc _
    refine ⟨h.store, h.cl, h.buf, h.sendq, ?_⟩
    unfold apVictimEvict afterVictims
    split <;> simp [APc.confOk]
  case tombPolicy =>
    intro i hpc _
    exact ⟨fun h'' e hl => h.store h'' e (storeDel_sub _ _ _ _ hl), h.cl, h.buf, h.sendq, by simp [apTombPolicy, APc.confOk]⟩
  case tombStore => intro v hpc _; exact ⟨h.store, h.cl, h.buf, h.sendq, by simp [apTombStore, APc.confOk]⟩
  case tick => intro hpc _; exact ⟨h.store, h.cl, h.buf, h.sendq, by simp [apTick, APc.confOk]⟩
  case sweep =>
    intro now bs hpc hr
    rcases apSweep_cases hr with ⟨_, rfl⟩ | ⟨b, rest, k, c, _, _, rfl⟩
    · exact ⟨h.store, h.cl, h.buf, h.sendq, by simp [APc.confOk]⟩
    · exact ⟨h.store, h.cl, h.buf, h.sendq, by simp [APc.confOk]⟩
  case swKey =>
    intro now k c bs hpc _
    refine ⟨?_, by rw [apSwKey_cl]; exact h.cl, by rw [apSwKey_buf]; exact h.buf, by rw [apSwKey_sendq]; exact h.sendq, ?_⟩
    · intro h' e hl
      unfold apSwKey at hl; dsimp only at hl
      split at hl
      · rename_i hrem
        simp only at hl
        rw [storeDelExpired_removed _ _ _ _ _ hrem, AMap.lookup_erase] at hl
        split at hl
        · cases hl
        · exact h.store h' e hl
      · exact h.store h' e hl
    · unfold apSwKey; dsimp only; split <;> simp [APc.confOk]
  case swStoreDel =>
    intro now k c expr v bs hpc _
    exact ⟨h.store, h.cl, h.buf, h.sendq, by simp [apSwStoreDel, APc.confOk]⟩
  case swPolDel =>
    intro now k c expr cost v bs hpc _
    exact ⟨h.store, h.cl, h.buf, h.sendq, by simp [apSwPolDel, APc.confOk]⟩

theorem conf_init (conf : Hash → Conf) (cfg : Cfg) (now : Time) : ConfInv conf (init cfg now) :=
  ⟨fun _ _ hl => (by simp [init] at hl), fun _ => (by simp [init, CPc.confOk]), fun _ he => (by cases he),
    fun _ hp => (by cases hp), (by simp [init, APc.confOk])⟩

theorem conf_step {conf : Hash → Conf} {cfg : Cfg} {s s' : State} {a : Action} (h : ConfInv conf s)
    (hok : CallOk conf a) (hs : step cfg s a = some s') : ConfInv conf s' := by
  cases a with
  | spawn t c =>
    have hs' : spawnStep s t c = some s' := hs
    have hidle := spawnStep_idle hs'
    refine conf_cl_frame h t (fun _ hne => spawnStep_cl_ne _ _ _ hs' hne) ?_ (spawnStep_store _ _ _ hs')
      (spawnStep_buf _ _ _ hs') (spawnStep_sendq _ _ _ hs') (spawnStep_app _ _ _ hs')
    unfold spawnStep at hs'; rw [hidle] at hs'; dsimp only at hs'
    split at hs' <;> (simp only [Option.some.injEq] at hs'; subst hs'; simp [CPc.confOk])
    · exact hok
    · exact hok
  | client t ch => exact conf_clientStep h hs
  | applier ch => exact conf_applierStep h hs
  | done t =>
    have hs' : doneStep s t = some s' := hs
    obtain ⟨happ, hcase⟩ := doneStep_cases hs'
    rcases hcase with ⟨closing, hpc, rfl⟩ | ⟨hpc, rfl⟩
    · refine ⟨h.store, ?_, h.buf, h.sendq, by simp [APc.confOk]⟩
      intro t'
      by_cases e' : t' = t
      · subst e'; simp [CPc.confOk]
      · rw [setCl_cl_ne _ _ _ e']; exact h.cl t'
    · refine ⟨h.store, ?_, h.buf, h.sendq, by simp [APc.confOk]⟩
      intro t'
      by_cases e' : t' = t
      · subst e'; simp [CPc.confOk]
      · rw [setCl_cl_ne _ _ _ e']; exact h.cl t'
  | tick d =>
    simp only [step, Option.some.injEq] at hs; subst hs
    exact ⟨h.store, h.cl, h.buf, h.sendq, h.app⟩

theorem conf_reachC {conf : Hash → Conf} {cfg : Cfg} {s : State} (h : ReachC cfg conf s) : ConfInv conf s := by
  induction h with
  | init now => exact conf_init conf cfg now
  | step _ hok hs ih => exact conf_step ih hok hs

/-! ### the store's key list is duplicate-free -/

open Lean in
macro "nd_frame " f:ident : tactic => do
  let st := mkIdent (f.getId.appendAfter "_store")
  `(tactic| (show AMap.NodupKeys _; rw [$st:ident]; assumption))

theorem nodup_clientStep {cfg : Cfg} {s s' : State} {t : Tid} {ch : Choice}
    (h : AMap.NodupKeys s.store) (hs : clientStep cfg s t ch = some s') : AMap.NodupKeys s'.store := by
  apply clientStep_cases hs (motive := fun s' => AMap.NodupKeys s'.store)
  case setStart => intros; nd_frame stSetStart
  case setExit => intros; nd_frame stSetExit
  case setSend => intros; nd_frame stSetSend
  case setRetTrue => intros; nd_frame stSetRetTrue
  case setRetDrop => intros; nd_frame stSetRetDrop
  case delExit => intros; nd_frame stDelExit
  case delSend => intros; nd_frame stDelSend
  case delSent => intros; nd_frame stDelSent
  case waitStart => intros; nd_frame stWaitStart
  case waitSend => intros; nd_frame stWaitSend
  case waitDone => intros; nd_frame stWaitDone
  case getRead => intros; nd_frame stGetRead
  case getCheck => intros; nd_frame stGetCheck
  case getMetric => intros; nd_frame stGetMetric
  case ttlRead => intros; nd_frame stTtlRead
  case ttlCheck => intros; nd_frame stTtlCheck
  case ttlExp => intros; nd_frame stTtlExp
  case ttlNow => intros; nd_frame stTtlNow
  case ttlUntil => intros; nd_frame stTtlUntil
  case iterStart => intros; nd_frame stIterStart
  case clrStart => intros; nd_frame stClrStart
  case clrPolicy => intros; nd_frame stClrPolicy
  case clrEm => intros; nd_frame stClrEm
  case clrMetrics => intros; nd_frame stClrMetrics
  case clrRestart => intros; nd_frame stClrRestart
  case clsFinish => intros; nd_frame stClsFinish
  case updMax => intros; nd_frame stUpdMax
  case readMax => intros; nd_frame stReadMax
  case readRem => intros; nd_frame stReadRem
  case setUpd =>
    intro i _ _
    show AMap.NodupKeys (stSetUpd cfg s t i).store
    unfold stSetUpd; dsimp only; split <;> exact storeUpdate_nodup cfg s.store s.em i h
  case delStart =>
    intro h' c _ _
    show AMap.NodupKeys (stDelStart s t h' c).store
    unfold stDelStart; split
    · exact h
    · exact storeDel_nodup _ _ _ _ h
  case waitRecv => intro id _ _ hr; show AMap.NodupKeys _; rw [stWaitRecv_store _ _ _ hr]; exact h
  case getStart =>
    intro h' c _ hr
    rcases stGetStart_cases hr with ⟨_, rfl⟩ | ⟨_, rfl⟩ | ⟨_, kept, n, _, _, rfl⟩
    · exact h
    · exact h
    · show AMap.NodupKeys _; simp only [setCl_store, metAdd_store]; exact h
  case iterShard =>
    intro k n seen _ hr
    obtain ⟨ks, _, _, _, hcase⟩ := stIterShard_cases hr
    rcases hcase with ⟨_, rfl⟩ | ⟨_, rfl⟩ <;> exact h
  case clrDrain =>
    intro closing _ _
    rcases stClrDrain_cases s t closing with ⟨_, e⟩ | ⟨id, s1, hr, e⟩ | ⟨i, s1, hr, _, e⟩ | ⟨i, s1, hr, _, e⟩ <;> rw [e]
    · exact h
    · show AMap.NodupKeys s1.store; rw [recvBuf_store hr]; exact h
    · show AMap.NodupKeys s1.store; rw [recvBuf_store hr]; exact h
    · show AMap.NodupKeys s1.store; rw [recvBuf_store hr]; exact h
  case clrShard =>
    intro closing k _ hr
    obtain ⟨ks, _, _, _, rfl⟩ := stClrShard_cases hr
    show AMap.NodupKeys (eraseAll (evictAll s s.store ks).store ks)
    rw [evictAll_store]; exact eraseAll_nodup _ _ h

theorem nodup_applierStep {cfg : Cfg} {s s' : State} {ch : Choice}
    (h : AMap.NodupKeys s.store) (hs : applierStep cfg s ch = some s') : AMap.NodupKeys s'.store := by
  apply applierStep_cases hs (motive := fun s' => AMap.NodupKeys s'.store)
  case idle =>
    intro _ hr
    rcases apIdle_cases hr with ⟨id, s1, _, hrecv, rfl⟩ | ⟨i, s1, _, hrecv, rfl⟩ | ⟨_, rfl⟩ | ⟨t, _, hstop⟩
    · show AMap.NodupKeys s1.store; rw [recvBuf_store hrecv]; exact h
    · show AMap.NodupKeys s1.store; rw [recvBuf_store hrecv]; exact h
    · exact h
    · show AMap.NodupKeys _; rw [apSelStop_store _ _ hstop]; exact h
  case marker => intros; exact h
  case item => intros; exact h
  case costed =>
    intro i _ hr
    rcases apCosted_cases hr with ⟨victims, added, pm, _, _, _, rfl⟩ | ⟨_, _, rfl⟩ | ⟨_, _, rfl⟩ <;> exact h
  case added =>
    intro i victims ok _ _
    show AMap.NodupKeys (apAdded cfg s i victims ok).store
    unfold apAdded; split
    · simp only [metAdd_store]; exact storeSet_nodup cfg s.store s.em i h
    · exact h
  case victims =>
    intro vs _ _ hr
    obtain ⟨h', cost, rest, _, rfl⟩ := apVictims_cases hr
    exact storeDel_nodup _ _ _ _ h
  case victimEvict => intros; exact h
  case tombPolicy => intro i _ _; exact storeDel_nodup _ _ _ _ h
  case tombStore => intros; exact h
  case tick => intros; exact h
  case sweep =>
    intro now bs _ hr
    rcases apSweep_cases hr with ⟨_, rfl⟩ | ⟨b, rest, k, c, _, _, rfl⟩ <;> exact h
  case swKey =>
    intro now k c bs _ _
    show AMap.NodupKeys (apSwKey s now k c bs).store
    unfold apSwKey; dsimp only; split
    · rename_i hrem
      show AMap.NodupKeys (storeDelExpired s.store s.em k c now).1
      rw [storeDelExpired_removed _ _ _ _ _ hrem]; exact AMap.nodup_erase h k
    · exact h
  case swStoreDel => intros; exact h
  case swPolDel => intros; exact h

/-- The key list of the store is duplicate-free in every reachable state. -/
theorem store_nodup_reach {cfg : Cfg} {s : State} (h : Reach cfg s) : AMap.NodupKeys s.store := by
  refine Reach.induction (P := fun s => AMap.NodupKeys s.store) (fun _ => AMap.nodup_empty) ?_ h
  intro s a s' _ hp hs
  cases a with
  | spawn t c => show AMap.NodupKeys _; rw [spawnStep_store _ _ _ hs]; exact hp
  | client t ch => exact nodup_clientStep hp hs
  | applier ch => exact nodup_applierStep hp hs
  | done t => show AMap.NodupKeys _; rw [doneStep_store _ _ hs]; exact hp
  | tick d => simp only [step, Option.some.injEq] at hs; subst hs; exact hp

end RV.Cache
