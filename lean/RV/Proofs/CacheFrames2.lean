import RV.Proofs.CacheFrames
/-!
Hand-written frame lemmas for the steps the generator does not cover: the channel
receive `recvBuf` (which may complete a blocked sender's send), `stClrDrain`, `apSelItem`,
`stClrShard`, `stGetStart`, `stIterShard`; and the top-level dispatchers.
-/
namespace RV.Cache

/-! ### recvBuf -/

theorem recvBuf_cases {s s1 : State} {x : BufElem} (h : recvBuf s = some (x, s1)) :
    ∃ rest, s.buf = x :: rest ∧
      ((s.sendq = [] ∧ s1 = { s with buf := rest }) ∨
       (∃ t e q, s.sendq = (t, e) :: q ∧
          s1 = setCl { s with buf := rest ++ [e], sendq := q } t (unblockedPc (s.cl t)))) := by
  unfold recvBuf at h
  split at h
  · simp at h
  · rename_i y rest hb
    split at h
    · simp at h; obtain ⟨rfl, rfl⟩ := h
      exact ⟨rest, hb, Or.inl ⟨by assumption, rfl⟩⟩
    · rename_i t e q hq
      simp at h; obtain ⟨rfl, rfl⟩ := h
      exact ⟨rest, hb, Or.inr ⟨t, e, q, hq, rfl⟩⟩

section recv
variable {s s1 : State} {x : BufElem} (h : recvBuf s = some (x, s1))
include h
theorem recvBuf_store : s1.store = s.store := by
  obtain ⟨_, _, (⟨_, rfl⟩ | ⟨_, _, _, _, rfl⟩)⟩ := recvBuf_cases h <;> rfl
theorem recvBuf_em : s1.em = s.em := by
  obtain ⟨_, _, (⟨_, rfl⟩ | ⟨_, _, _, _, rfl⟩)⟩ := recvBuf_cases h <;> rfl
theorem recvBuf_pol : s1.pol = s.pol := by
  obtain ⟨_, _, (⟨_, rfl⟩ | ⟨_, _, _, _, rfl⟩)⟩ := recvBuf_cases h <;> rfl
theorem recvBuf_met : s1.met = s.met := by
  obtain ⟨_, _, (⟨_, rfl⟩ | ⟨_, _, _, _, rfl⟩)⟩ := recvBuf_cases h <;> rfl
theorem recvBuf_closedMarkers : s1.closedMarkers = s.closedMarkers := by
  obtain ⟨_, _, (⟨_, rfl⟩ | ⟨_, _, _, _, rfl⟩)⟩ := recvBuf_cases h <;> rfl
theorem recvBuf_nextMarker : s1.nextMarker = s.nextMarker := by
  obtain ⟨_, _, (⟨_, rfl⟩ | ⟨_, _, _, _, rfl⟩)⟩ := recvBuf_cases h <;> rfl
theorem recvBuf_app : s1.app = s.app := by
  obtain ⟨_, _, (⟨_, rfl⟩ | ⟨_, _, _, _, rfl⟩)⟩ := recvBuf_cases h <;> rfl
theorem recvBuf_clock : s1.clock = s.clock := by
  obtain ⟨_, _, (⟨_, rfl⟩ | ⟨_, _, _, _, rfl⟩)⟩ := recvBuf_cases h <;> rfl
theorem recvBuf_closed : s1.closed = s.closed := by
  obtain ⟨_, _, (⟨_, rfl⟩ | ⟨_, _, _, _, rfl⟩)⟩ := recvBuf_cases h <;> rfl
theorem recvBuf_ringPending : s1.ringPending = s.ringPending := by
  obtain ⟨_, _, (⟨_, rfl⟩ | ⟨_, _, _, _, rfl⟩)⟩ := recvBuf_cases h <;> rfl
theorem recvBuf_log : s1.log = s.log := by
  obtain ⟨_, _, (⟨_, rfl⟩ | ⟨_, _, _, _, rfl⟩)⟩ := recvBuf_cases h <;> rfl
/-- a receive changes other threads' pcs at most by completing a blocked send -/
theorem recvBuf_cl (t : Tid) : s1.cl t = s.cl t ∨ s1.cl t = unblockedPc (s.cl t) := by
  obtain ⟨_, _, (⟨_, rfl⟩ | ⟨t0, _, _, _, rfl⟩)⟩ := recvBuf_cases h
  · exact Or.inl rfl
  · by_cases ht : t = t0
    · subst ht; exact Or.inr (by simp)
    · exact Or.inl (by simp [setCl_cl_ne _ _ _ ht])
end recv

end RV.Cache
