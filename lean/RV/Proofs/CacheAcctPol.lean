import RV.Proofs.CacheAcctBasic
/-!
# The policy operations of the Cache model preserve the accounting relations

`PolWf p`     : `used = Σ costs`, keys duplicate-free.
`PM on p m d` : `PolWf p` and, with metrics on, `costAdd − costEvict = used` (as 64-bit words)
                and `keyAdd + d − keyEvict = |costs|` where `d` is the number of keys that are
                accounted but whose `keyAdd` increment is still pending (the applier between
                `policy.Add` and the metric, `d ∈ {0,1}`).
-/
namespace RV.Cache
open RV

structure PolWf (p : Pol) : Prop where
  sum : p.used = p.costs.sum
  nodup : AMap.NodupKeys p.costs

structure PM (on : Bool) (p : Pol) (m : Met) (d : BitVec 64) : Prop where
  wf : PolWf p
  cost : on = true → m.costAdd - m.costEvict = w64 p.used
  keys : on = true → m.keyAdd + d - m.keyEvict = BitVec.ofNat 64 p.costs.size

/-- the counters the policy operations never touch -/
def Met.cnt (m : Met) : BitVec 64 × BitVec 64 × BitVec 64 × BitVec 64 × BitVec 64 × BitVec 64 :=
  (m.hit, m.miss, m.dropSets, m.keepGets, m.dropGets, m.keyAdd)

theorem w64_sub (a b : Int) : w64 (a - b) = w64 a - w64 b := by
  unfold w64
  rw [Int.sub_eq_add_neg, BitVec.ofInt_add, BitVec.ofInt_neg, BitVec.sub_eq_add_neg]
theorem w64_add (a b : Int) : w64 (a + b) = w64 a + w64 b := by
  unfold w64; rw [BitVec.ofInt_add]
theorem w64_zero : w64 0 = 0#64 := rfl

theorem ofNat_succ64 (n : Nat) : BitVec.ofNat 64 (n + 1) = BitVec.ofNat 64 n + 1 := by
  rw [BitVec.ofNat_add]; rfl

/-! ### polDel -/

section del
variable (on : Bool) (p : Pol) (m : Met) (k : Hash)

theorem polDel_maxCost : (polDel on p m k).1.maxCost = p.maxCost := by
  unfold polDel; split <;> rfl
theorem polDel_cnt : (polDel on p m k).2.cnt = m.cnt := by
  unfold polDel; split
  · rfl
  · cases on <;> rfl
theorem polDel_off (h : on = false) : (polDel on p m k).2 = m := by
  unfold polDel; split <;> simp [h]

theorem polDel_none (h : p.costs.lookup k = none) : polDel on p m k = (p, m) := by
  unfold polDel; simp [h]

theorem polDel_lookup (k' : Hash) :
    (polDel on p m k).1.costs.lookup k' = if k' = k then none else p.costs.lookup k' := by
  unfold polDel; split
  · rename_i h
    by_cases e : k' = k
    · subst e; simp [h]
    · simp [e]
  · simp [AMap.lookup_erase]

theorem polDel_pm {d : BitVec 64} (h : PM on p m d) : PM on (polDel on p m k).1 (polDel on p m k).2 d := by
  unfold polDel
  split
  · exact h
  · rename_i c hl
    refine ⟨⟨?_, AMap.nodup_erase h.wf.nodup k⟩, ?_, ?_⟩
    · show p.used - c = (p.costs.erase k).sum
      rw [AMap.sum_erase h.wf.nodup hl, h.wf.sum]
    · intro hon
      have := h.cost hon
      simp only [hon, if_true]
      show m.costAdd - (m.costEvict + w64 c) = w64 (p.used - c)
      rw [w64_sub]; grind
    · intro hon
      have := h.keys hon
      have hs := AMap.size_erase h.wf.nodup hl
      simp only [hon, if_true]
      show m.keyAdd + d - (m.keyEvict + 1) = BitVec.ofNat 64 (p.costs.erase k).size
      rw [← hs, ofNat_succ64] at this
      grind
end del

/-! ### polUpdate -/

section upd
variable (on : Bool) (p : Pol) (m : Met) (k : Hash) (cost : Int)

theorem polUpdate_maxCost : (polUpdate on p m k cost).1.maxCost = p.maxCost := by
  unfold polUpdate; split <;> rfl
theorem polUpdate_cnt : (polUpdate on p m k cost).2.1.cnt = m.cnt := by
  unfold polUpdate; split
  · rfl
  · cases on <;> rfl
theorem polUpdate_off (h : on = false) : (polUpdate on p m k cost).2.1 = m := by
  unfold polUpdate; split <;> simp [h]

theorem polUpdate_false (h : (polUpdate on p m k cost).2.2 = false) :
    p.costs.lookup k = none ∧ polUpdate on p m k cost = (p, m, false) := by
  unfold polUpdate at h ⊢
  split at h
  · rename_i hl; simp [hl]
  · simp at h

theorem polUpdate_true (h : (polUpdate on p m k cost).2.2 = true) : ∃ prev, p.costs.lookup k = some prev := by
  unfold polUpdate at h
  split at h
  · simp at h
  · exact ⟨_, by assumption⟩

theorem polUpdate_lookup (k' : Hash) :
    ((polUpdate on p m k cost).1.costs.lookup k').isSome = (p.costs.lookup k').isSome := by
  unfold polUpdate; split
  · rfl
  · rename_i prev hl
    by_cases e : k' = k
    · subst e; simp [hl]
    · simp [AMap.lookup_insert, e]

theorem polUpdate_pm {d : BitVec 64} (h : PM on p m d) :
    PM on (polUpdate on p m k cost).1 (polUpdate on p m k cost).2.1 d := by
  unfold polUpdate
  split
  · exact h
  · rename_i prev hl
    refine ⟨⟨?_, AMap.nodup_insert h.wf.nodup k cost⟩, ?_, ?_⟩
    · show p.used + (cost - prev) = (p.costs.insert k cost).sum
      rw [AMap.sum_insert_old cost h.wf.nodup hl, h.wf.sum]
    · intro hon
      have := h.cost hon
      simp only [hon, if_true]
      show m.costAdd + w64 (cost - prev) - m.costEvict = w64 (p.used + (cost - prev))
      rw [w64_add]; grind
    · intro hon
      have := h.keys hon
      simp only [hon, if_true]
      show m.keyAdd + d - m.keyEvict = BitVec.ofNat 64 (p.costs.insert k cost).size
      rw [AMap.size_insert_old cost h.wf.nodup hl]; exact this
end upd

/-! ### polAddKey -/

section addk
variable (on : Bool) (p : Pol) (m : Met) (k : Hash) (cost : Int)

theorem polAddKey_maxCost : (polAddKey on p m k cost).1.maxCost = p.maxCost := rfl
theorem polAddKey_cnt : (polAddKey on p m k cost).2.cnt = m.cnt := by
  unfold polAddKey; cases on <;> rfl
theorem polAddKey_off (h : on = false) : (polAddKey on p m k cost).2 = m := by
  unfold polAddKey; simp [h]

theorem polAddKey_pm {d : BitVec 64} (h : PM on p m d) (hl : p.costs.lookup k = none) :
    PM on (polAddKey on p m k cost).1 (polAddKey on p m k cost).2 (d + 1) := by
  unfold polAddKey
  refine ⟨⟨?_, AMap.nodup_insert h.wf.nodup k cost⟩, ?_, ?_⟩
  · show p.used + cost = (p.costs.insert k cost).sum
    rw [AMap.sum_insert_new cost hl, h.wf.sum]
  · intro hon
    have := h.cost hon
    simp only [hon, if_true]
    show m.costAdd + w64 cost - m.costEvict = w64 (p.used + cost)
    rw [w64_add]; grind
  · intro hon
    have := h.keys hon
    simp only [hon, if_true]
    show m.keyAdd + (d + 1) - m.keyEvict = BitVec.ofNat 64 (p.costs.insert k cost).size
    rw [AMap.size_insert_new cost hl, ofNat_succ64]; grind
end addk

/-! ### polDelAll -/

theorem polDelAll_maxCost (on : Bool) (p : Pol) (m : Met) (vs : List (Hash × Int)) :
    (polDelAll on p m vs).1.maxCost = p.maxCost := by
  induction vs generalizing p m with
  | nil => rfl
  | cons v rest ih =>
    obtain ⟨k, c⟩ := v
    simp only [polDelAll]
    rw [ih, polDel_maxCost]
theorem polDelAll_cnt (on : Bool) (p : Pol) (m : Met) (vs : List (Hash × Int)) :
    (polDelAll on p m vs).2.cnt = m.cnt := by
  induction vs generalizing p m with
  | nil => rfl
  | cons v rest ih =>
    obtain ⟨k, c⟩ := v
    simp only [polDelAll]
    rw [ih, polDel_cnt]
theorem polDelAll_off (on : Bool) (p : Pol) (m : Met) (vs : List (Hash × Int)) (h : on = false) :
    (polDelAll on p m vs).2 = m := by
  induction vs generalizing p m with
  | nil => rfl
  | cons v rest ih =>
    obtain ⟨k, c⟩ := v
    simp only [polDelAll]
    rw [ih, polDel_off _ _ _ _ h]
theorem polDelAll_pm (on : Bool) (p : Pol) (m : Met) (vs : List (Hash × Int)) {d : BitVec 64} (h : PM on p m d) :
    PM on (polDelAll on p m vs).1 (polDelAll on p m vs).2 d := by
  induction vs generalizing p m with
  | nil => exact h
  | cons v rest ih =>
    obtain ⟨k, c⟩ := v
    simp only [polDelAll]
    exact ih _ _ (polDel_pm on p m k h)
theorem polDelAll_lookup_none (on : Bool) (p : Pol) (m : Met) (vs : List (Hash × Int)) {k : Hash}
    (h : p.costs.lookup k = none) : (polDelAll on p m vs).1.costs.lookup k = none := by
  induction vs generalizing p m with
  | nil => exact h
  | cons v rest ih =>
    obtain ⟨k', c⟩ := v
    simp only [polDelAll]
    apply ih
    rw [polDel_lookup]; split <;> simp [h]
/-- what `polDelAll` leaves accounted was accounted before and is not one of the victims -/
theorem polDelAll_lookup (on : Bool) (p : Pol) (m : Met) (vs : List (Hash × Int)) (k : Hash) :
    (polDelAll on p m vs).1.costs.lookup k = if k ∈ vs.map (·.1) then none else p.costs.lookup k := by
  induction vs generalizing p m with
  | nil => simp [polDelAll]
  | cons v rest ih =>
    obtain ⟨k', c⟩ := v
    simp only [polDelAll]
    rw [ih, polDel_lookup]
    by_cases e : k = k'
    · subst e; simp
    · have e' : ¬ k' = k := fun x => e x.symm
      simp only [e, if_false, List.map_cons, List.mem_cons, false_or]

/-! ### polAdd -/

/-- the four possible outcomes of `polAdd`, spelled out -/
theorem polAdd_cases {on : Bool} {p : Pol} {m : Met} {k : Hash} {cost : Int} {victims : List (Hash × Int)}
    {added : Bool} {pm : Pol × Met} (h : polAdd on p m k cost victims added = some pm) :
    (cost > p.maxCost ∧ victims = [] ∧ added = false ∧ pm = (p, m)) ∨
    (¬ cost > p.maxCost ∧ (∃ prev, p.costs.lookup k = some prev) ∧ victims = [] ∧ added = false ∧
        pm = ((polUpdate on p m k cost).1, (polUpdate on p m k cost).2.1)) ∨
    (¬ cost > p.maxCost ∧ p.costs.lookup k = none ∧ p.maxCost - (p.used + cost) ≥ 0 ∧ victims = [] ∧
        added = true ∧ pm = polAddKey on p m k cost) ∨
    (¬ cost > p.maxCost ∧ p.costs.lookup k = none ∧ ¬ p.maxCost - (p.used + cost) ≥ 0 ∧ added = true ∧
        victims ≠ [] ∧
        (polDelAll on p m victims).1.maxCost - ((polDelAll on p m victims).1.used + cost) ≥ 0 ∧
        (∀ v ∈ victims, (p.costs.lookup v.1).isSome = true) ∧
        pm = polAddKey on (polDelAll on p m victims).1 (polDelAll on p m victims).2 k cost) ∨
    (¬ cost > p.maxCost ∧ p.costs.lookup k = none ∧ ¬ p.maxCost - (p.used + cost) ≥ 0 ∧ added = false ∧
        (∀ v ∈ victims, (p.costs.lookup v.1).isSome = true) ∧
        pm = ((polDelAll on p m victims).1,
              if on then { (polDelAll on p m victims).2 with
                rejectSets := (polDelAll on p m victims).2.rejectSets + 1 } else (polDelAll on p m victims).2)) := by
  unfold polAdd at h
  split at h
  · rename_i hc
    split at h
    · rename_i hv
      simp only [Option.some.injEq] at h
      simp only [Bool.and_eq_true, List.isEmpty_iff, Bool.not_eq_true'] at hv
      exact Or.inl ⟨hc, hv.1, hv.2, h.symm⟩
    · simp at h
  · rename_i hc
    split at h
    · rename_i p1 m1 hu
      have ht : (polUpdate on p m k cost).2.2 = true := by rw [hu]
      split at h
      · rename_i hv
        simp only [Option.some.injEq] at h
        simp only [Bool.and_eq_true, List.isEmpty_iff, Bool.not_eq_true'] at hv
        refine Or.inr (Or.inl ⟨hc, polUpdate_true on p m k cost ht, hv.1, hv.2, ?_⟩)
        rw [← h, hu]
      · simp at h
    · rename_i p1 m1 hu
      have hf : (polUpdate on p m k cost).2.2 = false := by rw [hu]
      have hnone := (polUpdate_false on p m k cost hf).1
      split at h
      · rename_i hroom
        split at h
        · rename_i hv
          simp only [Option.some.injEq] at h
          simp only [Bool.and_eq_true, List.isEmpty_iff] at hv
          exact Or.inr (Or.inr (Or.inl ⟨hc, hnone, hroom, hv.1, hv.2, h.symm⟩))
        · simp at h
      · rename_i hroom
        split at h
        · simp at h
        · rename_i hvic
          have hvic' : ∀ v ∈ victims, (p.costs.lookup v.1).isSome = true := by
            intro v hv
            have h1 : (victims.all fun v => p.costs.contains v.1) = true := by simpa using hvic
            exact List.all_eq_true.mp h1 v hv
          dsimp only at h
          split at h
          · rename_i hadd
            split at h
            · rename_i hv
              simp only [Option.some.injEq] at h
              simp only [Bool.and_eq_true, decide_eq_true_eq, Bool.not_eq_true', List.isEmpty_eq_false_iff] at hv
              exact Or.inr (Or.inr (Or.inr (Or.inl ⟨hc, hnone, hroom, hadd, hv.2, hv.1, hvic', h.symm⟩)))
            · simp at h
          · rename_i hadd
            simp only [Option.some.injEq] at h
            exact Or.inr (Or.inr (Or.inr (Or.inr ⟨hc, hnone, hroom, by simpa using hadd, hvic', h.symm⟩)))

section add
variable {on : Bool} {p : Pol} {m : Met} {k : Hash} {cost : Int} {victims : List (Hash × Int)}
  {added : Bool} {pm : Pol × Met}

theorem polAdd_maxCost (h : polAdd on p m k cost victims added = some pm) : pm.1.maxCost = p.maxCost := by
  rcases polAdd_cases h with ⟨_, _, _, rfl⟩ | ⟨_, _, _, _, rfl⟩ | ⟨_, _, _, _, _, rfl⟩ | ⟨_, _, _, _, _, _, _, rfl⟩ |
    ⟨_, _, _, _, _, rfl⟩
  · rfl
  · exact polUpdate_maxCost ..
  · rfl
  · exact polDelAll_maxCost ..
  · exact polDelAll_maxCost ..

theorem polAdd_cnt (h : polAdd on p m k cost victims added = some pm) : pm.2.cnt = m.cnt := by
  rcases polAdd_cases h with ⟨_, _, _, rfl⟩ | ⟨_, _, _, _, rfl⟩ | ⟨_, _, _, _, _, rfl⟩ | ⟨_, _, _, _, _, _, _, rfl⟩ |
    ⟨_, _, _, _, _, rfl⟩
  · rfl
  · exact polUpdate_cnt ..
  · exact polAddKey_cnt ..
  · rw [polAddKey_cnt]; exact polDelAll_cnt ..
  · have := polDelAll_cnt on p m victims
    cases on
    · exact this
    · exact this

theorem polAdd_off (hoff : on = false) (h : polAdd on p m k cost victims added = some pm) : pm.2 = m := by
  rcases polAdd_cases h with ⟨_, _, _, rfl⟩ | ⟨_, _, _, _, rfl⟩ | ⟨_, _, _, _, _, rfl⟩ | ⟨_, _, _, _, _, _, _, rfl⟩ |
    ⟨_, _, _, _, _, rfl⟩
  · rfl
  · exact polUpdate_off _ _ _ _ _ hoff
  · exact polAddKey_off _ _ _ _ _ hoff
  · rw [polAddKey_off _ _ _ _ _ hoff]; exact polDelAll_off _ _ _ _ hoff
  · simp only [hoff]; exact polDelAll_off _ _ _ _ rfl

theorem polAdd_pm (hpm : PM on p m 0) (h : polAdd on p m k cost victims added = some pm) :
    PM on pm.1 pm.2 (if added then 1 else 0) := by
  rcases polAdd_cases h with ⟨_, _, rfl, rfl⟩ | ⟨_, _, _, rfl, rfl⟩ | ⟨_, hn, _, _, rfl, rfl⟩ |
    ⟨_, hn, _, rfl, _, _, _, rfl⟩ | ⟨_, _, _, rfl, _, rfl⟩
  · exact hpm
  · exact polUpdate_pm on p m k cost hpm
  · have := polAddKey_pm on p m k cost hpm hn
    simpa using this
  · have := polAddKey_pm on _ _ k cost (polDelAll_pm on p m victims hpm) (polDelAll_lookup_none on p m victims hn)
    simpa using this
  · have := polDelAll_pm on p m victims hpm
    refine ⟨this.wf, ?_, ?_⟩
    · intro hon; subst hon; exact this.cost rfl
    · intro hon; subst hon; simpa using this.keys rfl
end add

end RV.Cache
