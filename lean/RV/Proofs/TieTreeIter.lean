import RV.Proofs.TieTreeWrite
/-!
# The tree on flat memory: `Tree.iterate` (generated whole), read-only form

For a callback that leaves the tree alone (`fn t c r = some (t, g c r)`), the generated `iterate`
on a represented node without nil children calls it on the windows of the node's pages in
pre-order (`pids`, the order of the canonical walk) and threads the callback state.
-/
namespace RV.TreeFlat
open RV.Tree RV.NodeFlat Gen.TreeM

mutual
/-- no inner entry below `n` has lost its child page (`Tree.iterate` asserts `childID > 0`) -/
def NoNil : Node → Prop
  | .null => False
  | .leaf _ _ => True
  | .inner _ es => NoNilEnts es
def NoNilEnts : List (Key × Node) → Prop
  | [] => True
  | (_, c) :: rest => NoNil c ∧ NoNilEnts rest
end

theorem noNilEnts_get : ∀ (es : List (Key × Node)) (i : Nat) (e : Key × Node),
    NoNilEnts es → es[i]? = some e → NoNil e.2
  | [], _, _, _, h => by simp at h
  | (_, c) :: _, 0, e, hn, h => by
    simp only [List.getElem?_cons_zero, Option.some.injEq] at h
    subst h; rw [NoNilEnts] at hn; exact hn.1
  | (_, _) :: rest, i + 1, e, hn, h => by
    simp only [List.getElem?_cons_succ] at h
    rw [NoNilEnts] at hn
    exact noNilEnts_get rest i e hn.2 h

theorem pidsEnts_take_succ (es : List (Key × Node)) (i : Nat) (e : Key × Node) (h : es[i]? = some e) :
    pidsEnts (es.take (i + 1)) = pidsEnts (es.take i) ++ pids e.2 := by
  have hi : i < es.length := by
    rcases Nat.lt_or_ge i es.length with h' | h'
    · exact h'
    · rw [List.getElem?_eq_none h'] at h; cases h
  have he : es[i] = e := by
    rw [List.getElem?_eq_getElem hi] at h; exact Option.some.inj h
  rw [List.take_succ_eq_append_getElem hi, pidsEnts_append, he]
  simp [pidsEnts]

/-- the fold of a read-only callback over page ids -/
def visit {κ : Type} (cfg : Cfg) (t : St) (g : κ → NodeRef → κ) (c : κ) (ps : List Nat) : κ :=
  ps.foldl (fun c p => g c (refOf cfg t p)) c

theorem visit_append {κ : Type} (cfg : Cfg) (t : St) (g : κ → NodeRef → κ) (c : κ) (a b : List Nat) :
    visit cfg t g c (a ++ b) = visit cfg t g (visit cfg t g c a) b := by
  unfold visit; rw [List.foldl_append]

theorem iterate_refines {κ : Type} {cfg : Cfg} (hc : CfgFlat cfg) (t : St) (hsmall : t.data.size < 2 ^ 40)
    (fn : St → κ → NodeRef → Option (St × κ)) (g : κ → NodeRef → κ)
    (hfn : ∀ c r, fn t c r = some (t, g c r)) :
    ∀ (fuel : Nat) (n : Node) (c : κ), NoNil n → TreeFlat.Repr cfg t.data n → height n ≤ fuel →
      iterate (w cfg.pageSize) (w cfg.maxKeys) fuel t c (refOf cfg t n.pid) fn =
        some (t, visit cfg t g c (pids n))
  | 0, n, _, hnn, _, hh => by
    cases n with
    | null => rw [NoNil] at hnn; exact hnn.elim
    | leaf p es => rw [height] at hh; omega
    | inner p es => rw [height] at hh; omega
  | fuel + 1, .null, _, hnn, _, _ => by rw [NoNil] at hnn; exact hnn.elim
  | fuel + 1, .leaf p es, c, _, hr, _ => by
    have hp := repr_leaf hr
    have hmk := hc.mkLt
    have hs := hp.ok.1
    rw [iterate, hfn]
    simp only [Option.bind_some, Node.pid]
    rw [rdNode_refOf t p hp.fit, isLeaf_w hs (by omega), hp.isLeaf]
    simp [visit, pids]
  | fuel + 1, .inner p es, c, hnn, hr, hh => by
    obtain ⟨hp, hre⟩ := repr_inner hr
    rw [NoNil] at hnn
    have hs := hp.ok.1
    have hmk := hc.mkLt
    have hnk : nkeys cfg.maxKeys (pageOf cfg t.data p) = es.length := by
      rw [← ents_length, hp.ents, entWords_length]
    have hle : es.length ≤ cfg.maxKeys := by rw [← hnk]; exact hp.ok.2.1
    rw [iterate, hfn]
    simp only [Option.bind_some, Node.pid]
    rw [rdNode_refOf t p hp.fit, isLeaf_w hs (by omega), hp.isLeaf]
    simp only [Option.bind_some, Bool.false_eq_true, if_false]
    -- the loop over the slots
    have hloop := forRange_rule (ρ := St × κ) (σ := St × κ) 0 cfg.maxKeys (by omega) (by omega)
      (iterate_loop1 (w cfg.pageSize) (w cfg.maxKeys) (iterate (w cfg.pageSize) (w cfg.maxKeys) fuel) (refOf cfg t p) fn)
      (fun i s => i ≤ es.length ∧ s = (t, visit cfg t g (g c (refOf cfg t p)) (pidsEnts (es.take i))))
      (fun r => r = (t, visit cfg t g (g c (refOf cfg t p)) (pidsEnts es)))
      (t, g c (refOf cfg t p)) ⟨by omega, by simp [visit, pidsEnts]⟩
      (by
        intro i s _ hi ⟨hile, hsv⟩
        subst hsv
        unfold iterate_loop1
        simp only []
        rw [rdNode_refOf t p hp.fit, key_keyAt hp.ok (by omega) hi, hp.ents, entWords_eq_mapV, keyAt_mapV]
        simp only [Option.bind_some]
        by_cases hend : i = es.length
        · -- the zeroed slot behind the last key: the walk of this node is over
          right
          have hk0 : keyAt es i = 0#64 := by unfold keyAt; rw [hend]; simp
          rw [hk0]
          simp only [BEq.rfl, if_true]
          refine ⟨_, rfl, ?_⟩
          rw [hend, List.take_length]
        · left
          have hlt : i < es.length := by omega
          obtain ⟨e, he⟩ : ∃ e, es[i]? = some e := ⟨es[i], by simp [hlt]⟩
          have hkey : keyAt es i = e.1 := by simp [keyAt, he]
          have hnz : (e.1 == 0#64) = false := by
            have h1 := hp.ok.2.2.1 i (by omega)
            have h2 : keyW (pageOf cfg t.data p) i = e.1 := by
              have h3 := ents_get? (mk := cfg.maxKeys) (p := pageOf cfg t.data p) i
              rw [hp.ents, entWords_get?, he, hnk, if_pos hlt] at h3
              simp only [Option.map_some, Option.some.injEq, Prod.mk.injEq] at h3
              exact h3.1.symm
            rw [h2] at h1
            simpa using h1
          rw [hkey, hnz]
          simp only [Bool.false_eq_true, if_false]
          have hval : Gen.Node.uint64 (pageOf cfg t.data p) (Gen.Tree.valOffset (w i)) = some (childWord e.2) := by
            rw [valOffset_w, uint64_w (by omega) (by omega)]
            have h2 := ents_get? (mk := cfg.maxKeys) (p := pageOf cfg t.data p) i
            rw [hp.ents, entWords_get?, he, hnk, if_pos hlt] at h2
            simp only [Option.map_some, Option.some.injEq, Prod.mk.injEq] at h2
            exact congrArg some h2.2.symm
          rw [rdNode_refOf t p hp.fit, hval]
          simp only [Option.bind_some]
          have hrc : TreeFlat.Repr cfg t.data e.2 := reprEnts_get es _ e hre he
          have hnc : NoNil e.2 := noNilEnts_get es _ e hnn he
          have hhc : height e.2 ≤ fuel := by
            have := heightEnts_get es _ e he
            rw [height] at hh; omega
          have hcp : 0 < e.2.pid ∧ (e.2.pid + 1) * pw cfg ≤ t.data.size := by
            cases hc2 : e.2 with
            | null => rw [hc2, NoNil] at hnc; exact hnc.elim
            | leaf q ces => rw [hc2] at hrc; exact ⟨(repr_leaf hrc).pos, (repr_leaf hrc).fit⟩
            | inner q ces => rw [hc2] at hrc; exact ⟨(repr_inner hrc).1.pos, (repr_inner hrc).1.fit⟩
          have hplt : e.2.pid < 2 ^ 40 := by
            have hpos := pw_pos cfg
            have e1 := succ_mul_pw cfg e.2.pid
            rcases Nat.lt_or_ge e.2.pid (2 ^ 40) with h | h
            · exact h
            · have : 2 ^ 40 * 1 ≤ e.2.pid * pw cfg := Nat.mul_le_mul h hpos
              omega
          have hult : BitVec.ult 0#64 (childWord e.2) = true := by
            unfold childWord
            have := w_ult (a := 0) (b := e.2.pid) (by omega) (by omega)
            rw [show (w 0 : BitVec 64) = 0#64 from rfl] at this; rw [this]; simpa using hcp.1
          rw [hult, guard_true]
          simp only [Option.bind_some]
          unfold childWord
          rw [node_w hc t e.2.pid hcp.1 hcp.2 hsmall]
          simp only [Option.bind_some]
          rw [iterate_refines hc t hsmall fn g hfn fuel e.2 _ hnc hrc hhc]
          simp only [Option.bind_some]
          refine ⟨_, rfl, by omega, ?_⟩
          rw [pidsEnts_take_succ es i e he, visit_append])
    rw [show (0#64 : BitVec 64) = w 0 from rfl]
    rcases hloop with ⟨s', hdone, hile, hsv⟩ | ⟨r, hret, hq⟩
    · rw [hdone]
      subst hsv
      simp only [Option.bind_some]
      have : es.take cfg.maxKeys = es := List.take_of_length_le hle
      rw [this]
      simp [visit, pids]
    · rw [hret, hq]
      simp [visit, pids]

end RV.TreeFlat
