import RV.Proofs.TieBufferWrite
/-!
The reading methods: `Bytes`, `Slice`, `SliceOffsets`, `SliceIterate` and the one-line accessors.

The model reads only inside the written data `b.buf[:b.offset]` and faults otherwise (the
content of the unused capacity is not part of its state); the real code — and the generated
functions — read whatever the capacity holds.  So: whenever the model function succeeds, the
generated function succeeds with the same result; the converse fails
(`slice_stale_counterexample` in `RV/Props/TieBuffer.lean`).
-/
namespace RV.TieBuffer
open Gen.Buf Gen.BufferM RV.Buffer Gen.Buffer

theorem take_drop_take {α : Type} (l : List α) (n k j : Nat) (h : k + j ≤ n) :
    ((l.take n).drop k).take j = (l.drop k).take j := by
  rw [List.drop_take, List.take_take, Nat.min_eq_left (by omega)]

theorem not_sle_off (x : BitVec 64) (off : Nat) (hx : x.toNat < 2 ^ 63) (hoff : off < 2 ^ 63) :
    BitVec.sle x (w off) = decide (x.toNat ≤ off) := by
  have := sle_w x.toNat off hx hoff
  rwa [w_toNat_self] at this

theorem bytes_agree (g : Buffer) (h : GWF g) :
    ∃ win, Gen.BufferM.Bytes g = some win ∧ (bytesOf g.buf win).toList = bytes (abs g) := by
  have hw := h.wf
  have hp := hw.pad; rw [abs_padding, abs_offset] at hp
  have hc := hw.curSmall; rw [abs_curSz] at hc
  have h1 := hw.cap; rw [abs_offset, abs_curSz] at h1
  unfold Gen.BufferM.Bytes
  simp only [slice_full g.buf.size g.padding g.offset hp h.off_le (by omega), Option.bind_some]
  refine ⟨_, rfl, ?_⟩
  rw [bytesOf_toList]
  simp only [bytes, abs, List.drop_take]

theorem slice_agree (g : Buffer) (h : GWF g) (off : Nat) (hoff : off < 2 ^ 63) (s : Bytes) (nx : Option Nat)
    (hm : RV.Buffer.slice (abs g) off = .ok (s, nx)) :
    ∃ win, Slice g (w off) = some (win, nextWord nx) ∧ (bytesOf g.buf win).toList = s ∧
      (∀ k, nx = some k → k ≤ g.offset.toNat) ∧ win.lo ≤ win.hi ∧ win.hi ≤ g.buf.size := by
  have hw := h.wf
  have hc := hw.curSmall; rw [abs_curSz] at hc
  have h1 := hw.cap; rw [abs_offset, abs_curSz] at h1
  have hsz := h.size
  have hlen : (abs g).data.length = g.offset.toNat := by rw [hw.len, abs_offset]
  unfold RV.Buffer.slice at hm
  unfold Slice
  unfold sliceAtEnd at hm
  simp only [abs_offset, w_toNat_self] at hm
  by_cases c1 : BitVec.sle g.offset (w off) = true
  · simp only [c1, if_true, Except.ok.injEq, Prod.mk.injEq] at hm
    obtain ⟨e1, e2⟩ := hm
    subst e1; subst e2
    simp only [c1, if_true]
    exact ⟨Win.nil, rfl, by simp [bytesOf, Win.nil], (by intro k hk; cases hk), Nat.le_refl _, Nat.zero_le _⟩
  · simp only [c1, Bool.false_eq_true, if_false] at hm
    simp only [c1, Bool.false_eq_true, if_false]
    have hlt : off < g.offset.toNat := by
      rw [not_sle_off g.offset off (by omega) hoff] at c1
      simpa using c1
    rw [lenGe_eq, lenGe_eq] at hm
    simp only [List.length_drop, hlen, k_sliceBigEndian, k_sliceStart] at hm
    unfold sliceNext sliceIsLast at hm
    have h8 : (w (off + 8)).toNat = off + 8 := toNat_w _ (by omega)
    rw [h8] at hm
    by_cases c2 : 8 ≤ g.offset.toNat - off
    · simp only [c2, decide_true, Bool.not_true, Bool.false_eq_true, if_false] at hm
      -- the prefix
      have hpre : (g.buf.extract off (off + 8)).toList = List.take 8 (List.drop off (abs g).data) := by
        rw [extract_toList, abs_data, take_drop_take _ _ _ _ (by omega)]
        congr 1; omega
      have hget : getU64be g.buf ⟨off, g.buf.size⟩ = some (getU64 true (List.drop off (abs g).data)) := by
        unfold getU64be
        rw [if_pos (show (⟨off, g.buf.size⟩ : Win).lo + 8 ≤ (⟨off, g.buf.size⟩ : Win).hi ∧
          (⟨off, g.buf.size⟩ : Win).hi ≤ g.buf.size from ⟨by show off + 8 ≤ g.buf.size; rw [hsz]; omega, Nat.le_refl _⟩)]
        simp only [hpre, getU64, if_true]
        rfl
      have hbs : (BitVec.ofNat 64 g.buf.size).toNat = g.buf.size := by
        rw [BitVec.toNat_ofNat, hsz]; omega
      have hs1 : Gen.Buf.slice g.buf.size (Win.full g.buf.size) (w off) (BitVec.ofNat 64 g.buf.size) =
          some ⟨off, g.buf.size⟩ := by
        have := slice_full g.buf.size (w off) (BitVec.ofNat 64 g.buf.size)
          (by rw [toNat_w _ (by omega), hbs, hsz]; omega) (by rw [hbs]; omega) (by rw [hbs, hsz]; omega)
        rw [this, toNat_w _ (by omega), hbs]
      have e8 : w off + 8#64 = w (off + 8) := by rw [lit_w, w_add]
      simp only [hs1, Option.bind_some, hget, e8]
      generalize getU64 true (List.drop off (abs g).data) = sz at hm ⊢
      split at hm
      · rename_i c3
        simp only [decide_eq_true_eq] at c3
        obtain ⟨_, c3a, c3b⟩ := c3
        have hnx : (w (off + 8) + sz).toNat ≤ g.offset.toNat := by omega
        have hs2 : Gen.Buf.slice g.buf.size (Win.full g.buf.size) (w (off + 8)) (w (off + 8) + sz) =
            some ⟨off + 8, (w (off + 8) + sz).toNat⟩ := by
          have := slice_full g.buf.size (w (off + 8)) (w (off + 8) + sz) (by rw [h8]; exact c3a)
            (by rw [hsz]; omega) (by omega)
          rw [this, h8]
        simp only [hs2, Option.bind_some]
        have hbytes : (bytesOf g.buf ⟨off + 8, (w (off + 8) + sz).toNat⟩).toList =
            List.take ((w (off + 8) + sz).toNat - (off + 8)) (List.drop (off + 8 - off) (List.drop off (abs g).data)) := by
          rw [bytesOf_toList, abs_data, List.drop_drop]
          have e : off + (off + 8 - off) = off + 8 := by omega
          rw [e, take_drop_take _ _ _ _ (by omega)]
        by_cases c4 : BitVec.sle g.offset (w (off + 8) + sz) = true
        · simp only [c4, if_true, Except.ok.injEq, Prod.mk.injEq] at hm
          obtain ⟨e1, e2⟩ := hm
          subst e1; subst e2
          simp only [c4, if_true]
          exact ⟨_, rfl, hbytes, (by intro k hk; cases hk), c3a,
            (by show (w (off + 8) + sz).toNat ≤ g.buf.size; rw [hsz]; omega)⟩
        · simp only [c4, Bool.false_eq_true, if_false, Except.ok.injEq, Prod.mk.injEq] at hm
          obtain ⟨e1, e2⟩ := hm
          subst e1; subst e2
          simp only [c4, Bool.false_eq_true, if_false]
          refine ⟨⟨off + 8, (w (off + 8) + sz).toNat⟩, ?_, hbytes, ?_, c3a,
            (by show (w (off + 8) + sz).toNat ≤ g.buf.size; rw [hsz]; omega)⟩
          · have e : nextWord (some (w (off + 8) + sz).toNat) = w (off + 8) + sz := by
              show w (w (off + 8) + sz).toNat = _
              exact w_toNat_self _
            rw [e]
          · intro k hk; simp only [Option.some.injEq] at hk; omega
      · exact absurd hm (by simp)
    · simp only [c2, decide_false, Bool.not_false, if_true] at hm
      exact absurd hm (by simp)
/-! ## SliceOffsets -/

theorem cond_nextWord (nx : Option Nat) (hs : ∀ k, nx = some k → k < 2 ^ 63) :
    BitVec.sle 0#64 (nextWord nx) = nx.isSome := by
  cases nx with
  | none => exact k_offsetsCond_none
  | some k => exact k_offsetsCond_some k (hs k rfl)

theorem offsets_loop (g : Buffer) (h : GWF g) :
    ∀ (fuel : Nat) (nx : Option Nat) (acc : Array (BitVec 64)) (items : List (Nat × Bytes)),
      (∀ k, nx = some k → k < 2 ^ 63) →
      walk offsetsCond (abs g) fuel nx = .ok items →
      whileLoop (ρ := Array (BitVec 64)) (fun (st : BitVec 64 × Array (BitVec 64)) => BitVec.sle 0#64 st.1)
          (SliceOffsets_loop1 g) fuel (nextWord nx, acc) =
        some (.done (nextWord none, acc ++ (items.map (fun it => w it.1)).toArray)) := by
  have hc := h.wf.curSmall; rw [abs_curSz] at hc
  have h1 := h.wf.cap; rw [abs_offset, abs_curSz] at h1
  intro fuel
  induction fuel with
  | zero => intro nx acc items _ hm; simp [walk] at hm
  | succ fuel ih =>
    intro nx acc items hs hm
    unfold walk at hm
    unfold whileLoop
    unfold offsetsCond at hm
    simp only [cond_nextWord nx hs] at hm ⊢
    cases nx with
    | none =>
      simp only [Option.isSome_none, Bool.not_false, if_true, Except.ok.injEq] at hm
      subst hm
      simp
    | some off =>
      simp only [Option.isSome_some, Bool.not_true, Bool.false_eq_true, if_false, if_true] at hm ⊢
      cases hsl : RV.Buffer.slice (abs g) off with
      | error f => rw [hsl] at hm; simp at hm
      | ok r =>
        obtain ⟨s, nx'⟩ := r
        rw [hsl] at hm
        simp only at hm
        obtain ⟨win, hgs, _, hk, _, _⟩ := slice_agree g h off (hs off rfl) s nx' hsl
        cases hw2 : walk (fun next => BitVec.sle 0#64 next) (abs g) fuel nx' with
        | error f => rw [hw2] at hm; simp at hm
        | ok rest =>
          rw [hw2] at hm
          simp only [Except.ok.injEq] at hm
          subst hm
          have hs' : ∀ k, nx' = some k → k < 2 ^ 63 := by intro k e; have := hk k e; omega
          have := ih nx' (acc.push (w off)) rest hs' (by unfold offsetsCond; exact hw2)
          have hbody : SliceOffsets_loop1 g (nextWord (some off), acc) =
              some (LoopOut.next (nextWord nx', acc.push (w off))) := by
            show SliceOffsets_loop1 g (w off, acc) = _
            unfold SliceOffsets_loop1
            simp only [hgs, Option.bind_some]
          rw [hbody]
          simp only []
          rw [this]
          simp

theorem sliceOffsets_agree (g : Buffer) (h : GWF g) (offs : List Nat) (hm : sliceOffsets (abs g) = .ok offs) :
    SliceOffsets g = some (offs.map w).toArray := by
  have hc := h.wf.curSmall; rw [abs_curSz] at hc
  have h1 := h.wf.cap; rw [abs_offset, abs_curSz] at h1
  have hp := h.wf.pad; rw [abs_padding, abs_offset] at hp
  unfold sliceOffsets at hm
  cases hw : walk offsetsCond (abs g) ((abs g).offset + 2) (some (abs g).padding) with
  | error f => rw [hw] at hm; simp at hm
  | ok items =>
    rw [hw] at hm
    simp only [Except.ok.injEq] at hm
    subst hm
    have := offsets_loop g h (g.offset.toNat + 2) (some g.padding.toNat) #[] items
      (by intro k e; simp only [Option.some.injEq] at e; omega) hw
    unfold SliceOffsets StartOffset
    simp only [Option.bind_some]
    have e : nextWord (some g.padding.toNat) = g.padding := w_toNat_self _
    rw [e] at this
    rw [this]
    simp [List.map_map, Function.comp_def]

/-! ## SliceIterate -/

/-- what a callback that never fails has seen after visiting `xs` -/
def visit {σ : Type} (f : σ → Array (BitVec 8) → σ × Err) (st : σ) (xs : List (Array (BitVec 8))) : σ :=
  xs.foldl (fun st x => (f st x).1) st

set_option linter.unusedSimpArgs false in
theorem iter_loop {σ : Type} (g : Buffer) (h : GWF g) (f : σ → Array (BitVec 8) → σ × Err)
    (hf : ∀ st x, (f st x).2 = Err.nil) :
    ∀ (fuel : Nat) (nx : Option Nat) (sl : Win) (st : σ) (items : List (Nat × Bytes)),
      (∀ k, nx = some k → k < 2 ^ 63) →
      walk iterCond (abs g) fuel nx = .ok items →
      ∃ (xs : List (Array (BitVec 8))) (sl' : Win),
        xs.map Array.toList = (items.map (·.2)).filter (fun s => s.length != 0) ∧
        whileLoop (ρ := σ × Err) (fun (s : BitVec 64 × Win × σ) => BitVec.sle 0#64 s.1)
            (SliceIterate_loop1 g f) fuel (nextWord nx, sl, st) =
          some (.done (nextWord none, sl', visit f st xs)) := by
  have hc := h.wf.curSmall; rw [abs_curSz] at hc
  have h1 := h.wf.cap; rw [abs_offset, abs_curSz] at h1
  intro fuel
  induction fuel with
  | zero => intro nx sl st items _ hm; simp [walk] at hm
  | succ fuel ih =>
    intro nx sl st items hs hm
    unfold walk at hm
    unfold whileLoop
    unfold iterCond at hm
    simp only [cond_nextWord nx hs] at hm ⊢
    cases nx with
    | none =>
      simp only [Option.isSome_none, Bool.not_false, if_true, Except.ok.injEq] at hm
      subst hm
      exact ⟨[], sl, rfl, by simp [visit]⟩
    | some off =>
      simp only [Option.isSome_some, Bool.not_true, Bool.false_eq_true, if_false, if_true] at hm ⊢
      cases hsl : RV.Buffer.slice (abs g) off with
      | error e => rw [hsl] at hm; simp at hm
      | ok r =>
        obtain ⟨s, nx'⟩ := r
        rw [hsl] at hm
        simp only at hm
        obtain ⟨win, hgs, hbytes, hk, hwl, hwh⟩ := slice_agree g h off (hs off rfl) s nx' hsl
        cases hw2 : walk (fun next => BitVec.sle 0#64 next) (abs g) fuel nx' with
        | error e => rw [hw2] at hm; simp at hm
        | ok rest =>
          rw [hw2] at hm
          simp only [Except.ok.injEq] at hm
          subst hm
          have hs' : ∀ k, nx' = some k → k < 2 ^ 63 := by intro k e; have := hk k e; omega
          -- is the slice empty?
          have hlen : (Win.len win == 0#64) = (s.length == 0) := by
            have e : s.length = win.hi - win.lo := by
              rw [← hbytes, bytesOf_toList]; simp only [List.length_take, List.length_drop, Array.length_toList]; omega
            have hsz := h.size
            rw [e]
            unfold Win.len
            have : (BitVec.ofNat 64 (win.hi - win.lo) == 0#64) = decide (win.hi - win.lo = 0) := by
              have := w_beq (win.hi - win.lo) 0 (by omega) (by omega)
              exact this
            rw [this]
            by_cases z : win.hi - win.lo = 0 <;> simp [z]
          have hlen' : (Win.len win != 0#64) = !(s.length == 0) := by simp only [bne, hlen]
          by_cases hz : s.length = 0
          · have hbody : SliceIterate_loop1 g f (nextWord (some off), sl, st) =
                some (LoopOut.next (nextWord nx', win, st)) := by
              show SliceIterate_loop1 g f (w off, sl, st) = _
              unfold SliceIterate_loop1
              simp only [hgs, Option.bind_some, hlen, hlen', hz, beq_self_eq_true, Bool.not_true, Bool.false_eq_true,
                if_true, if_false]
            obtain ⟨xs, sl', e1, e2⟩ := ih nx' win st rest hs' (by unfold iterCond; exact hw2)
            refine ⟨xs, sl', ?_, ?_⟩
            · simp only [List.map_cons, List.filter_cons, hz, bne_self_eq_false, Bool.false_eq_true, if_false]
              exact e1
            · rw [hbody]; simp only []; exact e2
          · have hbody : SliceIterate_loop1 g f (nextWord (some off), sl, st) =
                some (LoopOut.next (nextWord nx', win, (f st (bytesOf g.buf win)).1)) := by
              show SliceIterate_loop1 g f (w off, sl, st) = _
              unfold SliceIterate_loop1
              have : (s.length == 0) = false := by simp [hz]
              simp only [hgs, Option.bind_some, hlen, hlen', this, Bool.not_false, Bool.false_eq_true, if_false, if_true, hf,
                bne_self_eq_false]
            obtain ⟨xs, sl', e1, e2⟩ := ih nx' win (f st (bytesOf g.buf win)).1 rest hs' (by unfold iterCond; exact hw2)
            refine ⟨bytesOf g.buf win :: xs, sl', ?_, ?_⟩
            · have : (s.length != 0) = true := by simp [hz]
              simp only [List.map_cons, List.filter_cons, this, if_true, hbytes, e1]
            · rw [hbody]; simp only []; exact e2

theorem sliceIterate_agree {σ : Type} (g : Buffer) (h : GWF g) (f : σ → Array (BitVec 8) → σ × Err)
    (hf : ∀ st x, (f st x).2 = Err.nil) (st : σ) (ss : List Bytes) (hm : sliceIterate (abs g) = .ok ss) :
    ∃ xs : List (Array (BitVec 8)), xs.map Array.toList = ss ∧ SliceIterate g f st = some (visit f st xs, Err.nil) := by
  have hc := h.wf.curSmall; rw [abs_curSz] at hc
  have h1 := h.wf.cap; rw [abs_offset, abs_curSz] at h1
  have hp := h.wf.pad; rw [abs_padding, abs_offset] at hp
  unfold sliceIterate isEmpty at hm
  simp only [abs_offset, abs_padding, w_toNat_self] at hm
  unfold SliceIterate IsEmpty StartOffset
  simp only [Option.bind_some]
  by_cases c : (g.offset == g.padding) = true
  · simp only [c, if_true, Except.ok.injEq] at hm
    subst hm
    simp only [c, if_true]
    exact ⟨[], rfl, rfl⟩
  · simp only [c, Bool.false_eq_true, if_false] at hm
    simp only [c, Bool.false_eq_true, if_false]
    cases hw : walk iterCond (abs g) (g.offset.toNat + 2) (some g.padding.toNat) with
    | error e => rw [hw] at hm; simp at hm
    | ok items =>
      rw [hw] at hm
      simp only [Except.ok.injEq] at hm
      subst hm
      obtain ⟨xs, sl', e1, e2⟩ := iter_loop g h f hf (g.offset.toNat + 2) (some g.padding.toNat) Win.nil st items
        (by intro k e; simp only [Option.some.injEq] at e; omega) hw
      have e : nextWord (some g.padding.toNat) = g.padding := w_toNat_self _
      rw [e] at e2
      refine ⟨xs, e1, ?_⟩
      rw [e2]
      rfl

/-! ## NewBuffer -/

theorem newBuffer_agree (os : OS) (hos : os.Ok) (capacity : Nat) (hc : capacity < 2 ^ 62) :
    ∃ g, NewBuffer os (w capacity) = some g ∧ abs g = newBuffer capacity ∧ GWF g := by
  unfold NewBuffer newBuffer
  have k0 := k_newCapSmall capacity (by omega)
  have k := k0
  unfold newCapSmall at k
  simp only [k0, k, k_defaultCapacity]
  have e8 : (8#64).toNat = 8 := rfl
  have e0 : (0#64).toNat = 0 := rfl
  have e64 : (64#64).toNat = 64 := rfl
  by_cases c : capacity < 64
  · simp only [c, decide_true, if_true]
    rw [hos.calloc, if_pos (by decide)]
    refine ⟨_, rfl, ?_, ⟨rfl, by simp only [zeros_size], Or.inl rfl, ?_⟩⟩
    · simp only [abs, zeros_toList, e8, e0, e64, absMode0]; rfl
    · simp only [abs, zeros_toList, e8, e0, e64, absMode0]
      exact ⟨by decide, by decide, by decide, by decide, by decide, by decide⟩
  · simp only [c, decide_false, Bool.false_eq_true, if_false]
    have h1 : (w capacity).toNat = capacity := toNat_w _ (by omega)
    have h2 : (w capacity).toInt = capacity := toInt_w _ (by omega)
    have hd : List.take 8 (List.replicate capacity (0#8)) = List.replicate 8 0 := by
      rw [List.take_replicate, Nat.min_eq_left (by omega)]; rfl
    rw [hos.calloc, h2, if_pos (by omega)]
    refine ⟨_, rfl, ?_, ⟨rfl, by simp only [zeros_size, h1], Or.inl rfl, ?_⟩⟩
    · simp only [abs, zeros_toList, h1, e8, e0, hd, absMode0]
    · simp only [abs, zeros_toList, h1, e8, e0, hd, absMode0]
      exact ⟨by simp, Nat.le_refl _, (by show 8 ≤ capacity; omega), hc, (by show 0 < 2 ^ 62; decide), (by show 0 < 2 ^ 62; decide)⟩

/-! ## one-line accessors, `Data` -/

theorem startOffset_agree (g : Buffer) : StartOffset g = some (w (abs g).padding) := by
  unfold StartOffset; rw [abs_padding, w_toNat_self]

theorem isEmpty_agree (g : Buffer) : IsEmpty g = some (isEmpty (w (abs g).offset) (w (abs g).padding)) := by
  unfold IsEmpty StartOffset isEmpty
  simp only [Option.bind_some, abs_offset, abs_padding, w_toNat_self]

theorem lenWithPadding_agree (g : Buffer) : LenWithPadding g = some (w (abs g).offset) := by
  unfold LenWithPadding; rw [abs_offset, w_toNat_self]

theorem lenNoPadding_agree (g : Buffer) (h : GWF g) : LenNoPadding g = some (w (lenNoPadding (abs g))) := by
  have hp := h.wf.pad; rw [abs_padding, abs_offset] at hp
  unfold LenNoPadding lenNoPadding
  rw [abs_offset, abs_padding, ← w_sub _ _ hp, w_toNat_self, w_toNat_self]

/-- `Data(offset)`: `b.buf[offset:b.curSz]`, a panic beyond the capacity -/
theorem data_spec (g : Buffer) (h : GWF g) (off : Nat) (hoff : off < 2 ^ 63) :
    Data g (w off) = if off ≤ g.curSz.toNat then some ⟨off, g.curSz.toNat⟩ else none := by
  have hc := h.wf.curSmall; rw [abs_curSz] at hc
  unfold Data
  have e : BitVec.slt g.curSz (w off) = decide (g.curSz.toNat < off) := by
    have := slt_w g.curSz.toNat off (by omega) hoff
    rwa [w_toNat_self] at this
  rw [e]
  by_cases c : off ≤ g.curSz.toNat
  · have : ¬ g.curSz.toNat < off := by omega
    simp only [this, decide_false, Bool.false_eq_true, if_false, c, if_true]
    rw [slice_full g.buf.size (w off) g.curSz (by rw [toNat_w _ (by omega)]; exact c) (by rw [h.size]; omega) (by omega)]
    simp only [Option.bind_some, toNat_w _ (show off < 2 ^ 64 by omega)]
  · have : g.curSz.toNat < off := by omega
    simp only [this, decide_true, if_true, c, if_false]

end RV.TieBuffer
