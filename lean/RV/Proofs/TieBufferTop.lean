import RV.Proofs.TieBufferSmall
/-!
`SortSliceBetween` / `SortSlice` as a whole: the chunk-offset loop (every 1024th slice), the loop of
`sortSmall` over the chunks, the temporary buffer from `NewBuffer`, the recursive `sort` — the
generated function and the model's `sortSliceBetween` agree on a range of encoded slices; the two
edge cases (empty range, `start == 0`).
-/
namespace RV.TieBuffer
open Gen.Buf Gen.BufferM RV.Buffer Gen.Buffer

abbrev CSt := Array (BitVec 64) × BitVec 64 × BitVec 64

/-- the first loop of `SortSliceBetween`: the chunk offsets of the model's `chunkOffsets` -/
theorem chunk_loop (e : Nat) (g : Buffer) (h : GWF g) :
    ∀ (fuel : Nat) (nx : Option Nat) (count : Nat) (acc : Array (BitVec 64)) (offs : List Nat),
      (∀ k, nx = some k → k < 2 ^ 63) →
      chunkOffsets (abs g) e fuel nx count = .ok offs →
      ∃ nxf cf, whileLoop (ρ := Buffer) (fun (st : CSt) => BitVec.sle 0#64 st.2.1 && BitVec.slt st.2.1 (w e))
          (SortSliceBetween_loop1 g) fuel (acc, nextWord nx, w count) =
        some (.done (acc ++ (offs.map w).toArray, nxf, cf)) := by
  have hc0 := h.wf.curSmall; rw [abs_curSz] at hc0
  have h10 := h.wf.cap; rw [abs_offset, abs_curSz] at h10
  intro fuel
  induction fuel with
  | zero => intro nx count acc offs _ hm; simp [chunkOffsets] at hm
  | succ f ih =>
    intro nx count acc offs hs hm
    unfold chunkOffsets at hm
    unfold whileLoop
    have hcondeq : (BitVec.sle 0#64 (nextWord nx) && BitVec.slt (nextWord nx) (w e)) = sortWalkCond (nextWord nx) (w e) := rfl
    simp only [hcondeq]
    by_cases hcnd : sortWalkCond (nextWord nx) (w e) = true
    · simp only [hcnd, Bool.not_true, Bool.false_eq_true, if_false, if_true] at hm ⊢
      cases nx with
      | none => simp at hm
      | some off =>
        simp only at hm
        cases hsl : RV.Buffer.slice (abs g) off with
        | error er => rw [hsl] at hm; simp at hm
        | ok r =>
          obtain ⟨sl, nx'⟩ := r
          rw [hsl] at hm
          simp only at hm
          obtain ⟨win, hgs, _, hk, _, _⟩ := slice_agree g h off (hs off rfl) sl nx' hsl
          cases hw2 : chunkOffsets (abs g) e f nx' (count + 1) with
          | error er => rw [hw2] at hm; simp at hm
          | ok rest =>
            rw [hw2] at hm
            simp only [Except.ok.injEq] at hm
            subst hm
            have hs' : ∀ k, nx' = some k → k < 2 ^ 63 := by intro k e'; have := hk k e'; omega
            have hbody : SortSliceBetween_loop1 g (acc, nextWord (some off), w count) =
                some (LoopOut.next ((if sortChunkStart (w count) then acc.push (w off) else acc), nextWord nx', w (count + 1))) := by
              show SortSliceBetween_loop1 g (acc, w off, w count) = _
              unfold SortSliceBetween_loop1 sortChunkStart
              simp only [hgs, Option.bind_some, lit_w, w_add]
            rw [hbody]
            simp only []
            obtain ⟨nxf, cf, hih⟩ := ih nx' (count + 1) (if sortChunkStart (w count) then acc.push (w off) else acc) rest hs' hw2
            rw [hih]
            refine ⟨nxf, cf, ?_⟩
            by_cases hc : sortChunkStart (w count) = true
            · simp [hc]
            · have hc' : sortChunkStart (w count) = false := by simpa using hc
              simp [hc']
    · have hcf : sortWalkCond (nextWord nx) (w e) = false := by simpa using hcnd
      simp only [hcf, Bool.not_false, if_true, Except.ok.injEq, Bool.false_eq_true, if_false] at hm ⊢
      subst hm
      exact ⟨nextWord nx, w count, by simp⟩

/-- the loop `for _, off := range offsets[1:] { s.sortSmall(left, off); left = off }` -/
theorem smallAll_loop (os : OS) (hos : os.Ok) (lessM : Bytes → Bytes → Bool)
    (sortG : Gen.Buf.SortFn) (sortM : RV.Buffer.SortFn) (hsa : SortAgree sortG sortM) (sc : SortContract sortM)
    (C : Nat) (hC : C + C + C < 2 ^ 62) (post : Bytes) :
    ∀ (cs : List (List Bytes)) (s : sortHelper) (pre : Bytes),
      GWF s.b → (∀ a b, s.less a b = lessM a.toList b.toList) →
      s.b.buf.toList = pre ++ encAll cs.flatten ++ post →
      pre.length + (encAll cs.flatten).length ≤ s.b.offset.toNat →
      (∀ c ∈ cs, c ≠ []) → TmpInv C s.tmp → 3 * (8 + (encAll cs.flatten).length) ≤ C →
      ∃ s', forEachL (ρ := Buffer) (SortSliceBetween_loop2 os sortG) ((boundaries pre.length cs).tail.map w) (s, w pre.length) =
          some (.done (s', w (pre.length + (encAll cs.flatten).length))) ∧
        sortSmallAll sortM lessM (abs s.b) (boundaries pre.length cs) = .ok (abs s'.b) ∧
        GWF s'.b ∧ s'.offsets = s.offsets ∧ s'.less = s.less ∧ TmpInv C s'.tmp ∧ s'.b.offset = s.b.offset ∧
        ∃ cs', ChunkRel lessM cs' cs ∧ s'.b.buf.toList = pre ++ encAll cs'.flatten ++ post := by
  intro cs
  induction cs with
  | nil =>
    intro s pre hg _ hbuf _ _ ht _
    refine ⟨s, ?_, ?_, hg, rfl, rfl, ht, rfl, [], ChunkRel.nil, hbuf⟩
    · simp [boundaries, forEachL, encAll_nil]
    · simp [boundaries, sortSmallAll]
  | cons c cs ih =>
    intro s pre hg hless hbuf hoff hne ht hC1
    have hflat : (encAll (c :: cs).flatten).length = (encAll c).length + (encAll cs.flatten).length := by
      rw [List.flatten_cons, encAll_append, List.length_append]
    have hbuf' : s.b.buf.toList = pre ++ encAll c ++ (encAll cs.flatten ++ post) := by
      rw [hbuf, List.flatten_cons, encAll_append]; simp
    obtain ⟨s1, hs1, hm1, ho1, hl1, ht1, hg1, hoff1, c', hp, hsrt, hb1⟩ :=
      tie_sortSmall_enc os hos lessM sortG sortM hsa sc C hC s hg hless pre _ c (hne c List.mem_cons_self) hbuf'
        (by omega) ht (by omega)
    have hlen' : (encAll c').length = (encAll c).length := encAll_length_perm hp
    have hpre1 : (pre ++ encAll c').length = pre.length + (encAll c).length := by rw [List.length_append, hlen']
    obtain ⟨s2, hs2, hm2, hg2, ho2, hl2, ht2, hoff2, cs', hrel, hb2⟩ :=
      ih s1 (pre ++ encAll c') hg1 (by intro a b; rw [hl1]; exact hless a b)
        (by rw [hb1]; simp) (by rw [hpre1, hoff1]; omega) (fun x hx => hne x (List.mem_cons_of_mem _ hx)) ht1 (by omega)
    rw [hpre1] at hs2 hm2
    obtain ⟨t, htl⟩ := boundaries_cons_head (pre.length + (encAll c).length) cs
    refine ⟨s2, ?_, ?_, hg2, by rw [ho2, ho1], by rw [hl2, hl1], ht2, by rw [hoff2, hoff1], c' :: cs', ChunkRel.cons hp hsrt hrel, ?_⟩
    · simp only [boundaries, List.tail_cons]
      rw [htl] at hs2 ⊢
      simp only [List.map_cons, forEachL, List.tail_cons] at hs2 ⊢
      have hbody : SortSliceBetween_loop2 os sortG (w (pre.length + (encAll c).length)) (s, w pre.length) =
          some (LoopOut.next (s1, w (pre.length + (encAll c).length))) := by
        unfold SortSliceBetween_loop2
        simp only [hs1, Option.bind_some]
      rw [hbody]
      simp only []
      rw [hs2, hflat]
      congr 4; omega
    · simp only [boundaries]
      rw [htl, sortSmallAll, hm1]
      simp only
      rw [← htl]
      exact hm2
    · rw [hb2]; simp [encAll_append]

theorem sdiv10_w (a : Nat) (ha : a < 2 ^ 63) : BitVec.sdiv (w a) 10#64 = w (a / 10) := by
  apply BitVec.eq_of_toInt_eq
  rw [BitVec.toInt_sdiv, toInt_w a ha, toInt_w _ (by omega)]
  have : (10#64).toInt = 10 := by decide
  rw [this]
  have h2 : (a : Int).tdiv 10 = ((a / 10 : Nat) : Int) := by
    rw [Int.tdiv_eq_ediv_of_nonneg (by omega)]; omega
  rw [h2]
  apply Int.bmod_eq_of_le <;> omega

theorem chunkCond_eq (e : BitVec 64) :
    (fun (x : CSt) => match x with | (_, next_3, _) => (BitVec.sle 0#64 next_3 && BitVec.slt next_3 e)) =
      (fun (st : CSt) => BitVec.sle 0#64 st.2.1 && BitVec.slt st.2.1 e) := by
  funext ⟨_, _, _⟩; rfl

theorem rdI_last (l : List Nat) (hl : l ≠ []) (hsz : l.length < 2 ^ 62) :
    rdI (l.map w).toArray (BitVec.ofNat 64 (l.map w).toArray.size - 1#64) = some (w (l.getLast hl)) := by
  have hlen : 0 < l.length := List.length_pos_iff.mpr hl
  have hs : (l.map w).toArray.size = l.length := by simp
  rw [hs, lit_w, show (1#64) = w 1 from rfl, w_sub _ _ (by omega)]
  apply rdI_w l (l.length - 1) _ (by omega)
  rw [List.getLast_eq_getElem]
  exact List.getElem?_eq_getElem (by omega)

/-- `SortSliceBetween(start, end, less)` on a range `[start, end)` holding the encoded slices `S`:
the generated function and the model both succeed, with related buffers. -/
theorem tie_sortSliceBetween_enc (os : OS) (hos : os.Ok) (lessM : Bytes → Bytes → Bool)
    (lessG : Array (BitVec 8) → Array (BitVec 8) → Bool) (hless : ∀ a b, lessG a b = lessM a.toList b.toList)
    (sortG : Gen.Buf.SortFn) (sortM : RV.Buffer.SortFn) (hsa : SortAgree sortG sortM) (sc : SortContract sortM)
    (g : Buffer) (h : GWF g) (pre post : Bytes) (S : List Bytes)
    (hbuf : g.buf.toList = pre ++ encAll S ++ post)
    (hoff : pre.length + (encAll S).length ≤ g.offset.toNat)
    (hS : S ≠ []) (h0 : pre.length ≠ 0) (hsmall : pre.length + (encAll S).length < 2 ^ 56) :
    ∃ g', SortSliceBetween os sortG g (w pre.length) (w (pre.length + (encAll S).length)) lessG = some g' ∧
      sortSliceBetween sortM lessM (abs g) pre.length (pre.length + (encAll S).length) = .ok (abs g') := by
  have hw := h.wf
  have hcur := hw.curSmall; rw [abs_curSz] at hcur
  have hcap := hw.cap; rw [abs_offset, abs_curSz] at hcap
  have hge := encAll_length_ge S
  have hpos : 0 < (encAll S).length := by
    rcases Nat.eq_zero_or_pos (encAll S).length with hz | hz
    · exact absurd (encAll_eq_nil (List.length_eq_zero_iff.mp hz)) hS
    · exact hz
  obtain ⟨e, he⟩ : ∃ e, pre.length + (encAll S).length = e := ⟨_, rfl⟩
  -- the model's view
  have hd := data_split g (pre ++ encAll S) post hbuf (by simp only [List.length_append]; exact hoff)
  generalize hpD : post.take (g.offset.toNat - (pre ++ encAll S).length) = postD at hd
  have hlenD := hw.len; rw [abs_offset] at hlenD
  have hl : (abs g).data.length = pre.length + (encAll S).length + postD.length := by
    rw [hd]; simp only [List.length_append]
  -- the chunks
  let cs := chunks 1024 S.length S
  have hflat : cs.flatten = S := chunks_flatten 1024 (by omega) _ _ (Nat.le_refl _)
  have hne : ∀ c ∈ cs, c ≠ [] := fun c hc => (chunks_nonempty 1024 (by omega) _ _ c hc).1
  have hcsl : cs.length ≤ S.length := chunks_length_le 1024 _ _
  have hoffs : marks 0 pre.length S ++ [pre.length + (encAll S).length] = boundaries pre.length cs :=
    marks_boundaries S.length S 0 pre.length (by omega) (Nat.le_refl _)
  have hchunk := chunkOffsets_spec (abs g) hw postD e S pre ((abs g).offset + 2) 0 hd he
    (by rw [abs_offset]; omega) (Or.inl hS) (by omega)
  obtain ⟨t, htm⟩ := marks_head S hS pre.length
  have hmne : marks 0 pre.length S ≠ [] := by rw [htm]; simp
  have hlast_mem : (marks 0 pre.length S).getLast hmne ∈ marks 0 pre.length S := List.getLast_mem _
  have hlt := marks_lt S 0 pre.length _ hlast_mem
  have hmlen : (marks 0 pre.length S).length ≤ S.length + 1 := by
    have := congrArg List.length hoffs
    rw [List.length_append, boundaries_length] at this
    simp at this; omega
  -- generated code: the chunk loop
  unfold SortSliceBetween
  rw [he]
  have c1 : BitVec.sle (w e) (w pre.length) = false := by
    rw [sle_w _ _ (by omega) (by omega)]; simp; omega
  have c2 : (w pre.length == 0#64) = false := by
    rw [show (0#64) = w 0 from rfl, w_beq _ _ (by omega) (by omega)]; simp [h0]
  simp only [c1, c2, Bool.false_eq_true, if_false, chunkCond_eq]
  obtain ⟨nxf, cf, hloop⟩ := chunk_loop e g h (g.offset.toNat + 2) (some pre.length) 0 #[] (marks 0 pre.length S)
    (by intro k hk; simp only [Option.some.injEq] at hk; omega) hchunk
  have e0 : nextWord (some pre.length) = w pre.length := rfl
  have e00 : w 0 = 0#64 := rfl
  rw [e0, e00] at hloop
  rw [hloop]
  simp only [Option.bind_some, Array.empty_append]
  have hsz9 : ((marks 0 pre.length S).map w).toArray.size = (marks 0 pre.length S).length := by simp
  have hg1 : Gen.Buf.guard (BitVec.slt 0#64 (BitVec.ofNat 64 ((marks 0 pre.length S).map w).toArray.size)) = some () := by
    rw [hsz9, lit_w, lit_w, slt_w _ _ (by omega) (by omega)]
    have : 0 < (marks 0 pre.length S).length := List.length_pos_iff.mpr hmne
    simp [Gen.Buf.guard, this]
  rw [hg1, rdI_last _ hmne (by omega)]
  simp only [Option.bind_some]
  have c3 : (w ((marks 0 pre.length S).getLast hmne) != w e) = true := by
    rw [bne_iff_ne]; intro hc
    have := (w_inj _ _ (by omega) (by omega)).mp hc
    omega
  simp only [c3, if_true]
  have hpush : (((marks 0 pre.length S).map w).toArray.push (w e)) = ((boundaries pre.length cs).map w).toArray := by
    rw [← hoffs, he]; simp
  rw [hpush]
  -- the temporary buffer
  have hsub : w e - w pre.length = w (encAll S).length := by
    rw [w_sub _ _ (by omega)]; congr 1; omega
  have hcapw : scale11 (BitVec.sdiv (w e - w pre.length) 2#64) =
      w ((encAll S).length / 2 + (encAll S).length / 2 / 10) := by
    rw [hsub, sdiv2_w _ (by omega)]
    unfold scale11
    rw [sdiv10_w _ (by omega), w_add]
  rw [hcapw]
  obtain ⟨tmp, htmp, hatmp, hgtmp⟩ := newBuffer_agree os hos ((encAll S).length / 2 + (encAll S).length / 2 / 10) (by omega)
  rw [htmp]
  simp only [Option.bind_some]
  let C := 3 * e + 88
  have hC : C + C + C < 2 ^ 62 := by show (3 * e + 88) + (3 * e + 88) + (3 * e + 88) < 2 ^ 62; omega
  have htinv : TmpInv C tmp := by
    have hcapT : (abs tmp).curSz ≤ (encAll S).length + 64 := by
      rw [hatmp]; unfold newBuffer; simp only
      split
      · rw [k_defaultCapacity]; omega
      · omega
    refine ⟨hgtmp, ?_, ?_, ?_⟩
    · have : tmp.maxSz.toNat = 0 := by have := congrArg Buf.maxSz hatmp; rw [abs_maxSz] at this; rw [this]; rfl
      exact BitVec.eq_of_toNat_eq this
    · have : tmp.padding.toNat = 8 := by have := congrArg Buf.padding hatmp; rw [abs_padding] at this; rw [this]; rfl
      omega
    · rw [abs_curSz] at hcapT; show tmp.curSz.toNat ≤ 3 * e + 88; omega
  -- offsets[0], offsets[1:]
  obtain ⟨tb, htb⟩ := boundaries_cons_head pre.length cs
  have hrd0 : rdI ((boundaries pre.length cs).map w).toArray 0#64 = some (w pre.length) := by
    have := rdI_w (boundaries pre.length cs) 0 pre.length (by omega) (by rw [htb]; rfl)
    exact this
  have hdrop : dropI ((boundaries pre.length cs).map w).toArray 1#64 = some ((boundaries pre.length cs).tail.map w).toArray := by
    unfold dropI
    have : (1#64).toInt = 1 := by decide
    have h1n : (1#64).toNat = 1 := by decide
    rw [this, h1n, if_pos ⟨by omega, by simp [boundaries_length]⟩]
    congr 1
    apply Array.ext'
    simp [List.extract, List.drop_one, boundaries_length]
    apply List.take_of_length_le
    simp [boundaries_length]
  rw [hrd0, hdrop]
  simp only [Option.bind_some]
  unfold forEach
  rw [List.toList_toArray]
  obtain ⟨s24, hfe, hmall, hg24, ho24, hl24, ht24, hoff24, cs', hrel, hb24⟩ :=
    smallAll_loop os hos lessM sortG sortM hsa sc C hC post cs
      { offsets := ((boundaries pre.length cs).map w).toArray, b := g, tmp := tmp, less := lessG, small := #[] } pre
      h hless (by rw [hflat]; exact hbuf) (by rw [hflat]; exact hoff) hne htinv
      (by rw [hflat]; show 3 * (8 + (encAll S).length) ≤ 3 * e + 88; omega)
  rw [hfe]
  simp only [Option.bind_some]
  -- the recursive sort
  have hperm' : cs'.flatten.Perm S := hflat ▸ hrel.flatten_perm
  have hlenE : (encAll cs'.flatten).length = (encAll S).length := encAll_length_perm hperm'
  have hb' : boundaries pre.length cs' = boundaries pre.length cs := hrel.boundaries_eq _
  have hcl : cs'.length = cs.length := hrel.length_eq
  have hsz14 : ((boundaries pre.length cs).map w).toArray.size = cs.length + 1 := by simp [boundaries_length]
  have hinv : SortInv lessM C ((boundaries pre.length cs').map w).toArray s24 :=
    ⟨by intro a b; rw [hl24]; exact hless a b, by rw [ho24, hb'], ht24, by rw [hg24.size]; have := hg24.wf.curSmall; rwa [abs_curSz] at this⟩
  obtain ⟨s26, win, hsort, hmrec, habs⟩ := tie_sort_enc os hos lessM C cs' pre.length (by omega)
    (by rw [hlenE]; show 3 * (pre.length + (encAll S).length) + 24 ≤ 3 * e + 88; omega)
    (by rw [hlenE]; show (3 * e + 88) + (3 * e + 88) + (pre.length + (encAll S).length) + (pre.length + (encAll S).length) < 2 ^ 62; omega)
    (cs.length + 1 + 1) 0 cs'.length s24 pre post (by omega) (Nat.le_refl _) (by omega) (by simp [encAll_nil])
    (by simp only [List.drop_zero, Nat.sub_zero, List.take_length]; exact hb24)
    (by simp only [List.drop_zero, Nat.sub_zero, List.take_length]; rw [hlenE, hoff24]; exact hoff) hinv
  have hhi : BitVec.ofNat 64 (cs.length + 1) - 1#64 = w cs'.length := by
    rw [lit_w, show (1#64) = w 1 from rfl, w_sub _ _ (by omega)]; congr 1; omega
  rw [hsz14, hhi, show (0#64) = w 0 from rfl, hsort]
  simp only [Option.bind_some]
  refine ⟨s26.b, rfl, ?_⟩
  -- the model
  unfold sortSliceBetween
  rw [k_sortEmptyRange _ _ (by omega) (by omega), k_sortStartZero _ (by omega)]
  have e1 : ¬ e ≤ pre.length := by omega
  simp only [e1, h0, decide_false, Bool.false_eq_true, if_false]
  rw [hchunk]
  simp only
  rw [List.getLast?_eq_some_getLast hmne]
  simp only
  have hne' : ((marks 0 pre.length S).getLast hmne != e) = true := by simp; omega
  rw [hne']
  simp only [if_true]
  rw [← he, hoffs, hmall]
  simp only
  rw [boundaries_length, show cs.length + 1 - 1 = cs'.length by omega, ← hb', hmrec, habs]

/-- `SortSlice(less)`: the whole written range, which holds the encoded slices `S` -/
theorem tie_sortSlice_enc (os : OS) (hos : os.Ok) (lessM : Bytes → Bytes → Bool)
    (lessG : Array (BitVec 8) → Array (BitVec 8) → Bool) (hless : ∀ a b, lessG a b = lessM a.toList b.toList)
    (sortG : Gen.Buf.SortFn) (sortM : RV.Buffer.SortFn) (hsa : SortAgree sortG sortM) (sc : SortContract sortM)
    (g : Buffer) (h : GWF g) (pre post : Bytes) (S : List Bytes)
    (hbuf : g.buf.toList = pre ++ encAll S ++ post)
    (hpad : pre.length = g.padding.toNat) (hoff : pre.length + (encAll S).length = g.offset.toNat)
    (hS : S ≠ []) (h0 : pre.length ≠ 0) (hsmall : pre.length + (encAll S).length < 2 ^ 56) :
    ∃ g', SortSlice os sortG g lessG = some g' ∧ sortSlice sortM lessM (abs g) = .ok (abs g') := by
  obtain ⟨g', h1, h2⟩ := tie_sortSliceBetween_enc os hos lessM lessG hless sortG sortM hsa sc g h pre post S hbuf
    (by omega) hS h0 hsmall
  refine ⟨g', ?_, ?_⟩
  · unfold SortSlice StartOffset
    simp only [Option.bind_some]
    rw [hoff, hpad, w_toNat_self, w_toNat_self] at h1
    rw [h1]; rfl
  · unfold sortSlice
    rw [abs_padding, abs_offset, ← hpad, ← hoff]
    exact h2


/-- an empty or inverted range: both leave the buffer alone -/
theorem sortSliceBetween_empty_agree (os : OS) (sortG : Gen.Buf.SortFn) (sortM : RV.Buffer.SortFn)
    (lessM : Bytes → Bytes → Bool) (lessG : Array (BitVec 8) → Array (BitVec 8) → Bool) (g : Buffer)
    (start end_ : Nat) (hs : start < 2 ^ 62) (he : end_ < 2 ^ 62) (hle : end_ ≤ start) :
    SortSliceBetween os sortG g (w start) (w end_) lessG = some g ∧
      sortSliceBetween sortM lessM (abs g) start end_ = .ok (abs g) := by
  refine ⟨?_, sortSliceBetween_empty sortM lessM (abs g) start end_ hs he hle⟩
  unfold SortSliceBetween
  rw [sle_w _ _ (by omega) (by omega)]
  simp [hle]

/-- `start == 0` with a non-empty range: both panic ("start can never be zero") -/
theorem sortSliceBetween_zero_agree (os : OS) (sortG : Gen.Buf.SortFn) (sortM : RV.Buffer.SortFn)
    (lessM : Bytes → Bytes → Bool) (lessG : Array (BitVec 8) → Array (BitVec 8) → Bool) (g : Buffer)
    (end_ : Nat) (he : end_ < 2 ^ 62) (hpos : 0 < end_) :
    SortSliceBetween os sortG g (w 0) (w end_) lessG = none ∧
      sortSliceBetween sortM lessM (abs g) 0 end_ = .error .startZero := by
  refine ⟨?_, sortSliceBetween_zero sortM lessM (abs g) end_ he hpos⟩
  unfold SortSliceBetween
  rw [sle_w _ _ (by omega) (by omega)]
  have : ¬ end_ ≤ 0 := by omega
  simp only [this, decide_false, Bool.false_eq_true, if_false]
  rfl

end RV.TieBuffer
