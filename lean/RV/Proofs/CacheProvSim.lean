import RV.Proofs.CacheProvView
/-!
# Every step of the Cache model is an abstract step of its view (`astep_of_step`)
-/
namespace RV.Cache
open Gen.Cache

theorem setCl_cl_eq (s : State) (t : Tid) (pc : CPc) : (setCl s t pc).cl = updCl s.cl t pc := rfl

theorem storeDel_cases' (st : Store) (em : Em) (k : Hash) (c : Conf) :
    ((storeDel st em k c).1 = st ∧ (storeDel st em k c).2.2.2 = 0) ∨
    (∃ e, st.lookup k = some e ∧ (c = 0#64 ∨ c = e.conflict) ∧ (storeDel st em k c).1 = st.erase k ∧
      (storeDel st em k c).2.2.2 = e.value) := by
  unfold storeDel
  split
  · exact Or.inl ⟨rfl, rfl⟩
  · rename_i e he
    split
    · exact Or.inl ⟨rfl, rfl⟩
    · rename_i hm
      exact Or.inr ⟨e, he, mismatch_false (by simpa [delConflictMismatch] using hm), rfl, rfl⟩

theorem flag_dropIsUpdate (f : Flag) : dropIsUpdate f.code = true ↔ f = .upd := by
  cases f <;> simp [dropIsUpdate, Flag.code, itemNew, itemDelete, itemUpdate]

theorem flag_clearEvicts (f : Flag) : clearEvictsItem f.code = true ↔ f ≠ .upd := by
  cases f <;> simp [clearEvictsItem, Flag.code, itemNew, itemDelete, itemUpdate]

theorem evictAll_view (s : State) (st : Store) (ks : List Hash) :
    (evictAll s st ks).view = { s.view with log := evLog st ks ++ s.log } := by
  induction ks generalizing s with
  | nil => rfl
  | cons k rest ih =>
    unfold evictAll evLog
    split
    · rw [ih]; simp [*]
    · rw [ih]; simp [*, State.view]

theorem evictAll_store (s : State) (st : Store) (ks : List Hash) : (evictAll s st ks).store = s.store := by
  have := congrArg View.store (evictAll_view s st ks); exact this

theorem recv_of_recvBuf {s s1 : State} {x : BufElem} (h : recvBuf s = some (x, s1)) : Recv s.view x s1.view := by
  obtain ⟨rest, hb, (⟨hq, rfl⟩ | ⟨t0, e, q, hq, rfl⟩)⟩ := recvBuf_cases h
  · exact Recv.plain (w := s.view) rest hb hq
  · exact Recv.unblock (w := s.view) rest t0 e q hb hq

theorem astep_clientStep {cfg : Cfg} {s s' : State} {t : Tid} {ch : Choice}
    (hs : clientStep cfg s t ch = some s') : AStep s.view s'.view := by
  apply clientStep_cases hs (motive := fun s' => AStep s.view s'.view)
  case setStart =>
    intro h c v cost ttl hpc _
    unfold stSetStart
    split
    · exact AStep.client s.view t _ _ _ hpc (.setStartFail ..)
    · split
      · exact AStep.client s.view t _ _ _ hpc (.setStartOk ..)
      · split
        · exact AStep.client s.view t _ _ _ hpc (.setStartFail ..)
        · exact AStep.client s.view t _ _ _ hpc (.setStartOk ..)
  case setUpd =>
    intro i hpc _
    unfold stSetUpd
    dsimp only
    rcases storeUpdate_cases cfg s.store s.em i with ⟨h1, h2⟩ | ⟨e, he, hc, h1, h2, h3⟩
    · rw [h1]; simp only [Bool.false_eq_true, if_false]
      have := AStep.client s.view t _ _ _ hpc (.setUpdNo i)
      simpa [State.view, h2, setCl_cl_eq] using this
    · rw [h3]; simp only [if_true]
      have := AStep.setUpdOk s.view t i e hpc he hc
      simpa [State.view, h1, h2, setCl_cl_eq] using this

  case setExit => intro i prev hpc _; exact AStep.client s.view t _ _ _ hpc (.setExit i prev)
  case setSend =>
    intro i hpc _
    unfold stSetSend
    split
    · exact AStep.sendOk s.view t i hpc
    · exact AStep.client s.view t _ _ _ hpc (.setSendFull i)
  case setRetTrue => intro i hpc _; exact AStep.client s.view t _ _ _ hpc (.setRetTrue i)
  case setRetDrop =>
    intro i hpc _
    unfold stSetRetDrop
    split
    · rename_i hf
      exact AStep.client s.view t _ _ _ hpc (.setRetDropUpd i ((flag_dropIsUpdate _).mp hf))
    · rename_i hf
      have := AStep.client s.view t _ _ _ hpc (.setRetDropNew i (fun e => hf ((flag_dropIsUpdate _).mpr e)))
      simpa [State.view, setCl_cl_eq] using this
  case delStart =>
    intro h c hpc _
    unfold stDelStart
    split
    · exact AStep.client s.view t _ _ _ hpc (.delClosed h c)
    · dsimp only
      rcases storeDel_cases' s.store s.em h c with ⟨h1, h2⟩ | ⟨e, he, hc, h1, h2⟩
      · have := AStep.client s.view t _ _ _ hpc (.delNo h c)
        simpa [State.view, setCl_cl_eq, h1, h2] using this
      · have := AStep.delOk s.view t h c e hpc he hc
        simpa [State.view, setCl_cl_eq, h1, h2] using this
  case delExit => intro h c prev hpc _; exact AStep.client s.view t _ _ _ hpc (.delExit h c prev)
  case delSend =>
    intro h c hpc _
    unfold stDelSend sendBlocking
    split
    · exact AStep.sendNow s.view t _ _ _ _ hpc (.del h c)
    · exact AStep.sendBlock s.view t _ _ _ _ hpc (.del h c)
  case delSent => intro h hpc _; exact AStep.client s.view t _ _ _ hpc (.delSent h)
  case waitStart =>
    intro hpc _
    unfold stWaitStart
    split
    · exact AStep.client s.view t _ _ _ hpc .waitClosed
    · exact AStep.client s.view t _ _ _ hpc .waitStart
  case waitSend =>
    intro hpc _
    unfold stWaitSend sendBlocking
    split
    · exact AStep.sendNow s.view t _ _ _ _ hpc (.wait _)
    · exact AStep.sendBlock s.view t _ _ _ _ hpc (.wait _)
  case waitRecv =>
    intro id hpc _ hr
    unfold stWaitRecv at hr
    split at hr
    · simp only [Option.some.injEq] at hr; subst hr
      exact AStep.client s.view t _ _ _ hpc (.waitRecv id)
    · simp at hr
  case waitDone => intro hpc _; exact AStep.client s.view t _ _ _ hpc .waitDone
  case getStart =>
    intro h c hpc hr
    unfold stGetStart at hr
    dsimp only at hr
    split at hr
    · simp only [Option.some.injEq] at hr; subst hr
      exact AStep.client s.view t _ _ _ hpc (.getClosed h c)
    · split at hr
      · simp only [Option.some.injEq] at hr; subst hr
        exact AStep.client s.view t _ _ _ hpc (.getStart h c)
      · split at hr
        · simp at hr
        · simp only [Option.some.injEq] at hr; subst hr
          have := AStep.client s.view t _ _ _ hpc (.getStart h c)
          simpa [State.view, setCl_cl_eq] using this
      · simp at hr
  case getRead => intro h c hpc _; exact AStep.client s.view t _ _ _ hpc (.getRead h c)
  case getCheck => intro h c e hpc _; exact AStep.client s.view t _ _ _ hpc (.getCheck h c e s.clock)
  case getMetric =>
    intro h c r hpc _
    have := AStep.client s.view t _ _ _ hpc (.getMetric h c r)
    simpa [State.view, setCl_cl_eq, stGetMetric] using this
  case ttlRead => intro h c hpc _; exact AStep.client s.view t _ _ _ hpc (.ttlRead h c)
  case ttlCheck =>
    intro h c e hpc _
    unfold stTtlCheck
    split
    · exact AStep.client s.view t _ _ _ hpc (.ttlCheckNone h c e)
    · rename_i v hv
      exact AStep.client s.view t _ _ _ hpc (.ttlCheckSome h c e s.clock v hv)
  case ttlExp =>
    intro h c hpc _
    unfold stTtlExp
    dsimp only
    split
    · exact AStep.client s.view t _ _ _ hpc (.ttlExpNone h c)
    · exact AStep.client s.view t _ _ _ hpc (.ttlExp h c _)
  case ttlNow =>
    intro h c exp hpc _
    unfold stTtlNow
    split
    · exact AStep.client s.view t _ _ _ hpc (.ttlNowExpired h c exp)
    · exact AStep.client s.view t _ _ _ hpc (.ttlNow h c exp)
  case ttlUntil => intro h c exp hpc _; exact AStep.client s.view t _ _ _ hpc (.ttlUntil h c exp _)
  case iterStart =>
    intro n hpc _
    unfold stIterStart
    split
    · exact AStep.client s.view t _ _ _ hpc (.iterClosed n)
    · exact AStep.client s.view t _ _ _ hpc (.iterStart n)
  case iterShard =>
    intro k n seen hpc hr
    unfold stIterShard at hr
    dsimp only at hr
    split at hr
    · split at hr
      · simp at hr
      · split at hr
        · simp at hr
        · split at hr <;> (simp only [Option.some.injEq] at hr; subst hr)
          · exact AStep.client s.view t _ _ _ hpc (.iterEnd k n seen _)
          · exact AStep.client s.view t _ _ _ hpc (.iterNext k n seen _)
    · simp at hr
  case clrStart =>
    intro closing hpc _
    unfold stClrStart
    split
    · cases closing
      · exact AStep.client s.view t _ _ _ hpc .clrClosedClear
      · exact AStep.client s.view t _ _ _ hpc .clrClosedClose
    · exact AStep.client s.view t _ _ _ hpc (.clrStart closing)
  case clrDrain =>
    intro closing hpc _
    unfold stClrDrain
    split
    · rename_i hr
      have hb : s.view.buf = [] := by
        unfold recvBuf at hr
        split at hr
        · assumption
        · split at hr <;> simp at hr
      exact AStep.client s.view t _ _ _ hpc (.clrDrainEmpty closing hb)
    · rename_i id s1 hr
      have := AStep.drainMarker s.view t closing id _ hpc (recv_of_recvBuf hr)
      simpa [State.view] using this
    · rename_i i s1 hr
      have := AStep.drainItem s.view t closing i _ hpc (recv_of_recvBuf hr)
      unfold drainLog at this
      split
      · rename_i hf
        rw [if_neg ((flag_clearEvicts _).mp hf)] at this
        simpa [State.view] using this
      · rename_i hf
        rw [if_pos (by simpa [flag_clearEvicts] using hf)] at this
        simpa [State.view] using this
  case clrPolicy => intro closing hpc _; exact AStep.client s.view t _ _ _ hpc (.clrPolicy closing)
  case clrShard =>
    intro closing k hpc hr
    unfold stClrShard at hr
    split at hr
    · split at hr
      · simp at hr
      · split at hr
        · simp at hr
        · rename_i ks _ hord
          simp only [Option.some.injEq] at hr; subst hr
          have hord' : isShardOrder s.view.store k ks = true := by
            show isShardOrder s.store k ks = true
            simpa using hord
          by_cases hk : k + 1 = numShards.toNat
          · have := AStep.clrShard s.view t closing k ks _ hpc hord' (Or.inl rfl)
            have hv := evictAll_view s s.store ks
            simp only [State.view, View.mk.injEq] at hv
            simpa [State.view, setCl_cl_eq, hk, hv] using this
          · have := AStep.clrShard s.view t closing k ks _ hpc hord' (Or.inr rfl)
            have hv := evictAll_view s s.store ks
            simp only [State.view, View.mk.injEq] at hv
            simpa [State.view, setCl_cl_eq, hk, hv] using this
    · simp at hr
  case clrEm => intro closing hpc _; exact AStep.client s.view t _ _ _ hpc (.clrEm closing)
  case clrMetrics =>
    intro closing hpc _
    have := AStep.client s.view t _ _ _ hpc (.clrMetrics closing)
    unfold stClrMetrics
    split <;> simpa [State.view, setCl_cl_eq] using this
  case clrRestart =>
    intro closing hpc _
    unfold stClrRestart
    dsimp only
    split
    · have := AStep.clrRestart s.view t closing _ _ hpc (Or.inl ⟨rfl, rfl⟩)
      simpa [State.view, setCl_cl_eq] using this
    · have := AStep.clrRestart s.view t closing _ _ hpc (Or.inr ⟨rfl, rfl⟩)
      simpa [State.view, setCl_cl_eq] using this
  case clsFinish => intro hpc _; exact AStep.clsFinish s.view t hpc
  case updMax => intro m hpc _; exact AStep.client s.view t _ _ _ hpc (.updMax m)
  case readMax => intro hpc _; exact AStep.client s.view t _ _ _ hpc (.readMax _)
  case readRem => intro hpc _; exact AStep.client s.view t _ _ _ hpc (.readRem _)

theorem astep_app {s s' : State} {pc pc' : APc} {l : List Ev} (hpc : s.app = pc) (hm : AMove pc pc' l)
    (hv : s'.view = { s.view with app := pc', log := l ++ s.log }) : AStep s.view s'.view := by
  rw [hv]; exact AStep.applier s.view pc' l (by rw [show s.view.app = _ from hpc]; exact hm)

theorem astep_applierStep {cfg : Cfg} {s s' : State} {ch : Choice}
    (hs : applierStep cfg s ch = some s') : AStep s.view s'.view := by
  apply applierStep_cases hs (motive := fun s' => AStep s.view s'.view)
  case idle =>
    intro hpc hr
    unfold apIdle at hr
    split at hr
    · unfold apSelItem at hr
      split at hr
      · simp at hr
      · rename_i id s1 hrecv
        simp only [Option.some.injEq] at hr; subst hr
        exact AStep.selItem s.view _ _ hpc (recv_of_recvBuf hrecv)
      · rename_i i s1 hrecv
        simp only [Option.some.injEq] at hr; subst hr
        exact AStep.selItem s.view _ _ hpc (recv_of_recvBuf hrecv)
    · simp only [Option.some.injEq] at hr; subst hr
      exact astep_app hpc (.selTick) rfl
    · rename_i t
      unfold apSelStop at hr
      split at hr
      · rename_i closing hcl
        simp only [Option.some.injEq] at hr; subst hr
        exact AStep.selStop s.view t _ hpc (Or.inl ⟨closing, hcl, rfl⟩)
      · rename_i hcl
        simp only [Option.some.injEq] at hr; subst hr
        exact AStep.selStop s.view t _ hpc (Or.inr ⟨hcl, rfl⟩)
      · simp at hr
    · simp at hr
  case marker =>
    intro id hpc _
    exact astep_app hpc (.marker id) (by simp [State.view, apMarker])
  case item =>
    intro i hpc _
    exact astep_app hpc (.item i (itemCost cfg i)) (by simp [State.view, apItem])
  case costed =>
    intro i hpc hr
    unfold apCosted at hr
    split at hr
    · rename_i hf
      unfold apCostedNew at hr
      split at hr
      · split at hr
        · simp at hr
        · simp only [Option.some.injEq] at hr; subst hr
          exact astep_app hpc (.costedNew i _ _ hf) rfl
      · simp at hr
    · rename_i hf
      obtain ⟨_, hr⟩ := needNone_some hr
      simp only [Option.some.injEq] at hr; subst hr
      exact astep_app hpc (.costedUpd i hf) (by simp [State.view, apCostedUpd])
    · rename_i hf
      obtain ⟨_, hr⟩ := needNone_some hr
      simp only [Option.some.injEq] at hr; subst hr
      exact astep_app hpc (.costedDel i hf) (by simp [State.view, apCostedDel])
  case added =>
    intro i vs ok hpc _
    unfold apAdded
    split
    · rename_i hok
      subst hok
      have := AStep.addedOk s.view i vs _ hpc (storeSet_cases cfg s.store s.em i)
      simpa [State.view] using this
    · rename_i hok
      have hok' : ok = false := by simpa using hok
      subst hok'
      exact astep_app hpc (.addedNo i vs) rfl
  case victims =>
    intro vs hpc _ hr
    unfold apVictims at hr
    split at hr
    · simp at hr
    · rename_i h cost rest
      simp only [Option.some.injEq] at hr; subst hr
      exact AStep.victims s.view h cost rest _ _ _ hpc (storeDel_cases s.store s.em h 0#64)
  case victimEvict =>
    intro h cost c v rest hpc _
    exact astep_app hpc (.victimEvict h cost c v rest) (by simp [State.view, apVictimEvict])
  case tombPolicy =>
    intro i hpc _
    exact AStep.tombPolicy s.view i _ _ _ hpc (storeDel_cases s.store s.em i.key i.conflict)
  case tombStore =>
    intro v hpc _
    exact astep_app hpc (.tombStore v) (by simp [State.view, apTombStore])
  case tick =>
    intro hpc _
    exact astep_app hpc (.tick s.clock (s.em.grab s.clock).2) (by simp [State.view, apTick])
  case sweep =>
    intro now bs hpc hr
    unfold apSweep at hr
    split at hr
    · simp only [Option.some.injEq] at hr; subst hr
      exact astep_app hpc (.sweepEnd now bs) rfl
    · split at hr
      · simp at hr
      · simp only [Option.some.injEq] at hr; subst hr
        exact astep_app hpc (.sweepKey now bs _ _ _) rfl
    · simp at hr
  case swKey =>
    intro now k c bs hpc _
    unfold apSwKey
    dsimp only
    rcases storeDelExpired_cases s.store s.em k c now with h1 | ⟨e, he, hc, h1, h2, h3, h4⟩
    · rw [h1]; simp only [Bool.false_eq_true, if_false]
      exact astep_app hpc (.swKeyNo now k c bs) rfl
    · rw [h4]; simp only [if_true]
      have := AStep.swKeyDel s.view now k c bs e hpc he hc
      simpa [State.view, h1, h2, h3] using this
  case swStoreDel =>
    intro now k c expr v bs hpc _
    exact astep_app hpc (.swStoreDel now k c expr v bs (polCost s.pol k)) (by simp [State.view, apSwStoreDel])
  case swPolDel =>
    intro now k c expr cost v bs hpc _
    exact astep_app hpc (.swPolDel now k c expr cost v bs) (by simp [State.view, apSwPolDel])
theorem astep_of_step {cfg : Cfg} {s s' : State} {a : Action} (hs : step cfg s a = some s') :
    AStep s.view s'.view := by
  cases a with
  | spawn t c =>
    have hs' : spawnStep s t c = some s' := hs
    unfold spawnStep at hs'
    split at hs'
    · rename_i hpc
      cases c <;> (simp only [Option.some.injEq] at hs'; subst hs')
      · exact AStep.client s.view t _ _ _ hpc (.spSet ..)
      · exact AStep.client s.view t _ _ _ hpc (.spGet ..)
      · exact AStep.client s.view t _ _ _ hpc (.spTtl ..)
      · exact AStep.client s.view t _ _ _ hpc (.spDel ..)
      · exact AStep.client s.view t _ _ _ hpc .spWait
      · exact AStep.client s.view t _ _ _ hpc .spClear
      · exact AStep.client s.view t _ _ _ hpc .spClose
      · exact AStep.client s.view t _ _ _ hpc (.spIter ..)
      · exact AStep.client s.view t _ _ _ hpc (.spUpdMax _)
      · exact AStep.client s.view t _ _ _ hpc .spReadMax
      · exact AStep.client s.view t _ _ _ hpc .spReadRem
    · simp at hs'
  | client t ch => exact astep_clientStep hs
  | applier ch => exact astep_applierStep hs
  | done t =>
    have hs' : doneStep s t = some s' := hs
    unfold doneStep at hs'
    split at hs'
    · rename_i closing happ hpc
      simp only [Option.some.injEq] at hs'; subst hs'
      exact AStep.done s.view t _ happ (Or.inl ⟨closing, hpc, rfl⟩)
    · rename_i happ hpc
      simp only [Option.some.injEq] at hs'; subst hs'
      exact AStep.done s.view t _ happ (Or.inr ⟨hpc, rfl⟩)
    · simp at hs'
  | tick d =>
    simp only [step, Option.some.injEq] at hs; subst hs
    exact AStep.tick s.view
end RV.Cache
