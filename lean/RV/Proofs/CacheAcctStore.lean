import RV.Proofs.CacheAcctBasic
/-!
# The store operations of the Cache model, through `lookup`

Key sets, conflicts of the stored entries and duplicate-freedom of the key list under
`storeUpdate`, `storeSet`, `storeDel`, `storeDelExpired`, `eraseAll`.
-/
namespace RV.Cache
open RV Gen.Cache

/-! ### storeUpdate (`lockedMap.Update`): never changes the key set -/

theorem storeUpdate_isSome (cfg : Cfg) (st : Store) (em : Em) (i : Item) (h : Hash) :
    ((storeUpdate cfg st em i).1.lookup h).isSome = (st.lookup h).isSome := by
  unfold storeUpdate
  split
  · rfl
  · rename_i e he
    split
    · rfl
    · dsimp only
      split
      · rfl
      · dsimp only
        rw [AMap.lookup_insert]
        split
        · rename_i hk; rw [hk, he]; rfl
        · rfl

theorem storeUpdate_lookup (cfg : Cfg) (st : Store) (em : Em) (i : Item) {h : Hash} {e : Entry}
    (hl : (storeUpdate cfg st em i).1.lookup h = some e) :
    st.lookup h = some e ∨ (h = i.key ∧ e.conflict = i.conflict) := by
  unfold storeUpdate at hl
  split at hl
  · exact Or.inl hl
  · split at hl
    · exact Or.inl hl
    · dsimp only at hl
      split at hl
      · exact Or.inl hl
      · dsimp only at hl
        rw [AMap.lookup_insert] at hl
        split at hl
        · rename_i hk
          simp only [Option.some.injEq] at hl
          exact Or.inr ⟨hk, by rw [← hl]⟩
        · exact Or.inl hl

theorem storeUpdate_nodup (cfg : Cfg) (st : Store) (em : Em) (i : Item) (hn : AMap.NodupKeys st) :
    AMap.NodupKeys (storeUpdate cfg st em i).1 := by
  unfold storeUpdate
  split
  · exact hn
  · split
    · exact hn
    · dsimp only
      split
      · exact hn
      · exact AMap.nodup_insert hn _ _

/-! ### storeSet (`lockedMap.Set`): the key is stored afterwards, nothing else changes -/

theorem storeSet_isSome (cfg : Cfg) (st : Store) (em : Em) (i : Item) (h : Hash) :
    ((storeSet cfg st em i).1.lookup h).isSome = ((st.lookup h).isSome || decide (h = i.key)) := by
  unfold storeSet
  split
  · rename_i e he
    have hk : ∀ b : Bool, h = i.key → ((st.lookup h).isSome || b) = true := by
      intro b hk; rw [hk, he]; rfl
    split
    · by_cases hk' : h = i.key
      · simp [hk', he]
      · simp [hk']
    · dsimp only
      split
      · by_cases hk' : h = i.key
        · simp [hk', he]
        · simp [hk']
      · dsimp only
        rw [AMap.lookup_insert]
        by_cases hk' : h = i.key
        · simp [hk']
        · simp [hk']
  · dsimp only
    rw [AMap.lookup_insert]
    by_cases hk' : h = i.key
    · simp [hk']
    · simp [hk']

theorem storeSet_lookup (cfg : Cfg) (st : Store) (em : Em) (i : Item) {h : Hash} {e : Entry}
    (hl : (storeSet cfg st em i).1.lookup h = some e) :
    st.lookup h = some e ∨ (h = i.key ∧ e.conflict = i.conflict) := by
  unfold storeSet at hl
  split at hl
  · split at hl
    · exact Or.inl hl
    · dsimp only at hl
      split at hl
      · exact Or.inl hl
      · dsimp only at hl
        rw [AMap.lookup_insert] at hl
        split at hl
        · rename_i hk
          simp only [Option.some.injEq] at hl
          exact Or.inr ⟨hk, by rw [← hl]⟩
        · exact Or.inl hl
  · dsimp only at hl
    rw [AMap.lookup_insert] at hl
    split at hl
    · rename_i hk
      simp only [Option.some.injEq] at hl
      exact Or.inr ⟨hk, by rw [← hl]⟩
    · exact Or.inl hl

theorem storeSet_nodup (cfg : Cfg) (st : Store) (em : Em) (i : Item) (hn : AMap.NodupKeys st) :
    AMap.NodupKeys (storeSet cfg st em i).1 := by
  unfold storeSet
  split
  · split
    · exact hn
    · dsimp only
      split
      · exact hn
      · exact AMap.nodup_insert hn _ _
  · exact AMap.nodup_insert hn _ _

/-! ### storeDel (`lockedMap.Del`) -/

theorem storeDel_lookup_ne (st : Store) (em : Em) (k : Hash) (c : Conf) {h : Hash} (hne : h ≠ k) :
    (storeDel st em k c).1.lookup h = st.lookup h := by
  unfold storeDel
  split
  · rfl
  · split
    · rfl
    · exact AMap.lookup_erase_ne st hne

/-- the entry is untouched, or it is gone -/
theorem storeDel_self (st : Store) (em : Em) (k : Hash) (c : Conf) :
    (storeDel st em k c).1.lookup k = none ∨ (storeDel st em k c).1 = st := by
  unfold storeDel
  split
  · exact Or.inr rfl
  · split
    · exact Or.inr rfl
    · exact Or.inl (AMap.lookup_erase_self st k)

theorem storeDel_sub (st : Store) (em : Em) (k : Hash) (c : Conf) {h : Hash} {e : Entry}
    (hl : (storeDel st em k c).1.lookup h = some e) : st.lookup h = some e := by
  by_cases hk : h = k
  · subst hk
    rcases storeDel_self st em h c with h1 | h1
    · rw [h1] at hl; cases hl
    · rw [h1] at hl; exact hl
  · rw [storeDel_lookup_ne st em k c hk] at hl; exact hl

/-- with a matching (or zero) conflict the key is gone afterwards -/
theorem storeDel_gone (st : Store) (em : Em) (k : Hash) (c : Conf)
    (hc : ∀ e, st.lookup k = some e → c = 0#64 ∨ c = e.conflict) : (storeDel st em k c).1.lookup k = none := by
  unfold storeDel
  split
  · assumption
  · rename_i e he
    have hm : delConflictMismatch c e.conflict = false := by
      unfold delConflictMismatch
      rcases hc e he with h0 | h0 <;> simp [h0]
    rw [hm]
    exact AMap.lookup_erase_self st k

theorem storeDel_nodup (st : Store) (em : Em) (k : Hash) (c : Conf) (hn : AMap.NodupKeys st) :
    AMap.NodupKeys (storeDel st em k c).1 := by
  unfold storeDel
  split
  · exact hn
  · split
    · exact hn
    · exact AMap.nodup_erase hn k

/-! ### storeDelExpired (`lockedMap.DelExpired`) -/

theorem storeDelExpired_removed (st : Store) (em : Em) (k : Hash) (c : Conf) (now : Time)
    (h : (storeDelExpired st em k c now).2.2.2.2 = true) :
    (storeDelExpired st em k c now).1 = st.erase k := by
  unfold storeDelExpired at h ⊢
  split
  · rename_i he; simp [he] at h
  · rename_i e he
    simp only [he] at h
    split
    · rename_i hm; simp [hm] at h
    · rename_i hm
      split
      · rename_i hsk; simp [hm, hsk] at h
      · rfl

theorem storeDelExpired_kept (st : Store) (em : Em) (k : Hash) (c : Conf) (now : Time)
    (h : (storeDelExpired st em k c now).2.2.2.2 = false) :
    (storeDelExpired st em k c now).1 = st := by
  unfold storeDelExpired at h ⊢
  split
  · rfl
  · split
    · rfl
    · split
      · rfl
      · rename_i e he hm hsk
        simp [he, hm, hsk] at h

/-! ### eraseAll (one shard of `Clear`) -/

theorem eraseAll_lookup (st : Store) (ks : List Hash) (h : Hash) :
    (eraseAll st ks).lookup h = if h ∈ ks then none else st.lookup h := by
  induction ks generalizing st with
  | nil => simp [eraseAll]
  | cons k rest ih =>
    simp only [eraseAll]
    rw [ih, AMap.lookup_erase]
    by_cases h1 : h ∈ rest
    · simp [h1]
    · by_cases h2 : h = k
      · simp [h2]
      · simp [h1, h2]

theorem eraseAll_nodup (st : Store) (ks : List Hash) (hn : AMap.NodupKeys st) : AMap.NodupKeys (eraseAll st ks) := by
  induction ks generalizing st with
  | nil => exact hn
  | cons k rest ih => exact ih _ (AMap.nodup_erase hn k)

/-- an enumeration of shard `k` contains every stored key of that shard -/
theorem isShardOrder_mem {st : Store} {k : Nat} {ks : List Hash} (ho : isShardOrder st k ks = true) {h : Hash}
    (hs : (st.lookup h).isSome = true) (hk : shardIdx h = k) : h ∈ ks := by
  unfold isShardOrder at ho
  simp only [Bool.and_eq_true, List.all_eq_true] at ho
  have hmem : h ∈ shardKeys st k := by
    unfold shardKeys
    rw [List.mem_filter]
    refine ⟨?_, by simpa using hk⟩
    cases hl : st.lookup h with
    | none => rw [hl] at hs; cases hs
    | some e => exact AMap.mem_keys_of_lookup hl
  have := ho.2 h hmem
  simpa using this

/-- … and only stored keys of that shard -/
theorem isShardOrder_sub {st : Store} {k : Nat} {ks : List Hash} (ho : isShardOrder st k ks = true) {h : Hash}
    (hm : h ∈ ks) : (st.lookup h).isSome = true ∧ shardIdx h = k := by
  unfold isShardOrder at ho
  simp only [Bool.and_eq_true, List.all_eq_true] at ho
  have := ho.1.2 h hm
  have hmem : h ∈ shardKeys st k := by simpa using this
  unfold shardKeys at hmem
  rw [List.mem_filter] at hmem
  exact ⟨AMap.lookup_isSome_of_mem_keys hmem.1, by simpa using hmem.2⟩

end RV.Cache
